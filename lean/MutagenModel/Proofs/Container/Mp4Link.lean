/- Proofs/Container/Mp4Link.lean — from a rendered tree to what mutagen's `atom.read` hands to the tag reader: the path
lookup on the parsed atoms finds the atom the tree has there, at its file offset, and reading the children of `ilst`
returns their bodies -/
import MutagenModel.Proofs.Container.Mp4LoadCap
import MutagenModel.Proofs.Container.Mp4New
import MutagenModel.Proofs.Container.Mp4Reader
import MutagenModel.Proofs.Container.Mp4Reader2
set_option linter.unusedVariables false
namespace Mutagen.Mp4C
open Mutagen

/-- the atom at the end of a path of names in a tree (first atom of each name), read structurally -/
def treePath : List Atom → List Bytes → Option Atom
  | _, [] => none
  | l, [n] => l.find? (·.name = n)
  | l, n :: m :: ns =>
    match l.find? (·.name = n) with
    | some (.node _ _ _ cs) => treePath cs (m :: ns)
    | _ => none

/-- the first atom named `n` of a rendered list, as the parser sees it: its annotation at the offset where its bytes are -/
theorem child?_tree (f : Bytes) (n : Bytes) : ∀ (l : List Atom) (base : Nat), wfList l →
    readAt f base (sizeList l) = renderList l →
    (l.find? (·.name = n) = none ∧ child? (annotList base l) n = none) ∨
    (∃ a pos, l.find? (·.name = n) = some a ∧ child? (annotList base l) n = some (a.annot pos) ∧
      readAt f pos a.size = a.render ∧ a.wf) := by
  intro l
  induction l with
  | nil => intro base _ _; left; exact ⟨rfl, rfl⟩
  | cons x r ih =>
    intro base hwf hr
    simp only [wfList] at hwf
    have hr' : readAt f base (x.render.length + (renderList r).length) = x.render ++ renderList r := by
      rw [x.length_render hwf.1, length_renderList r hwf.2]; simpa [sizeList, renderList] using hr
    obtain ⟨hx, hrr⟩ := readAt_split hr'
    rw [x.length_render hwf.1] at hx hrr
    rw [length_renderList r hwf.2] at hrr
    by_cases hn : x.name = n
    · right
      refine ⟨x, base, by simp [List.find?_cons, hn], ?_, hx, hwf.1⟩
      simp [annotList, child?, List.find?_cons, annot_name, hn]
    · rcases ih (base + x.size) hwf.2 hrr with ⟨h1, h2⟩ | ⟨a, pos, h1, h2, h3, h4⟩
      · left
        refine ⟨by simp [List.find?_cons, hn, h1], ?_⟩
        simp only [annotList, child?, List.find?_cons, annot_name, hn, decide_false]
        exact h2
      · right
        refine ⟨a, pos, by simp [List.find?_cons, hn, h1], ?_, h3, h4⟩
        simp only [annotList, child?, List.find?_cons, annot_name, hn, decide_false]
        exact h2

theorem node_children_read (f : Bytes) (n : Bytes) (w : Bool) (sk : Bytes) (cs : List Atom) (pos : Nat)
    (hwf : (Atom.node n w sk cs).wf) (hr : readAt f pos (Atom.node n w sk cs).size = (Atom.node n w sk cs).render) :
    wfList cs ∧ readAt f (pos + hdrLen w + sk.length) (sizeList cs) = renderList cs := by
  obtain ⟨_, _, _, hbody⟩ := header_read _ hwf f pos hr
  simp only [Atom.wf] at hwf
  obtain ⟨_, _, _, _, hcs⟩ := hwf
  simp only [Atom.body, Atom.isWide, List.length_append] at hbody
  have hbody' : readAt f (pos + hdrLen w) (sk.length + (renderList cs).length) = sk ++ renderList cs := hbody
  obtain ⟨_, hk⟩ := readAt_split hbody'
  rw [length_renderList cs hcs] at hk
  exact ⟨hcs, hk⟩

/-- `atoms.path(*names)` on the parsed atoms of a rendered tree ends at the atom the tree has at the end of that path,
annotated at the offset where its bytes are -/
theorem path?_tree (f : Bytes) : ∀ (names : List Bytes), names ≠ [] → ∀ (l : List Atom) (base : Nat), wfList l →
    readAt f base (sizeList l) = renderList l →
    (treePath l names = none ∧ path? (annotList base l) names = none) ∨
    (∃ a pos ps, treePath l names = some a ∧ path? (annotList base l) names = some ps ∧ ps.getLast? = some (a.annot pos) ∧
      readAt f pos a.size = a.render ∧ a.wf) := by
  intro names
  induction names with
  | nil => intro h; exact absurd rfl h
  | cons n rest ih =>
    intro _ l base hwf hr
    cases rest with
    | nil =>
      rw [path?_one]
      rcases child?_tree f n l base hwf hr with ⟨h1, h2⟩ | ⟨a, pos, h1, h2, h3, h4⟩
      · left; exact ⟨by simp [treePath, h1], by simp [h2]⟩
      · right; exact ⟨a, pos, [a.annot pos], by simp [treePath, h1], by simp [h2], rfl, h3, h4⟩
    | cons m ns =>
      rcases child?_tree f n l base hwf hr with ⟨h1, h2⟩ | ⟨a, pos, h1, h2, h3, h4⟩
      · left; exact ⟨by simp [treePath, h1], by simp [path?, h2]⟩
      · cases a with
        | leaf an aw ap =>
          left
          refine ⟨by simp [treePath, h1], ?_⟩
          simp only [path?, h2, Atom.annot, PAtom.children]
          simp [child?]
        | node an aw ask acs =>
          obtain ⟨hcs, hk⟩ := node_children_read f an aw ask acs pos h4 h3
          rcases ih (by simp) acs (pos + hdrLen aw + ask.length) hcs hk with ⟨k1, k2⟩ | ⟨b, bpos, ps, k1, k2, k3, k4, k5⟩
          · left
            refine ⟨by simp [treePath, h1, k1], ?_⟩
            simp only [path?, h2, Atom.annot, PAtom.children] at k2 ⊢
            rw [k2]; rfl
          · right
            refine ⟨b, bpos, (Atom.node an aw ask acs).annot pos :: ps, by simp [treePath, h1, k1], ?_, ?_, k4, k5⟩
            · simp only [path?, h2, Atom.annot, PAtom.children] at k2 ⊢
              rw [k2]; rfl
            · cases ps with
              | nil => simp at k3
              | cons p0 pr => rw [List.getLast?_cons_cons]; exact k3

/-- `atom.read` on every child of a rendered atom list returns the child's body -/
theorem childrenPure_tree (f : Bytes) : ∀ (cs : List Atom) (base : Nat), wfList cs →
    readAt f base (sizeList cs) = renderList cs →
    childrenPure f (annotList base cs) = .ok (cs.map fun c => (c.name, c.body)) := by
  intro cs
  induction cs with
  | nil => intro base _ _; rfl
  | cons x r ih =>
    intro base hwf hr
    simp only [wfList] at hwf
    have hr' : readAt f base (x.render.length + (renderList r).length) = x.render ++ renderList r := by
      rw [x.length_render hwf.1, length_renderList r hwf.2]; simpa [sizeList, renderList] using hr
    obtain ⟨hx, hrr⟩ := readAt_split hr'
    rw [x.length_render hwf.1] at hx hrr
    rw [length_renderList r hwf.2] at hrr
    obtain ⟨_, _, _, hbody⟩ := header_read x hwf.1 f base hx
    have hsz := x.size_eq hwf.1
    have hread : Info.Mp4.atomRead f (x.annot base) = some x.body := by
      unfold Info.Mp4.atomRead
      have hd : (x.annot base).dataoffset = base + hdrLen x.isWide := by cases x <;> simp [Atom.annot, PAtom.dataoffset, Atom.isWide]
      simp only [hd, annot_offset, annot_length]
      rw [show x.size - (base + hdrLen x.isWide - base) = x.body.length by omega, hbody]
      simp
    simp only [annotList, childrenPure, hread, annot_name, ih (base + x.size) hwf.2 hrr, List.map_cons]

/-- what `MP4Tags.load` reads from a rendered tree: when the tree has `moov.udta.meta.ilst` (first atom of each name), the
`(name, body)` of the children of that `ilst`, in order; `none` when it has no such path -/
theorem tagsPure_tree (T : List Atom) (hwf : wfList T) :
    (treePath T ilstPath = none ∧ tagsPure (renderList T) (annotList 0 T) = .ok none) ∨
    (∃ a, treePath T ilstPath = some a ∧
      tagsPure (renderList T) (annotList 0 T) = .ok (some (match a with
        | .node _ _ _ cs => cs.map fun c => (c.name, c.body)
        | .leaf _ _ _ => []))) := by
  have hr : readAt (renderList T) 0 (sizeList T) = renderList T := by
    unfold readAt; rw [← length_renderList T hwf]; simp
  unfold tagsPure
  rcases path?_tree (renderList T) ilstPath (by decide) T 0 hwf hr with ⟨h1, h2⟩ | ⟨a, pos, ps, h1, h2, h3, h4, h5⟩
  · left; exact ⟨h1, by rw [h2]⟩
  · right
    refine ⟨a, h1, ?_⟩
    rw [h2]
    simp only [h3]
    cases a with
    | leaf an aw ap => simp [Atom.annot, PAtom.children, childrenPure]
    | node an aw ask acs =>
      obtain ⟨hcs, hk⟩ := node_children_read _ an aw ask acs pos h5 h4
      simp only [Atom.annot, PAtom.children, childrenPure_tree _ acs _ hcs hk]

theorem find_skip' (pre : List Atom) (nm : Bytes) (h : noName pre nm) (rest : List Atom) :
    (pre ++ rest).find? (·.name = nm) = rest.find? (·.name = nm) := by
  induction pre with
  | nil => rfl
  | cons x r ih =>
    have hx : x.name ≠ nm := h x (by simp)
    simp only [List.cons_append, List.find?_cons, hx, decide_false]
    exact ih (fun a ha => h a (by simp [ha]))

/-- on a layout-shaped tree the path moov → udta → meta → ilst ends at the `ilst` of the tag region -/
theorem treePath_fill : ∀ (frames : List Frame) (names : List Bytes) (h : Hole) (items : List Atom) (w : Bool) (after : List Atom),
    framesNamed frames names → noName h.pre nIlst →
    treePath (fill frames h (Atom.node nIlst w [] items :: after)) (names ++ [nIlst]) = some (Atom.node nIlst w [] items) := by
  intro frames
  induction frames with
  | nil =>
    intro names h items w after hn hp
    cases names with
    | nil =>
      simp only [List.nil_append, treePath, fill, List.append_assoc]
      rw [find_skip' h.pre nIlst hp]
      simp [Atom.name]
    | cons n ns => simp [framesNamed] at hn
  | cons fr r ih =>
    intro names h items w after hn hp
    cases names with
    | nil => simp [framesNamed] at hn
    | cons n ns =>
      simp only [framesNamed] at hn
      obtain ⟨hname, hpre, hr⟩ := hn
      have hstep : treePath (fill (fr :: r) h (Atom.node nIlst w [] items :: after)) (n :: ns ++ [nIlst]) =
          treePath (fill r h (Atom.node nIlst w [] items :: after)) (ns ++ [nIlst]) := by
        cases hns : ns ++ [nIlst] with
        | nil => simp at hns
        | cons m ms =>
          simp only [List.cons_append, hns, treePath, fill, List.append_assoc]
          rw [find_skip' fr.pre n hpre]
          simp [Atom.name, hname]
      rw [hstep]
      exact ih ns h items w after hr hp

/-- the link: what `MP4Tags.load` reads from the file a save leaves (no offset table to patch) is the `(name, body)` of
the item atoms that were saved, in the order written -/
theorem saved_tagsPure (mem : Bool) (L : Layout) (h : L.OK) (items : List Atom) (pad : PadChoice)
    (hfit : wfList (L.saved items pad).top) (hno : L.tableSteps items pad = []) (hdep : depthList (L.saved items pad).top ≤ 65) :
    ∃ g, saveTags mem L.render (ilstData items) pad = (none, g) ∧ parse g = .ok (annotList 0 (L.saved items pad).top) ∧
      tagsPure g (annotList 0 (L.saved items pad).top) = .ok (some (items.map fun c => (c.name, c.body))) := by
  refine ⟨_, saveTags_layout_exact mem L h items pad hfit hno, parse_render _ hfit hdep, ?_⟩
  have hp : treePath (L.saved items pad).top ilstPath = some (Atom.node nIlst false [] items) :=
    treePath_fill L.frames [nMoov, nUdta, nMeta] L.hole items false _ h.2.2.1 h.2.2.2.1
  rcases tagsPure_tree (L.saved items pad).top hfit with ⟨h1, _⟩ | ⟨a, h1, h2⟩
  · rw [hp] at h1; cases h1
  · rw [hp] at h1
    cases h1
    exact h2

/-- the same for the final file of ANY save (offset tables patched): `hil` says that the patched tree still has the saved
`ilst` at the end of the path, `hdep` that its nesting is what the reader accepts — both decidable, true for every layout
(the table atoms lie outside the new region and patching changes payloads only), checked rather than proved -/
theorem saved_tagsPure_patched (mem : Bool) (L : Layout) (h : L.OK) (items : List Atom) (pad : PadChoice)
    (hfit : wfList (L.saved items pad).top) (htab : L.TablesOK items pad)
    (hil : treePath (L.savedPatched items pad) ilstPath = some (Atom.node nIlst false [] items))
    (hdep : depthList (L.savedPatched items pad) ≤ 65) :
    ∃ g, saveTags mem L.render (ilstData items) pad = (none, g) ∧ parse g = .ok (annotList 0 (L.savedPatched items pad)) ∧
      tagsPure g (annotList 0 (L.savedPatched items pad)) = .ok (some (items.map fun c => (c.name, c.body))) := by
  obtain ⟨h1, h2, _, _⟩ := saveTags_layout_patched mem L h items pad hfit htab
  refine ⟨_, h1, parse_render _ h2 hdep, ?_⟩
  rcases tagsPure_tree (L.savedPatched items pad) h2 with ⟨k1, _⟩ | ⟨a, k1, k2⟩
  · rw [hil] at k1; cases k1
  · rw [hil] at k1
    cases k1
    exact k2

/-- … and through the whole pure load: if `MP4(fileobj)` loads the file at all (the stream info may refuse it), its tags
are read from exactly these payloads -/
theorem loadPure_tags (g : Bytes) (atoms : List PAtom) (cs : Option (List (Bytes × Bytes))) (hp : parse g = .ok atoms)
    (ht : tagsPure g atoms = .ok cs) (r : Loaded) (hl : loadPure g = .ok r) : r.tags = cs := by
  unfold loadPure at hl
  rw [hp] at hl
  simp only at hl
  cases hi : infoPure g atoms with
  | error x => rw [hi] at hl; cases hl
  | ok info =>
    rw [hi, ht] at hl
    simp only [Except.ok.injEq] at hl
    rw [← hl]

/-! ### the reader on the items the codec renders -/

/-- an item as `MP4Tags._render` writes it, with the value it stands for: text (`__render_text`), integers
(`__render_integer`: each value with the minimum width of its atom and the bytes that gives), pairs (`__render_pair` with
the trailing zero word, `__render_pair_no_trailing` without), covers (`__render_cover`: `struct.pack(">2I", imageformat, 0)`
in front of the bytes, for ANY 32-bit `imageformat`), freeform (`__render_freeform`: `mean`, `name`, and every value with its
`version << 24 | dataformat`), bools (`__render_bool`: one byte, type INTEGER).  `genreIdx` is NOT written by mutagen — there
is no render function for `gnre` — it is the atom other writers leave: an ID3v1 genre index + 1 as a 16-bit integer. -/
inductive RItem
  | text (name : Bytes) (texts : List (List Nat))
  | ints (name : Bytes) (vals : List (Int × Nat × Bytes))
  | pairs (name : Bytes) (trailing : Bool) (ps : List (Nat × Nat))
  | covers (name : Bytes) (cs : List (Nat × Bytes))
  | freeform (mean nm : Bytes) (ds : List Mp4Tags.Data)
  | bool (name : Bytes) (b : Bool)
  | genreIdx (i : Int) (g : List Nat)

open Mutagen.Mp4R Mutagen.Mp4Tags

/-- the name of the atom in the file -/
def RItem.name : RItem → Bytes
  | .text n _ => n | .ints n _ => n | .pairs n _ _ => n | .covers n _ => n | .freeform _ _ _ => freeformName
  | .bool n _ => n | .genreIdx _ _ => nGnre

/-- the `data` atoms of the kinds that consist of `data` atoms only -/
def RItem.datas : RItem → List Data
  | .text _ texts => texts.map fun x => ⟨0, 1, Utf8.encode x⟩
  | .ints _ vals => vals.map fun v => ⟨0, 21, v.2.2⟩
  | .pairs _ tr ps => ps.map fun p => ⟨0, 0, renderPair p.1 p.2 tr⟩
  | .covers _ cs => cs.map fun c => ⟨c.1 / 16777216, c.1 % 16777216, c.2⟩
  | .freeform _ _ ds => ds
  | .bool _ b => [⟨0, 21, [if b then 1 else 0]⟩]
  | .genreIdx i _ => [⟨0, 0, toSignedBE 2 i⟩]

/-- the payload of the atom -/
def RItem.body : RItem → Bytes
  | .freeform mean nm ds => freeformBody mean nm ds
  | r => itemBody r.datas

/-- the key of the dictionary the reader files the value under: the atom's name, except `----:mean:name` for freeform items
and `©gen` for a `gnre` atom -/
def RItem.key : RItem → Bytes
  | .freeform mean nm _ => freeformName ++ [0x3a] ++ mean ++ [0x3a] ++ nm
  | .genreIdx _ _ => nGen
  | r => r.name

/-- the value read: an `imageformat` other than 13 (JPEG) and 14 (PNG) is read as JPEG; a `gnre` index is read as the genre's
NAME (a text value) -/
def RItem.val : RItem → TagVal
  | .text _ texts => .text texts
  | .ints _ vals => .ints (vals.map (·.1))
  | .pairs _ _ ps => .pairs ps
  | .covers _ cs => .covers (cs.map fun c => (if c.1 ≠ 13 ∧ c.1 ≠ 14 then 13 else c.1, c.2))
  | .freeform _ _ ds => .freeform ds
  | .bool _ b => .bool b
  | .genreIdx _ g => .text [g]

/-- what the reader does to the dictionary: bools are assigned (`self[key] = value`), all others extend the list under the key -/
def RItem.apply (r : RItem) (its : List (Bytes × TagVal)) : List (Bytes × TagVal) :=
  match r with
  | .bool n b => setSingle n (.bool b) its
  | r => addMulti r.key r.val its

/-- the item atom in the file -/
def RItem.atom (r : RItem) : Atom := .leaf r.name false r.body

/-- what the codec can render, under a name whose parser in the `__atoms` table is the matching one -/
def RItem.OK : RItem → Prop
  | .text n texts => (kindOf n = none ∨ kindOf n = some .text) ∧ (∀ x ∈ texts, ∀ c ∈ x, Utf8.Scalar c) ∧
      (∀ x ∈ texts, (Utf8.encode x).length + 16 < 256 ^ 4)
  | .ints n vals => (∃ k, kindOf n = some (.integer k)) ∧ ∀ v ∈ vals, renderInt v.1 v.2.1 = some v.2.2
  | .pairs n _ ps => (kindOf n = some .pair ∨ kindOf n = some .pairNoTrailing) ∧ ∀ p ∈ ps, p.1 < 65536 ∧ p.2 < 65536
  | .covers n cs => kindOf n = some .cover ∧ ∀ c ∈ cs, c.1 < 256 ^ 4 ∧ c.2.length + 16 < 256 ^ 4
  | .freeform mean nm ds => (∀ d ∈ ds, DataOK d) ∧ mean.length + 12 < 256 ^ 4 ∧ nm.length + 12 < 256 ^ 4
  | .bool n _ => kindOf n = some .bool
  | .genreIdx i g => (-32768 ≤ i ∧ i ≤ 32767) ∧ genreAt (i - 1) = some g

theorem kindOf_freeformName : kindOf freeformName = some .freeform := by decide +kernel
theorem kindOf_nGnre : kindOf nGnre = some .genre := by decide +kernel

theorem loadChild_ritem (t : Tags) (r : RItem) (h : r.OK) :
    loadChild t r.name (r.body.length + 8) r.body = some { t with items := r.apply t.items } := by
  cases r with
  | text n texts =>
    obtain ⟨hk, hs, hl⟩ := h
    unfold loadChild
    rcases hk with hk | hk
    · simp only [RItem.name, RItem.body, RItem.datas, RItem.apply, RItem.key, RItem.val, hk, parseText_rendered false texts hs hl]
    · simp only [RItem.name, RItem.body, RItem.datas, RItem.apply, RItem.key, RItem.val, hk, parseText_rendered true texts hs hl]
  | ints n vals =>
    obtain ⟨⟨k, hk⟩, hv⟩ := h
    unfold loadChild
    simp only [RItem.name, RItem.body, RItem.datas, RItem.apply, RItem.key, RItem.val, hk, parseInts_rendered vals hv]
  | pairs n tr ps =>
    obtain ⟨hk, hp⟩ := h
    unfold loadChild
    rcases hk with hk | hk
    · simp only [RItem.name, RItem.body, RItem.datas, RItem.apply, RItem.key, RItem.val, hk, parsePairs_rendered tr ps hp]
    · simp only [RItem.name, RItem.body, RItem.datas, RItem.apply, RItem.key, RItem.val, hk, parsePairs_rendered tr ps hp]
  | covers n cs =>
    obtain ⟨hk, hc⟩ := h
    unfold loadChild
    have hok : ∀ d ∈ cs.map (fun c : Nat × Bytes => (⟨c.1 / 16777216, c.1 % 16777216, c.2⟩ : Data)), DataOK d := by
      intro d hd
      obtain ⟨c, hc1, rfl⟩ := List.mem_map.mp hd
      obtain ⟨h1, h2⟩ := hc c hc1
      exact ⟨by show c.1 / 16777216 < 256; omega, by show c.1 % 16777216 < 16777216; omega, h2⟩
    have hfm : (cs.map (fun c : Nat × Bytes => (⟨c.1 / 16777216, c.1 % 16777216, c.2⟩ : Data))).map (fun d => (coverFmt d, d.payload)) =
        cs.map fun c => (if c.1 ≠ 13 ∧ c.1 ≠ 14 then 13 else c.1, c.2) := by
      rw [List.map_map]
      apply List.map_congr_left
      intro c _
      have e : c.1 / 16777216 * 16777216 + c.1 % 16777216 = c.1 := by omega
      simp only [Function.comp, coverFmt, e]
    simp only [RItem.name, RItem.body, RItem.datas, RItem.apply, RItem.key, RItem.val, hk, parseCovers_rendered _ hok, hfm]
  | freeform mean nm ds =>
    obtain ⟨hd, hm, hn⟩ := h
    unfold loadChild
    simp only [RItem.name, RItem.body, RItem.apply, RItem.key, RItem.val, kindOf_freeformName,
      parseFreeform_rendered mean nm ds hd hm hn]
  | bool n b =>
    unfold loadChild
    have hk : kindOf n = some .bool := h
    simp only [RItem.name, RItem.body, RItem.datas, RItem.apply, hk, parseBool_rendered n b t.items]
  | genreIdx i g =>
    obtain ⟨hi, hg⟩ := h
    unfold loadChild
    simp only [RItem.name, RItem.body, RItem.datas, RItem.apply, RItem.key, RItem.val, kindOf_nGnre, parseGenre_index i g hi hg]

/-- mutagen's reader over the item atoms the codec rendered: every value comes back, each item filed under its key in the
order of the file (`setdefault(key, []).extend(values)`; `self[key] = value` for bools), nothing fails -/
theorem loadTags_ritems : ∀ (ris : List RItem) (t : Tags), (∀ r ∈ ris, r.OK) →
    loadTags (ris.map fun r => (r.name, r.body.length + 8, r.body)) t =
      some { t with items := ris.foldl (fun its r => r.apply its) t.items } := by
  intro ris
  induction ris with
  | nil => intro t _; rfl
  | cons r rest ih =>
    intro t h
    simp only [List.map_cons, loadTags, loadChild_ritem t r (h r (by simp))]
    rw [ih _ (fun x hx => h x (by simp [hx]))]
    rfl

/-! ### the save that performs its reads, under arbitrary faults -/

/-- once `Atoms(fileobj)` has returned normally — in whatever environment — the atoms are the pure parse of the bytes and
the rest of the save is the summarised save on the same bytes -/
theorem saveTagsFullM_after_reads (B : Nat) (ilstData : Bytes) (pad : PadChoice) (e : Env) (s : FS) :
    (∃ x s1, atomsM e s = (.error x, s1) ∧ saveTagsFullM B ilstData pad e s = (.error x, s1)) ∨
    (∃ atoms s1, atomsM e s = (.ok atoms, s1) ∧ s1.data = s.data ∧ parse s.data = .ok atoms ∧
      saveTagsFullM B ilstData pad e s = saveTagsM B ilstData pad e s1) := by
  cases ha : atomsM e s with
  | mk r s1 =>
    cases r with
    | error x =>
      left
      refine ⟨x, s1, rfl, ?_⟩
      unfold saveTagsFullM
      simp only [bind_run, ha]
    | ok atoms =>
      right
      have hc := okCalm_atomsM e s atoms s1 ha
      obtain ⟨s2, h2, _⟩ := atomsM_q (calm_quiet e) s
      rw [h2] at hc
      have hparse : parse s.data = .ok atoms := (Prod.mk.inj hc).1
      have hd : s1.data = s.data := noWrite_atomsM e s _ s1 ha
      refine ⟨atoms, s1, rfl, hd, hparse, ?_⟩
      unfold saveTagsFullM saveTagsM
      simp only [bind_run, ha, peek, hd, hparse]
      rfl

/-- `MP4Tags.save` WITH its reads under ANY fault environment raises only `error` or what the file primitives raise -/
theorem raises_saveTagsFullM (B : Nat) (ilstData : Bytes) (pad : PadChoice) : Raises MP (saveTagsFullM B ilstData pad) := by
  intro e s x s' h
  rcases saveTagsFullM_after_reads B ilstData pad e s with ⟨y, s1, ha, hf⟩ | ⟨atoms, s1, ha, _, _, hf⟩
  · rw [hf] at h
    simp only [Prod.mk.injEq, Except.error.injEq] at h
    rw [← h.1]
    rcases raises_atomsM e s y s1 ha with h1 | h1 | ⟨h1, _⟩
    · exact Or.inl h1
    · exact Or.inr (h1 ▸ prim_diverge e)
    · exact Or.inr (inj_prim h1)
  · rw [hf] at h
    exact raises_saveTagsM B ilstData pad e s1 x s' h

/-- success means written, for the save with its reads: a normal return — in any environment without short reads, on a
device of any capacity — means the pure model finished without an exception and the file holds exactly its result -/
theorem saveTagsFullM_ok_means_written (B : Nat) (hB : 0 < B) (ilstData : Bytes) (pad : PadChoice) (e : Env)
    (hshort : ∀ i, e.shortAt i = none) (s s' : FS) (h : saveTagsFullM B ilstData pad e s = (.ok (), s')) :
    (saveTags true s.data ilstData pad).1 = none ∧ s'.data = (saveTags true s.data ilstData pad).2 := by
  rcases saveTagsFullM_after_reads B ilstData pad e s with ⟨y, s1, _, hf⟩ | ⟨atoms, s1, _, hd, _, hf⟩
  · rw [hf] at h; cases h
  · rw [hf] at h
    have := saveTagsM_ok_means_written B hB ilstData pad e hshort s1 s' h
    rw [hd] at this
    exact this

theorem addMulti_fresh (key : Bytes) (v : TagVal) : ∀ (acc : List (Bytes × TagVal)), (∀ kv ∈ acc, kv.1 ≠ key) →
    addMulti key v acc = acc ++ [(key, v)] := by
  intro acc
  induction acc with
  | nil => intro _; rfl
  | cons kv r ih =>
    intro h
    obtain ⟨k, old⟩ := kv
    have hk : k ≠ key := h (k, old) (by simp)
    simp only [addMulti, hk, ↓reduceIte, List.cons_append]
    rw [ih (fun x hx => h x (by simp [hx]))]

theorem setSingle_fresh (key : Bytes) (v : TagVal) : ∀ (acc : List (Bytes × TagVal)), (∀ kv ∈ acc, kv.1 ≠ key) →
    setSingle key v acc = acc ++ [(key, v)] := by
  intro acc
  induction acc with
  | nil => intro _; rfl
  | cons kv r ih =>
    intro h
    obtain ⟨k, old⟩ := kv
    have hk : k ≠ key := h (k, old) (by simp)
    simp only [setSingle, hk, ↓reduceIte, List.cons_append]
    rw [ih (fun x hx => h x (by simp [hx]))]

theorem RItem.apply_fresh (r : RItem) (acc : List (Bytes × TagVal)) (h : ∀ kv ∈ acc, kv.1 ≠ r.key) :
    r.apply acc = acc ++ [(r.key, r.val)] := by
  cases r with
  | bool n b => exact setSingle_fresh n (.bool b) acc h
  | text n x => exact addMulti_fresh _ _ acc h
  | ints n x => exact addMulti_fresh _ _ acc h
  | pairs n tr x => exact addMulti_fresh _ _ acc h
  | covers n x => exact addMulti_fresh _ _ acc h
  | freeform m n x => exact addMulti_fresh _ _ acc h
  | genreIdx i g => exact addMulti_fresh _ _ acc h

/-- items with pairwise different keys: the reader's dictionary is the list of `(key, value)` in the order of the file -/
theorem foldl_addMulti_distinct : ∀ (ris : List RItem) (acc : List (Bytes × TagVal)),
    (ris.map RItem.key).Nodup → (∀ kv ∈ acc, ∀ r ∈ ris, kv.1 ≠ r.key) →
    ris.foldl (fun its r => r.apply its) acc = acc ++ ris.map fun r => (r.key, r.val) := by
  intro ris
  induction ris with
  | nil => intro acc _ _; simp
  | cons r rest ih =>
    intro acc hnd hacc
    simp only [List.map_cons, List.nodup_cons] at hnd
    simp only [List.foldl_cons]
    rw [RItem.apply_fresh r acc (fun kv hkv => hacc kv hkv r (by simp))]
    rw [ih (acc ++ [(r.key, r.val)]) hnd.2 (by
      intro kv hkv x hx
      rcases List.mem_append.mp hkv with h1 | h1
      · exact hacc kv h1 x (by simp [hx])
      · simp only [List.mem_singleton] at h1
        subst h1
        intro heq
        exact hnd.1 (List.mem_map.mpr ⟨x, hx, heq.symm⟩))]
    simp

end Mutagen.Mp4C
