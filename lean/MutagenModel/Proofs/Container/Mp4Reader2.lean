/- Proofs/Container/Mp4Reader2.lean — the reader loops that do not go through `__parse_data` (`covr`, `----`, bools) on what
the codec renders, and `gnre` -/
import MutagenModel.Proofs.Container.Mp4Reader
set_option linter.unusedVariables false
namespace Mutagen.Mp4R
open Mutagen Mutagen.Mp4Tags

/-- where the fields of a rendered `data` atom lie when it stands at `pre.length` in `pre ++ encodeData d ++ rest` -/
theorem enc_slices (d : Data) (h : DataOK d) (pre rest : Bytes) :
    let data := pre ++ encodeData d ++ rest
    let W := toBE 4 (d.version * 16777216 + d.flags)
    slice data pre.length (pre.length + 12) = toBE 4 (d.payload.length + 16) ++ dataName ++ W ∧
    slice data pre.length (pre.length + 8) = toBE 4 (d.payload.length + 16) ++ dataName ∧
    slice data (pre.length + 8) (pre.length + 9) = W.take 1 ∧
    slice data (pre.length + 9) (pre.length + 12) = W.drop 1 ∧
    slice data (pre.length + 16) (pre.length + (d.payload.length + 16)) = d.payload ∧
    data.length = pre.length + 16 + d.payload.length + rest.length := by
  intro data W
  have hE : encodeData d = toBE 4 (d.payload.length + 16) ++ dataName ++ W ++ toBE 4 0 ++ d.payload := by
    simp [encodeData, renderAtom, List.append_assoc, W]
    congr 1; omega
  generalize hS : toBE 4 (d.payload.length + 16) = S at hE ⊢
  have hSl : S.length = 4 := by rw [← hS]; simp
  have hWl : W.length = 4 := by simp [W]
  have hNl : dataName.length = 4 := rfl
  have hZl : (toBE 4 0).length = 4 := by simp
  have hd : data = pre ++ encodeData d ++ rest := rfl
  rw [hE] at hd
  refine ⟨?_, ?_, ?_, ?_, ?_, ?_⟩
  · have : data = pre ++ (S ++ dataName ++ W) ++ (toBE 4 0 ++ d.payload ++ rest) := by rw [hd]; simp [List.append_assoc]
    rw [this]; exact slice_mid _ _ _ _ (by simp [hSl, hWl, hNl])
  · have : data = pre ++ (S ++ dataName) ++ (W ++ toBE 4 0 ++ d.payload ++ rest) := by rw [hd]; simp [List.append_assoc]
    rw [this]; exact slice_mid _ _ _ _ (by simp [hSl, hNl])
  · have : data = (pre ++ S ++ dataName) ++ W.take 1 ++ (W.drop 1 ++ toBE 4 0 ++ d.payload ++ rest) := by
      rw [hd]; simp only [List.append_assoc]; rw [← List.append_assoc (W.take 1), List.take_append_drop]
    rw [this]
    have := slice_mid (pre ++ S ++ dataName) (W.take 1) (W.drop 1 ++ toBE 4 0 ++ d.payload ++ rest) (pre.length + 9)
      (by simp [hSl, hNl, hWl])
    simpa [hSl, hNl, Nat.add_assoc] using this
  · have : data = (pre ++ S ++ dataName ++ W.take 1) ++ W.drop 1 ++ (toBE 4 0 ++ d.payload ++ rest) := by
      rw [hd]; simp only [List.append_assoc]; rw [← List.append_assoc (W.take 1), List.take_append_drop]
    rw [this]
    have := slice_mid (pre ++ S ++ dataName ++ W.take 1) (W.drop 1) (toBE 4 0 ++ d.payload ++ rest) (pre.length + 12)
      (by simp [hSl, hNl, hWl])
    simpa [hSl, hNl, hWl, Nat.add_assoc] using this
  · have : data = (pre ++ S ++ dataName ++ W ++ toBE 4 0) ++ d.payload ++ rest := by rw [hd]; simp [List.append_assoc]
    rw [this]
    have := slice_mid (pre ++ S ++ dataName ++ W ++ toBE 4 0) d.payload rest (pre.length + (d.payload.length + 16))
      (by simp [hSl, hNl, hWl]; omega)
    simpa [hSl, hNl, hWl, Nat.add_assoc] using this
  · rw [hd]; simp [hSl, hNl, hWl]; omega

/-- the image format `__parse_cover` stores: JPEG (13) unless the word says JPEG or PNG (14) -/
def coverFmt (d : Data) : Nat :=
  if d.version * 16777216 + d.flags ≠ 13 ∧ d.version * 16777216 + d.flags ≠ 14 then 13 else d.version * 16777216 + d.flags

theorem coversGo_encode : ∀ (ds : List Data), (∀ d ∈ ds, DataOK d) → ∀ (pre : Bytes) (fuel : Nat) (vs : List (Nat × Bytes)),
    ds.length < fuel →
    parseCovers.go ((pre ++ (ds.map encodeData).flatten).length + 8) (pre ++ (ds.map encodeData).flatten) fuel pre.length vs =
      .ok (vs ++ ds.map fun d => (coverFmt d, d.payload)) := by
  intro ds
  induction ds with
  | nil =>
    intro _ pre fuel vs hf
    cases fuel with
    | zero => simp at hf
    | succ n => simp [parseCovers.go]
  | cons d r ih =>
    intro hok pre fuel vs hf
    cases fuel with
    | zero => simp at hf
    | succ n =>
      have hd := hok d (by simp)
      obtain ⟨hv, hfl, hpl⟩ := hd
      have hdata : pre ++ ((d :: r).map encodeData).flatten = pre ++ encodeData d ++ (r.map encodeData).flatten := by simp
      obtain ⟨h12, _, _, _, hpay, hlen⟩ := enc_slices d ⟨hv, hfl, hpl⟩ pre (r.map encodeData).flatten
      rw [← hdata] at h12 hpay hlen
      unfold parseCovers.go
      rw [if_pos (by rw [hlen]; omega)]
      simp only [h12]
      have hSl : (toBE 4 (d.payload.length + 16)).length = 4 := by simp
      have hNl : dataName.length = 4 := rfl
      have hl12 : (toBE 4 (d.payload.length + 16) ++ dataName ++ toBE 4 (d.version * 16777216 + d.flags)).length = 12 := by simp [hNl]
      have ht4 : (toBE 4 (d.payload.length + 16) ++ dataName ++ toBE 4 (d.version * 16777216 + d.flags)).take 4 =
          toBE 4 (d.payload.length + 16) := by rw [List.append_assoc, List.take_left' hSl]
      have hd4 : ((toBE 4 (d.payload.length + 16) ++ dataName ++ toBE 4 (d.version * 16777216 + d.flags)).drop 4).take 4 = dataName := by
        rw [List.append_assoc, List.drop_left' hSl, List.take_left' hNl]
      have hd8 : (toBE 4 (d.payload.length + 16) ++ dataName ++ toBE 4 (d.version * 16777216 + d.flags)).drop 8 =
          toBE 4 (d.version * 16777216 + d.flags) := by
        rw [show (8 : Nat) = (toBE 4 (d.payload.length + 16) ++ dataName).length by simp [hNl], List.drop_left' rfl]
      have hL : ofBE (toBE 4 (d.payload.length + 16)) = d.payload.length + 16 := ofBE_toBE 4 _ (by omega)
      have hF : ofBE (toBE 4 (d.version * 16777216 + d.flags)) = d.version * 16777216 + d.flags :=
        ofBE_toBE 4 _ (by omega)
      simp only [hl12, ne_eq, not_true_eq_false, ↓reduceIte, ht4, hd4, hd8, hL, hF, hpay]
      rw [if_neg (by omega)]
      have hpre' : pre ++ ((d :: r).map encodeData).flatten = (pre ++ encodeData d) ++ (r.map encodeData).flatten := by simp
      have hpos : pre.length + (d.payload.length + 16) = (pre ++ encodeData d).length := by simp [encodeData_length]
      rw [hpos, hpre']
      rw [ih (fun x hx => hok x (by simp [hx])) (pre ++ encodeData d) n _ (by simp at hf; omega)]
      simp [coverFmt]

/-- `covr`: what `__render_cover` writes (one `data` atom per cover, the image format in the type word) `__parse_cover` reads
back as the covers in order, with the format normalised -/
theorem parseCovers_rendered (ds : List Data) (h : ∀ d ∈ ds, DataOK d) :
    parseCovers ((itemBody ds).length + 8) (itemBody ds) = .ok (ds.map fun d => (coverFmt d, d.payload)) := by
  unfold parseCovers itemBody
  have := coversGo_encode ds h [] ((ds.map encodeData).flatten.length + 8 + 1) [] (by have := length_le_flatten ds; omega)
  simpa using this

/-- the consumer of `__parse_bool` -/
def boolStep (key : Bytes) (its : List (Bytes × TagVal)) (item : Nat × Nat × Bytes) : POut (List (Bytes × TagVal)) :=
  if item.2.2.length ≠ 1 then .failed else .ok (setSingle key (.bool (ofBE item.2.2 ≠ 0)) its)

/-- when the generator loop with the bool consumer runs through, `__parse_bool` (which sets the key item by item) ends
with the same dictionary and neither fails nor crashes -/
theorem boolGo_ok (key : Bytes) (atomLen : Nat) (data : Bytes) : ∀ (fuel pos : Nat) (its its' : List (Bytes × TagVal)),
    forData atomLen data (boolStep key) fuel pos its = .ok its' →
    parseBool.go key atomLen data fuel pos its = (its', false, false) := by
  intro fuel
  induction fuel with
  | zero => intro pos its its' h; simp [forData] at h
  | succ n ih =>
    intro pos its its' h
    unfold forData at h
    unfold parseBool.go
    by_cases hlt : pos < atomLen - 8
    · simp only [hlt, ↓reduceIte] at h ⊢
      by_cases h12 : (slice data pos (pos + 12)).length ≠ 12
      · simp [h12] at h
      · simp only [h12, ↓reduceIte] at h ⊢
        by_cases hl : ofBE ((slice data pos (pos + 12)).take 4) < 1
        · simp [hl] at h
        · simp only [hl, ↓reduceIte] at h ⊢
          by_cases hn : ((slice data pos (pos + 12)).drop 4).take 4 ≠ dataName
          · simp [hn] at h
          · simp only [hn, ↓reduceIte] at h ⊢
            by_cases hc : ((slice data (pos + 16) (pos + ofBE ((slice data pos (pos + 12)).take 4))).length : Int) ≠
                (ofBE ((slice data pos (pos + 12)).take 4) : Int) - 16
            · simp [hc] at h
            · simp only [hc, ↓reduceIte] at h ⊢
              unfold boolStep at h
              by_cases h1 : (slice data (pos + 16) (pos + ofBE ((slice data pos (pos + 12)).take 4))).length ≠ 1
              · simp [h1] at h
              · simp only [h1, ↓reduceIte] at h ⊢
                exact ih _ _ _ h
    · simp only [hlt, ↓reduceIte] at h ⊢
      cases h
      rfl

/-- bools: what `__render_bool` writes (one `data` atom, type INTEGER, one byte) `__parse_bool` reads back as the bool,
assigned to the key -/
theorem parseBool_rendered (key : Bytes) (b : Bool) (its : List (Bytes × TagVal)) :
    parseBool key ((itemBody [⟨0, 21, [if b then 1 else 0]⟩]).length + 8) (itemBody [⟨0, 21, [if b then 1 else 0]⟩]) its =
      (setSingle key (.bool b) its, false, false) := by
  unfold parseBool
  apply boolGo_ok
  have hok : ∀ d ∈ [(⟨0, 21, [if b then 1 else 0]⟩ : Data)], DataOK d := by
    intro d hd
    simp only [List.mem_singleton] at hd
    subst hd
    exact ⟨by show (0 : Nat) < 256; omega, by show (21 : Nat) < 16777216; omega, by simp⟩
  have := parseData_items (boolStep key) [⟨0, 21, [if b then 1 else 0]⟩] hok its
  unfold parseData at this
  rw [this]
  cases b <;> simp [foldP, boolStep, ofBE, ofLE]

/-- `gnre` is only ever READ: an ID3v1 genre index (1-based, two bytes) comes back as the genre NAME, a text value under
`©gen` — for which writing and reading are the identity of text atoms -/
theorem parseGenre_index (i : Int) (g : List Nat) (hi : -32768 ≤ i ∧ i ≤ 32767) (hg : genreAt (i - 1) = some g) :
    parseGenre ((itemBody [⟨0, 0, toSignedBE 2 i⟩]).length + 8) (itemBody [⟨0, 0, toSignedBE 2 i⟩]) = .ok [g] := by
  unfold parseGenre
  have hlen : (toSignedBE 2 i).length = 2 := toSignedBE_length 2 i
  rw [parseData_items _ _ (by
    intro d hd
    simp only [List.mem_singleton] at hd
    subst hd
    exact ⟨by show (0 : Nat) < 256; omega, by show (0 : Nat) < 16777216; omega, by show (toSignedBE 2 i).length + 16 < 256 ^ 4; omega⟩)]
  have hs : ofSignedBE (toSignedBE 2 i) = i := ofSignedBE_toSignedBE 2 i (by simp; omega) (by simp; omega)
  simp [foldP, hlen, hs, hg]

theorem freeGo_encode (atomLen0 : Nat) : ∀ (ds : List Data), (∀ d ∈ ds, DataOK d) → ∀ (pre : Bytes) (fuel : Nat) (vs : List Data),
    ds.length < fuel →
    parseFreeform.go ((pre ++ (ds.map encodeData).flatten).length + 8) (pre ++ (ds.map encodeData).flatten) fuel pre.length vs =
      .ok (vs ++ ds) := by
  intro ds
  induction ds with
  | nil =>
    intro _ pre fuel vs hf
    cases fuel with
    | zero => simp at hf
    | succ n => simp [parseFreeform.go]
  | cons d r ih =>
    intro hok pre fuel vs hf
    cases fuel with
    | zero => simp at hf
    | succ n =>
      obtain ⟨hv, hfl, hpl⟩ := hok d (by simp)
      have hdata : pre ++ ((d :: r).map encodeData).flatten = pre ++ encodeData d ++ (r.map encodeData).flatten := by simp
      obtain ⟨_, h8, hv1, hf3, hpay, hlen⟩ := enc_slices d ⟨hv, hfl, hpl⟩ pre (r.map encodeData).flatten
      rw [← hdata] at h8 hv1 hf3 hpay hlen
      unfold parseFreeform.go
      rw [if_pos (by rw [hlen]; omega)]
      simp only [h8, hv1, hf3]
      have hSl : (toBE 4 (d.payload.length + 16)).length = 4 := by simp
      have hNl : dataName.length = 4 := rfl
      have hWl : (toBE 4 (d.version * 16777216 + d.flags)).length = 4 := by simp
      have hl8 : (toBE 4 (d.payload.length + 16) ++ dataName).length = 8 := by simp [hNl]
      have ht4 : (toBE 4 (d.payload.length + 16) ++ dataName).take 4 = toBE 4 (d.payload.length + 16) := List.take_left' hSl
      have hd4 : (toBE 4 (d.payload.length + 16) ++ dataName).drop 4 = dataName := List.drop_left' hSl
      have hL : ofBE (toBE 4 (d.payload.length + 16)) = d.payload.length + 16 := ofBE_toBE 4 _ (by omega)
      obtain ⟨hver, hflg⟩ := word_split d.version d.flags hv hfl
      have hl1 : ((toBE 4 (d.version * 16777216 + d.flags)).take 1).length = 1 := by simp [hWl]
      have hl3 : ((toBE 4 (d.version * 16777216 + d.flags)).drop 1).length = 3 := by simp [hWl]
      simp only [hl8, ne_eq, not_true_eq_false, ↓reduceIte, ht4, hd4, hL, hl1, hl3, hver, hflg, hpay]
      rw [if_neg (by omega)]
      have hpre' : pre ++ ((d :: r).map encodeData).flatten = (pre ++ encodeData d) ++ (r.map encodeData).flatten := by simp
      have hpos : pre.length + (d.payload.length + 16) = (pre ++ encodeData d).length := by simp [encodeData_length]
      rw [hpos, hpre']
      rw [ih (fun x hx => hok x (by simp [hx])) (pre ++ encodeData d) n _ (by simp at hf; omega)]
      simp

/-- the payload of a freeform item as `__render_freeform` writes it: the `mean` atom, the `name` atom, the `data` atoms -/
def freeformBody (mean name : Bytes) (ds : List Data) : Bytes :=
  renderAtom meanName (toBE 4 0 ++ mean) ++ renderAtom nameName (toBE 4 0 ++ name) ++ itemBody ds

/-- freeform `----` items: mean, name and every value with its data format (flags) and version come back -/
theorem parseFreeform_rendered (mean name : Bytes) (ds : List Data) (h : ∀ d ∈ ds, DataOK d)
    (hm : mean.length + 12 < 256 ^ 4) (hn : name.length + 12 < 256 ^ 4) :
    parseFreeform ((freeformBody mean name ds).length + 8) (freeformBody mean name ds) = .ok (mean, name, ds) := by
  have hA : renderAtom meanName (toBE 4 0 ++ mean) = toBE 4 (mean.length + 12) ++ (meanName ++ toBE 4 0) ++ mean := by
    simp [renderAtom, List.append_assoc]; congr 1; omega
  have hB : renderAtom nameName (toBE 4 0 ++ name) = toBE 4 (name.length + 12) ++ (nameName ++ toBE 4 0) ++ name := by
    simp [renderAtom, List.append_assoc]; congr 1; omega
  generalize hS1 : toBE 4 (mean.length + 12) = S1 at hA
  generalize hS2 : toBE 4 (name.length + 12) = S2 at hB
  have hS1l : S1.length = 4 := by rw [← hS1]; simp
  have hS2l : S2.length = 4 := by rw [← hS2]; simp
  have hMl : meanName.length = 4 := rfl
  have hNl : nameName.length = 4 := rfl
  have hM8 : (meanName ++ toBE 4 0).length = 8 := by simp [hMl]
  have hN8 : (nameName ++ toBE 4 0).length = 8 := by simp [hNl]
  have hL1 : ofBE S1 = mean.length + 12 := by rw [← hS1]; exact ofBE_toBE 4 _ hm
  have hL2 : ofBE S2 = name.length + 12 := by rw [← hS2]; exact ofBE_toBE 4 _ hn
  generalize hbody : itemBody ds = body
  have hdata : freeformBody mean name ds = S1 ++ (meanName ++ toBE 4 0) ++ mean ++ (S2 ++ (nameName ++ toBE 4 0) ++ name) ++ body := by
    unfold freeformBody; rw [hA, hB, hbody]
  generalize hpre : S1 ++ (meanName ++ toBE 4 0) ++ mean ++ (S2 ++ (nameName ++ toBE 4 0) ++ name) = pre at hdata
  have hprel : pre.length = (mean.length + 12) + (name.length + 12) := by rw [← hpre]; simp [hS1l, hS2l, hM8, hN8]; omega
  unfold parseFreeform
  have ht4 : (freeformBody mean name ds).take 4 = S1 := by
    rw [hdata, ← hpre]; simp only [List.append_assoc]; exact List.take_left' hS1l
  have hmean : slice (freeformBody mean name ds) 12 (mean.length + 12) = mean := by
    rw [hdata, ← hpre]
    have := slice_mid (S1 ++ (meanName ++ toBE 4 0)) mean ((S2 ++ (nameName ++ toBE 4 0) ++ name) ++ body) (mean.length + 12)
      (by simp [hS1l, hM8]; omega)
    simpa [hS1l, hM8, List.append_assoc] using this
  have hl2 : slice (freeformBody mean name ds) (mean.length + 12) (mean.length + 12 + 4) = S2 := by
    rw [hdata, ← hpre]
    have := slice_mid (S1 ++ (meanName ++ toBE 4 0) ++ mean) S2 ((nameName ++ toBE 4 0) ++ name ++ body) (mean.length + 12 + 4)
      (by simp [hS1l, hM8, hS2l]; omega)
    have e : (S1 ++ (meanName ++ toBE 4 0) ++ mean).length = mean.length + 12 := by simp [hS1l, hM8]; omega
    rw [e] at this
    simpa [List.append_assoc] using this
  have hname : slice (freeformBody mean name ds) (mean.length + 12 + 12) (mean.length + 12 + (name.length + 12)) = name := by
    rw [hdata, ← hpre]
    have := slice_mid (S1 ++ (meanName ++ toBE 4 0) ++ mean ++ S2 ++ (nameName ++ toBE 4 0)) name body
      (mean.length + 12 + (name.length + 12)) (by simp [hS1l, hM8, hS2l, hN8]; omega)
    have e : (S1 ++ (meanName ++ toBE 4 0) ++ mean ++ S2 ++ (nameName ++ toBE 4 0)).length = mean.length + 12 + 12 := by
      simp [hS1l, hM8, hS2l, hN8]; omega
    rw [e] at this
    simpa [List.append_assoc] using this
  simp only [ht4, hS1l, Nat.lt_irrefl, ↓reduceIte, hL1, hmean, hl2, hS2l, hL2, hname]
  have hgo := freeGo_encode 0 ds h pre ((pre ++ (ds.map encodeData).flatten).length + 8 + 1) []
    (by have := length_le_flatten ds; simp only [List.length_append]; omega)
  have hfb : freeformBody mean name ds = pre ++ (ds.map encodeData).flatten := by rw [hdata, ← hbody]; rfl
  rw [hfb, ← hprel, hgo]
  simp

end Mutagen.Mp4R
