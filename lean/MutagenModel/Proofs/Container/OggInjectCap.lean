/-
Proofs/Container/OggInjectCap.lean — Ogg comment injection as a file-object program (C19, C06):
`OggPage.replace` slot by slot on a device that may run full, `OggPage(fileobj)` and `OggPage.renumber`
as FileM programs against their pure models, the refinement `saveM` ⊑ `save`, what is left in the file
when ENOSPC strikes, which exceptions leave the entry points, and that a normal return means written.
-/
import MutagenModel.Model.Container.OggInjectM
import MutagenModel.Proofs.Container.OggApi
import MutagenModel.Proofs.FileOpsCap
import MutagenModel.Proofs.Raises
import MutagenModel.Proofs.OkAgree
set_option linter.unusedVariables false
namespace Mutagen.OggInj
open Mutagen Mutagen.Ogg

/-! ### one slot: resize_bytes, seek, write -/

/-- `resize_bytes; seek; write` on a device that may run full: the region is replaced, or ENOSPC is
raised by the enlargement and the file is as it was (the write itself stays inside the file) -/
theorem replaceRegion_q {e : Env} (hq : Quiet e) (B : Nat) (hB : 0 < B) (off old : Nat) (new : Bytes) (s : FS)
    (ho : off + old ≤ s.data.length) :
    (∃ s', replaceRegion B off old new e s = (.ok (), s') ∧ s'.data = s.data.take off ++ new ++ s.data.drop (off + old)) ∨
    (∃ s', replaceRegion B off old new e s = (.error .enospc, s') ∧ s'.data = s.data) := by
  unfold replaceRegion
  rcases resizeBytes_q hq B hB old new.length off s ho with ⟨s1, gap, hr, hg, hd⟩ | ⟨s1, hr, hd⟩
  · left
    simp only [bind_run, hr, fseek_q hq]
    generalize hM : (s.data.drop off).take (min old new.length) ++ gap = M at hd
    have hMl : M.length = new.length := by
      rw [← hM]; simp only [List.length_append, List.length_take, List.length_drop, hg]; omega
    have hd' : s1.data = s.data.take off ++ M ++ s.data.drop (off + old) := by
      rw [hd, ← hM]; simp only [List.append_assoc]
    have htl : (s.data.take off).length = off := by simp only [List.length_take]; omega
    have hin : off + new.length ≤ s1.data.length := by
      rw [hd']; simp only [List.length_append, htl, hMl]; omega
    rw [fwrite_q_inside hq new _ (by simpa using hin)]
    refine ⟨_, rfl, ?_⟩
    show writeData s1.data off new = _
    rw [writeData_inside _ _ _ (by omega), hd']
    have := writeAt_mid (s.data.take off) M (s.data.drop (off + old)) new hMl
    rw [htl] at this
    exact this
  · right
    simp only [bind_run, hr]
    exact ⟨s1, rfl, hd⟩

/-! ### the slots of `replace`, one after the other -/

/-- the file when the first `j` slots have been rewritten and the others not yet -/
def mixed (j : Nat) (ds : List Bytes) (m : List Slot) : Bytes :=
  splice (ds.take j) (m.take j) ++ slotsBytes (m.drop j)

theorem mixed_zero (ds : List Bytes) (m : List Slot) : mixed 0 ds m = slotsBytes m := by
  simp [mixed, splice]

theorem mixed_succ (j : Nat) (d : Bytes) (ds : List Bytes) (s : Slot) (m : List Slot) :
    mixed (j + 1) (d :: ds) (s :: m) = d ++ renderPages s.2 ++ mixed j ds m := by
  simp [mixed, splice, List.append_assoc]

/-- the loop over the slots with a step that either replaces the region or — when `P` — raises
ENOSPC leaving the file alone: it completes, or — when `P` — stops at a slot `j` with the slots
before it rewritten and everything else as it was -/
theorem replaceLoopM_slots (e : Env) (B : Nat) (P : Prop)
    (hstep : ∀ off old new s, off + old ≤ s.data.length →
      (∃ s', replaceRegion B off old new e s = (.ok (), s') ∧ s'.data = s.data.take off ++ new ++ s.data.drop (off + old)) ∨
      (P ∧ ∃ s', replaceRegion B off old new e s = (.error .enospc, s') ∧ s'.data = s.data))
    (m : List Slot) (ds : List Bytes) (hlen : ds.length = m.length) (A R : Bytes) (off : Nat) (adj : Int)
    (hadj : (off : Int) + adj = A.length) (s : FS) (hs : s.data = A ++ slotsBytes m ++ R) :
    (∃ s', replaceLoopM B ((rds off m).zip ds) adj e s = (.ok (), s') ∧ s'.data = A ++ splice ds m ++ R) ∨
    (P ∧ ∃ s' j, j < m.length ∧ replaceLoopM B ((rds off m).zip ds) adj e s = (.error .enospc, s') ∧
      s'.data = A ++ mixed j ds m ++ R) := by
  induction m generalizing ds A off adj s with
  | nil =>
    cases ds with
    | nil => left; exact ⟨s, rfl, by simpa [splice] using hs⟩
    | cons _ _ => simp at hlen
  | cons sl m ih =>
    cases ds with
    | nil => simp at hlen
    | cons d ds =>
      have hoff : ((off : Int) + adj).toNat = A.length := by omega
      have hrun : replaceLoopM B ((rds off (sl :: m)).zip (d :: ds)) adj =
          (do replaceRegion B A.length sl.1.size d
              replaceLoopM B ((rds (off + sl.1.size + (renderPages sl.2).length) m).zip ds)
                (adj + (d.length : Int) - (sl.1.size : Int)) : FileM Unit) := by
        simp only [rds, List.zip_cons_cons, replaceLoopM, hoff, replaceRegion]
        funext e' s'
        simp only [bind_run]
        cases resizeBytes B sl.1.size d.length A.length e' s' with
        | mk r1 s1 =>
          cases r1 with
          | error _ => rfl
          | ok _ =>
            simp only
            cases fseek A.length e' s1 with
            | mk r2 s2 =>
              cases r2 with
              | error _ => rfl
              | ok _ => rfl
      rw [hrun]
      have hsz : A.length + sl.1.size ≤ s.data.length := by
        rw [hs]; simp only [slotsBytes_cons, List.length_append, length_rb]; omega
      have htake : s.data.take A.length = A := by
        rw [hs, List.append_assoc]; exact List.take_left' rfl
      have hdrop : s.data.drop (A.length + sl.1.size) = renderPages sl.2 ++ slotsBytes m ++ R := by
        rw [hs, slotsBytes_cons]
        have : A ++ (rb sl.1 ++ renderPages sl.2 ++ slotsBytes m) ++ R = (A ++ rb sl.1) ++ (renderPages sl.2 ++ slotsBytes m ++ R) := by
          simp [List.append_assoc]
        rw [this]; exact List.drop_left' (by simp [length_rb])
      rcases hstep A.length sl.1.size d s hsz with ⟨s1, hr, hd⟩ | ⟨hP, s1, hr, hd⟩
      · simp only [bind_run, hr]
        rw [htake, hdrop] at hd
        have hd' : s1.data = (A ++ d ++ renderPages sl.2) ++ slotsBytes m ++ R := by
          rw [hd]; simp only [List.append_assoc]
        rcases ih ds (by simpa using hlen) (A ++ d ++ renderPages sl.2) (off + sl.1.size + (renderPages sl.2).length)
          (adj + (d.length : Int) - (sl.1.size : Int)) (by simp only [List.length_append]; omega) s1 hd' with
          ⟨s2, hr2, hd2⟩ | ⟨hP, s2, j, hj, hr2, hd2⟩
        · left
          refine ⟨s2, hr2, ?_⟩
          rw [hd2]; simp [splice, List.append_assoc]
        · right
          refine ⟨hP, s2, j + 1, by simp; omega, hr2, ?_⟩
          rw [hd2, mixed_succ]; simp [List.append_assoc]
      · right
        refine ⟨hP, s1, 0, by simp, by simp only [bind_run, hr], ?_⟩
        rw [hd, hs, mixed_zero]

/-! ### OggPage(fileobj) as a program = the pure page reader -/

theorem readPacketsM_q {e : Env} (hq : Quiet e) (lens : List Nat) (s : FS) (hp : s.pos ≤ s.data.length) :
    ∃ ps s', readPacketsM lens e s = (.ok ps, s') ∧ s'.data = s.data ∧ s'.pos ≤ s.data.length ∧
      (∀ ps' rest, splitLens lens (s.data.drop s.pos) = some (ps', rest) →
        ps = ps' ∧ s'.pos + rest.length = s.data.length) ∧
      (splitLens lens (s.data.drop s.pos) = none → ps.map List.length ≠ lens) := by
  induction lens generalizing s with
  | nil =>
    refine ⟨[], s, rfl, rfl, hp, ?_, by simp [splitLens]⟩
    intro ps' rest h
    simp only [splitLens, Option.some.injEq, Prod.mk.injEq] at h
    obtain ⟨rfl, rfl⟩ := h
    exact ⟨rfl, by simp only [List.length_drop]; omega⟩
  | cons n r ih =>
    simp only [readPacketsM, bind_run, fread_q hq]
    have hrl : (readAt s.data s.pos n).length = min n (s.data.length - s.pos) := by
      simp [readAt, List.length_take, List.length_drop]
    obtain ⟨ps, s', h1, h2, h3, h4, h5⟩ := ih
      { data := s.data, pos := s.pos + (readAt s.data s.pos n).length, ops := s.ops + 1, log := .read n :: s.log }
      (by simp only [hrl]; omega)
    simp only at h1 h2 h3 h4 h5
    rw [h1]
    simp only [pure_run]
    refine ⟨_, s', rfl, h2, h3, ?_, ?_⟩
    · intro ps' rest hsp
      simp only [splitLens] at hsp
      split at hsp
      · cases hsp
      · rename_i hn
        simp only [List.length_drop, Nat.not_lt] at hn
        have hl : (readAt s.data s.pos n).length = n := by rw [hrl]; omega
        split at hsp
        · cases hsp
        · rename_i ps2 rest2 hs2
          simp only [Option.some.injEq, Prod.mk.injEq] at hsp
          obtain ⟨rfl, rfl⟩ := hsp
          have hd : s.data.drop (s.pos + (readAt s.data s.pos n).length) = (s.data.drop s.pos).drop n := by
            rw [hl, List.drop_drop]
          rw [hd] at h4
          obtain ⟨e1, e2⟩ := h4 ps2 rest2 hs2
          exact ⟨by rw [e1]; rfl, e2⟩
    · intro hnone
      simp only [splitLens] at hnone
      split at hnone
      · rename_i hn
        simp only [List.length_drop] at hn
        intro he
        simp only [List.map_cons, List.cons.injEq] at he
        rw [hrl] at he; omega
      · rename_i hn
        simp only [List.length_drop, Nat.not_lt] at hn
        have hl : (readAt s.data s.pos n).length = n := by rw [hrl]; omega
        split at hnone
        · rename_i hs2
          have hd : s.data.drop (s.pos + (readAt s.data s.pos n).length) = (s.data.drop s.pos).drop n := by
            rw [hl, List.drop_drop]
          rw [hd] at h5
          intro he
          simp only [List.map_cons, List.cons.injEq] at he
          exact h5 hs2 he.2
        · cases hnone

/-- `OggPage(fileobj)` on a file object without faults, whatever its capacity: it leaves the bytes
alone and returns what the pure reader returns for the bytes from the position on — the page with
its offset and the position behind it, EOFError, or ogg.error -/
theorem readPageM_q {e : Env} (hq : Quiet e) (s : FS) (hp : s.pos ≤ s.data.length) :
    ∃ s', (match readPage s.data s.pos with
      | .ok (p, next) => readPageM e s = (.ok (p, s.pos), s') ∧ s'.pos = next
      | .error x => readPageM e s = (.error x, s')) ∧ s'.data = s.data := by
  unfold readPageM readPage parse
  simp only [bind_run, ftell_q hq, fread_q hq]
  have hhdr : readAt s.data s.pos 27 = (s.data.drop s.pos).take 27 := rfl
  generalize hd : s.data.drop s.pos = d
  have hdl : d.length = s.data.length - s.pos := by rw [← hd]; simp
  rw [hhdr, hd]
  by_cases h0 : d.isEmpty = true
  · have : d = [] := by simpa using h0
    subst this
    simp only [List.take_nil, List.isEmpty_nil, ↓reduceIte, raise_run]
    exact ⟨_, rfl, rfl⟩
  · have hne : (d.take 27).isEmpty = false := by
      cases d with
      | nil => simp at h0
      | cons a b => simp
    simp only [h0, hne, Bool.false_eq_true, ↓reduceIte]
    by_cases h27 : d.length < 27
    · have : (d.take 27).length < 27 := by simp only [List.length_take]; omega
      simp only [h27, this, ↓reduceIte, raise_run]
      exact ⟨_, rfl, rfl⟩
    · have h27' : ¬ ((d.take 27).length < 27) := by simp only [List.length_take]; omega
      have hl27 : (d.take 27).length = 27 := by simp only [List.length_take]; omega
      simp only [h27, h27', ↓reduceIte]
      by_cases hcap : (d.take 27).take 4 ≠ [0x4F, 0x67, 0x67, 0x53]
      · simp only [if_pos hcap, bind_run, ftell_q hq, raise_run]; exact ⟨_, rfl, rfl⟩
      · simp only [if_neg hcap]
        by_cases hver : ((d.take 27).drop 4).head!.toNat ≠ 0
        · simp only [if_pos hver, raise_run]; exact ⟨_, rfl, rfl⟩
        · simp only [if_neg hver, bind_run, fread_q hq]
          generalize hS : ((d.take 27).drop 26).head!.toNat = S
          have hlac : readAt s.data (s.pos + 27) S = (d.drop 27).take S := by
            rw [← hd]; simp [readAt, List.drop_drop]
          simp only [hl27, hlac]
          by_cases hseg : (d.drop 27).length < S
          · have : ((d.drop 27).take S).length < S := by simp only [List.length_take]; omega
            simp only [hseg, this, ↓reduceIte, raise_run]; exact ⟨_, rfl, rfl⟩
          · have hseg' : ¬ (((d.drop 27).take S).length < S) := by simp only [List.length_take]; omega
            have hlS : ((d.drop 27).take S).length = S := by simp only [List.length_take]; omega
            simp only [hseg, hseg', ↓reduceIte]
            generalize hu : unlace 0 (List.map UInt8.toNat ((d.drop 27).take S)) = u
            obtain ⟨lens, complete⟩ := u
            simp only [bind_run]
            have hpos2 : s.pos + 27 + S ≤ s.data.length := by
              simp only [List.length_drop] at hseg; omega
            obtain ⟨ps, s', h1, h2, h3, h4, h5⟩ := readPacketsM_q hq lens
              { data := s.data, pos := s.pos + 27 + S, ops := s.ops + 1 + 1 + 1,
                log := .read S :: .read 27 :: .tell :: s.log } hpos2
            simp only at h1 h2 h3 h4 h5
            have hdd : s.data.drop (s.pos + 27 + S) = (d.drop 27).drop S := by
              rw [← hd]; simp [List.drop_drop, Nat.add_assoc]
            rw [hdd] at h4 h5
            rw [hlS, h1]
            simp only
            cases hsp : splitLens lens ((d.drop 27).drop S) with
            | none =>
              have := h5 hsp
              simp only [this, ne_eq, not_false_eq_true, ↓reduceIte, raise_run]
              exact ⟨_, rfl, h2⟩
            | some v =>
              obtain ⟨ps', rest⟩ := v
              obtain ⟨e1, e2⟩ := h4 ps' rest hsp
              subst e1
              have hm : ps.map List.length = lens := (splitLens_spec _ _ _ _ hsp).1
              simp only [hm, ne_eq, not_true_eq_false, ↓reduceIte, pure_run]
              exact ⟨s', ⟨rfl, by omega⟩, h2⟩


/-! ### OggPage.renumber as a program -/

/-- renumbering only overwrites pages in place: on a file object without faults it cannot fail for
lack of space, whatever the capacity; it leaves the pages renumbered as the pure model says -/
theorem renumberM_q {e : Env} (hq : Quiet e) (ser : Nat) (post : List Page) (A : Bytes) (n fuel : Nat) (s : FS)
    (hp : ∀ p ∈ post, Good p) (hn : n + (post.filter (·.serial = ser)).length ≤ 2 ^ 32) (hfuel : post.length < fuel)
    (hs : s.data = A ++ renderPages post) (hpos : s.pos = A.length) :
    ∃ s', renumberM ser fuel n e s = (.ok (), s') ∧ s'.data = A ++ renderPages (renum ser n post) := by
  induction post generalizing A n fuel s with
  | nil =>
    cases fuel with
    | zero => omega
    | succ fuel =>
      obtain ⟨s1, h1, h2⟩ := readPageM_q hq s (by rw [hpos, hs]; simp)
      have : readPage s.data s.pos = .error .eof := by
        rw [hpos, hs]; simp only [renderPages_nil, List.append_nil]; exact readPage_eof A
      rw [this] at h1
      simp only at h1
      simp only [renumberM, bind_run, tryCatch, h1, beq_self_eq_true, ↓reduceIte, pure_run]
      exact ⟨s1, rfl, by rw [h2, hs]; simp [renum]⟩
  | cons p r ih =>
    cases fuel with
    | zero => simp at hfuel
    | succ fuel =>
      have hgp := hp p (by simp)
      obtain ⟨s1, h1, h2⟩ := readPageM_q hq s (by rw [hpos, hs]; simp)
      have hrd : readPage s.data s.pos = .ok (p, A.length + p.size) := by
        rw [hpos, hs]; exact readPage_at _ A (renderPages r) p hgp (by simp [List.append_assoc])
      rw [hrd] at h1
      simp only at h1
      obtain ⟨h1a, h1b⟩ := h1
      simp only [renumberM, bind_run, tryCatch, h1a, pure_run]
      by_cases hser : p.serial = ser
      · rw [if_neg (by simp [hser])]
        simp only [List.filter_cons, hser, decide_true, ↓reduceIte, List.length_cons] at hn
        have hg' := good_setSeq p n hgp (by omega)
        simp only [bind_run, curPos, fseek_q hq, hg'.render, h1b, hpos, Nat.add_sub_cancel]
        have hd1 : s1.data = A ++ rb p ++ renderPages r := by rw [h2, hs]; simp [List.append_assoc]
        have hbl : (rb { p with sequence := n }).length = (rb p).length := by
          rw [length_rb, length_rb]; rfl
        have hin : A.length + (rb { p with sequence := n }).length ≤ s1.data.length := by
          rw [hd1]; simp only [List.length_append, hbl]; omega
        rw [fwrite_q_inside hq _ _ (by simpa using hin)]
        have hw : writeData s1.data A.length (rb { p with sequence := n }) = (A ++ rb { p with sequence := n }) ++ renderPages r := by
          rw [writeData_inside _ _ _ (by omega), hd1]
          exact writeAt_mid A (rb p) (renderPages r) _ hbl.symm
        obtain ⟨s2, hr2, hd2⟩ := ih (A ++ rb { p with sequence := n }) (n + 1) fuel
          { data := writeData s1.data A.length (rb { p with sequence := n }), pos := A.length + p.size,
            ops := s1.ops + 1 + 1 + 1, log := .seek (A.length + p.size) :: .write (rb { p with sequence := n }).length :: .seek A.length :: s1.log }
          (fun x hx => hp x (by simp [hx])) (by omega) (by simp at hfuel; omega) hw
          (by simp only [List.length_append, length_rb]; rfl)
        refine ⟨s2, hr2, ?_⟩
        rw [hd2]; simp [renum, hser, List.append_assoc]
      · rw [if_pos (by simpa using hser)]
        simp only [List.filter_cons, hser, decide_false, Bool.false_eq_true, ↓reduceIte] at hn
        obtain ⟨s2, hr2, hd2⟩ := ih (A ++ rb p) n fuel s1 (fun x hx => hp x (by simp [hx])) hn (by simp at hfuel; omega)
          (by rw [h2, hs]; simp [List.append_assoc]) (by rw [h1b]; simp [length_rb])
        refine ⟨s2, hr2, ?_⟩
        rw [hd2]; simp [renum, hser, List.append_assoc]


/-! ### OggPage.replace as a program, on a run layout -/

theorem dataEndOf_slots (m : List Slot) (ds : List Bytes) (hlen : ds.length = m.length) (a off : Nat) (adj : Int) (e0 : Nat)
    (hadj : (off : Int) + adj = a) : dataEndOf ((rds off m).zip ds) adj e0 = spliceEnd a ds m e0 := by
  induction m generalizing ds a off adj e0 with
  | nil => cases ds <;> simp [rds, dataEndOf, spliceEnd]
  | cons s m ih =>
    cases ds with
    | nil => simp at hlen
    | cons d ds =>
      simp only [rds, List.zip_cons_cons, dataEndOf, spliceEnd]
      have hoff : ((off : Int) + adj).toNat = a := by omega
      rw [hoff]
      exact ih ds (by simpa using hlen) _ _ _ _ (by omega)

/-- `OggPage.replace` on the file object: with a slot step that replaces its region or — when `P` —
raises ENOSPC leaving the file alone, `replace` completes with the pages `L.after new` in the file, or
— when `P` — raises ENOSPC at a slot `j` with exactly the slots before `j` rewritten -/
theorem replaceM_run {e : Env} (hq : Quiet e) (B : Nat) (P : Prop)
    (hstep : ∀ off old new s, off + old ≤ s.data.length →
      (∃ s', replaceRegion B off old new e s = (.ok (), s') ∧ s'.data = s.data.take off ++ new ++ s.data.drop (off + old)) ∨
      (P ∧ ∃ s', replaceRegion B off old new e s = (.error .enospc, s') ∧ s'.data = s.data))
    (L : Layout) (h : L.RunOK) (new : List Page) (hnew : new ≠ [])
    (hren : ∀ p ∈ prepare L.c1 L.cK new, Renderable p)
    (hseq : L.slots.length ≠ new.length →
      L.c1.sequence + new.length + (L.post.filter (·.serial = L.serial)).length ≤ 2 ^ 32)
    (flen : Nat) (hflen : L.post.length < flen) (s : FS) (hs : s.data = L.render) :
    (∃ s', replaceM B (rds (renderPages L.pre).length L.slots) new flen e s = (.ok (), s') ∧
      s'.data = renderPages (L.after new)) ∨
    (P ∧ ∃ s' j, j < L.slots.length ∧
      replaceM B (rds (renderPages L.pre).length L.slots) new flen e s = (.error .enospc, s') ∧
      s'.data = renderPages L.pre ++ mixed j (fitData L.slots.length ((prepare L.c1 L.cK new).map rb)) L.slots ++
        renderPages L.post) := by
  have hne := h.ne
  have hm0 := h.pos
  generalize hA : renderPages L.pre = A at *
  have hh : (rds A.length L.slots).head? = some ⟨L.c1, A.length⟩ := by
    have := head_oldPages L hne
    cases hsl : L.slots with
    | nil => exact absurd hsl hne
    | cons sl m =>
      simp only [Layout.oldPages, hsl, List.map_cons, List.head?_cons, Option.some.injEq] at this
      simp [rds, this]
  have hl : ∃ o, (rds A.length L.slots).getLast? = some ⟨L.cK, o⟩ := by
    have h1 : ((rds A.length L.slots).map (·.page)).getLast? = some L.cK := by
      rw [map_page_rds]; exact last_oldPages L hne
    rw [List.getLast?_map] at h1
    cases hg : (rds A.length L.slots).getLast? with
    | none => rw [hg] at h1; simp at h1
    | some r =>
      rw [hg] at h1
      simp only [Option.map_some, Option.some.injEq] at h1
      exact ⟨r.offset, by cases r; simp_all⟩
  obtain ⟨oK, hl⟩ := hl
  obtain ⟨n0, nr, rfl⟩ : ∃ n0 nr, new = n0 :: nr := by
    cases new with
    | nil => exact absurd rfl hnew
    | cons a b => exact ⟨a, b, rfl⟩
  have hs' : s.data = A ++ slotsBytes L.slots ++ renderPages L.post := by rw [hs, L.render_eq, hA]
  unfold replaceM
  rw [hh, hl]
  simp only
  rw [renderList_ok _ hren]
  simp only [length_rds]
  have hfl : (fitData L.slots.length ((prepare L.c1 L.cK (n0 :: nr)).map rb)).length = L.slots.length := by
    rw [fitData_map]; simp [length_fitPages _ _ hm0]
  rcases replaceLoopM_slots e B P hstep L.slots _ hfl A (renderPages L.post) A.length 0 (by simp) s hs' with
    ⟨s1, hr, hd⟩ | ⟨hP, s1, j, hj, hr, hd⟩
  · left
    simp only [bind_run, hr]
    have hafter : renderPages (L.after (n0 :: nr)) = A ++ splice (fitData L.slots.length ((prepare L.c1 L.cK (n0 :: nr)).map rb)) L.slots ++
        renderPages (if L.slots.length ≠ (n0 :: nr).length then renum L.serial (L.c1.sequence + (n0 :: nr).length) L.post else L.post) := by
      rw [fitData_map, ← renderPages_splicePages]
      simp [Layout.after, renderPages_append, hA, List.append_assoc]
    split
    · rename_i hdiff
      simp only [bind_run, fseek_q hq]
      rw [dataEndOf_slots L.slots _ hfl A.length A.length 0 0 (by simp), spliceEnd_lastGap L.slots _ hfl h.last]
      obtain ⟨s2, hr2, hd2⟩ := renumberM_q hq L.serial L.post
        (A ++ splice (fitData L.slots.length ((prepare L.c1 L.cK (n0 :: nr)).map rb)) L.slots)
        (L.c1.sequence + (n0 :: nr).length) flen
        { data := s1.data, pos := A.length + (splice (fitData L.slots.length ((prepare L.c1 L.cK (n0 :: nr)).map rb)) L.slots).length,
          ops := s1.ops + 1, log := .seek (A.length + (splice (fitData L.slots.length ((prepare L.c1 L.cK (n0 :: nr)).map rb)) L.slots).length) :: s1.log }
        h.post (hseq hdiff) hflen hd (by simp)
      have hser : L.c1.serial = L.serial := rfl
      rw [hser, hr2]
      refine ⟨s2, rfl, ?_⟩
      rw [hd2, hafter, if_pos hdiff]
    · rename_i hsame
      refine ⟨s1, rfl, ?_⟩
      rw [hd, hafter, if_neg hsame]
  · right
    refine ⟨hP, s1, j, hj, ?_, hd⟩
    simp only [bind_run, hr]


/-! ### `_inject` and `save` as programs on a well-formed layout -/

theorem clean_quiet' : Quiet Env.clean := ⟨fun _ => rfl, fun _ => rfl⟩

theorem injectM_layout {e : Env} (hq : Quiet e) (B : Nat) (P : Prop)
    (hstep : ∀ off old new s, off + old ≤ s.data.length →
      (∃ s', replaceRegion B off old new e s = (.ok (), s') ∧ s'.data = s.data.take off ++ new ++ s.data.drop (off + old)) ∨
      (P ∧ ∃ s', replaceRegion B off old new e s = (.error .enospc, s') ∧ s'.data = s.data))
    (c : Codec) (L : Layout) (h : L.OK c) (hs : L.StreamOK) (vc padData : Bytes) (pad : PadChoice)
    (old0 new0 : Bytes) (others : List Bytes) (new : List Page)
    (hpk : toPackets L.oldPages false = .ok (old0 :: others))
    (hnp : newPacket c old0 vc padData pad L.render.length = .ok new0)
    (hnew : newPages c (new0 :: others) L.oldPages = .ok new)
    (hseq : L.c1.sequence + new.length + (L.post.filter (·.serial = L.serial)).length ≤ 2 ^ 32)
    (s : FS) (hsd : s.data = L.render) :
    (∃ s', injectM B c L.render vc padData pad e s = (.ok (), s') ∧ s'.data = renderPages (L.after new)) ∨
    (P ∧ ∃ s' j, j < L.slots.length ∧ injectM B c L.render vc padData pad e s = (.error .enospc, s') ∧
      s'.data = renderPages L.pre ++ mixed j (fitData L.slots.length ((prepare L.c1 L.cK new).map rb)) L.slots ++
        renderPages L.post) := by
  have hf := facts_of_edit c L h hs old0 new0 others new hpk hnew
  have hren := renderable_of_facts c L h _ new hf (by omega)
  unfold injectM
  rw [commentPages_layout c L h]
  simp only [map_page_rds]
  have e1 : L.slots.map (·.1) = L.oldPages := rfl
  rw [e1, hpk]
  simp only
  rw [hnp]
  simp only
  rw [hnew]
  simp only
  apply replaceM_run hq B P hstep L h.runOK new hf.ne hren (fun _ => hseq) _ ?_ s hsd
  have h1 := length_renderPages_ge L.post
  have h2 : (renderPages L.post).length ≤ L.render.length := by
    rw [L.render_eq]; simp only [List.length_append]; omega
  omega

/-- 2a, refinement: without faults and without a capacity limit the program leaves exactly the bytes
the pure `save` returns -/
theorem saveEntry_refines (B : Nat) (hB : 0 < B) (c : Codec) (L : Layout) (h : L.OK c) (hs : L.StreamOK) (vc padData : Bytes)
    (pad : PadChoice) (old0 new0 : Bytes) (others : List Bytes) (new : List Page)
    (hpk : toPackets L.oldPages false = .ok (old0 :: others))
    (hnp : newPacket c old0 vc padData pad L.render.length = .ok new0)
    (hnew : newPages c (new0 :: others) L.oldPages = .ok new)
    (hseq : L.c1.sequence + new.length + (L.post.filter (·.serial = L.serial)).length ≤ 2 ^ 32)
    (s : FS) (hsd : s.data = L.render) :
    ∃ s', saveEntry B c L.render vc padData pad Env.clean s = (.ok (), s') ∧
      save c L.render vc padData pad = .ok s'.data := by
  have hstep : ∀ off old new s, off + old ≤ s.data.length →
      (∃ s', replaceRegion B off old new Env.clean s = (.ok (), s') ∧ s'.data = s.data.take off ++ new ++ s.data.drop (off + old)) ∨
      (False ∧ ∃ s', replaceRegion B off old new Env.clean s = (.error .enospc, s') ∧ s'.data = s.data) :=
    fun off old new s ho => Or.inl (replaceRegion_clean B hB off old new s ho)
  rcases injectM_layout clean_quiet' B False hstep c L h hs vc padData pad old0 new0 others new hpk hnp hnew hseq s hsd with
    ⟨s1, hr, hd⟩ | ⟨hF, _⟩
  · refine ⟨s1, ?_, ?_⟩
    · simp only [saveEntry, tryCatch, hr]
    · rw [hd]; exact (save_spec c L h hs vc padData pad old0 new0 others new hpk hnp hnew hseq).1
  · exact absurd hF id

/-- 2b, C19: on a device that may run full (any capacity, any leak), `save` completes with the pure
result, or raises the format's error (from ENOSPC) at some slot `j` of `OggPage.replace`: the old pages
before `j` have been replaced by their new data, everything else — the pages in front, the pages of
other streams in between, the old pages from `j` on and all pages behind — is in the file unchanged
and in order -/
theorem saveEntry_q {e : Env} (hq : Quiet e) (B : Nat) (hB : 0 < B) (c : Codec) (L : Layout) (h : L.OK c) (hs : L.StreamOK)
    (vc padData : Bytes) (pad : PadChoice) (old0 new0 : Bytes) (others : List Bytes) (new : List Page)
    (hpk : toPackets L.oldPages false = .ok (old0 :: others))
    (hnp : newPacket c old0 vc padData pad L.render.length = .ok new0)
    (hnew : newPages c (new0 :: others) L.oldPages = .ok new)
    (hseq : L.c1.sequence + new.length + (L.post.filter (·.serial = L.serial)).length ≤ 2 ^ 32)
    (s : FS) (hsd : s.data = L.render) :
    (∃ s', saveEntry B c L.render vc padData pad e s = (.ok (), s') ∧ s'.data = renderPages (L.after new)) ∨
    (∃ s' j, j < L.slots.length ∧ saveEntry B c L.render vc padData pad e s = (.error .mutagen, s') ∧
      s'.data = renderPages L.pre ++ mixed j (fitData L.slots.length ((prepare L.c1 L.cK new).map rb)) L.slots ++
        renderPages L.post) := by
  have hstep : ∀ off old new s, off + old ≤ s.data.length →
      (∃ s', replaceRegion B off old new e s = (.ok (), s') ∧ s'.data = s.data.take off ++ new ++ s.data.drop (off + old)) ∨
      (True ∧ ∃ s', replaceRegion B off old new e s = (.error .enospc, s') ∧ s'.data = s.data) := by
    intro off old new s ho
    rcases replaceRegion_q hq B hB off old new s ho with h1 | h1
    · exact Or.inl h1
    · exact Or.inr ⟨trivial, h1⟩
  rcases injectM_layout hq B True hstep c L h hs vc padData pad old0 new0 others new hpk hnp hnew hseq s hsd with
    ⟨s1, hr, hd⟩ | ⟨_, s1, j, hj, hr, hd⟩
  · left; exact ⟨s1, by simp only [saveEntry, tryCatch, hr], hd⟩
  · right
    refine ⟨s1, j, hj, ?_, hd⟩
    simp only [saveEntry, tryCatch, hr]
    rfl

/-- comments confined to one page: the only slot is enlarged before it is overwritten, and renumbering
writes in place — a failed save leaves the file byte-identical, length included -/
theorem saveEntry_one_page_atomic {e : Env} (hq : Quiet e) (B : Nat) (hB : 0 < B) (c : Codec) (L : Layout) (h : L.OK c)
    (hs : L.StreamOK) (h1 : L.slots.length = 1)
    (vc padData : Bytes) (pad : PadChoice) (old0 new0 : Bytes) (others : List Bytes) (new : List Page)
    (hpk : toPackets L.oldPages false = .ok (old0 :: others))
    (hnp : newPacket c old0 vc padData pad L.render.length = .ok new0)
    (hnew : newPages c (new0 :: others) L.oldPages = .ok new)
    (hseq : L.c1.sequence + new.length + (L.post.filter (·.serial = L.serial)).length ≤ 2 ^ 32)
    (s : FS) (hsd : s.data = L.render) :
    (∃ s', saveEntry B c L.render vc padData pad e s = (.ok (), s') ∧ s'.data = renderPages (L.after new)) ∨
    (∃ s', saveEntry B c L.render vc padData pad e s = (.error .mutagen, s') ∧ s'.data = s.data) := by
  rcases saveEntry_q hq B hB c L h hs vc padData pad old0 new0 others new hpk hnp hnew hseq s hsd with h' | ⟨s1, j, hj, hr, hd⟩
  · exact Or.inl h'
  · right
    have : j = 0 := by omega
    subst this
    refine ⟨s1, hr, ?_⟩
    rw [hd, mixed_zero, hsd, L.render_eq]


/-! ### C06: which exceptions can leave -/

/-- what the Ogg programs can raise: the exceptions of the pure part (EOFError, ogg.error, ValueError,
IndexError, struct.error) and those of the file primitives (injected, ENOSPC, ValueError, IOError, the
non-termination marker) -/
def OggErr (e : Env) (x : PyErr) : Prop :=
  x = .eof ∨ x = .mutagen ∨ x = .index ∨ x = .struct_ ∨ PrimErr e x

theorem oggErr_prim {e : Env} {x : PyErr} (h : PrimErr e x) : OggErr e x := Or.inr (Or.inr (Or.inr (Or.inr h)))
theorem oggErr_inj {e : Env} {x : PyErr} (h : Injected e x) : OggErr e x := oggErr_prim (inj_prim h)

theorem raises_curPos {P : Env → PyErr → Prop} : Raises P curPos := by
  intro e s err s' h; simp [curPos] at h

theorem raises_readPacketsM (lens : List Nat) : Raises OggErr (readPacketsM lens) := by
  induction lens with
  | nil => exact Raises.pure _ _
  | cons n r ih =>
    unfold readPacketsM
    apply Raises.bind ((Raises.fread n).weaken fun _ _ h => oggErr_inj h); intro p
    apply Raises.bind ih; intro ps
    exact Raises.pure _ _

theorem raises_readPageM : Raises OggErr readPageM := by
  unfold readPageM
  apply Raises.bind (Raises.ftell.weaken fun _ _ h => oggErr_inj h); intro off
  apply Raises.bind ((Raises.fread 27).weaken fun _ _ h => oggErr_inj h); intro hdr
  split
  · exact Raises.raise _ (fun _ => Or.inl rfl)
  split
  · exact Raises.raise _ (fun _ => Or.inr (Or.inl rfl))
  split
  · apply Raises.bind (Raises.ftell.weaken fun _ _ h => oggErr_inj h); intro _
    exact Raises.raise _ (fun _ => Or.inr (Or.inl rfl))
  simp only
  split
  · exact Raises.raise _ (fun _ => Or.inr (Or.inl rfl))
  apply Raises.bind ((Raises.fread _).weaken fun _ _ h => oggErr_inj h); intro lac
  split
  · exact Raises.raise _ (fun _ => Or.inr (Or.inl rfl))
  apply Raises.bind (raises_readPacketsM _); intro ps
  split
  · exact Raises.raise _ (fun _ => Or.inr (Or.inl rfl))
  · exact Raises.pure _ _

theorem raises_renumberM (ser fuel num : Nat) : Raises OggErr (renumberM ser fuel num) := by
  induction fuel generalizing num with
  | zero => exact Raises.raise _ (fun _ => oggErr_prim (prim_diverge _))
  | succ fuel ih =>
    unfold renumberM
    apply Raises.bind
    · apply Raises.tryCatch
      · exact Raises.bind raises_readPageM (fun _ => Raises.pure _ _)
      · intro e x _ _ s err s' h; simp at h
    intro r
    cases r with
    | none => exact Raises.pure _ _
    | some v =>
      obtain ⟨p, off⟩ := v
      simp only
      split
      · exact ih num
      · apply Raises.bind (P := OggErr) raises_curPos; intro here
        apply Raises.bind ((Raises.fseek _).weaken fun _ _ h => oggErr_inj h); intro _
        cases hr : ({ p with sequence := num } : Page).render with
        | error x =>
          simp only
          rcases render_err _ _ hr with h | h <;> subst h
          · exact Raises.raise _ (fun _ => oggErr_prim (prim_value _))
          · exact Raises.raise _ (fun _ => Or.inr (Or.inr (Or.inr (Or.inl rfl))))
        | ok b =>
          simp only
          apply Raises.bind ((Raises.fwrite b).weaken fun _ x hx =>
            hx.elim oggErr_inj (fun h => h ▸ oggErr_prim (prim_enospc _))); intro _
          apply Raises.bind ((Raises.fseek _).weaken fun _ _ h => oggErr_inj h); intro _
          exact ih (num + 1)

theorem raises_replaceLoopM (B : Nat) (l : List (Rd × Bytes)) (adj : Int) : Raises OggErr (replaceLoopM B l adj) := by
  induction l generalizing adj with
  | nil => exact Raises.pure _ _
  | cons x r ih =>
    obtain ⟨o, data⟩ := x
    unfold replaceLoopM
    apply Raises.bind ((Raises.resizeBytes _ _ _ _).weaken fun _ _ h => oggErr_prim h); intro _
    apply Raises.bind ((Raises.fseek _).weaken fun _ _ h => oggErr_inj h); intro _
    apply Raises.bind ((Raises.fwrite data).weaken fun _ x hx =>
      hx.elim oggErr_inj (fun h => h ▸ oggErr_prim (prim_enospc _))); intro _
    exact ih _

theorem raises_replaceM (B : Nat) (old : List Rd) (new : List Page) (flen : Nat) : Raises OggErr (replaceM B old new flen) := by
  unfold replaceM
  split
  · simp only
    split
    · rename_i x hx
      rcases renderList_err _ _ hx with h | h <;> subst h
      · exact Raises.raise _ (fun _ => oggErr_prim (prim_value _))
      · exact Raises.raise _ (fun _ => Or.inr (Or.inr (Or.inr (Or.inl rfl))))
    · apply Raises.bind (raises_replaceLoopM _ _ _); intro _
      split
      · apply Raises.bind ((Raises.fseek _).weaken fun _ _ h => oggErr_inj h); intro _
        exact raises_renumberM _ _ _
      · exact Raises.pure _ _
  · exact Raises.raise _ (fun _ => oggErr_prim (prim_value _))

theorem raises_injectM (B : Nat) (c : Codec) (f vc padData : Bytes) (pad : PadChoice) :
    Raises OggErr (injectM B c f vc padData pad) := by
  unfold injectM
  cases hc : commentPages c f with
  | error x =>
    simp only
    rcases (commentPages_spec c f).1 _ hc with h | h <;> subst h
    · exact Raises.raise _ (fun _ => Or.inl rfl)
    · exact Raises.raise _ (fun _ => Or.inr (Or.inl rfl))
  | ok old =>
    simp only
    cases hp : toPackets (old.map (·.page)) false with
    | error x =>
      simp only
      rcases toPackets_err _ _ _ hp with h | h <;> subst h
      · exact Raises.raise _ (fun _ => oggErr_prim (prim_value _))
      · exact Raises.raise _ (fun _ => Or.inr (Or.inr (Or.inl rfl)))
    | ok X =>
      cases X with
      | nil => exact Raises.raise _ (fun _ => Or.inr (Or.inr (Or.inl rfl)))
      | cons old0 others =>
        simp only
        cases hn : newPacket c old0 vc padData pad f.length with
        | error x =>
          simp only
          have : x = .mutagen := by
            unfold newPacket at hn
            split at hn
            · split at hn
              · cases hn; rfl
              · cases hn
            · simp only at hn
              split at hn <;> cases hn
          subst this
          exact Raises.raise _ (fun _ => Or.inr (Or.inl rfl))
        | ok new0 =>
          simp only
          cases hnp : newPages c (new0 :: others) (old.map (·.page)) with
          | error x =>
            -- laying out the packets never fails
            exfalso
            obtain ⟨r, more, rfl, _, _⟩ := (commentPages_spec c f).2 old hc
            simp only [List.map_cons] at hp hnp
            rcases newPages_ok c r.page (more.map (·.page)) (new0 :: others) _ hp with h' | ⟨_, _, h'⟩ <;>
              rw [h'] at hnp <;> cases hnp
          | ok new => exact raises_replaceM _ _ _ _

/-- `OggFileType.save` under ANY fault environment: what leaves is the format's error (MutagenError),
or an exception `save` does not convert: ValueError, or a non-I/O exception the environment injected
(and the model's non-termination marker, which needs BUFFER_SIZE = 0) -/
theorem raises_saveEntry (B : Nat) (c : Codec) (f vc padData : Bytes) (pad : PadChoice) :
    Raises (fun e x => x = .mutagen ∨ (OggErr e x ∧ oggCaught x = false)) (saveEntry B c f vc padData pad) := by
  intro e s err s' h
  unfold saveEntry Mutagen.tryCatch at h
  cases hb : injectM B c f vc padData pad e s with
  | mk r s1 =>
    rw [hb] at h
    cases r with
    | ok _ => simp at h
    | error x =>
      simp only at h
      split at h
      · simp only [raise_run, Prod.mk.injEq, Except.error.injEq] at h
        exact Or.inl h.1.symm
      · rename_i hp
        simp only [Prod.mk.injEq, Except.error.injEq] at h
        rw [← h.1]
        exact Or.inr ⟨raises_injectM B c f vc padData pad e s x s1 hb, by simpa using hp⟩

/-- with I/O faults only (every injected exception is an IOError; ENOSPC is one): MutagenError, or
ValueError (the comment run is not numbered consecutively: C04) — `.diverge` needs BUFFER_SIZE = 0 -/
theorem saveEntry_io_faults (B : Nat) (c : Codec) (f vc padData : Bytes) (pad : PadChoice) (e : Env)
    (hio : ∀ i x, e.failAt i = some x → x.isIO = true) (s s' : FS) (x : PyErr)
    (h : saveEntry B c f vc padData pad e s = (.error x, s')) : x = .mutagen ∨ x = .value ∨ x = .diverge := by
  rcases raises_saveEntry B c f vc padData pad e s x s' h with h1 | ⟨h2, hn⟩
  · exact Or.inl h1
  · rcases h2 with h2 | h2 | h2 | h2 | h2
    · subst h2; simp [oggCaught] at hn
    · subst h2; simp [oggCaught] at hn
    · subst h2; simp [oggCaught] at hn
    · subst h2; simp [oggCaught] at hn
    · rcases h2 with ⟨i, hi⟩ | h2 | h2 | h2 | h2
      · have := hio i x hi
        simp [oggCaught, this] at hn
      · subst h2; simp [oggCaught, PyErr.isIO] at hn
      · exact Or.inr (Or.inl h2)
      · subst h2; simp [oggCaught, PyErr.isIO] at hn
      · exact Or.inr (Or.inr h2)


/-! ### C06: a normal return means written -/

/-- in the environment `e`: a normal return of `m` is also its return without the injected faults -/
def OkOn (e : Env) (m : FileM α) : Prop := ∀ s a s', m e s = (.ok a, s') → m e.noFaults s = (.ok a, s')
/-- in the environment `e`: an exception of `m` was injected, or `m` raises it without the injected
faults as well (from the same state) -/
def ErrOn (e : Env) (m : FileM α) : Prop :=
  ∀ s x s', m e s = (.error x, s') → Injected e x ∨ m e.noFaults s = (.error x, s')

theorem OkOn.of {m : FileM α} (h : OkAgree m) (e : Env) : OkOn e m := fun s a s' hm => h e s a s' hm

theorem OkOn.bind {e : Env} {m : FileM α} {f : α → FileM β} (hm : OkOn e m) (hf : ∀ a, OkOn e (f a)) : OkOn e (m >>= f) := by
  intro s b s' h
  simp only [bind_run] at h ⊢
  cases hms : m e s with
  | mk r s1 =>
    rw [hms] at h
    cases r with
    | ok a => rw [hm s a s1 hms]; exact hf a s1 b s' h
    | error x => simp at h

theorem ErrOn.bind {e : Env} {m : FileM α} {f : α → FileM β} (hmo : OkOn e m) (hm : ErrOn e m) (hf : ∀ a, ErrOn e (f a)) :
    ErrOn e (m >>= f) := by
  intro s x s' h
  simp only [bind_run] at h ⊢
  cases hms : m e s with
  | mk r s1 =>
    rw [hms] at h
    cases r with
    | ok a => rw [hmo s a s1 hms]; exact hf a s1 x s' h
    | error y =>
      simp only [Prod.mk.injEq, Except.error.injEq] at h
      obtain ⟨rfl, rfl⟩ := h
      rcases hm s y s1 hms with hi | hn
      · exact Or.inl hi
      · right; rw [hn]

theorem ErrOn.pure {e : Env} (a : α) : ErrOn e (pure a : FileM α) := by intro s x s' h; simp at h
theorem ErrOn.raise {e : Env} (y : PyErr) : ErrOn e (raise y : FileM α) := by intro s x s' h; exact Or.inr h
theorem ErrOn.ofInjected {e : Env} {m : FileM α} (h : Raises Injected m) : ErrOn e m :=
  fun s x s' hm => Or.inl (h e s x s' hm)

theorem okOn_readPacketsM (e : Env) (lens : List Nat) : OkOn e (readPacketsM lens) := by
  induction lens with
  | nil => exact OkOn.of (OkAgree.pure _) e
  | cons n r ih =>
    unfold readPacketsM
    exact OkOn.bind (OkOn.of (OkAgree.fread n) e) (fun p => OkOn.bind ih (fun ps => OkOn.of (OkAgree.pure _) e))

theorem errOn_readPacketsM (e : Env) (lens : List Nat) : ErrOn e (readPacketsM lens) := by
  induction lens with
  | nil => exact ErrOn.pure _
  | cons n r ih =>
    unfold readPacketsM
    exact ErrOn.bind (OkOn.of (OkAgree.fread n) e) (ErrOn.ofInjected (Raises.fread n))
      (fun p => ErrOn.bind (okOn_readPacketsM e r) ih (fun ps => ErrOn.pure _))

theorem okOn_readPageM (e : Env) : OkOn e readPageM := by
  unfold readPageM
  apply OkOn.bind (OkOn.of OkAgree.ftell e); intro off
  apply OkOn.bind (OkOn.of (OkAgree.fread 27) e); intro hdr
  split
  · exact OkOn.of (OkAgree.raise _) e
  split
  · exact OkOn.of (OkAgree.raise _) e
  split
  · exact OkOn.bind (OkOn.of OkAgree.ftell e) (fun _ => OkOn.of (OkAgree.raise _) e)
  simp only
  split
  · exact OkOn.of (OkAgree.raise _) e
  apply OkOn.bind (OkOn.of (OkAgree.fread _) e); intro lac
  split
  · exact OkOn.of (OkAgree.raise _) e
  apply OkOn.bind (okOn_readPacketsM e _); intro ps
  split
  · exact OkOn.of (OkAgree.raise _) e
  · exact OkOn.of (OkAgree.pure _) e

theorem errOn_readPageM (e : Env) : ErrOn e readPageM := by
  unfold readPageM
  apply ErrOn.bind (OkOn.of OkAgree.ftell e) (ErrOn.ofInjected Raises.ftell); intro off
  apply ErrOn.bind (OkOn.of (OkAgree.fread 27) e) (ErrOn.ofInjected (Raises.fread 27)); intro hdr
  split
  · exact ErrOn.raise _
  split
  · exact ErrOn.raise _
  split
  · exact ErrOn.bind (OkOn.of OkAgree.ftell e) (ErrOn.ofInjected Raises.ftell) (fun _ => ErrOn.raise _)
  simp only
  split
  · exact ErrOn.raise _
  apply ErrOn.bind (OkOn.of (OkAgree.fread _) e) (ErrOn.ofInjected (Raises.fread _)); intro lac
  split
  · exact ErrOn.raise _
  apply ErrOn.bind (okOn_readPacketsM e _) (errOn_readPacketsM e _); intro ps
  split
  · exact ErrOn.raise _
  · exact ErrOn.pure _

/-- `try: page = OggPage(fileobj)  except EOFError: break` swallows nothing the file object raised,
as long as the file object does not raise EOFError itself -/
theorem okOn_tryEof (e : Env) (hno : ∀ i, e.failAt i ≠ some .eof) :
    OkOn e (tryCatch (do let x ← readPageM; pure (some x)) (fun x => x == .eof) (fun _ => pure none)) := by
  have hbo : OkOn e (do let x ← readPageM; pure (some x) : FileM (Option (Page × Nat))) :=
    OkOn.bind (okOn_readPageM e) (fun _ => OkOn.of (OkAgree.pure _) e)
  have hbe : ErrOn e (do let x ← readPageM; pure (some x) : FileM (Option (Page × Nat))) :=
    ErrOn.bind (okOn_readPageM e) (errOn_readPageM e) (fun _ => ErrOn.pure _)
  intro s a s' h
  unfold tryCatch at h ⊢
  cases hb : (do let x ← readPageM; pure (some x) : FileM (Option (Page × Nat))) e s with
  | mk r s1 =>
    rw [hb] at h
    cases r with
    | ok v => rw [hbo s v s1 hb]; exact h
    | error x =>
      simp only at h
      split at h
      · rename_i hx
        have hx' : x = .eof := by simpa using hx
        subst hx'
        rcases hbe s .eof s1 hb with ⟨i, hi⟩ | hn
        · exact absurd hi (hno i)
        · rw [hn]; simp only [beq_self_eq_true, ↓reduceIte]; exact h
      · simp at h

theorem okOn_renumberM (e : Env) (hno : ∀ i, e.failAt i ≠ some .eof) (ser fuel num : Nat) : OkOn e (renumberM ser fuel num) := by
  induction fuel generalizing num with
  | zero => exact OkOn.of (OkAgree.raise _) e
  | succ fuel ih =>
    unfold renumberM
    apply OkOn.bind (okOn_tryEof e hno); intro r
    cases r with
    | none => exact OkOn.of (OkAgree.pure _) e
    | some v =>
      obtain ⟨p, off⟩ := v
      simp only
      split
      · exact ih num
      · apply OkOn.bind (by intro s a s' h; exact h); intro here
        apply OkOn.bind (OkOn.of (OkAgree.fseek _) e); intro _
        cases hr : ({ p with sequence := num } : Page).render with
        | error x => exact OkOn.of (OkAgree.raise _) e
        | ok b =>
          simp only
          apply OkOn.bind (OkOn.of (OkAgree.fwrite b) e); intro _
          apply OkOn.bind (OkOn.of (OkAgree.fseek _) e); intro _
          exact ih (num + 1)

theorem okOn_replaceLoopM (e : Env) (B : Nat) (l : List (Rd × Bytes)) (adj : Int) : OkOn e (replaceLoopM B l adj) := by
  induction l generalizing adj with
  | nil => exact OkOn.of (OkAgree.pure _) e
  | cons x r ih =>
    obtain ⟨o, data⟩ := x
    unfold replaceLoopM
    apply OkOn.bind (OkOn.of (OkAgree.resizeBytes _ _ _ _) e); intro _
    apply OkOn.bind (OkOn.of (OkAgree.fseek _) e); intro _
    apply OkOn.bind (OkOn.of (OkAgree.fwrite data) e); intro _
    exact ih _

theorem okOn_injectM (e : Env) (hno : ∀ i, e.failAt i ≠ some .eof) (B : Nat) (c : Codec) (f vc padData : Bytes) (pad : PadChoice) :
    OkOn e (injectM B c f vc padData pad) := by
  unfold injectM
  split
  · exact OkOn.of (OkAgree.raise _) e
  split
  · exact OkOn.of (OkAgree.raise _) e
  · exact OkOn.of (OkAgree.raise _) e
  split
  · exact OkOn.of (OkAgree.raise _) e
  split
  · exact OkOn.of (OkAgree.raise _) e
  unfold replaceM
  split
  · simp only
    split
    · exact OkOn.of (OkAgree.raise _) e
    · apply OkOn.bind (okOn_replaceLoopM e _ _ _); intro _
      split
      · apply OkOn.bind (OkOn.of (OkAgree.fseek _) e); intro _
        exact okOn_renumberM e hno _ _ _
      · exact OkOn.of (OkAgree.pure _) e
  · exact OkOn.of (OkAgree.raise _) e

/-- success means written: a normal return of `save` — in any environment without short reads in which
the file object does not itself raise EOFError, on a device of any capacity — leaves the complete new
state in the file -/
theorem saveEntry_ok_means_written (B : Nat) (hB : 0 < B) (c : Codec) (L : Layout) (h : L.OK c) (hs : L.StreamOK)
    (vc padData : Bytes) (pad : PadChoice) (old0 new0 : Bytes) (others : List Bytes) (new : List Page)
    (hpk : toPackets L.oldPages false = .ok (old0 :: others))
    (hnp : newPacket c old0 vc padData pad L.render.length = .ok new0)
    (hnew : newPages c (new0 :: others) L.oldPages = .ok new)
    (hseq : L.c1.sequence + new.length + (L.post.filter (·.serial = L.serial)).length ≤ 2 ^ 32)
    (e : Env) (hshort : ∀ i, e.shortAt i = none) (hno : ∀ i, e.failAt i ≠ some .eof)
    (s s' : FS) (hsd : s.data = L.render) (hok : saveEntry B c L.render vc padData pad e s = (.ok (), s')) :
    s'.data = renderPages (L.after new) ∧ save c L.render vc padData pad = .ok s'.data := by
  have hinj : injectM B c L.render vc padData pad e s = (.ok (), s') := by
    unfold saveEntry Mutagen.tryCatch at hok
    cases hb : injectM B c L.render vc padData pad e s with
    | mk r s1 =>
      rw [hb] at hok
      cases r with
      | ok _ => exact hok
      | error x => simp only at hok; split at hok <;> simp at hok
  have h' := okOn_injectM e hno B c L.render vc padData pad s () s' hinj
  have hq : Quiet e.noFaults := ⟨fun _ => rfl, hshort⟩
  have hfinal : s'.data = renderPages (L.after new) := by
    rcases saveEntry_q hq B hB c L h hs vc padData pad old0 new0 others new hpk hnp hnew hseq s hsd with
      ⟨s2, hr, hd⟩ | ⟨s2, j, _, hr, _⟩
    · simp only [saveEntry, Mutagen.tryCatch, h'] at hr
      injection hr with _ h2
      rw [h2]; exact hd
    · simp only [saveEntry, Mutagen.tryCatch, h'] at hr
      injection hr with h1 _; cases h1
  exact ⟨hfinal, by rw [hfinal]; exact (save_spec c L h hs vc padData pad old0 new0 others new hpk hnp hnew hseq).1⟩


/-- a Vorbis comment with a 40-byte vendor string and no entries (for the examples of the Props files) -/
def Example.bigComment : Bytes := [40, 0, 0, 0] ++ List.replicate 40 65 ++ [0, 0, 0, 0, 1]

end Mutagen.OggInj
