/- Proofs/Container/Mp4Props.lean — MP4: the atom reader on rendered trees, the region `save` picks on a layout, and
what `saveTags` leaves on a layout (for Props/C02_Mp4 … C09_Mp4) -/
import MutagenModel.Proofs.Container.Mp4Total
import MutagenModel.Model.Container.Mp4Layout
set_option linter.unusedVariables false
namespace Mutagen.Mp4C
open Mutagen

/-! ### A. mutagen's atom reader on a rendered tree -/

mutual
/-- fuel the reader needs for an atom / a list of children -/
def Atom.need : Atom → Nat
  | .leaf _ _ _ => 1
  | .node _ _ _ cs => 1 + needList cs
def needList : List Atom → Nat
  | [] => 1
  | a :: r => 1 + a.need + needList r
end

theorem readAt_take' (f : Bytes) (pos m n : Nat) (h : m ≤ n) : (readAt f pos n).take m = readAt f pos m := by
  unfold readAt
  rw [List.take_take, Nat.min_eq_left h]

theorem readAt_split {f : Bytes} {pos : Nat} {A B : Bytes} (h : readAt f pos (A.length + B.length) = A ++ B) :
    readAt f pos A.length = A ∧ readAt f (pos + A.length) B.length = B := by
  constructor
  · rw [← readAt_take' f pos A.length (A.length + B.length) (by omega), h, List.take_left' rfl]
  · have := readAt_drop f pos (A.length + B.length) A.length
    rw [h, List.drop_left' rfl, show A.length + B.length - A.length = B.length by omega] at this
    exact this.symm

/-- the header fields of a rendered well-formed atom at `pos`, as `parseAtom` computes them -/
theorem header_read (a : Atom) (h : a.wf) (f : Bytes) (pos : Nat) (hr : readAt f pos a.size = a.render) :
    (readAt f pos 8).length = 8 ∧ List.drop 4 (readAt f pos 8) = a.name ∧
    (if a.isWide then ofBE (List.take 4 (readAt f pos 8)) = 1 ∧ (readAt f (pos + 8) 8).length = 8 ∧ ofBE (readAt f (pos + 8) 8) = a.size
     else ofBE (List.take 4 (readAt f pos 8)) = a.size) ∧
    readAt f (pos + hdrLen a.isWide) a.body.length = a.body := by
  have hn := a.wf_name h
  have hsz := a.size_eq h
  have hfit := a.size_fits h
  rw [a.render_eq] at hr
  generalize a.size = size at *
  generalize a.body = body at *
  generalize a.name = name at *
  cases hw : a.isWide with
  | false =>
    rw [hw] at hr hsz hfit
    simp only [Bool.false_eq_true, ↓reduceIte, hdrLen] at hfit hsz ⊢
    have hr' : readAt f pos ((toBE 4 size ++ name).length + body.length) = (toBE 4 size ++ name) ++ body := by
      simp only [List.length_append, length_toBE, hn]
      rw [show 4 + 4 + body.length = size by omega]
      simpa [header] using hr
    obtain ⟨hh, hb⟩ := readAt_split hr'
    simp only [List.length_append, length_toBE, hn] at hh hb
    rw [show (4 : Nat) + 4 = 8 from rfl] at hh hb
    rw [hh]
    refine ⟨by simp [hn], by rw [List.drop_left' (by simp)], ?_, hb⟩
    rw [List.take_left' (by simp)]
    exact ofBE_toBE 4 size (by simpa using hfit)
  | true =>
    rw [hw] at hr hsz hfit
    simp only [↓reduceIte, hdrLen] at hfit hsz ⊢
    have hr' : readAt f pos (((toBE 4 1 ++ name) ++ toBE 8 size).length + body.length) = ((toBE 4 1 ++ name) ++ toBE 8 size) ++ body := by
      simp only [List.length_append, length_toBE, hn]
      rw [show 4 + 4 + 8 + body.length = size by omega]
      simpa [header] using hr
    obtain ⟨hh, hb⟩ := readAt_split hr'
    have hh' : readAt f pos ((toBE 4 1 ++ name).length + (toBE 8 size).length) = (toBE 4 1 ++ name) ++ toBE 8 size := by
      simpa only [List.length_append] using hh
    obtain ⟨h8, he⟩ := readAt_split hh'
    simp only [List.length_append, length_toBE, hn] at h8 he hb
    rw [show (4 : Nat) + 4 = 8 from rfl] at h8 he
    rw [show (8 : Nat) + 8 = 16 from rfl] at hb
    rw [h8, he]
    refine ⟨by simp [hn], by rw [List.drop_left' (by simp)], ⟨?_, by simp, ?_⟩, hb⟩
    · rw [List.take_left' (by simp)]; decide
    · exact ofBE_toBE 8 size (by simpa using hfit)

theorem hdrLen_ge (w : Bool) : 8 ≤ hdrLen w := by cases w <;> simp [hdrLen]

/-- `Atom(fileobj, level)` / the children loop on a rendered well-formed tree: the annotated tree, and the file position
behind it — for every fuel that suffices and every level that leaves room for the nesting below -/
theorem parse_render_core : ∀ fuel : Nat,
    (∀ (a : Atom) (f : Bytes) (pos level : Nat), a.wf → a.need ≤ fuel → readAt f pos a.size = a.render →
      level + a.depth ≤ 65 → parseAtom fuel f pos level = .ok (a.annot pos, pos + a.size)) ∧
    (∀ (l : List Atom) (f : Bytes) (pos level : Nat), wfList l → needList l ≤ fuel →
      readAt f pos (sizeList l) = renderList l → level + depthList l ≤ 65 → 0 < level →
      parseKids fuel f pos (pos + sizeList l) level = .ok (annotList pos l, pos + sizeList l)) := by
  intro fuel
  induction fuel with
  | zero =>
    refine ⟨fun a f pos level _ hn => ?_, fun l f pos level _ hn => ?_⟩
    · cases a <;> simp [Atom.need] at hn
    · cases l <;> simp [needList] at hn
  | succ fuel ih =>
    obtain ⟨ihA, ihK⟩ := ih
    refine ⟨?_, ?_⟩
    · intro a f pos level hwf hneed hr hlv
      obtain ⟨h8, hname, hsz, hbody⟩ := header_read a hwf f pos hr
      have hge := a.size_ge
      have hfit := a.size_fits hwf
      unfold parseAtom
      simp only []
      rw [if_neg (by omega), hname]
      -- the size and data offset
      have hsized : (if ofBE (List.take 4 (readAt f pos 8)) = 1 then
            if (readAt f (pos + 8) 8).length < 8 then (Except.error PyErr.mutagen : Except PyErr (Nat × Nat))
            else if ofBE (readAt f (pos + 8) 8) < 16 then Except.error PyErr.mutagen
              else Except.ok (ofBE (readAt f (pos + 8) 8), pos + 16)
          else if ofBE (List.take 4 (readAt f pos 8)) = 0 then
            if level ≠ 0 then Except.error PyErr.mutagen else Except.ok (f.length - pos, pos + 8)
          else if ofBE (List.take 4 (readAt f pos 8)) < 8 then Except.error PyErr.mutagen
            else Except.ok (ofBE (List.take 4 (readAt f pos 8)), pos + 8)) = .ok (a.size, pos + hdrLen a.isWide) := by
        cases hw : a.isWide with
        | true =>
          rw [hw] at hsz
          simp only [↓reduceIte] at hsz
          obtain ⟨h1, h2, h3⟩ := hsz
          have h16 : 16 ≤ a.size := by
            have := a.size_eq hwf; rw [hw] at this; simp [hdrLen] at this; omega
          rw [if_pos h1, if_neg (by omega), h3, if_neg (by omega)]
          simp [hdrLen]
        | false =>
          rw [hw] at hsz
          simp only [Bool.false_eq_true, ↓reduceIte] at hsz
          rw [hsz, if_neg (by omega), if_neg (by omega), if_neg (by omega)]
          simp [hdrLen]
      rw [hsized]
      simp only []
      cases a with
      | leaf n w p =>
        simp only [Atom.wf] at hwf
        simp only [Atom.name, hwf.2.1, Bool.false_eq_true, ↓reduceIte, Atom.annot, Atom.size, Atom.isWide]
      | node n w sk cs =>
        simp only [Atom.wf] at hwf
        obtain ⟨_, hc, hskip, _, hcs⟩ := hwf
        simp only [Atom.depth] at hlv
        simp only [Atom.name, hc, ↓reduceIte, Atom.isWide]
        rw [if_neg (by omega)]
        simp only [Atom.body, Atom.isWide, List.length_append] at hbody
        have hbody' : readAt f (pos + hdrLen w) (sk.length + (renderList cs).length) = sk ++ renderList cs := hbody
        obtain ⟨_, hkids⟩ := readAt_split hbody'
        rw [length_renderList cs hcs] at hkids
        simp only [Atom.need] at hneed
        have := ihK cs f (pos + hdrLen w + sk.length) (level + 1) hcs (by omega) hkids (by omega) (by omega)
        rw [← hskip]
        have e1 : pos + (Atom.node n w sk cs).size = pos + hdrLen w + sk.length + sizeList cs := by
          simp [Atom.size]; omega
        rw [e1, this]
        simp only [Atom.annot, Atom.size]
    · intro l f pos level hwf hneed hr hlv hl0
      unfold parseKids
      cases l with
      | nil =>
        simp only [sizeList, Nat.add_zero, Nat.lt_irrefl, ↓reduceIte, annotList]
      | cons a r =>
        simp only [wfList] at hwf
        simp only [needList] at hneed
        simp only [depthList] at hlv
        have hge := a.size_ge
        have hs : sizeList (a :: r) = a.size + sizeList r := rfl
        rw [if_pos (by rw [hs]; omega), hs]
        have hr' : readAt f pos (a.render.length + (renderList r).length) = a.render ++ renderList r := by
          rw [a.length_render hwf.1, length_renderList r hwf.2]; simpa [sizeList, renderList] using hr
        obtain ⟨ha, hrr⟩ := readAt_split hr'
        rw [a.length_render hwf.1] at ha hrr
        rw [length_renderList r hwf.2] at hrr
        rw [ihA a f pos level hwf.1 (by omega) ha (by omega)]
        simp only []
        have := ihK r f (pos + a.size) level hwf.2 (by omega) hrr (by omega) hl0
        rw [show pos + (a.size + sizeList r) = pos + a.size + sizeList r by omega, this]
        simp only [annotList]

mutual
theorem Atom.need_le : (a : Atom) → 2 * a.need + 4 ≤ a.size
  | .leaf n w p => by have := hdrLen_ge w; simp [Atom.need, Atom.size]; omega
  | .node n w s cs => by have := hdrLen_ge w; have := needList_le cs; simp [Atom.need, Atom.size]; omega
theorem needList_le : (l : List Atom) → 2 * needList l ≤ sizeList l + 2
  | [] => by simp [needList, sizeList]
  | a :: r => by have := a.need_le; have := needList_le r; simp [needList, sizeList]; omega
end

theorem parseTop_render : ∀ (fuel : Nat) (l : List Atom) (f : Bytes) (pos : Nat), wfList l → needList l ≤ fuel →
    f.drop pos = renderList l → depthList l ≤ 65 → parseTop fuel f pos = .ok (annotList pos l) := by
  intro fuel
  induction fuel with
  | zero => intro l f pos _ hn; cases l <;> simp [needList] at hn
  | succ fuel ih =>
    intro l f pos hwf hneed hd hlv
    unfold parseTop
    cases l with
    | nil =>
      have : f.length ≤ pos := by
        have := congrArg List.length hd
        simp [renderList] at this; omega
      rw [if_neg (by omega)]
      simp [annotList]
    | cons a r =>
      simp only [wfList] at hwf
      simp only [needList] at hneed
      simp only [depthList] at hlv
      have hge := a.size_ge
      have hlen : f.length - pos = a.size + (renderList r).length := by
        have := congrArg List.length hd
        simpa [renderList, a.length_render hwf.1] using this
      rw [if_pos (by omega)]
      have ha : readAt f pos a.size = a.render := by
        unfold readAt; rw [hd]; simp only [renderList]
        rw [List.take_left' (a.length_render hwf.1)]
      rw [(parse_render_core fuel).1 a f pos 0 hwf.1 (by omega) ha (by omega)]
      simp only []
      have hr : f.drop (pos + a.size) = renderList r := by
        rw [← List.drop_drop, hd]; simp only [renderList]
        rw [List.drop_left' (a.length_render hwf.1)]
      rw [ih r f (pos + a.size) hwf.2 (by omega) hr (by omega)]
      simp [annotList]

/-- mutagen's `Atoms(fileobj)` reads a rendered well-formed tree (nesting at most 65 levels) back as the annotated tree -/
theorem parse_render (l : List Atom) (hwf : wfList l) (hd : depthList l ≤ 65) :
    parse (renderList l) = .ok (annotList 0 l) := by
  unfold parse
  apply parseTop_render _ l _ 0 hwf _ rfl hd
  have := needList_le l
  rw [length_renderList l hwf]
  omega

/-! ### B. the region `save` picks on a layout -/

theorem annotList_append (base : Nat) (a b : List Atom) :
    annotList base (a ++ b) = annotList base a ++ annotList (base + sizeList a) b := by
  induction a generalizing base with
  | nil => simp [annotList, sizeList]
  | cons x r ih => simp [annotList, sizeList, ih, Nat.add_assoc]

theorem annot_name (a : Atom) (pos : Nat) : (a.annot pos).name = a.name := by
  cases a <;> simp [Atom.annot, PAtom.name, Atom.name]

theorem annot_offset (a : Atom) (pos : Nat) : (a.annot pos).offset = pos := by
  cases a <;> simp [Atom.annot, PAtom.offset]

theorem annot_length (a : Atom) (pos : Nat) : (a.annot pos).length = a.size := by
  cases a <;> simp [Atom.annot, PAtom.length, Atom.size]

theorem child?_skip (pre : List Atom) (nm : Bytes) (h : noName pre nm) (base : Nat) (rest : List PAtom) :
    child? (annotList base pre ++ rest) nm = child? rest nm := by
  induction pre generalizing base with
  | nil => simp [annotList]
  | cons x r ih =>
    have hx : x.name ≠ nm := h x (by simp)
    simp only [annotList, List.cons_append, child?, List.find?_cons, annot_name, hx, decide_false]
    exact ih (fun a ha => h a (by simp [ha])) _

/-- the parsed path atoms of a layout: the frames' nodes, outermost first -/
def frameAtoms (base : Nat) : List Frame → Hole → List Atom → List PAtom
  | [], _, _ => []
  | fr :: r, h, mid =>
    (Atom.node fr.name fr.wide fr.skip (fill r h mid)).annot (base + sizeList fr.pre) ::
      frameAtoms (base + sizeList fr.pre + hdrLen fr.wide + fr.skip.length) r h mid

theorem holeOffset_eq (base : Nat) (frames : List Frame) (h : Hole) :
    holeOffset base frames h = innerBase base frames + sizeList h.pre := by
  induction frames generalizing base with
  | nil => rfl
  | cons fr r ih => simp [holeOffset, innerBase, ih]

theorem frameAtoms_offsets (base : Nat) (frames : List Frame) (h : Hole) (mid : List Atom) :
    (frameAtoms base frames h mid).map (·.offset) = frameOffsets base frames := by
  induction frames generalizing base with
  | nil => rfl
  | cons fr r ih => simp [frameAtoms, frameOffsets, annot_offset, ih]

/-- `atoms.path(*names, …)` walks down the frames of a layout -/
theorem path?_fill : ∀ (frames : List Frame) (names rest : List Bytes) (h : Hole) (mid : List Atom) (base : Nat),
    framesNamed frames names →
    path? (annotList base (fill frames h mid)) (names ++ rest) =
      (path? (annotList (innerBase base frames) (h.pre ++ mid ++ h.post)) rest).map (frameAtoms base frames h mid ++ ·) := by
  intro frames
  induction frames with
  | nil =>
    intro names rest h mid base hn
    cases names with
    | nil =>
      simp only [fill, List.nil_append, innerBase, frameAtoms]
      cases path? (annotList base (h.pre ++ mid ++ h.post)) rest <;> simp
    | cons n ns => simp [framesNamed] at hn
  | cons fr r ih =>
    intro names rest h mid base hn
    cases names with
    | nil => simp [framesNamed] at hn
    | cons n ns =>
      simp only [framesNamed] at hn
      obtain ⟨hname, hpre, hr⟩ := hn
      subst hname
      have e1 : annotList base (fill (fr :: r) h mid) =
          annotList base fr.pre ++ ((Atom.node fr.name fr.wide fr.skip (fill r h mid)).annot (base + sizeList fr.pre) ::
            annotList (base + sizeList fr.pre + (Atom.node fr.name fr.wide fr.skip (fill r h mid)).size) fr.post) := by
        simp [fill, annotList_append, annotList, sizeList]
      rw [e1]
      show path? _ (fr.name :: (ns ++ rest)) = _
      simp only [path?]
      rw [child?_skip fr.pre fr.name hpre]
      simp only [child?, List.find?_cons, annot_name, Atom.name, decide_true]
      simp only [Atom.annot, PAtom.children]
      rw [ih ns rest h mid _ hr]
      simp only [innerBase, frameAtoms, Atom.annot]
      generalize path? (annotList (innerBase (base + sizeList fr.pre + hdrLen fr.wide + fr.skip.length) r) (h.pre ++ mid ++ h.post)) rest = q
      cases q <;> simp

theorem findIdx_skip (A : List PAtom) (i : PAtom) (B : List PAtom) (nm : Bytes) (hA : ∀ a ∈ A, a.name ≠ nm) (hi : i.name = nm) :
    indexOfName (A ++ i :: B) nm = A.length := by
  unfold indexOfName
  induction A with
  | nil => simp [List.findIdx_cons, hi]
  | cons x r ih =>
    have hx : x.name ≠ nm := hA x (by simp)
    simp only [List.cons_append, List.findIdx_cons, hx, decide_false, List.length_cons]
    rw [ih (fun a ha => hA a (by simp [ha]))]
    rfl

/-- `_find_padding` on `meta` children `A ++ ilst :: B`: the last atom of `A` if it is a `free` atom, else the first
atom of `B` if it is one -/
theorem findPadding_spec (m : PAtom) (A : List PAtom) (i : PAtom) (B : List PAtom) (hc : m.children = A ++ i :: B)
    (hA : ∀ a ∈ A, a.name ≠ nIlst) (hi : i.name = nIlst) :
    findPadding m =
      (let next : Option PAtom := match B.head? with
        | some n => if n.name = nFree then some n else none
        | none => none
       match A.getLast? with
       | some p => if p.name = nFree then some p else next
       | none => next) := by
  unfold findPadding
  simp only [hc, findIdx_skip A i B nIlst hA hi]
  have hnext : pyIndex (A ++ i :: B) ((A.length : Int) + 1) = B.head? := by
    unfold pyIndex
    rw [if_pos (by omega)]
    have : ((A.length : Int) + 1).toNat = A.length + 1 := by omega
    rw [this, List.getElem?_append_right (by omega)]
    simp [List.head?_eq_getElem?]
  rw [hnext]
  cases hA' : A.getLast? with
  | none =>
    have : A = [] := by simpa using hA'
    subst this
    simp
    cases B.head? <;> rfl
  | some p =>
    have hne : A ≠ [] := by intro h; subst h; simp at hA'
    have hpos : 0 < A.length := List.length_pos_iff.mpr hne
    have hprev : pyIndex (A ++ i :: B) ((A.length : Int) - 1) = some p := by
      unfold pyIndex
      rw [if_pos (by omega)]
      have : ((A.length : Int) - 1).toNat = A.length - 1 := by omega
      rw [this, List.getElem?_append_left (by omega), ← List.getLast?_eq_getElem?]
      exact hA'
    simp only [hpos, ↓reduceIte, hprev]
    split
    · rfl
    · cases B.head? <;> rfl

theorem annotList_getLast_name : ∀ (l : List Atom) (b : Nat) (p : PAtom), (annotList b l).getLast? = some p →
    ∃ a, l.getLast? = some a ∧ p.name = a.name
  | [], b, p, h => by simp [annotList] at h
  | [x], b, p, h => by
    simp only [annotList, List.getLast?_singleton, Option.some.injEq] at h
    exact ⟨x, rfl, by rw [← h, annot_name]⟩
  | x :: y :: r, b, p, h => by
    simp only [annotList, List.getLast?_cons_cons] at h
    have := annotList_getLast_name (y :: r) (b + x.size) p (by simpa [annotList] using h)
    simpa [List.getLast?_cons_cons] using this

theorem annotList_head (l : List Atom) (b : Nat) : (annotList b l).head? = l.head?.map (·.annot b) := by
  cases l <;> simp [annotList]

theorem nFree_ne_nIlst : nFree ≠ nIlst := by decide

theorem framesNamed_three {frames : List Frame} {n1 n2 n3 : Bytes} (h : framesNamed frames [n1, n2, n3]) :
    ∃ f1 f2 f3, frames = [f1, f2, f3] := by
  match frames, h with
  | [f1, f2, f3], _ => exact ⟨f1, f2, f3, rfl⟩
  | [], h => simp [framesNamed] at h
  | [_], h => simp [framesNamed] at h
  | [_, _], h => simp [framesNamed] at h
  | _ :: _ :: _ :: _ :: _, h => simp [framesNamed] at h

theorem annotList_noName (l : List Atom) (b : Nat) (nm : Bytes) (h : noName l nm) : ∀ a ∈ annotList b l, a.name ≠ nm := by
  induction l generalizing b with
  | nil => intro a ha; simp [annotList] at ha
  | cons x r ih =>
    intro a ha
    simp only [annotList, List.mem_cons] at ha
    rcases ha with rfl | ha
    · rw [annot_name]; exact h x (by simp)
    · exact ih (b + x.size) (fun y hy => h y (by simp [hy])) a ha

/-- `_find_padding` on the three kinds of tag region -/
theorem findPadding_layout (m : PAtom) (ib : Nat) (pre post : List Atom) (ilst free : Atom) (hi : ilst.name = nIlst)
    (hf : free.name = nFree) (hpre : noName pre nIlst) :
    (m.children = annotList ib (pre ++ [ilst] ++ post) → (∀ a, pre.getLast? = some a → a.name ≠ nFree) →
      (∀ a, post.head? = some a → a.name ≠ nFree) → findPadding m = none) ∧
    (m.children = annotList ib (pre ++ [free, ilst] ++ post) → findPadding m = some (free.annot (ib + sizeList pre))) ∧
    (m.children = annotList ib (pre ++ [ilst, free] ++ post) → (∀ a, pre.getLast? = some a → a.name ≠ nFree) →
      findPadding m = some (free.annot (ib + sizeList pre + ilst.size))) := by
  have hfi : free.name ≠ nIlst := by rw [hf]; exact nFree_ne_nIlst
  refine ⟨fun hc h1 h2 => ?_, fun hc => ?_, fun hc h1 => ?_⟩
  · have hc' : m.children = annotList ib pre ++ ilst.annot (ib + sizeList pre) :: annotList (ib + sizeList pre + ilst.size) post := by
      rw [hc]; simp [annotList_append, annotList, sizeList]
    rw [findPadding_spec m _ _ _ hc' (annotList_noName pre ib nIlst hpre) (by rw [annot_name, hi])]
    simp only [annotList_head]
    have hnext : (match Option.map (fun x => Atom.annot (ib + sizeList pre + ilst.size) x) post.head? with
        | some n => if n.name = nFree then some n else none
        | none => none) = none := by
      cases hp : post.head? with
      | none => rfl
      | some a => simp [annot_name, h2 a hp]
    rw [hnext]
    cases hl : (annotList ib pre).getLast? with
    | none => rfl
    | some p =>
      obtain ⟨a, ha, hn⟩ := annotList_getLast_name pre ib p hl
      simp [hn, h1 a ha]
  · have hc' : m.children = (annotList ib pre ++ [free.annot (ib + sizeList pre)]) ++
        ilst.annot (ib + sizeList pre + free.size) :: annotList (ib + sizeList pre + free.size + ilst.size) post := by
      rw [hc]; simp [annotList_append, annotList, sizeList, Nat.add_assoc]
    rw [findPadding_spec m _ _ _ hc' (by
      intro a ha
      rcases List.mem_append.mp ha with ha | ha
      · exact annotList_noName pre ib nIlst hpre a ha
      · simp only [List.mem_singleton] at ha; rw [ha, annot_name]; exact hfi) (by rw [annot_name, hi])]
    simp [annot_name, hf]
  · have hc' : m.children = annotList ib pre ++ ilst.annot (ib + sizeList pre) ::
        (free.annot (ib + sizeList pre + ilst.size) :: annotList (ib + sizeList pre + ilst.size + free.size) post) := by
      rw [hc]; simp [annotList_append, annotList, sizeList, Nat.add_assoc]
    rw [findPadding_spec m _ _ _ hc' (annotList_noName pre ib nIlst hpre) (by rw [annot_name, hi])]
    simp only [List.head?_cons, annot_name, hf, ↓reduceIte]
    cases hl : (annotList ib pre).getLast? with
    | none => rfl
    | some p =>
      obtain ⟨a, ha, hn⟩ := annotList_getLast_name pre ib p hl
      simp [hn, h1 a ha]

/-- the region `save` replaces on a layout: it starts at the hole, has the extent of `mid` (`ilst` and the adjacent
`free` atom), and the atoms whose size fields follow it are the frames -/
theorem regionOf_layout (L : Layout) (hok : L.OK) :
    regionOf (annotList 0 L.top) = some { offset := holeOffset 0 L.frames L.hole, length := sizeList L.mid,
                                          parents := frameAtoms 0 L.frames L.hole L.mid } ∧
    (path? (annotList 0 L.top) ilstPath).isSome = true := by
  obtain ⟨hwf, hdep, hfr, hnoilst, hkind⟩ := hok
  obtain ⟨f1, f2, f3, hfs⟩ := framesNamed_three hfr
  have hpath := path?_fill L.frames [nMoov, nUdta, nMeta] [nIlst] L.hole L.mid 0 hfr
  rw [path?_one] at hpath
  generalize hib : innerBase 0 L.frames = ib at hpath
  have hho : holeOffset 0 L.frames L.hole = ib + sizeList L.hole.pre := by rw [holeOffset_eq, hib]
  -- the children of `meta`
  have hkids : annotList ib (L.hole.pre ++ L.mid ++ L.hole.post) =
      annotList ib L.hole.pre ++ (annotList (ib + sizeList L.hole.pre) L.mid ++
        annotList (ib + sizeList L.hole.pre + sizeList L.mid) L.hole.post) := by
    simp [annotList_append, List.append_assoc]
  have hfa : frameAtoms 0 L.frames L.hole L.mid =
      [(Atom.node f1.name f1.wide f1.skip (fill [f2, f3] L.hole L.mid)).annot (0 + sizeList f1.pre),
       (Atom.node f2.name f2.wide f2.skip (fill [f3] L.hole L.mid)).annot (0 + sizeList f1.pre + hdrLen f1.wide + f1.skip.length + sizeList f2.pre),
       (Atom.node f3.name f3.wide f3.skip (fill [] L.hole L.mid)).annot
          (0 + sizeList f1.pre + hdrLen f1.wide + f1.skip.length + sizeList f2.pre + hdrLen f2.wide + f2.skip.length + sizeList f3.pre)] := by
    rw [hfs]; rfl
  have hib' : ib = 0 + sizeList f1.pre + hdrLen f1.wide + f1.skip.length + sizeList f2.pre + hdrLen f2.wide + f2.skip.length +
      sizeList f3.pre + hdrLen f3.wide + f3.skip.length := by
    rw [← hib, hfs]; rfl
  have hmeta_kids : ((Atom.node f3.name f3.wide f3.skip (fill [] L.hole L.mid)).annot
      (0 + sizeList f1.pre + hdrLen f1.wide + f1.skip.length + sizeList f2.pre + hdrLen f2.wide + f2.skip.length + sizeList f3.pre)).children =
      annotList ib (L.hole.pre ++ L.mid ++ L.hole.post) := by
    simp only [Atom.annot, PAtom.children, fill, hib']
  have hmeta : ∀ (x : Atom → Prop), True := fun _ => trivial
  generalize hmA : (Atom.node f3.name f3.wide f3.skip (fill [] L.hole L.mid)).annot
      (0 + sizeList f1.pre + hdrLen f1.wide + f1.skip.length + sizeList f2.pre + hdrLen f2.wide + f2.skip.length + sizeList f3.pre) = metaA
    at hfa hmeta_kids
  have hfpl := findPadding_layout metaA ib L.hole.pre L.hole.post L.ilst L.free rfl rfl hnoilst
  have hil : ilstPath = [nMoov, nUdta, nMeta] ++ [nIlst] := rfl
  unfold regionOf
  rw [hil]
  show (match path? (annotList 0 L.top) ([nMoov, nUdta, nMeta] ++ [nIlst]) with | some [moov, udta, metaA, ilst] => _ | _ => _) = _ ∧ _
  unfold Layout.top
  rw [hpath, hkids, child?_skip L.hole.pre nIlst hnoilst, hfa, hho]
  cases hk : L.kind with
  | alone =>
    have hmid : L.mid = [L.ilst] := by simp [Layout.mid, hk]
    simp only [hk] at hkind
    rw [hmid] at hmeta_kids ⊢
    have hfp := hfpl.1 hmeta_kids hkind.1 hkind.2
    simp only [annotList, List.cons_append, List.nil_append, child?, List.find?_cons, annot_name, Layout.ilst, Atom.name,
      decide_true, Option.map_some, Option.isSome_some, and_true]
    rw [hfp]
    simp [annot_offset, annot_length, sizeList]
  | freeBefore =>
    have hmid : L.mid = [L.free, L.ilst] := by simp [Layout.mid, hk]
    rw [hmid] at hmeta_kids ⊢
    have hfp := hfpl.2.1 hmeta_kids
    have hne : ¬ (nFree = nIlst) := nFree_ne_nIlst
    simp only [annotList, List.cons_append, List.nil_append, child?, List.find?_cons, annot_name, Layout.ilst, Layout.free, Atom.name,
      decide_true, decide_false, hne, Option.map_some, Option.isSome_some, and_true]
    simp only [Layout.ilst, Layout.free] at hfp
    rw [hfp]
    simp [annot_offset, annot_length, sizeList]
    omega
  | freeAfter =>
    have hmid : L.mid = [L.ilst, L.free] := by simp [Layout.mid, hk]
    simp only [hk] at hkind
    rw [hmid] at hmeta_kids ⊢
    have hfp := hfpl.2.2 hmeta_kids hkind
    simp only [annotList, List.cons_append, List.nil_append, child?, List.find?_cons, annot_name, Layout.ilst, Atom.name,
      decide_true, Option.map_some, Option.isSome_some, and_true]
    simp only [Layout.ilst, Layout.free] at hfp
    rw [hfp]
    simp [annot_offset, annot_length, sizeList, Layout.free]

/-! ### C. `saveTags` on a layout -/

theorem holeOffset_le (frames : List Frame) (h : Hole) (n base : Nat) :
    holeOffset base frames h + n ≤ base + lenIn frames h n := by
  induction frames generalizing base with
  | nil => simp [holeOffset, lenIn]; omega
  | cons fr r ih =>
    have := ih (base + sizeList fr.pre + hdrLen fr.wide + fr.skip.length)
    simp only [holeOffset, lenIn]; omega

theorem freeAtom_render (p : Int) :
    freeAtom p = (Atom.leaf nFree (decide ((min 0xFFFFFFFF p).toNat + 8 > 0xFFFFFFFF)) (zeros (min 0xFFFFFFFF p).toNat)).render := by
  unfold freeAtom renderAtom
  generalize (min 0xFFFFFFFF p).toNat = n
  by_cases h : n + 8 ≤ 0xFFFFFFFF
  · have h' : ¬ (n + 8 > 0xFFFFFFFF) := by omega
    simp [h, h', Atom.render, header, hdrLen, Nat.add_comm]
  · have h' : n + 8 > 0xFFFFFFFF := by omega
    simp [h, h', Atom.render, header, hdrLen, Nat.add_comm]

/-- `MP4Tags.save` on a layout, for new item atoms with which the tree stays well-formed: the file is the layout with
the new `ilst` and the `free` atom the padding policy asks for in the place of the old region, the size fields of `moov`,
`udta`, `meta` holding their new extents — followed by the steps of `__update_offsets` (none when the size does not
change) -/
theorem saveTags_layout (mem : Bool) (L : Layout) (hok : L.OK) (items : List Atom) (pad : PadChoice)
    (hfit : wfList (L.saved items pad).top) :
    saveTags mem L.render (ilstData items) pad = runSteps (L.tableSteps items pad) (L.saved items pad).render := by
  obtain ⟨hwf, hdep, hfr, hnoilst, hkind⟩ := hok
  have hreg := regionOf_layout L ⟨hwf, hdep, hfr, hnoilst, hkind⟩
  obtain ⟨hR, hsome⟩ := hreg
  have hmidwf := (framesOk_of_wf L.frames L.hole L.mid hwf).2
  have hmidlen : (renderList L.mid).length = sizeList L.mid := length_renderList _ hmidwf
  have hlen : L.render.length = lenIn L.frames L.hole (sizeList L.mid) := by
    unfold Layout.render Layout.top
    have hwf' : wfList (fill L.frames L.hole L.mid) := hwf
    rw [length_renderList _ hwf', sizeList_fill]
  have hin : ¬ L.render.length < holeOffset 0 L.frames L.hole + sizeList L.mid := by
    have := holeOffset_le L.frames L.hole (sizeList L.mid) 0
    rw [hlen]; omega
  unfold saveTags
  rw [show parse L.render = .ok (annotList 0 L.top) from parse_render L.top hwf hdep]
  simp only [hR, hsome, ↓reduceIte, hin]
  rw [saveAtZ_eq_saveAt]
  -- the new bytes are the rendering of the new region
  have hnew : existingData (ilstData items) pad (L.render.length - (holeOffset 0 L.frames L.hole + sizeList L.mid)) (sizeList L.mid) =
      renderList (L.saved items pad).mid := by
    unfold existingData
    rw [freeAtom_render]
    simp [Layout.saved, Layout.after, Layout.mid, Layout.ilst, Layout.free, renderList, ilstData, Layout.newPadding]
  rw [hnew]
  generalize hmid' : (L.saved items pad).mid = mid' at *
  have htop' : (L.saved items pad).top = fill L.frames L.hole mid' := by
    rw [← hmid']; rfl
  rw [htop'] at hfit
  have hmidwf' := (framesOk_of_wf L.frames L.hole mid' hfit).2
  have hmidlen' : (renderList mid').length = sizeList mid' := length_renderList _ hmidwf'
  unfold saveAt
  simp only [hin, ↓reduceIte, hmidlen']
  unfold Layout.tableSteps Layout.delta
  rw [hmid']
  have hrender' : (L.saved items pad).render = renderList (fill L.frames L.hole mid') := by
    unfold Layout.render; rw [htop']
  rw [hrender']
  by_cases hd : (sizeList mid' : Int) - sizeList L.mid = 0
  · -- in place: nothing but the region is written
    have hsz : sizeList mid' = sizeList L.mid := by omega
    simp only [hd, parentSteps, offsetSteps, ↓reduceIte, List.append_nil, runSteps]
    congr 1
    obtain ⟨hfo, _⟩ := framesOk_of_wf L.frames L.hole L.mid hwf
    have := splice_mixed L.frames L.hole (sizeList L.mid) (renderList L.mid) (renderList mid') hfo [] []
    simp only [List.nil_append, List.append_nil, List.length_nil] at this
    unfold Layout.render Layout.top
    rw [hmidlen] at this
    rw [renderList_fill, renderList_fill, hsz]
    exact this
  · rw [runSteps_append]
    have hps := parent_sizes_within L.frames L.hole L.mid mid' [] [] hwf hfit
    simp only [List.nil_append, List.append_nil, List.length_nil] at hps
    have hoffs : (frameAtoms 0 L.frames L.hole L.mid).map (·.offset) = frameOffsets 0 L.frames := frameAtoms_offsets _ _ _ _
    rw [← hoffs, hmidlen] at hps
    have := parentSteps_updateParents (frameAtoms 0 L.frames L.hole L.mid) _ hd _ _ hps
    unfold Layout.render Layout.top
    rw [this]

/-! ### D. consequences -/

/-- no offset table to patch (the size does not change, or `__update_offsets` visits nothing): the file is exactly the
saved layout -/
theorem saveTags_layout_exact (mem : Bool) (L : Layout) (hok : L.OK) (items : List Atom) (pad : PadChoice)
    (hfit : wfList (L.saved items pad).top) (hno : L.tableSteps items pad = []) :
    saveTags mem L.render (ilstData items) pad = (none, (L.saved items pad).render) := by
  rw [saveTags_layout mem L hok items pad hfit, hno]; rfl

theorem tableSteps_of_delta_zero (L : Layout) (items : List Atom) (pad : PadChoice) (h : L.delta items pad = 0) :
    L.tableSteps items pad = [] := by
  unfold Layout.tableSteps offsetSteps; simp [h]

theorem saved_mid_size (L : Layout) (items : List Atom) (pad : PadChoice) (hfit : wfList (L.saved items pad).top) :
    sizeList (L.saved items pad).mid =
      (ilstData items).length + hdrLen (decide (L.newPadding items pad + 8 > 0xFFFFFFFF)) + L.newPadding items pad := by
  have hm := (framesOk_of_wf L.frames L.hole (L.saved items pad).mid hfit).2
  have : (L.saved items pad).mid = [Atom.node nIlst false [] items,
      Atom.leaf nFree (decide (L.newPadding items pad + 8 > 0xFFFFFFFF)) (zeros (L.newPadding items pad))] := rfl
  rw [this] at hm ⊢
  simp only [wfList] at hm
  unfold ilstData
  rw [Atom.length_render _ hm.1]
  simp [sizeList, Atom.size]; omega

/-- the callback answers what it was offered (and that is a size a 32-bit `free` atom holds): nothing moves -/
theorem delta_zero_of_keep (L : Layout) (items : List Atom) (pad : PadChoice) (hfit : wfList (L.saved items pad).top)
    (offer : Nat) (hoffer : (sizeList L.mid : Int) - (((ilstData items).length + 8 : Nat) : Int) = offer)
    (hsmall : offer + 8 ≤ 0xFFFFFFFF)
    (hkeep : getPadding pad offer (L.render.length - (holeOffset 0 L.frames L.hole + sizeList L.mid)) = offer) :
    L.delta items pad = 0 := by
  have hnp : L.newPadding items pad = offer := by
    unfold Layout.newPadding; rw [hoffer, hkeep]; omega
  unfold Layout.delta
  rw [saved_mid_size L items pad hfit, hnp]
  have : decide (offer + 8 > 0xFFFFFFFF) = false := by simp; omega
  rw [this]
  simp [hdrLen]; omega

theorem default_idem (x : Int) (cs : Nat) :
    Generated.defaultPadding (Generated.defaultPadding x cs) cs = Generated.defaultPadding x cs := by
  unfold Generated.defaultPadding
  simp only []
  split <;> split <;> (try split) <;> (try split) <;> omega

theorem deleteTags_eq (mem : Bool) (f : Bytes) : deleteTags mem f = saveTags mem f (ilstData []) (.callback fun _ _ => 0) := by
  unfold deleteTags; rfl

/-- `saveTags` on a layout is the bookkeeping `saveAt` (what the offset theorems of Props/C10 are about) on the parsed
tree of the layout, with the region and path atoms of the layout and the rendering of the new region -/
theorem saveTags_layout_saveAt (mem : Bool) (L : Layout) (hok : L.OK) (items : List Atom) (pad : PadChoice) :
    saveTags mem L.render (ilstData items) pad =
      saveAt L.render (annotList 0 L.top) (frameAtoms 0 L.frames L.hole L.mid) (holeOffset 0 L.frames L.hole)
        (sizeList L.mid) (renderList (L.saved items pad).mid) := by
  obtain ⟨hwf, hdep, hfr, hnoilst, hkind⟩ := hok
  obtain ⟨hR, hsome⟩ := regionOf_layout L ⟨hwf, hdep, hfr, hnoilst, hkind⟩
  have hlen : L.render.length = lenIn L.frames L.hole (sizeList L.mid) := by
    unfold Layout.render Layout.top
    have hwf' : wfList (fill L.frames L.hole L.mid) := hwf
    rw [length_renderList _ hwf', sizeList_fill]
  have hin : ¬ L.render.length < holeOffset 0 L.frames L.hole + sizeList L.mid := by
    have := holeOffset_le L.frames L.hole (sizeList L.mid) 0
    rw [hlen]; omega
  unfold saveTags
  rw [show parse L.render = .ok (annotList 0 L.top) from parse_render L.top hwf hdep]
  simp only [hR, hsome, ↓reduceIte, hin]
  rw [saveAtZ_eq_saveAt]
  have hnew : existingData (ilstData items) pad (L.render.length - (holeOffset 0 L.frames L.hole + sizeList L.mid)) (sizeList L.mid) =
      renderList (L.saved items pad).mid := by
    unfold existingData
    rw [freeAtom_render]
    simp [Layout.saved, Layout.after, Layout.mid, Layout.ilst, Layout.free, renderList, ilstData, Layout.newPadding]
  rw [hnew]

end Mutagen.Mp4C
