/-
Proofs for Model/Container/Mp4Chapters.lean: totality, the decoder against the Nero `chpl` layout, and the FileM facts
(refinement without faults, what can be raised under faults, no write).
-/
import MutagenModel.Model.Container.Mp4Chapters
import MutagenModel.Proofs.Container.Mp4LoadCap
import MutagenModel.Proofs.Utf8

namespace Mutagen.Mp4C
open Mutagen

/-! ### totality -/

theorem parseMvhdTs_clean (d : Bytes) : ∀ e, parseMvhdTs d ≠ .error e ∨ e = .mutagen := by
  intro e
  unfold parseMvhdTs
  cases d with
  | nil => by_cases h : e = .mutagen
           · exact Or.inr h
           · left; intro hh; injection hh with hh; exact h hh.symm
  | cons v r =>
    simp only
    split
    · split
      · by_cases h : e = .mutagen
        · exact Or.inr h
        · left; intro hh; injection hh with hh; exact h hh.symm
      · left; intro hh; cases hh
    · split
      · split
        · by_cases h : e = .mutagen
          · exact Or.inr h
          · left; intro hh; injection hh with hh; exact h hh.symm
        · left; intro hh; cases hh
      · left; intro hh; cases hh

theorem parseMvhdTs_err (d : Bytes) (e : PyErr) (h : parseMvhdTs d = .error e) : e = .mutagen := by
  rcases parseMvhdTs_clean d e with h1 | h1
  · exact absurd h h1
  · exact h1

theorem chplGo_err : ∀ (n : Nat) (rest : Bytes) (acc : List (Nat × List Nat)) (e : PyErr),
    chplGo n rest acc = .error e → e = .mutagen := by
  intro n
  induction n with
  | zero => intro rest acc e h; cases h
  | succ n ih =>
    intro rest acc e h
    unfold chplGo at h
    split at h
    · injection h with h; exact h.symm
    · split at h
      · injection h with h; exact h.symm
      · split at h
        · injection h with h; exact h.symm
        · exact ih _ _ e h

theorem parseChpl_err (d : Bytes) (e : PyErr) (h : parseChpl d = .error e) : e = .mutagen := by
  unfold parseChpl at h
  split at h
  · injection h with h; exact h.symm
  · exact chplGo_err _ _ _ e h

/-- `MP4Chapters` for EVERY byte string and atom list: a value or `MP4MetadataError` -/
theorem chaptersPure_clean (f : Bytes) (atoms : List PAtom) : ∀ e, chaptersPure f atoms = .error e → e = .mutagen := by
  intro e h
  unfold chaptersPure at h
  split at h
  · split at h
    · split at h
      · injection h with h; exact h.symm
      · split at h
        · rename_i e' he
          injection h with h; subst h
          exact parseMvhdTs_err _ _ he
        · injection h with h; exact h.symm
        · split at h
          · injection h with h; exact h.symm
          · split at h
            · injection h with h; exact h.symm
            · split at h
              · rename_i e' he
                injection h with h; subst h
                exact parseChpl_err _ _ he
              · cases h
    · injection h with h; exact h.symm
  · cases h

theorem loadFullPure_clean (f : Bytes) (hb : ∀ e, loadPure f = .error e → e = .mutagen) :
    ∀ e, loadFullPure f = .error e → e = .mutagen := by
  intro e h
  unfold loadFullPure at h
  split at h
  · rename_i e' he
    injection h with h; subst h
    exact hb _ he
  · split at h
    · rename_i e' he
      injection h with h; subst h
      exact chaptersPure_clean _ _ _ he
    · cases h

/-! ### the decoder against the layout -/

/-- one entry of the Nero chapter list: 8-byte big-endian start, one length byte, the title in UTF-8 (a Pascal string) -/
def encodeChplEntry (c : Nat × List Nat) : Bytes :=
  toBE 8 c.1 ++ [UInt8.ofNat (Utf8.encode c.2).length] ++ Utf8.encode c.2

/-- the payload of a `chpl` atom: 8 header bytes (version, 3 flag bytes, 4 reserved bytes — mutagen looks at none of them),
one count byte, the entries -/
def encodeChpl (hdr : Bytes) (cs : List (Nat × List Nat)) : Bytes :=
  hdr ++ [UInt8.ofNat cs.length] ++ (cs.map encodeChplEntry).flatten

def ChapterOK (c : Nat × List Nat) : Prop :=
  c.1 < 256 ^ 8 ∧ (Utf8.encode c.2).length < 256 ∧ ∀ x ∈ c.2, Utf8.Scalar x

theorem chplGo_encode : ∀ (cs : List (Nat × List Nat)), (∀ c ∈ cs, ChapterOK c) → ∀ (rest : Bytes) (acc : List (Nat × List Nat)),
    chplGo cs.length ((cs.map encodeChplEntry).flatten ++ rest) acc = .ok (acc ++ cs) := by
  intro cs
  induction cs with
  | nil => intro _ rest acc; simp [chplGo]
  | cons c r ih =>
    intro h rest acc
    obtain ⟨h1, h2, h3⟩ := h c (by simp)
    have hS : (toBE 8 c.1).length = 8 := length_toBE 8 _
    have hdata : ((c :: r).map encodeChplEntry).flatten ++ rest =
        toBE 8 c.1 ++ (UInt8.ofNat (Utf8.encode c.2).length :: (Utf8.encode c.2 ++ ((r.map encodeChplEntry).flatten ++ rest))) := by
      simp [encodeChplEntry, List.append_assoc]
    rw [hdata]
    simp only [List.length_cons, chplGo]
    rw [if_neg (by simp [hS])]
    have hd : (toBE 8 c.1 ++ (UInt8.ofNat (Utf8.encode c.2).length :: (Utf8.encode c.2 ++ ((r.map encodeChplEntry).flatten ++ rest)))).drop 8 =
        UInt8.ofNat (Utf8.encode c.2).length :: (Utf8.encode c.2 ++ ((r.map encodeChplEntry).flatten ++ rest)) := List.drop_left' hS
    have ht : (toBE 8 c.1 ++ (UInt8.ofNat (Utf8.encode c.2).length :: (Utf8.encode c.2 ++ ((r.map encodeChplEntry).flatten ++ rest)))).take 8 =
        toBE 8 c.1 := List.take_left' hS
    rw [hd, ht]
    simp only
    have hl : (UInt8.ofNat (Utf8.encode c.2).length).toNat = (Utf8.encode c.2).length := by
      exact Utf8.toNat_b _ h2
    rw [hl, List.take_left' rfl, List.drop_left' rfl, Utf8.decode_encode c.2 h3]
    simp only
    rw [ih (fun x hx => h x (by simp [hx])) rest, ofBE_toBE 8 c.1 h1]
    simp

/-- the decoder is the inverse of the layout: any 8 header bytes, fewer than 256 chapters, each start below 2^64 and each
title's UTF-8 form shorter than 256 bytes; bytes behind the last entry are ignored -/
theorem parseChpl_encode (hdr : Bytes) (cs : List (Nat × List Nat)) (rest : Bytes) (hh : hdr.length = 8)
    (hn : cs.length < 256) (h : ∀ c ∈ cs, ChapterOK c) : parseChpl (encodeChpl hdr cs ++ rest) = .ok cs := by
  match hdr, hh with
  | [a, b, c, d, e', f, g, i], _ =>
    have hl : (UInt8.ofNat cs.length).toNat = cs.length := Utf8.toNat_b _ hn
    have := chplGo_encode cs h rest []
    simp only [parseChpl, encodeChpl, List.cons_append, List.nil_append, List.getElem?_cons_succ, List.getElem?_cons_zero,
      List.drop_succ_cons, List.drop_zero, hl, List.append_assoc]
    simpa using this

/-! ### the program -/

theorem wrapErr_mut {α : Type} : wrapErr (.error .mutagen : Except PyErr α) = .error .mutagen := rfl

/-- refinement: without injected faults `MP4Chapters(atoms, fileobj)` returns what the pure model returns on the bytes -/
theorem chaptersM_q {e : Env} (hq : Quiet e) (atoms : List PAtom) (s : FS) :
    ∃ s', chaptersM atoms e s = (chaptersPure s.data atoms, s') ∧ s'.data = s.data := by
  unfold chaptersM chaptersPure
  cases path? atoms chplPath with
  | none => exact ⟨s, rfl, rfl⟩
  | some pc =>
    cases path? atoms mvhdPath with
    | none => exact ⟨s, rfl, rfl⟩
    | some pm =>
      simp only
      cases pm.getLast? with
      | none =>
        refine ⟨s, ?_, rfl⟩
        rw [tryCatch_wrap _ e s s (.error .mutagen) (by simp [raise_run])]; rfl
      | some mvhd =>
        cases pc.getLast? with
        | none =>
          refine ⟨s, ?_, rfl⟩
          rw [tryCatch_wrap _ e s s (.error .mutagen) (by simp [raise_run])]; rfl
        | some chpl =>
          simp only
          obtain ⟨s1, h1, h2⟩ := atomReadM_q hq mvhd s
          cases hr : Info.Mp4.atomRead s.data mvhd with
          | none =>
            refine ⟨s1, ?_, h2⟩
            rw [tryCatch_wrap _ e s s1 (.error .mutagen) (by simp [bind_run, h1, hr, raise_run])]; rfl
          | some d =>
            simp only
            cases hm : parseMvhdTs d with
            | error x =>
              have hx := parseMvhdTs_err d x hm; subst hx
              refine ⟨s1, ?_, h2⟩
              rw [tryCatch_wrap _ e s s1 (.error .mutagen) (by simp [bind_run, h1, hr, hm, raise_run])]; rfl
            | ok ots =>
              cases ots with
              | none =>
                refine ⟨s1, ?_, h2⟩
                rw [tryCatch_wrap _ e s s1 (.error .mutagen) (by simp [bind_run, h1, hr, hm, raise_run])]; rfl
              | some ts =>
                simp only
                by_cases hz : ts = 0
                · refine ⟨s1, ?_, h2⟩
                  rw [tryCatch_wrap _ e s s1 (.error .mutagen) (by simp [bind_run, h1, hr, hm, hz, raise_run])]
                  simp [hz, wrapErr_mut]
                · obtain ⟨s2, k1, k2⟩ := atomReadM_q hq chpl s1
                  rw [h2] at k1
                  simp only [hz, ↓reduceIte]
                  cases hr2 : Info.Mp4.atomRead s.data chpl with
                  | none =>
                    refine ⟨s2, ?_, k2.trans h2⟩
                    rw [tryCatch_wrap _ e s s2 (.error .mutagen) (by simp [bind_run, h1, hr, hm, hz, k1, hr2, raise_run])]; rfl
                  | some d2 =>
                    simp only
                    cases hc : parseChpl d2 with
                    | error x =>
                      have hx := parseChpl_err d2 x hc; subst hx
                      refine ⟨s2, ?_, k2.trans h2⟩
                      rw [tryCatch_wrap _ e s s2 (.error .mutagen) (by simp [bind_run, h1, hr, hm, hz, k1, hr2, hc, raise_run])]; rfl
                    | ok cs =>
                      refine ⟨s2, ?_, k2.trans h2⟩
                      rw [tryCatch_wrap _ e s s2 (.ok (some { timescale := ts, entries := cs }))
                        (by simp [bind_run, h1, hr, hm, hz, k1, hr2, hc, pure_run])]; rfl

/-- under ANY fault environment what leaves `MP4Chapters(atoms, fileobj)` inside `MP4.load` is `error`, or an exception the
file object raised that is not an `Exception` subclass the handler converts (none of the modelled ones) -/
theorem raises_chaptersM (atoms : List PAtom) : Raises LP' (chaptersM atoms) := by
  unfold chaptersM
  split
  · apply raises_tryExc
    split
    · apply Raises.bind (raises_atomReadM _); intro od
      split
      · exact lMut
      · split
        · rename_i x hx
          have := parseMvhdTs_err _ x hx; subst this; exact lMut
        · exact lMut
        · split
          · exact lMut
          · apply Raises.bind (raises_atomReadM _); intro od2
            split
            · exact lMut
            · split
              · rename_i x hx
                have := parseChpl_err _ x hx; subst this; exact lMut
              · exact Raises.pure _ _
    · exact lMut
  · exact Raises.pure _ _

theorem noWrite_chaptersM (atoms : List PAtom) : NoWrite (chaptersM atoms) := by
  unfold chaptersM
  split
  · apply NoWrite.tryCatch _ _ _ (fun _ => NoWrite.raise _)
    split
    · apply NoWrite.bind (noWrite_atomReadM _); intro od
      split
      · exact NoWrite.raise _
      · split
        · exact NoWrite.raise _
        · exact NoWrite.raise _
        · split
          · exact NoWrite.raise _
          · apply NoWrite.bind (noWrite_atomReadM _); intro od2
            split
            · exact NoWrite.raise _
            · split
              · exact NoWrite.raise _
              · exact NoWrite.pure _
    · exact NoWrite.raise _
  · exact NoWrite.pure _

/-- the complete load refines the complete pure load -/
theorem loadFullM_q {e : Env} (hq : Quiet e) (s : FS) :
    ∃ s', loadFullM e s = (loadFullPure s.data, s') ∧ s'.data = s.data := by
  unfold loadFullM loadFullPure
  obtain ⟨s1, h1, h2⟩ := loadM_q hq s
  simp only [bind_run, h1]
  cases loadPure s.data with
  | error x => exact ⟨s1, rfl, h2⟩
  | ok base =>
    simp only
    obtain ⟨s2, k1, k2⟩ := chaptersM_q hq base.atoms s1
    rw [h2] at k1
    simp only [k1]
    cases chaptersPure s.data base.atoms with
    | error x => exact ⟨s2, rfl, k2.trans h2⟩
    | ok ch => exact ⟨s2, rfl, k2.trans h2⟩

theorem raises_loadFullM : Raises LP' loadFullM := by
  unfold loadFullM
  apply Raises.bind raises_loadM; intro base
  apply Raises.bind (raises_chaptersM _); intro ch
  exact Raises.pure _ _

theorem noWrite_loadFullM : NoWrite loadFullM := by
  unfold loadFullM
  apply NoWrite.bind noWrite_loadM; intro base
  apply NoWrite.bind (noWrite_chaptersM _); intro ch
  exact NoWrite.pure _

/-- load then save on one file object, no injected faults, every capacity -/
theorem loadSaveM_q {e : Env} (hq : Quiet e) (B : Nat) (hB : 0 < B) (ilstData : Bytes) (pad : PadChoice) (s : FS) :
    match loadFullPure s.data with
    | .error x => ∃ s', loadSaveM B ilstData pad e s = (.error x, s') ∧ s'.data = s.data
    | .ok _ =>
      (∃ s', loadSaveM B ilstData pad e s = (.error .enospc, s') ∧ s'.data = s.data) ∨
      (∃ s', loadSaveM B ilstData pad e s = (toExcept (saveTags true s.data ilstData pad).1, s') ∧
        s'.data = (saveTags true s.data ilstData pad).2) := by
  obtain ⟨s1, h1, h2⟩ := loadFullM_q hq s
  unfold loadSaveM
  simp only [bind_run, h1]
  cases loadFullPure s.data with
  | error x => exact ⟨s1, rfl, h2⟩
  | ok r =>
    simp only
    have := saveTagsFullM_q hq B hB ilstData pad s1
    rw [h2] at this
    exact this

end Mutagen.Mp4C
