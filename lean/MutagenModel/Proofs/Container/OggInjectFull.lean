/-
Proofs/Container/OggInjectFull.lean — `_inject` with its reads (Model/Container/OggInjectFullM.lean): without
faults the read phase computes `commentPages` / the file size on the bytes and leaves them alone, so the
reads-then-writes program is the summarised one of Model/Container/OggInjectM.lean run from the state the reads
leave (`injectFullM_q`, `saveFullM_q`, `deleteFullM_q`).
-/
import MutagenModel.Model.Container.OggInjectFullM
import MutagenModel.Proofs.Container.OggInjectLoad
set_option linter.unusedVariables false
namespace Mutagen.OggInj
open Mutagen Mutagen.Ogg

/-! ### the reads of `_inject`, without faults -/

/-- the outcome of a scan from the position the file object is at: as the pure scan says -/
def ScanOK (f : Bytes) (res : Except PyErr (Rd × Nat)) (out : Except PyErr Rd × FS) : Prop :=
  out.2.data = f ∧
    match res with
    | .error x => out.1 = .error x
    | .ok (r, next) => out.1 = .ok r ∧ out.2.pos = next ∧ next ≤ f.length

theorem scanRdM_q {e : Env} (hq : Quiet e) (pred : Page → Bool) (fuel : Nat) (s : FS) (hp : s.pos ≤ s.data.length) :
    ScanOK s.data (scanFrom s.data pred fuel s.pos) (scanRdM pred fuel e s) := by
  obtain ⟨he, ho⟩ := scanM_q hq pred fuel s hp
  unfold ScanOK scanRdM
  cases hsc : scanFrom s.data pred fuel s.pos with
  | error x =>
    obtain ⟨s1, h1, hd1⟩ := he x hsc
    simp only [bind_run, h1]; exact ⟨hd1, trivial⟩
  | ok v =>
    obtain ⟨r, next⟩ := v
    obtain ⟨s1, h1, hd1, hp1, hle⟩ := ho r next hsc
    simp only [bind_run, h1, pure_run]; exact ⟨hd1, trivial, hp1, hle⟩

theorem collectRdM_q {e : Env} (hq : Quiet e) (serial fuel : Nat) (acc : List Rd) (last : Page) (s : FS) (hp : s.pos ≤ s.data.length) :
    ∃ s', collectRdM serial fuel acc last e s = (collect s.data serial fuel acc last s.pos, s') ∧ s'.data = s.data := by
  induction fuel generalizing s acc last with
  | zero => exact ⟨s, rfl, rfl⟩
  | succ n ih =>
    by_cases hcl : (last.complete || decide (last.packets.length > 1)) = true
    · exact ⟨s, by simp only [collectRdM, collect, hcl, ↓reduceIte, pure_run], rfl⟩
    · have hcl' : (last.complete || decide (last.packets.length > 1)) = false := by simpa using hcl
      obtain ⟨he, ho⟩ := readPageM_step hq s hp
      cases hr : readPage s.data s.pos with
      | error x =>
        obtain ⟨s1, h1, hd1⟩ := he x hr
        exact ⟨s1, by simp only [collectRdM, collect, hcl', Bool.false_eq_true, hr, bind_run, h1, ↓reduceIte], hd1⟩
      | ok v =>
        obtain ⟨p, nx⟩ := v
        obtain ⟨s1, h1, hd1, hp1, hle⟩ := ho p nx hr
        by_cases hser : p.serial = serial
        · obtain ⟨s2, h2, hd2⟩ := ih (acc ++ [⟨p, s.pos⟩]) p s1 (by rw [hp1, hd1]; exact hle)
          rw [hd1, hp1] at h2
          exact ⟨s2, by simp only [collectRdM, collect, hcl', Bool.false_eq_true, hr, bind_run, h1, hser, ↓reduceIte, h2], by rw [hd2, hd1]⟩
        · obtain ⟨s2, h2, hd2⟩ := ih acc last s1 (by rw [hp1, hd1]; exact hle)
          rw [hd1, hp1] at h2
          exact ⟨s2, by simp only [collectRdM, collect, hcl', Bool.false_eq_true, hr, bind_run, h1, hser, ↓reduceIte, h2], by rw [hd2, hd1]⟩

/-- two scans in a row -/
theorem scan_then {e : Env} (hq : Quiet e) (pred1 : Page → Bool) (k : Rd → FileM Rd) (kp : Rd → Nat → Except PyErr (Rd × Nat))
    (s : FS) (hp : s.pos ≤ s.data.length)
    (hk : ∀ r (s1 : FS), s1.data = s.data → s1.pos ≤ s.data.length → ScanOK s.data (kp r s1.pos) (k r e s1)) :
    ScanOK s.data (match scanFrom s.data pred1 (s.data.length + 1) s.pos with
        | .error x => .error x
        | .ok (r, next) => kp r next)
      ((do let r ← scanRdM pred1 (s.data.length + 1); k r : FileM Rd) e s) := by
  have h1 := scanRdM_q hq pred1 (s.data.length + 1) s hp
  unfold ScanOK at h1
  simp only [bind_run]
  cases hsc : scanFrom s.data pred1 (s.data.length + 1) s.pos with
  | error x =>
    rw [hsc] at h1
    cases hrun : scanRdM pred1 (s.data.length + 1) e s with
    | mk o s1 =>
      rw [hrun] at h1
      simp only at h1
      rw [h1.2]
      exact ⟨h1.1, rfl⟩
  | ok v =>
    obtain ⟨r, next⟩ := v
    rw [hsc] at h1
    cases hrun : scanRdM pred1 (s.data.length + 1) e s with
    | mk o s1 =>
      rw [hrun] at h1
      simp only at h1
      obtain ⟨hd, ho, hpos, hle⟩ := h1
      rw [ho]
      simp only
      have := hk r s1 hd (by rw [hpos]; exact hle)
      rw [hpos] at this
      exact this

theorem findStartM_q {e : Env} (hq : Quiet e) (c : Codec) (s : FS) (hp0 : s.pos = 0) :
    ScanOK s.data (findStart c s.data) (findStartM c s.data.length e s) := by
  have hp : s.pos ≤ s.data.length := by omega
  have hscan : ∀ (pred : Page → Bool) (s1 : FS), s1.data = s.data → s1.pos ≤ s.data.length →
      ScanOK s.data (scanFrom s.data pred (s.data.length + 1) s1.pos) (scanRdM pred (s.data.length + 1) e s1) := by
    intro pred s1 hd hl
    have := scanRdM_q hq pred (s.data.length + 1) s1 (by rw [hd]; exact hl)
    rw [hd] at this; exact this
  have hpure : ∀ (r : Rd) (s1 : FS), s1.data = s.data → s1.pos ≤ s.data.length →
      ScanOK s.data (.ok (r, s1.pos)) ((pure r : FileM Rd) e s1) :=
    fun r s1 hd hl => ⟨hd, rfl, rfl, hl⟩
  have hraise : ∀ (x : PyErr) (s1 : FS), s1.data = s.data → ScanOK s.data (.error x) ((raise x : FileM Rd) e s1) :=
    fun x s1 hd => ⟨hd, rfl⟩
  cases c
  case vorbis =>
    have := scan_then hq (startsWith magicVorbisId)
      (fun r => if (decide (r.page.serial = r.page.serial) && startsWith magicVorbisComment r.page) then pure r
        else scanRdM (fun p => decide (p.serial = r.page.serial) && startsWith magicVorbisComment p) (s.data.length + 1))
      (fun r next => if (decide (r.page.serial = r.page.serial) && startsWith magicVorbisComment r.page) then .ok (r, next)
        else scanFrom s.data (fun p => decide (p.serial = r.page.serial) && startsWith magicVorbisComment p) (s.data.length + 1) next)
      s hp (by
        intro r s1 hd hl
        split
        · exact hpure r s1 hd hl
        · exact hscan _ s1 hd hl)
    rw [hp0] at this
    exact this
  case theora =>
    have := scan_then hq (startsWith magicTheoraId)
      (fun r => if (decide (r.page.serial = r.page.serial) && startsWith magicTheoraComment r.page) then pure r
        else scanRdM (fun p => decide (p.serial = r.page.serial) && startsWith magicTheoraComment p) (s.data.length + 1))
      (fun r next => if (decide (r.page.serial = r.page.serial) && startsWith magicTheoraComment r.page) then .ok (r, next)
        else scanFrom s.data (fun p => decide (p.serial = r.page.serial) && startsWith magicTheoraComment p) (s.data.length + 1) next)
      s hp (by
        intro r s1 hd hl
        split
        · exact hpure r s1 hd hl
        · exact hscan _ s1 hd hl)
    rw [hp0] at this
    exact this
  case opus =>
    have := scan_then hq (startsWith magicOpusHead)
      (fun r => if !r.page.first then raise .mutagen
        else if (r.page.packets.headD []).length < 19 then raise .mutagen
        else if ((r.page.packets.headD []).getD 8 0).toNat / 16 ≠ 0 then raise .mutagen
        else scanRdM (fun p => decide (p.serial = r.page.serial) && startsWith magicOpusTags p) (s.data.length + 1))
      (fun r next => if !r.page.first then .error .mutagen
        else if (r.page.packets.headD []).length < 19 then .error .mutagen
        else if ((r.page.packets.headD []).getD 8 0).toNat / 16 ≠ 0 then .error .mutagen
        else scanFrom s.data (fun p => decide (p.serial = r.page.serial) && startsWith magicOpusTags p) (s.data.length + 1) next)
      s hp (by
        intro r s1 hd hl
        split
        · exact hraise _ s1 hd
        split
        · exact hraise _ s1 hd
        split
        · exact hraise _ s1 hd
        · exact hscan _ s1 hd hl)
    rw [hp0] at this
    have hgoal : findStart .opus s.data = (match scanFrom s.data (startsWith magicOpusHead) (s.data.length + 1) 0 with
        | .error x => .error x
        | .ok (r, next) => if !r.page.first then .error .mutagen
          else if (r.page.packets.headD []).length < 19 then .error .mutagen
          else if ((r.page.packets.headD []).getD 8 0).toNat / 16 ≠ 0 then .error .mutagen
          else scanFrom s.data (fun p => decide (p.serial = r.page.serial) && startsWith magicOpusTags p) (s.data.length + 1) next) := by
      simp only [findStart, opusInfo]
      cases scanFrom s.data (startsWith magicOpusHead) (s.data.length + 1) 0 with
      | error x => rfl
      | ok v =>
        obtain ⟨r, next⟩ := v
        simp only
        by_cases h1 : (!r.page.first) = true
        · simp only [h1, ↓reduceIte]
        · simp only [h1, Bool.false_eq_true, ↓reduceIte]
          by_cases h2 : (r.page.packets.headD []).length < 19
          · simp only [h2, ↓reduceIte]
          · simp only [h2, ↓reduceIte]
            by_cases h3 : ((r.page.packets.headD []).getD 8 0).toNat / 16 ≠ 0
            · simp only [if_pos h3]
            · simp only [if_neg h3]
    rw [hgoal]
    exact this
  case speex =>
    have := scan_then hq (startsWith magicSpeex)
      (fun r => scanRdM (fun p => decide (p.serial = r.page.serial)) (s.data.length + 1))
      (fun r next => scanFrom s.data (fun p => decide (p.serial = r.page.serial)) (s.data.length + 1) next)
      s hp (fun r s1 hd hl => hscan _ s1 hd hl)
    rw [hp0] at this
    exact this
  case flac =>
    have := scan_then hq (startsWith magicFlac)
      (fun r => if (decide (r.page.sequence = 1) && decide (r.page.serial = r.page.serial)) then pure r
        else scanRdM (fun p => decide (p.sequence = 1) && decide (p.serial = r.page.serial)) (s.data.length + 1))
      (fun r next => if (decide (r.page.sequence = 1) && decide (r.page.serial = r.page.serial)) then .ok (r, next)
        else scanFrom s.data (fun p => decide (p.sequence = 1) && decide (p.serial = r.page.serial)) (s.data.length + 1) next)
      s hp (by
        intro r s1 hd hl
        split
        · exact hpure r s1 hd hl
        · exact hscan _ s1 hd hl)
    rw [hp0] at this
    exact this

/-- the search for the comment pages as a program, without faults, from wherever the file object is: what
`commentPages` says on the bytes; the file is left alone -/
theorem commentPagesM_q {e : Env} (hq : Quiet e) (c : Codec) (s : FS) :
    ∃ s', commentPagesM c e s = (commentPages c s.data, s') ∧ s'.data = s.data := by
  unfold commentPagesM commentPages
  simp only [bind_run, fseek_q hq, fileLen_run]
  have h1 := findStartM_q hq c { data := s.data, pos := 0, ops := s.ops + 1, log := .seek 0 :: s.log } rfl
  unfold ScanOK at h1
  simp only at h1
  cases hfs : findStart c s.data with
  | error x =>
    rw [hfs] at h1
    cases hrun : findStartM c s.data.length e { data := s.data, pos := 0, ops := s.ops + 1, log := .seek 0 :: s.log } with
    | mk o s1 =>
      rw [hrun] at h1
      simp only at h1
      rw [h1.2]
      exact ⟨s1, rfl, h1.1⟩
  | ok v =>
    obtain ⟨r, pos⟩ := v
    rw [hfs] at h1
    cases hrun : findStartM c s.data.length e { data := s.data, pos := 0, ops := s.ops + 1, log := .seek 0 :: s.log } with
    | mk o s1 =>
      rw [hrun] at h1
      simp only at h1
      obtain ⟨hd, ho, hpos, hle⟩ := h1
      rw [ho]
      simp only
      obtain ⟨s2, h2, hd2⟩ := collectRdM_q hq r.page.serial (s.data.length + 1) [r] r.page s1 (by rw [hpos, hd]; exact hle)
      rw [hd, hpos] at h2
      exact ⟨s2, h2, by rw [hd2, hd]⟩

theorem newPacket_nosize (c : Codec) (old0 vc padData : Bytes) (pad : PadChoice) (a b : Nat) (h : needSize c padData = false) :
    newPacket c old0 vc padData pad a = newPacket c old0 vc padData pad b := by
  cases c
  case flac => rfl
  case opus =>
    simp only [needSize, List.isEmpty_eq_false_iff] at h
    simp only [newPacket, true_and, h, ne_eq, not_false_eq_true, ↓reduceIte]
  all_goals simp [needSize] at h

/-- READS-THEN-WRITES = THE SUMMARISED PROGRAM: without faults (any capacity), `_inject` with its reads does the
reads, leaves the bytes alone, and then does exactly what the summarised `injectM` does on those bytes (run from
the state the reads leave: same position bookkeeping, the log continues) -/
theorem injectFullM_q {e : Env} (hq : Quiet e) (B : Nat) (c : Codec) (vc padData : Bytes) (pad : PadChoice) (s : FS) :
    ∃ s', s'.data = s.data ∧ injectFullM B c vc padData pad e s = injectM B c s.data vc padData pad e s' := by
  obtain ⟨s1, h1, hd1⟩ := commentPagesM_q hq c s
  unfold injectFullM injectM
  simp only [bind_run, h1]
  cases commentPages c s.data with
  | error x => exact ⟨s1, hd1, rfl⟩
  | ok old =>
    simp only
    cases toPackets (old.map (·.page)) false with
    | error x => exact ⟨s1, hd1, rfl⟩
    | ok X =>
      cases X with
      | nil => exact ⟨s1, hd1, rfl⟩
      | cons old0 others =>
        simp only
        cases hns : needSize c padData with
        | true =>
          obtain ⟨s2, h2, hd2⟩ := getSize_q' hq s1
          simp only [↓reduceIte, bind_run, h2, hd1]
          exact ⟨s2, by rw [hd2, hd1], rfl⟩
        | false =>
          simp only [Bool.false_eq_true, ↓reduceIte, bind_run, fileLen_run, hd1]
          exact ⟨s1, hd1, rfl⟩

theorem saveFullM_q {e : Env} (hq : Quiet e) (B : Nat) (c : Codec) (vc padData : Bytes) (pad : PadChoice) (s : FS) :
    ∃ s', s'.data = s.data ∧ saveFullM B c vc padData pad e s = saveEntry B c s.data vc padData pad e s' := by
  obtain ⟨s1, hd1, h1⟩ := injectFullM_q hq B c vc padData pad s
  exact ⟨s1, hd1, by unfold saveFullM saveEntry tryCatch; rw [h1]⟩

theorem deleteFullM_q {e : Env} (hq : Quiet e) (B : Nat) (c : Codec) (vendor padData : Bytes) (s : FS) :
    ∃ s', s'.data = s.data ∧ deleteFullM B c vendor padData e s = deleteEntry B c s.data vendor padData e s' :=
  saveFullM_q hq B c _ padData _ s


end Mutagen.OggInj
