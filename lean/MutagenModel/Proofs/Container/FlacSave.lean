/- Proofs/Container/FlacSave.lean — FLAC.save with its real reads equals the summarised `FlacC.saveM` on a quiet device -/
import MutagenModel.Model.Container.FlacSaveM
import MutagenModel.Proofs.Container.FlacReads
set_option linter.unusedVariables false
namespace Mutagen.FlacL
open Mutagen Mutagen.FlacB Mutagen.Iff

theorem verifyM_q_pos {e : Env} (hq : Quiet e) (s : FS) (hp : s.pos ≤ s.data.length) :
    ∃ s', Iff.verifyM e s = (.ok (), s') ∧ s'.data = s.data ∧ s'.pos = s.pos := by
  unfold Iff.verifyM
  have h1 : (do let _ ← fread 0; Pure.pure () : FileM Unit) e s =
      (.ok (), { data := s.data, pos := s.pos + (readAt s.data s.pos 0).length, ops := s.ops + 1, log := .read 0 :: s.log }) := by
    simp only [bind_run, fread_q hq, pure_run]
  have hr0 : (readAt s.data s.pos 0).length = 0 := by simp [readAt]
  simp only [bind_run, tryCatch_ok _ _ _ e s _ () h1]
  have h2 := fwrite_q_inside hq [] { data := s.data, pos := s.pos + (readAt s.data s.pos 0).length, ops := s.ops + 1, log := .read 0 :: s.log }
    (by simp [hr0]; exact hp)
  rw [tryCatch_ok _ _ _ e _ _ () h2]
  refine ⟨_, rfl, ?_, ?_⟩
  · show writeData s.data (s.pos + (readAt s.data s.pos 0).length) [] = s.data
    rw [hr0, writeData_inside _ _ _ (by omega)]
    simp [writeAt]
  · show s.pos + (readAt s.data s.pos 0).length + ([] : Bytes).length = s.pos
    rw [hr0]; rfl

theorem getSize_q {e : Env} (hq : Quiet e) (s : FS) :
    ∃ s', getSize e s = (.ok s.data.length, s') ∧ s'.data = s.data ∧ s'.pos = s.pos := by
  unfold getSize tryFinally
  simp only [bind_run, ftell_q hq, fseekEnd_q hq, fseek_q hq]
  exact ⟨_, rfl, rfl, rfl⟩

/-! ### the skipping reader on a quiet device and on a layout -/

theorem sim_vcInnerM {e : Env} (hq : Quiet e) : Sim e vcInnerM vcSkip := by
  unfold vcInnerM
  refine Sim.tellThen hq ?_
  refine Sim.congr (fun b => ?_) ((Sim.sreadM hq 4).bind fun l => (Sim.sreadM hq (ofLE l)).bind fun v => (Sim.sreadM hq 4).bind fun c =>
    ((sim_vcItemsM hq (ofLE c) (l ++ v ++ c)).bind fun raw => Sim.tellThen hq (Sim.pure raw)))
  unfold vcSkip
  cases h1 : rd 4 b with
  | error x => rfl
  | ok p =>
    simp only [bnd_ok]
    cases h2 : rd (ofLE p.1) p.2 with
    | error x => rfl
    | ok q =>
      simp only [bnd_ok]
      cases h3 : rd 4 q.2 with
      | error x => rfl
      | ok r =>
        simp only [bnd_ok]
        cases vcItems (ofLE r.1) (p.1 ++ q.1 ++ r.1) r.2 with
        | error x => rfl
        | ok z => rfl

theorem sim_pictureInnerM {e : Env} (hq : Quiet e) : Sim e pictureInnerM loadPictureS := by
  unfold pictureInnerM
  refine Sim.congr (fun b => ?_) ((Sim.sreadM hq 8).bind fun h1 => (Sim.sreadM hq (ofBE (h1.drop 4))).bind fun m => (Sim.sreadM hq 4).bind fun h2 =>
    (Sim.sreadM hq (ofBE h2)).bind fun ds => (Sim.sreadM hq 20).bind fun h3 => (Sim.sreadM hq (ofBE (h3.drop 16))).bind fun data =>
    Sim.pure (⟨ofBE (h1.take 4), decodeReplace m, decodeReplace ds, ofBE (h3.take 4), ofBE ((h3.drop 4).take 4),
        ofBE ((h3.drop 8).take 4), ofBE ((h3.drop 12).take 4), data⟩ : Picture))
  rfl

theorem sim_skipBodyM {e : Env} (hq : Quiet e) (code size : Nat) : Sim e (skipBodyM code size) (skipBody code size) := by
  unfold skipBodyM
  refine Sim.congr (fun b => ?_) (Sim.ite ((sim_vcInnerM hq).bind fun _ => Sim.pure ())
    (Sim.ite ((sim_pictureInnerM hq).bind fun _ => Sim.pure ()) ((Sim.sreadM hq size).bind fun _ => Sim.pure ())))
  unfold skipBody
  split
  · rfl
  · split <;> rfl

theorem skipBlocks_succ (k : Nat) (b : Bytes) :
    skipBlocks (k + 1) b = bnd (rd 1 b) fun p => bnd (rd 3 p.2) fun q =>
      bnd (skipBody (ofBE p.1 % 128) (ofBE q.1) q.2) fun r => if ofBE p.1 ≥ 128 then .ok ((), r.2) else skipBlocks k r.2 := rfl

theorem sim_skipBlocksM {e : Env} (hq : Quiet e) (fuel : Nat) : Sim e (skipBlocksM fuel) (skipBlocks fuel) := by
  induction fuel with
  | zero => unfold skipBlocksM; exact Sim.congr (fun b => rfl) (Sim.raise .diverge)
  | succ k ih =>
    unfold skipBlocksM
    refine Sim.congr (fun b => ?_) ((Sim.sreadM hq 1).bind fun b1 => (Sim.sreadM hq 3).bind fun b3 =>
      (sim_skipBodyM hq (ofBE b1 % 128) (ofBE b3)).bind fun _ => Sim.ite (c := ofBE b1 ≥ 128) (Sim.pure ()) ih)
    rw [skipBlocks_succ]

theorem mono_skipBody (code size : Nat) : Mono (skipBody code size) := by
  unfold skipBody
  by_cases h4 : code = 4
  · simp only [h4, ↓reduceIte]
    exact Mono.congr (fun b => rfl) (mono_vcSkip.bnd fun _ => Mono.ok ())
  · by_cases h6 : code = 6
    · simp only [h4, h6, ↓reduceIte]
      exact Mono.congr (fun b => rfl) (mono_loadPictureS.bnd fun _ => Mono.ok ())
    · simp only [h4, h6, ↓reduceIte]
      exact Mono.congr (fun b => rfl) ((Mono.rd size).bnd fun _ => Mono.ok ())

/-- a block whose payload its class consumes exactly is skipped exactly -/
theorem skips_of_decodes (b : FlacC.Block) (lb : LBlock) (h : Decodes b lb) : skipBody b.code b.data.length b.data = .ok ((), []) := by
  unfold Decodes readBody at h
  unfold skipBody
  split
  · rename_i hc
    rw [if_pos hc] at h
    cases hv : vcSkip b.data with
    | error x => simp [hv] at h
    | ok v => simp only [hv, bnd_ok, Except.ok.injEq, Prod.mk.injEq] at h ⊢; first | exact h.2 | exact ⟨rfl, h.2⟩ | exact ⟨trivial, h.2⟩
  · rename_i hc
    rw [if_neg hc] at h
    split
    · rename_i hc6
      rw [if_pos hc6] at h
      cases hv : loadPictureS b.data with
      | error x => simp [hv] at h
      | ok v => simp only [hv, bnd_ok, Except.ok.injEq, Prod.mk.injEq] at h ⊢; first | exact h.2 | exact ⟨rfl, h.2⟩ | exact ⟨trivial, h.2⟩
    · have := rd_app b.data [] b.data.length rfl
      rw [List.append_nil] at this
      simp only [this, bnd_ok]

theorem skipBlocks_render (bs : List FlacC.Block) (lbs : List LBlock) (hne : bs ≠ []) (hok : ∀ b ∈ bs, b.ok)
    (hd : AllDecode bs lbs) (rest : Bytes) (fuel : Nat) (hf : bs.length ≤ fuel) :
    skipBlocks fuel (FlacC.renderBlocks bs ++ rest) = .ok ((), rest) := by
  induction hd generalizing fuel with
  | nil => exact absurd rfl hne
  | @cons b lb r lr hb hr ih =>
    cases fuel with
    | zero => simp at hf
    | succ k =>
      obtain ⟨hc, hn⟩ := hok b (by simp)
      have h24 : b.data.length < 256 ^ 3 := by
        have : (256 : Nat) ^ 3 = 2 ^ 24 := by decide
        omega
      have hstep : ∀ (last : Bool) (tail : Bytes), skipBlocks (k + 1) (FlacC.renderBlock b last ++ tail) =
          if last then .ok ((), tail) else skipBlocks k tail := by
        intro last tail
        have hbyte : (UInt8.ofNat (b.code + (if last then 128 else 0))).toNat = b.code + (if last then 128 else 0) := by
          have : b.code + (if last then 128 else 0) < 256 := by cases last <;> simp <;> omega
          simp [UInt8.toNat_ofNat', Nat.mod_eq_of_lt this]
        have e : FlacC.renderBlock b last ++ tail = [UInt8.ofNat (b.code + (if last then 128 else 0))] ++ (toBE 3 b.data.length ++ (b.data ++ tail)) := by
          simp [FlacC.renderBlock, FlacC.blockHeader, List.append_assoc]
        rw [skipBlocks_succ, e, rd_app _ _ 1 rfl]
        simp only [bnd_ok]
        rw [rd_app _ _ 3 (by simp)]
        simp only [bnd_ok, ofBE_single, hbyte, ofBE_toBE 3 _ h24]
        have hcode : (b.code + (if last then 128 else 0)) % 128 = b.code := by cases last <;> simp <;> omega
        have := mono_skipBody b.code b.data.length b.data () [] tail (skips_of_decodes b lb hb)
        rw [hcode, this]
        cases last <;> simp <;> omega
      cases r with
      | nil =>
        have e : FlacC.renderBlocks [b] ++ rest = FlacC.renderBlock b true ++ rest := rfl
        rw [e, hstep true rest]; rfl
      | cons c r' =>
        have e : FlacC.renderBlocks (b :: c :: r') ++ rest = FlacC.renderBlock b false ++ (FlacC.renderBlocks (c :: r') ++ rest) := by
          simp [FlacC.renderBlocks, List.append_assoc]
        rw [e, hstep false _]
        simp only [Bool.false_eq_true, ↓reduceIte]
        exact ih (by simp) (fun x hx => hok x (by simp [hx])) k (by simpa using hf)

theorem saveTail_eq (B : Nat) (L : FlacC.Layout) (hpre : L.pre = []) (blocks : List FlacC.Block) (pad : PadChoice) :
    saveTailM B blocks pad 4 (4 + (FlacC.renderBlocks L.blocks).length) L.audio.length = FlacC.saveM B L blocks pad := by
  unfold saveTailM FlacC.saveM
  simp only [hpre, List.length_nil, Nat.zero_add, Nat.add_sub_cancel_left]
  cases FlacC.writeBlocks blocks (FlacC.renderBlocks L.blocks).length L.audio.length pad <;> rfl

/-- FLAC.save with its real reads, on a well-formed file (no ID3 tag in front, block payloads that their classes consume exactly,
some audio) and a quiet device of any capacity: the reads — verify_fileobj, `__check_header`, `__find_audio_offset`, `get_size` — go
through, leave the bytes alone and return exactly the three numbers `FlacC.saveM` takes from the layout; from there on the two
programs are the same program -/
theorem saveReal_eq {e : Env} (hq : Quiet e) (B : Nat) (L : FlacC.Layout) (hL : FlacC.Good L) (haud : L.audio ≠ [])
    (lbs : List LBlock) (hd : AllDecode L.blocks lbs) (blocks : List FlacC.Block) (pad : PadChoice) (s : FS)
    (hs : s.data = FlacC.render L) (hp : s.pos = 0) :
    ∃ s1, s1.data = s.data ∧ saveRealM B blocks pad e s = FlacC.saveM B L blocks pad e s1 := by
  have hlen : s.data.length = 4 + (FlacC.renderBlocks L.blocks).length + L.audio.length := by
    rw [hs]; simp [FlacC.render, hL.pre, FlacC.magic]; omega
  unfold saveRealM saveReadsM
  obtain ⟨s0, h0, d0, p0⟩ := verifyM_q_pos hq s (by omega)
  simp only [bind_run, h0]
  obtain ⟨s2, d2, hc⟩ := checkHeaderM_q hq s0 (by rw [p0, hp])
  rw [d0, hs, checkHeader_render L (Or.inl hL.pre)] at hc
  simp only [hL.pre, List.length_nil, Nat.zero_add] at hc
  obtain ⟨hc1, hc2⟩ := hc
  simp only [hc1, ghostLength]
  obtain ⟨s3, d3, hk⟩ := sim_skipBlocksM hq (s2.data.length + 1) s2
  rw [d2, d0, hs, hc2, skipBlocks_render L.blocks lbs hL.ne hL.blocksOk hd L.audio _ (by
    have := length_le_renderBlocks L.blocks
    simp only [FlacC.render, List.length_append]; omega)] at hk
  obtain ⟨hk1, hk2⟩ := hk
  have e2 : s2.data = FlacC.render L := by rw [d2, d0, hs]
  rw [e2]
  simp only [hk1, ftell_q hq]
  have hpos : s3.pos = 4 + (FlacC.renderBlocks L.blocks).length := by
    have h1 := congrArg List.length hk2
    rw [List.length_drop, ← hs, hlen] at h1
    have : 0 < L.audio.length := List.length_pos_iff.mpr haud
    omega
  obtain ⟨s4, h4, d4, p4⟩ := getSize_q hq { s3 with ops := s3.ops + 1, log := .tell :: s3.log }
  simp only [] at h4 d4 p4
  rw [h4]
  simp only [pure_run]
  have hd3 : s3.data = s.data := by rw [d3, d2, d0]
  have e3 : s3.data.length - s3.pos = L.audio.length := by rw [hd3, hlen, hpos]; omega
  rw [hpos] at e3 ⊢
  rw [e3, saveTail_eq B L hL.pre blocks pad]
  exact ⟨s4, by rw [d4, hd3], rfl⟩


end Mutagen.FlacL
