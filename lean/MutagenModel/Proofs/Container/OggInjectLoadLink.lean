/-
Proofs/Container/OggInjectLoadLink.lean — the load program's pure side (Model/Container/OggInjectLoadM.lean:
`infoP`, `idCheck`, `findLastP`, by file position) and the stream-info models of Model/Info/OggCommon.lean /
OggCodecs.lean (`findHeader`, `findLoop`, `findLast`, `Info.<Codec>.init`, on "the bytes from here on") are the
same functions, on every byte string.  So what `loadM` returns without faults (`loadM_q`) is what the C05
theorems (Props/C05_Ogg*) speak about.
-/
import MutagenModel.Proofs.Container.OggInjectLoad
import MutagenModel.Proofs.Info.OggCommon
import MutagenModel.Model.Info.OggCodecs
set_option linter.unusedVariables false
namespace Mutagen.OggInj
open Mutagen Mutagen.Ogg

/-! ### the position-based readers and the rest-based readers of Model/Info/OggCommon.lean -/

theorem splitLens_suffix (lens : List Nat) (d : Bytes) (ps : List Bytes) (rest : Bytes)
    (h : splitLens lens d = some (ps, rest)) : rest = d.drop (d.length - rest.length) := by
  induction lens generalizing d ps with
  | nil => simp [splitLens] at h; rw [← h.2]; simp
  | cons n r ih =>
    unfold splitLens at h
    split at h
    · cases h
    · rename_i hn
      split at h
      · cases h
      · rename_i ps' rest' he
        cases h
        have h1 := ih _ _ he
        have h2 := Info.OggC.splitLens_length _ _ _ _ he
        simp only [List.length_drop] at h1 h2
        rw [List.drop_drop] at h1
        have : n + (d.length - n - rest.length) = d.length - rest.length := by omega
        rw [this] at h1; exact h1

theorem parse_suffix (d : Bytes) (p : Page) (rest : Bytes) (h : parse d = .ok (p, rest)) :
    rest = d.drop (d.length - rest.length) := by
  have hlen := Info.OggC.parse_shorter d p rest h
  unfold parse at h
  split at h
  · cases h
  · split at h
    · cases h
    · simp only [] at h
      split at h
      · cases h
      · split at h
        · cases h
        · split at h
          · cases h
          · split at h
            · cases h
            · rename_i ps rest' he
              cases h
              have h1 := splitLens_suffix _ _ _ _ he
              have h2 := Info.OggC.splitLens_length _ _ _ _ he
              simp only [List.length_drop] at h1 h2
              rw [List.drop_drop, List.drop_drop] at h1
              generalize (List.drop 26 (List.take 27 d)).head!.toNat = S at *
              have hb : (List.drop 27 d).length = d.length - 27 := List.length_drop
              have : 27 + (S + (d.length - 27 - S - rest.length)) = d.length - rest.length := by omega
              rw [this] at h1; exact h1

/-- the two page readers agree: by position and by "the bytes from here on" -/
theorem readPage_nextPage (f : Bytes) (pos : Nat) :
    Info.OggC.nextPage (f.drop pos) =
      match readPage f pos with
      | .error e => .error e
      | .ok (p, next) => .ok (p, f.drop next) := by
  unfold Info.OggC.nextPage readPage
  cases hp : parse (f.drop pos) with
  | error e => cases e <;> rfl
  | ok v =>
    obtain ⟨p, rest⟩ := v
    simp only
    have h1 := parse_suffix _ _ _ hp
    have h2 := Info.OggC.parse_shorter _ _ _ hp
    simp only [List.length_drop] at h1 h2
    rw [List.drop_drop] at h1
    have : pos + (f.length - pos - rest.length) = f.length - rest.length := by omega
    rw [this] at h1
    rw [← h1]

theorem hasMagic_eq (m : Bytes) (p : Page) : Info.OggC.hasMagic m p = startsWith m p := rfl

/-- enough fuel is enough: the scan does not depend on it -/
theorem scanFrom_fuel (f : Bytes) (pred : Page → Bool) (a b pos : Nat) (ha : f.length - pos < a) (hb : f.length - pos < b) :
    scanFrom f pred a pos = scanFrom f pred b pos := by
  induction a generalizing b pos with
  | zero => omega
  | succ a ih =>
    cases b with
    | zero => omega
    | succ b =>
      simp only [scanFrom]
      cases hr : readPage f pos with
      | error e => rfl
      | ok v =>
        obtain ⟨p, next⟩ := v
        simp only
        split
        · rfl
        · obtain ⟨h1, h2, _⟩ := readPage_ok f pos p next hr
          have := size_ge p
          exact ih b next (by omega) (by omega)

/-- the header search of the info constructors, started with a page already read -/
theorem findLoop_scan (magic : Bytes) (f : Bytes) (fuel : Nat) (p : Page) (pos : Nat) :
    Info.OggC.findLoop magic fuel p (f.drop pos) =
      if startsWith magic p then .ok p else (scanFrom f (startsWith magic) fuel pos).map fun x => x.1.page := by
  induction fuel generalizing p pos with
  | zero =>
    simp only [Info.OggC.findLoop, hasMagic_eq, scanFrom]
    by_cases hm : startsWith magic p = true
    · simp only [hm, ↓reduceIte]
    · simp only [hm, Bool.false_eq_true, ↓reduceIte]; rfl
  | succ n ih =>
    simp only [Info.OggC.findLoop, hasMagic_eq, scanFrom]
    by_cases hm : startsWith magic p = true
    · simp only [hm, ↓reduceIte]
    · simp only [hm, Bool.false_eq_true, ↓reduceIte]
      rw [readPage_nextPage]
      cases hr : readPage f pos with
      | error e => rfl
      | ok v =>
        obtain ⟨q, next⟩ := v
        simp only
        rw [ih q next]
        by_cases hq : startsWith magic q = true
        · simp only [hq, ↓reduceIte]; rfl
        · simp only [hq, Bool.false_eq_true, ↓reduceIte]

/-- `findHeader magic f`: the scan from position 0 -/
theorem findHeader_scan (magic : Bytes) (f : Bytes) :
    Info.OggC.findHeader magic f = (scanFrom f (startsWith magic) (f.length + 1) 0).map fun x => x.1.page := by
  unfold Info.OggC.findHeader
  have h0 := readPage_nextPage f 0
  rw [List.drop_zero] at h0
  rw [h0]
  conv => rhs; simp only [scanFrom]
  cases hr : readPage f 0 with
  | error e => rfl
  | ok v =>
    obtain ⟨p, next⟩ := v
    simp only
    rw [findLoop_scan]
    split
    · rfl
    · obtain ⟨h1, h2, _⟩ := readPage_ok f 0 p next hr
      have := size_ge p
      rw [scanFrom_fuel f _ f.length (f.length) next (by omega) (by omega)]



/-! ### find_last -/

theorem parse_drop_ok (f : Bytes) (pos : Nat) (p : Page) (rest : Bytes) (hp : parse (f.drop pos) = .ok (p, rest)) :
    rest = f.drop (f.length - rest.length) ∧ readPage f pos = .ok (p, f.length - rest.length) := by
  have h1 := parse_suffix _ _ _ hp
  have h2 := Info.OggC.parse_shorter _ _ _ hp
  simp only [List.length_drop] at h1 h2
  rw [List.drop_drop] at h1
  have : pos + (f.length - pos - rest.length) = f.length - rest.length := by omega
  rw [this] at h1
  exact ⟨h1, by simp only [readPage, hp]⟩

theorem parse_drop_err (f : Bytes) (pos : Nat) (x : ParseErr) (hp : parse (f.drop pos) = .error x) :
    ∃ y, readPage f pos = .error y := by
  cases x
  · exact ⟨.eof, by simp only [readPage, hp]⟩
  · exact ⟨.mutagen, by simp only [readPage, hp]⟩

/-- the slow way of `find_last`, by position and on the rest of the bytes: the same, given fuel -/
theorem slowLast_link (f : Bytes) (serial : Nat) (fuelB : Nat) (fuelA pos : Nat) (best : Option Page)
    (hA : (f.drop pos).length < (fuelA + 1) * 27) (hB : f.length - pos < fuelB) :
    Info.OggC.slowLast serial fuelA (f.drop pos) best = slowLastP f serial fuelB pos best := by
  induction fuelB generalizing fuelA pos best with
  | zero => omega
  | succ n ih =>
    cases hp : parse (f.drop pos) with
    | error x =>
      obtain ⟨y, hy⟩ := parse_drop_err f pos x hp
      cases fuelA <;> simp only [Info.OggC.slowLast, slowLastP, hp, hy]
    | ok v =>
      obtain ⟨p, rest⟩ := v
      obtain ⟨hrest, hr⟩ := parse_drop_ok f pos p rest hp
      have hsh := Info.OggC.parse_shorter _ _ _ hp
      simp only [List.length_drop] at hsh hA
      cases fuelA with
      | zero => omega
      | succ k =>
        simp only [Info.OggC.slowLast, slowLastP, hp, hr]
        have hrec : ∀ b, Info.OggC.slowLast serial k rest b = slowLastP f serial n (f.length - rest.length) b := by
          intro b
          rw [hrest]
          have e : (f.drop (f.length - rest.length)).length = rest.length := by rw [← hrest]
          have := ih k (f.length - rest.length) b (by rw [e]; omega) (by omega)
          rw [← hrest] at this ⊢
          exact this
        split
        · split
          · rfl
          · exact hrec _
        · exact hrec _

theorem lastBytes_eq (w : Nat) (f : Bytes) : Info.OggC.lastBytes w f = f.drop (f.length - w) := by
  unfold Info.OggC.lastBytes
  rw [List.reverse_take, List.reverse_reverse]
  simp

theorem findLastPW_link (w : Nat) (f : Bytes) (serial : Nat) : findLastPW w f serial = Info.OggC.findLastW w f serial := by
  have hs : ∀ best, Info.OggC.slowLast serial f.length f best = slowLastP f serial (f.length + 1) 0 best := by
    intro best
    have := slowLast_link f serial (f.length + 1) f.length 0 best (by simp; omega) (by omega)
    rw [List.drop_zero] at this; exact this
  have haf : ∀ fast, afterFastP f serial fast = Info.OggC.afterFast f serial fast := by
    intro fast
    unfold afterFastP Info.OggC.afterFast
    cases fast with
    | none => simp only [hs]
    | some p => simp only [hs]
  rw [findLastPW_eq]
  unfold Info.OggC.findLastW
  rw [lastBytes_eq]
  cases Info.OggC.rindex Info.OggC.oggS (f.drop (f.length - w)) with
  | none => rfl
  | some index => simp only [haf]

/-- `findLastP` IS `Info.OggC.findLast`, on every byte string -/
theorem findLastP_link (f : Bytes) (serial : Nat) : findLastP f serial = Info.OggC.findLast f serial :=
  findLastPW_link 65536 f serial


/-! ### the info constructors: `Info.<Codec>.init f` = scan (`infoFound`) then decode the page found -/

/-- the decoding part of `OggVorbisInfo.__init__` (the text of `Info.Vorbis.init` behind its page search) -/
def vorbisOfPage (page : Page) : Except PyErr Info.Vorbis.Info :=
  if !page.first then .error .mutagen
  else
    let pk := page.packets.headD []
    if pk.length < 28 then .error .mutagen
    else
      let channels := ofLE (readAt pk 11 1)
      let rate := ofLE (readAt pk 12 4)
      let maxB := ofSignedLE (readAt pk 16 4)
      let nomB := ofSignedLE (readAt pk 20 4)
      let minB := ofSignedLE (readAt pk 24 4)
      if rate = 0 then .error .mutagen
      else
        let maxB := max 0 maxB
        let minB := max 0 minB
        let nomB := max 0 nomB
        let bitrate : Int :=
          if nomB = 0 then (maxB + minB) / 2
          else if maxB ≠ 0 ∧ maxB < nomB then maxB
          else if minB > nomB then minB
          else nomB
        .ok { channels := channels, sampleRate := rate, bitrate := bitrate, serial := page.serial,
              length := .flt (.int 0) }

def opusOfPage (page : Page) : Except PyErr Info.Opus.Info :=
  if !page.first then .error .mutagen
  else
    let pk := page.packets.headD []
    if pk.length < 19 then .error .mutagen
    else
      let version := ofLE (readAt pk 8 1)
      let channels := ofLE (readAt pk 9 1)
      let preSkip := ofLE (readAt pk 10 2)
      if version / 16 ≠ 0 then .error .mutagen
      else .ok { channels := channels, serial := page.serial, preSkip := preSkip, length := .int 0 }

def speexOfPage (page : Page) : Except PyErr Info.Speex.Info :=
  if !page.first then .error .mutagen
  else
    let pk := page.packets.headD []
    if pk.length < 56 then .error .mutagen
    else
      let rate := ofLE (readAt pk 36 4)
      if rate = 0 then .error .mutagen
      else
        .ok { sampleRate := rate, channels := ofLE (readAt pk 48 4), bitrate := max 0 (ofSignedLE (readAt pk 52 4)),
              serial := page.serial, length := .int 0 }

def theoraOfPage (page : Page) : Except PyErr Info.Theora.Info :=
  if !page.first then .error .mutagen
  else
    let data := page.packets.headD []
    if data.length < 42 then .error .mutagen
    else
      let vmaj := ofBE (readAt data 7 1)
      let vmin := ofBE (readAt data 8 1)
      if ¬ (vmaj = 3 ∧ vmin = 2) then .error .mutagen
      else
        let frn := ofBE (readAt data 22 4)
        let frd := ofBE (readAt data 26 4)
        if frd = 0 ∨ frn = 0 then .error .mutagen
        else
          .ok { fpsNum := frn, fpsDen := frd, bitrate := ofBE (readAt data 37 3),
                granuleShift := ofBE (readAt data 40 2) / 32 % 32, serial := page.serial, length := .int 0 }

def flacOfPage (page : Page) : Except PyErr Info.OggFlac.Info :=
  let pk := page.packets.headD []
  if pk.length < 13 then .error .mutagen
  else
  let s := readAt pk 5 8
  if readAt s 4 4 ≠ [0x66, 0x4C, 0x61, 0x43] then .error .mutagen
  else if ¬ (ofBE (readAt s 0 1) = 1 ∧ ofBE (readAt s 1 1) = 0) then .error .mutagen
  else
    match Flac.siLoad (pk.drop 17) with
    | .error _ => .error .mutagen
    | .ok si =>
      .ok { minBlocksize := si.minBlocksize, maxBlocksize := si.maxBlocksize, sampleRate := si.sampleRate,
            channels := si.channels, bitsPerSample := si.bitsPerSample, totalSamples := si.totalSamples,
            packets := ofBE (readAt s 2 2), serial := page.serial,
            length := .div (.nat si.totalSamples) (.flt (.nat si.sampleRate)) }

/-- the page search of the four constructors that start with `findHeader` -/
theorem findHeader_found (c : Codec) (hc : c ≠ .vorbis) (f : Bytes) :
    Info.OggC.findHeader c.idMagic f = (infoFound c f).map (·.1) := by
  rw [findHeader_scan]
  cases c
  case vorbis => exact absurd rfl hc
  all_goals
    simp only [infoFound]
    cases scanFrom f (startsWith (Codec.idMagic _)) (f.length + 1) 0 <;> rfl

theorem opus_init_link (f : Bytes) :
    Info.Opus.init f = match infoFound .opus f with
      | .error e => .error e
      | .ok (page, _) => opusOfPage page := by
  unfold Info.Opus.init
  have := findHeader_found .opus (by decide) f
  rw [show Info.Opus.magic = Codec.idMagic .opus from rfl, this]
  cases infoFound .opus f with
  | error e => rfl
  | ok v => rfl

theorem speex_init_link (f : Bytes) :
    Info.Speex.init f = match infoFound .speex f with
      | .error e => .error e
      | .ok (page, _) => speexOfPage page := by
  unfold Info.Speex.init
  have := findHeader_found .speex (by decide) f
  rw [show Info.Speex.magic = Codec.idMagic .speex from rfl, this]
  cases infoFound .speex f with
  | error e => rfl
  | ok v => rfl

theorem theora_init_link (f : Bytes) :
    Info.Theora.init f = match infoFound .theora f with
      | .error e => .error e
      | .ok (page, _) => theoraOfPage page := by
  unfold Info.Theora.init
  have := findHeader_found .theora (by decide) f
  rw [show Info.Theora.magic = Codec.idMagic .theora from rfl, this]
  cases infoFound .theora f with
  | error e => rfl
  | ok v => rfl

theorem flac_init_link (f : Bytes) :
    Info.OggFlac.init f = match infoFound .flac f with
      | .error e => .error e
      | .ok (page, _) => flacOfPage page := by
  unfold Info.OggFlac.init
  have := findHeader_found .flac (by decide) f
  rw [show Info.OggFlac.magic = Codec.idMagic .flac from rfl, this]
  cases infoFound .flac f with
  | error e => rfl
  | ok v => rfl

theorem vorbis_init_link (f : Bytes) :
    Info.Vorbis.init f = match infoFound .vorbis f with
      | .error e => .error e
      | .ok (page, _) => vorbisOfPage page := by
  unfold Info.Vorbis.init
  have h0 := readPage_nextPage f 0
  rw [List.drop_zero] at h0
  rw [h0]
  simp only [infoFound]
  cases hr : readPage f 0 with
  | error e => rfl
  | ok v =>
    obtain ⟨p0, next⟩ := v
    simp only
    by_cases hpk : p0.packets = []
    · simp only [hpk, ↓reduceIte]
    · simp only [hpk, ↓reduceIte]
      rw [show Info.Vorbis.magic = magicVorbisId from rfl, findLoop_scan]
      by_cases hm : startsWith magicVorbisId p0 = true
      · simp only [hm, ↓reduceIte]; rfl
      · simp only [hm, Bool.false_eq_true, ↓reduceIte]
        obtain ⟨h1, h2, _⟩ := readPage_ok f 0 p0 next hr
        have := size_ge p0
        rw [scanFrom_fuel f _ f.length (f.length + 1) next (by omega) (by omega)]
        cases scanFrom f (startsWith magicVorbisId) (f.length + 1) next <;> rfl

/-- `idCheck` raises exactly when the decoding raises (same exception), and its answer is "total_samples is 0"
for Ogg FLAC, "yes" otherwise -/
theorem idCheck_link (page : Page) :
    idCheck .vorbis page = (vorbisOfPage page).map (fun _ => true) ∧
    idCheck .opus page = (opusOfPage page).map (fun _ => true) ∧
    idCheck .speex page = (speexOfPage page).map (fun _ => true) ∧
    idCheck .theora page = (theoraOfPage page).map (fun _ => true) ∧
    idCheck .flac page = (flacOfPage page).map (fun i => decide (i.totalSamples = 0)) := by
  refine ⟨?_, ?_, ?_, ?_, ?_⟩
  · unfold idCheck vorbisOfPage; simp only; repeat' split
    all_goals rfl
  · unfold idCheck opusOfPage; simp only; repeat' split
    all_goals rfl
  · unfold idCheck speexOfPage; simp only; repeat' split
    all_goals rfl
  · unfold idCheck theoraOfPage; simp only; repeat' split
    all_goals rfl
  · unfold idCheck flacOfPage
    simp only
    split
    · rfl
    split
    · rfl
    split
    · rfl
    cases Flac.siLoad ((page.packets.headD []).drop 17) <;> rfl

end Mutagen.OggInj
