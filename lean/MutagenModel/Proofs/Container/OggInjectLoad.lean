/-
Proofs/Container/OggInjectLoad.lean — the load program of Model/Container/OggInjectLoadM.lean:
it never writes (`Keeps`, every environment), what it can raise (`raises_loadM`, every environment),
and what it returns without faults (`loadM_q`: the pure `loadPure` on the bytes).
-/
import MutagenModel.Model.Container.OggInjectLoadM
import MutagenModel.Proofs.Container.OggInjectCap
set_option linter.unusedVariables false
namespace Mutagen.OggInj
open Mutagen Mutagen.Ogg

/-! ### a program that never writes -/

/-- whatever the environment and whatever the outcome, the bytes of the file are what they were -/
def Keeps (m : FileM α) : Prop := ∀ e s r s', m e s = (r, s') → s'.data = s.data

theorem Keeps.pure (a : α) : Keeps (pure a : FileM α) := by
  intro e s r s' h; simp only [pure_run, Prod.mk.injEq] at h; rw [← h.2]

theorem Keeps.raise (x : PyErr) : Keeps (raise x : FileM α) := by
  intro e s r s' h; simp only [raise_run, Prod.mk.injEq] at h; rw [← h.2]

theorem Keeps.bind {m : FileM α} {f : α → FileM β} (hm : Keeps m) (hf : ∀ a, Keeps (f a)) : Keeps (m >>= f) := by
  intro e s r s' h
  simp only [bind_run] at h
  cases hms : m e s with
  | mk r1 s1 =>
    rw [hms] at h
    have h1 := hm e s r1 s1 hms
    cases r1 with
    | ok a => rw [hf a e s1 r s' h, h1]
    | error x => simp only [Prod.mk.injEq] at h; rw [← h.2, h1]

theorem Keeps.tryCatch {body : FileM α} {pred : PyErr → Bool} {handler : PyErr → FileM α}
    (hb : Keeps body) (hh : ∀ x, Keeps (handler x)) : Keeps (tryCatch body pred handler) := by
  intro e s r s' h
  unfold Mutagen.tryCatch at h
  cases hbs : body e s with
  | mk r1 s1 =>
    rw [hbs] at h
    have h1 := hb e s r1 s1 hbs
    cases r1 with
    | ok a => simp only [Prod.mk.injEq] at h; rw [← h.2, h1]
    | error x =>
      simp only at h
      split at h
      · rw [hh x e s1 r s' h, h1]
      · simp only [Prod.mk.injEq] at h; rw [← h.2, h1]

theorem Keeps.tryFinally {body : FileM α} {fin : FileM Unit} (hb : Keeps body) (hf : Keeps fin) :
    Keeps (tryFinally body fin) := by
  intro e s r s' h
  unfold Mutagen.tryFinally at h
  cases hbs : body e s with
  | mk r1 s1 =>
    rw [hbs] at h
    have h1 := hb e s r1 s1 hbs
    cases hfs : fin e s1 with
    | mk r2 s2 =>
      have h2 := hf e s1 r2 s2 hfs
      cases r1 <;> cases r2 <;> simp only [hfs, Prod.mk.injEq] at h <;> rw [← h.2, h2, h1]

theorem Keeps.tick (o : Op) : Keeps (tick o) := by
  intro e s r s' h
  unfold Mutagen.tick at h
  split at h <;> (simp only [Prod.mk.injEq] at h; rw [← h.2])

theorem Keeps.fseek (p : Nat) : Keeps (fseek p) :=
  Keeps.bind (Keeps.tick _) fun _ => by intro e s r s' h; simp only [Prod.mk.injEq] at h; rw [← h.2]
theorem Keeps.fseekEnd : Keeps fseekEnd :=
  Keeps.bind (Keeps.tick _) fun _ => by intro e s r s' h; simp only [Prod.mk.injEq] at h; rw [← h.2]
theorem Keeps.ftell : Keeps ftell :=
  Keeps.bind (Keeps.tick _) fun _ => by intro e s r s' h; simp only [Prod.mk.injEq] at h; rw [← h.2]

theorem Keeps.fread (n : Nat) : Keeps (fread n) := by
  intro e s r s' h
  unfold Mutagen.fread at h
  cases ht : Mutagen.tick (.read n) e s with
  | mk r1 s1 =>
    have h1 := Keeps.tick (.read n) e s r1 s1 ht
    rw [ht] at h
    cases r1 with
    | ok u => simp only [Prod.mk.injEq] at h; rw [← h.2]; exact h1
    | error x => simp only [Prod.mk.injEq] at h; rw [← h.2]; exact h1

theorem Keeps.getSize : Keeps getSize :=
  Keeps.bind Keeps.ftell fun _ => Keeps.tryFinally (Keeps.bind Keeps.fseekEnd fun _ => Keeps.ftell) (Keeps.fseek _)

theorem Keeps.seekEndBy (n : Int) : Keeps (seekEndBy n) := by
  have hrest : Keeps (do
      let sz ← Mutagen.getSize
      if sz < n.toNat then Mutagen.fseek 0
      else do
        Mutagen.tick .seekEnd; fun _ s => (.ok (), { s with pos := s.data.length - n.toNat }) : FileM Unit) := by
    apply Keeps.bind Keeps.getSize; intro sz
    split
    · exact Keeps.fseek 0
    · exact Keeps.bind (Keeps.tick _) fun _ => by intro e s r s' h; simp only [Prod.mk.injEq] at h; rw [← h.2]
  unfold Mutagen.seekEndBy
  by_cases hn : n < 0
  · simp only [hn, ↓reduceIte]
    exact Keeps.bind (Keeps.raise _) fun _ => hrest
  · simp only [hn, ↓reduceIte]
    exact hrest

theorem Keeps.readPacketsM (lens : List Nat) : Keeps (readPacketsM lens) := by
  induction lens with
  | nil => exact Keeps.pure _
  | cons n r ih =>
    unfold OggInj.readPacketsM
    exact Keeps.bind (Keeps.fread n) fun _ => Keeps.bind ih fun _ => Keeps.pure _

theorem Keeps.readPageM : Keeps readPageM := by
  unfold OggInj.readPageM
  apply Keeps.bind Keeps.ftell; intro off
  apply Keeps.bind (Keeps.fread 27); intro hdr
  split
  · exact Keeps.raise _
  split
  · exact Keeps.raise _
  split
  · exact Keeps.bind Keeps.ftell fun _ => Keeps.raise _
  simp only
  split
  · exact Keeps.raise _
  apply Keeps.bind (Keeps.fread _); intro lac
  split
  · exact Keeps.raise _
  apply Keeps.bind (Keeps.readPacketsM _); intro ps
  split
  · exact Keeps.raise _
  · exact Keeps.pure _

theorem Keeps.scanM (pred : Page → Bool) (fuel : Nat) : Keeps (scanM pred fuel) := by
  induction fuel with
  | zero => exact Keeps.raise _
  | succ n ih =>
    unfold OggInj.scanM
    apply Keeps.bind Keeps.readPageM; intro r
    split
    · exact Keeps.pure _
    · exact ih

theorem Keeps.readLoopM (serial fuel : Nat) (acc : List Page) : Keeps (readLoopM serial fuel acc) := by
  induction fuel generalizing acc with
  | zero => exact Keeps.raise _
  | succ n ih =>
    unfold OggInj.readLoopM
    apply Keeps.bind Keeps.readPageM; intro r
    split
    · split
      · exact Keeps.pure _
      · exact ih _
    · exact ih _

theorem Keeps.collectM (serial fuel : Nat) (acc : List Page) (last : Page) : Keeps (collectM serial fuel acc last) := by
  induction fuel generalizing acc last with
  | zero => exact Keeps.raise _
  | succ n ih =>
    unfold OggInj.collectM
    split
    · exact Keeps.pure _
    · apply Keeps.bind Keeps.readPageM; intro r
      split
      · exact ih _ _
      · exact ih _ _

theorem Keeps.slowLastM (serial fuel : Nat) (best : Option Page) : Keeps (slowLastM serial fuel best) := by
  induction fuel generalizing best with
  | zero => exact Keeps.raise _
  | succ n ih =>
    unfold OggInj.slowLastM
    apply Keeps.bind (Keeps.tryCatch (Keeps.bind Keeps.readPageM fun _ => Keeps.pure _) fun _ => Keeps.pure _); intro r
    split
    · exact Keeps.pure _
    · split
      · dsimp only
        split
        · exact Keeps.pure _
        · exact ih _
      · exact ih _

theorem Keeps.fileLen : Keeps fileLen := by
  intro e s r s' h; simp only [OggInj.fileLen, Prod.mk.injEq] at h; rw [← h.2]

theorem Keeps.freadAll : Keeps freadAll := by
  intro e s r s' h; exact Keeps.fread _ e s r s' h

theorem Keeps.findLastM (serial : Nat) : Keeps (findLastM serial) := by
  unfold OggInj.findLastM OggInj.findLastMW
  apply Keeps.bind (Keeps.seekEndBy _); intro _
  apply Keeps.bind Keeps.freadAll; intro data
  split
  · exact Keeps.raise _
  · apply Keeps.bind Keeps.fileLen; intro n
    have hslow : ∀ best, Keeps (do Mutagen.fseek 0; OggInj.slowLastM serial (n + 1) best : FileM (Option Page)) :=
      fun best => Keeps.bind (Keeps.fseek 0) fun _ => Keeps.slowLastM _ _ _
    split
    · split
      · split
        · exact Keeps.pure _
        · exact hslow _
      · exact hslow _
    · exact hslow _

theorem Keeps.infoM (c : Codec) : Keeps (infoM c) := by
  unfold OggInj.infoM
  apply Keeps.bind Keeps.fileLen; intro n
  apply Keeps.bind
  · cases c
    · apply Keeps.bind Keeps.readPageM; intro r
      split
      · exact Keeps.raise _
      · split
        · exact Keeps.pure _
        · exact Keeps.bind (Keeps.scanM _ _) fun _ => Keeps.pure _
    all_goals exact Keeps.bind (Keeps.scanM _ _) fun _ => Keeps.pure _
  intro page
  split
  · exact Keeps.raise _
  · exact Keeps.pure _

theorem Keeps.tagsM (c : Codec) (serial : Nat) : Keeps (tagsM c serial) := by
  unfold OggInj.tagsM
  apply Keeps.bind Keeps.fileLen; intro n
  apply Keeps.bind
  · cases c
    case opus => exact Keeps.bind (Keeps.scanM _ _) fun _ => Keeps.collectM _ _ _ _
    all_goals exact Keeps.readLoopM _ _ _
  intro pages
  split
  · exact Keeps.raise _
  · split <;> exact Keeps.raise _
  · split
    · exact Keeps.raise _
    · exact Keeps.pure _

theorem Keeps.postM (serial : Nat) (needLast : Bool) : Keeps (postM serial needLast) := by
  unfold OggInj.postM
  split
  · apply Keeps.bind (Keeps.findLastM _); intro r
    split
    · exact Keeps.raise _
    · exact Keeps.pure _
  · exact Keeps.pure _

theorem Keeps.loadBodyM (c : Codec) : Keeps (loadBodyM c) := by
  unfold OggInj.loadBodyM
  apply Keeps.bind (Keeps.infoM c); intro x
  apply Keeps.bind (Keeps.tagsM c _); intro y
  apply Keeps.bind (Keeps.postM _ _); intro z
  exact Keeps.pure _

theorem Keeps.verifyReadM : Keeps verifyReadM :=
  Keeps.tryCatch (Keeps.bind (Keeps.fread 0) fun _ => Keeps.pure _) fun _ => Keeps.raise _

/-- load never writes: in every environment, whatever the outcome -/
theorem Keeps.loadM (c : Codec) : Keeps (loadM c) :=
  Keeps.bind Keeps.verifyReadM fun _ => Keeps.tryCatch (Keeps.loadBodyM c) fun _ => Keeps.raise _

/-! ### what load can raise, in every environment -/

/-- inside the `try` of `load`: EOFError, ogg.error, and what the file primitives raise (injected, ValueError,
IOError, the non-termination marker).  No IndexError: the pages `to_packets` gets were read by `OggPage(fileobj)`,
and an incomplete page that was read holds a packet, whatever the environment (`post_readPageM`). -/
def LoadErr (e : Env) (x : PyErr) : Prop := x = .eof ∨ x = .mutagen ∨ PrimErr e x

theorem loadErr_inj {e : Env} {x : PyErr} (h : Injected e x) : LoadErr e x := Or.inr (Or.inr (inj_prim h))
theorem loadErr_prim {e : Env} {x : PyErr} (h : PrimErr e x) : LoadErr e x := Or.inr (Or.inr h)
theorem loadErr_mutagen (e : Env) : LoadErr e .mutagen := Or.inr (Or.inl rfl)
theorem loadErr_diverge (e : Env) : LoadErr e .diverge := loadErr_prim (prim_diverge e)

/-- `OggPage(fileobj)`: EOFError, ogg.error, or what the file object raised — nothing else, whatever is read -/
def PageErr (e : Env) (x : PyErr) : Prop := x = .eof ∨ x = .mutagen ∨ Injected e x

theorem pageErr_load {e : Env} {x : PyErr} (h : PageErr e x) : LoadErr e x := by
  rcases h with h | h | h
  · exact Or.inl h
  · exact Or.inr (Or.inl h)
  · exact loadErr_inj h

theorem raises_readPacketsM' (lens : List Nat) : Raises PageErr (readPacketsM lens) := by
  induction lens with
  | nil => exact Raises.pure _ _
  | cons n r ih =>
    unfold readPacketsM
    apply Raises.bind ((Raises.fread n).weaken fun _ _ h => Or.inr (Or.inr h)); intro p
    apply Raises.bind ih; intro ps
    exact Raises.pure _ _

theorem raises_readPageM' : Raises PageErr readPageM := by
  unfold readPageM
  apply Raises.bind (Raises.ftell.weaken fun _ _ h => Or.inr (Or.inr h)); intro off
  apply Raises.bind ((Raises.fread 27).weaken fun _ _ h => Or.inr (Or.inr h)); intro hdr
  split
  · exact Raises.raise _ (fun _ => Or.inl rfl)
  split
  · exact Raises.raise _ (fun _ => Or.inr (Or.inl rfl))
  split
  · apply Raises.bind (Raises.ftell.weaken fun _ _ h => Or.inr (Or.inr h)); intro _
    exact Raises.raise _ (fun _ => Or.inr (Or.inl rfl))
  simp only
  split
  · exact Raises.raise _ (fun _ => Or.inr (Or.inl rfl))
  apply Raises.bind ((Raises.fread _).weaken fun _ _ h => Or.inr (Or.inr h)); intro lac
  split
  · exact Raises.raise _ (fun _ => Or.inr (Or.inl rfl))
  apply Raises.bind (raises_readPacketsM' _); intro ps
  split
  · exact Raises.raise _ (fun _ => Or.inr (Or.inl rfl))
  · exact Raises.pure _ _

theorem raises_scanM (pred : Page → Bool) (fuel : Nat) : Raises LoadErr (scanM pred fuel) := by
  induction fuel with
  | zero => exact Raises.raise _ loadErr_diverge
  | succ n ih =>
    unfold scanM
    apply Raises.bind (raises_readPageM'.weaken fun _ _ => pageErr_load); intro r
    split
    · exact Raises.pure _ _
    · exact ih

theorem raises_readLoopM (serial fuel : Nat) (acc : List Page) : Raises LoadErr (readLoopM serial fuel acc) := by
  induction fuel generalizing acc with
  | zero => exact Raises.raise _ loadErr_diverge
  | succ n ih =>
    unfold readLoopM
    apply Raises.bind (raises_readPageM'.weaken fun _ _ => pageErr_load); intro r
    split
    · split
      · exact Raises.pure _ _
      · exact ih _
    · exact ih _

theorem raises_collectM (serial fuel : Nat) (acc : List Page) (last : Page) : Raises LoadErr (collectM serial fuel acc last) := by
  induction fuel generalizing acc last with
  | zero => exact Raises.raise _ loadErr_diverge
  | succ n ih =>
    unfold collectM
    split
    · exact Raises.pure _ _
    · apply Raises.bind (raises_readPageM'.weaken fun _ _ => pageErr_load); intro r
      split
      · exact ih _ _
      · exact ih _ _

/-- `try: … except <pred>: <a value>`: what is caught does not leave -/
theorem Raises.swallow {P : Env → PyErr → Prop} {body : FileM α} (pred : PyErr → Bool) (a : α) (hb : Raises P body) :
    Raises (fun e x => P e x ∧ pred x = false) (tryCatch body pred (fun _ => pure a)) := by
  intro e s err s' h
  unfold Mutagen.tryCatch at h
  cases hbs : body e s with
  | mk r s1 =>
    rw [hbs] at h
    cases r with
    | ok v => simp at h
    | error x =>
      simp only at h
      split at h
      · simp at h
      · rename_i hp
        simp only [Prod.mk.injEq, Except.error.injEq] at h
        exact h.1 ▸ ⟨hb e s x s1 hbs, by simpa using hp⟩

/-- THE SLOW WAY OF find_last SWALLOWS EVERYTHING `OggPage` RAISES BY ITSELF: whatever the environment — every
short read included — the loop raises only what the file object raised (and that only if it is neither
ogg.error nor EOFError), or the model's marker.  A read that comes back short ends the loop with the best page
so far. -/
theorem raises_slowLastM (serial fuel : Nat) (best : Option Page) :
    Raises (fun e x => (Injected e x ∧ x ≠ .mutagen ∧ x ≠ .eof) ∨ x = .diverge) (slowLastM serial fuel best) := by
  induction fuel generalizing best with
  | zero => exact Raises.raise _ (fun _ => Or.inr rfl)
  | succ n ih =>
    unfold slowLastM
    have hread : Raises PageErr (do let x ← readPageM; Pure.pure (some x) : FileM (Option (Page × Nat))) :=
      Raises.bind raises_readPageM' fun _ => Raises.pure _ _
    have hsw : Raises (fun e x => (Injected e x ∧ x ≠ .mutagen ∧ x ≠ .eof) ∨ x = .diverge)
        (tryCatch (do let x ← readPageM; Pure.pure (some x) : FileM (Option (Page × Nat)))
          (fun e => e == .mutagen || e == .eof) (fun _ => Pure.pure none)) := by
      refine (Raises.swallow (fun e => e == .mutagen || e == .eof) none hread).weaken ?_
      intro e x hpc
      obtain ⟨hp, hc⟩ := hpc
      simp only [Bool.or_eq_false_iff, beq_eq_false_iff_ne, ne_eq] at hc
      rcases hp with h | h | h
      · exact absurd h hc.2
      · exact absurd h hc.1
      · exact Or.inl ⟨h, hc.1, hc.2⟩
    apply Raises.bind (P := fun e x => (Injected e x ∧ x ≠ .mutagen ∧ x ≠ .eof) ∨ x = .diverge) hsw
    intro r
    split
    · exact Raises.pure _ _
    · split
      · dsimp only
        split
        · exact Raises.pure _ _
        · exact ih _
      · exact ih _

theorem raises_seekEndBy (n : Int) : Raises PrimErr (seekEndBy n) := by
  have hrest : Raises PrimErr (do
      let sz ← Mutagen.getSize
      if sz < n.toNat then Mutagen.fseek 0
      else do
        Mutagen.tick .seekEnd; fun _ s => (.ok (), { s with pos := s.data.length - n.toNat }) : FileM Unit) := by
    apply Raises.bind Raises.getSize; intro sz
    split
    · exact (Raises.fseek 0).weaken fun _ _ => inj_prim
    · apply Raises.bind ((Raises.tick _).weaken fun _ _ => inj_prim); intro _
      intro e s err s' h; simp at h
  unfold Mutagen.seekEndBy
  by_cases hn : n < 0
  · simp only [hn, ↓reduceIte]
    exact Raises.bind (Raises.raise _ prim_value) fun _ => hrest
  · simp only [hn, ↓reduceIte]
    exact hrest

theorem raises_fileLen {P : Env → PyErr → Prop} : Raises P fileLen := by
  intro e s err s' h; simp [fileLen] at h

theorem raises_findLastM (serial : Nat) : Raises LoadErr (findLastM serial) := by
  unfold findLastM findLastMW
  apply Raises.bind ((raises_seekEndBy _).weaken fun _ _ => loadErr_prim); intro _
  apply Raises.bind (P := LoadErr) (m := freadAll)
  · intro e s err s' h
    exact loadErr_inj (Raises.fread _ e s err s' h)
  intro data
  split
  · exact Raises.raise _ loadErr_mutagen
  · apply Raises.bind (P := LoadErr) raises_fileLen; intro n
    have hslow : ∀ best, Raises LoadErr (do Mutagen.fseek 0; slowLastM serial (n + 1) best : FileM (Option Page)) := by
      intro best
      apply Raises.bind ((Raises.fseek 0).weaken fun _ _ => loadErr_inj); intro _
      exact (raises_slowLastM _ _ _).weaken (by
        intro e x h
        rcases h with h | h
        · exact loadErr_inj h.1
        · exact h ▸ loadErr_diverge e)
    split
    · split
      · split
        · exact Raises.pure _ _
        · exact hslow _
      · exact hslow _
    · exact hslow _

theorem idCheck_err (c : Codec) (page : Page) (x : PyErr) (h : idCheck c page = .error x) : x = .mutagen := by
  unfold idCheck at h
  cases c <;> simp only at h
  all_goals
    repeat' (split at h)
    all_goals first | (cases h; rfl) | cases h

theorem raises_infoM (c : Codec) : Raises LoadErr (infoM c) := by
  unfold infoM
  apply Raises.bind (P := LoadErr) raises_fileLen; intro n
  apply Raises.bind (P := LoadErr)
  · cases c
    · apply Raises.bind (raises_readPageM'.weaken fun _ _ => pageErr_load); intro r
      split
      · exact Raises.raise _ loadErr_mutagen
      · split
        · exact Raises.pure _ _
        · exact Raises.bind (raises_scanM _ _) fun _ => Raises.pure _ _
    all_goals exact Raises.bind (raises_scanM _ _) fun _ => Raises.pure _ _
  intro page
  split
  · rename_i x hx
    rw [idCheck_err c page x hx]
    exact Raises.raise _ loadErr_mutagen
  · exact Raises.pure _ _

theorem loadComment_err (c : Codec) (d : Bytes) (x : PyErr) (h : loadComment c d = .error x) : x = .mutagen := by
  unfold loadComment at h
  split at h
  · cases h; rfl
  · cases c <;> simp only at h
    all_goals
      repeat' (split at h)
      all_goals cases h

/-! ### what a program returns when it returns, in every environment -/

def Post (Q : α → Prop) (m : FileM α) : Prop := ∀ e s a s', m e s = (.ok a, s') → Q a

theorem Post.pure {Q : α → Prop} (a : α) (h : Q a) : Post Q (pure a : FileM α) := by
  intro e s b s' hb; simp only [pure_run, Prod.mk.injEq, Except.ok.injEq] at hb; exact hb.1 ▸ h

theorem Post.raise {Q : α → Prop} (x : PyErr) : Post Q (raise x : FileM α) := by
  intro e s b s' hb; simp at hb

theorem Post.bind' {R : α → Prop} {Q : β → Prop} {m : FileM α} {f : α → FileM β} (hm : Post R m)
    (hf : ∀ a, R a → Post Q (f a)) : Post Q (m >>= f) := by
  intro e s b s' h
  simp only [bind_run] at h
  cases hms : m e s with
  | mk r s1 =>
    rw [hms] at h
    cases r with
    | ok a => exact hf a (hm e s a s1 hms) e s1 b s' h
    | error x => simp at h

theorem Post.bind {Q : β → Prop} {m : FileM α} {f : α → FileM β} (hf : ∀ a, Post Q (f a)) : Post Q (m >>= f) :=
  Post.bind' (R := fun _ => True) (fun _ _ _ _ _ => trivial) (fun a _ => hf a)

/-- an incomplete page holds a packet -/
def Inc (p : Page) : Prop := p.complete = false → p.packets ≠ []

theorem post_readPageM : Post (fun r => Inc r.1) readPageM := by
  unfold readPageM
  apply Post.bind; intro off
  apply Post.bind; intro hdr
  split
  · exact Post.raise _
  split
  · exact Post.raise _
  split
  · exact Post.bind fun _ => Post.raise _
  simp only
  split
  · exact Post.raise _
  apply Post.bind; intro lac
  split
  · exact Post.raise _
  apply Post.bind; intro ps
  split
  · exact Post.raise _
  · rename_i hn
    apply Post.pure
    intro hc hps
    simp only at hc hps
    have := unlace_incomplete _ 0 hc
    rw [hps] at hn
    simp only [List.map_nil, ne_eq, Decidable.not_not] at hn
    exact this hn.symm

theorem Post.and {Q R : α → Prop} {m : FileM α} (h1 : Post Q m) (h2 : Post R m) : Post (fun a => Q a ∧ R a) m :=
  fun e s a s' h => ⟨h1 e s a s' h, h2 e s a s' h⟩

theorem post_scanM (pred : Page → Bool) (fuel : Nat) : Post (fun r => pred r.1 = true ∧ Inc r.1) (scanM pred fuel) := by
  induction fuel with
  | zero => exact Post.raise _
  | succ n ih =>
    unfold scanM
    refine Post.bind' (Q := fun (r : Page × Nat) => pred r.1 = true ∧ Inc r.1) post_readPageM ?_; intro r hr
    split
    · rename_i hp; exact Post.pure _ ⟨hp, hr⟩
    · exact ih

/-- the tag constructors' loop returns what it was given, pages that leave their only packet open (and so hold
one), and a last page -/
theorem post_readLoopM (serial fuel : Nat) (acc : List Page) :
    Post (fun ps => ∃ more l, ps = acc ++ more ++ [l] ∧ ∀ x ∈ more, x.packets ≠ []) (readLoopM serial fuel acc) := by
  induction fuel generalizing acc with
  | zero => exact Post.raise _
  | succ n ih =>
    unfold readLoopM
    refine Post.bind' (Q := fun ps => ∃ more l, ps = acc ++ more ++ [l] ∧ ∀ x ∈ more, x.packets ≠ []) post_readPageM ?_; intro r hr
    split
    · split
      · exact Post.pure _ ⟨[], r.1, by simp, by simp⟩
      · rename_i hcl
        intro e s ps s' h
        obtain ⟨more, l, he, hm⟩ := ih (acc ++ [r.1]) e s ps s' h
        refine ⟨r.1 :: more, l, by rw [he]; simp, ?_⟩
        intro x hx
        simp only [List.mem_cons] at hx
        rcases hx with rfl | hx
        · apply hr
          simp only [Bool.or_eq_true, not_or, Bool.not_eq_true] at hcl
          exact hcl.1
        · exact hm x hx
    · exact ih acc

theorem post_collectM (serial fuel : Nat) (acc : List Page) (last : Page) :
    Post (fun ps => ∃ more, ps = acc ++ more) (collectM serial fuel acc last) := by
  induction fuel generalizing acc last with
  | zero => exact Post.raise _
  | succ n ih =>
    unfold collectM
    split
    · exact Post.pure _ ⟨[], by simp⟩
    · refine Post.bind (Q := fun ps => ∃ more, ps = acc ++ more) ?_; intro r
      split
      · intro e s ps s' h
        obtain ⟨more, he⟩ := ih (acc ++ [r.1]) r.1 e s ps s' h
        exact ⟨r.1 :: more, by rw [he]; simp⟩
      · exact ih acc last

/-- `Raises` through a bind, using what the first program returns -/
theorem Raises.bind_post {P : Env → PyErr → Prop} {R : α → Prop} {m : FileM α} {f : α → FileM β}
    (hm : Raises P m) (hp : Post R m) (hf : ∀ a, R a → Raises P (f a)) : Raises P (m >>= f) := by
  intro e s err s' h
  simp only [bind_run] at h
  cases hms : m e s with
  | mk r s1 =>
    rw [hms] at h
    cases r with
    | ok a => exact hf a (hp e s a s1 hms) e s1 err s' h
    | error er =>
      simp only [Prod.mk.injEq, Except.error.injEq] at h
      exact h.1 ▸ hm e s er s1 hms

/-- the pages the tag constructor collected: `to_packets` on them does not raise IndexError and (Opus) returns at
least one packet — the first page holds a packet, or it is the only page -/
theorem tags_tail_raises (c : Codec) (p : Page) (rest : List Page) (h : p.packets = [] → rest = [])
    (hopus : c = .opus → p.packets ≠ []) :
    Raises LoadErr (match toPackets (p :: rest) false with
      | .error e => raise e
      | .ok [] => if c = .opus then raise .index else raise .mutagen
      | .ok (p0 :: _) =>
        match loadComment c (stripPrefix c p0) with
        | .error e => raise e
        | .ok (padding, padData) => pure (stripPrefix c p0, padding, padData) : FileM (Bytes × Nat × Bytes)) := by
  split
  · rename_i x hx
    rcases toPackets_err _ _ _ hx with h1 | h1
    · rw [h1]; exact Raises.raise _ (fun e => loadErr_prim (prim_value e))
    · rw [h1] at hx; exact absurd hx (toPackets_no_index p rest h)
  · rename_i hx
    split
    · rename_i hc
      exact absurd rfl (toPackets_ne_nil p rest [] (hopus hc) hx)
    · exact Raises.raise _ loadErr_mutagen
  · split
    · rename_i x hx
      rw [loadComment_err c _ x hx]
      exact Raises.raise _ loadErr_mutagen
    · exact Raises.pure _ _

theorem raises_tagsM (c : Codec) (serial : Nat) : Raises LoadErr (tagsM c serial) := by
  unfold tagsM
  apply Raises.bind (P := LoadErr) raises_fileLen; intro n
  cases c
  case opus =>
    simp only
    refine Raises.bind_post (P := LoadErr) (R := fun (ps : List Page) => ∃ p more, ps = p :: more ∧ p.packets ≠ [])
      (Raises.bind (raises_scanM _ _) fun _ => raises_collectM _ _ _ _) ?_ ?_
    · refine Post.bind' (Q := fun (ps : List Page) => ∃ p more, ps = p :: more ∧ p.packets ≠ []) (post_scanM _ _) ?_
      intro r hr
      intro e s ps s' h
      obtain ⟨more, he⟩ := post_collectM _ _ _ _ e s ps s' h
      simp only [Bool.and_eq_true] at hr
      exact ⟨r.1, more, by rw [he]; rfl, startsWith_packets _ _ hr.1.2⟩
    · intro ps hps
      obtain ⟨p, more, rfl, hp⟩ := hps
      exact tags_tail_raises .opus p more (fun hh => absurd hh hp) (fun _ => hp)
  all_goals
    simp only
    refine Raises.bind_post (P := LoadErr) (R := fun (ps : List Page) => ∃ more l, ps = [] ++ more ++ [l] ∧ ∀ x ∈ more, x.packets ≠ [])
      (raises_readLoopM _ _ _) (post_readLoopM _ _ _) ?_
    intro ps hps
    obtain ⟨more, l, rfl, hm⟩ := hps
    cases more with
    | nil => exact tags_tail_raises _ l [] (fun _ => rfl) (fun hc => by cases hc)
    | cons m ms =>
      exact tags_tail_raises _ m (ms ++ [l]) (fun hh => absurd hh (hm m (by simp))) (fun hc => by cases hc)

theorem raises_postM (serial : Nat) (needLast : Bool) : Raises LoadErr (postM serial needLast) := by
  unfold postM
  split
  · apply Raises.bind (raises_findLastM _); intro r
    split
    · exact Raises.raise _ loadErr_mutagen
    · exact Raises.pure _ _
  · exact Raises.pure _ _

theorem raises_loadBodyM (c : Codec) : Raises LoadErr (loadBodyM c) := by
  unfold loadBodyM
  apply Raises.bind (raises_infoM c); intro x
  apply Raises.bind (raises_tagsM c _); intro y
  apply Raises.bind (raises_postM _ _); intro z
  exact Raises.pure _ _

/-- what leaves `OggX(fileobj)`, in every environment: the format's error; ValueError (`verify_fileobj`: ANY
failure of the probing `read(0)` — the recorded finding); or something the handlers of `load` do not catch:
the model's marker, an injected exception that is none of IOError / ogg.error /
EOFError / ValueError -/
def LoadOut (e : Env) (x : PyErr) : Prop :=
  x = .mutagen ∨ x = .value ∨ ((x = .diverge ∨ Injected e x) ∧ loadCaught x = false)

theorem raises_loadM (c : Codec) : Raises LoadOut (loadM c) := by
  unfold loadM
  apply Raises.bind
  · -- verify_fileobj
    unfold verifyReadM
    have hb : Raises Injected (do let _ ← fread 0; Pure.pure () : FileM Unit) :=
      Raises.bind (Raises.fread 0) fun _ => Raises.pure _ _
    intro e s err s' h
    unfold Mutagen.tryCatch at h
    cases hbs : (do let _ ← fread 0; Pure.pure () : FileM Unit) e s with
    | mk r s1 =>
      rw [hbs] at h
      cases r with
      | ok v => simp at h
      | error x =>
        simp only at h
        split at h
        · simp only [raise_run, Prod.mk.injEq, Except.error.injEq] at h
          exact Or.inr (Or.inl h.1.symm)
        · rename_i hp
          simp only [Prod.mk.injEq, Except.error.injEq] at h
          have hx := hb e s x s1 hbs
          rw [← h.1]
          refine Or.inr (Or.inr ⟨Or.inr hx, ?_⟩)
          cases x <;> first | rfl | (exfalso; exact hp (by decide))
  intro _
  intro e s err s' h
  unfold Mutagen.tryCatch at h
  cases hbs : loadBodyM c e s with
  | mk r s1 =>
    rw [hbs] at h
    cases r with
    | ok v => simp at h
    | error x =>
      simp only at h
      split at h
      · simp only [raise_run, Prod.mk.injEq, Except.error.injEq] at h
        exact Or.inl h.1.symm
      · rename_i hp
        simp only [Prod.mk.injEq, Except.error.injEq] at h
        have hx := raises_loadBodyM c e s x s1 hbs
        have hp' : loadCaught x = false := by simpa using hp
        rw [← h.1]
        refine Or.inr (Or.inr ⟨?_, hp'⟩)
        rcases hx with hx | hx | hx | hx | hx | hx | hx
        · rw [hx] at hp'; cases hp'
        · rw [hx] at hp'; cases hp'
        · exact Or.inr hx
        · rw [hx] at hp'; cases hp'
        · rw [hx] at hp'; cases hp'
        · rw [hx] at hp'; cases hp'
        · exact Or.inl hx

/-- … when everything the environment injects is an IOError -/
theorem loadM_io_faults (c : Codec) (e : Env) (hio : ∀ i x, e.failAt i = some x → x.isIO = true) (s s' : FS) (x : PyErr)
    (h : loadM c e s = (.error x, s')) : x = .mutagen ∨ x = .value ∨ x = .diverge := by
  rcases raises_loadM c e s x s' h with h1 | h1 | ⟨h1 | ⟨i, hi⟩, h2⟩
  · exact Or.inl h1
  · exact Or.inr (Or.inl h1)
  · exact Or.inr (Or.inr h1)
  · have := hio i x hi
    simp only [loadCaught, this, Bool.true_or] at h2
    cases h2

/-! ### without faults: the program computes the pure load -/

/-- one page, quiet: the next state in terms of the pure reader -/
theorem readPageM_step {e : Env} (hq : Quiet e) (s : FS) (hp : s.pos ≤ s.data.length) :
    (∀ x, readPage s.data s.pos = .error x → ∃ s', readPageM e s = (.error x, s') ∧ s'.data = s.data) ∧
    (∀ p next, readPage s.data s.pos = .ok (p, next) →
      ∃ s', readPageM e s = (.ok (p, s.pos), s') ∧ s'.data = s.data ∧ s'.pos = next ∧ next ≤ s.data.length) := by
  obtain ⟨s', h, hd⟩ := readPageM_q hq s hp
  constructor
  · intro x hx; rw [hx] at h; exact ⟨s', h, hd⟩
  · intro p next hx
    have hn := (readPage_ok _ _ _ _ hx).2.1
    rw [hx] at h
    exact ⟨s', h.1, hd, h.2, hn⟩

theorem scanM_q {e : Env} (hq : Quiet e) (pred : Page → Bool) (fuel : Nat) (s : FS) (hp : s.pos ≤ s.data.length) :
    (∀ x, scanFrom s.data pred fuel s.pos = .error x → ∃ s', scanM pred fuel e s = (.error x, s') ∧ s'.data = s.data) ∧
    (∀ r next, scanFrom s.data pred fuel s.pos = .ok (r, next) →
      ∃ s', scanM pred fuel e s = (.ok (r.page, r.offset), s') ∧ s'.data = s.data ∧ s'.pos = next ∧ next ≤ s.data.length) := by
  induction fuel generalizing s with
  | zero =>
    constructor
    · intro x hx; simp only [scanFrom, Except.error.injEq] at hx; subst hx; exact ⟨s, rfl, rfl⟩
    · intro r next hx; simp [scanFrom] at hx
  | succ n ih =>
    obtain ⟨he, ho⟩ := readPageM_step hq s hp
    cases hr : readPage s.data s.pos with
    | error x =>
      obtain ⟨s1, h1, hd1⟩ := he x hr
      constructor
      · intro y hy
        simp only [scanFrom, hr, Except.error.injEq] at hy; subst hy
        exact ⟨s1, by simp only [scanM, bind_run, h1], hd1⟩
      · intro r next hy; simp [scanFrom, hr] at hy
    | ok v =>
      obtain ⟨p, nx⟩ := v
      obtain ⟨s1, h1, hd1, hp1, hle⟩ := ho p nx hr
      by_cases hpr : pred p = true
      · constructor
        · intro y hy; simp [scanFrom, hr, hpr] at hy
        · intro r next hy
          simp only [scanFrom, hr, hpr, ↓reduceIte, Except.ok.injEq, Prod.mk.injEq] at hy
          obtain ⟨rfl, rfl⟩ := hy
          exact ⟨s1, by simp only [scanM, bind_run, h1, hpr, ↓reduceIte, pure_run], hd1, hp1, hle⟩
      · have hih := ih s1 (by rw [hp1, hd1]; exact hle)
        rw [hd1, hp1] at hih
        have hrun : scanM pred (n + 1) e s = scanM pred n e s1 := by
          simp only [scanM, bind_run, h1, hpr, Bool.false_eq_true, ↓reduceIte]
        have hpure : scanFrom s.data pred (n + 1) s.pos = scanFrom s.data pred n nx := by
          simp only [scanFrom, hr, hpr, Bool.false_eq_true, ↓reduceIte]
        rw [hrun, hpure]
        constructor
        · intro y hy; obtain ⟨s2, h2, hd2⟩ := hih.1 y hy; exact ⟨s2, h2, hd2⟩
        · intro r next hy
          obtain ⟨s2, h2, hd2, hp2, hl2⟩ := hih.2 r next hy
          exact ⟨s2, h2, hd2, hp2, hl2⟩

theorem readLoopM_q {e : Env} (hq : Quiet e) (serial fuel : Nat) (acc : List Page) (s : FS) (hp : s.pos ≤ s.data.length) :
    ∃ s', readLoopM serial fuel acc e s = (readLoop s.data serial fuel acc s.pos, s') ∧ s'.data = s.data := by
  induction fuel generalizing s acc with
  | zero => exact ⟨s, rfl, rfl⟩
  | succ n ih =>
    obtain ⟨he, ho⟩ := readPageM_step hq s hp
    cases hr : readPage s.data s.pos with
    | error x =>
      obtain ⟨s1, h1, hd1⟩ := he x hr
      exact ⟨s1, by simp only [readLoopM, readLoop, hr, bind_run, h1], hd1⟩
    | ok v =>
      obtain ⟨p, nx⟩ := v
      obtain ⟨s1, h1, hd1, hp1, hle⟩ := ho p nx hr
      by_cases hser : p.serial = serial
      · by_cases hcl : (p.complete || decide (p.packets.length > 1)) = true
        · exact ⟨s1, by simp only [readLoopM, readLoop, hr, bind_run, h1, hser, hcl, ↓reduceIte, pure_run], hd1⟩
        · have hcl' : (p.complete || decide (p.packets.length > 1)) = false := by simpa using hcl
          obtain ⟨s2, h2, hd2⟩ := ih (acc ++ [p]) s1 (by rw [hp1, hd1]; exact hle)
          rw [hd1, hp1] at h2
          exact ⟨s2, by simp only [readLoopM, readLoop, hr, bind_run, h1, hser, hcl', Bool.false_eq_true, ↓reduceIte, h2], by rw [hd2, hd1]⟩
      · obtain ⟨s2, h2, hd2⟩ := ih acc s1 (by rw [hp1, hd1]; exact hle)
        rw [hd1, hp1] at h2
        exact ⟨s2, by simp only [readLoopM, readLoop, hr, bind_run, h1, hser, ↓reduceIte, h2], by rw [hd2, hd1]⟩

theorem collectM_q {e : Env} (hq : Quiet e) (serial fuel : Nat) (acc : List Rd) (last : Page) (s : FS) (hp : s.pos ≤ s.data.length) :
    ∃ s', collectM serial fuel (acc.map (·.page)) last e s =
        ((collect s.data serial fuel acc last s.pos).map (fun rs => rs.map (·.page)), s') ∧ s'.data = s.data := by
  induction fuel generalizing s acc last with
  | zero => exact ⟨s, rfl, rfl⟩
  | succ n ih =>
    by_cases hcl : (last.complete || decide (last.packets.length > 1)) = true
    · exact ⟨s, by simp only [collectM, collect, hcl, ↓reduceIte, pure_run]; rfl, rfl⟩
    · have hcl' : (last.complete || decide (last.packets.length > 1)) = false := by simpa using hcl
      obtain ⟨he, ho⟩ := readPageM_step hq s hp
      cases hr : readPage s.data s.pos with
      | error x =>
        obtain ⟨s1, h1, hd1⟩ := he x hr
        exact ⟨s1, by simp only [collectM, collect, hcl', Bool.false_eq_true, hr, bind_run, h1, ↓reduceIte]; rfl, hd1⟩
      | ok v =>
        obtain ⟨p, nx⟩ := v
        obtain ⟨s1, h1, hd1, hp1, hle⟩ := ho p nx hr
        by_cases hser : p.serial = serial
        · obtain ⟨s2, h2, hd2⟩ := ih (acc ++ [⟨p, s.pos⟩]) p s1 (by rw [hp1, hd1]; exact hle)
          rw [hd1, hp1] at h2
          simp only [List.map_append, List.map_cons, List.map_nil] at h2
          exact ⟨s2, by simp only [collectM, collect, hcl', Bool.false_eq_true, hr, bind_run, h1, hser, ↓reduceIte, h2], by rw [hd2, hd1]⟩
        · obtain ⟨s2, h2, hd2⟩ := ih acc last s1 (by rw [hp1, hd1]; exact hle)
          rw [hd1, hp1] at h2
          exact ⟨s2, by simp only [collectM, collect, hcl', Bool.false_eq_true, hr, bind_run, h1, hser, ↓reduceIte, h2], by rw [hd2, hd1]⟩

theorem slowLastM_q {e : Env} (hq : Quiet e) (serial fuel : Nat) (best : Option Page) (s : FS) (hp : s.pos ≤ s.data.length) :
    ∃ s', slowLastM serial fuel best e s = (slowLastP s.data serial fuel s.pos best, s') ∧ s'.data = s.data := by
  induction fuel generalizing s best with
  | zero => exact ⟨s, rfl, rfl⟩
  | succ n ih =>
    obtain ⟨he, ho⟩ := readPageM_step hq s hp
    cases hr : readPage s.data s.pos with
    | error x =>
      obtain ⟨s1, h1, hd1⟩ := he x hr
      have hx : (x == PyErr.mutagen || x == PyErr.eof) = true := by
        unfold readPage at hr
        split at hr <;> first | (cases hr; rfl) | cases hr
      exact ⟨s1, by simp only [slowLastM, slowLastP, hr, bind_run, tryCatch, h1, hx, ↓reduceIte, pure_run], hd1⟩
    | ok v =>
      obtain ⟨p, nx⟩ := v
      obtain ⟨s1, h1, hd1, hp1, hle⟩ := ho p nx hr
      by_cases hser : p.serial = serial
      · by_cases hl : p.last = true
        · exact ⟨s1, by simp only [slowLastM, slowLastP, hr, bind_run, tryCatch, h1, hser, hl, ↓reduceIte, pure_run], hd1⟩
        · have hl' : p.last = false := by simpa using hl
          obtain ⟨s2, h2, hd2⟩ := ih (if p.position ≠ -1 then some p else best) s1 (by rw [hp1, hd1]; exact hle)
          rw [hd1, hp1] at h2
          exact ⟨s2, by simp only [slowLastM, slowLastP, hr, bind_run, tryCatch, h1, hser, hl', Bool.false_eq_true, ↓reduceIte, pure_run, h2], by rw [hd2, hd1]⟩
      · obtain ⟨s2, h2, hd2⟩ := ih best s1 (by rw [hp1, hd1]; exact hle)
        rw [hd1, hp1] at h2
        exact ⟨s2, by simp only [slowLastM, slowLastP, hr, bind_run, tryCatch, h1, hser, ↓reduceIte, pure_run, h2], by rw [hd2, hd1]⟩

theorem fileLen_run (e : Env) (s : FS) : fileLen e s = (.ok s.data.length, s) := rfl

theorem getSize_q' {e : Env} (hq : Quiet e) (s : FS) :
    ∃ s', getSize e s = (.ok s.data.length, s') ∧ s'.data = s.data := by
  unfold getSize
  simp only [bind_run, ftell_q hq, tryFinally, fseekEnd_q hq, fseek_q hq]
  exact ⟨_, rfl, rfl⟩

theorem seekEndBy_q {e : Env} (hq : Quiet e) (w : Nat) (s : FS) :
    ∃ s', seekEndBy (w : Int) e s = (.ok (), s') ∧ s'.data = s.data ∧ s'.pos = s.data.length - w := by
  obtain ⟨s1, h1, hd1⟩ := getSize_q' hq s
  unfold seekEndBy
  have hw : ¬ ((w : Int) < 0) := by omega
  simp only [hw, ↓reduceIte, bind_run, h1, Int.toNat_natCast]
  split
  · rename_i hlt
    rw [fseek_q hq]
    exact ⟨_, rfl, hd1, by simp only; omega⟩
  · simp only [bind_run, tick_q hq]
    exact ⟨_, rfl, hd1, by simp only [hd1]⟩

theorem freadAll_q {e : Env} (hq : Quiet e) (s : FS) (hp : s.pos ≤ s.data.length) :
    ∃ s', freadAll e s = (.ok (s.data.drop s.pos), s') ∧ s'.data = s.data ∧ s'.pos = s.data.length := by
  unfold freadAll
  rw [fread_q hq]
  have : readAt s.data s.pos (s.data.length - s.pos) = s.data.drop s.pos := by
    simp only [readAt]; exact List.take_of_length_le (by simp)
  rw [this]
  exact ⟨_, rfl, rfl, by simp; omega⟩

theorem slowFrom0_q {e : Env} (hq : Quiet e) (serial : Nat) (best : Option Page) (s2 : FS) :
    ∃ s', (do fseek 0; slowLastM serial (s2.data.length + 1) best : FileM (Option Page)) e s2 =
      (slowLastP s2.data serial (s2.data.length + 1) 0 best, s') ∧ s'.data = s2.data := by
  simp only [bind_run, fseek_q hq]
  exact slowLastM_q hq serial (s2.data.length + 1) best
    { data := s2.data, pos := 0, ops := s2.ops + 1, log := .seek 0 :: s2.log } (Nat.zero_le _)

/-- what `find_last` does with the page found at the last "OggS", as a program … -/
def afterFastM (serial n : Nat) (fast : Option Page) : FileM (Option Page) :=
  match fast with
  | some p =>
    if p.serial = serial ∧ p.position ≠ -1 then
      if p.last then pure (some p) else (do fseek 0; slowLastM serial (n + 1) (some p))
    else (do fseek 0; slowLastM serial (n + 1) none)
  | none => (do fseek 0; slowLastM serial (n + 1) none)

/-- … and on the bytes -/
def afterFastP (f : Bytes) (serial : Nat) (fast : Option Page) : Except PyErr (Option Page) :=
  match fast with
  | some p =>
    if p.serial = serial ∧ p.position ≠ -1 then
      if p.last then .ok (some p) else slowLastP f serial (f.length + 1) 0 (some p)
    else slowLastP f serial (f.length + 1) 0 none
  | none => slowLastP f serial (f.length + 1) 0 none

theorem afterFastM_q {e : Env} (hq : Quiet e) (serial : Nat) (fast : Option Page) (s2 : FS) :
    ∃ s', afterFastM serial s2.data.length fast e s2 = (afterFastP s2.data serial fast, s') ∧ s'.data = s2.data := by
  unfold afterFastM afterFastP
  cases fast with
  | none => exact slowFrom0_q hq serial none s2
  | some p =>
    simp only
    by_cases hc1 : p.serial = serial ∧ p.position ≠ -1
    · rw [if_pos hc1, if_pos hc1]
      by_cases hc2 : p.last = true
      · rw [if_pos hc2, if_pos hc2]
        exact ⟨s2, rfl, rfl⟩
      · rw [if_neg hc2, if_neg hc2]
        exact slowFrom0_q hq serial (some p) s2
    · rw [if_neg hc1, if_neg hc1]
      exact slowFrom0_q hq serial none s2

theorem findLastMW_eq (w serial : Nat) :
    findLastMW w serial = (do
      seekEndBy (w : Int)
      let data ← freadAll
      match Info.OggC.rindex Info.OggC.oggS data with
      | none => raise .mutagen
      | some index => do
        let n ← fileLen
        afterFastM serial n (Info.OggC.fastPage data index)) := by
  unfold findLastMW afterFastM
  rfl

theorem findLastPW_eq (w : Nat) (f : Bytes) (serial : Nat) :
    findLastPW w f serial =
      match Info.OggC.rindex Info.OggC.oggS (f.drop (f.length - w)) with
      | none => .error .mutagen
      | some index => afterFastP f serial (Info.OggC.fastPage (f.drop (f.length - w)) index) := by
  unfold findLastPW afterFastP
  rfl

theorem findLastMW_q {e : Env} (hq : Quiet e) (w serial : Nat) (s : FS) :
    ∃ s', findLastMW w serial e s = (findLastPW w s.data serial, s') ∧ s'.data = s.data := by
  obtain ⟨s1, h1, hd1, hp1⟩ := seekEndBy_q hq w s
  obtain ⟨s2, h2, hd2, hp2⟩ := freadAll_q hq s1 (by rw [hp1, hd1]; omega)
  rw [hd1, hp1] at h2
  have hs2 : s2.data = s.data := by rw [hd2, hd1]
  rw [findLastMW_eq, findLastPW_eq]
  simp only [bind_run, h1, h2]
  cases hri : Info.OggC.rindex Info.OggC.oggS (s.data.drop (s.data.length - w)) with
  | none => exact ⟨s2, rfl, hs2⟩
  | some index =>
    simp only [bind_run, fileLen_run]
    have := afterFastM_q hq serial (Info.OggC.fastPage (s.data.drop (s.data.length - w)) index) s2
    rw [hs2] at this
    rw [hs2]
    exact this

theorem findLastM_q {e : Env} (hq : Quiet e) (serial : Nat) (s : FS) :
    ∃ s', findLastM serial e s = (findLastP s.data serial, s') ∧ s'.data = s.data :=
  findLastMW_q hq 65536 serial s

theorem postM_q {e : Env} (hq : Quiet e) (serial : Nat) (needLast : Bool) (s : FS) :
    ∃ s', postM serial needLast e s =
      ((if needLast then
          match findLastP s.data serial with
          | .error x => .error x
          | .ok none => .error .mutagen
          | .ok (some l) => .ok (some l)
        else .ok none), s') ∧ s'.data = s.data := by
  unfold postM
  cases needLast with
  | false => exact ⟨s, rfl, rfl⟩
  | true =>
    obtain ⟨s1, h1, hd1⟩ := findLastM_q hq serial s
    generalize findLastP s.data serial = R at h1
    simp only [↓reduceIte, bind_run, h1]
    cases R with
    | error x => exact ⟨s1, rfl, hd1⟩
    | ok v =>
      cases v with
      | none => exact ⟨s1, rfl, hd1⟩
      | some l => exact ⟨s1, rfl, hd1⟩

/-- the tail of the tag constructors, on the pages found -/
def tagsTail (c : Codec) (pages : Except PyErr (List Page)) : Except PyErr (Bytes × Nat × Bytes) :=
  match pages with
  | .error x => .error x
  | .ok ps =>
    match toPackets ps false with
    | .error x => .error x
    | .ok [] => if c = .opus then .error .index else .error .mutagen
    | .ok (p0 :: _) =>
      match loadComment c (stripPrefix c p0) with
      | .error x => .error x
      | .ok (a, b) => .ok (stripPrefix c p0, a, b)

theorem tagsTail_readComment (c : Codec) (f : Bytes) (serial pos : Nat) :
    (match readComment c f serial pos with
      | .error x => .error x
      | .ok data =>
        match loadComment c data with
        | .error x => .error x
        | .ok (a, b) => .ok (data, a, b)) =
    tagsTail c (match c with
      | .opus =>
        match scanFrom f (fun p => decide (p.serial = serial) && startsWith magicOpusTags p) (f.length + 1) pos with
        | .error e => .error e
        | .ok (r, next) =>
          match collect f r.page.serial (f.length + 1) [r] r.page next with
          | .error e => .error e
          | .ok rs => .ok (rs.map (·.page))
      | _ => readLoop f serial (f.length + 1) [] pos) := by
  cases c
  case opus =>
    simp only [readComment, tagsTail]
    cases scanFrom f (fun p => decide (p.serial = serial) && startsWith magicOpusTags p) (f.length + 1) pos with
    | error x => rfl
    | ok v =>
      obtain ⟨r, next⟩ := v
      simp only
      cases collect f r.page.serial (f.length + 1) [r] r.page next with
      | error x => rfl
      | ok rs =>
        simp only
        cases toPackets (rs.map (·.page)) false with
        | error x => rfl
        | ok X => cases X <;> rfl
  all_goals
    simp only [readComment, tagsTail]
    cases readLoop f serial (f.length + 1) [] pos with
    | error x => rfl
    | ok ps =>
      simp only
      cases toPackets ps false with
      | error x => rfl
      | ok X => cases X <;> rfl

theorem tagsM_tail (c : Codec) (ps : List Page) (e : Env) (s : FS) :
    (match toPackets ps false with
      | .error e => raise e
      | .ok [] => if c = .opus then raise .index else raise .mutagen
      | .ok (p0 :: _) =>
        match loadComment c (stripPrefix c p0) with
        | .error e => raise e
        | .ok (padding, padData) => pure (stripPrefix c p0, padding, padData) : FileM (Bytes × Nat × Bytes)) e s =
    (tagsTail c (.ok ps), s) := by
  unfold tagsTail
  simp only
  cases toPackets ps false with
  | error x => rfl
  | ok X =>
    cases X with
    | nil => simp only; split <;> rfl
    | cons p0 rest =>
      simp only
      cases loadComment c (stripPrefix c p0) with
      | error x => rfl
      | ok v => rfl

theorem tagsM_q {e : Env} (hq : Quiet e) (c : Codec) (serial : Nat) (s : FS) (hp : s.pos ≤ s.data.length) :
    ∃ s', tagsM c serial e s =
      ((match readComment c s.data serial s.pos with
        | .error x => .error x
        | .ok data =>
          match loadComment c data with
          | .error x => .error x
          | .ok (a, b) => .ok (data, a, b)), s') ∧ s'.data = s.data := by
  rw [tagsTail_readComment]
  cases c
  case opus =>
    simp only [tagsM, bind_run, fileLen_run]
    obtain ⟨he, ho⟩ := scanM_q hq (fun p => decide (p.serial = serial) && startsWith magicOpusTags p) (s.data.length + 1) s hp
    cases hsc : scanFrom s.data (fun p => decide (p.serial = serial) && startsWith magicOpusTags p) (s.data.length + 1) s.pos with
    | error x =>
      obtain ⟨s1, h1, hd1⟩ := he x hsc
      exact ⟨s1, by rw [h1]; rfl, hd1⟩
    | ok v =>
      obtain ⟨r, next⟩ := v
      obtain ⟨s1, h1, hd1, hp1, hle⟩ := ho r next hsc
      obtain ⟨s2, h2, hd2⟩ := collectM_q hq r.page.serial (s.data.length + 1) [r] r.page s1 (by rw [hp1, hd1]; exact hle)
      rw [hd1, hp1] at h2
      simp only [List.map_cons, List.map_nil] at h2
      rw [h1]; simp only; rw [h2]
      cases collect s.data r.page.serial (s.data.length + 1) [r] r.page next with
      | error x => exact ⟨s2, rfl, by rw [hd2, hd1]⟩
      | ok rs => exact ⟨s2, tagsM_tail .opus _ e s2, by rw [hd2, hd1]⟩
  all_goals
    simp only [tagsM, bind_run, fileLen_run]
    obtain ⟨s1, h1, hd1⟩ := readLoopM_q hq serial (s.data.length + 1) [] s hp
    rw [h1]
    cases readLoop s.data serial (s.data.length + 1) [] s.pos with
    | error x => exact ⟨s1, rfl, hd1⟩
    | ok ps => exact ⟨s1, tagsM_tail _ _ e s1, hd1⟩


/-- the page the info constructor stops on and the position behind it, on the bytes -/
def infoFound (c : Codec) (f : Bytes) : Except PyErr (Page × Nat) :=
  match c with
  | .vorbis =>
    match readPage f 0 with
    | .error e => .error e
    | .ok (p0, next) =>
      if p0.packets = [] then .error .mutagen
      else if startsWith magicVorbisId p0 then .ok (p0, next)
      else (scanFrom f (startsWith magicVorbisId) (f.length + 1) next).map fun x => (x.1.page, x.2)
  | _ => (scanFrom f (startsWith c.idMagic) (f.length + 1) 0).map fun x => (x.1.page, x.2)

theorem infoP_eq (c : Codec) (f : Bytes) :
    infoP c f = match infoFound c f with
      | .error e => .error e
      | .ok (page, pos) =>
        match idCheck c page with
        | .error e => .error e
        | .ok needLast => .ok (page, needLast, pos) := by
  unfold infoP infoFound
  rfl

/-- the scanning part of the info constructor as a program -/
def infoFoundM (c : Codec) (n : Nat) : FileM Page :=
  match c with
  | .vorbis => do
    let r ← readPageM
    if r.1.packets = [] then raise .mutagen
    else if startsWith magicVorbisId r.1 then pure r.1
    else do
      let r' ← scanM (startsWith magicVorbisId) (n + 1)
      pure r'.1
  | _ => do
    let r ← scanM (startsWith c.idMagic) (n + 1)
    pure r.1

theorem infoM_eq (c : Codec) : infoM c = (do
    let n ← fileLen
    let page ← infoFoundM c n
    match idCheck c page with
    | .error e => raise e
    | .ok needLast => pure (page, needLast)) := by
  unfold infoM infoFoundM
  rfl

theorem scanFound_q {e : Env} (hq : Quiet e) (pred : Page → Bool) (s : FS) (hp : s.pos ≤ s.data.length) :
    ∃ s', s'.data = s.data ∧
      match (scanFrom s.data pred (s.data.length + 1) s.pos).map fun x => (x.1.page, x.2) with
      | .error x => (do let r ← scanM pred (s.data.length + 1); Pure.pure r.1 : FileM Page) e s = (.error x, s')
      | .ok (page, pos) => (do let r ← scanM pred (s.data.length + 1); Pure.pure r.1 : FileM Page) e s = (.ok page, s') ∧
          s'.pos = pos ∧ pos ≤ s.data.length := by
  obtain ⟨he, ho⟩ := scanM_q hq pred (s.data.length + 1) s hp
  cases hsc : scanFrom s.data pred (s.data.length + 1) s.pos with
  | error x =>
    obtain ⟨s1, h1, hd1⟩ := he x hsc
    exact ⟨s1, hd1, by simp only [Except.map, bind_run, h1]⟩
  | ok v =>
    obtain ⟨r, next⟩ := v
    obtain ⟨s1, h1, hd1, hp1, hle⟩ := ho r next hsc
    exact ⟨s1, hd1, by simp only [Except.map, bind_run, h1, pure_run]; exact ⟨trivial, hp1, hle⟩⟩

theorem infoFoundM_q {e : Env} (hq : Quiet e) (c : Codec) (s : FS) (hp0 : s.pos = 0) :
    ∃ s', s'.data = s.data ∧
      match infoFound c s.data with
      | .error x => infoFoundM c s.data.length e s = (.error x, s')
      | .ok (page, pos) => infoFoundM c s.data.length e s = (.ok page, s') ∧ s'.pos = pos ∧ pos ≤ s.data.length := by
  have hp : s.pos ≤ s.data.length := by omega
  cases c
  case vorbis =>
    simp only [infoFound, infoFoundM, bind_run]
    obtain ⟨he, ho⟩ := readPageM_step hq s hp
    rw [hp0] at he ho
    cases hr : readPage s.data 0 with
    | error x =>
      obtain ⟨s1, h1, hd1⟩ := he x hr
      exact ⟨s1, hd1, by simp only [h1]⟩
    | ok v =>
      obtain ⟨p0, next⟩ := v
      obtain ⟨s1, h1, hd1, hp1, hle⟩ := ho p0 next hr
      simp only [h1]
      by_cases hpk : p0.packets = []
      · exact ⟨s1, hd1, by simp only [hpk, ↓reduceIte, raise_run]⟩
      · simp only [hpk, ↓reduceIte]
        by_cases hm : startsWith magicVorbisId p0 = true
        · exact ⟨s1, hd1, by simp only [hm, ↓reduceIte, pure_run]; exact ⟨trivial, hp1, hle⟩⟩
        · simp only [hm, Bool.false_eq_true, ↓reduceIte]
          obtain ⟨s2, hd2, h2⟩ := scanFound_q hq (startsWith magicVorbisId) s1 (by rw [hp1, hd1]; exact hle)
          rw [hd1, hp1] at h2
          exact ⟨s2, by rw [hd2, hd1], h2⟩
  all_goals
    simp only [infoFound, infoFoundM]
    rw [← hp0]
    exact scanFound_q hq _ s hp

theorem infoM_q {e : Env} (hq : Quiet e) (c : Codec) (s : FS) (hp0 : s.pos = 0) :
    ∃ s', s'.data = s.data ∧
      match infoP c s.data with
      | .error x => infoM c e s = (.error x, s')
      | .ok (page, needLast, pos) => infoM c e s = (.ok (page, needLast), s') ∧ s'.pos = pos ∧ pos ≤ s.data.length := by
  obtain ⟨s1, hd1, h1⟩ := infoFoundM_q hq c s hp0
  rw [infoP_eq, infoM_eq]
  simp only [bind_run, fileLen_run]
  cases hf : infoFound c s.data with
  | error x =>
    rw [hf] at h1
    exact ⟨s1, hd1, by simp only [h1]⟩
  | ok v =>
    obtain ⟨page, pos⟩ := v
    rw [hf] at h1
    simp only [h1.1]
    cases idCheck c page with
    | error x => exact ⟨s1, hd1, rfl⟩
    | ok nl => exact ⟨s1, hd1, rfl, h1.2.1, h1.2.2⟩

theorem loadBodyM_q {e : Env} (hq : Quiet e) (c : Codec) (s : FS) (hp0 : s.pos = 0) :
    ∃ s', loadBodyM c e s = (loadRaw c s.data, s') ∧ s'.data = s.data := by
  obtain ⟨s1, hd1, h1⟩ := infoM_q hq c s hp0
  unfold loadBodyM loadRaw
  simp only [bind_run]
  cases hi : infoP c s.data with
  | error x =>
    rw [hi] at h1
    exact ⟨s1, by simp only [h1], hd1⟩
  | ok v =>
    obtain ⟨page, needLast, pos⟩ := v
    rw [hi] at h1
    obtain ⟨h1a, h1b, h1c⟩ := h1
    simp only [h1a]
    obtain ⟨s2, h2, hd2⟩ := tagsM_q hq c page.serial s1 (by rw [h1b, hd1]; exact h1c)
    rw [hd1, h1b] at h2
    simp only [h2]
    cases readComment c s.data page.serial pos with
    | error x => exact ⟨s2, rfl, by rw [hd2, hd1]⟩
    | ok data =>
      simp only
      cases loadComment c data with
      | error x => exact ⟨s2, rfl, by rw [hd2, hd1]⟩
      | ok w =>
        obtain ⟨padding, padData⟩ := w
        simp only
        obtain ⟨s3, h3, hd3⟩ := postM_q hq page.serial needLast s2
        rw [hd2, hd1] at h3
        simp only [h3]
        have hd : s3.data = s.data := by rw [hd3, hd2, hd1]
        cases needLast with
        | false => exact ⟨s3, rfl, hd⟩
        | true =>
          simp only [↓reduceIte]
          cases findLastP s.data page.serial with
          | error x => exact ⟨s3, rfl, hd⟩
          | ok o =>
            cases o with
            | none => exact ⟨s3, rfl, hd⟩
            | some l => exact ⟨s3, rfl, hd⟩

/-- WITHOUT FAULTS (any capacity), from position 0: `OggX(fileobj)` returns what the pure load returns on the
bytes of the file, and the file is what it was — for every byte string -/
theorem loadM_q {e : Env} (hq : Quiet e) (c : Codec) (s : FS) (hp0 : s.pos = 0) :
    ∃ s', loadM c e s = (loadPure c s.data, s') ∧ s'.data = s.data := by
  unfold loadM verifyReadM
  simp only [bind_run, tryCatch, fread_q hq, pure_run]
  have hz : (readAt s.data s.pos 0).length = 0 := by simp [readAt]
  obtain ⟨s1, h1, hd1⟩ := loadBodyM_q hq c
    { data := s.data, pos := s.pos + (readAt s.data s.pos 0).length, ops := s.ops + 1, log := .read 0 :: s.log }
    (by simp only [hp0, readAt, List.take_zero, List.length_nil])
  simp only at h1 hd1
  rw [h1]
  unfold loadPure
  cases loadRaw c s.data with
  | ok v => exact ⟨s1, rfl, hd1⟩
  | error x =>
    simp only
    by_cases hc : loadCaught x = true
    · simp only [hc, ↓reduceIte, raise_run]; exact ⟨s1, rfl, hd1⟩
    · simp only [hc, Bool.false_eq_true, ↓reduceIte]; exact ⟨s1, rfl, hd1⟩


end Mutagen.OggInj
