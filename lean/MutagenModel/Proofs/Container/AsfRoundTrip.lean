/- Proofs/Container/AsfRoundTrip.lean — ASF: what a file loads with after a save (C01): mutagen's parsers
on what `save` rendered, exactly; the canonical form of a tag list; saving the loaded tags again -/
import MutagenModel.Proofs.Container.AsfTotal
set_option linter.unusedVariables false
namespace Mutagen.Asf
open Mutagen Mutagen.AsfAttr

/-! ### plain tags and the canonical form -/

/-- text without NUL characters (the reader strips NULs at both ends of every name and text value) -/
def Val.Plain : Val → Prop
  | .unicode cs => ∀ c ∈ cs, c ≠ 0
  | _ => True

instance (v : Val) : Decidable v.Plain := by cases v <;> simp only [Val.Plain] <;> infer_instance

/-- name and text value can be encoded and hold no NUL -/
structure Tag.Plain (t : Tag) : Prop where
  enc : t.Enc
  name : ∀ c ∈ t.name, c ≠ 0
  val : t.val.Plain

instance (t : Tag) : Decidable t.Plain :=
  decidable_of_iff (t.Enc ∧ (∀ c ∈ t.name, c ≠ 0) ∧ t.val.Plain) ⟨fun h => ⟨h.1, h.2.1, h.2.2⟩, fun h => ⟨h.enc, h.name, h.val⟩⟩

/-- language and stream as the Metadata Library Object stores them: absent = 0 -/
def dflt (t : Tag) : Tag := { t with language := some (t.language.getD 0), stream := some (t.stream.getD 0) }

/-- the Content Description values in the order of the object's five fields -/
def cdSorted (cd : List Tag) : List Tag := cdNames.filterMap fun n => cd.find? (fun t => t.name == n)

/-- the canonical form of a tag list — what the file loads with after a save: the values grouped by the
object that holds them, in the order the objects are read: Content Description (the first text value
without language / stream under each of Title, Author, Copyright, Description, Rating, in that
order), Extended Content Description (the first value that fits of every other name, in insertion
order), Metadata (the first fitting value with a stream number of each name, in insertion order),
Metadata Library (everything else — values with a language, values above 65535 bytes, GUIDs, further
values of a name, non-text values under the five names — in insertion order, language and stream
defaulted to 0).  Boolean values are 4 bytes wide in the Extended Content Description and 2 bytes in
the other two objects and read back as the same Boolean. -/
def canonical (tags : List Tag) : List Tag :=
  cdSorted (distPure tags).cd ++ (distPure tags).ecd ++ (distPure tags).mo ++ (distPure tags).ml.map dflt

/-! ### mutagen's parsers on what `save` rendered, exactly -/

theorem scalars_of_enc {cs : List Nat} (h : cs.all isScalar = true) : ∀ c ∈ cs, Scalar c := scalars_of_all h

theorem decodeText_plain (cs : List Nat) (hs : cs.all isScalar = true) (hz : ∀ c ∈ cs, c ≠ 0) :
    decodeText (encodeUtf16 cs ++ nul2) = some cs :=
  parseText_renderText cs (scalars_of_enc hs) hz

theorem ofLE_toLE' (w n : Nat) (h : n < 256 ^ w) : ofLE (toLE w n) = n := ofLE_toLE w n h

/-- a rendered value parses back to itself -/
theorem parseVal_render {v : Val} (hp : v.Plain) {dw : Bool} {data : Bytes} (h : v.render dw = .ok data) :
    parseVal v.typ data dw = some v := by
  cases v with
  | unicode cs =>
    simp only [Val.render] at h
    split at h
    · cases h
    · rename_i b hb
      cases h
      obtain ⟨hc, rfl⟩ := encodeStr_ok hb
      simp only [Val.typ, parseVal, ↓reduceIte, decodeText_plain cs hc hp, Option.map_some]
  | bytes b => cases h; rfl
  | guid b => cases h; rfl
  | bool x =>
    cases h
    cases dw <;> cases x <;> rfl
  | dword n =>
    simp only [Val.render] at h
    split at h
    · rename_i hn; cases h; simp [Val.typ, parseVal, ofLE_toLE' 4 n hn]
    · cases h
  | qword n =>
    simp only [Val.render] at h
    split at h
    · rename_i hn; cases h; simp [Val.typ, parseVal, ofLE_toLE' 8 n hn]
    · cases h
  | word n =>
    simp only [Val.render] at h
    split at h
    · rename_i hn; cases h; simp [Val.typ, parseVal, ofLE_toLE' 2 n hn]
    · cases h

theorem attrOf_exact {t : Tag} {dw : Bool} {l s : Nat} {a : Attr} (h : attrOf t dw l s = .ok a) :
    t.name.all isScalar = true ∧ a.name = encodeUtf16 t.name ∧ a.typ = t.val.typ ∧ t.val.render dw = .ok a.data ∧
      a.language = l ∧ a.stream = s := by
  unfold attrOf at h
  split at h
  · cases h
  · rename_i nm hn
    split at h
    · cases h
    · rename_i data hdata
      cases h
      obtain ⟨hc, rfl⟩ := encodeStr_ok hn
      exact ⟨hc, rfl, rfl, hdata, rfl, rfl⟩

/-- what the Extended Content Description reader makes of a tag: no language, no stream -/
def readECD (t : Tag) : Tag := { t with language := none, stream := none }

theorem parseECDRecs_exact (ts : List Tag) (hp : ∀ t ∈ ts, t.Plain) (b tail : Bytes) (h : concatMapE recECD ts = .ok b) :
    parseECDRecs ts.length (b ++ tail) = some (ts.map readECD) := by
  induction ts generalizing b with
  | nil => rfl
  | cons t r ih =>
    obtain ⟨b1, b2, h1, h2, rfl⟩ := concatMapE_cons_ok h
    obtain ⟨a, ha, hn, hd, rfl⟩ := recECD_ok h1
    obtain ⟨hsc, hname, htyp, hrender, _, _⟩ := attrOf_exact ha
    have htp := hp t List.mem_cons_self
    have ht : a.typ < 65536 := by rw [htyp]; exact typ_lt _
    have ih' := ih (fun x hx => hp x (List.mem_cons_of_mem _ hx)) b2 h2
    simp only [List.length_cons, parseECDRecs]
    generalize hR : b2 ++ tail = R at ih'
    have hshape : renderECD a ++ b2 ++ tail =
        toLE 2 (a.name.length + 2) ++ ((a.name ++ nul2) ++ (toLE 2 a.typ ++ (toLE 2 a.data.length ++ (a.data ++ R)))) := by
      rw [← hR]; simp only [renderECD, List.append_assoc]
    rw [hshape]
    have l2 : ∀ n, (toLE 2 n).length = 2 := fun n => length_toLE 2 n
    have ln : (a.name ++ nul2).length = a.name.length + 2 := by simp [nul2]
    have e1 : (toLE 2 (a.name.length + 2) ++ ((a.name ++ nul2) ++ (toLE 2 a.typ ++ (toLE 2 a.data.length ++ (a.data ++ R))))).take 2 =
        toLE 2 (a.name.length + 2) := take_of_len _ _ 2 (l2 _)
    have e2 : (toLE 2 (a.name.length + 2) ++ ((a.name ++ nul2) ++ (toLE 2 a.typ ++ (toLE 2 a.data.length ++ (a.data ++ R))))).drop 2 =
        (a.name ++ nul2) ++ (toLE 2 a.typ ++ (toLE 2 a.data.length ++ (a.data ++ R))) := drop_of_len _ _ 2 (l2 _)
    have e3 : ((a.name ++ nul2) ++ (toLE 2 a.typ ++ (toLE 2 a.data.length ++ (a.data ++ R)))).take (a.name.length + 2) =
        a.name ++ nul2 := take_of_len _ _ _ ln
    have e4 : ((a.name ++ nul2) ++ (toLE 2 a.typ ++ (toLE 2 a.data.length ++ (a.data ++ R)))).drop (a.name.length + 2) =
        toLE 2 a.typ ++ (toLE 2 a.data.length ++ (a.data ++ R)) := drop_of_len _ _ _ ln
    have e5 : (toLE 2 a.typ ++ (toLE 2 a.data.length ++ (a.data ++ R))).take 2 = toLE 2 a.typ := take_of_len _ _ 2 (l2 _)
    have e6 : ((toLE 2 a.typ ++ (toLE 2 a.data.length ++ (a.data ++ R))).drop 2).take 2 = toLE 2 a.data.length := by
      rw [drop_of_len _ _ 2 (l2 _)]; exact take_of_len _ _ 2 (l2 _)
    have e7 : (toLE 2 a.typ ++ (toLE 2 a.data.length ++ (a.data ++ R))).drop 4 = a.data ++ R := by
      rw [show (4 : Nat) = 2 + 2 from rfl, ← List.drop_drop, drop_of_len _ _ 2 (l2 _)]; exact drop_of_len _ _ 2 (l2 _)
    have e8 : (a.data ++ R).take a.data.length = a.data := take_of_len _ _ _ rfl
    have e9 : (a.data ++ R).drop a.data.length = R := drop_of_len _ _ _ rfl
    have c1 : ¬ ((toLE 2 (a.name.length + 2) ++ ((a.name ++ nul2) ++ (toLE 2 a.typ ++ (toLE 2 a.data.length ++ (a.data ++ R))))).length < 2) := by
      simp [l2]
    have c2 : ¬ ((toLE 2 a.typ ++ (toLE 2 a.data.length ++ (a.data ++ R))).length < 4) := by
      simp only [List.length_append, l2]; omega
    have hnm : decodeText (a.name ++ nul2) = some t.name := by rw [hname]; exact decodeText_plain _ hsc htp.name
    have hv' : parseVal a.typ a.data true = some t.val := by rw [htyp]; exact parseVal_render htp.val hrender
    simp only [c1, ↓reduceIte, e1, e2, ofLE_toLE 2 _ (by rw [p2]; exact hn), e3, hnm, e4, c2, e5, e6, e7,
      ofLE_toLE 2 _ (by rw [p2]; exact ht), ofLE_toLE 2 _ (by rw [p2]; exact hd), e8, hv', e9, ih', Option.map_some, List.map_cons, readECD]

theorem parseECD_exact (ts : List Tag) (hp : ∀ t ∈ ts, t.Plain) (b : Bytes) (h : listPayload recECD ts = .ok b) :
    parseECD b = some (ts.map readECD) := by
  obtain ⟨data, hd, hl, rfl⟩ := listPayload_ok h
  unfold parseECD
  have l2 : (toLE 2 ts.length).length = 2 := length_toLE 2 _
  rw [if_neg (by simp [l2]), take_of_len _ _ 2 l2, drop_of_len _ _ 2 l2, ofLE_toLE 2 _ (by rw [p2]; exact hl)]
  have := parseECDRecs_exact ts hp data [] hd
  rwa [List.append_nil] at this

/-- what the Metadata (`lib = false`) / Metadata Library (`lib = true`) reader makes of a tag -/
def readML (lib : Bool) (t : Tag) : Tag :=
  { t with language := if lib then some (t.language.getD 0) else none, stream := some (t.stream.getD 0) }

/-- one round of the Metadata / Metadata Library parse loop on a rendered record, exactly -/
theorem parseMLRecs_step_exact (lib : Bool) (n : Nat) (a : Attr) (R : Bytes) (nm : List Nat) (v : Val) (rest : List Tag)
    (hlang : a.language < 65536) (hstream : a.stream < 65536) (hn : a.name.length + 2 < 65536) (ht : a.typ < 65536)
    (hd : a.data.length < 4294967296) (hname : decodeText (a.name ++ nul2) = some nm)
    (hv : parseVal a.typ a.data false = some v) (ih : parseMLRecs lib n R = some rest) :
    parseMLRecs lib (n + 1) (renderML a ++ R) =
      some ({ name := nm, val := v, language := if lib then some a.language else none, stream := some a.stream } :: rest) := by
  simp only [parseMLRecs]
  generalize hT : (a.name ++ nul2) ++ (a.data ++ R) = T
  have hshape : renderML a ++ R =
      toLE 2 a.language ++ (toLE 2 a.stream ++ (toLE 2 (a.name.length + 2) ++ (toLE 2 a.typ ++ (toLE 4 a.data.length ++ T)))) := by
    rw [← hT]; simp only [renderML, List.append_assoc]
  rw [hshape]
  have l2 : ∀ n, (toLE 2 n).length = 2 := fun n => length_toLE 2 n
  have l4 : ∀ n, (toLE 4 n).length = 4 := fun n => length_toLE 4 n
  have ln : (a.name ++ nul2).length = a.name.length + 2 := by simp [nul2]
  generalize hD : toLE 2 a.language ++ (toLE 2 a.stream ++ (toLE 2 (a.name.length + 2) ++ (toLE 2 a.typ ++ (toLE 4 a.data.length ++ T)))) = D
  have d2 : D.drop 2 = toLE 2 a.stream ++ (toLE 2 (a.name.length + 2) ++ (toLE 2 a.typ ++ (toLE 4 a.data.length ++ T))) := by
    rw [← hD]; exact drop_of_len _ _ 2 (l2 _)
  have d4 : D.drop 4 = toLE 2 (a.name.length + 2) ++ (toLE 2 a.typ ++ (toLE 4 a.data.length ++ T)) := by
    rw [show (4 : Nat) = 2 + 2 from rfl, ← List.drop_drop, d2]; exact drop_of_len _ _ 2 (l2 _)
  have d6 : D.drop 6 = toLE 2 a.typ ++ (toLE 4 a.data.length ++ T) := by
    rw [show (6 : Nat) = 4 + 2 from rfl, ← List.drop_drop, d4]; exact drop_of_len _ _ 2 (l2 _)
  have d8 : D.drop 8 = toLE 4 a.data.length ++ T := by
    rw [show (8 : Nat) = 6 + 2 from rfl, ← List.drop_drop, d6]; exact drop_of_len _ _ 2 (l2 _)
  have d12 : D.drop 12 = T := by
    rw [show (12 : Nat) = 8 + 4 from rfl, ← List.drop_drop, d8]; exact drop_of_len _ _ 4 (l4 _)
  have t0 : D.take 2 = toLE 2 a.language := by rw [← hD]; exact take_of_len _ _ 2 (l2 _)
  have t2 : (D.drop 2).take 2 = toLE 2 a.stream := by rw [d2]; exact take_of_len _ _ 2 (l2 _)
  have t4 : (D.drop 4).take 2 = toLE 2 (a.name.length + 2) := by rw [d4]; exact take_of_len _ _ 2 (l2 _)
  have t6 : (D.drop 6).take 2 = toLE 2 a.typ := by rw [d6]; exact take_of_len _ _ 2 (l2 _)
  have t8 : (D.drop 8).take 4 = toLE 4 a.data.length := by rw [d8]; exact take_of_len _ _ 4 (l4 _)
  have lD : D.length = 12 + T.length := by
    rw [← hD]; simp only [List.length_append, l2, l4]; omega
  have n1 : T.take (a.name.length + 2) = a.name ++ nul2 := by rw [← hT]; exact take_of_len _ _ _ ln
  have n2 : T.drop (a.name.length + 2) = a.data ++ R := by rw [← hT]; exact drop_of_len _ _ _ ln
  have v1 : (a.data ++ R).take a.data.length = a.data := take_of_len _ _ _ rfl
  have v2 : (a.data ++ R).drop a.data.length = R := drop_of_len _ _ _ rfl
  have c1 : ¬ (D.length < 12) := by omega
  simp only [c1, ↓reduceIte, t0, t2, t4, t6, t8, d12, ofLE_toLE 2 _ (by rw [p2]; exact hlang),
    ofLE_toLE 2 _ (by rw [p2]; exact hstream), ofLE_toLE 2 _ (by rw [p2]; exact hn), ofLE_toLE 2 _ (by rw [p2]; exact ht),
    ofLE_toLE 4 _ (by rw [p4]; exact hd), n1, hname, n2, v1, hv, v2, ih, Option.map_some]

theorem parseMLRecs_exact (lib : Bool) (rec : Tag → Except PyErr Bytes)
    (hrec : ∀ t b, rec t = .ok b → ∃ a, attrOf t false (if lib then t.language.getD 0 else 0) (t.stream.getD 0) = .ok a ∧
      a.language < 65536 ∧ a.stream < 65536 ∧ a.name.length + 2 < 65536 ∧ a.data.length < 4294967296 ∧ b = renderML a)
    (ts : List Tag) (hp : ∀ t ∈ ts, t.Plain) (b tail : Bytes) (h : concatMapE rec ts = .ok b) :
    parseMLRecs lib ts.length (b ++ tail) = some (ts.map (readML lib)) := by
  induction ts generalizing b with
  | nil => rfl
  | cons t r ih =>
    obtain ⟨b1, b2, h1, h2, rfl⟩ := concatMapE_cons_ok h
    obtain ⟨a, ha, hl, hs, hn, hd, rfl⟩ := hrec t b1 h1
    obtain ⟨hsc, hname, htyp, hrender, hlang, hstream⟩ := attrOf_exact ha
    have htp := hp t List.mem_cons_self
    rw [List.append_assoc, List.length_cons]
    rw [parseMLRecs_step_exact lib r.length a (b2 ++ tail) t.name t.val (r.map (readML lib)) hl hs hn
      (by rw [htyp]; exact typ_lt _) hd (by rw [hname]; exact decodeText_plain _ hsc htp.name)
      (by rw [htyp]; exact parseVal_render htp.val hrender) (ih (fun x hx => hp x (List.mem_cons_of_mem _ hx)) b2 h2)]
    simp only [List.map_cons, readML, hlang, hstream]
    cases lib <;> simp

theorem parseML_exact (lib : Bool) (rec : Tag → Except PyErr Bytes)
    (hrec : ∀ t b, rec t = .ok b → ∃ a, attrOf t false (if lib then t.language.getD 0 else 0) (t.stream.getD 0) = .ok a ∧
      a.language < 65536 ∧ a.stream < 65536 ∧ a.name.length + 2 < 65536 ∧ a.data.length < 4294967296 ∧ b = renderML a)
    (ts : List Tag) (hp : ∀ t ∈ ts, t.Plain) (b : Bytes) (h : listPayload rec ts = .ok b) :
    parseML lib b = some (ts.map (readML lib)) := by
  obtain ⟨data, hd, hl, rfl⟩ := listPayload_ok h
  unfold parseML
  have l2 : (toLE 2 ts.length).length = 2 := length_toLE 2 _
  rw [if_neg (by simp [l2]), take_of_len _ _ 2 l2, drop_of_len _ _ 2 l2, ofLE_toLE 2 _ (by rw [p2]; exact hl)]
  have := parseMLRecs_exact lib rec hrec ts hp data [] hd
  rwa [List.append_nil] at this

theorem parseM_exact (ts : List Tag) (hp : ∀ t ∈ ts, t.Plain) (b : Bytes) (h : listPayload recM ts = .ok b) :
    parseML false b = some (ts.map (readML false)) := by
  apply parseML_exact false recM _ ts hp b h
  intro t b hb
  obtain ⟨a, ha, h1, h2, h3, h4, h5⟩ := recM_ok hb
  exact ⟨a, ha, h1, h2, h3, h4, h5⟩

theorem parseMLib_exact (ts : List Tag) (hp : ∀ t ∈ ts, t.Plain) (b : Bytes) (h : listPayload recML ts = .ok b) :
    parseML true b = some (ts.map (readML true)) := by
  apply parseML_exact true recML _ ts hp b h
  intro t b hb
  obtain ⟨a, ha, h1, h2, h3, h4, h5⟩ := recML_ok hb
  exact ⟨a, ha, h1, h2, h3, h4, h5⟩

/-! #### the Content Description Object -/

/-- ContentDescriptionObject.parse on five rendered text fields: the loop over the five lengths decides -/
theorem parseCD_of_texts (ts : List Bytes) (h5 : ts.length = 5) (hall : ts.all (fun t => decide (t.length < 65536)) = true) :
    parseCD ((ts.map fun t => toLE 2 t.length).flatten ++ ts.flatten) =
      (parseCDTexts (ts.map List.length) ts.flatten).map fun texts =>
        (cdNames.zip texts).filterMap fun (n, t) =>
          t.map fun cs => { name := n, val := .unicode cs, language := none, stream := none } := by
  match ts, h5, hall with
  | [t1, t2, t3, t4, t5], _, hall =>
    simp only [List.all_cons, List.all_nil, Bool.and_true, Bool.and_eq_true, decide_eq_true_eq] at hall
    obtain ⟨a1, a2, a3, a4, a5⟩ := hall
    have l2 : ∀ n, (toLE 2 n).length = 2 := fun n => length_toLE 2 n
    have hshape : (([t1, t2, t3, t4, t5].map fun t => toLE 2 t.length).flatten ++ [t1, t2, t3, t4, t5].flatten) =
        toLE 2 t1.length ++ (toLE 2 t2.length ++ (toLE 2 t3.length ++ (toLE 2 t4.length ++ (toLE 2 t5.length ++
          ([t1, t2, t3, t4, t5].flatten))))) := by
      simp only [List.map_cons, List.map_nil, List.flatten_cons, List.flatten_nil, List.append_nil, List.append_assoc]
    rw [hshape]
    generalize hF : [t1, t2, t3, t4, t5].flatten = F
    generalize hD : toLE 2 t1.length ++ (toLE 2 t2.length ++ (toLE 2 t3.length ++ (toLE 2 t4.length ++ (toLE 2 t5.length ++ F)))) = D
    have d2 : D.drop 2 = toLE 2 t2.length ++ (toLE 2 t3.length ++ (toLE 2 t4.length ++ (toLE 2 t5.length ++ F))) := by
      rw [← hD]; exact drop_of_len _ _ 2 (l2 _)
    have d4 : D.drop 4 = toLE 2 t3.length ++ (toLE 2 t4.length ++ (toLE 2 t5.length ++ F)) := by
      rw [show (4 : Nat) = 2 + 2 from rfl, ← List.drop_drop, d2]; exact drop_of_len _ _ 2 (l2 _)
    have d6 : D.drop 6 = toLE 2 t4.length ++ (toLE 2 t5.length ++ F) := by
      rw [show (6 : Nat) = 4 + 2 from rfl, ← List.drop_drop, d4]; exact drop_of_len _ _ 2 (l2 _)
    have d8 : D.drop 8 = toLE 2 t5.length ++ F := by
      rw [show (8 : Nat) = 6 + 2 from rfl, ← List.drop_drop, d6]; exact drop_of_len _ _ 2 (l2 _)
    have d10 : D.drop 10 = F := by
      rw [show (10 : Nat) = 8 + 2 from rfl, ← List.drop_drop, d8]; exact drop_of_len _ _ 2 (l2 _)
    have t0 : D.take 2 = toLE 2 t1.length := by rw [← hD]; exact take_of_len _ _ 2 (l2 _)
    have t2' : (D.drop 2).take 2 = toLE 2 t2.length := by rw [d2]; exact take_of_len _ _ 2 (l2 _)
    have t4' : (D.drop 4).take 2 = toLE 2 t3.length := by rw [d4]; exact take_of_len _ _ 2 (l2 _)
    have t6' : (D.drop 6).take 2 = toLE 2 t4.length := by rw [d6]; exact take_of_len _ _ 2 (l2 _)
    have t8' : (D.drop 8).take 2 = toLE 2 t5.length := by rw [d8]; exact take_of_len _ _ 2 (l2 _)
    have lD : ¬ (D.length < 10) := by rw [← hD]; simp only [List.length_append, l2]; omega
    unfold parseCD
    rw [if_neg lD]
    have hr : List.range 5 = [0, 1, 2, 3, 4] := by decide
    have hlens : ((List.range 5).map fun i => ofLE ((D.drop (2 * i)).take 2)) =
        [t1, t2, t3, t4, t5].map List.length := by
      rw [hr]
      simp only [List.map_cons, List.map_nil, Nat.mul_zero, List.drop_zero, Nat.mul_one, t0, t2', t4', t6', t8',
        show 2 * 2 = 4 from rfl, show 2 * 3 = 6 from rfl, show 2 * 4 = 8 from rfl,
        ofLE_toLE 2 _ (by rw [p2]; exact a1), ofLE_toLE 2 _ (by rw [p2]; exact a2), ofLE_toLE 2 _ (by rw [p2]; exact a3),
        ofLE_toLE 2 _ (by rw [p2]; exact a4), ofLE_toLE 2 _ (by rw [p2]; exact a5)]
    simp only [hlens, d10]
    rw [← hF]
    cases parseCDTexts ([t1, t2, t3, t4, t5].map List.length) [t1, t2, t3, t4, t5].flatten <;> rfl

/-- the text of a Content Description value -/
def textOf (t : Tag) : List Nat := match t.val with | .unicode cs => cs | _ => []

/-- the bytes ContentDescriptionObject.render writes for the field `n` -/
def textBytes (d : Dist) (n : List Nat) : Bytes :=
  match d.cd.find? (fun t => t.name == n) with
  | none => []
  | some t => encodeUtf16 (textOf t) ++ nul2

/-- the Content Description list as `distribute` builds it: text values, plain, without language / stream -/
def CdOK (d : Dist) : Prop := ∀ t ∈ d.cd, t.val.typ = 0 ∧ t.Plain ∧ t.language = none ∧ t.stream = none

theorem val_of_typ0 {t : Tag} (h : t.val.typ = 0) : t.val = .unicode (textOf t) := by
  unfold textOf
  cases hv : t.val with
  | unicode cs => rfl
  | bytes b => rw [hv] at h; simp [Val.typ] at h
  | bool x => rw [hv] at h; simp [Val.typ] at h
  | dword n => rw [hv] at h; simp [Val.typ] at h
  | qword n => rw [hv] at h; simp [Val.typ] at h
  | word n => rw [hv] at h; simp [Val.typ] at h
  | guid b => rw [hv] at h; simp [Val.typ] at h

theorem text_plain {t : Tag} (h0 : t.val.typ = 0) (hp : t.Plain) : (textOf t).all isScalar = true ∧ ∀ c ∈ textOf t, c ≠ 0 := by
  have hv := val_of_typ0 h0
  have he := hp.enc.2
  have hz := hp.val
  rw [hv] at he hz
  exact ⟨he, hz⟩

theorem cdText_eq {d : Dist} (hcd : CdOK d) (n : List Nat) : cdText d n = .ok (textBytes d n) := by
  unfold cdText textBytes
  cases hf : d.cd.find? (fun t => t.name == n) with
  | none => rfl
  | some t =>
    have hmem : t ∈ d.cd := List.mem_of_find?_eq_some hf
    obtain ⟨h0, hp, _, _⟩ := hcd t hmem
    simp only [val_of_typ0 h0, encodeStr_of_scalar (text_plain h0 hp).1]

theorem cdTexts_eq {d : Dist} (hcd : CdOK d) (ns : List (List Nat)) : cdTexts d ns = .ok (ns.map (textBytes d)) := by
  induction ns with
  | nil => rfl
  | cons n r ih => simp only [cdTexts, cdText_eq hcd n, ih, List.map_cons]

theorem parseCDTexts_exact {d : Dist} (hcd : CdOK d) (ns : List (List Nat)) (tail : Bytes) :
    parseCDTexts ((ns.map (textBytes d)).map List.length) ((ns.map (textBytes d)).flatten ++ tail) =
      some (ns.map fun n => (d.cd.find? (fun t => t.name == n)).map textOf) := by
  induction ns with
  | nil => rfl
  | cons n r ih =>
    simp only [List.map_cons, List.flatten_cons, List.append_assoc]
    cases hf : d.cd.find? (fun t => t.name == n) with
    | none =>
      have hb : textBytes d n = [] := by unfold textBytes; rw [hf]
      simp only [hb, List.length_nil, parseCDTexts, Nat.lt_irrefl, gt_iff_lt, ↓reduceIte, List.nil_append, ih, Option.map_some, Option.map_none]
    | some t =>
      have hmem : t ∈ d.cd := List.mem_of_find?_eq_some hf
      obtain ⟨h0, hp, _, _⟩ := hcd t hmem
      have hb : textBytes d n = encodeUtf16 (textOf t) ++ nul2 := by unfold textBytes; rw [hf]
      have hpos : (textBytes d n).length > 0 := by rw [hb]; simp [nul2]
      have hdec : decodeText (textBytes d n) = some (textOf t) := by
        rw [hb]; exact decodeText_plain _ (text_plain h0 hp).1 (text_plain h0 hp).2
      simp only [parseCDTexts, hpos, ↓reduceIte, take_of_len _ _ _ rfl, hdec, drop_of_len _ _ _ rfl, ih, Option.map_some]

theorem zip_filterMap {α β γ : Type} (ns : List α) (g : α → Option β) (mk : α → β → γ) :
    (ns.zip (ns.map g)).filterMap (fun (p : α × Option β) => p.2.map (mk p.1)) = ns.filterMap fun n => (g n).map (mk n) := by
  induction ns with
  | nil => rfl
  | cons n r ih => simp only [List.map_cons, List.zip_cons_cons, List.filterMap_cons, ih]

/-- ContentDescriptionObject.parse on what ContentDescriptionObject.render wrote: the values, in the
order of the five fields -/
theorem parseCD_exact {d : Dist} (hcd : CdOK d) {b : Bytes} (h : cdPayload d = .ok b) : parseCD b = some (cdSorted d.cd) := by
  unfold cdPayload at h
  rw [cdTexts_eq hcd cdNames] at h
  simp only [] at h
  split at h
  · rename_i hall
    cases h
    rw [parseCD_of_texts _ (by simp [cdNames]) hall]
    have := parseCDTexts_exact hcd cdNames []
    rw [List.append_nil] at this
    rw [this]
    simp only [Option.map_some]
    congr 1
    rw [zip_filterMap cdNames (fun n => (d.cd.find? (fun t => t.name == n)).map textOf)
      (fun n cs => ({ name := n, val := .unicode cs, language := none, stream := none } : Tag))]
    unfold cdSorted
    have hfun : (fun n => ((d.cd.find? (fun t => t.name == n)).map textOf).map
        (fun cs => ({ name := n, val := .unicode cs, language := none, stream := none } : Tag))) =
        fun n => d.cd.find? (fun t => t.name == n) := by
      funext n
      cases hf : d.cd.find? (fun t => t.name == n) with
      | none => rfl
      | some t =>
        have hmem : t ∈ d.cd := List.mem_of_find?_eq_some hf
        obtain ⟨h0, _, hl, hs⟩ := hcd t hmem
        have hn : t.name = n := by simpa using List.find?_some hf
        simp only [Option.map_some]
        congr 1
        cases t with
        | mk name val language stream =>
          simp only at hn hl hs h0
          subst hn; subst hl; subst hs
          have := val_of_typ0 (t := ⟨name, val, none, none⟩) h0
          simp only at this
          rw [this]
          rfl
    rw [hfun]
  · cases h

/-! ### what the saved file loads with -/

/-- a metadata object with the payload `save` wrote, or an object that is not one -/
def Leaf.Has (P : Payloads) : Leaf → Prop
  | .raw _ _ => True
  | .cd d => d = P.cd
  | .ecd d => d = P.ecd
  | .mo d => d = P.mo
  | .metaLib d => d = P.ml

theorem leaves_kept_has (P : Payloads) (items : List Item) : ∀ l ∈ leaves ((items.map (Item.re P)).map Item.toObj), l.Has P := by
  induction items with
  | nil => intro l hl; cases hl
  | cons i r ih =>
    intro l hl
    cases i with
    | foreign o =>
      simp only [List.map_cons, Item.re, Item.toObj, leaves, List.mem_cons] at hl
      rcases hl with rfl | hl
      · trivial
      · exact ih l hl
    | pad x =>
      simp only [List.map_cons, Item.re, Item.toObj, leaves, List.mem_cons] at hl
      rcases hl with rfl | hl
      · trivial
      · exact ih l hl
    | cd x =>
      simp only [List.map_cons, Item.re, Item.toObj, leaves, List.mem_cons] at hl
      rcases hl with rfl | hl
      · rfl
      · exact ih l hl
    | ecd x =>
      simp only [List.map_cons, Item.re, Item.toObj, leaves, List.mem_cons] at hl
      rcases hl with rfl | hl
      · rfl
      · exact ih l hl
    | ext subs =>
      simp only [List.map_cons, Item.re, Item.toObj, leaves, List.mem_append] at hl
      rcases hl with hl | hl
      · simp only [subsRe, List.mem_map] at hl
        obtain ⟨s, ⟨s0, _, rfl⟩, rfl⟩ := hl
        cases s0 <;> first | trivial | rfl
      · exact ih l hl

theorem leaves_patch_has (P : Payloads) (t : Nat) (items : List Item) (h : ∀ l ∈ leaves (items.map Item.toObj), l.Has P) :
    ∀ l ∈ leaves ((patchFP t items).map Item.toObj), l.Has P := by
  induction items with
  | nil => intro l hl; cases hl
  | cons i r ih =>
    by_cases hi : i.isFP = true
    · cases i with
      | foreign o =>
        intro l hl
        simp only [patchFP, hi, ↓reduceIte, Item.setFileSize, List.map_cons, Item.toObj, leaves, List.mem_cons] at hl
        rcases hl with rfl | hl
        · trivial
        · exact h l (by simp only [List.map_cons, Item.toObj, leaves, List.mem_cons]; exact Or.inr hl)
      | cd d => rw [cd_not_FP] at hi; cases hi
      | ecd d => rw [ecd_not_FP] at hi; cases hi
      | pad d => rw [pad_not_FP] at hi; cases hi
      | ext s => rw [ext_not_FP] at hi; cases hi
    · have hi' : i.isFP = false := by simpa using hi
      simp only [patchFP, hi', Bool.false_eq_true, ↓reduceIte]
      have hsplit : ∀ (x : Item) (xs : List Item), leaves ((x :: xs).map Item.toObj) = leaves [x.toObj] ++ leaves (xs.map Item.toObj) := by
        intro x xs
        rw [List.map_cons, show x.toObj :: xs.map Item.toObj = [x.toObj] ++ xs.map Item.toObj from rfl, leaves_append]
      intro l hl
      rw [hsplit] at hl
      rcases List.mem_append.mp hl with hl | hl
      · exact h l (by rw [hsplit]; exact List.mem_append.mpr (Or.inl hl))
      · exact ih (fun x hx => h x (by rw [hsplit]; exact List.mem_append.mpr (Or.inr hx))) l hl


theorem after_leaves_has (L : Layout) (P : Payloads) (p : Nat) : ∀ l ∈ leaves ((L.after P p).top.map Item.toObj), l.Has P := by
  apply leaves_patch_has
  intro l hl
  simp only [List.map_append, leaves_append, List.mem_append] at hl
  rcases hl with hl | hl
  · exact leaves_kept_has P _ l hl
  · simp only [List.map_cons, List.map_nil, Item.toObj, leaves, List.mem_cons, List.not_mem_nil, or_false] at hl
    subst hl; trivial

def Leaf.kind : Leaf → Nat
  | .raw _ _ => 0 | .cd _ => 1 | .ecd _ => 2 | .mo _ => 3 | .metaLib _ => 4

/-- the header holds exactly one Content Description, Extended Content Description, Metadata and
Metadata Library Object -/
def OneOfEach (objs : List Obj) : Prop :=
  ∀ k ∈ [1, 2, 3, 4], ((leaves objs).filter fun l => l.kind == k).length = 1

instance (objs : List Obj) : Decidable (OneOfEach objs) := by unfold OneOfEach; infer_instance

theorem flatten_kind (k : Nat) (g : Leaf → List Tag) (A : List Tag) (ls : List Leaf)
    (h : ∀ l ∈ ls, g l = if l.kind == k then A else []) :
    (ls.map g).flatten = (List.replicate (ls.filter fun l => l.kind == k).length A).flatten := by
  induction ls with
  | nil => rfl
  | cons l r ih =>
    have ih' := ih (fun x hx => h x (List.mem_cons_of_mem _ hx))
    have hl := h l List.mem_cons_self
    by_cases hk : (l.kind == k) = true
    · simp only [List.map_cons, List.flatten_cons, hl, hk, ↓reduceIte, List.filter_cons, List.length_cons, List.replicate_succ, ih']
    · have hk' : (l.kind == k) = false := by simpa using hk
      simp only [List.map_cons, List.flatten_cons, hl, hk', Bool.false_eq_true, ↓reduceIte, List.filter_cons, List.nil_append, ih']

theorem flatten_one (A : List Tag) : (List.replicate 1 A).flatten = A := by simp

/-- the tags of a tree whose metadata objects — one of each — carry the payloads `P` -/
theorem loadedTags_of_has (P : Payloads) (objs : List Obj) (hh : ∀ l ∈ leaves objs, l.Has P) (h1 : OneOfEach objs) :
    loadedTags objs = (parseCD P.cd).getD [] ++ (parseECD P.ecd).getD [] ++ (parseML false P.mo).getD [] ++ (parseML true P.ml).getD [] := by
  unfold loadedTags
  simp only []
  rw [flatten_kind 1 _ ((parseCD P.cd).getD []) (leaves objs), flatten_kind 2 _ ((parseECD P.ecd).getD []) (leaves objs),
    flatten_kind 3 _ ((parseML false P.mo).getD []) (leaves objs), flatten_kind 4 _ ((parseML true P.ml).getD []) (leaves objs),
    h1 1 (by simp), h1 2 (by simp), h1 3 (by simp), h1 4 (by simp)]
  · simp only [flatten_one]
  · intro l hl
    have := hh l hl
    cases l with
    | metaLib d => simp only [Leaf.Has] at this; subst this; rfl
    | raw g d => rfl
    | cd d => rfl
    | ecd d => rfl
    | mo d => rfl
  · intro l hl
    have := hh l hl
    cases l with
    | mo d => simp only [Leaf.Has] at this; subst this; rfl
    | raw g d => rfl
    | cd d => rfl
    | ecd d => rfl
    | metaLib d => rfl
  · intro l hl
    have := hh l hl
    cases l with
    | ecd d => simp only [Leaf.Has] at this; subst this; rfl
    | raw g d => rfl
    | cd d => rfl
    | mo d => rfl
    | metaLib d => rfl
  · intro l hl
    have := hh l hl
    cases l with
    | cd d => simp only [Leaf.Has] at this; subst this; rfl
    | raw g d => rfl
    | ecd d => rfl
    | mo d => rfl
    | metaLib d => rfl

/-- the four target lists of plain tags: what `distribute` guarantees, and plainness -/
theorem distPure_cdOK (tags : List Tag) (hp : ∀ t ∈ tags, t.Plain) : CdOK (distPure tags) := by
  have inv := distInv_distPure tags
  intro t ht
  have hf := inv.fitsCD t ht
  exact ⟨hf.2.1, hp t (inv.subCD.subset ht), hf.2.2.2.1, hf.2.2.2.2⟩

theorem readECD_id (tags : List Tag) : (distPure tags).ecd.map readECD = (distPure tags).ecd := by
  have inv := distInv_distPure tags
  conv => rhs; rw [← List.map_id (distPure tags).ecd]
  apply List.map_congr_left
  intro t ht
  have hf := (inv.fitsECD t ht).1
  cases t with
  | mk n v l s =>
    have hl : l = none := hf.2.2.1
    have hs : s = none := hf.2.2.2
    subst hl; subst hs; rfl

theorem readM_id (tags : List Tag) : (distPure tags).mo.map (readML false) = (distPure tags).mo := by
  have inv := distInv_distPure tags
  conv => rhs; rw [← List.map_id (distPure tags).mo]
  apply List.map_congr_left
  intro t ht
  have hf := inv.fitsM t ht
  cases t with
  | mk n v l s =>
    have hl : l = none := hf.1.2.2
    subst hl
    cases s with
    | none => exact absurd rfl hf.2
    | some x => rfl

theorem readMLib_eq (ts : List Tag) : ts.map (readML true) = ts.map dflt := by
  apply List.map_congr_left
  intro t _; rfl

/-- THE read-back theorem at the level of payloads: with plain tags, mutagen's four parsers read the
payloads `save` rendered back as the canonical form -/
theorem parse_payloads (tags : List Tag) (hp : ∀ t ∈ tags, t.Plain) (P : Payloads) (hP : Renders (distPure tags) P) :
    (parseCD P.cd).getD [] ++ (parseECD P.ecd).getD [] ++ (parseML false P.mo).getD [] ++ (parseML true P.ml).getD [] =
      canonical tags := by
  have inv := distInv_distPure tags
  rw [parseCD_exact (distPure_cdOK tags hp) hP.cd,
    parseECD_exact _ (fun t ht => hp t (inv.subECD.subset ht)) _ hP.ecd,
    parseM_exact _ (fun t ht => hp t (inv.subM.subset ht)) _ hP.mo,
    parseMLib_exact _ (fun t ht => hp t (inv.subML.subset ht)) _ hP.ml]
  simp only [Option.getD_some, readECD_id, readM_id, readMLib_eq]
  rfl

/-! ### the canonical form is a fixed point of the decision logic -/

/-- looking a name up in a list built by looking names up -/
theorem find_filterMap (cd : List Tag) (ns : List (List Nat)) (hnd : ns.Nodup) (n : List Nat) (hn : n ∈ ns) :
    (ns.filterMap fun m => cd.find? (fun t => t.name == m)).find? (fun t => t.name == n) = cd.find? (fun t => t.name == n) := by
  induction ns with
  | nil => cases hn
  | cons m r ih =>
    have hnd' := (List.nodup_cons.mp hnd)
    by_cases hmn : m = n
    · subst hmn
      cases hf : cd.find? (fun t => t.name == m) with
      | some t =>
        have hname : t.name = m := by simpa using List.find?_some hf
        simp only [List.filterMap_cons, hf, List.find?_cons, hname, beq_self_eq_true]
      | none =>
        simp only [List.filterMap_cons, hf]
        apply List.find?_eq_none.mpr
        intro t ht
        simp only [List.mem_filterMap] at ht
        obtain ⟨k, hk, hfk⟩ := ht
        intro hc
        have e1 : t.name = k := by simpa using List.find?_some hfk
        have e2 : t.name = m := by simpa using hc
        exact hnd'.1 (by rw [← e2, e1]; exact hk)
    · have hn' : n ∈ r := by
        rcases List.mem_cons.mp hn with h | h
        · exact absurd h.symm hmn
        · exact h
      cases hf : cd.find? (fun t => t.name == m) with
      | some t =>
        have hname : t.name = m := by simpa using List.find?_some hf
        have hne : (t.name == n) = false := by rw [hname]; simpa using hmn
        simp only [List.filterMap_cons, hf, List.find?_cons, hne]
        exact ih hnd'.2 hn'
      | none =>
        simp only [List.filterMap_cons, hf]
        exact ih hnd'.2 hn'

theorem cdNames_nodup : cdNames.Nodup := by decide

theorem find_cdSorted (cd : List Tag) (n : List Nat) (hn : n ∈ cdNames) :
    (cdSorted cd).find? (fun t => t.name == n) = cd.find? (fun t => t.name == n) :=
  find_filterMap cd cdNames cdNames_nodup n hn

theorem filterMap_congr' {α β : Type} (f g : α → Option β) (l : List α) (h : ∀ x ∈ l, f x = g x) : l.filterMap f = l.filterMap g := by
  induction l with
  | nil => rfl
  | cons x r ih =>
    simp only [List.filterMap_cons, h x List.mem_cons_self, ih (fun y hy => h y (List.mem_cons_of_mem _ hy))]

theorem cdSorted_idem (cd : List Tag) : cdSorted (cdSorted cd) = cdSorted cd :=
  filterMap_congr' _ _ cdNames (fun n hn => find_cdSorted cd n hn)

theorem mem_cdSorted {cd : List Tag} {t : Tag} (h : t ∈ cdSorted cd) : t ∈ cd ∧ t.name ∈ cdNames := by
  simp only [cdSorted, List.mem_filterMap] at h
  obtain ⟨n, hn, hf⟩ := h
  have e : t.name = n := by simpa using List.find?_some hf
  exact ⟨List.mem_of_find?_eq_some hf, e ▸ hn⟩

theorem names_cdSorted_nodup (cd : List Tag) : (names (cdSorted cd)).Nodup := by
  unfold names cdSorted
  have key : ∀ ns : List (List Nat), ns.Nodup → ((ns.filterMap fun n => cd.find? (fun t => t.name == n)).map Tag.name).Nodup ∧
      ∀ x ∈ (ns.filterMap fun n => cd.find? (fun t => t.name == n)).map Tag.name, x ∈ ns := by
    intro ns
    induction ns with
    | nil => intro _; exact ⟨List.nodup_nil, fun x hx => by cases hx⟩
    | cons m r ih =>
      intro hnd
      have hnd' := List.nodup_cons.mp hnd
      obtain ⟨h1, h2⟩ := ih hnd'.2
      cases hf : cd.find? (fun t => t.name == m) with
      | none =>
        simp only [List.filterMap_cons, hf]
        exact ⟨h1, fun x hx => List.mem_cons_of_mem _ (h2 x hx)⟩
      | some t =>
        have hname : t.name = m := by simpa using List.find?_some hf
        simp only [List.filterMap_cons, hf, List.map_cons, hname]
        refine ⟨List.nodup_cons.mpr ⟨fun hc => hnd'.1 (h2 m hc), h1⟩, ?_⟩
        intro x hx
        rcases List.mem_cons.mp hx with rfl | hx
        · exact List.mem_cons_self
        · exact List.mem_cons_of_mem _ (h2 x hx)
  exact (key cdNames cdNames_nodup).1

/-! one round of the loop when the target is known -/

theorem distStep_cd (D : Dist) (t : Tag) (hf : FitsCD t) (hn : hasName t.name D.cd = false) :
    distStep D t = { D with cd := D.cd ++ [t] } := by
  obtain ⟨h1, h2, h3, h4, h5⟩ := hf
  have c1 : (decide (t.val.dataSize > 0xFFFF) || t.val.typ == 6 || t.language.isSome) = false := by
    rw [h4, h2]; simp; omega
  have c2 : t.stream.isSome = false := by rw [h5]; rfl
  have c3 : cdNames.contains t.name = true := by simpa using h1
  have c4 : (t.val.typ == 0) = true := by rw [h2]; rfl
  unfold distStep
  simp only [c1, c2, c3, c4, hn, Bool.false_eq_true, ↓reduceIte, Bool.not_false, Bool.and_self]

theorem distStep_ecd (D : Dist) (t : Tag) (hf : FitsECD t) (hcd : t.name ∉ cdNames) (hn : hasName t.name D.ecd = false) :
    distStep D t = { D with ecd := D.ecd ++ [t] } := by
  obtain ⟨h1, h2, h4, h5⟩ := hf
  have c1 : (decide (t.val.dataSize > 0xFFFF) || t.val.typ == 6 || t.language.isSome) = false := by
    rw [h4]; simp; exact ⟨by omega, h2⟩
  have c2 : t.stream.isSome = false := by rw [h5]; rfl
  have c3 : cdNames.contains t.name = false := by simpa using hcd
  unfold distStep
  simp only [c1, c2, c3, hn, Bool.false_eq_true, ↓reduceIte, Bool.not_false]

theorem distStep_mo (D : Dist) (t : Tag) (hf : FitsM t) (hs : t.stream ≠ none) (hn : hasName t.name D.mo = false) :
    distStep D t = { D with mo := D.mo ++ [t] } := by
  obtain ⟨h1, h2, h4⟩ := hf
  have c1 : (decide (t.val.dataSize > 0xFFFF) || t.val.typ == 6 || t.language.isSome) = false := by
    rw [h4]; simp; exact ⟨by omega, h2⟩
  have c2 : t.stream.isSome = true := by
    cases h : t.stream with
    | none => exact absurd h hs
    | some x => rfl
  unfold distStep
  simp only [c1, c2, hn, Bool.false_eq_true, ↓reduceIte, Bool.not_false]

theorem distStep_ml (D : Dist) (t : Tag) : distStep D (dflt t) = { D with ml := D.ml ++ [dflt t] } := by
  unfold distStep
  have : (dflt t).language.isSome = true := rfl
  simp only [this, Bool.or_true, ↓reduceIte]

theorem hasName_false_iff (n : List Nat) (l : List Tag) : hasName n l = false ↔ n ∉ names l := by
  rw [← hasName_iff]; simp

theorem names_append (a b : List Tag) : names (a ++ b) = names a ++ names b := by simp [names]

theorem foldl_cd (seg : List Tag) (D : Dist) (hf : ∀ t ∈ seg, FitsCD t) (hnd : (names (D.cd ++ seg)).Nodup) :
    seg.foldl distStep D = { D with cd := D.cd ++ seg } := by
  induction seg generalizing D with
  | nil => simp
  | cons t r ih =>
    have hn : hasName t.name D.cd = false := by
      rw [hasName_false_iff]
      intro hc
      rw [names_append] at hnd
      have := (List.nodup_append.mp hnd).2.2 t.name hc t.name (by simp [names])
      exact this rfl
    rw [List.foldl_cons, distStep_cd D t (hf t List.mem_cons_self) hn,
      ih _ (fun x hx => hf x (List.mem_cons_of_mem _ hx)) (by simpa [List.append_assoc] using hnd)]
    simp [List.append_assoc]

theorem foldl_ecd (seg : List Tag) (D : Dist) (hf : ∀ t ∈ seg, FitsECD t ∧ t.name ∉ cdNames) (hnd : (names (D.ecd ++ seg)).Nodup) :
    seg.foldl distStep D = { D with ecd := D.ecd ++ seg } := by
  induction seg generalizing D with
  | nil => simp
  | cons t r ih =>
    have hn : hasName t.name D.ecd = false := by
      rw [hasName_false_iff]
      intro hc
      rw [names_append] at hnd
      exact (List.nodup_append.mp hnd).2.2 t.name hc t.name (by simp [names]) rfl
    rw [List.foldl_cons, distStep_ecd D t (hf t List.mem_cons_self).1 (hf t List.mem_cons_self).2 hn,
      ih _ (fun x hx => hf x (List.mem_cons_of_mem _ hx)) (by simpa [List.append_assoc] using hnd)]
    simp [List.append_assoc]

theorem foldl_mo (seg : List Tag) (D : Dist) (hf : ∀ t ∈ seg, FitsM t ∧ t.stream ≠ none) (hnd : (names (D.mo ++ seg)).Nodup) :
    seg.foldl distStep D = { D with mo := D.mo ++ seg } := by
  induction seg generalizing D with
  | nil => simp
  | cons t r ih =>
    have hn : hasName t.name D.mo = false := by
      rw [hasName_false_iff]
      intro hc
      rw [names_append] at hnd
      exact (List.nodup_append.mp hnd).2.2 t.name hc t.name (by simp [names]) rfl
    rw [List.foldl_cons, distStep_mo D t (hf t List.mem_cons_self).1 (hf t List.mem_cons_self).2 hn,
      ih _ (fun x hx => hf x (List.mem_cons_of_mem _ hx)) (by simpa [List.append_assoc] using hnd)]
    simp [List.append_assoc]

theorem foldl_ml (seg : List Tag) (D : Dist) : (seg.map dflt).foldl distStep D = { D with ml := D.ml ++ seg.map dflt } := by
  induction seg generalizing D with
  | nil => simp
  | cons t r ih =>
    rw [List.map_cons, List.foldl_cons, distStep_ml, ih]
    simp [List.append_assoc]

/-- distributing the canonical form again: every value goes where it was -/
theorem distPure_canonical (tags : List Tag) :
    distPure (canonical tags) =
      ⟨cdSorted (distPure tags).cd, (distPure tags).ecd, (distPure tags).mo, (distPure tags).ml.map dflt⟩ := by
  have inv := distInv_distPure tags
  unfold canonical
  generalize distPure tags = d at inv
  unfold distPure
  rw [List.foldl_append, List.foldl_append, List.foldl_append]
  rw [foldl_cd (cdSorted d.cd) Dist.empty (fun t ht => inv.fitsCD t (mem_cdSorted ht).1) (by simpa [Dist.empty] using names_cdSorted_nodup d.cd)]
  rw [foldl_ecd d.ecd _ inv.fitsECD (by simpa [Dist.empty] using inv.nodupECD)]
  rw [foldl_mo d.mo _ inv.fitsM (by simpa [Dist.empty] using inv.nodupM)]
  rw [foldl_ml]
  simp [Dist.empty]

theorem dflt_dflt (t : Tag) : dflt (dflt t) = dflt t := rfl

/-- the canonical form is canonical -/
theorem canonical_idem (tags : List Tag) : canonical (canonical tags) = canonical tags := by
  have h := distPure_canonical tags
  unfold canonical at h ⊢
  rw [h]
  simp only [cdSorted_idem, List.map_map]
  rfl

/-! ### saving the loaded tags again -/

theorem cdText_sorted (d : Dist) (cd' : List Tag) (n : List Nat)
    (h : cd'.find? (fun t => t.name == n) = d.cd.find? (fun t => t.name == n)) (e m l : List Tag) :
    cdText ⟨cd', e, m, l⟩ n = cdText d n := by
  unfold cdText
  simp only [h]

theorem cdTexts_sorted (d : Dist) (e m l : List Tag) (ns : List (List Nat)) (hns : ∀ n ∈ ns, n ∈ cdNames) :
    cdTexts ⟨cdSorted d.cd, e, m, l⟩ ns = cdTexts d ns := by
  induction ns with
  | nil => rfl
  | cons n r ih =>
    simp only [cdTexts, cdText_sorted d (cdSorted d.cd) n (find_cdSorted d.cd n (hns n List.mem_cons_self)) e m l,
      ih (fun x hx => hns x (List.mem_cons_of_mem _ hx))]

theorem recML_dflt (t : Tag) : recML (dflt t) = recML t := by
  unfold recML attrOf dflt
  cases t with
  | mk n v l s => cases l <;> cases s <;> rfl

theorem concatMapE_map {α β : Type} (f : β → Except PyErr Bytes) (g : α → β) (l : List α) :
    concatMapE f (l.map g) = concatMapE (fun x => f (g x)) l := by
  induction l with
  | nil => rfl
  | cons x r ih => simp only [List.map_cons, concatMapE, ih]

/-- the canonical form renders to the same four payloads -/
theorem renders_canonical (tags : List Tag) (P : Payloads) (hP : Renders (distPure tags) P) : Renders (distPure (canonical tags)) P := by
  rw [distPure_canonical]
  refine ⟨?_, hP.ecd, hP.mo, ?_⟩
  · have := hP.cd
    unfold cdPayload at this ⊢
    rw [cdTexts_sorted (distPure tags) _ _ _ cdNames (fun n hn => hn)]
    exact this
  · have := hP.ml
    unfold listPayload at this ⊢
    simp only [List.length_map]
    rw [concatMapE_map]
    simp only [recML_dflt]
    exact this

theorem mem_canonical {tags : List Tag} {t : Tag} (h : t ∈ canonical tags) : t ∈ tags ∨ ∃ x ∈ tags, t = dflt x := by
  have inv := distInv_distPure tags
  simp only [canonical, List.mem_append, List.mem_map] at h
  rcases h with ((h | h) | h) | ⟨x, hx, rfl⟩
  · exact Or.inl (inv.subCD.subset (mem_cdSorted h).1)
  · exact Or.inl (inv.subECD.subset h)
  · exact Or.inl (inv.subM.subset h)
  · exact Or.inr ⟨x, inv.subML.subset hx, rfl⟩

theorem canonical_enc (tags : List Tag) (h : ∀ t ∈ tags, t.Enc) : ∀ t ∈ canonical tags, t.Enc := by
  intro t ht
  rcases mem_canonical ht with h1 | ⟨x, hx, rfl⟩
  · exact h t h1
  · exact h x hx

/-- what the saved file loads with: THE read-back theorem -/
theorem loaded_after_save (L : Layout) (h : L.OK) (tags : List Tag) (hp : ∀ t ∈ tags, t.Plain) (P : Payloads)
    (hP : Renders (distPure tags) P) (p : Nat) (hf : L.Fits P p) (h1 : OneOfEach ((L.after P p).top.map Item.toObj)) :
    parseFull (L.after P p).render = .ok ((L.after P p).top.map Item.toObj) ∧
      loadedTags ((L.after P p).top.map Item.toObj) = canonical tags := by
  refine ⟨parseFull_layout _ (after_OK' L h P (renders_parses _ P hP) p hf), ?_⟩
  rw [loadedTags_of_has P _ (after_leaves_has L P p) h1]
  exact parse_payloads tags hp P hP

/-- loading the saved file and saving what was loaded (default padding) leaves it byte-identical -/
theorem resave_after_save (L : Layout) (h : L.OK) (tags : List Tag) (hp : ∀ t ∈ tags, t.Plain) (P : Payloads)
    (hP : Renders (distPure tags) P) (hf : L.Fits P (newPadding L P .default))
    (h1 : OneOfEach ((L.after P (newPadding L P .default)).top.map Item.toObj)) :
    resave (L.after P (newPadding L P .default)).render .default = .ok (L.after P (newPadding L P .default)).render := by
  obtain ⟨hload, htags⟩ := loaded_after_save L h tags hp P hP _ hf h1
  rw [resave_eq_save hload, htags]
  have hok := after_OK' L h P (renders_parses _ P hP) _ hf
  have henc := canonical_enc tags (fun t ht => (hp t ht).enc)
  have hnp : newPadding (L.after P (newPadding L P .default)) P .default = newPadding L P .default := by
    rw [newPadding_after L h]; exact default_again _ _
  have := (save_layout (L.after P (newPadding L P .default)) hok (canonical tags) _ (distribute_of_enc _ henc) P
    (renders_canonical tags P hP) .default (by rw [hnp]; exact Layout.Fits.after h hf)).2
  rw [this, hnp, after_after L h]

/-! ### the strict specification decoders on the written payloads -/

/-- GUID values have 16 bytes (the specification's size for that type; mutagen writes any length) -/
def Tag.GuidOK (t : Tag) : Prop := match t.val with | .guid b => b.length = 16 | _ => True

instance (t : Tag) : Decidable t.GuidOK := by unfold Tag.GuidOK; split <;> infer_instance

theorem sizeOK_render {t : Tag} (hg : t.GuidOK) {dw : Bool} {data : Bytes} (h : t.val.render dw = .ok data) :
    sizeOK t.val.typ data.length (if dw then 4 else 2) = true := by
  unfold Tag.GuidOK at hg
  cases hv : t.val with
  | unicode cs =>
    rw [hv] at h
    simp only [Val.render] at h
    split at h <;> cases h
    simp [Val.typ, sizeOK]
  | bytes b => rw [hv] at h; cases h; simp [Val.typ, sizeOK]
  | guid b => rw [hv] at h hg; cases h; simp only [] at hg; simp [Val.typ, sizeOK, hg]
  | bool x => rw [hv] at h; cases h; cases dw <;> simp [Val.typ, sizeOK, renderBool]
  | dword n => rw [hv] at h; simp only [Val.render] at h; split at h <;> cases h; simp [Val.typ, sizeOK]
  | qword n => rw [hv] at h; simp only [Val.render] at h; split at h <;> cases h; simp [Val.typ, sizeOK]
  | word n => rw [hv] at h; simp only [Val.render] at h; split at h <;> cases h; simp [Val.typ, sizeOK]

/-- the rendered Extended Content Description descriptors are the records of the tags, and specification-conformant -/
theorem recs_ecd (ts : List Tag) (hg : ∀ t ∈ ts, t.GuidOK) {data : Bytes} (h : concatMapE recECD ts = .ok data) :
    ∃ as : List Attr, ts.map (fun t => attrOf t true 0 0) = as.map Except.ok ∧ data = (as.map renderECD).flatten ∧ ∀ a ∈ as, ECDOK a := by
  induction ts generalizing data with
  | nil => simp only [concatMapE] at h; cases h; exact ⟨[], rfl, rfl, fun a ha => by cases ha⟩
  | cons t r ih =>
    obtain ⟨b1, b2, h1, h2, rfl⟩ := concatMapE_cons_ok h
    obtain ⟨a, ha, hn, hd, rfl⟩ := recECD_ok h1
    obtain ⟨as, hfa, rfl, hok⟩ := ih (fun x hx => hg x (List.mem_cons_of_mem _ hx)) h2
    obtain ⟨_, _, htyp, hrender, hl, hs⟩ := attrOf_exact ha
    refine ⟨a :: as, by simp only [List.map_cons, ha, hfa], by simp, ?_⟩
    intro x hx
    rcases List.mem_cons.mp hx with rfl | hx
    · exact ⟨hl, hs, hn, by rw [htyp]; exact typ_lt _, hd, by
        have := sizeOK_render (hg t List.mem_cons_self) hrender
        rw [htyp]; simpa using this⟩
    · exact hok x hx

theorem recs_ml (rec : Tag → Except PyErr Bytes) (lib : Bool)
    (hrec : ∀ t b, rec t = .ok b → ∃ a, attrOf t false (if lib then t.language.getD 0 else 0) (t.stream.getD 0) = .ok a ∧
      a.language < 65536 ∧ a.stream < 65536 ∧ a.name.length + 2 < 65536 ∧ a.data.length < 4294967296 ∧ b = renderML a)
    (ts : List Tag) (hg : ∀ t ∈ ts, t.GuidOK) {data : Bytes} (h : concatMapE rec ts = .ok data) :
    ∃ as : List Attr, ts.map (fun t => attrOf t false (if lib then t.language.getD 0 else 0) (t.stream.getD 0)) = as.map Except.ok ∧
      data = (as.map renderML).flatten ∧ ∀ a ∈ as, MLOK a := by
  induction ts generalizing data with
  | nil => simp only [concatMapE] at h; cases h; exact ⟨[], rfl, rfl, fun a ha => by cases ha⟩
  | cons t r ih =>
    obtain ⟨b1, b2, h1, h2, rfl⟩ := concatMapE_cons_ok h
    obtain ⟨a, ha, hl, hs, hn, hd, rfl⟩ := hrec t b1 h1
    obtain ⟨as, hfa, rfl, hok⟩ := ih (fun x hx => hg x (List.mem_cons_of_mem _ hx)) h2
    obtain ⟨_, _, htyp, hrender, _, _⟩ := attrOf_exact ha
    refine ⟨a :: as, by simp only [List.map_cons, ha, hfa], by simp, ?_⟩
    intro x hx
    rcases List.mem_cons.mp hx with rfl | hx
    · exact ⟨hl, hs, hn, by rw [htyp]; exact typ_lt _, hd, by
        have := sizeOK_render (hg t List.mem_cons_self) hrender
        rw [htyp]; simpa using this⟩
    · exact hok x hx

/-- the strict decoder of the Extended Content Description Object (every descriptor complete, names
terminated, value sizes as the specification fixes them per type, the payload filled exactly) reads
the written payload back as the attribute records of the distributed tags, in order -/
theorem strict_ecd (ts : List Tag) (hg : ∀ t ∈ ts, t.GuidOK) {b : Bytes} (h : listPayload recECD ts = .ok b) :
    ∃ as : List Attr, ts.map (fun t => attrOf t true 0 0) = as.map Except.ok ∧ decodeECD b = some as := by
  obtain ⟨data, hd, hl, rfl⟩ := listPayload_ok h
  obtain ⟨as, hfa, rfl, hok⟩ := recs_ecd ts hg hd
  refine ⟨as, hfa, ?_⟩
  have hlen : as.length = ts.length := by have := congrArg List.length hfa; simpa using this.symm
  have := decodeECD_encodeECD as hok (by rw [hlen]; exact hl)
  unfold encodeECD at this
  rw [hlen] at this
  exact this

/-- … of the Metadata Object (`lib = false`) and the Metadata Library Object (`lib = true`) -/
theorem strict_ml (rec : Tag → Except PyErr Bytes) (lib : Bool)
    (hrec : ∀ t b, rec t = .ok b → ∃ a, attrOf t false (if lib then t.language.getD 0 else 0) (t.stream.getD 0) = .ok a ∧
      a.language < 65536 ∧ a.stream < 65536 ∧ a.name.length + 2 < 65536 ∧ a.data.length < 4294967296 ∧ b = renderML a)
    (ts : List Tag) (hg : ∀ t ∈ ts, t.GuidOK) {b : Bytes} (h : listPayload rec ts = .ok b) :
    ∃ as : List Attr, ts.map (fun t => attrOf t false (if lib then t.language.getD 0 else 0) (t.stream.getD 0)) = as.map Except.ok ∧
      decodeML b = some as := by
  obtain ⟨data, hd, hl, rfl⟩ := listPayload_ok h
  obtain ⟨as, hfa, rfl, hok⟩ := recs_ml rec lib hrec ts hg hd
  refine ⟨as, hfa, ?_⟩
  have hlen : as.length = ts.length := by have := congrArg List.length hfa; simpa using this.symm
  have := decodeML_encodeML as hok (by rw [hlen]; exact hl)
  unfold encodeML at this
  rw [hlen] at this
  exact this

theorem strict_m (ts : List Tag) (hg : ∀ t ∈ ts, t.GuidOK) {b : Bytes} (h : listPayload recM ts = .ok b) :
    ∃ as : List Attr, ts.map (fun t => attrOf t false 0 (t.stream.getD 0)) = as.map Except.ok ∧ decodeML b = some as := by
  have := strict_ml recM false (fun t b hb => by
    obtain ⟨a, ha, h1, h2, h3, h4, h5⟩ := recM_ok hb
    exact ⟨a, ha, h1, h2, h3, h4, h5⟩) ts hg h
  simpa using this

theorem strict_mlib (ts : List Tag) (hg : ∀ t ∈ ts, t.GuidOK) {b : Bytes} (h : listPayload recML ts = .ok b) :
    ∃ as : List Attr, ts.map (fun t => attrOf t false (t.language.getD 0) (t.stream.getD 0)) = as.map Except.ok ∧ decodeML b = some as := by
  have := strict_ml recML true (fun t b hb => by
    obtain ⟨a, ha, h1, h2, h3, h4, h5⟩ := recML_ok hb
    exact ⟨a, ha, h1, h2, h3, h4, h5⟩) ts hg h
  simpa using this

/-! ### the canonical form is a rearrangement -/

theorem eq_of_name_nodup {cd : List Tag} (hnd : (names cd).Nodup) {a b : Tag} (ha : a ∈ cd) (hb : b ∈ cd) (hn : a.name = b.name) : a = b := by
  induction cd with
  | nil => cases ha
  | cons x r ih =>
    simp only [names, List.map_cons, List.nodup_cons] at hnd
    rcases List.mem_cons.mp ha with rfl | ha' <;> rcases List.mem_cons.mp hb with rfl | hb'
    · rfl
    · exact absurd (List.mem_map.mpr ⟨b, hb', hn.symm⟩) hnd.1
    · exact absurd (List.mem_map.mpr ⟨a, ha', hn⟩) hnd.1
    · exact ih hnd.2 ha' hb'

theorem nodup_of_map_name (l : List Tag) (h : (l.map Tag.name).Nodup) : l.Nodup := by
  induction l with
  | nil => exact List.nodup_nil
  | cons x r ih =>
    simp only [List.map_cons, List.nodup_cons] at h
    exact List.nodup_cons.mpr ⟨fun hx => h.1 (List.mem_map.mpr ⟨x, hx, rfl⟩), ih h.2⟩

/-- the Content Description values in field order are the Content Description values -/
theorem cdSorted_perm (cd : List Tag) (hnd : (names cd).Nodup) (hsub : ∀ t ∈ cd, t.name ∈ cdNames) : (cdSorted cd).Perm cd := by
  have n1 : (cdSorted cd).Nodup := nodup_of_map_name _ (names_cdSorted_nodup cd)
  have n2 : cd.Nodup := nodup_of_map_name _ hnd
  apply (List.perm_ext_iff_of_nodup n1 n2).mpr
  intro t
  constructor
  · exact fun h => (mem_cdSorted h).1
  · intro h
    simp only [cdSorted, List.mem_filterMap]
    refine ⟨t.name, hsub t h, ?_⟩
    cases hf : cd.find? (fun x => x.name == t.name) with
    | none =>
      have := List.find?_eq_none.mp hf t h
      simp at this
    | some t' =>
      have hn : t'.name = t.name := by simpa using List.find?_some hf
      rw [eq_of_name_nodup hnd (List.mem_of_find?_eq_some hf) h hn]

/-- nothing dropped, nothing duplicated: the canonical form is a permutation of the four target lists
(Metadata Library part with language / stream defaulted), which are a permutation of the tags -/
theorem canonical_perm (tags : List Tag) :
    (canonical tags).Perm ((distPure tags).cd ++ (distPure tags).ecd ++ (distPure tags).mo ++ (distPure tags).ml.map dflt) ∧
      ((distPure tags).cd ++ (distPure tags).ecd ++ (distPure tags).mo ++ (distPure tags).ml).Perm tags := by
  have inv := distInv_distPure tags
  refine ⟨?_, inv.perm⟩
  unfold canonical
  exact ((cdSorted_perm _ inv.nodupCD (fun t ht => (inv.fitsCD t ht).1)).append_right _).append_right _ |>.append_right _

end Mutagen.Asf
