/-
Proofs/Container/ApeLocate.lean — `_APEv2Data(fileobj)` with all its reads (`locateM` / `locateTagM`,
Model/Container/ApeFileM.lean, ApeFileLoadM.lean) equals the pure `ApeF.locate` of the bytes when no call fails.
-/
import MutagenModel.Proofs.Container.ApeFileLoad
set_option linter.unusedVariables false
set_option linter.unusedSimpArgs false
namespace Mutagen.ApeF
open Mutagen

/-! ### the calls in a quiet environment -/

theorem fseekFromEnd_q {e : Env} (hq : Quiet e) (off : Nat) (s : FS) :
    fseekFromEnd off e s = (.ok (), { data := s.data, pos := s.data.length - off, ops := s.ops + 1, log := .seekEnd :: s.log }) := by
  simp [fseekFromEnd, bind_run, tick_q hq]

theorem fseekRel_q {e : Env} (hq : Quiet e) (k : Int) (s : FS) :
    fseekRel k e s = (.ok (), ⟨s.data, ((s.pos : Int) + k).toNat, s.ops + 1, .seek ((s.pos : Int) + k).toNat :: s.log⟩) := by
  simp [fseekRel, fseek_q hq]

theorem readIsApe_q {e : Env} (hq : Quiet e) (s : FS) :
    readIsApe e s = (.ok (isApeAt s.data s.pos),
      ⟨s.data, s.pos + (readAt s.data s.pos 8).length, s.ops + 1, .read 8 :: s.log⟩) := by
  simp [readIsApe, bind_run, fread_q hq, isApeAt]

theorem backTell_q {e : Env} (hq : Quiet e) (s : FS) :
    backTell e s = (.ok ((s.pos : Int) + -8).toNat,
      ⟨s.data, ((s.pos : Int) + -8).toNat, s.ops + 1 + 1, .tell :: .seek ((s.pos : Int) + -8).toNat :: s.log⟩) := by
  simp [backTell, bind_run, fseekRel_q hq, ftell_q hq]

theorem seekBack_q_ok {e : Env} (hq : Quiet e) (off : Int) (s : FS) (h : ¬ ((s.pos : Int) < off)) :
    seekBack off e s = (.ok (), ⟨s.data, ((s.pos : Int) + -off).toNat, s.ops + 1 + 1,
      .seek ((s.pos : Int) + -off).toNat :: .tell :: s.log⟩) := by
  simp [seekBack, bind_run, ftell_q hq, h, fseekRel_q hq]

theorem seekBack_q_fail {e : Env} (hq : Quiet e) (off : Int) (s : FS) (h : (s.pos : Int) < off) :
    seekBack off e s = (.error .io, ⟨s.data, s.pos, s.ops + 1, .tell :: s.log⟩) := by
  simp [seekBack, bind_run, ftell_q hq, h, raise_run]

theorem getSize_q' {e : Env} (hq : Quiet e) (s : FS) :
    getSize e s = (.ok s.data.length,
      ⟨s.data, s.pos, s.ops + 1 + 1 + 1 + 1, .seek s.pos :: .tell :: .seekEnd :: .tell :: s.log⟩) := by
  simp [getSize, bind_run, ftell_q hq, tryFinally, fseekEnd_q hq, fseek_q hq]

theorem length_readAt_le (f : Bytes) (p k : Nat) (h : p + k ≤ f.length) : (readAt f p k).length = k := by
  simp [readAt]; omega

theorem isApeAt_len (f : Bytes) (p : Nat) (h : isApeAt f p = true) : (readAt f p 8).length = 8 := by
  unfold isApeAt at h
  have := congrArg List.length (beq_iff_eq.mp h)
  simpa [apeMagic, Ape.preamble] using this

/-! ### the search in front of an ID3v1 block -/

/-- where the Lyrics3v2 size field would stand -/
def lyricsFieldPos (n : Nat) : Nat := ((n - 125) - 35 + 8 + 15 + 9) - 15

/-- the part of `findMetadata` that looks in front of an ID3v1 block, as a function of its own -/
def viaV1 (f : Bytes) : Option Nat :=
  let n := f.length
  if n < 128 then none
  else if readAt f (n - 128) 3 != tagMagic then none
  else if n - 125 < 35 then none
  else
    let p2 := (n - 125) - 35
    if isApeAt f p2 then some p2
    else
      let p3 := p2 + 8 + 15
      if readAt f p3 9 != lyricsEnd then none
      else
        let p4 := (p3 + 9) - 15
        match int6 (readAt f p4 6) with
        | none => none
        | some off =>
          if p4 + 6 < 32 + off + 6 then none
          else
            let p5 := (p4 + 6) - (32 + off + 6)
            if isApeAt f p5 then some p5 else none

theorem findMetadata_eq (f : Bytes) :
    findMetadata f =
      if f.length < 32 then .nothing
      else if isApeAt f (f.length - 32) then .footer (f.length - 32)
      else match viaV1 f with
        | some p => .footer p
        | none => if isApeAt f 0 then .headerAtStart else .nothing := by
  unfold findMetadata viaV1
  rfl

/-- the Lyrics3v2 size field, if the search gets there, is six plain digits or nothing Python's `int()` accepts (the pure
`int6` reads six digits only; `int()` also takes signs, blanks and underscores) -/
def LyricsSizeOK (f : Bytes) : Prop :=
  pyInt (readAt f (lyricsFieldPos f.length) 6) = (int6 (readAt f (lyricsFieldPos f.length) 6)).map Int.ofNat

theorem viaV1M_q {e : Env} (hq : Quiet e) (s : FS) (hint : LyricsSizeOK s.data) :
    ∃ s', s'.data = s.data ∧
      (viaV1M e s = (.ok (viaV1 s.data), s') ∨ (viaV1 s.data = none ∧ viaV1M e s = (.error .io, s'))) := by
  unfold viaV1M viaV1
  simp only [bind_run, getSize_q' hq]
  generalize hn : s.data.length = n at *
  by_cases h128 : n < 128
  · simp only [h128, ↓reduceIte, raise_run]
    exact ⟨_, (by rfl), Or.inr ⟨trivial, rfl⟩⟩
  simp only [h128, ↓reduceIte, bind_run, fseekFromEnd_q hq, fread_q hq, hn]
  have l3 : (readAt s.data (n - 128) 3).length = 3 := length_readAt_le _ _ _ (by omega)
  rw [l3]
  by_cases ht : (readAt s.data (n - 128) 3 != tagMagic) = true
  · simp only [ht, ↓reduceIte, pure_run]
    exact ⟨_, (by rfl), Or.inl rfl⟩
  simp only [ht, Bool.false_eq_true, ↓reduceIte, bind_run]
  -- _seek_back(35) from n - 125
  by_cases h35 : n - 125 < 35
  · rw [seekBack_q_fail hq]
    · simp only [h35, ↓reduceIte]
      exact ⟨_, (by rfl), Or.inr ⟨trivial, rfl⟩⟩
    · dsimp only; omega
  rw [seekBack_q_ok hq]
  rotate_left
  · dsimp only; omega
  dsimp only
  simp only [h35, ↓reduceIte, bind_run, readIsApe_q hq]
  have e2 : (((n - 128 + 3 : Nat) : Int) + -35).toNat = n - 125 - 35 := by omega
  rw [e2]
  have l8 : (readAt s.data (n - 125 - 35) 8).length = 8 := length_readAt_le _ _ _ (by omega)
  rw [l8]
  by_cases ha : isApeAt s.data (n - 125 - 35) = true
  · simp only [ha, ↓reduceIte, bind_run, backTell_q hq, pure_run]
    have : (((n - 125 - 35 + 8 : Nat) : Int) + -8).toNat = n - 125 - 35 := by omega
    rw [this]
    exact ⟨_, (by rfl), Or.inl rfl⟩
  simp only [ha, Bool.false_eq_true, ↓reduceIte, bind_run, fseekRel_q hq, fread_q hq]
  have e3 : (((n - 125 - 35 + 8 : Nat) : Int) + 15).toNat = n - 125 - 35 + 8 + 15 := by omega
  rw [e3]
  have l9 : (readAt s.data (n - 125 - 35 + 8 + 15) 9).length = 9 := length_readAt_le _ _ _ (by omega)
  rw [l9]
  by_cases hl : (readAt s.data (n - 125 - 35 + 8 + 15) 9 != lyricsEnd) = true
  · simp only [hl, ↓reduceIte, pure_run]
    exact ⟨_, (by rfl), Or.inl rfl⟩
  simp only [hl, Bool.false_eq_true, ↓reduceIte, bind_run, fseekRel_q hq, fread_q hq]
  have e4 : (((n - 125 - 35 + 8 + 15 + 9 : Nat) : Int) + -15).toNat = n - 125 - 35 + 8 + 15 + 9 - 15 := by omega
  rw [e4]
  have l6 : (readAt s.data (n - 125 - 35 + 8 + 15 + 9 - 15) 6).length = 6 := length_readAt_le _ _ _ (by omega)
  rw [l6]
  have hint' : pyInt (readAt s.data (n - 125 - 35 + 8 + 15 + 9 - 15) 6) =
      (int6 (readAt s.data (n - 125 - 35 + 8 + 15 + 9 - 15) 6)).map Int.ofNat := by
    have := hint
    unfold LyricsSizeOK lyricsFieldPos at this
    rw [hn] at this
    exact this
  rw [hint']
  cases h6 : int6 (readAt s.data (n - 125 - 35 + 8 + 15 + 9 - 15) 6) with
  | none =>
    simp only [Option.map_none, raise_run]
    exact ⟨_, (by rfl), Or.inr ⟨trivial, rfl⟩⟩
  | some off =>
    simp only [Option.map_some, bind_run]
    -- _seek_back(32 + off + 6) from behind the size field
    by_cases hoff : n - 125 - 35 + 8 + 15 + 9 - 15 + 6 < 32 + off + 6
    · rw [seekBack_q_fail hq]
      · simp only [hoff, ↓reduceIte]
        exact ⟨_, (by rfl), Or.inr ⟨trivial, rfl⟩⟩
      · dsimp only; simp only [Int.ofNat_eq_natCast]; omega
    rw [seekBack_q_ok hq]
    rotate_left
    · dsimp only; simp only [Int.ofNat_eq_natCast]; omega
    dsimp only
    simp only [hoff, ↓reduceIte, bind_run, readIsApe_q hq]
    have e5 : (((n - 125 - 35 + 8 + 15 + 9 - 15 + 6 : Nat) : Int) + -(32 + Int.ofNat off + 6)).toNat =
        n - 125 - 35 + 8 + 15 + 9 - 15 + 6 - (32 + off + 6) := by
      simp only [Int.ofNat_eq_natCast]; omega
    rw [e5]
    by_cases hb : isApeAt s.data (n - 125 - 35 + 8 + 15 + 9 - 15 + 6 - (32 + off + 6)) = true
    · simp only [hb, ↓reduceIte, bind_run, backTell_q hq, pure_run, isApeAt_len _ _ hb]
      have : (((n - 125 - 35 + 8 + 15 + 9 - 15 + 6 - (32 + off + 6) + 8 : Nat) : Int) + -8).toNat =
          n - 125 - 35 + 8 + 15 + 9 - 15 + 6 - (32 + off + 6) := by omega
      rw [this]
      exact ⟨_, (by rfl), Or.inl rfl⟩
    · simp only [hb, Bool.false_eq_true, ↓reduceIte, pure_run]
      exact ⟨_, (by rfl), Or.inl rfl⟩

theorem findMetadataM_q {e : Env} (hq : Quiet e) (s : FS) (hint : LyricsSizeOK s.data) :
    ∃ s', findMetadataM e s = (.ok (findMetadata s.data), s') ∧ s'.data = s.data := by
  unfold findMetadataM
  rw [findMetadata_eq]
  simp only [bind_run, fseekEnd_q hq, tryCatch]
  by_cases h32 : s.data.length < 32
  · rw [seekBack_q_fail hq]
    · simp only [h32, ↓reduceIte, PyErr.isIO, pure_run, Bool.not_false]
      exact ⟨_, rfl, rfl⟩
    · dsimp only; omega
  rw [seekBack_q_ok hq]
  rotate_left
  · dsimp only; omega
  dsimp only
  simp only [h32, ↓reduceIte, bind_run, pure_run, Bool.not_true, Bool.false_eq_true, readIsApe_q hq]
  have e0 : (((s.data.length : Nat) : Int) + -32).toNat = s.data.length - 32 := by omega
  rw [e0]
  by_cases ha : isApeAt s.data (s.data.length - 32) = true
  · simp only [ha, ↓reduceIte, bind_run, backTell_q hq, pure_run, isApeAt_len _ _ ha]
    have : (((s.data.length - 32 + 8 : Nat) : Int) + -8).toNat = s.data.length - 32 := by omega
    rw [this]
    exact ⟨_, rfl, rfl⟩
  · simp only [ha, Bool.false_eq_true, ↓reduceIte, bind_run]
    obtain ⟨s1, hd1, hcase⟩ := viaV1M_q hq
      ⟨s.data, s.data.length - 32 + (readAt s.data (s.data.length - 32) 8).length, s.ops + 1 + 1 + 1 + 1,
        .read 8 :: .seek (s.data.length - 32) :: .tell :: .seekEnd :: s.log⟩ hint
    have hrun : ∃ s2, s2.data = s.data ∧
        tryCatch viaV1M PyErr.isIO (fun _ => (pure none : FileM (Option Nat))) e
          ⟨s.data, s.data.length - 32 + (readAt s.data (s.data.length - 32) 8).length, s.ops + 1 + 1 + 1 + 1,
            .read 8 :: .seek (s.data.length - 32) :: .tell :: .seekEnd :: s.log⟩ = (.ok (viaV1 s.data), s2) := by
      unfold tryCatch
      rcases hcase with h | ⟨hn, h⟩
      · rw [h]; exact ⟨s1, hd1, rfl⟩
      · rw [h]; simp only [PyErr.isIO, ↓reduceIte, pure_run]; exact ⟨s1, hd1, by rw [show viaV1 s.data = none from hn]⟩
    obtain ⟨s2, hd2, hrun⟩ := hrun
    rw [hrun]
    cases hv : viaV1 s.data with
    | some p => exact ⟨s2, rfl, hd2⟩
    | none =>
      simp only [bind_run, fseek_q hq, readIsApe_q hq, pure_run, hd2]
      exact ⟨_, rfl, rfl⟩

theorem fixBrokenM_q {e : Env} (hq : Quiet e) (f : Bytes) (fuel : Nat) :
    ∀ (start : Nat) (s : FS), s.data = f → s.pos = start →
      ∃ s', fixBrokenM fuel start e s = (.ok (fixBroken f fuel start), s') ∧ s'.data = f := by
  induction fuel with
  | zero => intro start s hd hp; exact ⟨s, rfl, hd⟩
  | succ n ih =>
    intro start s hd hp
    unfold fixBrokenM fixBroken
    by_cases h0 : start = 0
    · simp only [h0, ↓reduceIte, pure_run]; exact ⟨s, rfl, hd⟩
    · simp only [h0, ↓reduceIte, bind_run, tryCatch]
      by_cases h24 : start < 24
      · rw [seekBack_q_fail hq _ _ (by omega)]
        simp only [h24, ↓reduceIte, PyErr.isIO, pure_run, Bool.not_false]
        exact ⟨_, rfl, hd⟩
      rw [seekBack_q_ok hq _ _ (by omega)]
      simp only [h24, ↓reduceIte, bind_run, pure_run, Bool.not_true, Bool.false_eq_true, readIsApe_q hq]
      have e1 : ((s.pos : Int) + -24).toNat = start - 24 := by omega
      rw [e1, hd]
      by_cases ha : isApeAt f (start - 24) = true
      · simp only [ha, ↓reduceIte, bind_run, backTell_q hq, isApeAt_len _ _ ha]
        have : (((start - 24 + 8 : Nat) : Int) + -8).toNat = start - 24 := by omega
        rw [this]
        exact ih (start - 24) _ rfl rfl
      · simp only [ha, Bool.false_eq_true, ↓reduceIte, pure_run]
        exact ⟨_, rfl, rfl⟩

/-- THE EQUIVALENCE: without faults, `_APEv2Data(fileobj)` with all its seeks and reads computes the pure `locate` of
the bytes, for EVERY byte string (whose Lyrics3v2 size field, if the search gets that far, is six digits or no number),
wherever the file position was, and leaves the bytes alone -/
theorem locateM_q {e : Env} (hq : Quiet e) (s : FS) (hint : LyricsSizeOK s.data) :
    ∃ s', locateM e s = (locate s.data, s') ∧ s'.data = s.data := by
  unfold locateM locate
  obtain ⟨s1, hr1, hd1⟩ := findMetadataM_q hq s hint
  simp only [bind_run, hr1]
  cases hm : findMetadata s.data with
  | nothing => exact ⟨s1, rfl, hd1⟩
  | footer ft =>
    simp only [bind_run, fseek_q hq, fread_q hq, hd1]
    generalize hd : readAt s.data (ft + 8) 16 = d
    by_cases h16 : d.length ≠ 16
    · simp only [if_pos h16, raise_run]; exact ⟨_, rfl, rfl⟩
    simp only [if_neg h16]
    by_cases h2 : ft + 32 < ofLE ((d.drop 4).take 4)
    · simp only [if_pos h2, raise_run]; exact ⟨_, rfl, rfl⟩
    simp only [if_neg h2]
    by_cases h3 : ofLE (d.drop 12) / hasHeaderFlag % 2 = 1 ∧ ft + 32 - ofLE ((d.drop 4).take 4) < 32
    · simp only [if_pos h3, raise_run]; exact ⟨_, rfl, rfl⟩
    simp only [if_neg h3]
    by_cases h4 : ofLE ((d.drop 4).take 4) < 32
    · simp only [if_pos h4, raise_run]; exact ⟨_, rfl, rfl⟩
    simp only [if_neg h4, bind_run]
    generalize hhdr : (if ofLE (d.drop 12) / hasHeaderFlag % 2 = 1 then ft + 32 - ofLE ((d.drop 4).take 4) - 32
      else ft + 32 - ofLE ((d.drop 4).take 4)) = header
    simp only [fseek_q hq]
    obtain ⟨s2, hr2, hd2⟩ := fixBrokenM_q hq s.data header header
      ⟨s.data, header, s1.ops + 1 + 1 + 1, .seek header :: .read 16 :: .seek (ft + 8) :: s1.log⟩ rfl rfl
    rw [hr2]
    simp only [fseek_q hq, fread_q hq, hd2]
    exact ⟨_, rfl, rfl⟩
  | headerAtStart =>
    simp only [bind_run, fseek_q hq, fread_q hq, hd1]
    generalize hd : readAt s.data 8 16 = d
    by_cases h16 : d.length ≠ 16
    · simp only [if_pos h16, raise_run]; exact ⟨_, rfl, rfl⟩
    simp only [if_neg h16, bind_run, getSize_q' hq]
    by_cases h2 : 32 + ofLE ((d.drop 4).take 4) > s.data.length
    · simp only [if_pos h2, raise_run]; exact ⟨_, rfl, rfl⟩
    simp only [if_neg h2, bind_run, fseek_q hq, readIsApe_q hq]
    by_cases h3 : isApeAt s.data (32 + ofLE ((d.drop 4).take 4) - 32) = true ∧ ofLE ((d.drop 4).take 4) < 32
    · simp only [if_pos h3, raise_run]; exact ⟨_, rfl, rfl⟩
    simp only [if_neg h3, bind_run, fseek_q hq, fread_q hq]
    exact ⟨_, rfl, rfl⟩

/-- `_APEv2Data(fileobj)` on the bytes, with `data.tag`: `locate` keeping the tag bytes -/
def locateTag (f : Bytes) : Except PyErr (Option (Loc × Bytes)) :=
  match findMetadata f with
  | .nothing => .ok none
  | .footer ft =>
    let d := readAt f (ft + 8) 16
    if d.length ≠ 16 then .error .mutagen
    else
      let size := ofLE ((d.drop 4).take 4)
      let flags := ofLE (d.drop 12)
      let endd := ft + 32
      if endd < size then .error .mutagen
      else
        let data := endd - size
        let hasHdr := flags / hasHeaderFlag % 2 = 1
        if hasHdr ∧ data < 32 then .error .mutagen
        else if size < 32 then .error .mutagen
        else
          let header := if hasHdr then data - 32 else data
          .ok (some ({ start := fixBroken f header header, endd := endd, isAtStart := false }, readAt f data (size - 32)))
  | .headerAtStart =>
    let d := readAt f 8 16
    if d.length ≠ 16 then .error .mutagen
    else
      let size := ofLE ((d.drop 4).take 4)
      if 32 + size > f.length then .error .mutagen
      else if isApeAt f (32 + size - 32) ∧ size < 32 then .error .mutagen
      else .ok (some ({ start := 0, endd := 32 + size, isAtStart := true },
        readAt f 32 (if isApeAt f (32 + size - 32) then size - 32 else size)))

/-- what `locateTag` locates is `locate` -/
theorem locateTag_fst (f : Bytes) :
    (match locateTag f with | .ok o => Except.ok (o.map (·.1)) | .error x => .error x) = locate f := by
  unfold locateTag locate
  cases findMetadata f with
  | nothing => rfl
  | footer ft =>
    simp only []
    by_cases h1 : (readAt f (ft + 8) 16).length ≠ 16
    · rw [if_pos h1, if_pos h1]
    rw [if_neg h1, if_neg h1]
    by_cases h2 : ft + 32 < ofLE (((readAt f (ft + 8) 16).drop 4).take 4)
    · rw [if_pos h2, if_pos h2]
    rw [if_neg h2, if_neg h2]
    by_cases h3 : ofLE ((readAt f (ft + 8) 16).drop 12) / hasHeaderFlag % 2 = 1 ∧
        ft + 32 - ofLE (((readAt f (ft + 8) 16).drop 4).take 4) < 32
    · rw [if_pos h3, if_pos h3]
    rw [if_neg h3, if_neg h3]
    by_cases h4 : ofLE (((readAt f (ft + 8) 16).drop 4).take 4) < 32
    · rw [if_pos h4, if_pos h4]
    rw [if_neg h4, if_neg h4]
    rfl
  | headerAtStart =>
    simp only []
    by_cases h1 : (readAt f 8 16).length ≠ 16
    · rw [if_pos h1, if_pos h1]
    rw [if_neg h1, if_neg h1]
    by_cases h2 : 32 + ofLE (((readAt f 8 16).drop 4).take 4) > f.length
    · rw [if_pos h2, if_pos h2]
    rw [if_neg h2, if_neg h2]
    by_cases h3 : isApeAt f (32 + ofLE (((readAt f 8 16).drop 4).take 4) - 32) = true ∧
        ofLE (((readAt f 8 16).drop 4).take 4) < 32
    · rw [if_pos h3, if_pos h3]
    rw [if_neg h3, if_neg h3]
    rfl

/-- the same for `locateTagM`, which keeps the tag bytes read last -/
theorem locateTagM_q {e : Env} (hq : Quiet e) (s : FS) (hint : LyricsSizeOK s.data) :
    ∃ s', locateTagM e s = (locateTag s.data, s') ∧ s'.data = s.data := by
  unfold locateTagM locateTag
  obtain ⟨s1, hr1, hd1⟩ := findMetadataM_q hq s hint
  simp only [bind_run, hr1]
  cases hm : findMetadata s.data with
  | nothing => exact ⟨s1, rfl, hd1⟩
  | footer ft =>
    simp only [bind_run, fseek_q hq, fread_q hq, hd1]
    generalize hd : readAt s.data (ft + 8) 16 = d
    by_cases h16 : d.length ≠ 16
    · simp only [if_pos h16, raise_run]; exact ⟨_, rfl, rfl⟩
    simp only [if_neg h16]
    by_cases h2 : ft + 32 < ofLE ((d.drop 4).take 4)
    · simp only [if_pos h2, raise_run]; exact ⟨_, rfl, rfl⟩
    simp only [if_neg h2]
    by_cases h3 : ofLE (d.drop 12) / hasHeaderFlag % 2 = 1 ∧ ft + 32 - ofLE ((d.drop 4).take 4) < 32
    · simp only [if_pos h3, raise_run]; exact ⟨_, rfl, rfl⟩
    simp only [if_neg h3]
    by_cases h4 : ofLE ((d.drop 4).take 4) < 32
    · simp only [if_pos h4, raise_run]; exact ⟨_, rfl, rfl⟩
    simp only [if_neg h4, bind_run]
    generalize hhdr : (if ofLE (d.drop 12) / hasHeaderFlag % 2 = 1 then ft + 32 - ofLE ((d.drop 4).take 4) - 32
      else ft + 32 - ofLE ((d.drop 4).take 4)) = header
    simp only [fseek_q hq]
    obtain ⟨s2, hr2, hd2⟩ := fixBrokenM_q hq s.data header header
      ⟨s.data, header, s1.ops + 1 + 1 + 1, .seek header :: .read 16 :: .seek (ft + 8) :: s1.log⟩ rfl rfl
    rw [hr2]
    simp only [fseek_q hq, fread_q hq, hd2]
    exact ⟨_, rfl, rfl⟩
  | headerAtStart =>
    simp only [bind_run, fseek_q hq, fread_q hq, hd1]
    generalize hd : readAt s.data 8 16 = d
    by_cases h16 : d.length ≠ 16
    · simp only [if_pos h16, raise_run]; exact ⟨_, rfl, rfl⟩
    simp only [if_neg h16, bind_run, getSize_q' hq]
    by_cases h2 : 32 + ofLE ((d.drop 4).take 4) > s.data.length
    · simp only [if_pos h2, raise_run]; exact ⟨_, rfl, rfl⟩
    simp only [if_neg h2, bind_run, fseek_q hq, readIsApe_q hq]
    by_cases h3 : isApeAt s.data (32 + ofLE ((d.drop 4).take 4) - 32) = true ∧ ofLE ((d.drop 4).take 4) < 32
    · simp only [if_pos h3, raise_run]; exact ⟨_, rfl, rfl⟩
    simp only [if_neg h3, bind_run, fseek_q hq, fread_q hq]
    exact ⟨_, rfl, rfl⟩

/-! ### save / delete / load with the REAL reads, in quiet environments -/

/-- `APEv2.save` with every call of `_APEv2Data(fileobj)`: the two outcomes of `saveSumM_q` -/
theorem saveM_q {e : Env} (hq : Quiet e) (B : Nat) (hB : 0 < B) (f : Bytes) (hint : LyricsSizeOK f) (loc : Option Loc)
    (h : locate f = .ok loc) (tag3 : Option (Bytes × Bytes × Bytes)) (s : FS) (hs : s.data = f) (hpos : s.pos ≤ s.data.length) :
    (∃ s', saveM B tag3 e s = (.ok (), s') ∧ s'.data = baseOf f loc ++ tagBytes tag3) ∨
    (∃ s' k, saveM B tag3 e s = (.error .mutagen, s') ∧
      s'.data = baseOf f loc ++ (tagBytes tag3).take k ∧ k < (tagBytes tag3).length ∧ e.cap ≠ none) := by
  unfold saveM
  rw [Id3F.convertError_run]
  obtain ⟨s0, hr0, hd0, hp0⟩ := verifyFileobj_q hq s hpos
  simp only [bind_run, hr0]
  obtain ⟨s1, hr1, hd1⟩ := locateM_q hq s0 (by rw [hd0, hs]; exact hint)
  rw [hd0, hs, h] at hr1
  rw [hr1]
  simp only []
  rcases saveTailM_q hq B hB f loc h tag3 s1 (by rw [hd1, hd0, hs]) with ⟨s2, hr, hd⟩ | ⟨s2, k, hr, hd, hk, hc⟩
  · left; rw [hr]; exact ⟨s2, rfl, hd⟩
  · right; rw [hr]; exact ⟨s2, k, rfl, hd, hk, hc⟩

/-- when `_APEv2Data` raises (`locate f = error`, always `apev2.error`) so does `save`, and nothing was written -/
theorem saveM_q_err {e : Env} (hq : Quiet e) (B : Nat) (f : Bytes) (hint : LyricsSizeOK f) (x : PyErr)
    (h : locate f = .error x) (tag3 : Option (Bytes × Bytes × Bytes)) (s : FS) (hs : s.data = f) (hpos : s.pos ≤ s.data.length) :
    ∃ s' y, saveM B tag3 e s = (.error y, s') ∧ s'.data = f := by
  unfold saveM
  rw [Id3F.convertError_run]
  obtain ⟨s0, hr0, hd0, hp0⟩ := verifyFileobj_q hq s hpos
  simp only [bind_run, hr0]
  obtain ⟨s1, hr1, hd1⟩ := locateM_q hq s0 (by rw [hd0, hs]; exact hint)
  rw [hd0, hs, h] at hr1
  rw [hr1]
  simp only []
  split
  · exact ⟨s1, _, rfl, by rw [hd1, hd0, hs]⟩
  · exact ⟨s1, _, rfl, by rw [hd1, hd0, hs]⟩

theorem deleteM_q {e : Env} (hq : Quiet e) (B : Nat) (hB : 0 < B) (f out : Bytes) (hint : LyricsSizeOK f) (h : delete f = .ok out)
    (s : FS) (hs : s.data = f) (hpos : s.pos ≤ s.data.length) :
    ∃ s', deleteM B e s = (.ok (), s') ∧ s'.data = out := by
  unfold deleteM
  rw [Id3F.convertError_run]
  obtain ⟨s0, hr0, hd0, hp0⟩ := verifyFileobj_q hq s hpos
  simp only [bind_run, hr0]
  obtain ⟨s1, hr1, hd1⟩ := locateM_q hq s0 (by rw [hd0, hs]; exact hint)
  rw [hd0, hs] at hr1
  unfold delete at h
  cases hl : locate f with
  | error x => rw [hl] at h; cases h
  | ok loc =>
    rw [hl] at h hr1
    rw [hr1]
    simp only []
    cases loc with
    | none =>
      simp only [] at h
      injection h with h
      exact ⟨s1, rfl, by rw [hd1, hd0, hs, h]⟩
    | some L =>
      simp only [] at h
      by_cases hc : L.endd > f.length ∨ L.endd < L.start
      · rw [if_pos hc] at h; cases h
      · rw [if_neg hc] at h
        injection h with h
        simp only [deleteTailM]
        have e1 : (L.endd : Int) - (L.start : Int) = ((L.endd - L.start : Nat) : Int) := by omega
        rw [e1]
        obtain ⟨s2, hr, hd⟩ := deleteBytes_q hq B hB (L.endd - L.start) L.start s1 (by rw [hd1, hd0, hs]; omega)
        rw [hr]
        refine ⟨s2, rfl, ?_⟩
        rw [hd, hd1, hd0, hs, ← h, show L.start + (L.endd - L.start) = L.endd by omega]

/-- `APEv2(fileobj)` on the bytes: `_APEv2Data`, then "an empty tag is no tag" -/
def apeLoad (f : Bytes) : Except PyErr (Loc × Bytes) :=
  match locateTag f with
  | .error x => .error x
  | .ok none => .error .mutagen
  | .ok (some (L, tag)) => if tag.isEmpty then .error .mutagen else .ok (L, tag)

theorem locateTag_err (f : Bytes) (x : PyErr) (h : locateTag f = .error x) : x = .mutagen := by
  unfold locateTag at h
  cases hm : findMetadata f with
  | nothing => rw [hm] at h; cases h
  | footer ft =>
    rw [hm] at h; simp only [] at h
    repeat' split at h
    all_goals first | (injection h with h; exact h.symm) | cases h
  | headerAtStart =>
    rw [hm] at h; simp only [] at h
    repeat' split at h
    all_goals first | (injection h with h; exact h.symm) | cases h

theorem verifyRead_q {e : Env} (hq : Quiet e) (s : FS) :
    verifyRead e s = (.ok (), ⟨s.data, s.pos, s.ops + 1, .read 0 :: s.log⟩) := by
  have hr : (readAt s.data s.pos 0) = [] := by simp [readAt]
  simp [verifyRead, tryCatch, bind_run, fread_q hq, hr]

/-- REFINEMENT of the whole load -/
theorem apeLoadM_q {e : Env} (hq : Quiet e) (s : FS) (hint : LyricsSizeOK s.data) :
    ∃ s', apeLoadM e s = (apeLoad s.data, s') ∧ s'.data = s.data := by
  unfold apeLoadM apeLoad
  rw [Id3F.convertError_run]
  simp only [bind_run, verifyRead_q hq]
  obtain ⟨s1, hr1, hd1⟩ := locateTagM_q hq ⟨s.data, s.pos, s.ops + 1, .read 0 :: s.log⟩ hint
  simp only [] at hr1 hd1
  rw [hr1]
  cases hl : locateTag s.data with
  | error x =>
    have := locateTag_err _ _ hl
    subst this
    exact ⟨s1, by simp [PyErr.isIO], hd1⟩
  | ok o =>
    cases o with
    | none => exact ⟨s1, by simp [PyErr.isIO], hd1⟩
    | some p =>
      obtain ⟨L, tag⟩ := p
      simp only []
      by_cases ht : tag.isEmpty = true
      · simp only [ht, ↓reduceIte, raise_run]; exact ⟨s1, by simp [PyErr.isIO], hd1⟩
      · simp only [ht, Bool.false_eq_true, ↓reduceIte, pure_run]; exact ⟨s1, rfl, hd1⟩

end Mutagen.ApeF
