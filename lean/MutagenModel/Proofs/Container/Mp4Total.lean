/- Proofs/Container/Mp4Total.lean — totality / exception classes of the MP4 container model on EVERY byte
string: the atom reader never runs out of fuel, what it returns lies inside the file, and which exception
classes the save / delete bookkeeping can end in. -/
import MutagenModel.Proofs.Container.Mp4
set_option linter.unusedVariables false
namespace Mutagen.Mp4C
open Mutagen

/-! ### A. the atom reader: `diverge` is never reached, every error is AtomError → `error` -/

mutual
/-- the payload of every atom of the tree starts inside the first `n` bytes (`_dataoffset ≤ n`) and
behind the atom's start -/
def PAtom.Good (n : Nat) : PAtom → Prop
  | .mk _ o _ d kids => o + 8 ≤ d ∧ d ≤ n ∧ GoodList n kids
def GoodList (n : Nat) : List PAtom → Prop
  | [] => True
  | a :: r => a.Good n ∧ GoodList n r
end

theorem length_readAt8 (f : Bytes) (pos : Nat) (h : ¬ (readAt f pos 8).length < 8) : pos + 8 ≤ f.length := by
  rw [length_readAt'] at h; omega

/-- one induction over the fuel for `parseAtom` and `parseKids` together: with `4 * fuel` at least the
number of bytes left (+1 / +5) the answer is never `diverge`; a successful read ends at least 8 bytes
further, needed 8 readable bytes, and returns atoms whose payload starts inside the file -/
theorem parse_core (f : Bytes) : ∀ fuel : Nat,
    (∀ pos level, f.length - pos + 1 ≤ 4 * fuel →
      (∀ e, parseAtom fuel f pos level = .error e → e = .mutagen) ∧
      (∀ a p, parseAtom fuel f pos level = .ok (a, p) → pos + 8 ≤ p ∧ pos + 8 ≤ f.length ∧ a.Good f.length)) ∧
    (∀ pos stop level, f.length - pos + 5 ≤ 4 * fuel →
      (∀ e, parseKids fuel f pos stop level = .error e → e = .mutagen) ∧
      (∀ l p, parseKids fuel f pos stop level = .ok (l, p) → pos ≤ p ∧ GoodList f.length l)) := by
  intro fuel
  induction fuel with
  | zero =>
    exact ⟨fun pos level h => by omega, fun pos stop level h => by omega⟩
  | succ fuel ih =>
    obtain ⟨ihA, ihK⟩ := ih
    refine ⟨?_, ?_⟩
    · intro pos level hf
      unfold parseAtom
      simp only []
      by_cases hh : (readAt f pos 8).length < 8
      · rw [if_pos hh]
        exact ⟨fun e h => by cases h; rfl, fun a p h => by cases h⟩
      · rw [if_neg hh]
        have h8 := length_readAt8 f pos hh
        generalize hname : List.drop 4 (readAt f pos 8) = name
        generalize hs : (if ofBE (List.take 4 (readAt f pos 8)) = 1 then
            if (readAt f (pos + 8) 8).length < 8 then (Except.error PyErr.mutagen : Except PyErr (Nat × Nat))
            else if ofBE (readAt f (pos + 8) 8) < 16 then Except.error PyErr.mutagen
              else Except.ok (ofBE (readAt f (pos + 8) 8), pos + 16)
          else if ofBE (List.take 4 (readAt f pos 8)) = 0 then
            if level ≠ 0 then Except.error PyErr.mutagen else Except.ok (f.length - pos, pos + 8)
          else if ofBE (List.take 4 (readAt f pos 8)) < 8 then Except.error PyErr.mutagen
            else Except.ok (ofBE (List.take 4 (readAt f pos 8)), pos + 8)) = sized
        have hsz : (∀ e, sized = .error e → e = .mutagen) ∧
            (∀ l d, sized = .ok (l, d) → pos + 8 ≤ d ∧ d ≤ f.length ∧ 8 ≤ l) := by
          subst hs
          refine ⟨fun e h => ?_, fun l d h => ?_⟩
          · repeat' split at h
            all_goals first | (cases h; rfl) | (cases h; done)
          · repeat' split at h
            all_goals first | (cases h; done) | skip
            all_goals
              obtain ⟨rfl, rfl⟩ := Prod.mk.inj (Except.ok.inj h)
            · rename_i _ hx _
              have := length_readAt8 f (pos + 8) hx
              omega
            · omega
            · omega
        cases sized with
        | error e0 =>
          simp only []
          exact ⟨fun e h => by cases h; exact hsz.1 _ rfl, fun a p h => by cases h⟩
        | ok ld =>
          obtain ⟨l, d⟩ := ld
          obtain ⟨hd1, hd2, hl8⟩ := hsz.2 l d rfl
          simp only []
          by_cases hc : isContainer name = true
          · rw [if_pos hc]
            by_cases hlv : level > 64
            · rw [if_pos hlv]
              exact ⟨fun e h => by cases h; rfl, fun a p h => by cases h⟩
            rw [if_neg hlv]
            obtain ⟨ke, ko⟩ := ihK (d + skipSize name) (pos + l) (level + 1) (by omega)
            cases hk : parseKids fuel f (d + skipSize name) (pos + l) (level + 1) with
            | error e1 =>
              simp only []
              exact ⟨fun e h => by cases h; exact ke _ hk, fun a p h => by cases h⟩
            | ok kp =>
              obtain ⟨kids, p1⟩ := kp
              obtain ⟨hp1, hg⟩ := ko kids p1 hk
              simp only []
              refine ⟨fun e h => (by cases h), fun a p h => ?_⟩
              obtain ⟨rfl, rfl⟩ := Prod.mk.inj (Except.ok.inj h)
              refine ⟨by omega, h8, ?_⟩
              simp only [PAtom.Good]
              exact ⟨hd1, hd2, hg⟩
          · rw [if_neg hc]
            refine ⟨fun e h => (by cases h), fun a p h => ?_⟩
            obtain ⟨rfl, rfl⟩ := Prod.mk.inj (Except.ok.inj h)
            refine ⟨by omega, h8, ?_⟩
            simp only [PAtom.Good, GoodList]
            exact ⟨hd1, hd2, trivial⟩
    · intro pos stop level hf
      unfold parseKids
      by_cases hlt : pos < stop
      · rw [if_pos hlt]
        obtain ⟨ae, ao⟩ := ihA pos level (by omega)
        cases ha : parseAtom fuel f pos level with
        | error e1 =>
          simp only []
          exact ⟨fun e h => by cases h; exact ae _ ha, fun a p h => by cases h⟩
        | ok ap =>
          obtain ⟨a, p1⟩ := ap
          obtain ⟨hp1, hp2, hga⟩ := ao a p1 ha
          obtain ⟨ke, ko⟩ := ihK p1 stop level (by omega)
          simp only []
          cases hk : parseKids fuel f p1 stop level with
          | error e1 =>
            simp only []
            exact ⟨fun e h => by cases h; exact ke _ hk, fun a p h => by cases h⟩
          | ok rp =>
            obtain ⟨r, p2⟩ := rp
            obtain ⟨hp3, hgr⟩ := ko r p2 hk
            simp only []
            refine ⟨fun e h => (by cases h), fun l p h => ?_⟩
            obtain ⟨rfl, rfl⟩ := Prod.mk.inj (Except.ok.inj h)
            refine ⟨by omega, ?_⟩
            simp only [GoodList]
            exact ⟨hga, hgr⟩
      · rw [if_neg hlt]
        refine ⟨fun e h => (by cases h), fun l p h => ?_⟩
        obtain ⟨rfl, rfl⟩ := Prod.mk.inj (Except.ok.inj h)
        exact ⟨Nat.le_refl _, by simp only [GoodList]⟩

theorem parseTop_core (f : Bytes) : ∀ fuel pos, f.length - pos + 5 ≤ 4 * fuel →
    (∀ e, parseTop fuel f pos = .error e → e = .mutagen) ∧
    (∀ l, parseTop fuel f pos = .ok l → GoodList f.length l) := by
  intro fuel
  induction fuel with
  | zero => intro pos h; omega
  | succ fuel ih =>
    intro pos hf
    unfold parseTop
    by_cases hlt : pos + 8 ≤ f.length
    · rw [if_pos hlt]
      obtain ⟨ae, ao⟩ := (parse_core f fuel).1 pos 0 (by omega)
      cases ha : parseAtom fuel f pos 0 with
      | error e1 =>
        simp only []
        exact ⟨fun e h => by cases h; exact ae _ ha, fun l h => by cases h⟩
      | ok ap =>
        obtain ⟨a, p1⟩ := ap
        obtain ⟨hp1, hp2, hga⟩ := ao a p1 ha
        obtain ⟨te, to⟩ := ih p1 (by omega)
        simp only []
        cases hk : parseTop fuel f p1 with
        | error e1 =>
          simp only []
          exact ⟨fun e h => by cases h; exact te _ hk, fun l h => by cases h⟩
        | ok r =>
          simp only []
          refine ⟨fun e h => (by cases h), fun l h => ?_⟩
          cases h
          simp only [GoodList]
          exact ⟨hga, to r hk⟩
    · rw [if_neg hlt]
      refine ⟨fun e h => (by cases h), fun l h => ?_⟩
      cases h
      simp only [GoodList]

/-- `Atoms(fileobj)` on every byte string: a list of atoms or AtomError (→ `mutagen.mp4.error`); the fuel
`length + 4` is never used up -/
theorem parse_clean (f : Bytes) (e : PyErr) (h : parse f = .error e) : e = .mutagen :=
  (parseTop_core f (f.length + 4) 0 (by omega)).1 e h

theorem parse_good (f : Bytes) (atoms : List PAtom) (h : parse f = .ok atoms) : GoodList f.length atoms :=
  (parseTop_core f (f.length + 4) 0 (by omega)).2 atoms h

/-! ### B. lookups in the parsed tree -/

theorem PAtom.Good.dataoffset_le {n : Nat} {a : PAtom} (h : a.Good n) : a.dataoffset ≤ n := by
  cases a; simp only [PAtom.Good] at h; exact h.2.1

theorem PAtom.Good.kids {n : Nat} {a : PAtom} (h : a.Good n) : GoodList n a.children := by
  cases a; simp only [PAtom.Good] at h; exact h.2.2

theorem child?_good {n : Nat} {kids : List PAtom} {name : Bytes} {a : PAtom} (hg : GoodList n kids)
    (h : child? kids name = some a) : a.Good n := by
  unfold child? at h
  induction kids with
  | nil => cases h
  | cons c r ih =>
    simp only [GoodList] at hg
    rw [List.find?_cons] at h
    split at h
    · cases h; exact hg.1
    · exact ih hg.2 h

theorem path?_spec {n : Nat} : ∀ (names : List Bytes) (kids : List PAtom) (l : List PAtom), GoodList n kids →
    path? kids names = some l → l.length = names.length ∧ ∀ a ∈ l, a.Good n := by
  intro names
  induction names with
  | nil => intro kids l _ h; simp only [path?] at h; cases h; exact ⟨rfl, fun a ha => by cases ha⟩
  | cons nm r ih =>
    intro kids l hg h
    simp only [path?] at h
    cases hc : child? kids nm with
    | none => rw [hc] at h; cases h
    | some a =>
      rw [hc] at h
      simp only [] at h
      cases hp : path? a.children r with
      | none => rw [hp] at h; cases h
      | some l' =>
        rw [hp] at h
        simp only [Option.map_some, Option.some.injEq] at h
        subst h
        have hga := child?_good hg hc
        obtain ⟨h1, h2⟩ := ih a.children l' hga.kids hp
        refine ⟨by simp [h1], fun b hb => ?_⟩
        rcases List.mem_cons.mp hb with rfl | hb
        · exact hga
        · exact h2 b hb

theorem path?_head {kids : List PAtom} {nm : Bytes} {r : List Bytes} {a : PAtom} {l : List PAtom}
    (h : path? kids (nm :: r) = some (a :: l)) : child? kids nm = some a := by
  simp only [path?] at h
  cases hc : child? kids nm with
  | none => rw [hc] at h; cases h
  | some b =>
    rw [hc] at h
    simp only [] at h
    cases hp : path? b.children r with
    | none => rw [hp] at h; cases h
    | some l' =>
      rw [hp] at h
      simp only [Option.map_some, Option.some.injEq, List.cons.injEq] at h
      rw [h.1]

theorem path?_one (kids : List PAtom) (nm : Bytes) : path? kids [nm] = (child? kids nm).map fun a => [a] := by
  simp only [path?]
  cases child? kids nm <;> rfl

/-- the region of a save, case by case: `__save_existing` when the path `moov.udta.meta.ilst` exists, else
`__save_new` below `moov.udta` / `moov`; no region exactly when there is no top-level `moov` -/
theorem regionOf_spec {n : Nat} (atoms : List PAtom) (hg : GoodList n atoms) :
    (child? atoms nMoov = none ∧ regionOf atoms = none) ∨
    (∃ R, regionOf atoms = some R ∧ (child? atoms nMoov).isSome ∧
      ((path? atoms ilstPath).isSome = true ∨ (R.length = 0 ∧ R.offset ≤ n))) := by
  unfold regionOf
  cases h4 : path? atoms [nMoov, nUdta, nMeta, nIlst] with
  | some l =>
    right
    obtain ⟨hl, _⟩ := path?_spec _ _ _ hg h4
    match l, hl with
    | [moov, udta, metaA, ilst], _ =>
      have hm := path?_head h4
      simp only []
      split
      · exact ⟨_, rfl, by simp [hm], Or.inl (by simp [ilstPath, h4])⟩
      · exact ⟨_, rfl, by simp [hm], Or.inl (by simp [ilstPath, h4])⟩
  | none =>
    simp only []
    cases h2 : path? atoms [nMoov, nUdta] with
    | some l =>
      right
      obtain ⟨hl, hgl⟩ := path?_spec _ _ _ hg h2
      match l, hl with
      | [moov, udta], _ =>
        have hm := path?_head h2
        simp only []
        exact ⟨_, rfl, by simp [hm], Or.inr ⟨rfl, (hgl udta (by simp)).dataoffset_le⟩⟩
    | none =>
      simp only []
      rw [path?_one]
      cases h1 : child? atoms nMoov with
      | none => left; exact ⟨rfl, rfl⟩
      | some moov =>
        right
        simp only [Option.map_some]
        exact ⟨_, rfl, by simp, Or.inr ⟨rfl, (child?_good hg h1).dataoffset_le⟩⟩

/-! ### C. the exception classes of the bookkeeping steps -/

theorem packBE_error (w : Nat) (v : Int) (err e : PyErr) (h : packBE w v err = .error e) : e = err := by
  unfold packBE at h
  split at h
  · cases h; rfl
  · cases h

/-- `__update_parents`: short reads and sizes that do not fit their field are MP4MetadataError -/
theorem patchSize_error (g : Bytes) (off : Nat) (delta : Int) (e : PyErr) (h : patchSize g off delta = .error e) :
    e = .mutagen := by
  unfold patchSize at h
  simp only [] at h
  repeat' split at h
  all_goals first | (cases h; rfl) | (cases h; done) | skip
  all_goals
    cases h
    rename_i hp
    exact packBE_error _ _ _ _ hp

theorem tfhdAt_error (g : Bytes) (p n : Nat) (delta : Int) (o : Nat) (e : PyErr) (h : tfhdAt g p n delta o = .error e) :
    e = .mutagen := by
  unfold tfhdAt at h
  simp only [] at h
  repeat' split at h
  all_goals first | (cases h; rfl) | (cases h; done) | skip
  all_goals
    cases h
    rename_i hp
    exact packBE_error _ _ _ _ hp

theorem offsetTableAt_error (g : Bytes) (w p n : Nat) (delta : Int) (o : Nat) (e : PyErr)
    (h : offsetTableAt g w p n delta o = .error e) : e = .mutagen := by
  unfold offsetTableAt at h
  simp only [] at h
  repeat' split at h
  all_goals first | (cases h; rfl) | (cases h; done)

/-- a table step ends in MutagenError unless its first seek goes to a negative position -/
theorem tableStepZ_error (mem : Bool) (delta : Int) (o : Nat) (t : Nat × PAtom) (g : Bytes) (e : PyErr)
    (h : tableStepZ mem delta o t g = .error e) : e = .mutagen ∨ seekPos delta o t < 0 := by
  unfold tableStepZ at h
  simp only [] at h
  split at h
  · rename_i hneg
    exact Or.inr hneg
  · split at h
    · exact Or.inl (tfhdAt_error _ _ _ _ _ _ h)
    · exact Or.inl (offsetTableAt_error _ _ _ _ _ _ _ h)

/-- an atom that `__update_offsets` visits is not shifted below 0: it starts before the region or (not inside
the region, behind its start) behind its end, and a save shrinks the file by at most the region -/
theorem shiftedZ_nonneg (atoms : List PAtom) (o len : Nat) (delta : Int) (hd : -(len : Int) ≤ delta)
    (t : Nat × PAtom) (ht : t ∈ visitedIn atoms o len) : 0 ≤ shiftedZ t.2 delta o := by
  unfold visitedIn at ht
  have h1 := (List.mem_filter.mp ht).2
  simp only [decide_eq_true_eq] at h1
  unfold shiftedZ
  split <;> omega

theorem seekPos_nonneg (atoms : List PAtom) (o len : Nat) (delta : Int) (hd : -(len : Int) ≤ delta)
    (t : Nat × PAtom) (ht : t ∈ visitedIn atoms o len) : 0 ≤ seekPos delta o t := by
  have := shiftedZ_nonneg atoms o len delta hd t ht
  unfold seekPos
  omega

theorem runSteps_error (P : PyErr → Prop) (ss : List (Bytes → Except PyErr Bytes))
    (hs : ∀ s ∈ ss, ∀ g e, s g = .error e → P e) :
    ∀ g e g', runSteps ss g = (some e, g') → P e := by
  induction ss with
  | nil => intro g e g' h; simp [runSteps] at h
  | cons s r ih =>
    intro g e g' h
    simp only [runSteps] at h
    cases hq : s g with
    | error e1 =>
      rw [hq] at h
      simp only [Prod.mk.injEq, Option.some.injEq] at h
      rw [← h.1]
      exact hs s List.mem_cons_self g e1 hq
    | ok g1 =>
      rw [hq] at h
      exact ih (fun s' hs' => hs s' (List.mem_cons_of_mem _ hs')) g1 e g' h

/-- what `saveAtZ` can end in: MutagenError; ValueError from resize_bytes / insert_bytes when the region
reaches beyond the file; KeyError without a top-level `moov`.  No negative seek: `seekPos_nonneg`. -/
theorem saveAtZ_classes (mem : Bool) (f : Bytes) (atoms parents : List PAtom) (offset old : Nat) (new : Bytes)
    (e : PyErr) (g : Bytes) (h : saveAtZ mem f atoms parents offset old new = (some e, g)) :
    e = .mutagen ∨ (e = .value ∧ f.length < offset + old) ∨ (e = .key ∧ child? atoms nMoov = none) := by
  unfold saveAtZ at h
  split at h
  · rename_i hlt
    simp only [Prod.mk.injEq, Option.some.injEq] at h
    exact Or.inr (Or.inl ⟨h.1.symm, hlt⟩)
  · simp only [] at h
    refine runSteps_error (fun e => e = .mutagen ∨ (e = .value ∧ f.length < offset + old) ∨
      (e = .key ∧ child? atoms nMoov = none)) _ ?_ _ e g h
    intro s hs g1 e1 he
    rcases List.mem_append.mp hs with hs | hs
    · unfold parentSteps at hs
      split at hs
      · cases hs
      · obtain ⟨a, _, rfl⟩ := List.mem_map.mp hs
        exact Or.inl (patchSize_error _ _ _ _ he)
    · unfold offsetStepsZ at hs
      split at hs
      · cases hs
      · split at hs
        · rename_i hnone
          simp only [List.mem_singleton] at hs
          subst hs
          cases he
          exact Or.inr (Or.inr ⟨rfl, hnone⟩)
        · obtain ⟨t, ht, rfl⟩ := List.mem_map.mp hs
          rcases tableStepZ_error _ _ _ _ _ _ he with h1 | h1
          · exact Or.inl h1
          · have := seekPos_nonneg atoms offset old ((new.length : Int) - old) (by omega) t ht
            omega

/-! ### D. `MP4Tags.save` / `delete` / `MP4.load` on every byte string -/

/-- the ways through `saveTags`: the atom reader fails; MP4MetadataError before anything is written (no top-level
`moov`, or `__save_existing` refuses the region: `content_size < 0`); or the bookkeeping `saveAtZ` runs on a
region that lies inside a file with a top-level `moov` -/
theorem saveTags_cases (mem : Bool) (f ilstData : Bytes) (pad : PadChoice) :
    (∃ e, parse f = .error e ∧ saveTags mem f ilstData pad = (some e, f)) ∨
    saveTags mem f ilstData pad = (some .mutagen, f) ∨
    (∃ atoms R old new, parse f = .ok atoms ∧ regionOf atoms = some R ∧ (child? atoms nMoov).isSome ∧
      R.offset + old ≤ f.length ∧ saveTags mem f ilstData pad = saveAtZ mem f atoms R.parents R.offset old new) := by
  unfold saveTags
  cases hp : parse f with
  | error e => exact Or.inl ⟨e, rfl, rfl⟩
  | ok atoms =>
    right
    simp only []
    rcases regionOf_spec atoms (parse_good f atoms hp) with ⟨hm, hr⟩ | ⟨R, hr, hm, hcase⟩
    · left
      rw [hr]
    · rw [hr]
      simp only []
      by_cases hex : (path? atoms ilstPath).isSome = true
      · rw [if_pos hex]
        by_cases hb : f.length < R.offset + R.length
        · rw [if_pos hb]; exact Or.inl rfl
        · rw [if_neg hb]
          exact Or.inr ⟨atoms, R, R.length, _, rfl, hr, hm, by omega, rfl⟩
      · rw [if_neg hex]
        rcases hcase with hc | ⟨h0, hle⟩
        · exact absurd hc hex
        · rw [if_neg (by omega)]
          exact Or.inr ⟨atoms, R, 0, _, rfl, hr, hm, by omega, rfl⟩

/-- `MP4Tags.save` into ANY file, whatever was rendered and whatever the padding callback answers, io.BytesIO or
real file: a result or MutagenError -/
theorem saveTags_clean (mem : Bool) (f ilstData : Bytes) (pad : PadChoice) (e : PyErr) (g : Bytes)
    (h : saveTags mem f ilstData pad = (some e, g)) : e = .mutagen := by
  rcases saveTags_cases mem f ilstData pad with ⟨e1, hp, hs⟩ | hs | ⟨atoms, R, old, new, hp, hr, hm, hb, hs⟩
  · rw [hs] at h
    simp only [Prod.mk.injEq, Option.some.injEq] at h
    rw [← h.1]
    exact parse_clean f e1 hp
  · rw [hs] at h
    simp only [Prod.mk.injEq, Option.some.injEq] at h
    exact h.1.symm
  · rw [hs] at h
    rcases saveAtZ_classes _ _ _ _ _ _ _ _ _ h with h1 | ⟨_, h2⟩ | ⟨_, h2⟩
    · exact h1
    · omega
    · rw [h2] at hm; cases hm

theorem load_clean (f : Bytes) (e : PyErr) (h : load f = .error e) : e = .mutagen := by
  unfold load at h
  cases hp : parse f with
  | error e1 => rw [hp] at h; cases h; exact parse_clean f _ hp
  | ok atoms =>
    rw [hp] at h
    simp only [] at h
    split at h
    · cases h; rfl
    · cases h

/-- saving through what was opened: a result or MutagenError -/
theorem openSave_clean (mem : Bool) (f : Bytes) (addTags : Bool) (ilstData : Bytes) (pad : PadChoice)
    (e : PyErr) (g : Bytes) (h : openSave mem f addTags ilstData pad = (some e, g)) : e = .mutagen := by
  unfold openSave at h
  cases hl : load f with
  | error e1 =>
    rw [hl] at h
    simp only [Prod.mk.injEq, Option.some.injEq] at h
    rw [← h.1]; exact load_clean f e1 hl
  | ok b =>
    rw [hl] at h
    simp only [] at h
    split at h
    · simp only [Prod.mk.injEq, Option.some.injEq] at h; exact h.1.symm
    · split at h
      · exact saveTags_clean mem f ilstData pad e g h
      · simp at h

theorem openDelete_clean (mem : Bool) (f : Bytes) (e : PyErr) (g : Bytes) (h : openDelete mem f = (some e, g)) :
    e = .mutagen := by
  unfold openDelete at h
  cases hl : load f with
  | error e1 =>
    rw [hl] at h
    simp only [Prod.mk.injEq, Option.some.injEq] at h
    rw [← h.1]; exact load_clean f e1 hl
  | ok b =>
    rw [hl] at h
    simp only [] at h
    split at h
    · exact saveTags_clean mem f _ _ e g h
    · simp at h

/-! ### E. `saveAtZ` is `saveAt` -/

theorem updateTfhd_eq_at (g : Bytes) (hl off len : Nat) (delta : Int) (o : Nat) :
    updateTfhd g hl off len delta o = tfhdAt g (off + hl + 1) (len - hl - 1) delta o := by
  unfold updateTfhd tfhdAt
  rw [show off + hl + 1 + 7 = off + hl + 8 by omega]

theorem updateOffsetTable_eq_at (g : Bytes) (hl w off len : Nat) (delta : Int) (o : Nat) :
    updateOffsetTable g hl w off len delta o = offsetTableAt g w (off + hl + 4) (len - hl - 4) delta o := by
  unfold updateOffsetTable offsetTableAt
  rw [show off + hl + 4 + 4 = off + hl + 8 by omega]

theorem tableStepZ_eq (mem : Bool) (delta : Int) (o : Nat) (t : Nat × PAtom) (h0 : 0 ≤ shiftedZ t.2 delta o) :
    tableStepZ mem delta o t = tableStep delta o t := by
  funext g
  have hsh : shifted t.2 delta o = (shiftedZ t.2 delta o).toNat := by
    unfold shifted shiftedZ
    split <;> simp
  unfold tableStepZ tableStep seekPos
  simp only []
  by_cases ht : t.1 = 0
  · simp only [ht, ↓reduceIte]
    rw [if_neg (by omega), updateTfhd_eq_at, hsh]
    congr 1
    omega
  · simp only [ht, ↓reduceIte]
    rw [if_neg (by omega), updateOffsetTable_eq_at, hsh]
    congr 1
    omega

/-- since the atoms inside the replaced region are not visited, the save with integer positions is the save the
offset theorems of Props/C10 are about, for both kinds of file object: no position is cut off at 0 -/
theorem saveAtZ_eq_saveAt (mem : Bool) (f : Bytes) (atoms parents : List PAtom) (o old : Nat) (new : Bytes) :
    saveAtZ mem f atoms parents o old new = saveAt f atoms parents o old new := by
  unfold saveAtZ saveAt
  have hs : offsetStepsZ mem atoms ((new.length : Int) - old) o old = offsetSteps atoms ((new.length : Int) - old) o old := by
    unfold offsetStepsZ offsetSteps
    split
    · rfl
    · split
      · rfl
      · exact List.map_congr_left fun t ht =>
          tableStepZ_eq mem _ o t (shiftedZ_nonneg atoms o old _ (by omega) t ht)
  simp only [hs]

end Mutagen.Mp4C
