/- Proofs/Container/Mp4Patched.lean — the table steps of `__update_offsets` on the rendered tree: each one rewrites the
payload of one leaf atom, and the file after all of them is the rendering of the patched tree -/
import MutagenModel.Proofs.Container.Mp4Props
set_option linter.unusedVariables false
namespace Mutagen.Mp4C
open Mutagen

/-! ### A. the leaf atom at a file offset: where its bytes are, and what patching its payload does -/

mutual
theorem Atom.leafAt_decomp : (a : Atom) → a.wf → ∀ (P pos : Nat) (w : Bool) (p : Bytes) (f : Bytes → Bytes),
    a.leafAt P pos = some (w, p) → (f p).length = p.length →
    ∃ A H Z, a.render = A ++ H ++ p ++ Z ∧ pos + A.length = P ∧ H.length = hdrLen w ∧
      (a.patchAt P f pos).render = A ++ H ++ f p ++ Z ∧ (a.patchAt P f pos).wf ∧ (a.patchAt P f pos).size = a.size
  | .leaf n w' p', hwf, P, pos, w, p, f, h, hf => by
    simp only [Atom.leafAt] at h
    split at h
    · rename_i hpos
      simp only [Option.some.injEq, Prod.mk.injEq] at h
      obtain ⟨rfl, rfl⟩ := h
      simp only [Atom.wf] at hwf
      refine ⟨[], header n w' (hdrLen w' + p'.length), [], by simp [Atom.render], by simpa using hpos,
        length_header _ _ _ hwf.1, ?_, ?_, ?_⟩
      · simp [Atom.patchAt, hpos, Atom.render, hf]
      · simp only [Atom.patchAt, hpos, ↓reduceIte, Atom.wf, hf]; exact hwf
      · simp [Atom.patchAt, hpos, Atom.size, hf]
    · cases h
  | .node n w' s cs, hwf, P, pos, w, p, f, h, hf => by
    simp only [Atom.leafAt] at h
    simp only [Atom.wf] at hwf
    obtain ⟨hn, hc, hs, hfit, hcs⟩ := hwf
    obtain ⟨A, H, Z, hr, hA, hH, hr', hwf', hsz'⟩ := leafAtList_decomp cs hcs P (pos + hdrLen w' + s.length) w p f h hf
    refine ⟨header n w' (hdrLen w' + s.length + sizeList cs) ++ s ++ A, H, Z, ?_, ?_, hH, ?_, ?_, ?_⟩
    · simp [Atom.render, hr, List.append_assoc]
    · simp only [List.length_append, length_header _ _ _ hn]; omega
    · simp [Atom.patchAt, Atom.render, hr', hsz', List.append_assoc]
    · simp only [Atom.patchAt, Atom.wf, hsz']; exact ⟨hn, hc, hs, hfit, hwf'⟩
    · simp [Atom.patchAt, Atom.size, hsz']
theorem leafAtList_decomp : (l : List Atom) → wfList l → ∀ (P pos : Nat) (w : Bool) (p : Bytes) (f : Bytes → Bytes),
    leafAtList P pos l = some (w, p) → (f p).length = p.length →
    ∃ A H Z, renderList l = A ++ H ++ p ++ Z ∧ pos + A.length = P ∧ H.length = hdrLen w ∧
      renderList (patchAtList P f pos l) = A ++ H ++ f p ++ Z ∧ wfList (patchAtList P f pos l) ∧
      sizeList (patchAtList P f pos l) = sizeList l
  | [], _, P, pos, w, p, f, h, _ => by simp [leafAtList] at h
  | a :: r, hwf, P, pos, w, p, f, h, hf => by
    simp only [wfList] at hwf
    simp only [leafAtList] at h
    split at h
    · rename_i hlt
      obtain ⟨A, H, Z, hr, hA, hH, hr', hwf', hsz'⟩ := a.leafAt_decomp hwf.1 P pos w p f h hf
      refine ⟨A, H, Z ++ renderList r, by simp [renderList, hr, List.append_assoc], hA, hH, ?_, ?_, ?_⟩
      · simp [patchAtList, hlt, renderList, hr', List.append_assoc]
      · simp only [patchAtList, hlt, ↓reduceIte, wfList]; exact ⟨hwf', hwf.2⟩
      · simp [patchAtList, hlt, sizeList, hsz']
    · rename_i hlt
      obtain ⟨A, H, Z, hr, hA, hH, hr', hwf', hsz'⟩ := leafAtList_decomp r hwf.2 P (pos + a.size) w p f h hf
      refine ⟨a.render ++ A, H, Z, by simp [renderList, hr, List.append_assoc], ?_, hH, ?_, ?_, ?_⟩
      · simp only [List.length_append, a.length_render hwf.1]; omega
      · simp [patchAtList, hlt, renderList, hr', List.append_assoc]
      · simp only [patchAtList, hlt, ↓reduceIte, wfList]; exact ⟨hwf.1, hwf'⟩
      · simp [patchAtList, hlt, sizeList, hsz']
end

/-! ### B. a table step works inside the payload of its atom -/

theorem readAt_inside (A H p Z : Bytes) (j m : Nat) (h : m = 0 ∨ j + m ≤ p.length) :
    readAt (A ++ H ++ p ++ Z) (A.length + H.length + j) m = readAt p j m := by
  rcases h with rfl | h
  · simp [readAt]
  · unfold readAt
    rw [show A ++ H ++ p ++ Z = (A ++ H) ++ (p ++ Z) by simp, ← List.drop_drop,
      show A.length + H.length = (A ++ H).length by simp, List.drop_left' rfl, List.drop_append_of_le_length (by omega),
      List.take_append_of_le_length (by simp; omega)]

theorem writeAt_inside (A H p Z b : Bytes) (k : Nat) (h : k + b.length ≤ p.length) :
    writeAt (A ++ H ++ p ++ Z) (A.length + H.length + k) b = A ++ H ++ writeAt p k b ++ Z := by
  have hp : p = p.take k ++ (p.drop k).take b.length ++ p.drop (k + b.length) := by
    rw [List.append_assoc, ← List.drop_drop, List.take_append_drop, List.take_append_drop]
  have hk : (p.take k).length = k := by simp; omega
  have hm : ((p.drop k).take b.length).length = b.length := by simp; omega
  have h1 := writeAt_mid (A ++ H ++ p.take k) ((p.drop k).take b.length) (p.drop (k + b.length) ++ Z) b hm
  have e1 : A ++ H ++ p ++ Z = A ++ H ++ p.take k ++ (p.drop k).take b.length ++ (p.drop (k + b.length) ++ Z) := by
    conv => lhs; rw [hp]
    simp only [List.append_assoc]
  have e2 : A.length + H.length + k = (A ++ H ++ p.take k).length := by simp [hk]; omega
  rw [e1, e2, h1]
  unfold writeAt
  simp only [List.append_assoc]

/-- what `__update_offset_table` computes from the bytes it read: the encoded new entries, or MP4MetadataError -/
def tableCore (w : Nat) (delta : Int) (offset : Nat) (data : Bytes) : Except PyErr Bytes :=
  if (data.take 4).length < 4 then .error .mutagen
  else if (data.drop 4).length ≠ ofBE (data.take 4) * w then .error .mutagen
  else if ((entriesOf w (ofBE (data.take 4)) (data.drop 4)).map (patchEntry offset delta)).any
      (fun v => v < 0 ∨ v ≥ (256 ^ w : Nat)) then .error .mutagen
  else .ok (encodeEntries w (((entriesOf w (ofBE (data.take 4)) (data.drop 4)).map (patchEntry offset delta)).map Int.toNat))

theorem updateOffsetTable_core (g : Bytes) (hl w off len : Nat) (delta : Int) (o : Nat) :
    updateOffsetTable g hl w off len delta o =
      match tableCore w delta o (readAt g (off + hl + 4) (len - hl - 4)) with
      | .error x => .error x
      | .ok enc => .ok (writeAt g (off + hl + 8) enc) := by
  unfold updateOffsetTable tableCore
  simp only []
  split
  · rfl
  · split
    · rfl
    · split <;> rfl

theorem tableCore_len (w : Nat) (delta : Int) (o : Nat) (data enc : Bytes) (h : tableCore w delta o data = .ok enc) :
    4 + enc.length = data.length := by
  unfold tableCore at h
  split at h
  · cases h
  · rename_i h4
    split at h
    · cases h
    · rename_i hb
      split at h
      · cases h
      · cases h
        rw [length_encodeEntries, List.length_map, List.length_map, length_entriesOf]
        simp only [List.length_take, List.length_drop, ne_eq, Decidable.not_not] at h4 hb
        rw [Nat.mul_comm, ← hb]; omega

/-- what `__update_tfhd` computes from the bytes it read: nothing to write, the new base offset, or MP4MetadataError -/
def tfhdCore (delta : Int) (offset : Nat) (data : Bytes) : Except PyErr (Option Bytes) :=
  if (data.take 3).length < 3 then .error .mutagen
  else if ofBE (data.take 3) % 2 = 1 then
    if ((data.drop 7).take 8).length < 8 then .error .mutagen
    else match packBE 8 (patchEntry offset delta (ofBE ((data.drop 7).take 8))) .mutagen with
      | .error x => .error x
      | .ok b => .ok (some b)
  else .ok none

theorem updateTfhd_core (g : Bytes) (hl off len : Nat) (delta : Int) (o : Nat) :
    updateTfhd g hl off len delta o =
      match tfhdCore delta o (readAt g (off + hl + 1) (len - hl - 1)) with
      | .error x => .error x
      | .ok none => .ok g
      | .ok (some b) => .ok (writeAt g (off + hl + 8) b) := by
  unfold updateTfhd tfhdCore
  simp only []
  split
  · rfl
  · split
    · split
      · rfl
      · cases packBE 8 (patchEntry o delta (ofBE ((readAt g (off + hl + 1) (len - hl - 1)).drop 7 |>.take 8))) .mutagen <;> rfl
    · rfl

theorem tfhdCore_len (delta : Int) (o : Nat) (data b : Bytes) (h : tfhdCore delta o data = .ok (some b)) :
    b.length = 8 ∧ 15 ≤ data.length := by
  unfold tfhdCore at h
  split at h
  · cases h
  · split at h
    · split at h
      · cases h
      · rename_i h8
        split at h
        · cases h
        · rename_i bb hp
          cases h
          simp only [List.length_take, List.length_drop] at h8
          exact ⟨packBE_length _ _ _ _ hp, by omega⟩
    · cases h

/-- a table step on a file in which the atom's header `H` and payload `p` lie at `A.length`: it fails exactly when the
step on the payload alone fails, and otherwise rewrites the payload to what that step gives (same length) -/
theorem tableStep_local (A H p Z : Bytes) (w : Nat) (delta : Int) (o : Nat) :
    (∀ x, payloadStep w delta o p = .error x →
      (if w = 0 then updateTfhd (A ++ H ++ p ++ Z) H.length A.length (H.length + p.length) delta o
       else updateOffsetTable (A ++ H ++ p ++ Z) H.length w A.length (H.length + p.length) delta o) = .error x) ∧
    (∀ p', payloadStep w delta o p = .ok p' → p'.length = p.length ∧
      (if w = 0 then updateTfhd (A ++ H ++ p ++ Z) H.length A.length (H.length + p.length) delta o
       else updateOffsetTable (A ++ H ++ p ++ Z) H.length w A.length (H.length + p.length) delta o) = .ok (A ++ H ++ p' ++ Z)) := by
  unfold payloadStep
  by_cases hw : w = 0
  · simp only [hw, ↓reduceIte]
    rw [updateTfhd_core, updateTfhd_core]
    have hd : readAt (A ++ H ++ p ++ Z) (A.length + H.length + 1) (H.length + p.length - H.length - 1) =
        readAt p (0 + 0 + 1) (p.length - 0 - 1) := by
      rw [show H.length + p.length - H.length - 1 = p.length - 1 by omega, show p.length - 0 - 1 = p.length - 1 by omega,
        show (0 : Nat) + 0 + 1 = 1 by rfl]
      exact readAt_inside A H p Z 1 (p.length - 1) (by omega)
    rw [hd]
    cases hc : tfhdCore delta o (readAt p (0 + 0 + 1) (p.length - 0 - 1)) with
    | error x => exact ⟨fun y h => by simpa using h, fun p' h => by simp at h⟩
    | ok ob =>
      cases ob with
      | none =>
        refine ⟨fun y h => by simp at h, fun p' h => ?_⟩
        simp only [Except.ok.injEq] at h
        subst h
        exact ⟨rfl, rfl⟩
      | some b =>
        obtain ⟨hb, h15⟩ := tfhdCore_len _ _ _ _ hc
        have hdl : (readAt p (0 + 0 + 1) (p.length - 0 - 1)).length ≤ p.length - 1 := by
          rw [length_readAt']; omega
        refine ⟨fun y h => by simp at h, fun p' h => ?_⟩
        simp only [Except.ok.injEq] at h
        subst h
        have hin : 8 + b.length ≤ p.length := by omega
        refine ⟨length_writeAt _ _ _ (by omega), ?_⟩
        simp only [Nat.zero_add]
        rw [writeAt_inside A H p Z b 8 hin]
  · simp only [hw, ↓reduceIte]
    rw [updateOffsetTable_core, updateOffsetTable_core]
    have hd : readAt (A ++ H ++ p ++ Z) (A.length + H.length + 4) (H.length + p.length - H.length - 4) =
        readAt p (0 + 0 + 4) (p.length - 0 - 4) := by
      rw [show H.length + p.length - H.length - 4 = p.length - 4 by omega, show p.length - 0 - 4 = p.length - 4 by omega,
        show (0 : Nat) + 0 + 4 = 4 by rfl]
      exact readAt_inside A H p Z 4 (p.length - 4) (by omega)
    rw [hd]
    cases hc : tableCore w delta o (readAt p (0 + 0 + 4) (p.length - 0 - 4)) with
    | error x => exact ⟨fun y h => by simpa using h, fun p' h => by simp at h⟩
    | ok enc =>
      have hl := tableCore_len _ _ _ _ _ hc
      have hdl : (readAt p (0 + 0 + 4) (p.length - 0 - 4)).length ≤ p.length - 4 := by
        rw [length_readAt']; omega
      refine ⟨fun y h => by simp at h, fun p' h => ?_⟩
      simp only [Except.ok.injEq] at h
      subst h
      have hin : 8 + enc.length ≤ p.length := by omega
      refine ⟨length_writeAt _ _ _ (by omega), ?_⟩
      simp only [Nat.zero_add]
      rw [writeAt_inside A H p Z enc 8 hin]

/-! ### C. all table steps: the file is the rendering of the patched tree -/

theorem runTables (delta : Int) (o : Nat) : ∀ (ts : List (Nat × PAtom)) (T : List Atom), wfList T → TablesOK delta o ts T →
    runSteps (ts.map (tableStep delta o)) (renderList T) = (none, renderList (patchTables delta o ts T)) ∧
      wfList (patchTables delta o ts T) ∧ sizeList (patchTables delta o ts T) = sizeList T := by
  intro ts
  induction ts with
  | nil => intro T hwf _; exact ⟨rfl, hwf, rfl⟩
  | cons t r ih =>
    intro T hwf hok
    simp only [TablesOK] at hok
    obtain ⟨htok, hrest⟩ := hok
    unfold TableOK at htok
    cases hl : leafAtList (shifted t.2 delta o) 0 T with
    | none => rw [hl] at htok; exact htok.elim
    | some wp =>
      obtain ⟨w, p⟩ := wp
      rw [hl] at htok
      simp only [] at htok
      obtain ⟨hhl, hlen, hps⟩ := htok
      cases hstep : payloadStep t.1 delta o p with
      | error x => rw [hstep] at hps; simp [Except.toOption] at hps
      | ok p' =>
        have hpatch : payloadPatch t.1 delta o p = p' := by simp [payloadPatch, hstep]
        have hfl : (payloadPatch t.1 delta o p).length = p.length := by
          rw [hpatch]
          exact ((tableStep_local [] [] p [] t.1 delta o).2 p' hstep).1
        obtain ⟨A, H, Z, hr, hA, hH, hr', hwf', hsz'⟩ :=
          leafAtList_decomp T hwf (shifted t.2 delta o) 0 w p (payloadPatch t.1 delta o) hl hfl
        have hstepg : tableStep delta o t (renderList T) = .ok (renderList (patchAtList (shifted t.2 delta o) (payloadPatch t.1 delta o) 0 T)) := by
          unfold tableStep
          rw [hr, hr', hpatch, ← hhl, ← hH, hlen, ← hH, show shifted t.2 delta o = A.length by omega]
          exact ((tableStep_local A H p Z t.1 delta o).2 p' hstep).2
        obtain ⟨h1, h2, h3⟩ := ih _ hwf' hrest
        refine ⟨?_, h2, by rw [patchTables, h3, hsz']⟩
        simp only [List.map_cons, runSteps, hstepg, patchTables]
        exact h1

theorem child?_of_path? (kids : List PAtom) (n : Bytes) (r : List Bytes) (h : (path? kids (n :: r)).isSome = true) :
    ∃ m, child? kids n = some m := by
  simp only [path?] at h
  cases hc : child? kids n with
  | none => rw [hc] at h; simp at h
  | some m => exact ⟨m, rfl⟩

/-- `MP4Tags.save` on a layout, all of it: when every visited table atom can be patched (`TablesOK`, decidable), the file
is the rendering of `savedPatched` — the saved layout with the payloads of the visited `stco` / `co64` / `tfhd` atoms
patched — which is a well-formed tree: the strict walker reads the FINAL file back -/
theorem saveTags_layout_patched (mem : Bool) (L : Layout) (hok : L.OK) (items : List Atom) (pad : PadChoice)
    (hfit : wfList (L.saved items pad).top) (htab : L.TablesOK items pad) :
    saveTags mem L.render (ilstData items) pad = (none, renderList (L.savedPatched items pad)) ∧
      wfList (L.savedPatched items pad) ∧ walk (renderList (L.savedPatched items pad)) = some (L.savedPatched items pad) ∧
      sizeList (L.savedPatched items pad) = sizeList (L.saved items pad).top := by
  have hmoov : ∃ m, child? (annotList 0 L.top) nMoov = some m :=
    child?_of_path? _ nMoov [nUdta, nMeta, nIlst] (regionOf_layout L hok).2
  obtain ⟨m, hm⟩ := hmoov
  have hsteps : L.tableSteps items pad = (L.visitedTables items pad).map (tableStep (L.delta items pad) (holeOffset 0 L.frames L.hole)) := by
    unfold Layout.tableSteps Layout.visitedTables offsetSteps
    split
    · rfl
    · simp only [hm]
  obtain ⟨h1, h2, h3⟩ := runTables (L.delta items pad) (holeOffset 0 L.frames L.hole) (L.visitedTables items pad)
    (L.saved items pad).top hfit htab
  refine ⟨?_, h2, walk_render _ h2, h3⟩
  rw [saveTags_layout mem L hok items pad hfit, hsteps]
  exact h1

end Mutagen.Mp4C
