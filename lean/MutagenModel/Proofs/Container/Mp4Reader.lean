/- Proofs/Container/Mp4Reader.lean — mutagen's own ilst reader on what the codec renders -/
import MutagenModel.Model.Container.Mp4Reader
import MutagenModel.Proofs.Mp4Tags
import MutagenModel.Proofs.Utf8
set_option linter.unusedVariables false
namespace Mutagen.Mp4R
open Mutagen Mutagen.Mp4Tags

/-- the version byte and the 3 flag bytes of the type word, as `__parse_data` takes them -/
theorem word_split (v f : Nat) (hv : v < 256) (hf : f < 16777216) :
    ofBE ((toBE 4 (v * 16777216 + f)).take 1) = v ∧ ofBE ((toBE 4 (v * 16777216 + f)).drop 1) = f := by
  simp only [toBE, toLE, List.reverse_cons, List.reverse_nil, List.nil_append, List.cons_append, List.take_succ_cons,
    List.take_zero, List.drop_succ_cons, List.drop_zero, ofBE, ofLE, UInt8.toNat_ofNat']
  constructor <;> omega

theorem slice_mid (A M Z : Bytes) (b : Nat) (hb : b = A.length + M.length) : slice (A ++ M ++ Z) A.length b = M := by
  unfold slice
  rw [List.append_assoc, List.drop_left' rfl, hb, show A.length + M.length - A.length = M.length by omega, List.take_left' rfl]

/-- the consumer of `__parse_data` run over a list of values, stopping at the first exception -/
def foldP {σ : Type} (f : σ → Nat × Nat × Bytes → POut σ) : σ → List Data → POut σ
  | st, [] => .ok st
  | st, d :: r =>
    match f st (d.version, d.flags, d.payload) with
    | .ok st' => foldP f st' r
    | .failed => .failed
    | .crash => .crash

/-- `__parse_data` over the `data` atoms the codec renders yields exactly their (version, flags, payload), in order -/
theorem forData_encode {σ : Type} (f : σ → Nat × Nat × Bytes → POut σ) : ∀ (ds : List Data), (∀ d ∈ ds, DataOK d) →
    ∀ (pre : Bytes) (fuel : Nat) (st : σ), ds.length < fuel →
    forData ((pre ++ (ds.map encodeData).flatten).length + 8) (pre ++ (ds.map encodeData).flatten) f fuel pre.length st =
      foldP f st ds := by
  intro ds
  induction ds with
  | nil =>
    intro _ pre fuel st hf
    cases fuel with
    | zero => simp at hf
    | succ n => simp [forData, foldP]
  | cons d r ih =>
    intro hok pre fuel st hf
    cases fuel with
    | zero => simp at hf
    | succ n =>
      obtain ⟨hv, hfl, hpl⟩ := hok d (by simp)
      have hE : encodeData d = toBE 4 (d.payload.length + 16) ++ dataName ++ toBE 4 (d.version * 16777216 + d.flags) ++
          toBE 4 0 ++ d.payload := by
        simp [encodeData, renderAtom, List.append_assoc]
        congr 1; omega
      generalize hS : toBE 4 (d.payload.length + 16) = S at hE
      generalize hW : toBE 4 (d.version * 16777216 + d.flags) = W at hE
      generalize hZ : toBE 4 0 = Zr at hE
      have hSl : S.length = 4 := by rw [← hS]; simp
      have hWl : W.length = 4 := by rw [← hW]; simp
      have hZl : Zr.length = 4 := by rw [← hZ]; simp
      have hNl : dataName.length = 4 := rfl
      generalize hrest : (r.map encodeData).flatten = rest
      have hdata : pre ++ ((d :: r).map encodeData).flatten = pre ++ (S ++ dataName ++ W) ++ (Zr ++ d.payload ++ rest) := by
        simp [hE, hrest, List.append_assoc]
      have hdata2 : pre ++ ((d :: r).map encodeData).flatten = (pre ++ S ++ dataName ++ W ++ Zr) ++ d.payload ++ rest := by
        simp [hE, hrest, List.append_assoc]
      have hlen : (pre ++ ((d :: r).map encodeData).flatten).length = pre.length + 16 + d.payload.length + rest.length := by
        rw [hdata2]; simp [hSl, hWl, hZl, hNl]; omega
      unfold forData
      rw [if_pos (by rw [hlen]; omega)]
      simp only []
      have hhead : slice (pre ++ ((d :: r).map encodeData).flatten) pre.length (pre.length + 12) = S ++ dataName ++ W := by
        rw [hdata]; exact slice_mid _ _ _ _ (by simp [hSl, hWl, hNl])
      rw [hhead]
      have h12 : (S ++ dataName ++ W).length = 12 := by simp [hSl, hWl, hNl]
      have ht4 : (S ++ dataName ++ W).take 4 = S := by rw [List.append_assoc, List.take_left' hSl]
      have hd4 : ((S ++ dataName ++ W).drop 4).take 4 = dataName := by
        rw [List.append_assoc, List.drop_left' hSl, List.take_left' hNl]
      have hL : ofBE S = d.payload.length + 16 := by rw [← hS]; exact ofBE_toBE 4 _ (by omega)
      have hd8 : (S ++ dataName ++ W).drop 8 = W := by
        rw [show (8 : Nat) = (S ++ dataName).length by simp [hSl, hNl], List.drop_left' rfl]
      have hd9 : (S ++ dataName ++ W).drop 9 = W.drop 1 := by
        rw [show (9 : Nat) = 8 + 1 by rfl, ← List.drop_drop, hd8]
      have hchunk : slice (pre ++ ((d :: r).map encodeData).flatten) (pre.length + 16) (pre.length + (d.payload.length + 16)) = d.payload := by
        rw [hdata2]
        have := slice_mid (pre ++ S ++ dataName ++ W ++ Zr) d.payload rest (pre.length + (d.payload.length + 16))
          (by simp [hSl, hWl, hZl, hNl]; omega)
        simpa [hSl, hWl, hZl, hNl, Nat.add_assoc] using this
      obtain ⟨hver, hflg⟩ := word_split d.version d.flags hv hfl
      rw [hW] at hver hflg
      have hW3 : (W.drop 1).take 3 = W.drop 1 := List.take_of_length_le (by simp [hWl])
      simp only [h12, ne_eq, not_true_eq_false, ↓reduceIte, ht4, hL, hd4, hd8, hd9, hW3, hchunk, hver, hflg]
      rw [if_neg (by omega), if_neg (by omega)]
      simp only [foldP]
      cases hfs : f st (d.version, d.flags, d.payload) with
      | failed => rfl
      | crash => rfl
      | ok st' =>
        simp only
        have hpre' : pre ++ ((d :: r).map encodeData).flatten = (pre ++ encodeData d) ++ (r.map encodeData).flatten := by simp
        have hpos : pre.length + (d.payload.length + 16) = (pre ++ encodeData d).length := by
          simp [encodeData_length]
        rw [hpos, hpre']
        exact ih (fun x hx => hok x (by simp [hx])) (pre ++ encodeData d) n st' (by simp at hf; omega)

/-- the payload of an item atom the codec renders: its `data` atoms one after the other -/
def itemBody (ds : List Data) : Bytes := (ds.map encodeData).flatten

theorem parseData_items {σ : Type} (f : σ → Nat × Nat × Bytes → POut σ) (ds : List Data) (h : ∀ d ∈ ds, DataOK d) (st : σ) :
    parseData ((itemBody ds).length + 8) (itemBody ds) f st = foldP f st ds := by
  unfold parseData itemBody
  have := forData_encode f ds h [] ((ds.map encodeData).flatten.length + 1) st (by have := length_le_flatten ds; omega)
  simpa using this

theorem foldP_append {σ : Type} {α : Type} (f : List α → Nat × Nat × Bytes → POut (List α)) (g : Data → α) :
    ∀ (ds : List Data) (vs : List α), (∀ vs, ∀ d ∈ ds, f vs (d.version, d.flags, d.payload) = .ok (vs ++ [g d])) →
      foldP f vs ds = .ok (vs ++ ds.map g) := by
  intro ds
  induction ds with
  | nil => intro vs _; simp [foldP]
  | cons d r ih =>
    intro vs h
    simp only [foldP, h vs d (by simp)]
    rw [ih (vs ++ [g d]) (fun vs' x hx => h vs' x (by simp [hx]))]
    simp

/-- text values: `__render_text` writes one `data` atom per string (version 0, type UTF-8); `__parse_text` — for known
text atoms and for unknown atoms alike — reads the strings back, in order -/
theorem parseText_rendered (implicit : Bool) (texts : List (List Nat)) (hs : ∀ t ∈ texts, ∀ c ∈ t, Utf8.Scalar c)
    (hl : ∀ t ∈ texts, (Utf8.encode t).length + 16 < 256 ^ 4) :
    parseText implicit ((itemBody (texts.map fun t => ⟨0, 1, Utf8.encode t⟩)).length + 8)
      (itemBody (texts.map fun t => ⟨0, 1, Utf8.encode t⟩)) = .ok texts := by
  unfold parseText
  rw [parseData_items _ _ (by
    intro d hd
    obtain ⟨t, ht, rfl⟩ := List.mem_map.mp hd
    exact ⟨by show (0 : Nat) < 256; omega, by show (1 : Nat) < 16777216; omega, hl t ht⟩)]
  have := foldP_append (σ := List (List Nat)) (fun vs (item : Nat × Nat × Bytes) =>
      if (if implicit then item.2.1 ≠ 0 ∧ item.2.1 ≠ 1 else item.2.1 ≠ 1) then POut.failed
      else match Utf8.decode item.2.2 with
        | none => .failed
        | some t => .ok (vs ++ [t])) (fun d => (Utf8.decode d.payload).getD [])
    (texts.map fun t => (⟨0, 1, Utf8.encode t⟩ : Data)) [] (by
      intro vs d hd
      obtain ⟨t, ht, rfl⟩ := List.mem_map.mp hd
      simp only [Utf8.decode_encode t (hs t ht)]
      cases implicit <;> simp)
  refine this.trans ?_
  simp only [List.nil_append, List.map_map]
  congr 1
  conv => rhs; rw [← List.map_id texts]
  apply List.map_congr_left
  intro t ht
  simp [Utf8.decode_encode t (hs t ht)]

/-- integer atoms: `__render_integer` (type INTEGER, the width it chooses) and `__parse_integer` -/
theorem parseInts_rendered (vals : List (Int × Nat × Bytes)) (h : ∀ v ∈ vals, renderInt v.1 v.2.1 = some v.2.2) :
    parseInts ((itemBody (vals.map fun v => ⟨0, 21, v.2.2⟩)).length + 8) (itemBody (vals.map fun v => ⟨0, 21, v.2.2⟩)) =
      .ok (vals.map (·.1)) := by
  have hlen : ∀ v ∈ vals, v.2.2.length ≤ 8 := by
    intro v hv
    have := h v hv
    unfold renderInt intWidth at this
    repeat' split at this
    all_goals first | (cases this; done) | (simp only [Option.map_some, Option.some.injEq] at this; rw [← this, toSignedBE_length]; omega)
  unfold parseInts
  rw [parseData_items _ _ (by
    intro d hd
    obtain ⟨v, hv, rfl⟩ := List.mem_map.mp hd
    exact ⟨by show (0 : Nat) < 256; omega, by show (21 : Nat) < 16777216; omega, by have := hlen v hv; show v.2.2.length + 16 < 256 ^ 4; omega⟩)]
  have := foldP_append (σ := List Int) (fun vs (item : Nat × Nat × Bytes) =>
      if item.1 ≠ 0 then POut.failed
      else if item.2.1 ≠ 0 ∧ item.2.1 ≠ 21 then .failed
      else match parseInt item.2.2 with
        | none => .failed
        | some v => .ok (vs ++ [v])) (fun d => (parseInt d.payload).getD 0)
    (vals.map fun v => (⟨0, 21, v.2.2⟩ : Data)) [] (by
      intro vs d hd
      obtain ⟨v, hv, rfl⟩ := List.mem_map.mp hd
      simp [parseInt_renderInt v.1 v.2.1 v.2.2 (h v hv)])
  refine this.trans ?_
  simp only [List.nil_append, List.map_map]
  congr 1
  apply List.map_congr_left
  intro v hv
  simp [parseInt_renderInt v.1 v.2.1 v.2.2 (h v hv)]

/-- `trkn` / `disk`: `__render_pair` / `__render_pair_no_trailing` and `__parse_pair` -/
theorem parsePairs_rendered (trailing : Bool) (ps : List (Nat × Nat)) (h : ∀ p ∈ ps, p.1 < 65536 ∧ p.2 < 65536) :
    parsePairs ((itemBody (ps.map fun p => ⟨0, 0, renderPair p.1 p.2 trailing⟩)).length + 8)
      (itemBody (ps.map fun p => ⟨0, 0, renderPair p.1 p.2 trailing⟩)) = .ok ps := by
  unfold parsePairs
  rw [parseData_items _ _ (by
    intro d hd
    obtain ⟨p, hp, rfl⟩ := List.mem_map.mp hd
    refine ⟨by show (0 : Nat) < 256; omega, by show (0 : Nat) < 16777216; omega, ?_⟩
    cases trailing <;> simp [renderPair])]
  have := foldP_append (σ := List (Nat × Nat)) (fun vs (item : Nat × Nat × Bytes) =>
      match parsePair item.2.2 with
      | none => POut.crash
      | some p => .ok (vs ++ [p])) (fun d => (parsePair d.payload).getD (0, 0))
    (ps.map fun p => (⟨0, 0, renderPair p.1 p.2 trailing⟩ : Data)) [] (by
      intro vs d hd
      obtain ⟨p, hp, rfl⟩ := List.mem_map.mp hd
      simp [parsePair_renderPair p.1 p.2 trailing (h p hp).1 (h p hp).2])
  refine this.trans ?_
  simp only [List.nil_append, List.map_map]
  congr 1
  conv => rhs; rw [← List.map_id ps]
  apply List.map_congr_left
  intro p hp
  simp [parsePair_renderPair p.1 p.2 trailing (h p hp).1 (h p hp).2]

theorem mem_addFailed (name data : Bytes) (l : List (Bytes × List Bytes)) :
    ∃ ds, (name, ds) ∈ addFailed name data l ∧ data ∈ ds := by
  induction l with
  | nil => exact ⟨[data], by simp [addFailed], by simp⟩
  | cons kv r ih =>
    obtain ⟨k, ds0⟩ := kv
    by_cases hk : k = name
    · subst hk
      exact ⟨ds0 ++ [data], by simp [addFailed], by simp⟩
    · obtain ⟨ds, h1, h2⟩ := ih
      exact ⟨ds, by simp [addFailed, hk, h1], h2⟩

/-- a payload kept in `_failed_atoms` under a name that is not a key of the tags is written back by save as
`Atom.render(name, payload)` -/
theorem failedValues_mem (t : Tags) (name : Bytes) (ds : List Bytes) (data : Bytes) (h : (name, ds) ∈ t.failed)
    (hd : data ∈ ds) (hk : ∀ it ∈ t.items, it.1 ≠ name) : renderAtom name data ∈ failedValues t := by
  unfold failedValues
  rw [List.mem_flatMap]
  refine ⟨(name, ds), ?_, List.mem_map.mpr ⟨data, hd, rfl⟩⟩
  rw [List.mem_filter]
  refine ⟨h, ?_⟩
  simp only [Bool.not_eq_true', List.any_eq_false, beq_iff_eq]
  intro it hit
  exact hk it hit

end Mutagen.Mp4R
