/- Proofs/Container/FlacCap.lean — FLAC._save on a device with finite capacity (C19) -/
import MutagenModel.Proofs.Container.Flac
import MutagenModel.Proofs.FileOpsCap
set_option linter.unusedVariables false
namespace Mutagen.FlacC
open Mutagen

theorem clean_quiet : Quiet Env.clean := ⟨fun _ => rfl, fun _ => rfl⟩

/-- FLAC._save when the device may run full: either the save completes (the file is the
rendering of the saved layout) or ENOSPC is raised and the file is byte-identical, length
included, to what it was — the metadata area is enlarged before anything is overwritten -/
theorem saveM_q {e : Env} (hq : Quiet e) (B : Nat) (hB : 0 < B) (L : Layout) (blocks : List Block) (pad : PadChoice)
    (hsz : ∀ b ∈ blocks, b.data.length ≤ maxSize) (s : FS) (hs : s.data = render L) :
    (∃ s', saveM B L blocks pad e s = (.ok (), s') ∧ s'.data = render (msave L blocks false pad)) ∨
    (∃ s', saveM B L blocks pad e s = (.error .enospc, s') ∧ s'.data = s.data) := by
  unfold saveM
  simp only [writeBlocks_ok blocks _ _ pad hsz]
  generalize hdata : renderBlocks (newBlocks blocks (renderBlocks L.blocks).length L.audio.length pad) = data
  have hlen : L.pre.length + 4 + (renderBlocks L.blocks).length ≤ s.data.length := by
    rw [hs]; simp [render, magic]; omega
  rcases resizeBytes_q hq B hB (renderBlocks L.blocks).length data.length (L.pre.length + 4) s hlen with
    ⟨s1, gap, hr, hg, hd⟩ | ⟨s1, hr, hd⟩
  · left
    have htake : s.data.take (L.pre.length + 4) = L.pre ++ magic := by
      rw [hs]; simp only [render, List.append_assoc]
      rw [← List.append_assoc L.pre magic, List.take_left' (by simp [magic])]
    have hdrop : s.data.drop (L.pre.length + 4 + (renderBlocks L.blocks).length) = L.audio := by
      rw [hs]; simp only [render]
      rw [List.drop_left' (by simp [magic]; omega)]
    rw [htake, hdrop] at hd
    generalize hM : (s.data.drop (L.pre.length + 4)).take (min (renderBlocks L.blocks).length data.length) ++ gap = M at hd
    have hMl : M.length = data.length := by
      rw [← hM]
      have : (s.data.drop (L.pre.length + 4)).length = (renderBlocks L.blocks).length + L.audio.length := by
        rw [hs]; simp [render, magic]
      simp only [List.length_append, List.length_take, this, hg]; omega
    have hd' : s1.data = L.pre ++ magic ++ M ++ L.audio := by
      rw [hd, ← hM]; simp only [List.append_assoc]
    have e1 : L.pre.length + 4 - 4 = L.pre.length := by omega
    simp only [bind_run, hr, fseek_q hq, e1]
    -- write "fLaC" over itself
    have hw1 : L.pre.length + magic.length ≤ s1.data.length := by
      rw [hd']; simp only [List.length_append]; omega
    rw [fwrite_q_inside hq magic _ (by simpa using hw1)]
    simp only
    have w1 : writeData s1.data L.pre.length magic = L.pre ++ magic ++ M ++ L.audio := by
      rw [writeData_inside _ _ _ (by omega), hd']
      have := writeAt_mid L.pre magic (M ++ L.audio) magic rfl
      simp only [List.append_assoc] at this ⊢
      exact this
    rw [w1]
    have hw2 : L.pre.length + magic.length + data.length ≤ (L.pre ++ magic ++ M ++ L.audio).length := by
      simp only [List.length_append]; omega
    rw [fwrite_q_inside hq data _ (by simpa using hw2)]
    refine ⟨_, rfl, ?_⟩
    rw [render_msave, hdata]
    show writeData (L.pre ++ magic ++ M ++ L.audio) (L.pre.length + magic.length) data = _
    have e2 : L.pre.length + magic.length = (L.pre ++ magic).length := by simp
    rw [e2, writeData_inside _ _ _ (by simp only [List.length_append]; omega)]
    exact writeAt_mid (L.pre ++ magic) M L.audio data hMl
  · right
    simp only [bind_run, hr]
    exact ⟨s1, rfl, hd⟩

end Mutagen.FlacC
