/- Proofs/Container/Mp4LoadCap.lean — MP4.load as a program over the file object: what it returns without faults, which
exceptions leave it under arbitrary faults, and that it never writes -/
import MutagenModel.Proofs.Container.Mp4Cap
import MutagenModel.Model.Container.Mp4LoadM
set_option linter.unusedVariables false
namespace Mutagen.Mp4C
open Mutagen

/-! ### A. without injected faults the atom reader returns the pure parse -/

theorem fseekRel_q {e : Env} (hq : Quiet e) (n : Nat) (s : FS) :
    fseekRel n e s = (.ok (), { data := s.data, pos := s.pos + n, ops := s.ops + 1, log := .seek n :: s.log }) := by
  simp [fseekRel, bind_run, tick_q hq]

/-- outcome of a reader program against the pure reader: same value, the file position where the pure reader says,
the bytes untouched; errors are AtomError (`.mutagen`) or the fuel marker -/
def ReadsAs {α : Type} (r : Except PyErr α × FS) (s : FS) (p : Except PyErr (α × Nat)) : Prop :=
  r.2.data = s.data ∧
    match p with
    | .ok (a, pos) => r.1 = .ok a ∧ r.2.pos = pos
    | .error x => r.1 = .error x ∧ (x = .mutagen ∨ x = .diverge)

theorem convert_readsAs {α : Type} (m : FileM α) (e : Env) (s : FS) (p : Except PyErr (α × Nat))
    (h : ReadsAs (m e s) s p) : ReadsAs (convertError PyErr.isIO .mutagen m e s) s p := by
  unfold ReadsAs at h ⊢
  unfold convertError
  cases hm : m e s with
  | mk r s' =>
    rw [hm] at h
    cases r with
    | ok a => simpa using h
    | error x =>
      obtain ⟨hd, hp⟩ := h
      cases p with
      | ok ap => obtain ⟨a, pos⟩ := ap; simp at hp
      | error y =>
        simp only [Except.error.injEq] at hp
        obtain ⟨rfl, hy⟩ := hp
        have : PyErr.isIO x = false := by rcases hy with rfl | rfl <;> rfl
        simp only [this, Bool.false_eq_true, ↓reduceIte]
        exact ⟨hd, by simp, hy⟩

theorem readsAs_err {α : Type} (s s' : FS) (x : PyErr) (hd : s'.data = s.data) (hx : x = .mutagen ∨ x = .diverge) :
    ReadsAs ((.error x, s') : Except PyErr α × FS) s (.error x) := ⟨hd, rfl, hx⟩

theorem atomM_q {e : Env} (hq : Quiet e) : ∀ fuel : Nat,
    (∀ (level : Nat) (s : FS), ReadsAs (atomM fuel level e s) s (parseAtom fuel s.data s.pos level)) ∧
    (∀ (stop level : Nat) (s : FS), ReadsAs (kidsM fuel stop level e s) s (parseKids fuel s.data s.pos stop level)) := by
  intro fuel
  induction fuel with
  | zero =>
    exact ⟨fun level s => by simp [atomM, parseAtom, ReadsAs], fun stop level s => by simp [kidsM, parseKids, ReadsAs]⟩
  | succ fuel ih =>
    obtain ⟨ihA, ihK⟩ := ih
    refine ⟨fun level s => ?_, fun stop level s => ?_⟩
    · unfold atomM
      apply convert_readsAs
      unfold parseAtom
      simp only [bind_run, ftell_q hq, fread_q hq]
      generalize hhdr : readAt s.data s.pos 8 = hdr
      by_cases h8 : hdr.length < 8
      · simp only [h8, ↓reduceIte, raise_run]
        exact readsAs_err _ _ _ rfl (Or.inl rfl)
      · have hl8 : hdr.length = 8 := by
          have : hdr.length ≤ 8 := by rw [← hhdr, length_readAt']; omega
          omega
        simp only [hl8, Nat.lt_irrefl, ↓reduceIte]
        generalize hname : List.drop 4 hdr = name
        have htail : ∀ (a : Nat × Nat) (s1 : FS), s1.data = s.data → s1.pos = a.2 →
            ReadsAs ((if isContainer name = true then
                if level > 64 then raise PyErr.mutagen
                else do
                  fseekRel (skipSize name)
                  let kids ← kidsM fuel (s.pos + a.fst) (level + 1)
                  pure (PAtom.mk name s.pos a.fst a.snd kids)
              else do
                fseek (s.pos + a.fst)
                pure (PAtom.mk name s.pos a.fst a.snd []) : FileM PAtom) e s1) s
              (if isContainer name = true then
                if level > 64 then Except.error PyErr.mutagen
                else
                  match parseKids fuel s.data (a.2 + skipSize name) (s.pos + a.1) (level + 1) with
                  | Except.error e => Except.error e
                  | Except.ok (kids, p) => Except.ok (PAtom.mk name s.pos a.1 a.2 kids, p)
              else Except.ok (PAtom.mk name s.pos a.1 a.2 [], s.pos + a.1)) := by
          intro a s1 hd hp
          by_cases hc : isContainer name = true
          · simp only [hc, ↓reduceIte]
            by_cases hlv : level > 64
            · simp only [hlv, ↓reduceIte, raise_run]
              exact readsAs_err _ _ _ hd (Or.inl rfl)
            · simp only [hlv, ↓reduceIte, bind_run, fseekRel_q hq]
              have hk := ihK (s.pos + a.1) (level + 1)
                { data := s1.data, pos := s1.pos + skipSize name, ops := s1.ops + 1, log := Op.seek (skipSize name) :: s1.log }
              simp only [hd, hp] at hk ⊢
              unfold ReadsAs at hk ⊢
              cases hpk : parseKids fuel s.data (a.2 + skipSize name) (s.pos + a.1) (level + 1) with
              | error x =>
                rw [hpk] at hk
                obtain ⟨h1, h2, h3⟩ := hk
                cases hm : kidsM fuel (s.pos + a.1) (level + 1) e
                  { data := s.data, pos := a.2 + skipSize name, ops := s1.ops + 1, log := Op.seek (skipSize name) :: s1.log } with
                | mk r s2 =>
                  rw [hm] at h1 h2
                  simp only at h1 h2
                  subst h2
                  exact ⟨h1, rfl, h3⟩
              | ok kp =>
                obtain ⟨kids, p⟩ := kp
                rw [hpk] at hk
                obtain ⟨h1, h2, h3⟩ := hk
                cases hm : kidsM fuel (s.pos + a.1) (level + 1) e
                  { data := s.data, pos := a.2 + skipSize name, ops := s1.ops + 1, log := Op.seek (skipSize name) :: s1.log } with
                | mk r s2 =>
                  rw [hm] at h1 h2 h3
                  simp only at h1 h2 h3
                  subst h2
                  exact ⟨h1, rfl, h3⟩
          · simp only [hc, Bool.false_eq_true, ↓reduceIte, bind_run, fseek_q hq, pure_run]
            exact ⟨hd, rfl, rfl⟩
        by_cases h1 : ofBE (List.take 4 hdr) = 1
        · simp only [h1, ↓reduceIte, bind_run, fread_q hq]
          generalize hext : readAt s.data (s.pos + 8) 8 = ext
          by_cases he8 : ext.length < 8
          · simp only [he8, ↓reduceIte, raise_run]
            exact readsAs_err _ _ _ rfl (Or.inl rfl)
          · have hle8 : ext.length = 8 := by
              have : ext.length ≤ 8 := by rw [← hext, length_readAt']; omega
              omega
            by_cases he16 : ofBE ext < 16
            · simp only [he8, he16, ↓reduceIte, raise_run]
              exact readsAs_err _ _ _ rfl (Or.inl rfl)
            · simp only [he8, he16, ↓reduceIte, pure_run, hle8, Nat.lt_irrefl]
              exact htail (ofBE ext, s.pos + 16) _ rfl (by show s.pos + 8 + 8 = s.pos + 16; omega)
        · simp only [h1, ↓reduceIte]
          by_cases h0 : ofBE (List.take 4 hdr) = 0
          · simp only [h0, ↓reduceIte]
            by_cases hl0 : level ≠ 0
            · simp only [hl0, ↓reduceIte, raise_run, ne_eq, not_false_eq_true]
              exact readsAs_err _ _ _ rfl (Or.inl rfl)
            · simp only [hl0, ↓reduceIte, bind_run, fseekEnd_q hq, ftell_q hq, fseek_q hq, pure_run]
              exact htail (s.data.length - s.pos, s.pos + 8) _ rfl rfl
          · simp only [h0, ↓reduceIte]
            by_cases hlt : ofBE (List.take 4 hdr) < 8
            · simp only [hlt, ↓reduceIte, raise_run]
              exact readsAs_err _ _ _ rfl (Or.inl rfl)
            · simp only [hlt, ↓reduceIte, pure_run]
              exact htail (ofBE (List.take 4 hdr), s.pos + 8) _ rfl rfl
    · unfold kidsM parseKids
      simp only [bind_run, ftell_q hq]
      by_cases hlt : s.pos < stop
      · simp only [hlt, ↓reduceIte, bind_run]
        have ha := ihA level { s with ops := s.ops + 1, log := Op.tell :: s.log }
        unfold ReadsAs at ha ⊢
        simp only at ha
        cases hpa : parseAtom fuel s.data s.pos level with
        | error x =>
          rw [hpa] at ha
          obtain ⟨h1, h2, h3⟩ := ha
          cases hm : atomM fuel level e { s with ops := s.ops + 1, log := Op.tell :: s.log } with
          | mk r s2 =>
            rw [hm] at h1 h2
            simp only at h1 h2
            subst h2
            exact ⟨h1, rfl, h3⟩
        | ok ap =>
          obtain ⟨a, p⟩ := ap
          rw [hpa] at ha
          obtain ⟨h1, h2, h3⟩ := ha
          cases hm : atomM fuel level e { s with ops := s.ops + 1, log := Op.tell :: s.log } with
          | mk r s2 =>
            rw [hm] at h1 h2 h3
            simp only at h1 h2 h3
            subst h2
            have hk := ihK stop level s2
            unfold ReadsAs at hk
            rw [h1, h3] at hk
            simp only
            cases hpk : parseKids fuel s.data p stop level with
            | error x =>
              rw [hpk] at hk
              obtain ⟨k1, k2, k3⟩ := hk
              cases hm2 : kidsM fuel stop level e s2 with
              | mk r2 s3 =>
                rw [hm2] at k1 k2
                simp only at k1 k2
                subst k2
                exact ⟨k1, rfl, k3⟩
            | ok rp =>
              obtain ⟨rr, p2⟩ := rp
              rw [hpk] at hk
              obtain ⟨k1, k2, k3⟩ := hk
              cases hm2 : kidsM fuel stop level e s2 with
              | mk r2 s3 =>
                rw [hm2] at k1 k2 k3
                simp only at k1 k2 k3
                subst k2
                exact ⟨k1, rfl, k3⟩
      · simp only [hlt, ↓reduceIte, pure_run]
        exact ⟨rfl, rfl, rfl⟩

theorem topM_q {e : Env} (hq : Quiet e) : ∀ (fuel : Nat) (s : FS),
    ∃ s', topM fuel s.data.length e s = (parseTop fuel s.data s.pos, s') ∧ s'.data = s.data := by
  intro fuel
  induction fuel with
  | zero => intro s; exact ⟨s, rfl, rfl⟩
  | succ fuel ih =>
    intro s
    unfold topM parseTop
    simp only [bind_run, ftell_q hq]
    by_cases hlt : s.pos + 8 ≤ s.data.length
    · simp only [hlt, ↓reduceIte, bind_run]
      have ha := (atomM_q hq fuel).1 0 { s with ops := s.ops + 1, log := Op.tell :: s.log }
      unfold ReadsAs at ha
      simp only at ha
      cases hm : atomM fuel 0 e { s with ops := s.ops + 1, log := Op.tell :: s.log } with
      | mk r s2 =>
        rw [hm] at ha
        simp only at ha
        cases hpa : parseAtom fuel s.data s.pos 0 with
        | error x =>
          rw [hpa] at ha
          obtain ⟨h1, h2, _⟩ := ha
          subst h2
          exact ⟨s2, rfl, h1⟩
        | ok ap =>
          obtain ⟨a, p⟩ := ap
          rw [hpa] at ha
          obtain ⟨h1, h2, h3⟩ := ha
          subst h2
          obtain ⟨s3, k1, k2⟩ := ih s2
          rw [h1, h3] at k1
          simp only
          rw [k1]
          cases parseTop fuel s.data p with
          | error x => exact ⟨s3, rfl, k2.trans h1⟩
          | ok r => exact ⟨s3, rfl, k2.trans h1⟩
    · simp only [hlt, ↓reduceIte, pure_run]
      exact ⟨_, rfl, rfl⟩

/-- `Atoms(fileobj)` without injected faults returns the pure parse of the bytes, whatever the position before -/
theorem atomsM_q {e : Env} (hq : Quiet e) (s : FS) :
    ∃ s', atomsM e s = (parse s.data, s') ∧ s'.data = s.data := by
  unfold atomsM parse
  obtain ⟨s1, h1, h2⟩ := topM_q hq (s.data.length + 4)
    { data := s.data, pos := 0, ops := s.ops + 1 + 1 + 1, log := .seek 0 :: .tell :: .seekEnd :: s.log }
  simp only at h1 h2
  have hinner : (do fseekEnd; let endd ← ftell; fseek 0; topM (endd + 4) endd : FileM (List PAtom)) e s =
      (parseTop (s.data.length + 4) s.data 0, s1) := by
    simp only [bind_run, fseekEnd_q hq, ftell_q hq, fseek_q hq]
    exact h1
  cases hp : parseTop (s.data.length + 4) s.data 0 with
  | ok atoms =>
    rw [hp] at hinner
    exact ⟨s1, convertError_of_ok _ _ _ _ _ _ _ hinner, h2⟩
  | error x =>
    rw [hp] at hinner
    refine ⟨s1, ?_, h2⟩
    rw [convertError_of_err _ _ _ _ _ _ _ hinner]
    have hx : x = .mutagen := (parseTop_core s.data (s.data.length + 4) 0 (by omega)).1 x hp
    subst hx
    rfl

theorem atomReadM_q {e : Env} (hq : Quiet e) (a : PAtom) (s : FS) :
    ∃ s', atomReadM a e s = (.ok (Info.Mp4.atomRead s.data a), s') ∧ s'.data = s.data := by
  unfold atomReadM Info.Mp4.atomRead
  simp only [bind_run, fseek_q hq, fread_q hq, pure_run]
  exact ⟨_, rfl, rfl⟩

theorem findAudioTrakM_q {e : Env} (hq : Quiet e) : ∀ (l : List PAtom) (s : FS),
    ∃ s', findAudioTrakM l e s = (Info.Mp4.findAudioTrak s.data l, s') ∧ s'.data = s.data := by
  intro l
  induction l with
  | nil => intro s; exact ⟨s, rfl, rfl⟩
  | cons t r ih =>
    intro s
    unfold findAudioTrakM Info.Mp4.findAudioTrak
    by_cases hn : t.name = nTrak
    · simp only [hn, ↓reduceIte]
      cases hh : (path? t.children [nMdia, Info.Mp4.nHdlr]).bind List.getLast? with
      | none => exact ⟨s, rfl, rfl⟩
      | some hdlr =>
        obtain ⟨s1, h1, h2⟩ := atomReadM_q hq hdlr s
        simp only [bind_run, h1]
        cases Info.Mp4.atomRead s.data hdlr with
        | none => exact ⟨s1, rfl, h2⟩
        | some data =>
          simp only
          by_cases hs : readAt data 8 4 = Info.Mp4.nSoun
          · simp only [hs, ↓reduceIte, pure_run]
            exact ⟨s1, rfl, h2⟩
          · simp only [hs, ↓reduceIte]
            obtain ⟨s2, k1, k2⟩ := ih s1
            rw [h2] at k1
            exact ⟨s2, k1, k2.trans h2⟩
    · simp only [hn, ↓reduceIte]
      exact ih s

theorem childrenM_q {e : Env} (hq : Quiet e) : ∀ (l : List PAtom) (s : FS),
    ∃ s', childrenM l e s = (childrenPure s.data l, s') ∧ s'.data = s.data := by
  intro l
  induction l with
  | nil => intro s; exact ⟨s, rfl, rfl⟩
  | cons a r ih =>
    intro s
    unfold childrenM childrenPure
    obtain ⟨s1, h1, h2⟩ := atomReadM_q hq a s
    simp only [bind_run, h1]
    cases Info.Mp4.atomRead s.data a with
    | none => exact ⟨s1, rfl, h2⟩
    | some d =>
      simp only
      obtain ⟨s2, k1, k2⟩ := ih s1
      rw [h2] at k1
      simp only [bind_run, k1]
      cases childrenPure s.data r with
      | error x => exact ⟨s2, rfl, k2.trans h2⟩
      | ok rest => exact ⟨s2, rfl, k2.trans h2⟩

/-- the conversion `except Exception: reraise(error)` of an outcome -/
def wrapErr {α : Type} (r : Except PyErr α) : Except PyErr α :=
  match r with
  | .ok a => .ok a
  | .error x => .error (if isException x then .mutagen else x)

theorem tryCatch_wrap {α : Type} (m : FileM α) (e : Env) (s s1 : FS) (r : Except PyErr α) (h : m e s = (r, s1)) :
    tryCatch m isException (fun _ => raise .mutagen) e s = (wrapErr r, s1) := by
  unfold tryCatch wrapErr
  rw [h]
  cases r with
  | ok a => rfl
  | error x => simp only; split <;> simp [raise_run]

theorem infoM_q {e : Env} (hq : Quiet e) (atoms : List PAtom) (s : FS) :
    ∃ s', infoM atoms e s = (wrapErr (infoPure s.data atoms), s') ∧ s'.data = s.data := by
  unfold infoM
  suffices h : ∃ s', (do
      match child? atoms nMoov with
      | none => raise .mutagen
      | some moov =>
        match ← findAudioTrakM moov.children with
        | none => pure Info.Mp4.Info.default
        | some trak =>
          match (path? trak.children [nMdia, Info.Mp4.nMdhd]).bind List.getLast? with
          | none => raise .mutagen
          | some mdhd =>
            match ← atomReadM mdhd with
            | none => raise .mutagen
            | some data =>
              match Info.Mp4.mdhdLength data with
              | .error _ => raise .mutagen
              | .ok len =>
                let i := { Info.Mp4.Info.default with length := len }
                match (path? trak.children [nMdia, nMinf, nStbl, Info.Mp4.nStsd]).bind List.getLast? with
                | none => pure i
                | some stsd =>
                  match ← atomReadM stsd with
                  | none => raise .mutagen
                  | some sd =>
                    match Info.Mp4.parseStsd i sd with
                    | .error _ => raise .mutagen
                    | .ok i' => pure i' : FileM Info.Mp4.Info) e s = (infoPure s.data atoms, s') ∧ s'.data = s.data by
    obtain ⟨s1, h1, h2⟩ := h
    exact ⟨s1, tryCatch_wrap _ e s s1 _ h1, h2⟩
  unfold infoPure
  cases child? atoms nMoov with
  | none => exact ⟨s, rfl, rfl⟩
  | some moov =>
    obtain ⟨s1, h1, h2⟩ := findAudioTrakM_q hq moov.children s
    simp only [bind_run, h1]
    cases Info.Mp4.findAudioTrak s.data moov.children with
    | error x => exact ⟨s1, rfl, h2⟩
    | ok ot =>
      cases ot with
      | none => exact ⟨s1, rfl, h2⟩
      | some trak =>
        simp only
        cases (path? trak.children [nMdia, Info.Mp4.nMdhd]).bind List.getLast? with
        | none => exact ⟨s1, rfl, h2⟩
        | some mdhd =>
          obtain ⟨s2, k1, k2⟩ := atomReadM_q hq mdhd s1
          rw [h2] at k1
          simp only [bind_run, k1]
          cases Info.Mp4.atomRead s.data mdhd with
          | none => exact ⟨s2, rfl, k2.trans h2⟩
          | some data =>
            simp only
            cases Info.Mp4.mdhdLength data with
            | error x => exact ⟨s2, rfl, k2.trans h2⟩
            | ok len =>
              simp only
              cases (path? trak.children [nMdia, nMinf, nStbl, Info.Mp4.nStsd]).bind List.getLast? with
              | none => exact ⟨s2, rfl, k2.trans h2⟩
              | some stsd =>
                obtain ⟨s3, j1, j2⟩ := atomReadM_q hq stsd s2
                rw [k2, h2] at j1
                simp only [bind_run, j1]
                cases Info.Mp4.atomRead s.data stsd with
                | none => exact ⟨s3, rfl, (j2.trans k2).trans h2⟩
                | some sd =>
                  simp only
                  cases Info.Mp4.parseStsd { Info.Mp4.Info.default with length := len } sd with
                  | error x => exact ⟨s3, rfl, (j2.trans k2).trans h2⟩
                  | ok i' => exact ⟨s3, rfl, (j2.trans k2).trans h2⟩

theorem tagsM_q {e : Env} (hq : Quiet e) (atoms : List PAtom) (s : FS) :
    ∃ s', tagsM atoms e s = (tagsPure s.data atoms, s') ∧ s'.data = s.data := by
  unfold tagsM tagsPure
  cases path? atoms ilstPath with
  | none => exact ⟨s, rfl, rfl⟩
  | some p =>
    simp only
    cases hl : p.getLast? with
    | none =>
      refine ⟨s, ?_, rfl⟩
      rw [tryCatch_wrap _ e s s (.error .mutagen) (by simp [raise_run])]
      rfl
    | some ilst =>
      obtain ⟨s1, h1, h2⟩ := childrenM_q hq ilst.children s
      have hb : (do let cs ← childrenM ilst.children; pure (some cs) : FileM (Option (List (Bytes × Bytes)))) e s =
          ((match childrenPure s.data ilst.children with | .ok cs => .ok (some cs) | .error x => .error x), s1) := by
        simp only [bind_run, h1]
        cases childrenPure s.data ilst.children <;> rfl
      refine ⟨s1, ?_, h2⟩
      rw [tryCatch_wrap _ e s s1 _ hb]
      simp only []
      cases childrenPure s.data ilst.children <;> rfl

/-- refinement: without injected faults (any capacity) `MP4(fileobj)` returns what the pure load returns on the bytes
of the file, and the file is unchanged — for EVERY byte string and every start position -/
theorem loadM_q {e : Env} (hq : Quiet e) (s : FS) :
    ∃ s', loadM e s = (loadPure s.data, s') ∧ s'.data = s.data := by
  unfold loadM loadPure
  obtain ⟨s1, h1, h2⟩ := atomsM_q hq s
  simp only [bind_run, h1]
  cases parse s.data with
  | error x => exact ⟨s1, rfl, h2⟩
  | ok atoms =>
    simp only
    obtain ⟨s2, k1, k2⟩ := infoM_q hq atoms s1
    rw [h2] at k1
    simp only [k1]
    unfold wrapErr
    cases infoPure s.data atoms with
    | error x => exact ⟨s2, rfl, k2.trans h2⟩
    | ok info =>
      simp only
      obtain ⟨s3, j1, j2⟩ := tagsM_q hq atoms s2
      rw [k2, h2] at j1
      simp only [j1]
      cases tagsPure s.data atoms with
      | error x => exact ⟨s3, rfl, (j2.trans k2).trans h2⟩
      | ok tags => exact ⟨s3, rfl, (j2.trans k2).trans h2⟩

/-! ### B. arbitrary fault environments: which exceptions leave the load -/

/-- MutagenError, the fuel marker, or an exception the file object raised -/
def LP (e : Env) (x : PyErr) : Prop := x = .mutagen ∨ x = .diverge ∨ Injected e x
/-- … that is not an IOError -/
def LP' (e : Env) (x : PyErr) : Prop := x = .mutagen ∨ x = .diverge ∨ (Injected e x ∧ x.isIO = false)

theorem LP'_LP {e : Env} {x : PyErr} (h : LP' e x) : LP e x := by
  rcases h with h | h | ⟨h, _⟩
  · exact Or.inl h
  · exact Or.inr (Or.inl h)
  · exact Or.inr (Or.inr h)

theorem raises_convert {α : Type} {m : FileM α} (h : Raises LP m) : Raises LP' (convertError PyErr.isIO .mutagen m) := by
  intro e s x s' hx
  rcases Raises.convertError PyErr.isIO .mutagen h e s x s' hx with h1 | ⟨h1, h2⟩
  · exact Or.inl h1
  · rcases h1 with h1 | h1 | h1
    · exact Or.inl h1
    · exact Or.inr (Or.inl h1)
    · exact Or.inr (Or.inr ⟨h1, h2⟩)

theorem raises_tryExc {α : Type} {m : FileM α} (h : Raises LP m) :
    Raises LP' (tryCatch m isException (fun _ => raise .mutagen)) := by
  intro e s x s' hx
  unfold tryCatch at hx
  cases hm : m e s with
  | mk r s1 =>
    rw [hm] at hx
    cases r with
    | ok a => simp at hx
    | error y =>
      simp only at hx
      split at hx
      · simp only [raise_run, Prod.mk.injEq, Except.error.injEq] at hx
        exact Or.inl hx.1.symm
      · rename_i hne
        simp only [Prod.mk.injEq, Except.error.injEq] at hx
        obtain ⟨rfl, _⟩ := hx
        have hy : y = .systemExit := by
          unfold isException at hne
          simpa using hne
        rcases h e s y s1 hm with h1 | h1 | h1
        · rw [hy] at h1; cases h1
        · rw [hy] at h1; cases h1
        · exact Or.inr (Or.inr ⟨h1, by rw [hy]; rfl⟩)

theorem lSeek (p : Nat) : Raises LP (fseek p) := (Raises.fseek p).weaken fun _ _ h => Or.inr (Or.inr h)
theorem lSeekEnd : Raises LP fseekEnd := Raises.fseekEnd.weaken fun _ _ h => Or.inr (Or.inr h)
theorem lTell : Raises LP ftell := Raises.ftell.weaken fun _ _ h => Or.inr (Or.inr h)
theorem lRead (n : Nat) : Raises LP (fread n) := (Raises.fread n).weaken fun _ _ h => Or.inr (Or.inr h)
theorem lSeekRel (n : Nat) : Raises LP (fseekRel n) :=
  (Raises.bind (Raises.tick _) (fun _ => by intro e s err s' h; cases h)).weaken fun _ _ h => Or.inr (Or.inr h)
theorem lMut {α : Type} : Raises LP (raise .mutagen : FileM α) := Raises.raise _ fun _ => Or.inl rfl
theorem lDiv {α : Type} : Raises LP (raise .diverge : FileM α) := Raises.raise _ fun _ => Or.inr (Or.inl rfl)

theorem raises_atomM : ∀ fuel : Nat, (∀ level, Raises LP' (atomM fuel level)) ∧ (∀ stop level, Raises LP (kidsM fuel stop level)) := by
  intro fuel
  induction fuel with
  | zero =>
    refine ⟨fun level => ?_, fun stop level => ?_⟩
    · unfold atomM; exact Raises.raise _ fun _ => Or.inr (Or.inl rfl)
    · unfold kidsM; exact lDiv
  | succ fuel ih =>
    obtain ⟨ihA, ihK⟩ := ih
    refine ⟨fun level => ?_, fun stop level => ?_⟩
    · unfold atomM
      apply raises_convert
      apply Raises.bind lTell; intro pos
      apply Raises.bind (lRead _); intro hdr
      split
      · exact lMut
      · simp only []
        apply Raises.bind
        · split
          · apply Raises.bind (lRead _); intro ext
            split
            · exact lMut
            · split
              · exact lMut
              · exact Raises.pure _ _
          · split
            · split
              · exact lMut
              · apply Raises.bind lSeekEnd; intro _
                apply Raises.bind lTell; intro size
                apply Raises.bind (lSeek _); intro _
                exact Raises.pure _ _
            · split
              · exact lMut
              · exact Raises.pure _ _
        · intro ld
          split
          · split
            · exact lMut
            · apply Raises.bind (lSeekRel _); intro _
              apply Raises.bind (ihK _ _); intro kids
              exact Raises.pure _ _
          · apply Raises.bind (lSeek _); intro _
            exact Raises.pure _ _
    · unfold kidsM
      apply Raises.bind lTell; intro t
      split
      · apply Raises.bind ((ihA level).weaken fun _ _ h => LP'_LP h); intro a
        apply Raises.bind (ihK stop level); intro r
        exact Raises.pure _ _
      · exact Raises.pure _ _

theorem raises_topM : ∀ fuel endd, Raises LP (topM fuel endd) := by
  intro fuel
  induction fuel with
  | zero => intro endd; unfold topM; exact lDiv
  | succ fuel ih =>
    intro endd
    unfold topM
    apply Raises.bind lTell; intro t
    split
    · apply Raises.bind (((raises_atomM fuel).1 0).weaken fun _ _ h => LP'_LP h); intro a
      apply Raises.bind (ih endd); intro r
      exact Raises.pure _ _
    · exact Raises.pure _ _

theorem raises_atomsM : Raises LP' atomsM := by
  unfold atomsM
  apply raises_convert
  apply Raises.bind lSeekEnd; intro _
  apply Raises.bind lTell; intro endd
  apply Raises.bind (lSeek _); intro _
  exact raises_topM _ _

theorem raises_atomReadM (a : PAtom) : Raises LP (atomReadM a) := by
  unfold atomReadM
  apply Raises.bind (lSeek _); intro _
  apply Raises.bind (lRead _); intro d
  exact Raises.pure _ _

theorem raises_findAudioTrakM : ∀ l, Raises LP (findAudioTrakM l) := by
  intro l
  induction l with
  | nil => unfold findAudioTrakM; exact Raises.pure _ _
  | cons t r ih =>
    unfold findAudioTrakM
    split
    · split
      · exact lMut
      · apply Raises.bind (raises_atomReadM _); intro od
        split
        · exact lMut
        · split
          · exact Raises.pure _ _
          · exact ih
    · exact ih

theorem raises_childrenM : ∀ l, Raises LP (childrenM l) := by
  intro l
  induction l with
  | nil => unfold childrenM; exact Raises.pure _ _
  | cons a r ih =>
    unfold childrenM
    apply Raises.bind (raises_atomReadM _); intro od
    split
    · exact lMut
    · apply Raises.bind ih; intro rest
      exact Raises.pure _ _

theorem raises_infoM (atoms : List PAtom) : Raises LP' (infoM atoms) := by
  unfold infoM
  apply raises_tryExc
  split
  · exact lMut
  · apply Raises.bind (raises_findAudioTrakM _); intro ot
    split
    · exact Raises.pure _ _
    · split
      · exact lMut
      · apply Raises.bind (raises_atomReadM _); intro od
        split
        · exact lMut
        · split
          · exact lMut
          · simp only []
            split
            · exact Raises.pure _ _
            · apply Raises.bind (raises_atomReadM _); intro osd
              split
              · exact lMut
              · split
                · exact lMut
                · exact Raises.pure _ _

theorem raises_tagsM (atoms : List PAtom) : Raises LP' (tagsM atoms) := by
  unfold tagsM
  split
  · exact Raises.pure _ _
  · apply raises_tryExc
    split
    · exact lMut
    · apply Raises.bind (raises_childrenM _); intro cs
      exact Raises.pure _ _

/-- `MP4(fileobj)` under ANY fault environment (injected exceptions at any call, short reads, any capacity): what
leaves is `error` (MutagenError), the fuel marker, or an exception the file object itself raised that is not an IOError -/
theorem raises_loadM : Raises LP' loadM := by
  unfold loadM
  apply Raises.bind raises_atomsM; intro atoms
  apply Raises.bind (raises_infoM atoms); intro info
  apply Raises.bind (raises_tagsM atoms); intro tags
  exact Raises.pure _ _

/-! ### C. the load never writes -/

/-- whatever happens, the bytes of the file are as before -/
def NoWrite {α : Type} (m : FileM α) : Prop := ∀ e s r s', m e s = (r, s') → s'.data = s.data

theorem NoWrite.pure {α : Type} (a : α) : NoWrite (pure a : FileM α) := by
  intro e s r s' h; simp only [pure_run, Prod.mk.injEq] at h; rw [← h.2]
theorem NoWrite.raise {α : Type} (x : PyErr) : NoWrite (raise x : FileM α) := by
  intro e s r s' h; simp only [raise_run, Prod.mk.injEq] at h; rw [← h.2]
theorem NoWrite.bind {α β : Type} {m : FileM α} {f : α → FileM β} (hm : NoWrite m) (hf : ∀ a, NoWrite (f a)) :
    NoWrite (m >>= f) := by
  intro e s r s' h
  simp only [bind_run] at h
  cases hms : m e s with
  | mk r1 s1 =>
    rw [hms] at h
    have h1 := hm e s r1 s1 hms
    cases r1 with
    | ok a => exact (hf a e s1 r s' h).trans h1
    | error x => simp only [Prod.mk.injEq] at h; rw [← h.2]; exact h1
theorem NoWrite.tick (o : Op) : NoWrite (tick o) := by
  intro e s r s' h
  unfold Mutagen.tick at h
  split at h <;> (simp only [Prod.mk.injEq] at h; rw [← h.2])
theorem NoWrite.fseek (p : Nat) : NoWrite (fseek p) :=
  NoWrite.bind (NoWrite.tick _) fun _ => by intro e s r s' h; simp only [Prod.mk.injEq] at h; rw [← h.2]
theorem NoWrite.fseekRel (p : Nat) : NoWrite (fseekRel p) :=
  NoWrite.bind (NoWrite.tick _) fun _ => by intro e s r s' h; simp only [Prod.mk.injEq] at h; rw [← h.2]
theorem NoWrite.fseekEnd : NoWrite fseekEnd :=
  NoWrite.bind (NoWrite.tick _) fun _ => by intro e s r s' h; simp only [Prod.mk.injEq] at h; rw [← h.2]
theorem NoWrite.ftell : NoWrite ftell :=
  NoWrite.bind (NoWrite.tick _) fun _ => by intro e s r s' h; simp only [Prod.mk.injEq] at h; rw [← h.2]
theorem NoWrite.fread (n : Nat) : NoWrite (fread n) := by
  intro e s r s' h
  unfold Mutagen.fread at h
  simp only at h
  cases ht : Mutagen.tick (.read n) e s with
  | mk r1 s1 =>
    have := NoWrite.tick (.read n) e s r1 s1 ht
    rw [ht] at h
    cases r1 with
    | error x => simp only [Prod.mk.injEq] at h; rw [← h.2]; exact this
    | ok u => simp only [Prod.mk.injEq] at h; rw [← h.2]; exact this
theorem NoWrite.convertError {α : Type} {m : FileM α} (src : PyErr → Bool) (dst : PyErr) (hm : NoWrite m) :
    NoWrite (convertError src dst m) := by
  intro e s r s' h
  unfold Mutagen.convertError at h
  cases hms : m e s with
  | mk r1 s1 =>
    rw [hms] at h
    have h1 := hm e s r1 s1 hms
    cases r1 with
    | ok a => simp only [Prod.mk.injEq] at h; rw [← h.2]; exact h1
    | error x => simp only at h; split at h <;> (simp only [Prod.mk.injEq] at h; rw [← h.2]; exact h1)
theorem NoWrite.tryCatch {α : Type} {m : FileM α} (pred : PyErr → Bool) (handler : PyErr → FileM α) (hm : NoWrite m)
    (hh : ∀ x, NoWrite (handler x)) : NoWrite (tryCatch m pred handler) := by
  intro e s r s' h
  unfold Mutagen.tryCatch at h
  cases hms : m e s with
  | mk r1 s1 =>
    rw [hms] at h
    have h1 := hm e s r1 s1 hms
    cases r1 with
    | ok a => simp only [Prod.mk.injEq] at h; rw [← h.2]; exact h1
    | error x =>
      simp only at h
      split at h
      · exact (hh x e s1 r s' h).trans h1
      · simp only [Prod.mk.injEq] at h; rw [← h.2]; exact h1

theorem noWrite_atomM : ∀ fuel : Nat, (∀ level, NoWrite (atomM fuel level)) ∧ (∀ stop level, NoWrite (kidsM fuel stop level)) := by
  intro fuel
  induction fuel with
  | zero =>
    refine ⟨fun level => ?_, fun stop level => ?_⟩
    · unfold atomM; exact NoWrite.raise _
    · unfold kidsM; exact NoWrite.raise _
  | succ fuel ih =>
    obtain ⟨ihA, ihK⟩ := ih
    refine ⟨fun level => ?_, fun stop level => ?_⟩
    · unfold atomM
      apply NoWrite.convertError
      apply NoWrite.bind NoWrite.ftell; intro pos
      apply NoWrite.bind (NoWrite.fread _); intro hdr
      split
      · exact NoWrite.raise _
      · simp only []
        apply NoWrite.bind
        · split
          · apply NoWrite.bind (NoWrite.fread _); intro ext
            split
            · exact NoWrite.raise _
            · split
              · exact NoWrite.raise _
              · exact NoWrite.pure _
          · split
            · split
              · exact NoWrite.raise _
              · apply NoWrite.bind NoWrite.fseekEnd; intro _
                apply NoWrite.bind NoWrite.ftell; intro size
                apply NoWrite.bind (NoWrite.fseek _); intro _
                exact NoWrite.pure _
            · split
              · exact NoWrite.raise _
              · exact NoWrite.pure _
        · intro ld
          split
          · split
            · exact NoWrite.raise _
            · apply NoWrite.bind (NoWrite.fseekRel _); intro _
              apply NoWrite.bind (ihK _ _); intro kids
              exact NoWrite.pure _
          · apply NoWrite.bind (NoWrite.fseek _); intro _
            exact NoWrite.pure _
    · unfold kidsM
      apply NoWrite.bind NoWrite.ftell; intro t
      split
      · apply NoWrite.bind (ihA level); intro a
        apply NoWrite.bind (ihK stop level); intro r
        exact NoWrite.pure _
      · exact NoWrite.pure _

theorem noWrite_topM : ∀ fuel endd, NoWrite (topM fuel endd) := by
  intro fuel
  induction fuel with
  | zero => intro endd; unfold topM; exact NoWrite.raise _
  | succ fuel ih =>
    intro endd
    unfold topM
    apply NoWrite.bind NoWrite.ftell; intro t
    split
    · apply NoWrite.bind ((noWrite_atomM fuel).1 0); intro a
      apply NoWrite.bind (ih endd); intro r
      exact NoWrite.pure _
    · exact NoWrite.pure _

theorem noWrite_atomReadM (a : PAtom) : NoWrite (atomReadM a) := by
  unfold atomReadM
  apply NoWrite.bind (NoWrite.fseek _); intro _
  apply NoWrite.bind (NoWrite.fread _); intro d
  exact NoWrite.pure _

theorem noWrite_findAudioTrakM : ∀ l, NoWrite (findAudioTrakM l) := by
  intro l
  induction l with
  | nil => unfold findAudioTrakM; exact NoWrite.pure _
  | cons t r ih =>
    unfold findAudioTrakM
    split
    · split
      · exact NoWrite.raise _
      · apply NoWrite.bind (noWrite_atomReadM _); intro od
        split
        · exact NoWrite.raise _
        · split
          · exact NoWrite.pure _
          · exact ih
    · exact ih

theorem noWrite_childrenM : ∀ l, NoWrite (childrenM l) := by
  intro l
  induction l with
  | nil => unfold childrenM; exact NoWrite.pure _
  | cons a r ih =>
    unfold childrenM
    apply NoWrite.bind (noWrite_atomReadM _); intro od
    split
    · exact NoWrite.raise _
    · apply NoWrite.bind ih; intro rest
      exact NoWrite.pure _

theorem noWrite_atomsM : NoWrite atomsM := by
  unfold atomsM
  apply NoWrite.convertError
  apply NoWrite.bind NoWrite.fseekEnd; intro _
  apply NoWrite.bind NoWrite.ftell; intro endd
  apply NoWrite.bind (NoWrite.fseek _); intro _
  exact noWrite_topM _ _

theorem noWrite_infoM (atoms : List PAtom) : NoWrite (infoM atoms) := by
  unfold infoM
  apply NoWrite.tryCatch _ _ _ (fun _ => NoWrite.raise _)
  split
  · exact NoWrite.raise _
  · apply NoWrite.bind (noWrite_findAudioTrakM _); intro ot
    split
    · exact NoWrite.pure _
    · split
      · exact NoWrite.raise _
      · apply NoWrite.bind (noWrite_atomReadM _); intro od
        split
        · exact NoWrite.raise _
        · split
          · exact NoWrite.raise _
          · simp only []
            split
            · exact NoWrite.pure _
            · apply NoWrite.bind (noWrite_atomReadM _); intro osd
              split
              · exact NoWrite.raise _
              · split
                · exact NoWrite.raise _
                · exact NoWrite.pure _

theorem noWrite_tagsM (atoms : List PAtom) : NoWrite (tagsM atoms) := by
  unfold tagsM
  split
  · exact NoWrite.pure _
  · apply NoWrite.tryCatch _ _ _ (fun _ => NoWrite.raise _)
    split
    · exact NoWrite.raise _
    · apply NoWrite.bind (noWrite_childrenM _); intro cs
      exact NoWrite.pure _

/-- `MP4(fileobj)` never writes: in EVERY environment the bytes of the file are as before -/
theorem noWrite_loadM : NoWrite loadM := by
  unfold loadM
  apply NoWrite.bind noWrite_atomsM; intro atoms
  apply NoWrite.bind (noWrite_infoM atoms); intro info
  apply NoWrite.bind (noWrite_tagsM atoms); intro tags
  exact NoWrite.pure _

/-! ### D. save with its reads -/

/-- without injected faults the save that performs the reads of `Atoms(fileobj)` continues, after them, exactly as the
summarised save does on the same bytes (or fails with the parser's AtomError) -/
theorem saveTagsFullM_eq {e : Env} (hq : Quiet e) (B : Nat) (ilstData : Bytes) (pad : PadChoice) (s : FS) :
    ∃ s1, s1.data = s.data ∧ saveTagsFullM B ilstData pad e s = saveTagsM B ilstData pad e s1 := by
  obtain ⟨s1, h1, h2⟩ := atomsM_q hq s
  refine ⟨s1, h2, ?_⟩
  unfold saveTagsFullM saveTagsM
  simp only [bind_run, h1, peek, h2]
  cases parse s.data with
  | error x => rfl
  | ok atoms => rfl

/-- C19 for the save with its reads, every capacity: ENOSPC with the file byte-identical, or the pure model's outcome and bytes -/
theorem saveTagsFullM_q {e : Env} (hq : Quiet e) (B : Nat) (hB : 0 < B) (ilstData : Bytes) (pad : PadChoice) (s : FS) :
    (∃ s', saveTagsFullM B ilstData pad e s = (.error .enospc, s') ∧ s'.data = s.data) ∨
    (∃ s', saveTagsFullM B ilstData pad e s = (toExcept (saveTags true s.data ilstData pad).1, s') ∧
      s'.data = (saveTags true s.data ilstData pad).2) := by
  obtain ⟨s1, hd, heq⟩ := saveTagsFullM_eq hq B ilstData pad s
  rw [heq, ← hd]
  exact saveTagsM_q hq B hB ilstData pad s1

/-! ### E. a normal return means nothing was injected and no read came back short -/

/-- the environment with its injected exceptions and short reads removed -/
def Env.calm (e : Env) : Env := { e with failAt := fun _ => none, shortAt := fun _ => none }

theorem calm_quiet (e : Env) : Quiet (Env.calm e) := ⟨fun _ => rfl, fun _ => rfl⟩

/-- if the program returns normally, it returns the same value and state in the calm environment -/
def OkCalm {α : Type} (m : FileM α) : Prop := ∀ e s a s', m e s = (.ok a, s') → m (Env.calm e) s = (.ok a, s')

theorem OkCalm.pure {α : Type} (a : α) : OkCalm (pure a : FileM α) := by
  intro e s b s' h; simpa using h
theorem OkCalm.raise {α : Type} (x : PyErr) : OkCalm (raise x : FileM α) := by
  intro e s b s' h; simp at h
theorem OkCalm.bind {α β : Type} {m : FileM α} {f : α → FileM β} (hm : OkCalm m) (hf : ∀ a, OkCalm (f a)) :
    OkCalm (m >>= f) := by
  intro e s b s' h
  simp only [bind_run] at h ⊢
  cases hms : m e s with
  | mk r s1 =>
    rw [hms] at h
    cases r with
    | ok a => rw [hm e s a s1 hms]; exact hf a e s1 b s' h
    | error x => simp at h
theorem OkCalm.tick (o : Op) : OkCalm (tick o) := by
  intro e s a s' h
  unfold Mutagen.tick at h ⊢
  split at h
  · simp at h
  · simpa [Env.calm] using h
theorem OkCalm.fseek (p : Nat) : OkCalm (fseek p) :=
  OkCalm.bind (OkCalm.tick _) fun _ => by intro e s a s' h; exact h
theorem OkCalm.fseekRel (p : Nat) : OkCalm (fseekRel p) :=
  OkCalm.bind (OkCalm.tick _) fun _ => by intro e s a s' h; exact h
theorem OkCalm.fseekEnd : OkCalm fseekEnd :=
  OkCalm.bind (OkCalm.tick _) fun _ => by intro e s a s' h; exact h
theorem OkCalm.ftell : OkCalm ftell :=
  OkCalm.bind (OkCalm.tick _) fun _ => by intro e s a s' h; exact h
theorem OkCalm.convertError {α : Type} {m : FileM α} (src : PyErr → Bool) (dst : PyErr) (hm : OkCalm m) :
    OkCalm (convertError src dst m) := by
  intro e s a s' h
  have := convertError_ok src dst m e s s' a h
  exact convertError_of_ok _ _ _ _ _ _ _ (hm e s a s' this)
theorem OkCalm.tryRaise {α : Type} {m : FileM α} (pred : PyErr → Bool) (y : PyErr) (hm : OkCalm m) :
    OkCalm (tryCatch m pred (fun _ => Mutagen.raise y)) := by
  intro e s a s' h
  unfold Mutagen.tryCatch at h ⊢
  cases hms : m e s with
  | mk r s1 =>
    rw [hms] at h
    cases r with
    | ok b =>
      simp only [Prod.mk.injEq, Except.ok.injEq] at h
      rw [hm e s b s1 hms]
      simp only [h.1, h.2]
    | error x => simp only at h; split at h <;> simp [raise_run] at h

/-- a read whose length is checked: a normal return means the read was complete, in the calm environment too -/
theorem OkCalm.readChecked {α : Type} (n : Nat) (x : PyErr) (k : Bytes → FileM α) (hk : ∀ d, OkCalm (k d)) :
    OkCalm (fread n >>= fun d => if d.length < n then Mutagen.raise x else k d) := by
  intro e s a s' h
  simp only [bind_run] at h ⊢
  unfold Mutagen.fread at h ⊢
  simp only at h ⊢
  cases ht : Mutagen.tick (.read n) e s with
  | mk r s1 =>
    rw [ht] at h
    cases r with
    | error y => simp at h
    | ok u =>
      have ht' := OkCalm.tick (.read n) e s () s1 ht
      rw [ht']
      simp only at h ⊢
      have hcalm : (Env.calm e).shortAt s.ops = none := rfl
      simp only [hcalm]
      have key : ∀ lim, lim ≤ n →
          ((if (readAt s1.data s1.pos lim).length < n then Mutagen.raise x else k (readAt s1.data s1.pos lim)) e
            { data := s1.data, pos := s1.pos + (readAt s1.data s1.pos lim).length, ops := s1.ops, log := s1.log } = (Except.ok a, s')) →
          ((if (readAt s1.data s1.pos n).length < n then Mutagen.raise x else k (readAt s1.data s1.pos n)) (Env.calm e)
            { data := s1.data, pos := s1.pos + (readAt s1.data s1.pos n).length, ops := s1.ops, log := s1.log } = (Except.ok a, s')) := by
        intro lim hle h2
        clear h
        by_cases hsh : (readAt s1.data s1.pos lim).length < n
        · simp only [hsh, ↓reduceIte, raise_run] at h2; simp at h2
        · simp only [hsh, ↓reduceIte] at h2
          have hl : (readAt s1.data s1.pos lim).length = min lim (s1.data.length - s1.pos) := length_readAt' _ _ _
          have hlim' : lim = n := by omega
          subst hlim'
          simp only [hsh, ↓reduceIte]
          exact hk _ e _ a s' h2
      cases hsa : e.shortAt s.ops with
      | none =>
        simp only [hsa] at h
        exact key n (Nat.le_refl _) h
      | some kk =>
        simp only [hsa] at h
        exact key (min kk n) (Nat.min_le_right _ _) h

theorem okCalm_atomReadThen {α : Type} (at' : PAtom) (x : PyErr) (k : Bytes → FileM α) (hk : ∀ d, OkCalm (k d)) :
    OkCalm (atomReadM at' >>= fun o => match o with | none => Mutagen.raise x | some d => k d) := by
  have h1 : ∀ (d0 : Unit), OkCalm (fread (at'.length - (at'.dataoffset - at'.offset)) >>= fun d =>
      if d.length < at'.length - (at'.dataoffset - at'.offset) then (Mutagen.raise x : FileM α) else
        (if d.length = at'.length - (at'.dataoffset - at'.offset) then k d else Mutagen.raise x)) := by
    intro _
    apply OkCalm.readChecked
    intro d
    split
    · exact hk d
    · exact OkCalm.raise _
  have key : ∀ (e : Env) (s : FS), (atomReadM at' >>= fun o => match o with | none => Mutagen.raise x | some d => k d) e s =
      (fseek at'.dataoffset >>= fun _ => fread (at'.length - (at'.dataoffset - at'.offset)) >>= fun d =>
        if d.length < at'.length - (at'.dataoffset - at'.offset) then (Mutagen.raise x : FileM α) else
          (if d.length = at'.length - (at'.dataoffset - at'.offset) then k d else Mutagen.raise x)) e s := by
    intro e s
    unfold atomReadM
    simp only [bind_run, pure_run]
    cases fseek at'.dataoffset e s with
    | mk r1 s1 =>
      cases r1 with
      | error y => rfl
      | ok u =>
        simp only
        cases fread (at'.length - (at'.dataoffset - at'.offset)) e s1 with
        | mk r2 s2 =>
          cases r2 with
          | error y => rfl
          | ok d =>
            simp only
            by_cases hlt : d.length < at'.length - (at'.dataoffset - at'.offset)
            · have hne : ¬ d.length = at'.length - (at'.dataoffset - at'.offset) := by omega
              simp [hlt, hne]
            · by_cases heq : d.length = at'.length - (at'.dataoffset - at'.offset)
              · simp [hlt, heq]
              · simp [hlt, heq]
  intro e s a s' h
  rw [key] at h ⊢
  exact OkCalm.bind (OkCalm.fseek _) h1 e s a s' h

theorem okCalm_atomM : ∀ fuel : Nat, (∀ level, OkCalm (atomM fuel level)) ∧ (∀ stop level, OkCalm (kidsM fuel stop level)) := by
  intro fuel
  induction fuel with
  | zero =>
    refine ⟨fun level => ?_, fun stop level => ?_⟩
    · unfold atomM; exact OkCalm.raise _
    · unfold kidsM; exact OkCalm.raise _
  | succ fuel ih =>
    obtain ⟨ihA, ihK⟩ := ih
    refine ⟨fun level => ?_, fun stop level => ?_⟩
    · unfold atomM
      apply OkCalm.convertError
      apply OkCalm.bind OkCalm.ftell; intro pos
      apply OkCalm.readChecked
      intro hdr
      simp only []
      apply OkCalm.bind
      · split
        · apply OkCalm.readChecked
          intro ext
          split
          · exact OkCalm.raise _
          · exact OkCalm.pure _
        · split
          · split
            · exact OkCalm.raise _
            · apply OkCalm.bind OkCalm.fseekEnd; intro _
              apply OkCalm.bind OkCalm.ftell; intro size
              apply OkCalm.bind (OkCalm.fseek _); intro _
              exact OkCalm.pure _
          · split
            · exact OkCalm.raise _
            · exact OkCalm.pure _
      · intro ld
        split
        · split
          · exact OkCalm.raise _
          · apply OkCalm.bind (OkCalm.fseekRel _); intro _
            apply OkCalm.bind (ihK _ _); intro kids
            exact OkCalm.pure _
        · apply OkCalm.bind (OkCalm.fseek _); intro _
          exact OkCalm.pure _
    · unfold kidsM
      apply OkCalm.bind OkCalm.ftell; intro t
      split
      · apply OkCalm.bind (ihA level); intro a
        apply OkCalm.bind (ihK stop level); intro r
        exact OkCalm.pure _
      · exact OkCalm.pure _

theorem okCalm_topM : ∀ fuel endd, OkCalm (topM fuel endd) := by
  intro fuel
  induction fuel with
  | zero => intro endd; unfold topM; exact OkCalm.raise _
  | succ fuel ih =>
    intro endd
    unfold topM
    apply OkCalm.bind OkCalm.ftell; intro t
    split
    · apply OkCalm.bind ((okCalm_atomM fuel).1 0); intro a
      apply OkCalm.bind (ih endd); intro r
      exact OkCalm.pure _
    · exact OkCalm.pure _

theorem okCalm_atomsM : OkCalm atomsM := by
  unfold atomsM
  apply OkCalm.convertError
  apply OkCalm.bind OkCalm.fseekEnd; intro _
  apply OkCalm.bind OkCalm.ftell; intro endd
  apply OkCalm.bind (OkCalm.fseek _); intro _
  exact okCalm_topM _ _

theorem okCalm_findAudioTrakM : ∀ l, OkCalm (findAudioTrakM l) := by
  intro l
  induction l with
  | nil => unfold findAudioTrakM; exact OkCalm.pure _
  | cons t r ih =>
    unfold findAudioTrakM
    split
    · split
      · exact OkCalm.raise _
      · apply okCalm_atomReadThen
        intro data
        split
        · exact OkCalm.pure _
        · exact ih
    · exact ih

theorem okCalm_childrenM : ∀ l, OkCalm (childrenM l) := by
  intro l
  induction l with
  | nil => unfold childrenM; exact OkCalm.pure _
  | cons a r ih =>
    unfold childrenM
    apply okCalm_atomReadThen
    intro d
    apply OkCalm.bind ih; intro rest
    exact OkCalm.pure _

theorem okCalm_infoM (atoms : List PAtom) : OkCalm (infoM atoms) := by
  unfold infoM
  apply OkCalm.tryRaise
  split
  · exact OkCalm.raise _
  · apply OkCalm.bind (okCalm_findAudioTrakM _); intro ot
    split
    · exact OkCalm.pure _
    · split
      · exact OkCalm.raise _
      · apply okCalm_atomReadThen
        intro data
        split
        · exact OkCalm.raise _
        · simp only []
          split
          · exact OkCalm.pure _
          · apply okCalm_atomReadThen
            intro sd
            split
            · exact OkCalm.raise _
            · exact OkCalm.pure _

theorem okCalm_tagsM (atoms : List PAtom) : OkCalm (tagsM atoms) := by
  unfold tagsM
  split
  · exact OkCalm.pure _
  · apply OkCalm.tryRaise
    split
    · exact OkCalm.raise _
    · apply OkCalm.bind (okCalm_childrenM _); intro cs
      exact OkCalm.pure _

theorem okCalm_loadM : OkCalm loadM := by
  unfold loadM
  apply OkCalm.bind okCalm_atomsM; intro atoms
  apply OkCalm.bind (okCalm_infoM atoms); intro info
  apply OkCalm.bind (okCalm_tagsM atoms); intro tags
  exact OkCalm.pure _

/-- a normal return of `MP4(fileobj)` — whatever exceptions the environment would have injected elsewhere, whatever reads
it would have cut short — is the pure load of the complete bytes: no short read is taken for the end of the file -/
theorem loadM_ok_means_loaded (e : Env) (s s' : FS) (r : Loaded) (h : loadM e s = (.ok r, s')) :
    loadPure s.data = .ok r := by
  have h1 := okCalm_loadM e s r s' h
  obtain ⟨s2, h2, _⟩ := loadM_q (calm_quiet e) s
  rw [h2] at h1
  exact (Prod.mk.inj h1).1

end Mutagen.Mp4C
