/- Proofs/Container/DsfTotal.lean — every path of the DSF model ends in a result or in `.mutagen`;
`saveX` is `save` wherever `save` is defined -/
import MutagenModel.Model.Container.DsfFull
import MutagenModel.Proofs.Container.Dsf
set_option linter.unusedVariables false
namespace Mutagen.Dsf
open Mutagen

/-! ### the chunk loaders -/

theorem loadDsd_err (f : Bytes) (e : PyErr) (h : loadDsd f = .error e) : e = .mutagen := by
  unfold loadDsd at h
  simp only [] at h
  repeat' split at h
  all_goals first | (cases h; rfl) | cases h

theorem ofLE_take8_lt (l : Bytes) : ofLE (l.take 8) < 2 ^ 64 := by
  have h1 := ofLE_lt (l.take 8)
  have h2 : (l.take 8).length ≤ 8 := by simp [List.length_take]; omega
  have h3 : 256 ^ (l.take 8).length ≤ 256 ^ 8 := Nat.pow_le_pow_right (by decide) h2
  have h4 : (256 : Nat) ^ 8 = 2 ^ 64 := by decide
  omega

theorem loadDsd_bounds (f : Bytes) (h : Dsd) (hl : loadDsd f = .ok h) : h.total < 2 ^ 64 ∧ h.pointer < 2 ^ 63 := by
  unfold loadDsd at hl
  simp only [] at hl
  repeat' split at hl
  all_goals first | cases hl | skip
  rename_i c _
  exact ⟨ofLE_take8_lt _, by simp only []; omega⟩

theorem loadFmt_err (d : Bytes) (e : PyErr) (h : loadFmt d = .error e) : e = .mutagen := by
  unfold loadFmt at h
  repeat' split at h
  all_goals first | (cases h; rfl) | cases h

theorem loadData_err (d : Bytes) (e : PyErr) (h : loadData d = .error e) : e = .mutagen := by
  unfold loadData at h
  repeat' split at h
  all_goals first | (cases h; rfl) | cases h

theorem writeDsd_ok (f : Bytes) (h : Dsd) (ht : h.total < 2 ^ 64) (hp : h.pointer < 2 ^ 64) :
    writeDsd f h = .ok (writeAt f 0 (dsdChunk h.total h.pointer)) := by
  unfold writeDsd
  have : ¬ (h.total ≥ 2 ^ 64 ∨ h.pointer ≥ 2 ^ 64) := by omega
  rw [if_neg this]

theorem length_writeTrunc (g : Bytes) (ptr : Nat) (data : Bytes) : (writeTrunc g ptr data).length = ptr + data.length := by
  unfold writeTrunc
  simp [List.length_take]; omega

/-! ### `ID3Header` -/

theorem extHeader_err (t : Bytes) (vmaj : Nat) (e : PyErr) (h : Id3F.extHeader t vmaj = .error e) : e = .mutagen := by
  unfold Id3F.extHeader at h
  simp only [] at h
  repeat' split at h
  all_goals first | (cases h; rfl) | cases h

theorem headerSize_err (t : Bytes) (e : PyErr) (h : Id3F.headerSize t = .error e) : e = .mutagen := by
  unfold Id3F.headerSize at h
  simp only [] at h
  repeat' split at h
  all_goals first | (cases h; rfl) | cases h | skip
  all_goals
    rename_i he
    exact extHeader_err _ _ _ he

/-- `Id3F.headerSize` is `id3Header` with the distinctions forgotten: the size of the tag, "no header",
or the ID3 error -/
theorem headerSize_id3Header (t : Bytes) :
    Id3F.headerSize t = (match id3Header t with
      | .ok h => .ok (some h.size)
      | .error .noHeader => .ok none
      | .error _ => .error .mutagen) := by
  unfold Id3F.headerSize id3Header
  simp only []
  by_cases c0 : (t.take 10).length ≠ 10
  · rw [if_pos c0, if_pos c0]
  rw [if_neg c0, if_neg c0]
  by_cases c1 : (t.take 10).take 3 ≠ Id3F.magicID3
  · rw [if_pos c1, if_pos c1]
  rw [if_neg c1, if_neg c1]
  by_cases c2 : ((t.take 10).getD 3 0).toNat ≠ 2 ∧ ((t.take 10).getD 3 0).toNat ≠ 3 ∧ ((t.take 10).getD 3 0).toNat ≠ 4
  · rw [if_pos c2, if_pos c2]
  rw [if_neg c2, if_neg c2]
  by_cases c3 : (!((t.take 10).drop 6).all fun x => decide (x.toNat < 128)) = true
  · rw [if_pos c3, if_pos c3]
  rw [if_neg c3, if_neg c3]
  by_cases c4 : ((t.take 10).getD 3 0).toNat = 4 ∧ ((t.take 10).getD 5 0).toNat % 16 ≠ 0
  · rw [if_pos c4, if_pos c4]
  rw [if_neg c4, if_neg c4]
  by_cases c5 : ((t.take 10).getD 3 0).toNat = 3 ∧ ((t.take 10).getD 5 0).toNat % 32 ≠ 0
  · rw [if_pos c5, if_pos c5]
  rw [if_neg c5, if_neg c5]
  by_cases c6 : ((t.take 10).getD 5 0).toNat / 64 % 2 = 1
  · rw [if_pos c6, if_pos c6]
    cases he : Id3F.extHeader t ((t.take 10).getD 3 0).toNat with
    | error e => rw [extHeader_err _ _ _ he]
    | ok u =>
      simp only []
      by_cases cf : Generated.frameIds.contains ((t.drop 10).take 4) = true
      · rw [if_pos cf]
      · rw [if_neg cf]
  · rw [if_neg c6, if_neg c6]

/-! ### save -/

theorem saveAtX_clean (g : Bytes) (ptr vmaj : Nat) (hvm : vmaj = 3 ∨ vmaj = 4) (frames : Bytes) (ans : Int → Int → Int)
    (hptr : ptr < 2 ^ 63) (e : PyErr) (h : saveAtX g ptr vmaj frames ans = .error e) :
    e = .mutagen := by
  unfold saveAtX at h
  cases ho : Id3F.headerSize (g.drop ptr) with
  | error e' => rw [ho] at h; cases h; exact headerSize_err _ _ ho
  | ok hs =>
    rw [ho] at h
    simp only [] at h
    have h0 : ¬ (vmaj ≠ 3 ∧ vmaj ≠ 4) := by omega
    rw [if_neg h0] at h
    split at h
    · cases h; rfl
    · split at h
      · cases h; rfl
      · rename_i hbig
        generalize (ans ((hs.getD 0 : Nat) - ((frames.length + 10 : Nat) : Int)) ((g.length : Int) - ptr - (hs.getD 0 : Nat))).toNat = np at h
        have hf : frames.length + min np (2 ^ 28 - 1 - frames.length) < 2 ^ 28 := by omega
        obtain ⟨a, b, c, d, hhd, _⟩ := Id3F.header_ok vmaj _ hf
        rw [hhd] at h
        simp only [] at h
        rw [writeDsd_ok _ _ (by
          simp only [length_writeTrunc]
          simp [Id3F.magicID3]; omega) (by simp only []; omega)] at h
        cases h

theorem saveX_clean (f : Bytes) (vmaj : Nat) (hvm : vmaj = 3 ∨ vmaj = 4) (frames : Bytes) (ans : Int → Int → Int)
    (hlen : f.length < 2 ^ 63) (e : PyErr) (h : saveX f vmaj frames ans = .error e) :
    e = .mutagen := by
  unfold saveX at h
  cases hl : loadDsd f with
  | error e' => rw [hl] at h; cases h; exact loadDsd_err _ _ hl
  | ok hd =>
    rw [hl] at h
    obtain ⟨ht, hp⟩ := loadDsd_bounds f hd hl
    simp only [] at h
    split at h
    · rw [writeDsd_ok f ⟨hd.total, f.length⟩ ht (by show f.length < 2 ^ 64; omega)] at h
      exact saveAtX_clean _ _ _ hvm _ _ hlen e h
    · exact saveAtX_clean _ _ _ hvm _ _ hp e h

/-- `saveAt` answers `.notImplemented` (negative `PaddingInfo.size`), or what `saveAtX` answers -/
theorem saveAt_bridge (g : Bytes) (ptr vmaj : Nat) (frames : Bytes) (pad : PadChoice) :
    saveAt g ptr vmaj frames pad = .error .notImplemented ∨
      saveAt g ptr vmaj frames pad = saveAtX g ptr vmaj frames (fun a s => getPadding pad a s.toNat) := by
  unfold saveAt saveAtX
  cases hh : Id3F.headerSize (g.drop ptr) with
  | error e' => right; rfl
  | ok hs =>
    simp only []
    by_cases hv : vmaj ≠ 3 ∧ vmaj ≠ 4
    · right; rw [if_pos hv, if_pos hv]
    · rw [if_neg hv, if_neg hv]
      by_cases htr : (g.length : Int) - ptr - (hs.getD 0 : Nat) < 0
      · left; rw [if_pos htr]
      · right; rw [if_neg htr]; rfl

theorem save_bridge (f : Bytes) (vmaj : Nat) (frames : Bytes) (pad : PadChoice) :
    save f vmaj frames pad = .error .notImplemented ∨
      save f vmaj frames pad = saveX f vmaj frames (fun a s => getPadding pad a s.toNat) := by
  unfold save saveX
  cases loadDsd f with
  | error e' => right; rfl
  | ok hd =>
    simp only []
    split
    · cases writeDsd f ⟨hd.total, f.length⟩ with
      | error e' => right; rfl
      | ok f1 => exact saveAt_bridge _ _ _ _ _
    · exact saveAt_bridge _ _ _ _ _

/-! ### delete, load -/

theorem delete_clean (f : Bytes) (e : PyErr) (h : delete f = .error e) : e = .mutagen := by
  unfold delete at h
  cases hl : loadDsd f with
  | error e' => rw [hl] at h; cases h; exact loadDsd_err _ _ hl
  | ok hd =>
    rw [hl] at h
    obtain ⟨ht, hp⟩ := loadDsd_bounds f hd hl
    simp only [] at h
    cases h1 : loadFmt (readAt f dsdSize fmtSize) with
    | error e' => rw [h1] at h; cases h; exact loadFmt_err _ _ h1
    | ok _ =>
      rw [h1] at h
      simp only [] at h
      cases h2 : loadData (readAt f (dsdSize + fmtSize) dataHdr) with
      | error e' => rw [h2] at h; cases h; exact loadData_err _ _ h2
      | ok _ =>
        rw [h2] at h
        simp only [] at h
        split at h
        · rw [writeDsd_ok f ⟨hd.pointer, 0⟩ (by show hd.pointer < 2 ^ 64; omega) (by show (0 : Nat) < 2 ^ 64; decide)] at h
          cases h
        · cases h

theorem load_clean (f : Bytes) (e : PyErr) (h : load f = .error e) : e = .mutagen := by
  unfold load at h
  cases hl : loadDsd f with
  | error e' => rw [hl] at h; cases h; exact loadDsd_err _ _ hl
  | ok hd =>
    rw [hl] at h
    simp only [] at h
    cases h1 : loadFmt (readAt f dsdSize fmtSize) with
    | error e' => rw [h1] at h; cases h; exact loadFmt_err _ _ h1
    | ok _ =>
      rw [h1] at h
      simp only [] at h
      cases h2 : loadData (readAt f (dsdSize + fmtSize) dataHdr) with
      | error e' => rw [h2] at h; cases h; exact loadData_err _ _ h2
      | ok _ =>
        rw [h2] at h
        simp only [] at h
        repeat' split at h
        all_goals first | (cases h; rfl) | cases h

end Mutagen.Dsf
