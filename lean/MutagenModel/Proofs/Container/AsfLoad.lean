/- Proofs/Container/AsfLoad.lean — ASF(fileobj) as a program on the file object: refinement of the pure load,
what it can raise under arbitrary faults, that it never writes, that a short read is never taken for the
end of the file; load followed by save on one file object -/
import MutagenModel.Proofs.Container.AsfCap
set_option linter.unusedVariables false
namespace Mutagen.Asf
open Mutagen

/-! ### programs that never change the file -/

/-- whatever the environment does, the bytes of the file are what they were -/
def NoWrite (m : FileM α) : Prop := ∀ e s r s', m e s = (r, s') → s'.data = s.data

theorem NoWrite.pure (a : α) : NoWrite (pure a : FileM α) := by
  intro e s r s' h; simp only [pure_run, Prod.mk.injEq] at h; rw [← h.2]

theorem NoWrite.raise (x : PyErr) : NoWrite (Mutagen.raise x : FileM α) := by
  intro e s r s' h; simp only [raise_run, Prod.mk.injEq] at h; rw [← h.2]

theorem NoWrite.bind {m : FileM α} {f : α → FileM β} (hm : NoWrite m) (hf : ∀ a, NoWrite (f a)) : NoWrite (m >>= f) := by
  intro e s r s' h
  simp only [bind_run] at h
  cases hms : m e s with
  | mk r1 s1 =>
    rw [hms] at h
    have h1 := hm e s r1 s1 hms
    cases r1 with
    | ok a => simp only at h; rw [hf a e s1 r s' h, h1]
    | error x => simp only [Prod.mk.injEq] at h; rw [← h.2, h1]

theorem NoWrite.ite {c : Prop} [Decidable c] {m n : FileM α} (hm : NoWrite m) (hn : NoWrite n) : NoWrite (if c then m else n) := by
  split <;> assumption

theorem NoWrite.tick (o : Op) : NoWrite (tick o) := by
  intro e s r s' h
  unfold Mutagen.tick at h
  split at h <;> (simp only [Prod.mk.injEq] at h; rw [← h.2])

theorem NoWrite.fread (n : Nat) : NoWrite (fread n) := by
  intro e s r s' h
  unfold Mutagen.fread at h
  simp only [] at h
  cases ht : Mutagen.tick (.read n) e s with
  | mk r1 s1 =>
    have h1 := NoWrite.tick (.read n) e s r1 s1 ht
    rw [ht] at h
    cases r1 with
    | ok a => simp only [Prod.mk.injEq] at h; rw [← h.2]; exact h1
    | error x => simp only [Prod.mk.injEq] at h; rw [← h.2]; exact h1

theorem NoWrite.fseek (p : Nat) : NoWrite (fseek p) := by
  unfold Mutagen.fseek
  apply NoWrite.bind (NoWrite.tick _); intro _
  intro e s r s' h; simp only [Prod.mk.injEq] at h; rw [← h.2]

theorem NoWrite.tryCatch {body : FileM α} {pred : PyErr → Bool} {handler : PyErr → FileM α} (hb : NoWrite body)
    (hh : ∀ x, NoWrite (handler x)) : NoWrite (tryCatch body pred handler) := by
  intro e s r s' h
  unfold Mutagen.tryCatch at h
  cases hbs : body e s with
  | mk r1 s1 =>
    rw [hbs] at h
    have h1 := hb e s r1 s1 hbs
    cases r1 with
    | ok a => simp only [Prod.mk.injEq] at h; rw [← h.2, h1]
    | error x =>
      simp only at h
      split at h
      · rw [hh x e s1 r s' h, h1]
      · simp only [Prod.mk.injEq] at h; rw [← h.2, h1]

theorem NoWrite.convertError (src : PyErr → Bool) (dst : PyErr) {m : FileM α} (hm : NoWrite m) : NoWrite (convertError src dst m) := by
  intro e s r s' h
  rw [convertError_run] at h
  cases hms : m e s with
  | mk r1 s1 =>
    rw [hms] at h
    have h1 := hm e s r1 s1 hms
    cases r1 with
    | ok a => simp only [Prod.mk.injEq] at h; rw [← h.2, h1]
    | error x => simp only at h; split at h <;> (simp only [Prod.mk.injEq] at h; rw [← h.2, h1])

theorem NoWrite.freadExact (n : Nat) (err : PyErr) : NoWrite (freadExact n err) := by
  unfold Asf.freadExact
  apply NoWrite.bind (NoWrite.fread n); intro d
  exact NoWrite.ite (NoWrite.raise _) (NoWrite.pure _)

theorem NoWrite.loadObjectsM (n rem : Nat) : NoWrite (loadObjectsM n rem) := by
  induction n generalizing rem with
  | zero => exact NoWrite.pure _
  | succ n ih =>
    unfold Asf.loadObjectsM
    apply NoWrite.ite (NoWrite.raise _)
    apply NoWrite.bind (NoWrite.freadExact _ _); intro h
    simp only []
    apply NoWrite.ite
    · exact NoWrite.raise _
    · apply NoWrite.ite (NoWrite.raise _)
      apply NoWrite.bind (NoWrite.freadExact _ _); intro data
      cases objOf (h.take 16) data with
      | error x => exact NoWrite.raise x
      | ok o => exact NoWrite.bind (ih _) fun _ => NoWrite.pure _

theorem NoWrite.verifyRead : NoWrite verifyRead := by
  unfold Asf.verifyRead
  exact NoWrite.tryCatch (NoWrite.bind (NoWrite.fread 0) fun _ => NoWrite.pure _) fun _ => NoWrite.raise _

/-- ASF(fileobj) never writes: in every environment the file holds the bytes it held -/
theorem NoWrite.loadM : NoWrite loadM := by
  unfold Asf.loadM Asf.loadBody
  apply NoWrite.convertError
  apply NoWrite.bind NoWrite.verifyRead; intro _
  apply NoWrite.bind (NoWrite.freadExact _ _); intro header
  exact NoWrite.ite (NoWrite.raise _) (NoWrite.loadObjectsM _ _)

/-! ### quiet environments: the pure load -/

theorem freadExact_q {e : Env} (hq : Quiet e) (n : Nat) (err : PyErr) (s : FS) :
    ∃ s', freadExact n err e s =
        (if (readAt s.data s.pos n).length ≠ n then .error err else .ok (readAt s.data s.pos n), s') ∧
      s'.data = s.data ∧ s'.pos = s.pos + (readAt s.data s.pos n).length := by
  unfold freadExact
  simp only [bind_run, fread_q hq]
  split
  · exact ⟨_, rfl, rfl, rfl⟩
  · exact ⟨_, rfl, rfl, rfl⟩

/-- the loop of parse_full on the file object is the pure loop at the file position -/
theorem loadObjectsM_q {e : Env} (hq : Quiet e) (n rem : Nat) (s : FS) :
    ∃ s', loadObjectsM n rem e s = (parseObjects s.data n s.pos rem, s') ∧ s'.data = s.data := by
  induction n generalizing rem s with
  | zero => exact ⟨s, rfl, rfl⟩
  | succ n ih =>
    unfold loadObjectsM parseObjects
    by_cases hr : rem < 24
    · simp only [hr, ↓reduceIte, raise_run]; exact ⟨s, rfl, rfl⟩
    · simp only [hr, ↓reduceIte, bind_run]
      obtain ⟨s1, h1, hd1, hp1⟩ := freadExact_q hq 24 .mutagen s
      rw [h1]
      by_cases hl : (readAt s.data s.pos 24).length ≠ 24
      · simp only [if_pos hl]; exact ⟨s1, rfl, hd1⟩
      · have hl' : (readAt s.data s.pos 24).length = 24 := by simpa using hl
        simp only [if_neg hl]
        by_cases hs : ofLE ((readAt s.data s.pos 24).drop 16) < 24
        · simp only [hs, ↓reduceIte, raise_run]
          exact ⟨s1, rfl, hd1⟩
        · simp only [hs, ↓reduceIte]
          by_cases hrem : rem - 24 < ofLE ((readAt s.data s.pos 24).drop 16) - 24
          · simp only [hrem, ↓reduceIte, raise_run]; exact ⟨s1, rfl, hd1⟩
          · simp only [hrem, ↓reduceIte, bind_run]
            obtain ⟨s2, h2, hd2, hp2⟩ := freadExact_q hq (ofLE ((readAt s.data s.pos 24).drop 16) - 24) .mutagen s1
            rw [h2, hd1, hp1, hl']
            by_cases hl2 : (readAt s.data (s.pos + 24) (ofLE ((readAt s.data s.pos 24).drop 16) - 24)).length ≠
                ofLE ((readAt s.data s.pos 24).drop 16) - 24
            · simp only [if_pos hl2]; exact ⟨s2, rfl, by rw [hd2, hd1]⟩
            · simp only [if_neg hl2]
              cases ho : objOf ((readAt s.data s.pos 24).take 16)
                  (readAt s.data (s.pos + 24) (ofLE ((readAt s.data s.pos 24).drop 16) - 24)) with
              | error x => simp only [raise_run]; exact ⟨s2, rfl, by rw [hd2, hd1]⟩
              | ok o =>
                simp only [bind_run]
                obtain ⟨s3, h3, hd3⟩ := ih (rem - ofLE ((readAt s.data s.pos 24).drop 16)) s2
                have hpos : s2.pos = s.pos + ofLE ((readAt s.data s.pos 24).drop 16) := by
                  rw [hp2, hd1, hp1, hl']
                  have : (readAt s.data (s.pos + 24) (ofLE ((readAt s.data s.pos 24).drop 16) - 24)).length =
                      ofLE ((readAt s.data s.pos 24).drop 16) - 24 := by simpa using hl2
                  rw [this]; omega
                rw [h3, hd2, hd1, hpos]
                cases parseObjects s.data n (s.pos + ofLE ((readAt s.data s.pos 24).drop 16))
                    (rem - ofLE ((readAt s.data s.pos 24).drop 16)) with
                | error x => exact ⟨s3, rfl, by rw [hd3, hd2, hd1]⟩
                | ok os => exact ⟨s3, rfl, by rw [hd3, hd2, hd1]⟩

theorem verifyRead_q {e : Env} (hq : Quiet e) (s : FS) : ∃ s', verifyRead e s = (.ok (), s') ∧ s'.data = s.data ∧ s'.pos = s.pos := by
  unfold verifyRead tryCatch
  have hr : (readAt s.data s.pos 0).length = 0 := by simp [readAt]
  simp only [bind_run, fread_q hq, hr, Nat.add_zero, pure_run]
  exact ⟨_, rfl, rfl, rfl⟩

/-- THE refinement: without faults and short reads, ASF(fileobj) on a file object at position 0 returns
exactly what the pure `parseFull` returns on the bytes — the tree or the MutagenError — for EVERY byte
string; the file is untouched -/
theorem loadM_q {e : Env} (hq : Quiet e) (s : FS) (hp : s.pos = 0) :
    ∃ s', loadM e s = (parseFull s.data, s') ∧ s'.data = s.data := by
  obtain ⟨s0, hv, hd0, hp0⟩ := verifyRead_q hq s
  obtain ⟨s1, h1, hd1, hp1⟩ := freadExact_q hq 30 .mutagen s0
  have hread : readAt s0.data s0.pos 30 = s.data.take 30 := by rw [hd0, hp0, hp]; simp [readAt]
  rw [hread] at h1 hp1
  have key : ∃ s', loadBody e s = (parseFull s.data, s') ∧ s'.data = s.data := by
    unfold loadBody
    simp only [bind_run, hv, h1]
    unfold parseFull parseSize
    simp only []
    by_cases hl : (s.data.take 30).length ≠ 30
    · rw [if_pos hl, if_pos (Or.inl hl)]; exact ⟨s1, rfl, by rw [hd1, hd0]⟩
    · rw [if_neg hl]
      simp only []
      by_cases hg : (s.data.take 30).take 16 ≠ gHeader
      · rw [if_pos hg, if_pos (Or.inr hg)]; exact ⟨s1, rfl, by rw [hd1, hd0]⟩
      · have hc : ¬ ((s.data.take 30).length ≠ 30 ∨ (s.data.take 30).take 16 ≠ gHeader) := by
          intro h; rcases h with h | h
          · exact hl h
          · exact hg h
        rw [if_neg hg, if_neg hc]
        obtain ⟨s2, h2, hd2⟩ := loadObjectsM_q hq (ofLE (((s.data.take 30).drop 24).take 4)) (ofLE (((s.data.take 30).drop 16).take 8) - 30) s1
        have hpos : s1.pos = 30 := by
          rw [hp1, hp0, hp]; have : (s.data.take 30).length = 30 := by simpa using hl
          rw [this]
        rw [hd1, hd0, hpos] at h2
        exact ⟨s2, h2, by rw [hd2, hd1, hd0]⟩
  obtain ⟨s', hk, hd⟩ := key
  unfold loadM
  rw [convertError_run, hk]
  refine ⟨s', ?_, hd⟩
  cases hpf : parseFull s.data with
  | ok objs => rfl
  | error x =>
    have : x = .mutagen := parseFull_err hpf
    subst this; rfl

/-! ### arbitrary fault environments: what can be raised -/

/-- what the load raises before `convert_error`: an injected exception or a MutagenError -/
def LoadErr (e : Env) (x : PyErr) : Prop := x = .mutagen ∨ Injected e x

theorem raises_freadExact (n : Nat) : Raises LoadErr (freadExact n .mutagen) := by
  unfold freadExact
  apply Raises.bind ((Raises.fread n).weaken fun _ _ h => Or.inr h); intro d
  apply Raises.ite
  · exact Raises.raise _ fun _ => Or.inl rfl
  · exact Raises.pure _ _

theorem raises_loadObjectsM (n rem : Nat) : Raises LoadErr (loadObjectsM n rem) := by
  induction n generalizing rem with
  | zero => exact Raises.pure _ _
  | succ n ih =>
    unfold loadObjectsM
    apply Raises.ite
    · exact Raises.raise _ fun _ => Or.inl rfl
    · apply Raises.bind (raises_freadExact _); intro h
      simp only []
      apply Raises.ite
      · exact Raises.raise _ fun _ => Or.inl rfl
      · apply Raises.ite
        · exact Raises.raise _ fun _ => Or.inl rfl
        · apply Raises.bind (raises_freadExact _); intro data
          cases ho : objOf (h.take 16) data with
          | error x =>
            intro e s err s' hm
            simp only [raise_run, Prod.mk.injEq, Except.error.injEq] at hm
            exact Or.inl (hm.1 ▸ objOf_err ho)
          | ok o => exact Raises.bind (ih _) fun _ => Raises.pure _ _

theorem raises_verifyRead : Raises (fun _ x => x = .value) verifyRead := by
  intro e s err s' h
  unfold verifyRead tryCatch at h
  cases hb : (do let _ ← fread 0; pure () : FileM Unit) e s with
  | mk r s1 =>
    rw [hb] at h
    cases r with
    | ok a => simp at h
    | error x =>
      simp only [↓reduceIte, raise_run, Prod.mk.injEq, Except.error.injEq] at h
      exact h.1.symm

/-- ASF(fileobj) under ANY fault environment: `error` (a MutagenError), or ValueError from verify_fileobj
(every failure of its `read(0)`), or an injected exception that is not an IOError -/
theorem raises_loadM :
    Raises (fun e x => x = .mutagen ∨ ((x = .value ∨ LoadErr e x) ∧ x.isIO = false)) loadM := by
  unfold loadM loadBody
  apply Raises.convertError
  apply Raises.bind (raises_verifyRead.weaken fun _ _ h => Or.inl h); intro _
  apply Raises.bind ((raises_freadExact _).weaken fun _ _ h => Or.inr h); intro header
  apply Raises.ite
  · exact Raises.raise _ fun _ => Or.inr (Or.inl rfl)
  · exact (raises_loadObjectsM _ _).weaken fun _ _ h => Or.inr h

/-! ### a normal return: no fault fired, no read was short -/

theorem okAgree_freadExact (n : Nat) (err : PyErr) : OkAgree (freadExact n err) := by
  unfold freadExact
  apply OkAgree.bind (OkAgree.fread n); intro d
  split
  · exact OkAgree.raise _
  · exact OkAgree.pure _

theorem okAgree_loadObjectsM (n rem : Nat) : OkAgree (loadObjectsM n rem) := by
  induction n generalizing rem with
  | zero => exact OkAgree.pure _
  | succ n ih =>
    unfold loadObjectsM
    split
    · exact OkAgree.raise _
    · apply OkAgree.bind (okAgree_freadExact _ _); intro h
      simp only []
      split
      · exact OkAgree.raise _
      · split
        · exact OkAgree.raise _
        · apply OkAgree.bind (okAgree_freadExact _ _); intro data
          cases objOf (h.take 16) data with
          | error x => exact OkAgree.raise x
          | ok o => exact OkAgree.bind (ih _) fun _ => OkAgree.pure _

theorem okAgree_verifyRead : OkAgree verifyRead := by
  unfold verifyRead
  apply OkAgree.tryCatch
  · exact OkAgree.bind (OkAgree.fread 0) fun _ => OkAgree.pure _
  · intro x e s a s' h; simp at h

theorem okAgree_loadM : OkAgree loadM := by
  unfold loadM loadBody
  apply okAgree_convertError
  apply OkAgree.bind okAgree_verifyRead; intro _
  apply OkAgree.bind (okAgree_freadExact _ _); intro header
  split
  · exact OkAgree.raise _
  · exact okAgree_loadObjectsM _ _

/-- the environment with its short reads removed -/
def _root_.Mutagen.Env.noShort (e : Env) : Env := { e with shortAt := fun _ => none }

/-- a normal return means no read came back short: the same run happens with the short reads removed -/
def ShortAgree (m : FileM α) : Prop := ∀ e s a s', m e s = (.ok a, s') → m e.noShort s = (.ok a, s')

theorem ShortAgree.pure (a : α) : ShortAgree (pure a : FileM α) := by
  intro e s b s' h; simpa using h

theorem ShortAgree.raise (x : PyErr) : ShortAgree (Mutagen.raise x : FileM α) := by
  intro e s b s' h; simp at h

theorem ShortAgree.bind {m : FileM α} {f : α → FileM β} (hm : ShortAgree m) (hf : ∀ a, ShortAgree (f a)) : ShortAgree (m >>= f) := by
  intro e s b s' h
  simp only [bind_run] at h ⊢
  cases hms : m e s with
  | mk r s1 =>
    rw [hms] at h
    cases r with
    | ok a => rw [hm e s a s1 hms]; exact hf a e s1 b s' h
    | error x => simp at h

theorem ShortAgree.tick (o : Op) : ShortAgree (tick o) := by
  intro e s a s' h; exact h

theorem fread_noShort {n : Nat} {e : Env} {s s2 : FS} {d : Bytes} (h : fread n e s = (.ok d, s2)) (hl : d.length = n) :
    fread n e.noShort s = (.ok d, s2) := by
  unfold Mutagen.fread at h ⊢
  simp only [] at h ⊢
  have ht : Mutagen.tick (.read n) e.noShort s = Mutagen.tick (.read n) e s := rfl
  rw [ht]
  cases hts : Mutagen.tick (.read n) e s with
  | mk r s1 =>
    rw [hts] at h
    cases r with
    | error x => simp at h
    | ok u =>
      simp only [] at h ⊢
      have hns : e.noShort.shortAt s.ops = none := rfl
      rw [hns]
      simp only []
      cases hsh : e.shortAt s.ops with
      | none => rw [hsh] at h; exact h
      | some k =>
        rw [hsh] at h
        simp only [] at h
        by_cases hk : n ≤ k
        · have : min k n = n := by omega
          rw [this] at h; exact h
        · exfalso
          have hmin : min k n = k := by omega
          rw [hmin] at h
          simp only [Prod.mk.injEq, Except.ok.injEq] at h
          have hlen : (readAt s1.data s1.pos k).length ≤ k := by
            unfold readAt; rw [List.length_take]; exact Nat.min_le_left _ _
          rw [h.1] at hlen
          omega

/-- a read whose length is checked: a normal return means the read was not short -/
theorem ShortAgree.freadExact (n : Nat) (err : PyErr) : ShortAgree (freadExact n err) := by
  intro e s a s' h
  unfold Asf.freadExact at h ⊢
  simp only [bind_run] at h ⊢
  cases hf : Mutagen.fread n e s with
  | mk r s2 =>
    rw [hf] at h
    cases r with
    | error x => simp at h
    | ok d =>
      simp only [] at h
      by_cases hl : d.length ≠ n
      · rw [if_pos hl] at h; simp at h
      · rw [if_neg hl] at h
        have hl' : d.length = n := by simpa using hl
        rw [fread_noShort hf hl']
        simp only []
        rw [if_neg hl]
        exact h

theorem fread0_len {e : Env} {s s2 : FS} {d : Bytes} (h : fread 0 e s = (.ok d, s2)) : d.length = 0 := by
  unfold Mutagen.fread at h
  simp only [] at h
  cases hts : Mutagen.tick (.read 0) e s with
  | mk r s1 =>
    rw [hts] at h
    cases r with
    | error x => simp at h
    | ok u =>
      simp only [Prod.mk.injEq, Except.ok.injEq] at h
      rw [← h.1]
      unfold readAt
      rw [List.length_take]
      cases e.shortAt s.ops <;> simp

theorem ShortAgree.fread0 : ShortAgree (fread 0) := by
  intro e s a s' h
  exact fread_noShort h (fread0_len h)

theorem ShortAgree.tryCatch {body : FileM α} {pred : PyErr → Bool} {handler : PyErr → FileM α}
    (hb : ShortAgree body) (hh : ∀ x e s a s', handler x e s ≠ (.ok a, s')) : ShortAgree (tryCatch body pred handler) := by
  intro e s a s' h
  unfold Mutagen.tryCatch at h ⊢
  cases hbs : body e s with
  | mk r s1 =>
    rw [hbs] at h
    cases r with
    | ok b => rw [hb e s b s1 hbs]; exact h
    | error x =>
      simp only at h
      split at h
      · exact absurd h (hh x e s1 a s')
      · simp at h

theorem ShortAgree.convertError (src : PyErr → Bool) (dst : PyErr) {m : FileM α} (hm : ShortAgree m) : ShortAgree (convertError src dst m) := by
  intro e s a s' h
  rw [convertError_run] at h ⊢
  cases hms : m e s with
  | mk r s1 =>
    rw [hms] at h
    cases r with
    | ok b => rw [hm e s b s1 hms]; exact h
    | error x => simp only at h; split at h <;> simp at h

theorem shortAgree_loadObjectsM (n rem : Nat) : ShortAgree (loadObjectsM n rem) := by
  induction n generalizing rem with
  | zero => exact ShortAgree.pure _
  | succ n ih =>
    unfold loadObjectsM
    split
    · exact ShortAgree.raise _
    · apply ShortAgree.bind (ShortAgree.freadExact _ _); intro h
      simp only []
      split
      · exact ShortAgree.raise _
      · split
        · exact ShortAgree.raise _
        · apply ShortAgree.bind (ShortAgree.freadExact _ _); intro data
          cases objOf (h.take 16) data with
          | error x => exact ShortAgree.raise x
          | ok o => exact ShortAgree.bind (ih _) fun _ => ShortAgree.pure _

/-- every read of the load is length-checked: a normal return means no read was short -/
theorem shortAgree_loadM : ShortAgree loadM := by
  unfold loadM loadBody
  apply ShortAgree.convertError
  apply ShortAgree.bind
  · unfold verifyRead
    apply ShortAgree.tryCatch
    · exact ShortAgree.bind ShortAgree.fread0 fun _ => ShortAgree.pure _
    · intro x e s a s' h; simp at h
  · intro _
    apply ShortAgree.bind (ShortAgree.freadExact _ _); intro header
    split
    · exact ShortAgree.raise _
    · exact shortAgree_loadObjectsM _ _

/-- a normal return of ASF(fileobj) — whatever faults and short reads the environment had in store —
is the pure load of the bytes: nothing was lost on the way -/
theorem loadM_ok_means_loaded (e : Env) (s s' : FS) (hp : s.pos = 0) (objs : List Obj) (h : loadM e s = (.ok objs, s')) :
    parseFull s.data = .ok objs ∧ s'.data = s.data := by
  have h1 := okAgree_loadM e s objs s' h
  have h2 := shortAgree_loadM e.noFaults s objs s' h1
  have hq : Quiet e.noFaults.noShort := ⟨fun _ => rfl, fun _ => rfl⟩
  obtain ⟨s2, h3, _⟩ := loadM_q hq s hp
  rw [h3] at h2
  injection h2 with h4 _
  exact ⟨h4, NoWrite.loadM e s _ s' h⟩

/-! ### short reads alone (no injected exception): always a MutagenError -/

theorem raises_verifyRead' : Raises (fun e x => x = .value ∧ ∃ y, Injected e y) verifyRead := by
  intro e s err s' h
  unfold verifyRead tryCatch at h
  cases hb : (do let _ ← fread 0; pure () : FileM Unit) e s with
  | mk r s1 =>
    rw [hb] at h
    cases r with
    | ok a => simp at h
    | error x =>
      simp only [↓reduceIte, raise_run, Prod.mk.injEq, Except.error.injEq] at h
      have hx : Injected e x := by
        have hr : Raises Injected (do let _ ← fread 0; pure () : FileM Unit) :=
          Raises.bind (Raises.fread 0) fun _ => Raises.pure _ _
        exact hr e s x s1 hb
      exact ⟨h.1.symm, x, hx⟩

/-- with short reads but no injected exception the load ends in a tree or in `error` — a short read is
never an EOFError, a struct.error, or "no tags" -/
theorem loadM_short_only (e : Env) (hnf : ∀ i, e.failAt i = none) (s s' : FS) (x : PyErr) (h : loadM e s = (.error x, s')) :
    x = .mutagen := by
  have hr : Raises (fun e x => x = .mutagen ∨ (((x = .value ∧ ∃ y, Injected e y) ∨ LoadErr e x) ∧ x.isIO = false)) loadM := by
    unfold loadM loadBody
    apply Raises.convertError
    apply Raises.bind (raises_verifyRead'.weaken fun _ _ h => Or.inl h); intro _
    apply Raises.bind ((raises_freadExact _).weaken fun _ _ h => Or.inr h); intro header
    apply Raises.ite
    · exact Raises.raise _ fun _ => Or.inr (Or.inl rfl)
    · exact (raises_loadObjectsM _ _).weaken fun _ _ h => Or.inr h
  rcases hr e s x s' h with h1 | ⟨h2, _⟩
  · exact h1
  · rcases h2 with ⟨_, y, i, hi⟩ | h2 | ⟨i, hi⟩
    · rw [hnf i] at hi; cases hi
    · exact h2
    · rw [hnf i] at hi; cases hi

/-! ### load, rewind, save on one file object -/

/-- `a = ASF(f); f.seek(0); a.save(f)` for every capacity: what the pure `save` computes (its exception with
the file untouched, or the new bytes), or `error` (ENOSPC) with the file byte-identical -/
theorem loadSaveM_q {e : Env} (hq : Quiet e) (B : Nat) (hB : 0 < B) (tags : List Tag) (pad : PadChoice) (s : FS) (hp : s.pos = 0) :
    match save s.data tags pad with
    | .error x => ∃ s', loadSaveM B tags pad e s = (.error x, s') ∧ s'.data = s.data
    | .ok out =>
      (∃ s', loadSaveM B tags pad e s = (.ok (), s') ∧ s'.data = out) ∨
      (∃ s', loadSaveM B tags pad e s = (.error .mutagen, s') ∧ s'.data = s.data) := by
  obtain ⟨s1, h1, hd1⟩ := loadM_q hq s hp
  unfold loadSaveM save
  simp only [bind_run, h1]
  cases hpf : parseFull s.data with
  | error x => exact ⟨s1, rfl, hd1⟩
  | ok objs =>
    simp only [fseek_q hq]
    generalize hS : ({ data := s1.data, pos := 0, ops := s1.ops + 1, log := Op.seek 0 :: s1.log } : FS) = S
    have hSd : S.data = s.data := by rw [← hS]; exact hd1
    have hSp : S.pos = 0 := by rw [← hS]
    have := saveM_q hq B hB objs tags pad S hSp
    rw [hSd] at this
    cases hst : saveTree objs s.data tags pad with
    | error x =>
      rw [hst] at this
      exact this
    | ok r =>
      obtain ⟨out, t⟩ := r
      rw [hst] at this
      exact this

/-- `a = ASF(f); f.seek(0); a.delete(f)` for every capacity -/
theorem loadDeleteM_q {e : Env} (hq : Quiet e) (B : Nat) (hB : 0 < B) (s : FS) (hp : s.pos = 0) :
    match delete s.data with
    | .error x => ∃ s', loadDeleteM B e s = (.error x, s') ∧ s'.data = s.data
    | .ok out =>
      (∃ s', loadDeleteM B e s = (.ok (), s') ∧ s'.data = out) ∨
      (∃ s', loadDeleteM B e s = (.error .mutagen, s') ∧ s'.data = s.data) := by
  obtain ⟨s1, h1, hd1⟩ := loadM_q hq s hp
  unfold loadDeleteM delete save
  simp only [bind_run, h1]
  cases hpf : parseFull s.data with
  | error x => exact ⟨s1, rfl, hd1⟩
  | ok objs =>
    simp only [fseek_q hq]
    generalize hS : ({ data := s1.data, pos := 0, ops := s1.ops + 1, log := Op.seek 0 :: s1.log } : FS) = S
    have hSd : S.data = s.data := by rw [← hS]; exact hd1
    have hSp : S.pos = 0 := by rw [← hS]
    have := deleteM_q hq B hB objs S hSp
    rw [hSd] at this
    cases hst : saveTree objs s.data [] padZero with
    | error x =>
      rw [hst] at this
      exact this
    | ok r =>
      obtain ⟨out, t⟩ := r
      rw [hst] at this
      exact this

end Mutagen.Asf
