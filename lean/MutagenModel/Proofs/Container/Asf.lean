/- Proofs/Container/Asf.lean — ASF files: the decision logic of ASF.save, load / save / delete on
well-formed layouts, the strict reader, second saves -/
import MutagenModel.Model.Container.Asf
import MutagenModel.Proofs.AsfAttr
import MutagenModel.Proofs.Padding
set_option linter.unusedVariables false
namespace Mutagen.Asf
open Mutagen Mutagen.AsfAttr

/-! ### the decision logic of ASF.save -/

/-- a value only the Metadata Library Object can hold: larger than a 16-bit length field allows, or a GUID -/
def libraryOnly (t : Tag) : Bool := decide (t.val.dataSize > 0xFFFF) || t.val.typ == 6

/-- what the Content Description Object can hold -/
def FitsCD (t : Tag) : Prop :=
  t.name ∈ cdNames ∧ t.val.typ = 0 ∧ t.val.dataSize ≤ 0xFFFF ∧ t.language = none ∧ t.stream = none
/-- what the Extended Content Description Object can hold (16-bit value length, no GUID type, no language / stream fields) -/
def FitsECD (t : Tag) : Prop :=
  t.val.dataSize ≤ 0xFFFF ∧ t.val.typ ≠ 6 ∧ t.language = none ∧ t.stream = none
/-- what the Metadata Object can hold (a stream number, no language; mutagen keeps to 16-bit sizes and no GUID there) -/
def FitsM (t : Tag) : Prop :=
  t.val.dataSize ≤ 0xFFFF ∧ t.val.typ ≠ 6 ∧ t.language = none

def names (l : List Tag) : List (List Nat) := l.map Tag.name

theorem hasName_iff (n : List Nat) (l : List Tag) : hasName n l = true ↔ n ∈ names l := by
  unfold hasName names
  simp only [List.any_eq_true, beq_iff_eq, List.mem_map]

/-- the invariant of the loop after the tags `pre` have been looked at -/
structure DistInv (d : Dist) (pre : List Tag) : Prop where
  perm : (d.cd ++ d.ecd ++ d.mo ++ d.ml).Perm pre
  subCD : d.cd.Sublist pre
  subECD : d.ecd.Sublist pre
  subM : d.mo.Sublist pre
  subML : d.ml.Sublist pre
  fitsCD : ∀ t ∈ d.cd, FitsCD t
  fitsECD : ∀ t ∈ d.ecd, FitsECD t ∧ t.name ∉ cdNames
  fitsM : ∀ t ∈ d.mo, FitsM t ∧ t.stream ≠ none
  nodupCD : (names d.cd).Nodup
  nodupECD : (names d.ecd).Nodup
  nodupM : (names d.mo).Nodup

theorem distInv_empty : DistInv Dist.empty [] := by
  refine ⟨?_, ?_, ?_, ?_, ?_, ?_, ?_, ?_, ?_, ?_, ?_⟩ <;> simp [Dist.empty, names]

theorem sub_snoc {l pre : List Tag} (h : l.Sublist pre) (t : Tag) : (l ++ [t]).Sublist (pre ++ [t]) :=
  List.Sublist.append h (List.Sublist.refl _)
theorem sub_skip {l pre : List Tag} (h : l.Sublist pre) (t : Tag) : l.Sublist (pre ++ [t]) :=
  h.trans (List.sublist_append_left _ _)

theorem nodup_snoc (l : List Tag) (t : Tag) (h : (names l).Nodup) (hn : hasName t.name l = false) :
    (names (l ++ [t])).Nodup := by
  have : t.name ∉ names l := by
    intro hm; rw [← hasName_iff] at hm; rw [hm] at hn; cases hn
  unfold names at *
  rw [List.map_append, List.nodup_append]
  refine ⟨h, by simp, ?_⟩
  intro a ha b hb
  simp at hb
  subst hb
  intro e; subst e; exact this ha

theorem distInv_step (d : Dist) (pre : List Tag) (t : Tag) (h : DistInv d pre) : DistInv (distStep d t) (pre ++ [t]) := by
  have toML : DistInv { d with ml := d.ml ++ [t] } (pre ++ [t]) := by
    refine ⟨?_, sub_skip h.subCD t, sub_skip h.subECD t, sub_skip h.subM t, sub_snoc h.subML t, h.fitsCD, h.fitsECD, h.fitsM,
      h.nodupCD, h.nodupECD, h.nodupM⟩
    have := h.perm.append_right [t]
    simpa [List.append_assoc] using this
  unfold distStep
  simp only []
  by_cases c1 : (decide (t.val.dataSize > 0xFFFF) || t.val.typ == 6 || t.language.isSome) = true
  · rw [if_pos c1]; exact toML
  · rw [if_neg c1]
    have hsz : t.val.dataSize ≤ 0xFFFF := by
      simp at c1; omega
    have hty : t.val.typ ≠ 6 := by
      simp at c1; exact c1.1.2
    have hlang : t.language = none := by
      simp at c1; exact c1.2
    by_cases c2 : t.stream.isSome = true
    · rw [if_pos c2]
      by_cases c3 : (!hasName t.name d.mo) = true
      · rw [if_pos c3]
        have hn : hasName t.name d.mo = false := by simpa using c3
        refine ⟨?_, sub_skip h.subCD t, sub_skip h.subECD t, sub_snoc h.subM t, sub_skip h.subML t, h.fitsCD, h.fitsECD, ?_,
          h.nodupCD, h.nodupECD, nodup_snoc _ _ h.nodupM hn⟩
        · have h1 : (d.cd ++ d.ecd ++ (d.mo ++ [t]) ++ d.ml).Perm (d.cd ++ d.ecd ++ d.mo ++ d.ml ++ [t]) := by
            simp only [List.append_assoc]
            refine List.Perm.append_left _ (List.Perm.append_left _ (List.Perm.append_left _ ?_))
            exact List.perm_append_comm
          exact h1.trans (h.perm.append_right [t])
        · intro x hx
          rcases List.mem_append.mp hx with hx | hx
          · exact h.fitsM x hx
          · simp at hx; subst hx
            refine ⟨⟨hsz, hty, hlang⟩, ?_⟩
            intro e; rw [e] at c2; cases c2
      · rw [if_neg c3]; exact toML
    · rw [if_neg c2]
      have hstream : t.stream = none := by
        cases hs : t.stream with
        | none => rfl
        | some v => rw [hs] at c2; simp at c2
      by_cases c4 : cdNames.contains t.name = true
      · rw [if_pos c4]
        by_cases c5 : (!hasName t.name d.cd && t.val.typ == 0) = true
        · rw [if_pos c5]
          have hn : hasName t.name d.cd = false := by simp at c5; simpa using c5.1
          have ht0 : t.val.typ = 0 := by simp at c5; exact c5.2
          refine ⟨?_, sub_snoc h.subCD t, sub_skip h.subECD t, sub_skip h.subM t, sub_skip h.subML t, ?_, h.fitsECD, h.fitsM,
            nodup_snoc _ _ h.nodupCD hn, h.nodupECD, h.nodupM⟩
          · have h1 : ((d.cd ++ [t]) ++ d.ecd ++ d.mo ++ d.ml).Perm (d.cd ++ d.ecd ++ d.mo ++ d.ml ++ [t]) := by
              simp only [List.append_assoc]
              refine List.Perm.append_left _ ?_
              have : ([t] ++ (d.ecd ++ (d.mo ++ d.ml))).Perm ((d.ecd ++ (d.mo ++ d.ml)) ++ [t]) := List.perm_append_comm
              simpa [List.append_assoc] using this
            exact h1.trans (h.perm.append_right [t])
          · intro x hx
            rcases List.mem_append.mp hx with hx | hx
            · exact h.fitsCD x hx
            · simp at hx; subst hx
              exact ⟨by simpa using c4, ht0, hsz, hlang, hstream⟩
        · rw [if_neg c5]; exact toML
      · rw [if_neg c4]
        by_cases c6 : (!hasName t.name d.ecd) = true
        · rw [if_pos c6]
          have hn : hasName t.name d.ecd = false := by simpa using c6
          refine ⟨?_, sub_skip h.subCD t, sub_snoc h.subECD t, sub_skip h.subM t, sub_skip h.subML t, h.fitsCD, ?_, h.fitsM,
            h.nodupCD, nodup_snoc _ _ h.nodupECD hn, h.nodupM⟩
          · have h1 : (d.cd ++ (d.ecd ++ [t]) ++ d.mo ++ d.ml).Perm (d.cd ++ d.ecd ++ d.mo ++ d.ml ++ [t]) := by
              simp only [List.append_assoc]
              refine List.Perm.append_left _ (List.Perm.append_left _ ?_)
              have : ([t] ++ (d.mo ++ d.ml)).Perm ((d.mo ++ d.ml) ++ [t]) := List.perm_append_comm
              simpa [List.append_assoc] using this
            exact h1.trans (h.perm.append_right [t])
          · intro x hx
            rcases List.mem_append.mp hx with hx | hx
            · exact h.fitsECD x hx
            · simp at hx; subst hx
              exact ⟨⟨hsz, hty, hlang, hstream⟩, by simpa using c4⟩
        · rw [if_neg c6]; exact toML

theorem distInv_foldl (ts : List Tag) (d : Dist) (pre : List Tag) (h : DistInv d pre) :
    DistInv (ts.foldl distStep d) (pre ++ ts) := by
  induction ts generalizing d pre with
  | nil => simpa using h
  | cons t r ih =>
    have := ih (distStep d t) (pre ++ [t]) (distInv_step d pre t h)
    simpa [List.append_assoc] using this

theorem distInv_distPure (tags : List Tag) : DistInv (distPure tags) tags := by
  have := distInv_foldl tags Dist.empty [] distInv_empty
  simpa [distPure] using this

/-! ### reading an object back -/

theorem p8 : (256 : Nat) ^ 8 = 18446744073709551616 := by decide

theorem object_length (g data : Bytes) : (object g data).length = g.length + 8 + data.length := by
  simp [object]; omega

theorem object_shape (g data T : Bytes) : object g data ++ T = g ++ (toLE 8 (24 + data.length) ++ (data ++ T)) := by
  simp [object]

theorem hdr_take (g data T : Bytes) (hg : g.length = 16) :
    (object g data ++ T).take 24 = g ++ toLE 8 (24 + data.length) := by
  rw [object_shape, ← List.append_assoc]
  exact take_of_len _ _ 24 (by simp [hg])

theorem body_drop (g data T : Bytes) (hg : g.length = 16) : (object g data ++ T).drop 24 = data ++ T := by
  rw [object_shape, ← List.append_assoc]
  exact drop_of_len _ _ 24 (by simp [hg])

theorem hdr_guid (g : Bytes) (n : Nat) (hg : g.length = 16) : (g ++ toLE 8 n).take 16 = g := take_of_len _ _ 16 hg

theorem hdr_size (g : Bytes) (n : Nat) (hg : g.length = 16) (hn : n < 2 ^ 64) : ofLE ((g ++ toLE 8 n).drop 16) = n := by
  rw [drop_of_len _ _ 16 hg]
  exact ofLE_toLE 8 n (by rw [p8]; exact hn)

theorem renderObjects_append (a b : List Object) : renderObjects (a ++ b) = renderObjects a ++ renderObjects b := by
  induction a with
  | nil => rfl
  | cons o r ih => simp [renderObjects, ih]

theorem renderObjects_eq (os : List Object) : renderObjects os = (os.map Object.render).flatten := by
  induction os with
  | nil => rfl
  | cons o r ih => simp [renderObjects, ih]

/-! ### layouts and the object tree -/

def SubItem.guid : SubItem → Bytes
  | .foreign o => o.guid | .mo _ => gMeta | .metaLib _ => gMetaLib | .pad _ => gPadding

def Item.guid : Item → Bytes
  | .foreign o => o.guid | .cd _ => gCD | .ecd _ => gECD | .pad _ => gPadding | .ext _ => gExt

/-- the object `parse_full` builds for a child of the Header Extension Object -/
def SubItem.toLeaf : SubItem → Leaf
  | .foreign o => .raw o.guid o.data | .mo d => .mo d | .metaLib d => .metaLib d | .pad d => .raw gPadding d

/-- the object `parse_full` builds for a child of the Header Object -/
def Item.toObj : Item → Obj
  | .foreign o => .leaf (.raw o.guid o.data)
  | .cd d => .leaf (.cd d)
  | .ecd d => .leaf (.ecd d)
  | .pad d => .leaf (.raw gPadding d)
  | .ext subs => .ext (subs.map SubItem.toLeaf)

theorem SubItem.toLeaf_guid (s : SubItem) : s.toLeaf.guid = s.guid := by cases s <;> rfl
theorem Item.toObj_guid (i : Item) : i.toObj.guid = i.guid := by cases i <;> rfl
theorem SubItem.toObject_guid (s : SubItem) : s.toObject.guid = s.guid := by cases s <;> rfl
theorem Item.toObject_guid (i : Item) : i.toObject.guid = i.guid := by cases i <;> rfl

/-- a foreign object: a 16-byte GUID that is none of the GUIDs `save` gives a meaning to, and a
payload the info parsers (File Properties, Stream Properties, Codec List) accept -/
def ForeignOK (o : Object) : Prop := o.guid.length = 16 ∧ o.guid ∉ special ∧ rawOK o.guid o.data = true

def SubItem.OK : SubItem → Prop
  | .foreign o => ForeignOK o
  | .mo d => (parseML false d).isSome = true
  | .metaLib d => (parseML true d).isSome = true
  | .pad _ => True

def Item.OK : Item → Prop
  | .foreign o => ForeignOK o
  | .cd d => (parseCD d).isSome = true
  | .ecd d => (parseECD d).isSome = true
  | .pad _ => True
  | .ext subs => (∀ s ∈ subs, s.OK) ∧ (renderObjects (subs.map SubItem.toObject)).length < 2 ^ 32

/-- a well-formed file: children as above, a count that fits 32 bits, a header that fits 64 bits -/
structure Layout.OK (L : Layout) : Prop where
  items : ∀ i ∈ L.top, i.OK
  count : L.top.length < 2 ^ 32
  size : L.headerLen < 2 ^ 64

theorem special_ne {g : Bytes} (h : g ∉ special) :
    g ≠ gHeader ∧ g ≠ gCD ∧ g ≠ gECD ∧ g ≠ gExt ∧ g ≠ gMeta ∧ g ≠ gMetaLib ∧ g ≠ gPadding := by
  simp only [special, List.mem_cons, List.not_mem_nil, or_false, not_or] at h
  exact h

theorem leafOf_foreign (o : Object) (h : ForeignOK o) : leafOf o.guid o.data = .ok (.raw o.guid o.data) := by
  obtain ⟨_, hs, hr⟩ := h
  obtain ⟨h1, h2, h3, h4, h5, h6, h7⟩ := special_ne hs
  unfold leafOf
  simp only [h1, h2, h3, h5, h6, hr, ↓reduceIte]

theorem rawOK_padding (d : Bytes) : rawOK gPadding d = true := by
  unfold rawOK
  have h1 : gPadding ≠ gFileProps := by decide
  have h2 : gPadding ≠ gStreamProps := by decide
  have h3 : gPadding ≠ gCodecList := by decide
  simp only [h1, h2, h3, ↓reduceIte]

theorem leafOf_padding (d : Bytes) : leafOf gPadding d = .ok (.raw gPadding d) := by
  unfold leafOf
  have h1 : gPadding ≠ gHeader := by decide
  have h2 : gPadding ≠ gCD := by decide
  have h3 : gPadding ≠ gECD := by decide
  have h5 : gPadding ≠ gMeta := by decide
  have h6 : gPadding ≠ gMetaLib := by decide
  simp only [h1, h2, h3, h5, h6, rawOK_padding, ↓reduceIte]

theorem leafOf_sub (s : SubItem) (h : s.OK) : leafOf s.toObject.guid s.toObject.data = .ok s.toLeaf := by
  cases s with
  | foreign o => exact leafOf_foreign o h
  | pad d => exact leafOf_padding d
  | mo d =>
    simp only [SubItem.OK] at h
    unfold leafOf
    have h1 : gMeta ≠ gHeader := by decide
    have h2 : gMeta ≠ gCD := by decide
    have h3 : gMeta ≠ gECD := by decide
    simp only [SubItem.toObject, SubItem.toLeaf, h1, h2, h3, h, ↓reduceIte]
  | metaLib d =>
    simp only [SubItem.OK] at h
    unfold leafOf
    have h1 : gMetaLib ≠ gHeader := by decide
    have h2 : gMetaLib ≠ gCD := by decide
    have h3 : gMetaLib ≠ gECD := by decide
    have h4 : gMetaLib ≠ gMeta := by decide
    simp only [SubItem.toObject, SubItem.toLeaf, h1, h2, h3, h4, h, ↓reduceIte]

theorem sub_guid16 (s : SubItem) (h : s.OK) : s.toObject.guid.length = 16 := by
  cases s with
  | foreign o => exact h.1
  | pad d => rfl
  | mo d => rfl
  | metaLib d => rfl

theorem sub_guid_ne_ext (s : SubItem) (h : s.OK) : s.toObject.guid ≠ gExt := by
  cases s with
  | foreign o => exact (special_ne h.2.1).2.2.2.1
  | pad d => simp only [SubItem.toObject]; decide
  | mo d => simp only [SubItem.toObject]; decide
  | metaLib d => simp only [SubItem.toObject]; decide

/-- the loop of HeaderExtensionObject.parse over the rendered children -/
theorem extLoop_subs (subs : List SubItem) (n : Nat) (pre : Bytes) (fuel : Nat)
    (hok : ∀ s ∈ subs, s.OK) (hsz : (renderObjects (subs.map SubItem.toObject)).length < 2 ^ 64) (hf : subs.length ≤ fuel) :
    extLoop (extReserved ++ toLE 4 n ++ (pre ++ renderObjects (subs.map SubItem.toObject)))
      (pre.length + (renderObjects (subs.map SubItem.toObject)).length) fuel pre.length = .ok (subs.map SubItem.toLeaf) := by
  induction subs generalizing pre fuel with
  | nil =>
    cases fuel with
    | zero => simp [extLoop, renderObjects]
    | succ k => simp [extLoop, renderObjects]
  | cons s r ih =>
    cases fuel with
    | zero => simp at hf
    | succ fuel =>
      have hs := hok s List.mem_cons_self
      have hg := sub_guid16 s hs
      simp only [List.map_cons, renderObjects, Object.render] at hsz ⊢
      have hR : renderObjects (r.map SubItem.toObject) = renderObjects (r.map SubItem.toObject) := rfl
      generalize renderObjects (r.map SubItem.toObject) = R at hsz ih ⊢
      have hlen : (object s.toObject.guid s.toObject.data).length = 24 + s.toObject.data.length := by
        rw [object_length, hg]
      have hsize : 24 + s.toObject.data.length < 2 ^ 64 := by
        simp only [List.length_append, hlen] at hsz; omega
      unfold extLoop
      have c1 : pre.length < pre.length + (object s.toObject.guid s.toObject.data ++ R).length := by
        simp only [List.length_append, hlen]; omega
      rw [if_pos c1]
      have hdrop : (extReserved ++ toLE 4 n ++ (pre ++ (object s.toObject.guid s.toObject.data ++ R))).drop (22 + pre.length) =
          object s.toObject.guid s.toObject.data ++ R := by
        rw [← List.append_assoc]
        exact drop_of_len _ _ _ (by simp [extReserved]; omega)
      have hdrop2 : (extReserved ++ toLE 4 n ++ (pre ++ (object s.toObject.guid s.toObject.data ++ R))).drop (46 + pre.length) =
          s.toObject.data ++ R := by
        rw [show 46 + pre.length = (22 + pre.length) + 24 by omega, ← List.drop_drop, hdrop, body_drop _ _ _ hg]
      simp only [hdrop, hdr_take _ _ _ hg, hdrop2]
      have c2 : ¬ ((s.toObject.guid ++ toLE 8 (24 + s.toObject.data.length)).length < 24) := by simp [hg]
      rw [if_neg c2, hdr_size _ _ hg hsize, hdr_guid _ _ hg]
      have c3 : ¬ (24 + s.toObject.data.length < 1) := by omega
      rw [if_neg c3, if_neg (sub_guid_ne_ext s hs)]
      have e1 : 24 + s.toObject.data.length - 24 = s.toObject.data.length := by omega
      rw [e1, take_of_len _ _ _ rfl, leafOf_sub s hs]
      have := ih (pre ++ object s.toObject.guid s.toObject.data) fuel (fun x hx => hok x (List.mem_cons_of_mem _ hx))
        (by simp only [List.length_append] at hsz; omega) (by simp at hf; omega)
      simp only [List.append_assoc, List.length_append, hlen] at this ⊢
      rw [show pre.length + (24 + s.toObject.data.length) = pre.length + (24 + s.toObject.data.length) from rfl] at this
      simp only [Nat.add_assoc] at this ⊢
      rw [this]


theorem p4' : (256 : Nat) ^ 4 = 4294967296 := by decide

theorem subs_length_le (subs : List SubItem) (hok : ∀ s ∈ subs, s.OK) :
    subs.length ≤ (renderObjects (subs.map SubItem.toObject)).length := by
  induction subs with
  | nil => simp
  | cons s r ih =>
    have hg := sub_guid16 s (hok s List.mem_cons_self)
    have := ih (fun x hx => hok x (List.mem_cons_of_mem _ hx))
    simp only [List.map_cons, renderObjects, Object.render, List.length_append, object_length, hg, List.length_cons]
    omega

/-- HeaderExtensionObject.parse on the payload the specification describes -/
theorem parseExt_subs (subs : List SubItem) (hok : ∀ s ∈ subs, s.OK)
    (hsz : (renderObjects (subs.map SubItem.toObject)).length < 2 ^ 32) :
    parseExt (extPayload (renderObjects (subs.map SubItem.toObject))) = .ok (subs.map SubItem.toLeaf) := by
  unfold parseExt extPayload
  have h18 : extReserved.length = 18 := rfl
  have e1 : ((extReserved ++ toLE 4 (renderObjects (subs.map SubItem.toObject)).length ++
      renderObjects (subs.map SubItem.toObject)).drop 18).take 4 = toLE 4 (renderObjects (subs.map SubItem.toObject)).length := by
    rw [List.append_assoc, drop_of_len _ _ 18 h18]
    exact take_of_len _ _ 4 (length_toLE 4 _)
  simp only [e1, length_toLE]
  rw [if_neg (by omega), ofLE_toLE 4 _ (by rw [p4']; exact hsz)]
  have := extLoop_subs subs (renderObjects (subs.map SubItem.toObject)).length [] 
    ((extReserved ++ toLE 4 (renderObjects (subs.map SubItem.toObject)).length ++
      renderObjects (subs.map SubItem.toObject)).length + 1) hok (by omega)
    (by have := subs_length_le subs hok; simp only [List.length_append]; omega)
  simpa using this

theorem item_guid16 (i : Item) (h : i.OK) : i.toObject.guid.length = 16 := by
  cases i with
  | foreign o => exact h.1
  | pad d => rfl
  | cd d => rfl
  | ecd d => rfl
  | ext subs => rfl

/-- `_get_object` + `parse` on a child of the Header Object as the specification describes it -/
theorem objOf_item (i : Item) (h : i.OK) : objOf i.toObject.guid i.toObject.data = .ok i.toObj := by
  cases i with
  | foreign o =>
    have hne : o.guid ≠ gExt := (special_ne h.2.1).2.2.2.1
    simp only [objOf, Item.toObject, hne, ↓reduceIte, leafOf_foreign o h, Item.toObj]
  | pad d =>
    have hne : gPadding ≠ gExt := by decide
    simp only [objOf, Item.toObject, hne, ↓reduceIte, leafOf_padding, Item.toObj]
  | cd d =>
    have hne : gCD ≠ gExt := by decide
    have h1 : gCD ≠ gHeader := by decide
    simp only [Item.OK] at h
    simp only [objOf, Item.toObject, hne, ↓reduceIte, leafOf, h1, h, Item.toObj]
  | ecd d =>
    have hne : gECD ≠ gExt := by decide
    have h1 : gECD ≠ gHeader := by decide
    have h2 : gECD ≠ gCD := by decide
    simp only [Item.OK] at h
    simp only [objOf, Item.toObject, hne, ↓reduceIte, leafOf, h1, h2, h, Item.toObj]
  | ext subs =>
    simp only [Item.OK] at h
    simp only [objOf, Item.toObject, ↓reduceIte, parseExt_subs subs h.1 h.2, Item.toObj]

theorem items_length_le (items : List Item) (hok : ∀ i ∈ items, i.OK) :
    24 * items.length ≤ (renderObjects (items.map Item.toObject)).length := by
  induction items with
  | nil => simp
  | cons s r ih =>
    have hg := item_guid16 s (hok s List.mem_cons_self)
    have := ih (fun x hx => hok x (List.mem_cons_of_mem _ hx))
    simp only [List.map_cons, renderObjects, Object.render, List.length_append, object_length, hg, List.length_cons]
    omega

/-- the loop of parse_full over the rendered children; `slack`: what the header size field claims beyond them -/
theorem parseObjects_items (items : List Item) (A rest : Bytes) (slack : Nat)
    (hok : ∀ i ∈ items, i.OK) (hsz : (renderObjects (items.map Item.toObject)).length < 2 ^ 64) :
    parseObjects (A ++ (renderObjects (items.map Item.toObject) ++ rest)) items.length A.length
      ((renderObjects (items.map Item.toObject)).length + slack) = .ok (items.map Item.toObj) := by
  induction items generalizing A with
  | nil => simp [parseObjects]
  | cons i r ih =>
    have hi := hok i List.mem_cons_self
    have hg := item_guid16 i hi
    simp only [List.map_cons, renderObjects, Object.render, List.length_cons] at hsz ⊢
    generalize renderObjects (r.map Item.toObject) = R at hsz ih ⊢
    have hlen : (object i.toObject.guid i.toObject.data).length = 24 + i.toObject.data.length := by
      rw [object_length, hg]
    have hsize : 24 + i.toObject.data.length < 2 ^ 64 := by
      simp only [List.length_append, hlen] at hsz; omega
    unfold parseObjects
    have c1 : ¬ ((object i.toObject.guid i.toObject.data ++ R).length + slack < 24) := by
      simp only [List.length_append, hlen]; omega
    rw [if_neg c1]
    have hdrop : (A ++ (object i.toObject.guid i.toObject.data ++ R ++ rest)).drop A.length =
        object i.toObject.guid i.toObject.data ++ (R ++ rest) := by
      rw [drop_of_len _ _ _ rfl, List.append_assoc]
    have hdrop2 : (A ++ (object i.toObject.guid i.toObject.data ++ R ++ rest)).drop (A.length + 24) =
        i.toObject.data ++ (R ++ rest) := by
      rw [← List.drop_drop, hdrop, body_drop _ _ _ hg]
    simp only [readAt, hdrop, hdr_take _ _ _ hg, hdrop2]
    have c2 : ¬ ((i.toObject.guid ++ toLE 8 (24 + i.toObject.data.length)).length ≠ 24) := by simp [hg]
    rw [if_neg c2, hdr_size _ _ hg hsize, hdr_guid _ _ hg]
    have c3 : ¬ (24 + i.toObject.data.length < 24) := by omega
    have c4 : ¬ ((object i.toObject.guid i.toObject.data ++ R).length + slack - 24 < 24 + i.toObject.data.length - 24) := by
      simp only [List.length_append, hlen]; omega
    rw [if_neg c3, if_neg c4]
    have e1 : 24 + i.toObject.data.length - 24 = i.toObject.data.length := by omega
    rw [e1, take_of_len _ _ _ rfl]
    simp only [ne_eq, not_true_eq_false, ↓reduceIte, objOf_item i hi]
    have := ih (A ++ object i.toObject.guid i.toObject.data) (fun x hx => hok x (List.mem_cons_of_mem _ hx))
      (by simp only [List.length_append] at hsz; omega)
    simp only [List.append_assoc, List.length_append, hlen] at this ⊢
    have e2 : 24 + i.toObject.data.length + R.length + slack - (24 + i.toObject.data.length) = R.length + slack := by omega
    simp only [Nat.add_assoc] at this e2 ⊢
    rw [e2, this]

theorem headerBytes_length (n : Nat) (body : Bytes) : (headerBytes n body).length = 30 + body.length := by
  simp [headerBytes, gHeader]; omega

theorem headerBytes_split (n : Nat) (body : Bytes) :
    headerBytes n body = (gHeader ++ toLE 8 (body.length + 30) ++ toLE 4 n ++ [1, 2]) ++ body := rfl

/-- parse_size on a header -/
theorem parseSize_header (n : Nat) (body T : Bytes) (hn : n < 2 ^ 32) (hb : body.length + 30 < 2 ^ 64) :
    parseSize (headerBytes n body ++ T) = .ok (body.length + 30, n) := by
  unfold parseSize
  have h30 : (headerBytes n body ++ T).take 30 = gHeader ++ toLE 8 (body.length + 30) ++ toLE 4 n ++ [1, 2] := by
    rw [headerBytes_split, List.append_assoc]
    exact take_of_len _ _ 30 (by simp [gHeader])
  simp only [h30]
  have l30 : (gHeader ++ toLE 8 (body.length + 30) ++ toLE 4 n ++ [1, 2]).length = 30 := by simp [gHeader]
  have t16 : (gHeader ++ toLE 8 (body.length + 30) ++ toLE 4 n ++ [1, 2]).take 16 = gHeader := by
    rw [List.append_assoc, List.append_assoc]; exact take_of_len _ _ 16 rfl
  have d16 : ((gHeader ++ toLE 8 (body.length + 30) ++ toLE 4 n ++ [1, 2]).drop 16).take 8 = toLE 8 (body.length + 30) := by
    rw [List.append_assoc, List.append_assoc, drop_of_len _ _ 16 rfl]; exact take_of_len _ _ 8 (length_toLE 8 _)
  have d24 : ((gHeader ++ toLE 8 (body.length + 30) ++ toLE 4 n ++ [1, 2]).drop 24).take 4 = toLE 4 n := by
    rw [List.append_assoc, drop_of_len _ _ 24 (by simp [gHeader])]; exact take_of_len _ _ 4 (length_toLE 4 _)
  simp only [l30, t16, d16, d24, ne_eq, not_true_eq_false, or_self, ↓reduceIte,
    ofLE_toLE 8 _ (by rw [p8]; exact hb), ofLE_toLE 4 _ (by rw [p4']; exact hn)]

theorem Layout.render_length (L : Layout) : L.render.length = L.headerLen + L.rest.length := by
  simp [Layout.render, headerBytes_length, Layout.headerLen]

/-- THE load theorem: `ASF(file)` on a well-formed layout builds exactly the layout's object tree -/
theorem parseFull_layout (L : Layout) (h : L.OK) : parseFull L.render = .ok (L.top.map Item.toObj) := by
  have hsz := h.size
  unfold Layout.headerLen at hsz
  unfold parseFull Layout.render
  rw [parseSize_header _ _ _ h.count (by omega)]
  simp only []
  rw [headerBytes_split, List.append_assoc]
  have hA : (gHeader ++ toLE 8 ((renderObjects (L.top.map Item.toObject)).length + 30) ++ toLE 4 L.top.length ++ [1, 2]).length = 30 := by
    simp [gHeader]
  have := parseObjects_items L.top (gHeader ++ toLE 8 ((renderObjects (L.top.map Item.toObject)).length + 30) ++ toLE 4 L.top.length ++ [1, 2])
    L.rest 0 h.items (by omega)
  rw [hA] at this
  simpa using this

/-! ### what `save` makes of a layout (specification side) -/

/-- the payloads of the four metadata objects -/
structure Payloads where
  cd : Bytes
  ecd : Bytes
  mo : Bytes
  ml : Bytes
deriving DecidableEq, Repr

/-- rendering the distributed tags succeeds and gives these payloads -/
structure Renders (d : Dist) (P : Payloads) : Prop where
  cd : cdPayload d = .ok P.cd
  ecd : listPayload recECD d.ecd = .ok P.ecd
  mo : listPayload recM d.mo = .ok P.mo
  ml : listPayload recML d.ml = .ok P.ml

def SubItem.isPad (s : SubItem) : Bool := s.guid == gPadding
def Item.isPad (i : Item) : Bool := i.guid == gPadding

/-- the Header Extension Object gets the metadata objects it lacks (empty until rendered) -/
def extAddI (subs : List SubItem) : List SubItem :=
  let c1 := if lacks gMeta (subs.map SubItem.guid) then subs ++ [.mo []] else subs
  if lacks gMetaLib (c1.map SubItem.guid) then c1 ++ [.metaLib []] else c1

def onFirstExtI : List Item → List Item
  | [] => []
  | .ext subs :: r => .ext (extAddI subs) :: r
  | .foreign o :: r => .foreign o :: onFirstExtI r
  | .cd d :: r => .cd d :: onFirstExtI r
  | .ecd d :: r => .ecd d :: onFirstExtI r
  | .pad d :: r => .pad d :: onFirstExtI r

/-- "Add missing objects": Content Description, Extended Content Description, Header Extension are
appended when absent; the first Header Extension Object gets Metadata / Metadata Library -/
def addMissingI (top : List Item) : List Item :=
  let o1 := if lacks gCD (top.map Item.guid) then top ++ [.cd []] else top
  let o2 := if lacks gECD (o1.map Item.guid) then o1 ++ [.ecd []] else o1
  let o3 := if lacks gExt (o2.map Item.guid) then o2 ++ [.ext []] else o2
  onFirstExtI o3

/-- the metadata objects are rendered from the tags, everything else keeps its bytes -/
def SubItem.re (P : Payloads) : SubItem → SubItem
  | .mo _ => .mo P.mo
  | .metaLib _ => .metaLib P.ml
  | .foreign o => .foreign o
  | .pad d => .pad d

def subsRe (P : Payloads) (subs : List SubItem) : List SubItem := (subs.filter fun s => !s.isPad).map (SubItem.re P)

def Item.re (P : Payloads) : Item → Item
  | .cd _ => .cd P.cd
  | .ecd _ => .ecd P.ecd
  | .ext subs => .ext (subsRe P subs)
  | .foreign o => .foreign o
  | .pad d => .pad d

/-- the children of the Header Object after a save, without the final Padding Object -/
def keptTop (P : Payloads) (top : List Item) : List Item := ((addMissingI top).filter fun i => !i.isPad).map (Item.re P)

/-- the layout after a save that wrote the payloads `P` and `p` bytes of padding: padding objects
are dropped at both levels, owned objects re-rendered in place, missing ones appended, one Padding
Object at the end of the Header Object; the rest of the file as it was -/
def Layout.after0 (L : Layout) (P : Payloads) (p : Nat) : Layout :=
  ⟨keptTop P L.top ++ [.pad (zeros p)], L.rest⟩



/-! ### the tree of a layout, "add missing objects", rendering -/

theorem sub_guids (subs : List SubItem) : (subs.map SubItem.toLeaf).map Leaf.guid = subs.map SubItem.guid := by
  rw [List.map_map]; congr 1; funext s; exact s.toLeaf_guid

theorem item_guids (items : List Item) : (items.map Item.toObj).map Obj.guid = items.map Item.guid := by
  rw [List.map_map]; congr 1; funext s; exact s.toObj_guid

theorem extAdd_map (subs : List SubItem) : extAdd (subs.map SubItem.toLeaf) = (extAddI subs).map SubItem.toLeaf := by
  unfold extAdd extAddI
  simp only [sub_guids]
  have s1 : (if lacks gMeta (subs.map SubItem.guid) = true then subs.map SubItem.toLeaf ++ [Leaf.mo []] else subs.map SubItem.toLeaf) =
      (if lacks gMeta (subs.map SubItem.guid) = true then subs ++ [SubItem.mo []] else subs).map SubItem.toLeaf := by
    split <;> simp [SubItem.toLeaf]
  simp only [s1, sub_guids]
  generalize (if lacks gMeta (subs.map SubItem.guid) = true then subs ++ [SubItem.mo []] else subs) = c1
  split <;> simp [SubItem.toLeaf]

theorem onFirstExt_map (items : List Item) : onFirstExt (items.map Item.toObj) = (onFirstExtI items).map Item.toObj := by
  induction items with
  | nil => rfl
  | cons i r ih =>
    cases i with
    | ext subs => simp only [List.map_cons, Item.toObj, onFirstExt, onFirstExtI, extAdd_map]
    | foreign o => simp only [List.map_cons, Item.toObj, onFirstExt, onFirstExtI, ih]
    | cd d => simp only [List.map_cons, Item.toObj, onFirstExt, onFirstExtI, ih]
    | ecd d => simp only [List.map_cons, Item.toObj, onFirstExt, onFirstExtI, ih]
    | pad d => simp only [List.map_cons, Item.toObj, onFirstExt, onFirstExtI, ih]

/-- "Add missing objects" on the tree of a layout is "add missing objects" on the layout -/
theorem addMissing_map (items : List Item) : addMissing (items.map Item.toObj) = (addMissingI items).map Item.toObj := by
  unfold addMissing addMissingI
  simp only [item_guids]
  have s1 : (if lacks gCD (items.map Item.guid) = true then items.map Item.toObj ++ [Obj.leaf (Leaf.cd [])] else items.map Item.toObj) =
      (if lacks gCD (items.map Item.guid) = true then items ++ [Item.cd []] else items).map Item.toObj := by
    split <;> simp [Item.toObj]
  simp only [s1, item_guids]
  generalize (if lacks gCD (items.map Item.guid) = true then items ++ [Item.cd []] else items) = o1
  have s2 : (if lacks gECD (o1.map Item.guid) = true then o1.map Item.toObj ++ [Obj.leaf (Leaf.ecd [])] else o1.map Item.toObj) =
      (if lacks gECD (o1.map Item.guid) = true then o1 ++ [Item.ecd []] else o1).map Item.toObj := by
    split <;> simp [Item.toObj]
  simp only [s2, item_guids]
  generalize (if lacks gECD (o1.map Item.guid) = true then o1 ++ [Item.ecd []] else o1) = o2
  have s3 : (if lacks gExt (o2.map Item.guid) = true then o2.map Item.toObj ++ [Obj.ext []] else o2.map Item.toObj) =
      (if lacks gExt (o2.map Item.guid) = true then o2 ++ [Item.ext []] else o2).map Item.toObj := by
    split <;> simp [Item.toObj]
  simp only [s3]
  exact onFirstExt_map _

theorem renderLeaf_sub (d : Dist) (P : Payloads) (hP : Renders d P) (s : SubItem) :
    renderLeaf d s.toLeaf = .ok (s.re P).toObject.render := by
  cases s with
  | foreign o => rfl
  | pad x => rfl
  | mo x => simp only [SubItem.toLeaf, renderLeaf, hP.mo, SubItem.re, SubItem.toObject, Object.render]
  | metaLib x => simp only [SubItem.toLeaf, renderLeaf, hP.ml, SubItem.re, SubItem.toObject, Object.render]

theorem isPad_toLeaf (s : SubItem) : isPad s.toLeaf = s.isPad := by
  unfold isPad SubItem.isPad; rw [s.toLeaf_guid]

theorem isPad_toObj (i : Item) : i.toObj.isPad = i.isPad := by
  cases i with
  | ext subs => simp only [Item.toObj, Obj.isPad, Item.isPad, Item.guid]; decide
  | foreign o => rfl
  | cd d => rfl
  | ecd d => rfl
  | pad d => rfl

theorem renderLeaves_subs (d : Dist) (P : Payloads) (hP : Renders d P) (subs : List SubItem) :
    concatMapE (renderLeaf d) (subs.map SubItem.toLeaf) = .ok (renderObjects ((subs.map (SubItem.re P)).map SubItem.toObject)) := by
  induction subs with
  | nil => rfl
  | cons s r ih => simp only [List.map_cons, concatMapE, renderLeaf_sub d P hP s, ih, renderObjects]

/-- does a Header Extension body fit its 32-bit size field? -/
def Item.extFits : Item → Prop
  | .ext subs => (renderObjects (subs.map SubItem.toObject)).length < 2 ^ 32
  | _ => True

theorem renderObj_item (d : Dist) (P : Payloads) (hP : Renders d P) (i : Item) (hfit : (i.re P).extFits) :
    renderObj d i.toObj = .ok (i.re P).toObject.render := by
  cases i with
  | foreign o => rfl
  | pad x => rfl
  | cd x => simp only [Item.toObj, renderObj, renderLeaf, hP.cd, Item.re, Item.toObject, Object.render]
  | ecd x => simp only [Item.toObj, renderObj, renderLeaf, hP.ecd, Item.re, Item.toObject, Object.render]
  | ext subs =>
    simp only [Item.re, Item.extFits, subsRe] at hfit
    simp only [Item.toObj, renderObj, Item.re, Item.toObject, Object.render, subsRe]
    have hf : (subs.map SubItem.toLeaf).filter (fun l => !isPad l) = (subs.filter fun s => !s.isPad).map SubItem.toLeaf := by
      rw [List.filter_map]; congr 1
      apply List.filter_congr
      intro s _; simp only [Function.comp, isPad_toLeaf]
    rw [hf, renderLeaves_subs d P hP]
    have hfit' : (renderObjects (((subs.filter fun s => !s.isPad).map (SubItem.re P)).map SubItem.toObject)).length < 4294967296 := hfit
    simp only [hfit', ↓reduceIte]

/-- every Header Extension body among the items fits -/
def ExtFits (items : List Item) : Prop := ∀ i ∈ items, i.extFits

/-- rendering the children `render_full` keeps -/
theorem renderKept (d : Dist) (P : Payloads) (hP : Renders d P) (items : List Item)
    (hfit : ExtFits (items.map (Item.re P))) :
    concatMapE (renderObj d) (items.map Item.toObj) = .ok (renderObjects ((items.map (Item.re P)).map Item.toObject)) := by
  induction items with
  | nil => rfl
  | cons i r ih =>
    have h1 := hfit (i.re P) (by simp)
    have h2 : ExtFits (r.map (Item.re P)) := fun x hx => hfit x (by simp only [List.map_cons]; exact List.mem_cons_of_mem _ hx)
    simp only [List.map_cons, concatMapE, renderObj_item d P hP i h1, ih h2, renderObjects]

theorem padObject_item (p : Nat) : renderObjects [(Item.pad (zeros p)).toObject] = padObject p := by
  simp [renderObjects, Item.toObject, Object.render, padObject]

/-- the number of bytes the new header needs: everything but the payload of the Padding Object
(`needed_size` in render_full) -/
def neededLen (P : Payloads) (top : List Item) : Nat := (renderObjects ((keptTop P top).map Item.toObject)).length + 30 + 24

/-! ### the File Size field of the File Properties Object -/

/-- overwrite payload bytes 16..24 (File Size) of a foreign object -/
def Item.setFileSize (total : Nat) : Item → Item
  | .foreign o => .foreign ⟨o.guid, writeAt o.data 16 (toLE 8 total)⟩
  | .cd d => .cd d
  | .ecd d => .ecd d
  | .pad d => .pad d
  | .ext subs => .ext subs

/-- is this child a File Properties Object? -/
def Item.isFP (i : Item) : Bool := i.guid == gFileProps

/-- the first File Properties Object among the children of the Header Object gets the File Size
`total`; everything else stays -/
def patchFP (total : Nat) : List Item → List Item
  | [] => []
  | i :: r => if i.isFP then i.setFileSize total :: r else i :: patchFP total r

/-- the File Properties Objects among the items are foreign objects with a 16-byte GUID and a payload
that reaches behind the File Size field (loading demands 64 bytes) -/
def FPok (items : List Item) : Prop :=
  ∀ i ∈ items, i.isFP = true → ∃ o, i = .foreign o ∧ o.guid.length = 16 ∧ 24 ≤ o.data.length

theorem FPok_tail {i : Item} {r : List Item} (h : FPok (i :: r)) : FPok r :=
  fun x hx => h x (List.mem_cons_of_mem _ hx)

theorem isFileProps_toObj (i : Item) : i.toObj.isFileProps = i.isFP := by
  unfold Obj.isFileProps Item.isFP; rw [i.toObj_guid]

theorem writeAt_append_left (A B v : Bytes) (k : Nat) : writeAt (A ++ B) (A.length + k) v = A ++ writeAt B k v := by
  unfold writeAt
  have e1 : (A ++ B).take (A.length + k) = A ++ B.take k := by
    rw [List.take_append, List.take_of_length_le (by omega)]; simp
  have e2 : (A ++ B).drop (A.length + k + v.length) = B.drop (k + v.length) := by
    rw [List.drop_append]
    have : A.drop (A.length + k + v.length) = [] := List.drop_eq_nil_of_le (by omega)
    rw [this, List.nil_append]; congr 1; omega
  rw [e1, e2]; simp only [List.append_assoc]

theorem writeAt_length (d v : Bytes) (k : Nat) (h : k + v.length ≤ d.length) : (writeAt d k v).length = d.length := by
  unfold writeAt
  simp only [List.length_append, List.length_take, List.length_drop]; omega

theorem writeAt_read (d v : Bytes) (k : Nat) (h : k ≤ d.length) : ((writeAt d k v).drop k).take v.length = v := by
  unfold writeAt
  rw [List.append_assoc, drop_of_len _ _ k (by simp only [List.length_take]; omega)]
  exact take_of_len _ _ _ rfl

theorem writeAt_writeAt (d v w : Bytes) (k : Nat) (h : k ≤ d.length) (hl : v.length = w.length) :
    writeAt (writeAt d k v) k w = writeAt d k w := by
  unfold writeAt
  have lt : (d.take k).length = k := by simp only [List.length_take]; omega
  have e1 : (d.take k ++ v ++ d.drop (k + v.length)).take k = d.take k := by
    rw [List.append_assoc]; exact take_of_len _ _ k lt
  have e2 : (d.take k ++ v ++ d.drop (k + v.length)).drop (k + w.length) = d.drop (k + w.length) := by
    rw [← hl]; exact drop_of_len _ _ _ (by simp only [List.length_append, lt])
  rw [e1, e2]

/-- patching the File Size inside a rendered object -/
theorem object_patch (g d v T : Bytes) (hg : g.length = 16) (hd : 24 ≤ d.length) (hv : v.length = 8) :
    object g (writeAt d 16 v) ++ T = writeAt (object g d ++ T) 40 v := by
  have hl : (writeAt d 16 v).length = d.length := writeAt_length d v 16 (by omega)
  rw [object_shape, object_shape, hl]
  have hA : (g ++ toLE 8 (24 + d.length)).length = 24 := by simp [hg]
  rw [← List.append_assoc g, ← List.append_assoc g]
  rw [show (40 : Nat) = (g ++ toLE 8 (24 + d.length)).length + 16 by rw [hA], writeAt_append_left]
  congr 1
  unfold writeAt
  have e1 : (d ++ T).take 16 = d.take 16 := by rw [List.take_append_of_le_length (by omega)]
  have e2 : (d ++ T).drop (16 + v.length) = d.drop (16 + v.length) ++ T := by
    rw [List.drop_append_of_le_length (by omega)]
  rw [e1, e2]; simp only [List.append_assoc]

theorem setFileSize_guid (t : Nat) (i : Item) : (i.setFileSize t).guid = i.guid := by cases i <;> rfl

theorem patchFP_guids (t : Nat) (l : List Item) : (patchFP t l).map Item.guid = l.map Item.guid := by
  induction l with
  | nil => rfl
  | cons i r ih =>
    simp only [patchFP]
    split
    · simp only [List.map_cons, setFileSize_guid]
    · simp only [List.map_cons, ih]

theorem patchFP_length (t : Nat) (l : List Item) : (patchFP t l).length = l.length := by
  have := congrArg List.length (patchFP_guids t l)
  simpa using this

/-- the rendered children with the patch = the patch on the rendered children: the eight bytes
40 bytes (object header 24 + File ID 16) behind the start of the first File Properties Object -/
theorem patch_render (t : Nat) (items : List Item) (T : Bytes) (h : FPok items) :
    renderObjects ((patchFP t items).map Item.toObject) ++ T =
      if items.any Item.isFP then
        writeAt (renderObjects (items.map Item.toObject) ++ T)
          ((renderObjects ((items.takeWhile fun i => !i.isFP).map Item.toObject)).length + 40) (toLE 8 t)
      else renderObjects (items.map Item.toObject) ++ T := by
  induction items with
  | nil => rfl
  | cons i r ih =>
    by_cases hi : i.isFP = true
    · obtain ⟨o, rfl, hg, hd⟩ := h i List.mem_cons_self hi
      simp only [patchFP, hi, ↓reduceIte, List.any_cons, Bool.true_or, List.takeWhile_cons, Bool.not_true, Bool.false_eq_true,
        List.map_nil, renderObjects, List.length_nil, Nat.zero_add, List.map_cons, Item.setFileSize, Item.toObject, Object.render,
        List.append_assoc]
      exact object_patch o.guid o.data (toLE 8 t) _ hg hd (length_toLE 8 t)
    · have hi' : i.isFP = false := by simpa using hi
      have ih' := ih (FPok_tail h)
      simp only [patchFP, hi', Bool.false_eq_true, ↓reduceIte, List.any_cons, Bool.false_or, List.takeWhile_cons, Bool.not_false,
        List.map_cons, renderObjects, List.append_assoc, List.length_append]
      rw [ih']
      split
      · rw [Nat.add_assoc, writeAt_append_left]
      · rfl

theorem patch_render_length (t : Nat) (items : List Item) (h : FPok items) :
    (renderObjects ((patchFP t items).map Item.toObject)).length = (renderObjects (items.map Item.toObject)).length := by
  induction items with
  | nil => rfl
  | cons i r ih =>
    by_cases hi : i.isFP = true
    · obtain ⟨o, rfl, hg, hd⟩ := h i List.mem_cons_self hi
      simp only [patchFP, hi, ↓reduceIte, List.map_cons, renderObjects, Item.setFileSize, Item.toObject, Object.render,
        List.length_append, object_length, writeAt_length o.data (toLE 8 t) 16 (by simp; omega)]
    · have hi' : i.isFP = false := by simpa using hi
      simp only [patchFP, hi', Bool.false_eq_true, ↓reduceIte, List.map_cons, renderObjects, List.length_append, ih (FPok_tail h)]

theorem pad_not_FP (z : Bytes) : (Item.pad z).isFP = false := by
  simp only [Item.isFP, Item.guid]; decide

theorem patchFP_snoc_pad (t : Nat) (l : List Item) (z : Bytes) : patchFP t (l ++ [Item.pad z]) = patchFP t l ++ [Item.pad z] := by
  induction l with
  | nil => simp only [List.nil_append, patchFP, pad_not_FP, Bool.false_eq_true, ↓reduceIte]
  | cons i r ih =>
    simp only [List.cons_append, patchFP]
    split
    · rfl
    · rw [ih]; rfl

/-- the patch in the assembled header -/
theorem header_patch (n : Nat) (body v : Bytes) (k : Nat) (hl : (writeAt body k v).length = body.length) :
    writeAt (headerBytes n body) (30 + k) v = headerBytes n (writeAt body k v) := by
  rw [headerBytes_split, headerBytes_split, hl]
  have hA : (gHeader ++ toLE 8 (body.length + 30) ++ toLE 4 n ++ [1, 2]).length = 30 := by simp [gHeader]
  rw [show 30 + k = (gHeader ++ toLE 8 (body.length + 30) ++ toLE 4 n ++ [1, 2]).length + k by rw [hA], writeAt_append_left]

theorem padObject_length (p : Nat) : (padObject p).length = 24 + p := by
  simp [padObject, object_length, gPadding]

theorem re_isFP (P : Payloads) (i : Item) : (i.re P).isFP = i.isFP := by
  cases i <;> rfl

theorem takeWhile_map_re (P : Payloads) (l : List Item) :
    (l.map (Item.re P)).takeWhile (fun i => !i.isFP) = (l.takeWhile fun i => !i.isFP).map (Item.re P) := by
  induction l with
  | nil => rfl
  | cons i r ih =>
    simp only [List.map_cons, List.takeWhile_cons, re_isFP]
    split
    · rw [ih]; rfl
    · rfl

theorem takeWhile_map_toObj (l : List Item) :
    (l.map Item.toObj).takeWhile (fun o => !o.isFileProps) = (l.takeWhile fun i => !i.isFP).map Item.toObj := by
  induction l with
  | nil => rfl
  | cons i r ih =>
    simp only [List.map_cons, List.takeWhile_cons, isFileProps_toObj]
    split
    · rw [ih]; rfl
    · rfl

theorem any_map_toObj (l : List Item) : (l.map Item.toObj).any Obj.isFileProps = l.any Item.isFP := by
  induction l with
  | nil => rfl
  | cons i r ih => simp only [List.map_cons, List.any_cons, isFileProps_toObj, ih]

theorem any_map_re (P : Payloads) (l : List Item) : (l.map (Item.re P)).any Item.isFP = l.any Item.isFP := by
  induction l with
  | nil => rfl
  | cons i r ih => simp only [List.map_cons, List.any_cons, re_isFP, ih]

theorem ExtFits_takeWhile (l : List Item) (q : Item → Bool) (h : ExtFits l) : ExtFits (l.takeWhile q) :=
  fun i hi => h i ((List.takeWhile_sublist q).subset hi)

/-- render_full on the tree of a layout (after "add missing objects"): the new header with `p` bytes
of padding, the File Size of its first File Properties Object set to the size of the new file -/
theorem renderFull_items (d : Dist) (P : Payloads) (hP : Renders d P) (top : List Item) (fileLen available : Nat) (pad : PadChoice)
    (hfit : ExtFits (keptTop P top)) (hfp : FPok (keptTop P top)) (hle : available ≤ fileLen) (p : Nat)
    (hp : (getPadding pad ((available : Int) - (neededLen P top : Nat)) (fileLen - available)).toNat = p)
    (hfile : neededLen P top + p + (fileLen - available) < 2 ^ 64) :
    renderFull d ((addMissingI top).map Item.toObj) fileLen available pad =
      .ok (headerBytes ((keptTop P top).length + 1) (renderObjects ((patchFP (neededLen P top + p + (fileLen - available))
        (keptTop P top ++ [Item.pad (zeros p)])).map Item.toObject))) := by
  unfold renderFull
  have hf : ((addMissingI top).map Item.toObj).filter (fun o => !o.isPad) = ((addMissingI top).filter fun i => !i.isPad).map Item.toObj := by
    rw [List.filter_map]; congr 1
    apply List.filter_congr
    intro s _; simp only [Function.comp, isPad_toObj]
  simp only [hf]
  generalize hF : (addMissingI top).filter (fun i => !i.isPad) = F at *
  have hK : keptTop P top = F.map (Item.re P) := by unfold keptTop; rw [hF]
  rw [hK] at hfit hfp
  have hk := renderKept d P hP F hfit
  rw [hk]
  simp only []
  rw [if_neg (by omega)]
  have hn : neededLen P top = (renderObjects ((F.map (Item.re P)).map Item.toObject)).length + 30 + 24 := by
    unfold neededLen; rw [hK]
  rw [← hn, hp]
  generalize ht : neededLen P top + p + (fileLen - available) = t at hfile
  -- the patched body, in both cases
  have hbody := patch_render t (F.map (Item.re P)) (padObject p) hfp
  have hlen : (renderObjects ((patchFP t (F.map (Item.re P))).map Item.toObject) ++ padObject p).length =
      (renderObjects ((F.map (Item.re P)).map Item.toObject) ++ padObject p).length := by
    simp only [List.length_append, patch_render_length t _ hfp]
  have hgoal : renderObjects ((patchFP t (keptTop P top ++ [Item.pad (zeros p)])).map Item.toObject) =
      renderObjects ((patchFP t (F.map (Item.re P))).map Item.toObject) ++ padObject p := by
    rw [hK, patchFP_snoc_pad, List.map_append, renderObjects_append, List.map_cons, List.map_nil, padObject_item]
  rw [hgoal, hK, List.length_map, any_map_toObj, ← any_map_re P F]
  by_cases hany : (F.map (Item.re P)).any Item.isFP = true
  · rw [hany] at hbody
    simp only [↓reduceIte] at hbody
    rw [if_pos hany, takeWhile_map_toObj]
    have hpre := renderKept d P hP (F.takeWhile fun i => !i.isFP)
      (by rw [← takeWhile_map_re]; exact ExtFits_takeWhile _ _ hfit)
    rw [hpre]
    simp only []
    have hhl : (headerBytes (F.length + 1) (renderObjects ((F.map (Item.re P)).map Item.toObject) ++ padObject p)).length +
        (fileLen - available) = t := by
      rw [headerBytes_length, List.length_append, padObject_length, ← ht, hn]; omega
    rw [hhl, if_pos hfile, ← takeWhile_map_re]
    have e : 30 + (renderObjects (((F.map (Item.re P)).takeWhile fun i => !i.isFP).map Item.toObject)).length + 24 + 16 =
        30 + ((renderObjects (((F.map (Item.re P)).takeWhile fun i => !i.isFP).map Item.toObject)).length + 40) := by omega
    rw [e, header_patch _ _ _ _ (by rw [← hbody]; exact hlen), ← hbody, List.length_map]
  · have hany' : (F.map (Item.re P)).any Item.isFP = false := by simpa using hany
    rw [hany'] at hbody
    simp only [Bool.false_eq_true, ↓reduceIte] at hbody
    rw [hany']
    simp only [Bool.false_eq_true, ↓reduceIte, hbody, List.length_map]

/-- `ASF.save` through an object whose tree is that of the items `top`, on any file whose first 30
bytes are a Header Object header announcing `oldSize` bytes -/
theorem saveTree_items (top : List Item) (f : Bytes) (oldSize cnt : Nat) (hps : parseSize f = .ok (oldSize, cnt)) (hle : oldSize ≤ f.length)
    (tags : List Tag) (d : Dist) (hd : distribute tags = .ok d) (P : Payloads) (hP : Renders d P) (pad : PadChoice)
    (hfit : ExtFits (keptTop P top)) (hfp : FPok (keptTop P top)) (p : Nat)
    (hp : (getPadding pad ((oldSize : Int) - (neededLen P top : Nat)) (f.length - oldSize)).toNat = p)
    (hfile : neededLen P top + p + (f.length - oldSize) < 2 ^ 64) :
    saveTree (top.map Item.toObj) f tags pad =
      .ok ((Layout.mk (patchFP (neededLen P top + p + (f.length - oldSize)) (keptTop P top ++ [Item.pad (zeros p)]))
        (f.drop oldSize)).render, (addMissingI top).map Item.toObj) := by
  unfold saveTree
  rw [hd]
  simp only [hps, addMissing_map, renderFull_items d P hP top f.length oldSize pad hfit hfp hle p hp hfile]
  simp only [Layout.render, patchFP_length, List.length_append, List.length_singleton]

/-! ### sizes of a rendered layout -/

theorem Layout.parseSize_render (L : Layout) (h : L.OK) : parseSize L.render = .ok (L.headerLen, L.top.length) := by
  have hsz := h.size
  unfold Layout.headerLen at hsz ⊢
  unfold Layout.render
  rw [parseSize_header _ _ _ h.count (by omega), Nat.add_comm]

theorem Layout.drop_render (L : Layout) : L.render.drop L.headerLen = L.rest := by
  unfold Layout.render Layout.headerLen
  exact drop_of_len _ _ _ (by rw [headerBytes_length])

theorem Layout.after0_headerLen (L : Layout) (P : Payloads) (p : Nat) : (L.after0 P p).headerLen = neededLen P L.top + p := by
  simp only [Layout.headerLen, Layout.after0, neededLen, List.map_append, renderObjects_append, List.map_cons, List.map_nil,
    padObject_item, List.length_append, padObject_length]
  omega

/-- the padding `save` writes: what the callback (or the default policy) answers when it is offered
`len(old header) - needed` and told how many bytes follow the header; a negative answer counts as 0 -/
def newPadding (L : Layout) (P : Payloads) (pad : PadChoice) : Nat :=
  (getPadding pad ((L.headerLen : Int) - (neededLen P L.top : Nat)) L.rest.length).toNat

/-! ### the strict reader reads layouts back -/

theorem readObjects_render (os : List Object) (fuel : Nat) (hg : ∀ o ∈ os, o.guid.length = 16)
    (hsz : (renderObjects os).length < 2 ^ 64) (hf : os.length ≤ fuel) :
    readObjects fuel (renderObjects os) = some os := by
  induction os generalizing fuel with
  | nil => cases fuel <;> simp [readObjects, renderObjects]
  | cons o r ih =>
    cases fuel with
    | zero => simp at hf
    | succ fuel =>
      have hgo := hg o List.mem_cons_self
      simp only [renderObjects, Object.render] at hsz ⊢
      have hlen : (object o.guid o.data).length = 24 + o.data.length := by rw [object_length, hgo]
      have hsize : 24 + o.data.length < 2 ^ 64 := by simp only [List.length_append, hlen] at hsz; omega
      unfold readObjects
      have c0 : object o.guid o.data ++ renderObjects r ≠ [] := by
        intro e
        have := congrArg List.length e
        simp only [List.length_append, hlen, List.length_nil] at this; omega
      have c1 : ¬ ((object o.guid o.data ++ renderObjects r).length < 24) := by simp only [List.length_append, hlen]; omega
      rw [if_neg c0, if_neg c1]
      have e16 : ((object o.guid o.data ++ renderObjects r).drop 16).take 8 = toLE 8 (24 + o.data.length) := by
        rw [object_shape, drop_of_len _ _ 16 hgo]; exact take_of_len _ _ 8 (length_toLE 8 _)
      simp only [e16, ofLE_toLE 8 _ (by rw [p8]; exact hsize)]
      have c2 : ¬ (24 + o.data.length < 24 ∨ (object o.guid o.data ++ renderObjects r).length < 24 + o.data.length) := by
        simp only [List.length_append, hlen]; omega
      rw [if_neg c2]
      have d1 : (object o.guid o.data ++ renderObjects r).drop (24 + o.data.length) = renderObjects r := drop_of_len _ _ _ hlen
      have t16 : (object o.guid o.data ++ renderObjects r).take 16 = o.guid := by
        rw [object_shape]; exact take_of_len _ _ 16 hgo
      have e1 : 24 + o.data.length - 24 = o.data.length := by omega
      rw [d1, ih fuel (fun x hx => hg x (List.mem_cons_of_mem _ hx)) (by simp only [List.length_append] at hsz; omega)
        (by simp at hf; omega), t16, body_drop _ _ _ hgo, e1, take_of_len _ _ _ rfl]

theorem classifySub_toObject (s : SubItem) (h : s.OK) : classifySub s.toObject = s := by
  cases s with
  | foreign o =>
    obtain ⟨_, _, _, _, h5, h6, h7⟩ := special_ne h.2.1
    simp only [classifySub, SubItem.toObject, h5, h6, h7, ↓reduceIte]
  | mo d => simp only [classifySub, SubItem.toObject, ↓reduceIte]
  | metaLib d =>
    have : gMetaLib ≠ gMeta := by decide
    simp only [classifySub, SubItem.toObject, this, ↓reduceIte]
  | pad d =>
    have h1 : gPadding ≠ gMeta := by decide
    have h2 : gPadding ≠ gMetaLib := by decide
    simp only [classifySub, SubItem.toObject, h1, h2, ↓reduceIte]

theorem readExt_subs (subs : List SubItem) (hok : ∀ s ∈ subs, s.OK)
    (hsz : (renderObjects (subs.map SubItem.toObject)).length < 2 ^ 32) :
    readExt (extPayload (renderObjects (subs.map SubItem.toObject))) = some subs := by
  unfold readExt extPayload
  have h18 : extReserved.length = 18 := rfl
  generalize hB : renderObjects (subs.map SubItem.toObject) = B at hsz
  have l : (extReserved ++ toLE 4 B.length ++ B).length = 22 + B.length := by simp [h18]; omega
  have t18 : (extReserved ++ toLE 4 B.length ++ B).take 18 = extReserved := by
    rw [List.append_assoc]; exact take_of_len _ _ 18 h18
  have d18 : ((extReserved ++ toLE 4 B.length ++ B).drop 18).take 4 = toLE 4 B.length := by
    rw [List.append_assoc, drop_of_len _ _ 18 h18]; exact take_of_len _ _ 4 (length_toLE 4 _)
  have d22 : (extReserved ++ toLE 4 B.length ++ B).drop 22 = B := drop_of_len _ _ 22 (by simp [h18])
  simp only [t18, d18, d22, ofLE_toLE 4 B.length (by rw [p4']; exact hsz)]
  have c : ¬ ((extReserved ++ toLE 4 B.length ++ B).length < 22 ∨ extReserved ≠ extReserved ∨
      B.length ≠ (extReserved ++ toLE 4 B.length ++ B).length - 22) := by
    rw [l]; simp
  rw [if_neg c]
  have hro := readObjects_render (subs.map SubItem.toObject) (extReserved ++ toLE 4 B.length ++ B).length
    (by intro o ho; obtain ⟨s, hs, rfl⟩ := List.mem_map.mp ho; exact sub_guid16 s (hok s hs))
    (by rw [hB]; omega)
    (by have := subs_length_le subs hok; rw [hB] at this; simp only [List.length_map]; omega)
  rw [hB] at hro
  rw [hro]
  simp only [Option.map_some, List.map_map]
  congr 1
  have : ∀ s ∈ subs, (classifySub ∘ SubItem.toObject) s = id s := fun s hs => classifySub_toObject s (hok s hs)
  rw [List.map_congr_left this, List.map_id]

theorem classify_toObject (i : Item) (h : i.OK) : classify i.toObject = some i := by
  cases i with
  | foreign o =>
    obtain ⟨_, h2, h3, h4, _, _, h7⟩ := special_ne h.2.1
    simp only [classify, Item.toObject, h2, h3, h4, h7, ↓reduceIte]
  | cd d => simp only [classify, Item.toObject, ↓reduceIte]
  | ecd d =>
    have : gECD ≠ gCD := by decide
    simp only [classify, Item.toObject, this, ↓reduceIte]
  | pad d =>
    have h1 : gPadding ≠ gCD := by decide
    have h2 : gPadding ≠ gECD := by decide
    simp only [classify, Item.toObject, h1, h2, ↓reduceIte]
  | ext subs =>
    have h1 : gExt ≠ gCD := by decide
    have h2 : gExt ≠ gECD := by decide
    have h3 : gExt ≠ gPadding := by decide
    simp only [Item.OK] at h
    simp only [classify, Item.toObject, h1, h2, h3, ↓reduceIte, readExt_subs subs h.1 h.2, Option.map_some]

theorem classifyAll_items (items : List Item) (hok : ∀ i ∈ items, i.OK) : classifyAll (items.map Item.toObject) = some items := by
  induction items with
  | nil => rfl
  | cons i r ih =>
    simp only [List.map_cons, classifyAll, classify_toObject i (hok i List.mem_cons_self),
      ih (fun x hx => hok x (List.mem_cons_of_mem _ hx)), Option.map_some]

/-- the strict reader reads a well-formed layout back from its bytes -/
theorem readLayout_layout (L : Layout) (h : L.OK) : readLayout L.render = some L := by
  have hsz := h.size
  have hlen := L.render_length
  unfold Layout.headerLen at hsz
  generalize hB : renderObjects (L.top.map Item.toObject) = B at hsz
  have hr : L.render = (gHeader ++ toLE 8 (B.length + 30) ++ toLE 4 L.top.length ++ [1, 2]) ++ (B ++ L.rest) := by
    unfold Layout.render; rw [hB, headerBytes_split, List.append_assoc]
  have hhl : L.headerLen = 30 + B.length := by unfold Layout.headerLen; rw [hB]
  have lA : (gHeader ++ toLE 8 (B.length + 30) ++ toLE 4 L.top.length ++ [1, 2]).length = 30 := by simp [gHeader]
  unfold readLayout
  have c1 : ¬ (L.render.length < 30 ∨ L.render.take 16 ≠ gHeader) := by
    have t16 : L.render.take 16 = gHeader := by
      rw [hr]; simp only [List.append_assoc]; exact take_of_len _ _ 16 rfl
    rw [t16, hlen, hhl]; simp; omega
  rw [if_neg c1]
  have e16 : (L.render.drop 16).take 8 = toLE 8 (B.length + 30) := by
    rw [hr]; simp only [List.append_assoc]; rw [drop_of_len _ _ 16 rfl]; exact take_of_len _ _ 8 (length_toLE 8 _)
  have e24 : (L.render.drop 24).take 4 = toLE 4 L.top.length := by
    rw [hr]; simp only [List.append_assoc]
    rw [← List.append_assoc gHeader, drop_of_len _ _ 24 (by simp [gHeader])]; exact take_of_len _ _ 4 (length_toLE 4 _)
  have e28 : (L.render.drop 28).take 2 = [1, 2] := by
    rw [hr]; simp only [List.append_assoc]
    rw [← List.append_assoc gHeader, ← List.append_assoc (gHeader ++ _), drop_of_len _ _ 28 (by simp [gHeader])]
    rfl
  have e30 : L.render.drop 30 = B ++ L.rest := by rw [hr]; exact drop_of_len _ _ 30 lA
  simp only [e16, ofLE_toLE 8 (B.length + 30) (by rw [p8]; omega), e28, e24, ofLE_toLE 4 L.top.length (by rw [p4']; exact h.count), e30]
  have c2 : ¬ (B.length + 30 < 30 ∨ L.render.length < B.length + 30 ∨ ([1, 2] : Bytes) ≠ [1, 2]) := by
    rw [hlen, hhl]; simp; omega
  rw [if_neg c2]
  have e1 : B.length + 30 - 30 = B.length := by omega
  rw [e1, take_of_len _ _ _ rfl]
  have hro := readObjects_render (L.top.map Item.toObject) (B.length + 30)
    (by intro o ho; obtain ⟨s, hs, rfl⟩ := List.mem_map.mp ho; exact item_guid16 s (h.items s hs))
    (by rw [hB]; omega)
    (by have := items_length_le L.top h.items; rw [hB] at this; simp only [List.length_map]; omega)
  rw [hB] at hro
  rw [hro]
  simp only [List.length_map, ne_eq, not_true_eq_false, ↓reduceIte, classifyAll_items L.top h.items, Option.map_some]
  have : L.render.drop (B.length + 30) = L.rest := by
    rw [show B.length + 30 = L.headerLen by omega]; exact L.drop_render
  rw [this]

/-! ### foreign objects -/

def SubItem.foreign? : SubItem → Option Object
  | .foreign o => some o
  | _ => none

/-- the foreign objects under an item, in order -/
def Item.foreigns : Item → List Object
  | .foreign o => [o]
  | .ext subs => subs.filterMap SubItem.foreign?
  | _ => []

/-- every object of the header that `save` does not own (children of the Header Object and of the
Header Extension Objects), in file order -/
def Layout.foreign (L : Layout) : List Object := (L.top.map Item.foreigns).flatten

/-- the foreign objects of an item are as `Layout.OK` wants them -/
def SubItem.OKf : SubItem → Prop
  | .foreign o => ForeignOK o
  | _ => True

def Item.OKf : Item → Prop
  | .foreign o => ForeignOK o
  | .ext subs => ∀ s ∈ subs, s.OKf
  | _ => True

theorem SubItem.OK.toOKf {s : SubItem} (h : s.OK) : s.OKf := by
  cases s <;> first | exact h | trivial

theorem Item.OK.toOKf {i : Item} (h : i.OK) : i.OKf := by
  cases i with
  | foreign o => exact h
  | ext subs => exact fun s hs => (h.1 s hs).toOKf
  | cd d => trivial
  | ecd d => trivial
  | pad d => trivial

theorem extAddI_mem (subs : List SubItem) (s : SubItem) (h : s ∈ extAddI subs) : s ∈ subs ∨ s = .mo [] ∨ s = .metaLib [] := by
  unfold extAddI at h
  simp only [] at h
  split at h <;> split at h <;> (try simp at h) <;> grind

theorem extAddI_foreign (subs : List SubItem) : (extAddI subs).filterMap SubItem.foreign? = subs.filterMap SubItem.foreign? := by
  unfold extAddI
  simp only []
  split <;> split <;> simp [SubItem.foreign?]

theorem onFirstExtI_foreign (l : List Item) : ((onFirstExtI l).map Item.foreigns).flatten = (l.map Item.foreigns).flatten := by
  induction l with
  | nil => rfl
  | cons i r ih =>
    cases i with
    | ext subs => simp only [onFirstExtI, List.map_cons, Item.foreigns, extAddI_foreign]
    | foreign o => simp only [onFirstExtI, List.map_cons, List.flatten_cons, ih]
    | cd d => simp only [onFirstExtI, List.map_cons, List.flatten_cons, ih]
    | ecd d => simp only [onFirstExtI, List.map_cons, List.flatten_cons, ih]
    | pad d => simp only [onFirstExtI, List.map_cons, List.flatten_cons, ih]

theorem onFirstExtI_OKf (l : List Item) (h : ∀ i ∈ l, i.OKf) : ∀ i ∈ onFirstExtI l, i.OKf := by
  induction l with
  | nil => intro i hi; cases hi
  | cons x r ih =>
    have hx := h x List.mem_cons_self
    have hr := ih (fun y hy => h y (List.mem_cons_of_mem _ hy))
    cases x with
    | ext subs =>
      intro i hi
      simp only [onFirstExtI, List.mem_cons] at hi
      rcases hi with rfl | hi
      · intro s hs
        rcases extAddI_mem subs s hs with h1 | rfl | rfl
        · exact hx s h1
        · trivial
        · trivial
      · exact h i (List.mem_cons_of_mem _ hi)
    | foreign o =>
      intro i hi; simp only [onFirstExtI, List.mem_cons] at hi
      rcases hi with rfl | hi
      · exact hx
      · exact hr i hi
    | cd d =>
      intro i hi; simp only [onFirstExtI, List.mem_cons] at hi
      rcases hi with rfl | hi
      · trivial
      · exact hr i hi
    | ecd d =>
      intro i hi; simp only [onFirstExtI, List.mem_cons] at hi
      rcases hi with rfl | hi
      · trivial
      · exact hr i hi
    | pad d =>
      intro i hi; simp only [onFirstExtI, List.mem_cons] at hi
      rcases hi with rfl | hi
      · trivial
      · exact hr i hi

theorem addMissingI_foreign (top : List Item) : ((addMissingI top).map Item.foreigns).flatten = (top.map Item.foreigns).flatten := by
  unfold addMissingI
  simp only [onFirstExtI_foreign]
  split <;> split <;> split <;> simp [Item.foreigns]

theorem addMissingI_OKf (top : List Item) (h : ∀ i ∈ top, i.OKf) : ∀ i ∈ addMissingI top, i.OKf := by
  unfold addMissingI
  apply onFirstExtI_OKf
  intro i hi
  have key : i ∈ top ∨ i = .cd [] ∨ i = .ecd [] ∨ i = .ext [] := by
    split at hi <;> split at hi <;> split at hi <;> (try simp at hi) <;> grind
  rcases key with h1 | rfl | rfl | rfl
  · exact h i h1
  · trivial
  · trivial
  · intro s hs; cases hs

theorem foreign_not_pad (o : Object) (h : ForeignOK o) : (o.guid == gPadding) = false := by
  have := (special_ne h.2.1).2.2.2.2.2.2
  simpa using this

theorem subsRe_foreign (P : Payloads) (subs : List SubItem) (h : ∀ s ∈ subs, s.OKf) :
    (subsRe P subs).filterMap SubItem.foreign? = subs.filterMap SubItem.foreign? := by
  unfold subsRe
  induction subs with
  | nil => rfl
  | cons s r ih =>
    have ih' := ih (fun y hy => h y (List.mem_cons_of_mem _ hy))
    have hs := h s List.mem_cons_self
    cases s with
    | foreign o =>
      have : (!(SubItem.foreign o).isPad) = true := by
        simp only [SubItem.isPad, SubItem.guid, foreign_not_pad o hs]; rfl
      simp only [List.filter_cons, this, ↓reduceIte, List.map_cons, SubItem.re, List.filterMap_cons, SubItem.foreign?, ih']
    | mo d =>
      have : (!(SubItem.mo d).isPad) = true := by simp only [SubItem.isPad, SubItem.guid]; decide
      simp only [List.filter_cons, this, ↓reduceIte, List.map_cons, SubItem.re, List.filterMap_cons, SubItem.foreign?, ih']
    | metaLib d =>
      have : (!(SubItem.metaLib d).isPad) = true := by simp only [SubItem.isPad, SubItem.guid]; decide
      simp only [List.filter_cons, this, ↓reduceIte, List.map_cons, SubItem.re, List.filterMap_cons, SubItem.foreign?, ih']
    | pad d =>
      have : (!(SubItem.pad d).isPad) = false := by simp only [SubItem.isPad, SubItem.guid]; decide
      have e : ((SubItem.pad d :: r).filter fun s => !s.isPad) = r.filter fun s => !s.isPad := by
        rw [List.filter_cons, this]; rfl
      rw [e, ih']; rfl

theorem re_foreign (P : Payloads) (i : Item) (h : i.OKf) : (i.re P).foreigns = i.foreigns := by
  cases i with
  | ext subs => simp only [Item.re, Item.foreigns, subsRe_foreign P subs h]
  | foreign o => rfl
  | cd d => rfl
  | ecd d => rfl
  | pad d => rfl

theorem keptTop_foreign_aux (P : Payloads) (l : List Item) (h : ∀ i ∈ l, i.OKf) :
    (((l.filter fun i => !i.isPad).map (Item.re P)).map Item.foreigns).flatten = (l.map Item.foreigns).flatten := by
  induction l with
  | nil => rfl
  | cons i r ih =>
    have ih' := ih (fun y hy => h y (List.mem_cons_of_mem _ hy))
    have hi := h i List.mem_cons_self
    by_cases hp : i.isPad = true
    · have hf : i.foreigns = [] := by
        cases i with
        | foreign o => simp only [Item.isPad, Item.guid, foreign_not_pad o hi] at hp; cases hp
        | ext subs =>
          have : (gExt == gPadding) = false := by decide
          simp only [Item.isPad, Item.guid, this] at hp; cases hp
        | cd d => rfl
        | ecd d => rfl
        | pad d => rfl
      simp only [List.filter_cons, hp, Bool.not_true, Bool.false_eq_true, ↓reduceIte, List.map_cons, List.flatten_cons, hf,
        List.nil_append, ih']
    · have hp' : (!i.isPad) = true := by simpa using hp
      simp only [List.filter_cons, hp', ↓reduceIte, List.map_cons, List.flatten_cons, re_foreign P i hi, ih']

/-- C02 at the level of layouts: the foreign objects of the saved layout are those of the old one,
byte for byte and in order -/
theorem after0_foreign (L : Layout) (h : L.OK) (P : Payloads) (p : Nat) : (L.after0 P p).foreign = L.foreign := by
  unfold Layout.foreign Layout.after0 keptTop
  simp only [List.map_append, List.flatten_append, List.map_cons, List.map_nil, Item.foreigns, List.flatten_cons, List.flatten_nil,
    List.append_nil]
  rw [keptTop_foreign_aux P _ (addMissingI_OKf L.top (fun i hi => (h.items i hi).toOKf)), addMissingI_foreign]

/-! ### the saved layout is well-formed again -/

/-- the payloads are what the four parsers accept (so the saved file loads) -/
structure Payloads.Parses (P : Payloads) : Prop where
  cd : (parseCD P.cd).isSome = true
  ecd : (parseECD P.ecd).isSome = true
  mo : (parseML false P.mo).isSome = true
  ml : (parseML true P.ml).isSome = true

theorem subRe_OK (P : Payloads) (hP : P.Parses) (s : SubItem) (h : s.OKf) : (s.re P).OK := by
  cases s with
  | foreign o => exact h
  | mo d => exact hP.mo
  | metaLib d => exact hP.ml
  | pad d => trivial

theorem re_OK (P : Payloads) (hP : P.Parses) (i : Item) (h : i.OKf) (hfit : (i.re P).extFits) : (i.re P).OK := by
  cases i with
  | foreign o => exact h
  | cd d => exact hP.cd
  | ecd d => exact hP.ecd
  | pad d => trivial
  | ext subs =>
    refine ⟨?_, hfit⟩
    intro s hs
    simp only [subsRe, List.mem_map, List.mem_filter] at hs
    obtain ⟨s0, ⟨hs0, _⟩, rfl⟩ := hs
    exact subRe_OK P hP s0 (h s0 hs0)

theorem keptTop_OK (P : Payloads) (hP : P.Parses) (top : List Item) (h : ∀ i ∈ top, i.OKf) (hfit : ExtFits (keptTop P top)) :
    ∀ i ∈ keptTop P top, i.OK := by
  intro i hi
  have hfi := hfit i hi
  simp only [keptTop, List.mem_map, List.mem_filter] at hi
  obtain ⟨j, ⟨hj, _⟩, rfl⟩ := hi
  exact re_OK P hP j (addMissingI_OKf top h j hj) hfi

/-- the layout `save` leaves is well-formed whenever the new header fits its size fields -/
theorem after0_OK (L : Layout) (h : L.OK) (P : Payloads) (hP : P.Parses) (p : Nat) (hfit : ExtFits (keptTop P L.top))
    (hc : (keptTop P L.top).length + 1 < 2 ^ 32) (hs : neededLen P L.top + p < 2 ^ 64) : (L.after0 P p).OK := by
  refine ⟨?_, ?_, ?_⟩
  · intro i hi
    simp only [Layout.after0, List.mem_append, List.mem_singleton] at hi
    rcases hi with hi | rfl
    · exact keptTop_OK P hP L.top (fun i hi => (h.items i hi).toOKf) hfit i hi
    · trivial
  · simpa [Layout.after0] using hc
  · rw [L.after0_headerLen]; exact hs

/-! ### saving again: nothing is missing any more -/

theorem lacks_false_iff (g : Bytes) (gs : List Bytes) : lacks g gs = false ↔ g ∈ gs := by
  unfold lacks; simp

theorem lacks_true_iff (g : Bytes) (gs : List Bytes) : lacks g gs = true ↔ g ∉ gs := by
  unfold lacks; simp

/-- the Header Extension Object has both metadata objects -/
def extFull (subs : List SubItem) : Prop := gMeta ∈ subs.map SubItem.guid ∧ gMetaLib ∈ subs.map SubItem.guid

theorem extAddI_pp (subs : List SubItem) (h1 : lacks gMeta (subs.map SubItem.guid) = true)
    (h2 : lacks gMetaLib ((subs ++ [SubItem.mo []]).map SubItem.guid) = true) :
    extAddI subs = subs ++ [SubItem.mo []] ++ [SubItem.metaLib []] := by
  unfold extAddI; simp only [h1, h2, ↓reduceIte]

theorem extAddI_pn (subs : List SubItem) (h1 : lacks gMeta (subs.map SubItem.guid) = true)
    (h2 : lacks gMetaLib ((subs ++ [SubItem.mo []]).map SubItem.guid) = false) :
    extAddI subs = subs ++ [SubItem.mo []] := by
  unfold extAddI; simp only [h1, h2, Bool.false_eq_true, ↓reduceIte]

theorem extAddI_np (subs : List SubItem) (h1 : lacks gMeta (subs.map SubItem.guid) = false)
    (h2 : lacks gMetaLib (subs.map SubItem.guid) = true) :
    extAddI subs = subs ++ [SubItem.metaLib []] := by
  unfold extAddI; simp only [h1, h2, Bool.false_eq_true, ↓reduceIte]

theorem extAddI_nn (subs : List SubItem) (h1 : lacks gMeta (subs.map SubItem.guid) = false)
    (h2 : lacks gMetaLib (subs.map SubItem.guid) = false) :
    extAddI subs = subs := by
  unfold extAddI; simp only [h1, h2, Bool.false_eq_true, ↓reduceIte]

theorem extAddI_of_full (subs : List SubItem) (h : extFull subs) : extAddI subs = subs :=
  extAddI_nn subs ((lacks_false_iff _ _).mpr h.1) ((lacks_false_iff _ _).mpr h.2)

theorem extAddI_full (subs : List SubItem) : extFull (extAddI subs) := by
  unfold extFull
  cases h1 : lacks gMeta (subs.map SubItem.guid) with
  | true =>
    cases h2 : lacks gMetaLib ((subs ++ [SubItem.mo []]).map SubItem.guid) with
    | true => rw [extAddI_pp subs h1 h2]; simp [SubItem.guid]
    | false =>
      rw [extAddI_pn subs h1 h2]
      exact ⟨by simp [SubItem.guid], (lacks_false_iff _ _).mp h2⟩
  | false =>
    have m1 := (lacks_false_iff _ _).mp h1
    cases h2 : lacks gMetaLib (subs.map SubItem.guid) with
    | true =>
      rw [extAddI_np subs h1 h2]
      exact ⟨by simp only [List.map_append, List.mem_append]; exact Or.inl m1, by simp [SubItem.guid]⟩
    | false =>
      rw [extAddI_nn subs h1 h2]
      exact ⟨m1, (lacks_false_iff _ _).mp h2⟩

/-- the first Header Extension Object (if any) has both metadata objects -/
def FirstFull : List Item → Prop
  | [] => True
  | .ext subs :: _ => extFull subs
  | .foreign _ :: r => FirstFull r
  | .cd _ :: r => FirstFull r
  | .ecd _ :: r => FirstFull r
  | .pad _ :: r => FirstFull r

theorem onFirstExtI_of_full (l : List Item) (h : FirstFull l) : onFirstExtI l = l := by
  induction l with
  | nil => rfl
  | cons i r ih =>
    cases i with
    | ext subs => simp only [onFirstExtI, extAddI_of_full subs h]
    | foreign o => simp only [onFirstExtI, ih h]
    | cd d => simp only [onFirstExtI, ih h]
    | ecd d => simp only [onFirstExtI, ih h]
    | pad d => simp only [onFirstExtI, ih h]

theorem onFirstExtI_full (l : List Item) : FirstFull (onFirstExtI l) := by
  induction l with
  | nil => trivial
  | cons i r ih =>
    cases i with
    | ext subs => exact extAddI_full subs
    | foreign o => exact ih
    | cd d => exact ih
    | ecd d => exact ih
    | pad d => exact ih

theorem onFirstExtI_guids (l : List Item) : (onFirstExtI l).map Item.guid = l.map Item.guid := by
  induction l with
  | nil => rfl
  | cons i r ih =>
    cases i with
    | ext subs => simp only [onFirstExtI, List.map_cons, Item.guid]
    | foreign o => simp only [onFirstExtI, List.map_cons, ih]
    | cd d => simp only [onFirstExtI, List.map_cons, ih]
    | ecd d => simp only [onFirstExtI, List.map_cons, ih]
    | pad d => simp only [onFirstExtI, List.map_cons, ih]

/-- nothing for "add missing objects" to do -/
structure Complete (l : List Item) : Prop where
  cd : gCD ∈ l.map Item.guid
  ecd : gECD ∈ l.map Item.guid
  ext : gExt ∈ l.map Item.guid
  full : FirstFull l

theorem addMissingI_of_complete (l : List Item) (h : Complete l) : addMissingI l = l := by
  unfold addMissingI
  have h1 : lacks gCD (l.map Item.guid) = false := (lacks_false_iff _ _).mpr h.cd
  have h2 : lacks gECD (l.map Item.guid) = false := (lacks_false_iff _ _).mpr h.ecd
  have h3 : lacks gExt (l.map Item.guid) = false := (lacks_false_iff _ _).mpr h.ext
  simp only [h1, h2, h3, Bool.false_eq_true, ↓reduceIte]
  exact onFirstExtI_of_full l h.full

theorem mem_guid_snoc (l : List Item) (x : Item) : x.guid ∈ (l ++ [x]).map Item.guid := by simp

theorem mem_guid_append (l m : List Item) (g : Bytes) (h : g ∈ l.map Item.guid) : g ∈ (l ++ m).map Item.guid := by
  simp only [List.map_append, List.mem_append]; exact Or.inl h

theorem addMissingI_complete (top : List Item) : Complete (addMissingI top) := by
  unfold addMissingI
  simp only []
  generalize ho1 : (if lacks gCD (top.map Item.guid) = true then top ++ [Item.cd []] else top) = o1
  generalize ho2 : (if lacks gECD (o1.map Item.guid) = true then o1 ++ [Item.ecd []] else o1) = o2
  generalize ho3 : (if lacks gExt (o2.map Item.guid) = true then o2 ++ [Item.ext []] else o2) = o3
  have m1 : gCD ∈ o1.map Item.guid := by
    rw [← ho1]
    cases c : lacks gCD (top.map Item.guid) with
    | true => simp only [↓reduceIte]; exact mem_guid_snoc top (Item.cd [])
    | false => simp only [Bool.false_eq_true, ↓reduceIte]; exact (lacks_false_iff _ _).mp c
  have m2 : gECD ∈ o2.map Item.guid := by
    rw [← ho2]
    cases c : lacks gECD (o1.map Item.guid) with
    | true => simp only [↓reduceIte]; exact mem_guid_snoc o1 (Item.ecd [])
    | false => simp only [Bool.false_eq_true, ↓reduceIte]; exact (lacks_false_iff _ _).mp c
  have m3 : gExt ∈ o3.map Item.guid := by
    rw [← ho3]
    cases c : lacks gExt (o2.map Item.guid) with
    | true => simp only [↓reduceIte]; exact mem_guid_snoc o2 (Item.ext [])
    | false => simp only [Bool.false_eq_true, ↓reduceIte]; exact (lacks_false_iff _ _).mp c
  have m1' : gCD ∈ o2.map Item.guid := by
    rw [← ho2]; split
    · exact mem_guid_append _ _ _ m1
    · exact m1
  have m1'' : gCD ∈ o3.map Item.guid := by
    rw [← ho3]; split
    · exact mem_guid_append _ _ _ m1'
    · exact m1'
  have m2' : gECD ∈ o3.map Item.guid := by
    rw [← ho3]; split
    · exact mem_guid_append _ _ _ m2
    · exact m2
  exact ⟨by rw [onFirstExtI_guids]; exact m1'', by rw [onFirstExtI_guids]; exact m2', by rw [onFirstExtI_guids]; exact m3,
    onFirstExtI_full o3⟩

/-- "add missing objects" a second time adds nothing -/
theorem addMissingI_idem (top : List Item) : addMissingI (addMissingI top) = addMissingI top :=
  addMissingI_of_complete _ (addMissingI_complete top)

theorem SubItem.re_guid (P : Payloads) (s : SubItem) : (s.re P).guid = s.guid := by cases s <;> rfl
theorem Item.re_guid (P : Payloads) (i : Item) : (i.re P).guid = i.guid := by cases i <;> rfl

theorem subsRe_full (P : Payloads) (subs : List SubItem) (h : extFull subs) : extFull (subsRe P subs) := by
  have key : ∀ g : Bytes, g ≠ gPadding → g ∈ subs.map SubItem.guid → g ∈ (subsRe P subs).map SubItem.guid := by
    intro g hg hm
    obtain ⟨s, hs, rfl⟩ := List.mem_map.mp hm
    apply List.mem_map.mpr
    refine ⟨s.re P, ?_, s.re_guid P⟩
    unfold subsRe
    apply List.mem_map.mpr
    refine ⟨s, ?_, rfl⟩
    apply List.mem_filter.mpr
    refine ⟨hs, ?_⟩
    simp only [SubItem.isPad, Bool.not_eq_true', beq_eq_false_iff_ne]; exact hg
  exact ⟨key gMeta (by decide) h.1, key gMetaLib (by decide) h.2⟩

theorem re_firstFull (P : Payloads) (l : List Item) (h : FirstFull l) : FirstFull (l.map (Item.re P)) := by
  induction l with
  | nil => trivial
  | cons i r ih =>
    cases i with
    | ext subs => exact subsRe_full P subs h
    | foreign o => exact ih h
    | cd d => exact ih h
    | ecd d => exact ih h
    | pad d => exact ih h

theorem filter_firstFull (l : List Item) (h : FirstFull l) : FirstFull (l.filter fun i => !i.isPad) := by
  induction l with
  | nil => trivial
  | cons i r ih =>
    cases i with
    | ext subs =>
      have : (!(Item.ext subs).isPad) = true := by simp only [Item.isPad, Item.guid]; decide
      rw [List.filter_cons, this]; exact h
    | foreign o =>
      rw [List.filter_cons]; split
      · exact ih h
      · exact ih h
    | cd d =>
      have : (!(Item.cd d).isPad) = true := by simp only [Item.isPad, Item.guid]; decide
      rw [List.filter_cons, this]; exact ih h
    | ecd d =>
      have : (!(Item.ecd d).isPad) = true := by simp only [Item.isPad, Item.guid]; decide
      rw [List.filter_cons, this]; exact ih h
    | pad d =>
      have : (!(Item.pad d).isPad) = false := by simp only [Item.isPad, Item.guid]; decide
      rw [List.filter_cons, this]; exact ih h

theorem append_firstFull (l m : List Item) (h : FirstFull l) (hm : FirstFull m) : FirstFull (l ++ m) := by
  induction l with
  | nil => exact hm
  | cons i r ih =>
    cases i with
    | ext subs => exact h
    | foreign o => exact ih h
    | cd d => exact ih h
    | ecd d => exact ih h
    | pad d => exact ih h

theorem keptTop_guid_mem (P : Payloads) (top : List Item) (g : Bytes) (hg : g ≠ gPadding) (h : g ∈ (addMissingI top).map Item.guid) :
    g ∈ (keptTop P top).map Item.guid := by
  obtain ⟨i, hi, rfl⟩ := List.mem_map.mp h
  apply List.mem_map.mpr
  refine ⟨i.re P, ?_, i.re_guid P⟩
  unfold keptTop
  apply List.mem_map.mpr
  refine ⟨i, ?_, rfl⟩
  apply List.mem_filter.mpr
  refine ⟨hi, ?_⟩
  simp only [Item.isPad, Bool.not_eq_true', beq_eq_false_iff_ne]; exact hg

/-- the children `save` keeps, followed by a Padding Object, lack nothing -/
theorem keptTop_complete (P : Payloads) (top : List Item) (z : Bytes) : Complete (keptTop P top ++ [Item.pad z]) := by
  have hc := addMissingI_complete top
  have mem : ∀ g : Bytes, g ≠ gPadding → g ∈ (addMissingI top).map Item.guid → g ∈ (keptTop P top ++ [Item.pad z]).map Item.guid := by
    intro g hg hm
    simp only [List.map_append, List.mem_append]
    exact Or.inl (keptTop_guid_mem P top g hg hm)
  refine ⟨mem gCD (by decide) hc.cd, mem gECD (by decide) hc.ecd, mem gExt (by decide) hc.ext, ?_⟩
  apply append_firstFull
  · unfold keptTop; exact re_firstFull P _ (filter_firstFull _ hc.full)
  · trivial

theorem subRe_idem (P : Payloads) (s : SubItem) : (s.re P).re P = s.re P := by cases s <;> rfl

theorem subsRe_idem (P : Payloads) (subs : List SubItem) : subsRe P (subsRe P subs) = subsRe P subs := by
  unfold subsRe
  have hf : ((subs.filter fun s => !s.isPad).map (SubItem.re P)).filter (fun s => !s.isPad) =
      (subs.filter fun s => !s.isPad).map (SubItem.re P) := by
    apply List.filter_eq_self.mpr
    intro x hx
    obtain ⟨s, hs, rfl⟩ := List.mem_map.mp hx
    have := (List.mem_filter.mp hs).2
    simpa only [SubItem.isPad, SubItem.re_guid] using this
  rw [hf, List.map_map]
  apply List.map_congr_left
  intro s _
  exact subRe_idem P s

theorem re_idem (P : Payloads) (i : Item) : (i.re P).re P = i.re P := by
  cases i with
  | ext subs => simp only [Item.re, subsRe_idem]
  | foreign o => rfl
  | cd d => rfl
  | ecd d => rfl
  | pad d => rfl

/-- saving the saved layout: the same children again -/
theorem keptTop_after (P : Payloads) (top : List Item) (z : Bytes) : keptTop P (keptTop P top ++ [Item.pad z]) = keptTop P top := by
  have hK : ∀ i ∈ keptTop P top, (!i.isPad) = true := by
    intro i hi
    simp only [keptTop, List.mem_map, List.mem_filter] at hi
    obtain ⟨j, ⟨_, hj⟩, rfl⟩ := hi
    simpa only [Item.isPad, Item.re_guid] using hj
  show ((addMissingI (keptTop P top ++ [Item.pad z])).filter fun i => !i.isPad).map (Item.re P) = keptTop P top
  rw [addMissingI_of_complete _ (keptTop_complete P top z), List.filter_append]
  have h1 : (keptTop P top).filter (fun i => !i.isPad) = keptTop P top := List.filter_eq_self.mpr hK
  have h2 : [Item.pad z].filter (fun i => !i.isPad) = [] := by
    have : (!(Item.pad z).isPad) = false := by simp only [Item.isPad, Item.guid]; decide
    simp [this]
  rw [h1, h2, List.append_nil]
  conv => rhs; rw [← List.map_id (keptTop P top)]
  apply List.map_congr_left
  intro i hi
  simp only [keptTop, List.mem_map] at hi
  obtain ⟨j, _, rfl⟩ := hi
  exact re_idem P j

/-- saving through the same object again: the same children again -/
theorem keptTop_addMissingI (P : Payloads) (top : List Item) : keptTop P (addMissingI top) = keptTop P top := by
  unfold keptTop; rw [addMissingI_idem]

theorem after0_after0 (L : Layout) (P : Payloads) (p q : Nat) : (L.after0 P p).after0 P q = L.after0 P q := by
  simp only [Layout.after0, keptTop_after]

theorem neededLen_after (P : Payloads) (top : List Item) (z : Bytes) : neededLen P (keptTop P top ++ [Item.pad z]) = neededLen P top := by
  unfold neededLen; rw [keptTop_after]

/-! ### the layout after a save: the File Size patch on top of everything else -/

/-- the layout with the File Size field of its first File Properties Object set to `t` -/
def Layout.patched (L : Layout) (t : Nat) : Layout := ⟨patchFP t L.top, L.rest⟩

/-- the layout after a save that wrote the payloads `P` and `p` bytes of padding: padding objects are
dropped at both levels, owned objects re-rendered in place, missing ones appended, one Padding
Object at the end of the Header Object, the File Size field of the first File Properties Object
among the children of the Header Object set to the length of the new file; everything else, and the
rest of the file, as it was -/
def Layout.after (L : Layout) (P : Payloads) (p : Nat) : Layout :=
  ⟨patchFP (neededLen P L.top + p + L.rest.length) (keptTop P L.top ++ [.pad (zeros p)]), L.rest⟩

theorem cd_not_FP (d : Bytes) : (Item.cd d).isFP = false := by simp only [Item.isFP, Item.guid]; decide
theorem ecd_not_FP (d : Bytes) : (Item.ecd d).isFP = false := by simp only [Item.isFP, Item.guid]; decide
theorem ext_not_FP (subs : List SubItem) : (Item.ext subs).isFP = false := by simp only [Item.isFP, Item.guid]; decide

theorem isFP_foreign_of_OKf (i : Item) (h : i.OKf) (hi : i.isFP = true) :
    ∃ o, i = .foreign o ∧ o.guid.length = 16 ∧ 64 ≤ o.data.length := by
  cases i with
  | foreign o =>
    have hg : o.guid = gFileProps := by simpa [Item.isFP, Item.guid] using hi
    have hr := h.2.2
    unfold rawOK at hr
    rw [if_pos hg] at hr
    exact ⟨o, rfl, h.1, by simpa using hr⟩
  | cd d => rw [cd_not_FP] at hi; cases hi
  | ecd d => rw [ecd_not_FP] at hi; cases hi
  | pad d => rw [pad_not_FP] at hi; cases hi
  | ext subs => rw [ext_not_FP] at hi; cases hi

theorem FPok_of_OKf (l : List Item) (h : ∀ i ∈ l, i.OKf) : FPok l := by
  intro i hi hfp
  obtain ⟨o, h1, h2, h3⟩ := isFP_foreign_of_OKf i (h i hi) hfp
  exact ⟨o, h1, h2, by omega⟩

theorem subRe_OKf (P : Payloads) (s : SubItem) (h : s.OKf) : (s.re P).OKf := by
  cases s <;> first | exact h | trivial

theorem re_OKf (P : Payloads) (i : Item) (h : i.OKf) : (i.re P).OKf := by
  cases i with
  | foreign o => exact h
  | cd d => trivial
  | ecd d => trivial
  | pad d => trivial
  | ext subs =>
    intro s hs
    simp only [subsRe, List.mem_map, List.mem_filter] at hs
    obtain ⟨s0, ⟨hs0, _⟩, rfl⟩ := hs
    exact subRe_OKf P s0 (h s0 hs0)

theorem keptTop_OKf (P : Payloads) (top : List Item) (h : ∀ i ∈ top, i.OKf) : ∀ i ∈ keptTop P top, i.OKf := by
  intro i hi
  simp only [keptTop, List.mem_map, List.mem_filter] at hi
  obtain ⟨j, ⟨hj, _⟩, rfl⟩ := hi
  exact re_OKf P j (addMissingI_OKf top h j hj)

theorem keptTop_FPok (P : Payloads) (top : List Item) (h : ∀ i ∈ top, i.OKf) : FPok (keptTop P top) :=
  FPok_of_OKf _ (keptTop_OKf P top h)

theorem FPok_snoc_pad (l : List Item) (z : Bytes) (h : FPok l) : FPok (l ++ [Item.pad z]) := by
  intro i hi hfp
  rcases List.mem_append.mp hi with hi | hi
  · exact h i hi hfp
  · simp only [List.mem_singleton] at hi; subst hi; rw [pad_not_FP] at hfp; cases hfp

theorem Layout.OK.okf {L : Layout} (h : L.OK) : ∀ i ∈ L.top, i.OKf := fun i hi => (h.items i hi).toOKf

/-! #### the patch commutes with everything `save` does to the children -/

theorem setFileSize_isPad (t : Nat) (i : Item) : (i.setFileSize t).isPad = i.isPad := by
  unfold Item.isPad; rw [setFileSize_guid]

theorem FP_not_pad (i : Item) (h : i.isFP = true) : i.isPad = false := by
  have hg : i.guid = gFileProps := by simpa [Item.isFP] using h
  simp only [Item.isPad, hg]; decide

theorem patchFP_filter (t : Nat) (l : List Item) :
    (patchFP t l).filter (fun i => !i.isPad) = patchFP t (l.filter fun i => !i.isPad) := by
  induction l with
  | nil => rfl
  | cons i r ih =>
    by_cases hi : i.isFP = true
    · have hp : (!i.isPad) = true := by rw [FP_not_pad i hi]; rfl
      have hp' : (!(i.setFileSize t).isPad) = true := by rw [setFileSize_isPad]; exact hp
      simp only [patchFP, hi, ↓reduceIte, List.filter_cons, hp, hp']
    · have hi' : i.isFP = false := by simpa using hi
      simp only [patchFP, hi', Bool.false_eq_true, ↓reduceIte, List.filter_cons]
      split
      · simp only [patchFP, hi', Bool.false_eq_true, ↓reduceIte, ih]
      · exact ih

theorem setFileSize_re (t : Nat) (P : Payloads) (i : Item) (h : i.isFP = true) : (i.setFileSize t).re P = (i.re P).setFileSize t := by
  cases i with
  | foreign o => rfl
  | cd d => rw [cd_not_FP] at h; cases h
  | ecd d => rw [ecd_not_FP] at h; cases h
  | pad d => rfl
  | ext subs => rw [ext_not_FP] at h; cases h

theorem patchFP_map_re (t : Nat) (P : Payloads) (l : List Item) : (patchFP t l).map (Item.re P) = patchFP t (l.map (Item.re P)) := by
  induction l with
  | nil => rfl
  | cons i r ih =>
    by_cases hi : i.isFP = true
    · simp only [patchFP, hi, ↓reduceIte, List.map_cons, re_isFP, setFileSize_re t P i hi]
    · have hi' : i.isFP = false := by simpa using hi
      simp only [patchFP, hi', Bool.false_eq_true, ↓reduceIte, List.map_cons, re_isFP, ih]

theorem patchFP_snoc (t : Nat) (l : List Item) (x : Item) (hx : x.isFP = false) : patchFP t (l ++ [x]) = patchFP t l ++ [x] := by
  induction l with
  | nil => simp only [List.nil_append, patchFP, hx, Bool.false_eq_true, ↓reduceIte]
  | cons i r ih =>
    simp only [List.cons_append, patchFP]
    split
    · rfl
    · rw [ih]; rfl

theorem patchFP_onFirstExtI (t : Nat) (l : List Item) : onFirstExtI (patchFP t l) = patchFP t (onFirstExtI l) := by
  induction l with
  | nil => rfl
  | cons i r ih =>
    cases i with
    | ext subs =>
      have : (Item.ext subs).isFP = false := ext_not_FP subs
      have h2 : (Item.ext (extAddI subs)).isFP = false := ext_not_FP _
      simp only [patchFP, this, h2, Bool.false_eq_true, ↓reduceIte, onFirstExtI]
    | foreign o =>
      by_cases hi : (Item.foreign o).isFP = true
      · simp only [patchFP, hi, ↓reduceIte, onFirstExtI, Item.setFileSize]
      · have hi' : (Item.foreign o).isFP = false := by simpa using hi
        simp only [patchFP, hi', Bool.false_eq_true, ↓reduceIte, onFirstExtI, ih]
    | cd d =>
      have : (Item.cd d).isFP = false := cd_not_FP d
      simp only [patchFP, this, Bool.false_eq_true, ↓reduceIte, onFirstExtI, ih]
    | ecd d =>
      have : (Item.ecd d).isFP = false := ecd_not_FP d
      simp only [patchFP, this, Bool.false_eq_true, ↓reduceIte, onFirstExtI, ih]
    | pad d =>
      have : (Item.pad d).isFP = false := pad_not_FP d
      simp only [patchFP, this, Bool.false_eq_true, ↓reduceIte, onFirstExtI, ih]

theorem patchFP_addMissingI (t : Nat) (l : List Item) : addMissingI (patchFP t l) = patchFP t (addMissingI l) := by
  unfold addMissingI
  simp only [patchFP_guids]
  have s1 : (if lacks gCD (l.map Item.guid) = true then patchFP t l ++ [Item.cd []] else patchFP t l) =
      patchFP t (if lacks gCD (l.map Item.guid) = true then l ++ [Item.cd []] else l) := by
    split
    · rw [patchFP_snoc t l _ (cd_not_FP [])]
    · rfl
  simp only [s1, patchFP_guids]
  generalize (if lacks gCD (l.map Item.guid) = true then l ++ [Item.cd []] else l) = o1
  have s2 : (if lacks gECD (o1.map Item.guid) = true then patchFP t o1 ++ [Item.ecd []] else patchFP t o1) =
      patchFP t (if lacks gECD (o1.map Item.guid) = true then o1 ++ [Item.ecd []] else o1) := by
    split
    · rw [patchFP_snoc t o1 _ (ecd_not_FP [])]
    · rfl
  simp only [s2, patchFP_guids]
  generalize (if lacks gECD (o1.map Item.guid) = true then o1 ++ [Item.ecd []] else o1) = o2
  have s3 : (if lacks gExt (o2.map Item.guid) = true then patchFP t o2 ++ [Item.ext []] else patchFP t o2) =
      patchFP t (if lacks gExt (o2.map Item.guid) = true then o2 ++ [Item.ext []] else o2) := by
    split
    · rw [patchFP_snoc t o2 _ (ext_not_FP [])]
    · rfl
  simp only [s3]
  exact patchFP_onFirstExtI t _

/-- patching first and saving then = saving first and patching then -/
theorem keptTop_patch (t : Nat) (P : Payloads) (l : List Item) : keptTop P (patchFP t l) = patchFP t (keptTop P l) := by
  unfold keptTop
  rw [patchFP_addMissingI, patchFP_filter, patchFP_map_re]

theorem setFileSize_twice (t t' : Nat) (o : Object) (h : 16 ≤ o.data.length) :
    (Item.setFileSize t (Item.foreign o)).setFileSize t' = (Item.foreign o).setFileSize t' := by
  simp only [Item.setFileSize]
  rw [writeAt_writeAt _ _ _ _ h (by simp)]

/-- a later patch replaces an earlier one -/
theorem patchFP_patchFP (t t' : Nat) (l : List Item) (h : FPok l) : patchFP t' (patchFP t l) = patchFP t' l := by
  induction l with
  | nil => rfl
  | cons i r ih =>
    by_cases hi : i.isFP = true
    · obtain ⟨o, rfl, _, hd⟩ := h i List.mem_cons_self hi
      have hi2 : (Item.setFileSize t (Item.foreign o)).isFP = true := by
        unfold Item.isFP at hi ⊢; rw [setFileSize_guid]; exact hi
      simp only [patchFP, hi, ↓reduceIte, hi2, setFileSize_twice t t' o (by omega)]
    · have hi' : i.isFP = false := by simpa using hi
      simp only [patchFP, hi', Bool.false_eq_true, ↓reduceIte, ih (FPok_tail h)]

theorem neededLen_patch (t : Nat) (P : Payloads) (l : List Item) (h : FPok (keptTop P l)) :
    neededLen P (patchFP t l) = neededLen P l := by
  unfold neededLen
  rw [keptTop_patch, patch_render_length t _ h]

/-- the layout after a save is: patch the File Size first, then do everything else -/
theorem Layout.after_eq (L : Layout) (P : Payloads) (p : Nat) :
    L.after P p = (L.patched (neededLen P L.top + p + L.rest.length)).after0 P p := by
  simp only [Layout.after, Layout.after0, Layout.patched, keptTop_patch, patchFP_snoc_pad]

theorem setFileSize_extFits (t : Nat) (i : Item) : (i.setFileSize t).extFits ↔ i.extFits := by
  cases i <;> exact Iff.rfl

theorem patchFP_mem (t : Nat) (l : List Item) (x : Item) (h : x ∈ patchFP t l) : x ∈ l ∨ ∃ i ∈ l, i.isFP = true ∧ x = i.setFileSize t := by
  induction l with
  | nil => cases h
  | cons i r ih =>
    by_cases hi : i.isFP = true
    · simp only [patchFP, hi, ↓reduceIte, List.mem_cons] at h
      rcases h with rfl | h
      · exact Or.inr ⟨i, List.mem_cons_self, hi, rfl⟩
      · exact Or.inl (List.mem_cons_of_mem _ h)
    · have hi' : i.isFP = false := by simpa using hi
      simp only [patchFP, hi', Bool.false_eq_true, ↓reduceIte, List.mem_cons] at h
      rcases h with rfl | h
      · exact Or.inl List.mem_cons_self
      · rcases ih h with h1 | ⟨j, hj, hj2, rfl⟩
        · exact Or.inl (List.mem_cons_of_mem _ h1)
        · exact Or.inr ⟨j, List.mem_cons_of_mem _ hj, hj2, rfl⟩

theorem ExtFits_patch (t : Nat) (l : List Item) (h : ExtFits l) : ExtFits (patchFP t l) := by
  intro x hx
  rcases patchFP_mem t l x hx with h1 | ⟨i, hi, _, rfl⟩
  · exact h x h1
  · exact (setFileSize_extFits t i).mpr (h i hi)

theorem setFileSize_OK (t : Nat) (i : Item) (h : i.OK) (hi : i.isFP = true) : (i.setFileSize t).OK := by
  obtain ⟨o, rfl, hg, hd⟩ := isFP_foreign_of_OKf i h.toOKf hi
  have hguid : o.guid = gFileProps := by simpa [Item.isFP, Item.guid] using hi
  refine ⟨h.1, h.2.1, ?_⟩
  show rawOK o.guid (writeAt o.data 16 (toLE 8 t)) = true
  unfold rawOK
  rw [if_pos hguid, writeAt_length _ _ _ (by simp; omega)]
  simpa using hd

theorem patchFP_OK (t : Nat) (l : List Item) (h : ∀ i ∈ l, i.OK) : ∀ i ∈ patchFP t l, i.OK := by
  intro x hx
  rcases patchFP_mem t l x hx with h1 | ⟨i, hi, hfp, rfl⟩
  · exact h x h1
  · exact setFileSize_OK t i (h i hi) hfp

/-- the patch keeps a layout well-formed (and every length) -/
theorem Layout.patched_OK (L : Layout) (h : L.OK) (t : Nat) : (L.patched t).OK := by
  refine ⟨patchFP_OK t L.top h.items, ?_, ?_⟩
  · simp only [Layout.patched, patchFP_length]; exact h.count
  · have := h.size
    simp only [Layout.headerLen, Layout.patched, patch_render_length t L.top (FPok_of_OKf _ h.okf)] at this ⊢
    exact this

theorem Layout.after_headerLen (L : Layout) (h : L.OK) (P : Payloads) (p : Nat) : (L.after P p).headerLen = neededLen P L.top + p := by
  rw [L.after_eq, Layout.after0_headerLen]
  exact congrArg (· + p) (neededLen_patch _ P L.top (keptTop_FPok P L.top h.okf))

/-- C02 at the level of layouts: the foreign objects of the saved layout are those of the old one with
the File Size patch, byte for byte and in order -/
theorem after_foreign (L : Layout) (h : L.OK) (P : Payloads) (p : Nat) :
    (L.after P p).foreign = (L.patched (neededLen P L.top + p + L.rest.length)).foreign := by
  rw [L.after_eq]
  exact after0_foreign _ (L.patched_OK h _) P p

/-- a layout without a File Properties Object among the children of the Header Object is not patched -/
theorem patchFP_none (t : Nat) (l : List Item) (h : l.any Item.isFP = false) : patchFP t l = l := by
  induction l with
  | nil => rfl
  | cons i r ih =>
    simp only [List.any_cons, Bool.or_eq_false_iff] at h
    simp only [patchFP, h.1, Bool.false_eq_true, ↓reduceIte, ih h.2]

/-- what the patch is: nothing without a File Properties Object among the items; otherwise the first
one gets payload bytes 16..24 replaced and nothing else changes -/
theorem patchFP_spec (t : Nat) (l : List Item) (h : FPok l) :
    (l.any Item.isFP = false ∧ patchFP t l = l) ∨
      ∃ pre o post, l = pre ++ Item.foreign o :: post ∧ o.guid = gFileProps ∧ (∀ i ∈ pre, i.isFP = false) ∧
        patchFP t l = pre ++ Item.foreign ⟨o.guid, o.data.take 16 ++ toLE 8 t ++ o.data.drop 24⟩ :: post := by
  induction l with
  | nil => exact Or.inl ⟨rfl, rfl⟩
  | cons i r ih =>
    by_cases hi : i.isFP = true
    · obtain ⟨o, rfl, _, _⟩ := h i List.mem_cons_self hi
      have hguid : o.guid = gFileProps := by simpa [Item.isFP, Item.guid] using hi
      refine Or.inr ⟨[], o, r, rfl, hguid, (fun _ hx => by cases hx), ?_⟩
      simp only [patchFP, hi, ↓reduceIte, Item.setFileSize, writeAt, length_toLE, List.nil_append]
    · have hi' : i.isFP = false := by simpa using hi
      rcases ih (FPok_tail h) with ⟨h1, h2⟩ | ⟨pre, o, post, h1, h2, h3, h4⟩
      · exact Or.inl ⟨by simp only [List.any_cons, hi', h1, Bool.or_self], by simp only [patchFP, hi', Bool.false_eq_true, ↓reduceIte, h2]⟩
      · refine Or.inr ⟨i :: pre, o, post, by rw [h1]; rfl, h2, ?_, ?_⟩
        · intro x hx
          rcases List.mem_cons.mp hx with rfl | hx
          · exact hi'
          · exact h3 x hx
        · simp only [patchFP, hi', Bool.false_eq_true, ↓reduceIte, h4, List.cons_append]
/-! ### size conditions, THE save theorem, padding, second saves, delete -/

/-- the new file fits the size fields of the format: every Header Extension body 32 bits, the
child count 32 bits, the whole file (new header + what followed the old one) 64 bits -/
structure Layout.Fits (L : Layout) (P : Payloads) (p : Nat) : Prop where
  ext : ExtFits (keptTop P L.top)
  count : (keptTop P L.top).length + 1 < 2 ^ 32
  file : neededLen P L.top + p + L.rest.length < 2 ^ 64

theorem Layout.Fits.size {L : Layout} {P : Payloads} {p : Nat} (hf : L.Fits P p) : neededLen P L.top + p < 2 ^ 64 := by
  have := hf.file; omega

/-- THE save theorem: on a well-formed layout, `ASF.save` with tags that distribute to `d` and render
to the payloads `P` writes exactly the layout `L.after P p`: padding objects dropped at both levels,
the four metadata objects re-rendered where they were, missing ones appended, one Padding Object of
`p` zero bytes last, the File Size field of the first File Properties Object set to the length of the
new file, every other byte of every foreign object and everything behind the header as it was; `p` is
the callback's (or the default policy's) answer.  The second component is the tree the `ASF` object
holds afterwards (its File Properties Object still has the payload that was read). -/
theorem save_layout (L : Layout) (h : L.OK) (tags : List Tag) (d : Dist) (hd : distribute tags = .ok d) (P : Payloads)
    (hP : Renders d P) (pad : PadChoice) (hf : L.Fits P (newPadding L P pad)) :
    saveTree (L.top.map Item.toObj) L.render tags pad =
        .ok ((L.after P (newPadding L P pad)).render, (addMissingI L.top).map Item.toObj) ∧
      save L.render tags pad = .ok (L.after P (newPadding L P pad)).render := by
  have hlen := L.render_length
  have e : L.render.length - L.headerLen = L.rest.length := by omega
  have h1 := saveTree_items L.top L.render L.headerLen L.top.length (L.parseSize_render h) (by omega) tags d hd P hP pad hf.ext
    (keptTop_FPok P L.top h.okf) (newPadding L P pad) (by rw [e]; rfl) (by rw [e]; exact hf.file)
  rw [e, L.drop_render] at h1
  refine ⟨h1, ?_⟩
  unfold save
  rw [parseFull_layout L h]
  simp only [h1]
  rfl

theorem after_OK' (L : Layout) (h : L.OK) (P : Payloads) (hP : P.Parses) (p : Nat) (hf : L.Fits P p) : (L.after P p).OK := by
  have hfp := keptTop_FPok P L.top h.okf
  rw [L.after_eq]
  refine after0_OK _ (L.patched_OK h _) P hP p ?_ ?_ ?_
  · simp only [Layout.patched, keptTop_patch]; exact ExtFits_patch _ _ hf.ext
  · simp only [Layout.patched, keptTop_patch, patchFP_length]; exact hf.count
  · simp only [Layout.patched, neededLen_patch _ P L.top hfp]; exact hf.size

theorem keptTop_after_top (L : Layout) (P : Payloads) (p : Nat) :
    keptTop P (L.after P p).top = patchFP (neededLen P L.top + p + L.rest.length) (keptTop P L.top) := by
  simp only [Layout.after, keptTop_patch, keptTop_after]

theorem neededLen_after_top (L : Layout) (h : L.OK) (P : Payloads) (p : Nat) : neededLen P (L.after P p).top = neededLen P L.top := by
  unfold neededLen
  rw [keptTop_after_top, patch_render_length _ _ (keptTop_FPok P L.top h.okf)]

/-- saving the saved layout again gives the layout a single save with the second padding gives -/
theorem after_after (L : Layout) (h : L.OK) (P : Payloads) (p q : Nat) : (L.after P p).after P q = L.after P q := by
  have hfp := keptTop_FPok P L.top h.okf
  have e : (L.after P p).after P q =
      ⟨patchFP (neededLen P (L.after P p).top + q + L.rest.length) (keptTop P (L.after P p).top ++ [Item.pad (zeros q)]), L.rest⟩ := rfl
  rw [e, neededLen_after_top L h, keptTop_after_top, ← patchFP_snoc_pad, patchFP_patchFP _ _ _ (FPok_snoc_pad _ _ hfp)]
  rfl

/-- what the padding callback is offered by a save over the layout `save` left: exactly the padding
that is there -/
theorem newPadding_after (L : Layout) (h : L.OK) (P : Payloads) (p : Nat) (pad : PadChoice) :
    newPadding (L.after P p) P pad = (getPadding pad (p : Int) L.rest.length).toNat := by
  unfold newPadding
  rw [L.after_headerLen h, neededLen_after_top L h]
  have : ((neededLen P L.top + p : Nat) : Int) - (neededLen P L.top : Nat) = (p : Int) := by omega
  rw [this]; rfl

/-- the default policy keeps the padding it chose -/
theorem default_again (x : Int) (size : Nat) :
    (getPadding .default (((getPadding .default x size).toNat : Nat) : Int) size).toNat = (getPadding .default x size).toNat := by
  simp only [getPadding]
  have h0 := defaultPadding_nonneg x size
  have : (((Generated.defaultPadding x size).toNat : Nat) : Int) = Generated.defaultPadding x size := by omega
  rw [this, defaultPadding_idempotent]

theorem Layout.Fits.after {L : Layout} (h : L.OK) {P : Payloads} {p q : Nat} (hq : L.Fits P q) : (L.after P p).Fits P q := by
  refine ⟨?_, ?_, ?_⟩
  · rw [keptTop_after_top]; exact ExtFits_patch _ _ hq.ext
  · rw [keptTop_after_top, patchFP_length]; exact hq.count
  · rw [neededLen_after_top L h]; exact hq.file

/-- a second save through the same `ASF` object (the tree is the one the first save left; `q` is the
padding the second callback answers) -/
theorem saveTree_again (L : Layout) (h : L.OK) (tags : List Tag) (d : Dist) (hd : distribute tags = .ok d) (P : Payloads)
    (hP : Renders d P) (p : Nat) (hf : L.Fits P p) (pad : PadChoice) (q : Nat)
    (hq : (getPadding pad (p : Int) L.rest.length).toNat = q) (hfq : L.Fits P q) :
    saveTree ((addMissingI L.top).map Item.toObj) (L.after P p).render tags pad =
      .ok ((L.after P q).render, (addMissingI L.top).map Item.toObj) := by
  have hfp := keptTop_FPok P L.top h.okf
  have hhl := L.after_headerLen h P p
  have hsz : (L.after P p).headerLen < 2 ^ 64 := by rw [hhl]; exact hf.size
  have hcnt : (L.after P p).top.length < 2 ^ 32 := by
    simp only [Layout.after, patchFP_length, List.length_append, List.length_singleton]; exact hf.count
  have hps : parseSize (L.after P p).render = .ok ((L.after P p).headerLen, (L.after P p).top.length) := by
    unfold Layout.headerLen at hsz ⊢
    unfold Layout.render
    rw [parseSize_header _ _ _ hcnt (by omega), Nat.add_comm]
  have hlen := (L.after P p).render_length
  have hrest : (L.after P p).rest = L.rest := rfl
  have e : (L.after P p).render.length - (L.after P p).headerLen = L.rest.length := by rw [hlen, hrest]; omega
  have e2 : neededLen P (addMissingI L.top) = neededLen P L.top := by unfold neededLen; rw [keptTop_addMissingI]
  have h1 := saveTree_items (addMissingI L.top) (L.after P p).render _ _ hps (by omega) tags d hd P hP pad
    (by rw [keptTop_addMissingI]; exact hf.ext) (by rw [keptTop_addMissingI]; exact hfp) q
    (by
      rw [e, e2, hhl]
      have : ((neededLen P L.top + p : Nat) : Int) - (neededLen P L.top : Nat) = (p : Int) := by omega
      rw [this]; exact hq)
    (by rw [e, e2]; exact hfq.file)
  rw [h1, addMissingI_idem, e, (L.after P p).drop_render, keptTop_addMissingI, e2]
  rfl

/-! #### delete -/

/-- the payloads of the four metadata objects when there are no tags: five zero lengths; count 0 -/
def emptyPayloads : Payloads := ⟨zeros 10, [0, 0], [0, 0], [0, 0]⟩

theorem distribute_nil : distribute [] = .ok Dist.empty := rfl

theorem renders_empty : Renders Dist.empty emptyPayloads := ⟨by decide, by decide, by decide, by decide⟩

theorem parses_empty : emptyPayloads.Parses := ⟨by decide, by decide, by decide, by decide⟩

/-- the four objects written by `delete` hold no tags -/
theorem empty_holds_nothing :
    parseCD emptyPayloads.cd = some [] ∧ parseECD emptyPayloads.ecd = some [] ∧
      parseML false emptyPayloads.mo = some [] ∧ parseML true emptyPayloads.ml = some [] :=
  ⟨by decide, by decide, by decide, by decide⟩

theorem newPadding_zero (L : Layout) (P : Payloads) : newPadding L P padZero = 0 := rfl

/-- THE delete theorem: `ASF.delete` on a well-formed layout leaves the layout `L.after emptyPayloads 0`:
every foreign object (but for the File Size field) and everything behind the header as it was, the four
metadata objects empty (appended where they were missing), no padding objects but an empty one at the end -/
theorem delete_layout (L : Layout) (h : L.OK) (hf : L.Fits emptyPayloads 0) :
    delete L.render = .ok (L.after emptyPayloads 0).render := by
  have := (save_layout L h [] Dist.empty distribute_nil emptyPayloads renders_empty padZero (by rw [newPadding_zero]; exact hf)).2
  rw [newPadding_zero] at this
  exact this

theorem after_render_length (L : Layout) (h : L.OK) (P : Payloads) (p : Nat) :
    (L.after P p).render.length = neededLen P L.top + p + L.rest.length := by
  rw [Layout.render_length, L.after_headerLen h]; rfl

/-- the children of the saved header: the kept children (with the File Size patch), then the Padding Object -/
theorem after_top (L : Layout) (P : Payloads) (p : Nat) :
    (L.after P p).top = patchFP (neededLen P L.top + p + L.rest.length) (keptTop P L.top) ++ [Item.pad (zeros p)] := by
  simp only [Layout.after, patchFP_snoc_pad]

theorem kept_no_pad (t : Nat) (P : Payloads) (top : List Item) : ∀ i ∈ patchFP t (keptTop P top), i.isPad = false := by
  intro x hx
  have key : ∀ i ∈ keptTop P top, i.isPad = false := by
    intro i hi
    simp only [keptTop, List.mem_map, List.mem_filter] at hi
    obtain ⟨j, ⟨_, hj⟩, rfl⟩ := hi
    simpa only [Item.isPad, Item.re_guid, Bool.not_eq_true'] using hj
  rcases patchFP_mem t _ x hx with h1 | ⟨i, hi, _, rfl⟩
  · exact key x h1
  · rw [setFileSize_isPad]; exact key i hi

/-- a layout without a File Properties Object among the children of the Header Object: the save
leaves every foreign object byte-identical -/
theorem patched_none (L : Layout) (t : Nat) (h : L.top.any Item.isFP = false) : L.patched t = L := by
  simp only [Layout.patched, patchFP_none t L.top h]

/-! #### the File Size field after a save -/

/-- the File Size field (payload bytes 16..24) of the first File Properties Object among the items -/
def fileSizeField : List Item → Option Nat
  | [] => none
  | .foreign o :: r => if (Item.foreign o).isFP then some (ofLE ((o.data.drop 16).take 8)) else fileSizeField r
  | .cd _ :: r => fileSizeField r
  | .ecd _ :: r => fileSizeField r
  | .pad _ :: r => fileSizeField r
  | .ext _ :: r => fileSizeField r

theorem fileSizeField_patch (t : Nat) (l : List Item) (h : FPok l) (hany : l.any Item.isFP = true) (ht : t < 2 ^ 64) :
    fileSizeField (patchFP t l) = some t := by
  induction l with
  | nil => cases hany
  | cons i r ih =>
    by_cases hi : i.isFP = true
    · obtain ⟨o, rfl, _, hd⟩ := h i List.mem_cons_self hi
      have hi2 : (Item.foreign ⟨o.guid, writeAt o.data 16 (toLE 8 t)⟩).isFP = true := hi
      simp only [patchFP, hi, ↓reduceIte, Item.setFileSize, fileSizeField, hi2]
      have := writeAt_read o.data (toLE 8 t) 16 (by omega)
      rw [length_toLE] at this
      rw [this, ofLE_toLE 8 t (by rw [p8]; exact ht)]
    · have hi' : i.isFP = false := by simpa using hi
      have hr : r.any Item.isFP = true := by simpa [List.any_cons, hi'] using hany
      have ih' := ih (FPok_tail h) hr
      cases i with
      | foreign o => simp only [patchFP, hi', Bool.false_eq_true, ↓reduceIte, fileSizeField, ih']
      | cd d => simp only [patchFP, hi', Bool.false_eq_true, ↓reduceIte, fileSizeField, ih']
      | ecd d => simp only [patchFP, hi', Bool.false_eq_true, ↓reduceIte, fileSizeField, ih']
      | pad d => simp only [patchFP, hi', Bool.false_eq_true, ↓reduceIte, fileSizeField, ih']
      | ext s => simp only [patchFP, hi', Bool.false_eq_true, ↓reduceIte, fileSizeField, ih']

theorem any_isFP_iff (l : List Item) : l.any Item.isFP = true ↔ gFileProps ∈ l.map Item.guid := by
  simp only [List.any_eq_true, Item.isFP, beq_iff_eq, List.mem_map]

theorem addMissingI_guid_mem (top : List Item) (g : Bytes) (h : g ∈ top.map Item.guid) : g ∈ (addMissingI top).map Item.guid := by
  unfold addMissingI
  simp only [onFirstExtI_guids]
  split <;> split <;> split <;> (try simp only [List.map_append, List.mem_append]) <;> simp [h]

/-- a File Properties Object among the children of the Header Object is still there after a save -/
theorem keptTop_any_FP (P : Payloads) (top : List Item) (h : top.any Item.isFP = true) : (keptTop P top).any Item.isFP = true := by
  rw [any_isFP_iff] at h ⊢
  exact keptTop_guid_mem P top gFileProps (by decide) (addMissingI_guid_mem top _ h)

/-- after a save the File Size field of the (first) File Properties Object is the length of the file -/
theorem after_fileSize (L : Layout) (h : L.OK) (P : Payloads) (p : Nat) (hf : L.Fits P p) (hfp : L.top.any Item.isFP = true) :
    fileSizeField (L.after P p).top = some (L.after P p).render.length := by
  have hlen : (L.after P p).render.length = neededLen P L.top + p + L.rest.length := by
    rw [Layout.render_length, L.after_headerLen h]; rfl
  rw [hlen]
  refine fileSizeField_patch _ _ (FPok_snoc_pad _ _ (keptTop_FPok P L.top h.okf)) ?_ hf.file
  rw [List.any_append, keptTop_any_FP P L.top hfp]; rfl

/-! ### mutagen's parsers accept what `save` renders -/

theorem scalar_of_isScalar {c : Nat} (h : isScalar c = true) : Scalar c := by
  unfold isScalar at h
  simp only [Bool.and_eq_true, decide_eq_true_eq, Bool.not_eq_true', Bool.and_eq_false_iff, decide_eq_false_iff_not] at h
  unfold Scalar
  omega

theorem scalars_of_all {cs : List Nat} (h : cs.all isScalar = true) : ∀ c ∈ cs, Scalar c := by
  intro c hc
  exact scalar_of_isScalar (List.all_eq_true.mp h c hc)

theorem enc_nul (cs : List Nat) : encodeUtf16 cs ++ nul2 = encodeUtf16 (cs ++ [0]) := by
  simp [encodeUtf16, toUnits, unitsLE, units1, nul2, toLE]

/-- text with its terminator decodes -/
theorem decodeText_enc (cs : List Nat) (h : cs.all isScalar = true) : (decodeText (encodeUtf16 cs ++ nul2)).isSome = true := by
  unfold decodeText
  have hz0 : Scalar 0 := by unfold Scalar; omega
  rw [enc_nul, decodeUtf16_encodeUtf16 (cs ++ [0]) (by
    intro c hc
    rcases List.mem_append.mp hc with hc | hc
    · exact scalars_of_all h c hc
    · simp at hc; subst hc; exact hz0)]
  rfl

theorem encodeStr_ok {cs : List Nat} {b : Bytes} (h : encodeStr cs = .ok b) : cs.all isScalar = true ∧ b = encodeUtf16 cs := by
  unfold encodeStr at h
  split at h
  · rename_i hc; cases h; exact ⟨hc, rfl⟩
  · cases h

theorem render_parses (v : Val) (dword : Bool) (data : Bytes) (h : v.render dword = .ok data) :
    (parseVal v.typ data dword).isSome = true := by
  cases v with
  | unicode cs =>
    simp only [Val.render] at h
    split at h
    · cases h
    · rename_i b hb
      cases h
      obtain ⟨hc, rfl⟩ := encodeStr_ok hb
      simp only [Val.typ, parseVal, ↓reduceIte, Option.isSome_map, decodeText_enc cs hc]
  | bytes b => cases h; rfl
  | guid b => cases h; rfl
  | bool x =>
    cases h
    cases dword <;> cases x <;> rfl
  | dword n =>
    simp only [Val.render] at h
    split at h
    · cases h; simp [Val.typ, parseVal]
    · cases h
  | qword n =>
    simp only [Val.render] at h
    split at h
    · cases h; simp [Val.typ, parseVal]
    · cases h
  | word n =>
    simp only [Val.render] at h
    split at h
    · cases h; simp [Val.typ, parseVal]
    · cases h

theorem typ_lt (v : Val) : v.typ < 65536 := by cases v <;> simp [Val.typ]

/-- what `attrOf` gives: an encodable name, a type below 7, a value its type's parser accepts -/
theorem attrOf_ok {t : Tag} {dword : Bool} {lang stream : Nat} {a : Attr} (h : attrOf t dword lang stream = .ok a) :
    (∃ cs, cs.all isScalar = true ∧ a.name = encodeUtf16 cs) ∧ a.typ < 65536 ∧ (parseVal a.typ a.data dword).isSome = true ∧
      a.language = lang ∧ a.stream = stream := by
  unfold attrOf at h
  split at h
  · cases h
  · rename_i nm hn
    split at h
    · cases h
    · rename_i data hdata
      cases h
      obtain ⟨hc, rfl⟩ := encodeStr_ok hn
      exact ⟨⟨t.name, hc, rfl⟩, typ_lt _, render_parses _ _ _ hdata, rfl, rfl⟩

theorem concatMapE_cons_ok {α : Type} {f : α → Except PyErr Bytes} {x : α} {r : List α} {b : Bytes}
    (h : concatMapE f (x :: r) = .ok b) : ∃ b1 b2, f x = .ok b1 ∧ concatMapE f r = .ok b2 ∧ b = b1 ++ b2 := by
  simp only [concatMapE] at h
  split at h
  · cases h
  · rename_i b1 h1
    split at h
    · cases h
    · rename_i b2 h2
      cases h
      exact ⟨b1, b2, h1, h2, rfl⟩

theorem recECD_ok {t : Tag} {b : Bytes} (h : recECD t = .ok b) :
    ∃ a, attrOf t true 0 0 = .ok a ∧ a.name.length + 2 < 65536 ∧ a.data.length < 65536 ∧ b = renderECD a := by
  unfold recECD at h
  split at h
  · cases h
  · rename_i a ha
    split at h
    · rename_i hc; cases h; exact ⟨a, ha, hc.1, hc.2, rfl⟩
    · cases h

/-- the loop of ExtendedContentDescriptionObject.parse accepts the rendered descriptors -/
theorem parseECDRecs_rendered (ts : List Tag) (b tail : Bytes) (h : concatMapE recECD ts = .ok b) :
    (parseECDRecs ts.length (b ++ tail)).isSome = true := by
  induction ts generalizing b with
  | nil => rfl
  | cons t r ih =>
    obtain ⟨b1, b2, h1, h2, rfl⟩ := concatMapE_cons_ok h
    obtain ⟨a, ha, hn, hd, rfl⟩ := recECD_ok h1
    obtain ⟨⟨cs, hcs, hname⟩, ht, hv, _, _⟩ := attrOf_ok ha
    have ih' := ih b2 h2
    simp only [List.length_cons, parseECDRecs]
    generalize hR : b2 ++ tail = R at ih'
    have hshape : renderECD a ++ b2 ++ tail =
        toLE 2 (a.name.length + 2) ++ ((a.name ++ nul2) ++ (toLE 2 a.typ ++ (toLE 2 a.data.length ++ (a.data ++ R)))) := by
      rw [← hR]; simp only [renderECD, List.append_assoc]
    rw [hshape]
    have l2 : ∀ n, (toLE 2 n).length = 2 := fun n => length_toLE 2 n
    have ln : (a.name ++ nul2).length = a.name.length + 2 := by simp [nul2]
    have e1 : (toLE 2 (a.name.length + 2) ++ ((a.name ++ nul2) ++ (toLE 2 a.typ ++ (toLE 2 a.data.length ++ (a.data ++ R))))).take 2 =
        toLE 2 (a.name.length + 2) := take_of_len _ _ 2 (l2 _)
    have e2 : (toLE 2 (a.name.length + 2) ++ ((a.name ++ nul2) ++ (toLE 2 a.typ ++ (toLE 2 a.data.length ++ (a.data ++ R))))).drop 2 =
        (a.name ++ nul2) ++ (toLE 2 a.typ ++ (toLE 2 a.data.length ++ (a.data ++ R))) := drop_of_len _ _ 2 (l2 _)
    have e3 : ((a.name ++ nul2) ++ (toLE 2 a.typ ++ (toLE 2 a.data.length ++ (a.data ++ R)))).take (a.name.length + 2) =
        a.name ++ nul2 := take_of_len _ _ _ ln
    have e4 : ((a.name ++ nul2) ++ (toLE 2 a.typ ++ (toLE 2 a.data.length ++ (a.data ++ R)))).drop (a.name.length + 2) =
        toLE 2 a.typ ++ (toLE 2 a.data.length ++ (a.data ++ R)) := drop_of_len _ _ _ ln
    have e5 : (toLE 2 a.typ ++ (toLE 2 a.data.length ++ (a.data ++ R))).take 2 = toLE 2 a.typ := take_of_len _ _ 2 (l2 _)
    have e6 : ((toLE 2 a.typ ++ (toLE 2 a.data.length ++ (a.data ++ R))).drop 2).take 2 = toLE 2 a.data.length := by
      rw [drop_of_len _ _ 2 (l2 _)]; exact take_of_len _ _ 2 (l2 _)
    have e7 : (toLE 2 a.typ ++ (toLE 2 a.data.length ++ (a.data ++ R))).drop 4 = a.data ++ R := by
      rw [show (4 : Nat) = 2 + 2 from rfl, ← List.drop_drop, drop_of_len _ _ 2 (l2 _)]; exact drop_of_len _ _ 2 (l2 _)
    have e8 : (a.data ++ R).take a.data.length = a.data := take_of_len _ _ _ rfl
    have e9 : (a.data ++ R).drop a.data.length = R := drop_of_len _ _ _ rfl
    have c1 : ¬ ((toLE 2 (a.name.length + 2) ++ ((a.name ++ nul2) ++ (toLE 2 a.typ ++ (toLE 2 a.data.length ++ (a.data ++ R))))).length < 2) := by
      simp [l2]
    have c2 : ¬ ((toLE 2 a.typ ++ (toLE 2 a.data.length ++ (a.data ++ R))).length < 4) := by
      simp only [List.length_append, l2]; omega
    have hdn : (decodeText (a.name ++ nul2)).isSome = true := by rw [hname]; exact decodeText_enc cs hcs
    obtain ⟨nm, hnm⟩ := Option.isSome_iff_exists.mp hdn
    obtain ⟨v, hv'⟩ := Option.isSome_iff_exists.mp hv
    obtain ⟨rest, hrest⟩ := Option.isSome_iff_exists.mp ih'
    simp only [c1, ↓reduceIte, e1, e2, ofLE_toLE 2 _ (by rw [p2]; exact hn), e3, hnm, e4, c2, e5, e6, e7,
      ofLE_toLE 2 _ (by rw [p2]; exact ht), ofLE_toLE 2 _ (by rw [p2]; exact hd), e8, hv', e9, hrest, Option.map_some, Option.isSome_some]

theorem listPayload_ok {rec : Tag → Except PyErr Bytes} {ts : List Tag} {b : Bytes} (h : listPayload rec ts = .ok b) :
    ∃ data, concatMapE rec ts = .ok data ∧ ts.length < 65536 ∧ b = toLE 2 ts.length ++ data := by
  unfold listPayload at h
  split at h
  · cases h
  · rename_i data hd
    split at h
    · rename_i hl; cases h; exact ⟨data, hd, hl, rfl⟩
    · cases h

theorem parseECD_rendered (ts : List Tag) (b : Bytes) (h : listPayload recECD ts = .ok b) : (parseECD b).isSome = true := by
  obtain ⟨data, hd, hl, rfl⟩ := listPayload_ok h
  unfold parseECD
  have l2 : (toLE 2 ts.length).length = 2 := length_toLE 2 _
  rw [if_neg (by simp [l2]), take_of_len _ _ 2 l2, drop_of_len _ _ 2 l2, ofLE_toLE 2 _ (by rw [p2]; exact hl)]
  have := parseECDRecs_rendered ts data [] hd
  rwa [List.append_nil] at this

theorem recM_ok {t : Tag} {b : Bytes} (h : recM t = .ok b) :
    ∃ a, attrOf t false 0 (t.stream.getD 0) = .ok a ∧ a.language < 65536 ∧ a.stream < 65536 ∧ a.name.length + 2 < 65536 ∧
      a.data.length < 4294967296 ∧ b = renderML a := by
  unfold recM at h
  split at h
  · cases h
  · rename_i a ha
    split at h
    · rename_i hc; cases h
      have := (attrOf_ok ha).2.2.2.1
      exact ⟨a, ha, by rw [this]; decide, hc.1, hc.2.1, hc.2.2, rfl⟩
    · cases h

theorem recML_ok {t : Tag} {b : Bytes} (h : recML t = .ok b) :
    ∃ a, attrOf t false (t.language.getD 0) (t.stream.getD 0) = .ok a ∧ a.language < 65536 ∧ a.stream < 65536 ∧
      a.name.length + 2 < 65536 ∧ a.data.length < 4294967296 ∧ b = renderML a := by
  unfold recML at h
  split at h
  · cases h
  · rename_i a ha
    split at h
    · rename_i hc; cases h
      exact ⟨a, ha, hc.1, hc.2.1, hc.2.2.1, hc.2.2.2, rfl⟩
    · cases h

/-- one round of the Metadata / Metadata Library parse loop on a rendered record -/
theorem parseMLRecs_step (lib : Bool) (n : Nat) (a : Attr) (R : Bytes)
    (hlang : a.language < 65536) (hstream : a.stream < 65536) (hn : a.name.length + 2 < 65536) (ht : a.typ < 65536)
    (hd : a.data.length < 4294967296) (hname : (decodeText (a.name ++ nul2)).isSome = true)
    (hv : (parseVal a.typ a.data false).isSome = true) (ih : (parseMLRecs lib n R).isSome = true) :
    (parseMLRecs lib (n + 1) (renderML a ++ R)).isSome = true := by
  simp only [parseMLRecs]
  generalize hT : (a.name ++ nul2) ++ (a.data ++ R) = T
  have hshape : renderML a ++ R =
      toLE 2 a.language ++ (toLE 2 a.stream ++ (toLE 2 (a.name.length + 2) ++ (toLE 2 a.typ ++ (toLE 4 a.data.length ++ T)))) := by
    rw [← hT]; simp only [renderML, List.append_assoc]
  rw [hshape]
  have l2 : ∀ n, (toLE 2 n).length = 2 := fun n => length_toLE 2 n
  have l4 : ∀ n, (toLE 4 n).length = 4 := fun n => length_toLE 4 n
  have ln : (a.name ++ nul2).length = a.name.length + 2 := by simp [nul2]
  generalize hD : toLE 2 a.language ++ (toLE 2 a.stream ++ (toLE 2 (a.name.length + 2) ++ (toLE 2 a.typ ++ (toLE 4 a.data.length ++ T)))) = D
  have d2 : D.drop 2 = toLE 2 a.stream ++ (toLE 2 (a.name.length + 2) ++ (toLE 2 a.typ ++ (toLE 4 a.data.length ++ T))) := by
    rw [← hD]; exact drop_of_len _ _ 2 (l2 _)
  have d4 : D.drop 4 = toLE 2 (a.name.length + 2) ++ (toLE 2 a.typ ++ (toLE 4 a.data.length ++ T)) := by
    rw [show (4 : Nat) = 2 + 2 from rfl, ← List.drop_drop, d2]; exact drop_of_len _ _ 2 (l2 _)
  have d6 : D.drop 6 = toLE 2 a.typ ++ (toLE 4 a.data.length ++ T) := by
    rw [show (6 : Nat) = 4 + 2 from rfl, ← List.drop_drop, d4]; exact drop_of_len _ _ 2 (l2 _)
  have d8 : D.drop 8 = toLE 4 a.data.length ++ T := by
    rw [show (8 : Nat) = 6 + 2 from rfl, ← List.drop_drop, d6]; exact drop_of_len _ _ 2 (l2 _)
  have d12 : D.drop 12 = T := by
    rw [show (12 : Nat) = 8 + 4 from rfl, ← List.drop_drop, d8]; exact drop_of_len _ _ 4 (l4 _)
  have t0 : D.take 2 = toLE 2 a.language := by rw [← hD]; exact take_of_len _ _ 2 (l2 _)
  have t2 : (D.drop 2).take 2 = toLE 2 a.stream := by rw [d2]; exact take_of_len _ _ 2 (l2 _)
  have t4 : (D.drop 4).take 2 = toLE 2 (a.name.length + 2) := by rw [d4]; exact take_of_len _ _ 2 (l2 _)
  have t6 : (D.drop 6).take 2 = toLE 2 a.typ := by rw [d6]; exact take_of_len _ _ 2 (l2 _)
  have t8 : (D.drop 8).take 4 = toLE 4 a.data.length := by rw [d8]; exact take_of_len _ _ 4 (l4 _)
  have lD : D.length = 12 + T.length := by
    rw [← hD]; simp only [List.length_append, l2, l4]; omega
  have n1 : T.take (a.name.length + 2) = a.name ++ nul2 := by rw [← hT]; exact take_of_len _ _ _ ln
  have n2 : T.drop (a.name.length + 2) = a.data ++ R := by rw [← hT]; exact drop_of_len _ _ _ ln
  have v1 : (a.data ++ R).take a.data.length = a.data := take_of_len _ _ _ rfl
  have v2 : (a.data ++ R).drop a.data.length = R := drop_of_len _ _ _ rfl
  have c1 : ¬ (D.length < 12) := by omega
  obtain ⟨nm, hnm⟩ := Option.isSome_iff_exists.mp hname
  obtain ⟨v, hv'⟩ := Option.isSome_iff_exists.mp hv
  obtain ⟨rest, hrest⟩ := Option.isSome_iff_exists.mp ih
  simp only [c1, ↓reduceIte, t0, t2, t4, t6, t8, d12, ofLE_toLE 2 _ (by rw [p2]; exact hlang),
    ofLE_toLE 2 _ (by rw [p2]; exact hstream), ofLE_toLE 2 _ (by rw [p2]; exact hn), ofLE_toLE 2 _ (by rw [p2]; exact ht),
    ofLE_toLE 4 _ (by rw [p4]; exact hd), n1, hnm, n2, v1, hv', v2, hrest, Option.map_some, Option.isSome_some]

/-- the loops of MetadataObject.parse / MetadataLibraryObject.parse accept the rendered records -/
theorem parseMLRecs_rendered (lib : Bool) (rec : Tag → Except PyErr Bytes)
    (hrec : ∀ t b, rec t = .ok b → ∃ a lang stream, attrOf t false lang stream = .ok a ∧ a.language < 65536 ∧ a.stream < 65536 ∧
      a.name.length + 2 < 65536 ∧ a.data.length < 4294967296 ∧ b = renderML a)
    (ts : List Tag) (b tail : Bytes) (h : concatMapE rec ts = .ok b) :
    (parseMLRecs lib ts.length (b ++ tail)).isSome = true := by
  induction ts generalizing b with
  | nil => rfl
  | cons t r ih =>
    obtain ⟨b1, b2, h1, h2, rfl⟩ := concatMapE_cons_ok h
    obtain ⟨a, lang, stream, ha, hl, hs, hn, hd, rfl⟩ := hrec t b1 h1
    obtain ⟨⟨cs, hcs, hname⟩, ht, hv, _, _⟩ := attrOf_ok ha
    rw [List.append_assoc, List.length_cons]
    exact parseMLRecs_step lib r.length a (b2 ++ tail) hl hs hn ht hd (by rw [hname]; exact decodeText_enc cs hcs) hv (ih b2 h2)

theorem parseML_rendered (lib : Bool) (rec : Tag → Except PyErr Bytes)
    (hrec : ∀ t b, rec t = .ok b → ∃ a lang stream, attrOf t false lang stream = .ok a ∧ a.language < 65536 ∧ a.stream < 65536 ∧
      a.name.length + 2 < 65536 ∧ a.data.length < 4294967296 ∧ b = renderML a)
    (ts : List Tag) (b : Bytes) (h : listPayload rec ts = .ok b) : (parseML lib b).isSome = true := by
  obtain ⟨data, hd, hl, rfl⟩ := listPayload_ok h
  unfold parseML
  have l2 : (toLE 2 ts.length).length = 2 := length_toLE 2 _
  rw [if_neg (by simp [l2]), take_of_len _ _ 2 l2, drop_of_len _ _ 2 l2, ofLE_toLE 2 _ (by rw [p2]; exact hl)]
  have := parseMLRecs_rendered lib rec hrec ts data [] hd
  rwa [List.append_nil] at this

/-- a text field of the Content Description Object: absent, or encodable text with its terminator -/
def TextOK (t : Bytes) : Prop := t = [] ∨ ∃ cs, cs.all isScalar = true ∧ t = encodeUtf16 cs ++ nul2

theorem cdText_ok {d : Dist} {n : List Nat} {t : Bytes} (h : cdText d n = .ok t) : TextOK t := by
  unfold cdText at h
  split at h
  · cases h; exact Or.inl rfl
  · rename_i tg _
    split at h
    · rename_i cs _
      split at h
      · cases h
      · rename_i b hb
        cases h
        obtain ⟨hc, rfl⟩ := encodeStr_ok hb
        exact Or.inr ⟨cs, hc, rfl⟩
    · cases h

theorem cdTexts_ok {d : Dist} (names : List (List Nat)) {ts : List Bytes} (h : cdTexts d names = .ok ts) :
    ts.length = names.length ∧ ∀ t ∈ ts, TextOK t := by
  induction names generalizing ts with
  | nil => simp only [cdTexts] at h; cases h; exact ⟨rfl, fun t ht => by cases ht⟩
  | cons n r ih =>
    simp only [cdTexts] at h
    split at h
    · cases h
    · rename_i t ht
      split at h
      · cases h
      · rename_i ts' hts
        cases h
        obtain ⟨hl, hall⟩ := ih hts
        refine ⟨by simp [hl], ?_⟩
        intro x hx
        rcases List.mem_cons.mp hx with rfl | hx
        · exact cdText_ok ht
        · exact hall x hx

theorem parseCDTexts_ok (ts : List Bytes) (h : ∀ t ∈ ts, TextOK t) (tail : Bytes) :
    (parseCDTexts (ts.map List.length) (ts.flatten ++ tail)).isSome = true := by
  induction ts with
  | nil => rfl
  | cons t r ih =>
    have ih' := ih (fun x hx => h x (List.mem_cons_of_mem _ hx))
    obtain ⟨rest, hrest⟩ := Option.isSome_iff_exists.mp ih'
    rcases h t List.mem_cons_self with rfl | ⟨cs, hcs, rfl⟩
    · simp only [List.map_cons, List.length_nil, parseCDTexts, Nat.lt_irrefl, gt_iff_lt, ↓reduceIte, List.flatten_cons,
        List.nil_append, hrest, Option.map_some, Option.isSome_some]
    · have hpos : (encodeUtf16 cs ++ nul2).length > 0 := by simp [nul2]
      obtain ⟨nm, hnm⟩ := Option.isSome_iff_exists.mp (decodeText_enc cs hcs)
      generalize encodeUtf16 cs ++ nul2 = T at hpos hnm
      simp only [List.map_cons, parseCDTexts, hpos, ↓reduceIte, List.flatten_cons, List.append_assoc]
      rw [take_of_len _ _ _ rfl, hnm, drop_of_len _ _ _ rfl, hrest]
      rfl

/-- ContentDescriptionObject.parse accepts what ContentDescriptionObject.render wrote -/
theorem parseCD_rendered (d : Dist) (b : Bytes) (h : cdPayload d = .ok b) : (parseCD b).isSome = true := by
  unfold cdPayload at h
  split at h
  · cases h
  · rename_i ts hts
    split at h
    · rename_i hall
      cases h
      obtain ⟨hlen, hok⟩ := cdTexts_ok cdNames hts
      have h5 : ts.length = 5 := hlen
      match ts, h5, hall, hok with
      | [t1, t2, t3, t4, t5], _, hall, hok =>
        simp only [List.all_cons, List.all_nil, Bool.and_true, Bool.and_eq_true, decide_eq_true_eq] at hall
        obtain ⟨a1, a2, a3, a4, a5⟩ := hall
        have l2 : ∀ n, (toLE 2 n).length = 2 := fun n => length_toLE 2 n
        have hshape : (([t1, t2, t3, t4, t5].map fun t => toLE 2 t.length).flatten ++ [t1, t2, t3, t4, t5].flatten) =
            toLE 2 t1.length ++ (toLE 2 t2.length ++ (toLE 2 t3.length ++ (toLE 2 t4.length ++ (toLE 2 t5.length ++
              ([t1, t2, t3, t4, t5].flatten))))) := by
          simp only [List.map_cons, List.map_nil, List.flatten_cons, List.flatten_nil, List.append_nil, List.append_assoc]
        rw [hshape]
        generalize hF : [t1, t2, t3, t4, t5].flatten = F
        generalize hD : toLE 2 t1.length ++ (toLE 2 t2.length ++ (toLE 2 t3.length ++ (toLE 2 t4.length ++ (toLE 2 t5.length ++ F)))) = D
        have d2 : D.drop 2 = toLE 2 t2.length ++ (toLE 2 t3.length ++ (toLE 2 t4.length ++ (toLE 2 t5.length ++ F))) := by
          rw [← hD]; exact drop_of_len _ _ 2 (l2 _)
        have d4 : D.drop 4 = toLE 2 t3.length ++ (toLE 2 t4.length ++ (toLE 2 t5.length ++ F)) := by
          rw [show (4 : Nat) = 2 + 2 from rfl, ← List.drop_drop, d2]; exact drop_of_len _ _ 2 (l2 _)
        have d6 : D.drop 6 = toLE 2 t4.length ++ (toLE 2 t5.length ++ F) := by
          rw [show (6 : Nat) = 4 + 2 from rfl, ← List.drop_drop, d4]; exact drop_of_len _ _ 2 (l2 _)
        have d8 : D.drop 8 = toLE 2 t5.length ++ F := by
          rw [show (8 : Nat) = 6 + 2 from rfl, ← List.drop_drop, d6]; exact drop_of_len _ _ 2 (l2 _)
        have d10 : D.drop 10 = F := by
          rw [show (10 : Nat) = 8 + 2 from rfl, ← List.drop_drop, d8]; exact drop_of_len _ _ 2 (l2 _)
        have t0 : D.take 2 = toLE 2 t1.length := by rw [← hD]; exact take_of_len _ _ 2 (l2 _)
        have t2' : (D.drop 2).take 2 = toLE 2 t2.length := by rw [d2]; exact take_of_len _ _ 2 (l2 _)
        have t4' : (D.drop 4).take 2 = toLE 2 t3.length := by rw [d4]; exact take_of_len _ _ 2 (l2 _)
        have t6' : (D.drop 6).take 2 = toLE 2 t4.length := by rw [d6]; exact take_of_len _ _ 2 (l2 _)
        have t8' : (D.drop 8).take 2 = toLE 2 t5.length := by rw [d8]; exact take_of_len _ _ 2 (l2 _)
        have lD : ¬ (D.length < 10) := by rw [← hD]; simp only [List.length_append, l2]; omega
        unfold parseCD
        rw [if_neg lD]
        have hr : List.range 5 = [0, 1, 2, 3, 4] := by decide
        have hlens : ((List.range 5).map fun i => ofLE ((D.drop (2 * i)).take 2)) =
            [t1, t2, t3, t4, t5].map List.length := by
          rw [hr]
          simp only [List.map_cons, List.map_nil, Nat.mul_zero, List.drop_zero, Nat.mul_one, t0, t2', t4', t6', t8',
            show 2 * 2 = 4 from rfl, show 2 * 3 = 6 from rfl, show 2 * 4 = 8 from rfl,
            ofLE_toLE 2 _ (by rw [p2]; exact a1), ofLE_toLE 2 _ (by rw [p2]; exact a2), ofLE_toLE 2 _ (by rw [p2]; exact a3),
            ofLE_toLE 2 _ (by rw [p2]; exact a4), ofLE_toLE 2 _ (by rw [p2]; exact a5)]
        simp only [hlens, d10]
        have := parseCDTexts_ok [t1, t2, t3, t4, t5] hok []
        rw [List.append_nil, hF] at this
        obtain ⟨texts, htexts⟩ := Option.isSome_iff_exists.mp this
        rw [htexts]
        rfl
    · cases h

/-- what `save` renders, `load` accepts -/
theorem renders_parses (d : Dist) (P : Payloads) (h : Renders d P) : P.Parses := by
  refine ⟨parseCD_rendered d _ h.cd, parseECD_rendered _ _ h.ecd, ?_, ?_⟩
  · apply parseML_rendered false recM _ d.mo _ h.mo
    intro t b hb
    obtain ⟨a, ha, h1, h2, h3, h4, h5⟩ := recM_ok hb
    exact ⟨a, _, _, ha, h1, h2, h3, h4, h5⟩
  · apply parseML_rendered true recML _ d.ml _ h.ml
    intro t b hb
    obtain ⟨a, ha, h1, h2, h3, h4, h5⟩ := recML_ok hb
    exact ⟨a, _, _, ha, h1, h2, h3, h4, h5⟩

/-! ### saving twice, deleting twice, saving after a delete -/

/-- two saves through one `ASF` object (`q`: the padding the second callback answers) -/
theorem saveTwice_layout (L : Layout) (h : L.OK) (tags : List Tag) (d : Dist) (hd : distribute tags = .ok d) (P : Payloads)
    (hP : Renders d P) (pad1 pad2 : PadChoice) (hf : L.Fits P (newPadding L P pad1)) (q : Nat)
    (hq : (getPadding pad2 ((newPadding L P pad1 : Nat) : Int) L.rest.length).toNat = q) (hfq : L.Fits P q) :
    saveTwice L.render tags pad1 tags pad2 = .ok ((L.after P (newPadding L P pad1)).render, (L.after P q).render) := by
  unfold saveTwice
  rw [parseFull_layout L h]
  simp only [(save_layout L h tags d hd P hP pad1 hf).1, saveTree_again L h tags d hd P hP _ hf pad2 q hq hfq]

/-- a save of the saved file (loaded again) with the same tags (`q`: the padding the callback answers) -/
theorem save_after_save (L : Layout) (h : L.OK) (tags : List Tag) (d : Dist) (hd : distribute tags = .ok d) (P : Payloads)
    (hP : Renders d P) (p : Nat) (hf : L.Fits P p) (pad : PadChoice) (q : Nat)
    (hq : (getPadding pad (p : Int) L.rest.length).toNat = q) (hfq : L.Fits P q) :
    save (L.after P p).render tags pad = .ok (L.after P q).render := by
  have hok := after_OK' L h P (renders_parses d P hP) p hf
  have hnp : newPadding (L.after P p) P pad = q := by rw [newPadding_after L h]; exact hq
  have := (save_layout (L.after P p) hok tags d hd P hP pad (by rw [hnp]; exact Layout.Fits.after h hfq)).2
  rw [this, hnp, after_after L h]

theorem flatten_map_nil {α β : Type} (f : α → List β) (l : List α) (h : ∀ x ∈ l, f x = []) : (l.map f).flatten = [] := by
  induction l with
  | nil => rfl
  | cons x r ih =>
    simp only [List.map_cons, List.flatten_cons, h x List.mem_cons_self, List.nil_append]
    exact ih (fun y hy => h y (List.mem_cons_of_mem _ hy))

/-- a metadata object that holds no tags (the payloads `delete` writes), or an object that is not one -/
def Leaf.Empty : Leaf → Prop
  | .raw _ _ => True
  | .cd d => d = emptyPayloads.cd
  | .ecd d => d = emptyPayloads.ecd
  | .mo d => d = emptyPayloads.mo
  | .metaLib d => d = emptyPayloads.ml

theorem leaves_append (a b : List Obj) : leaves (a ++ b) = leaves a ++ leaves b := by
  induction a with
  | nil => rfl
  | cons o r ih => cases o <;> simp [leaves, ih]

theorem leaves_kept_empty (items : List Item) : ∀ l ∈ leaves ((items.map (Item.re emptyPayloads)).map Item.toObj), l.Empty := by
  induction items with
  | nil => intro l hl; cases hl
  | cons i r ih =>
    intro l hl
    cases i with
    | foreign o =>
      simp only [List.map_cons, Item.re, Item.toObj, leaves, List.mem_cons] at hl
      rcases hl with rfl | hl
      · trivial
      · exact ih l hl
    | pad x =>
      simp only [List.map_cons, Item.re, Item.toObj, leaves, List.mem_cons] at hl
      rcases hl with rfl | hl
      · trivial
      · exact ih l hl
    | cd x =>
      simp only [List.map_cons, Item.re, Item.toObj, leaves, List.mem_cons] at hl
      rcases hl with rfl | hl
      · rfl
      · exact ih l hl
    | ecd x =>
      simp only [List.map_cons, Item.re, Item.toObj, leaves, List.mem_cons] at hl
      rcases hl with rfl | hl
      · rfl
      · exact ih l hl
    | ext subs =>
      simp only [List.map_cons, Item.re, Item.toObj, leaves, List.mem_append] at hl
      rcases hl with hl | hl
      · simp only [subsRe, List.mem_map] at hl
        obtain ⟨s, ⟨s0, _, rfl⟩, rfl⟩ := hl
        cases s0 <;> first | trivial | rfl
      · exact ih l hl

theorem leaves_patch_empty (t : Nat) (items : List Item) (h : ∀ l ∈ leaves (items.map Item.toObj), l.Empty) :
    ∀ l ∈ leaves ((patchFP t items).map Item.toObj), l.Empty := by
  induction items with
  | nil => intro l hl; cases hl
  | cons i r ih =>
    by_cases hi : i.isFP = true
    · cases i with
      | foreign o =>
        intro l hl
        simp only [patchFP, hi, ↓reduceIte, Item.setFileSize, List.map_cons, Item.toObj, leaves, List.mem_cons] at hl
        rcases hl with rfl | hl
        · trivial
        · exact h l (by simp only [List.map_cons, Item.toObj, leaves, List.mem_cons]; exact Or.inr hl)
      | cd d => rw [cd_not_FP] at hi; cases hi
      | ecd d => rw [ecd_not_FP] at hi; cases hi
      | pad d => rw [pad_not_FP] at hi; cases hi
      | ext s => rw [ext_not_FP] at hi; cases hi
    · have hi' : i.isFP = false := by simpa using hi
      simp only [patchFP, hi', Bool.false_eq_true, ↓reduceIte]
      have hsplit : ∀ (x : Item) (xs : List Item), leaves ((x :: xs).map Item.toObj) = leaves [x.toObj] ++ leaves (xs.map Item.toObj) := by
        intro x xs
        rw [List.map_cons, show x.toObj :: xs.map Item.toObj = [x.toObj] ++ xs.map Item.toObj from rfl, leaves_append]
      intro l hl
      rw [hsplit] at hl
      rcases List.mem_append.mp hl with hl | hl
      · exact h l (by rw [hsplit]; exact List.mem_append.mpr (Or.inl hl))
      · exact ih (fun x hx => h x (by rw [hsplit]; exact List.mem_append.mpr (Or.inr hx))) l hl

/-- after a delete the file loads and has no tags -/
theorem loadedTags_after_delete (L : Layout) : loadedTags ((L.after emptyPayloads 0).top.map Item.toObj) = [] := by
  have hall0 : ∀ l ∈ leaves ((L.after0 emptyPayloads 0).top.map Item.toObj), l.Empty := by
    intro l hl
    simp only [Layout.after0, List.map_append, leaves_append, List.mem_append] at hl
    rcases hl with hl | hl
    · exact leaves_kept_empty _ l hl
    · simp only [List.map_cons, List.map_nil, Item.toObj, leaves, List.mem_cons, List.not_mem_nil, or_false] at hl
      subst hl; trivial
  have hall : ∀ l ∈ leaves ((L.after emptyPayloads 0).top.map Item.toObj), l.Empty :=
    leaves_patch_empty _ _ hall0
  unfold loadedTags
  simp only []
  rw [flatten_map_nil, flatten_map_nil, flatten_map_nil, flatten_map_nil]
  · rfl
  · intro l hl
    have := hall l hl
    cases l with
    | metaLib d => simp only [Leaf.Empty] at this; subst this; decide
    | raw g d => rfl
    | cd d => rfl
    | ecd d => rfl
    | mo d => rfl
  · intro l hl
    have := hall l hl
    cases l with
    | mo d => simp only [Leaf.Empty] at this; subst this; decide
    | raw g d => rfl
    | cd d => rfl
    | ecd d => rfl
    | metaLib d => rfl
  · intro l hl
    have := hall l hl
    cases l with
    | ecd d => simp only [Leaf.Empty] at this; subst this; decide
    | raw g d => rfl
    | cd d => rfl
    | mo d => rfl
    | metaLib d => rfl
  · intro l hl
    have := hall l hl
    cases l with
    | cd d => simp only [Leaf.Empty] at this; subst this; decide
    | raw g d => rfl
    | ecd d => rfl
    | mo d => rfl
    | metaLib d => rfl

/-- the Header Extension Object's data size field is the extent of its children, which follow it -/
theorem ext_datasize (subs : List SubItem) (h : (renderObjects (subs.map SubItem.toObject)).length < 2 ^ 32) :
    ofLE (((Item.ext subs).toObject.data.drop 18).take 4) = (renderObjects (subs.map SubItem.toObject)).length ∧
      (Item.ext subs).toObject.data.drop 22 = renderObjects (subs.map SubItem.toObject) := by
  simp only [Item.toObject, extPayload]
  have h18 : extReserved.length = 18 := rfl
  constructor
  · rw [List.append_assoc, drop_of_len _ _ 18 h18, take_of_len _ _ 4 (length_toLE 4 _)]
    exact ofLE_toLE 4 _ (by rw [p4']; exact h)
  · exact drop_of_len _ _ 22 (by simp [h18])

/-! ### the fuel of the Header Extension loop is enough -/

theorem leafOf_no_diverge (g d : Bytes) : leafOf g d ≠ .error .diverge := by
  unfold leafOf
  repeat' split
  all_goals (intro h; cases h)

/-- with at least one round of fuel left and `fuel + datapos > len(data)`, the loop never runs out -/
theorem extLoop_no_diverge (data : Bytes) (ds : Nat) (fuel datapos : Nat) (h1 : 1 ≤ fuel) (h2 : data.length + 1 ≤ datapos + fuel) :
    extLoop data ds fuel datapos ≠ .error .diverge := by
  induction fuel generalizing datapos with
  | zero => omega
  | succ fuel ih =>
    unfold extLoop
    split
    · simp only []
      split
      · intro h; cases h
      · rename_i hlen
        split
        · intro h; cases h
        · rename_i hsize
          split
          · intro h; cases h
          · split
            · rename_i e he
              intro h
              cases h
              exact leafOf_no_diverge _ _ he
            · rename_i l hl
              have hd : 22 + datapos + 24 ≤ data.length := by
                simp only [List.length_take, List.length_drop] at hlen; omega
              have := ih (datapos + ofLE (List.drop 16 (List.take 24 (List.drop (22 + datapos) data)))) (by omega) (by omega)
              split
              · rename_i e he
                intro h; cases h; exact this he
              · intro h; cases h
    · intro h; cases h

theorem parseExt_no_diverge (data : Bytes) : parseExt data ≠ .error .diverge := by
  unfold parseExt
  simp only []
  split
  · intro h; cases h
  · exact extLoop_no_diverge data _ _ 0 (by omega) (by omega)

theorem objOf_no_diverge (g d : Bytes) : objOf g d ≠ .error .diverge := by
  unfold objOf
  split
  · split
    · rename_i e he; intro h; cases h; exact parseExt_no_diverge _ he
    · intro h; cases h
  · split
    · rename_i e he; intro h; cases h; exact leafOf_no_diverge _ _ he
    · intro h; cases h

theorem parseObjects_no_diverge (f : Bytes) (n pos rem : Nat) : parseObjects f n pos rem ≠ .error .diverge := by
  induction n generalizing pos rem with
  | zero => intro h; cases h
  | succ n ih =>
    unfold parseObjects
    simp only []
    repeat' split
    all_goals first
      | (intro h; cases h; done)
      | (rename_i e he; intro h; cases h; first | exact objOf_no_diverge _ _ he | exact ih _ _ he)

/-- loading never reports `diverge`: the model's loop bounds cover every input -/
theorem parseFull_no_diverge (f : Bytes) : parseFull f ≠ .error .diverge := by
  unfold parseFull
  split
  · rename_i e he
    intro h; cases h
    unfold parseSize at he
    simp only [] at he
    split at he <;> cases he
  · exact parseObjects_no_diverge _ _ _ _

/-! ### the layout conditions are decidable (for the examples) -/

instance (o : Object) : Decidable (ForeignOK o) := by unfold ForeignOK; infer_instance

instance (s : SubItem) : Decidable s.OK := by
  cases s <;> simp only [SubItem.OK] <;> infer_instance

instance (i : Item) : Decidable i.OK := by
  cases i <;> simp only [Item.OK] <;> infer_instance

instance (L : Layout) : Decidable L.OK :=
  decidable_of_iff ((∀ i ∈ L.top, i.OK) ∧ L.top.length < 2 ^ 32 ∧ L.headerLen < 2 ^ 64)
    ⟨fun h => ⟨h.1, h.2.1, h.2.2⟩, fun h => ⟨h.items, h.count, h.size⟩⟩

instance (d : Dist) (P : Payloads) : Decidable (Renders d P) :=
  decidable_of_iff (cdPayload d = .ok P.cd ∧ listPayload recECD d.ecd = .ok P.ecd ∧ listPayload recM d.mo = .ok P.mo ∧
      listPayload recML d.ml = .ok P.ml)
    ⟨fun h => ⟨h.1, h.2.1, h.2.2.1, h.2.2.2⟩, fun h => ⟨h.cd, h.ecd, h.mo, h.ml⟩⟩

instance (i : Item) : Decidable i.extFits := by
  cases i <;> simp only [Item.extFits] <;> infer_instance

instance (items : List Item) : Decidable (ExtFits items) := by unfold ExtFits; infer_instance

instance (L : Layout) (P : Payloads) (p : Nat) : Decidable (L.Fits P p) :=
  decidable_of_iff (ExtFits (keptTop P L.top) ∧ (keptTop P L.top).length + 1 < 2 ^ 32 ∧ neededLen P L.top + p + L.rest.length < 2 ^ 64)
    ⟨fun h => ⟨h.1, h.2.1, h.2.2⟩, fun h => ⟨h.ext, h.count, h.file⟩⟩

/-! ### a small instance for the `example`s of the property files -/

/-- File Properties, Content Description, a Padding Object, a Header Extension holding a foreign
object, a Metadata Object and padding; three bytes behind the header -/
def exLayout : Layout :=
  ⟨[.foreign ⟨gFileProps, zeros 80⟩, .cd (zeros 10), .pad (zeros 7),
    .ext [.foreign ⟨gStreamProps, [1, 2, 3]⟩, .mo [0, 0], .pad (zeros 5)]], [9, 9, 9]⟩

/-- Title = "hi"; f = 7 (DWORD); f = True on stream 1; Title = "x" with language 0 -/
def exTags : List Tag :=
  [⟨[84, 105, 116, 108, 101], .unicode [104, 105], none, none⟩, ⟨[102], .dword 7, none, none⟩,
   ⟨[102], .bool true, none, some 1⟩, ⟨[84, 105, 116, 108, 101], .unicode [120], some 0, none⟩]

def exDist : Dist :=
  ⟨[⟨[84, 105, 116, 108, 101], .unicode [104, 105], none, none⟩], [⟨[102], .dword 7, none, none⟩],
   [⟨[102], .bool true, none, some 1⟩], [⟨[84, 105, 116, 108, 101], .unicode [120], some 0, none⟩]⟩

def exPayloads : Payloads :=
  ⟨[6, 0, 0, 0, 0, 0, 0, 0, 0, 0, 104, 0, 105, 0, 0, 0],
   [1, 0, 4, 0, 102, 0, 0, 0, 3, 0, 4, 0, 7, 0, 0, 0],
   [1, 0, 0, 0, 1, 0, 4, 0, 2, 0, 2, 0, 0, 0, 102, 0, 0, 0, 1, 0],
   [1, 0, 0, 0, 0, 0, 12, 0, 0, 0, 4, 0, 0, 0, 84, 0, 105, 0, 116, 0, 108, 0, 101, 0, 0, 0, 120, 0, 0, 0]⟩

end Mutagen.Asf
