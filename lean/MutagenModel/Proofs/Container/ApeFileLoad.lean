/-
Proofs/Container/ApeFileLoad.lean — `APEv2(fileobj)` as a program (Model/Container/ApeFileLoadM.lean): it never writes,
and what it can raise in ANY environment.
-/
import MutagenModel.Model.Container.ApeFileLoadM
import MutagenModel.Proofs.Container.ApeFileCap
import MutagenModel.Proofs.Container.Id3FileLoad
set_option linter.unusedVariables false
set_option linter.unusedSimpArgs false
namespace Mutagen.ApeF
open Mutagen
open Mutagen.Id3F (NoWrite)

theorem nw_fseekFromEnd (off : Nat) : NoWrite (fseekFromEnd off) :=
  NoWrite.bind (NoWrite.tick _) fun _ => by intro e s r s' h; simp only [Prod.mk.injEq] at h; rw [← h.2]
theorem nw_fseekRel (k : Int) : NoWrite (fseekRel k) := by
  intro e s r s' h; exact NoWrite.fseek _ e s r s' h

theorem NoWrite.tryFinally {body : FileM α} {fin : FileM Unit} (hb : NoWrite body) (hf : NoWrite fin) :
    NoWrite (tryFinally body fin) := by
  intro e s r s' h
  unfold Mutagen.tryFinally at h
  cases hbs : body e s with
  | mk r1 s1 =>
    rw [hbs] at h
    have h1 := hb e s r1 s1 hbs
    cases hfs : fin e s1 with
    | mk r2 s2 =>
      have h2 := hf e s1 r2 s2 hfs
      cases r1 <;> cases r2 <;> (simp only [hfs, Prod.mk.injEq] at h; rw [← h.2, h2, h1])

theorem nw_getSize : NoWrite getSize :=
  NoWrite.bind NoWrite.ftell fun _ =>
    NoWrite.tryFinally (NoWrite.bind NoWrite.fseekEnd fun _ => NoWrite.ftell) (NoWrite.fseek _)

theorem nw_seekBack (off : Int) : NoWrite (seekBack off) := by
  unfold seekBack
  apply NoWrite.bind NoWrite.ftell; intro p
  split
  · exact NoWrite.raise _
  · exact nw_fseekRel _

theorem nw_readIsApe : NoWrite readIsApe := NoWrite.bind (NoWrite.fread _) fun _ => NoWrite.pure _
theorem nw_backTell : NoWrite backTell := NoWrite.bind (nw_fseekRel _) fun _ => NoWrite.ftell

theorem nw_viaV1M : NoWrite viaV1M := by
  unfold viaV1M
  apply NoWrite.bind nw_getSize; intro sz
  split
  · exact NoWrite.raise _
  · apply NoWrite.bind (nw_fseekFromEnd _); intro _
    apply NoWrite.bind (NoWrite.fread _); intro t
    split
    · exact NoWrite.pure _
    · apply NoWrite.bind (nw_seekBack _); intro _
      apply NoWrite.bind nw_readIsApe; intro a
      split
      · exact NoWrite.bind nw_backTell fun _ => NoWrite.pure _
      · apply NoWrite.bind (nw_fseekRel _); intro _
        apply NoWrite.bind (NoWrite.fread _); intro l
        split
        · exact NoWrite.pure _
        · apply NoWrite.bind (nw_fseekRel _); intro _
          apply NoWrite.bind (NoWrite.fread _); intro d
          split
          · exact NoWrite.raise _
          · apply NoWrite.bind (nw_seekBack _); intro _
            apply NoWrite.bind nw_readIsApe; intro b
            split
            · exact NoWrite.bind nw_backTell fun _ => NoWrite.pure _
            · exact NoWrite.pure _

theorem nw_findMetadataM : NoWrite findMetadataM := by
  unfold findMetadataM
  apply NoWrite.bind NoWrite.fseekEnd; intro _
  apply NoWrite.bind
  · exact NoWrite.tryCatch (NoWrite.bind (nw_seekBack _) fun _ => NoWrite.pure _)
      (fun _ => NoWrite.pure _)
  · intro sought
    split
    · exact NoWrite.pure _
    · apply NoWrite.bind nw_readIsApe; intro a
      split
      · exact NoWrite.bind nw_backTell fun _ => NoWrite.pure _
      · apply NoWrite.bind (NoWrite.tryCatch nw_viaV1M fun _ => NoWrite.pure _); intro r
        split
        · exact NoWrite.pure _
        · exact NoWrite.bind (NoWrite.fseek _) fun _ => NoWrite.bind nw_readIsApe fun _ => NoWrite.pure _

theorem nw_fixBrokenM (fuel start : Nat) : NoWrite (fixBrokenM fuel start) := by
  induction fuel generalizing start with
  | zero => exact NoWrite.pure _
  | succ n ih =>
    unfold fixBrokenM
    split
    · exact NoWrite.pure _
    · apply NoWrite.bind
      · exact NoWrite.tryCatch (NoWrite.bind (nw_seekBack _) fun _ => NoWrite.pure _) (fun _ => NoWrite.pure _)
      · intro moved
        split
        · exact NoWrite.pure _
        · apply NoWrite.bind nw_readIsApe; intro a
          split
          · exact NoWrite.bind nw_backTell fun p => ih p
          · exact NoWrite.pure _

theorem nw_locateTagM : NoWrite locateTagM := by
  unfold locateTagM
  apply NoWrite.bind nw_findMetadataM; intro m
  split
  · exact NoWrite.pure _
  · apply NoWrite.bind (NoWrite.fseek _); intro _
    apply NoWrite.bind (NoWrite.fread _); intro d
    split
    · exact NoWrite.raise _
    · simp only []
      split
      · exact NoWrite.raise _
      · split
        · exact NoWrite.raise _
        · split
          · exact NoWrite.raise _
          · apply NoWrite.bind (NoWrite.fseek _); intro _
            apply NoWrite.bind (nw_fixBrokenM _ _); intro start
            apply NoWrite.bind (NoWrite.fseek _); intro _
            apply NoWrite.bind (NoWrite.fread _); intro _
            exact NoWrite.pure _
  · apply NoWrite.bind (NoWrite.fseek _); intro _
    apply NoWrite.bind (NoWrite.fread _); intro d
    split
    · exact NoWrite.raise _
    · simp only []
      apply NoWrite.bind nw_getSize; intro fileSize
      split
      · exact NoWrite.raise _
      · apply NoWrite.bind (NoWrite.fseek _); intro _
        apply NoWrite.bind nw_readIsApe; intro hasFooter
        split
        · exact NoWrite.raise _
        · apply NoWrite.bind (NoWrite.fseek _); intro _
          apply NoWrite.bind (NoWrite.fseek _); intro _
          apply NoWrite.bind (NoWrite.fread _); intro _
          exact NoWrite.pure _

theorem nw_verifyRead : NoWrite verifyRead :=
  NoWrite.tryCatch (NoWrite.bind (NoWrite.fread _) fun _ => NoWrite.pure _) fun _ => NoWrite.raise _

theorem noWrite_apeLoadM : NoWrite apeLoadM := by
  unfold apeLoadM
  apply NoWrite.convertError
  apply NoWrite.bind nw_verifyRead; intro _
  apply NoWrite.bind nw_locateTagM; intro r
  match r with
  | none => exact NoWrite.raise _
  | some (L, tag) =>
    simp only []
    split
    · exact NoWrite.raise _
    · exact NoWrite.pure _

/-! ### what it can raise -/

theorem raises_locateTagM : Raises SaveErrC locateTagM := by
  unfold locateTagM
  apply Raises.bind raises_findMetadataM; intro m
  split
  · exact Raises.pure _ _
  · apply Raises.bind ((Raises.fseek _).weaken fun _ _ => sInj); intro _
    apply Raises.bind ((Raises.fread _).weaken fun _ _ => sInj); intro d
    split
    · exact Raises.raise _ sMut
    · simp only []
      split
      · exact Raises.raise _ sMut
      · split
        · exact Raises.raise _ sMut
        · split
          · exact Raises.raise _ sMut
          · apply Raises.bind ((Raises.fseek _).weaken fun _ _ => sInj); intro _
            apply Raises.bind (raises_fixBrokenM _ _); intro start
            apply Raises.bind ((Raises.fseek _).weaken fun _ _ => sInj); intro _
            apply Raises.bind ((Raises.fread _).weaken fun _ _ => sInj); intro _
            exact Raises.pure _ _
  · apply Raises.bind ((Raises.fseek _).weaken fun _ _ => sInj); intro _
    apply Raises.bind ((Raises.fread _).weaken fun _ _ => sInj); intro d
    split
    · exact Raises.raise _ sMut
    · simp only []
      apply Raises.bind (Id3F.RaisesC.getSize.weaken fun _ _ => sPrim); intro fileSize
      split
      · exact Raises.raise _ sMut
      · apply Raises.bind ((Raises.fseek _).weaken fun _ _ => sInj); intro _
        apply Raises.bind raises_readIsApe; intro hasFooter
        split
        · exact Raises.raise _ sMut
        · apply Raises.bind ((Raises.fseek _).weaken fun _ _ => sInj); intro _
          apply Raises.bind ((Raises.fseek _).weaken fun _ _ => sInj); intro _
          apply Raises.bind ((Raises.fread _).weaken fun _ _ => sInj); intro _
          exact Raises.pure _ _

theorem raises_verifyRead : Raises SaveErrC verifyRead := by
  unfold verifyRead
  refine Raises.tryCatch (Raises.bind ((Raises.fread _).weaken fun _ _ => sInj) fun _ => Raises.pure _ _) ?_
  intro e x _ _ s err s' h
  simp only [raise_run, Prod.mk.injEq, Except.error.injEq] at h
  exact h.1 ▸ sValue e

theorem raises_apeLoadM :
    Raises (fun e x => x = .mutagen ∨ (Id3F.SaveErr e x ∧ x.isIO = false)) apeLoadM := by
  unfold apeLoadM
  refine Raises.convertError PyErr.isIO .mutagen ((Raises.bind raises_verifyRead fun _ => Raises.bind raises_locateTagM fun r => ?_).weaken
    fun _ _ => Id3F.saveErrC_saveErr)
  match r with
  | none => exact Raises.raise _ sMut
  | some (L, tag) =>
    simp only []
    split
    · exact Raises.raise _ sMut
    · exact Raises.pure _ _

end Mutagen.ApeF
