/- Proofs/Container/FlacEntry.lean — FLAC._save in arbitrary fault environments (C06) -/
import MutagenModel.Proofs.OkAgree
import MutagenModel.Proofs.Container.FlacCap
set_option linter.unusedVariables false
namespace Mutagen.FlacC
open Mutagen

theorem writeBlock_err (b : Block) (last : Bool) (x : PyErr) (h : writeBlock b last = .error x) : x = .mutagen := by
  unfold writeBlock at h
  split at h
  · injection h with h; exact h.symm
  · cases h

theorem writeAll_err (bs : List Block) (x : PyErr) (h : writeAll bs = .error x) : x = .mutagen := by
  induction bs with
  | nil => cases h
  | cons b r ih =>
    unfold writeAll at h
    cases hb : writeBlock b false with
    | error e =>
      rw [hb] at h; simp only at h
      injection h with h; subst h
      exact writeBlock_err b false _ hb
    | ok y =>
      rw [hb] at h; simp only at h
      cases hr : writeAll r with
      | error e =>
        rw [hr] at h; simp only at h
        injection h with h; subst h
        exact ih hr
      | ok z => rw [hr] at h; cases h

theorem writeBlocks_err (blocks : List Block) (a c : Nat) (pad : PadChoice) (x : PyErr)
    (h : writeBlocks blocks a c pad = .error x) : x = .mutagen := by
  unfold writeBlocks at h
  simp only at h
  cases h1 : writeAll (newBlocks blocks a c pad).dropLast with
  | error e =>
    rw [h1] at h; simp only at h
    injection h with h; subst h
    exact writeAll_err _ _ h1
  | ok y =>
    rw [h1] at h; simp only at h
    cases h2 : (newBlocks blocks a c pad).getLast? with
    | none => rw [h2] at h; cases h
    | some p =>
      rw [h2] at h; simp only at h
      cases h3 : writeBlock p true with
      | error e =>
        rw [h3] at h; simp only at h
        injection h with h; subst h
        exact writeBlock_err p true _ h3
      | ok z => rw [h3] at h; cases h

/-- FLAC._save raises only `error` (a block too long) or what the file primitives raise -/
theorem raises_saveM (B : Nat) (L : Layout) (blocks : List Block) (pad : PadChoice) :
    Raises (fun e x => x = .mutagen ∨ PrimErr e x) (saveM B L blocks pad) := by
  intro e s err s' h
  unfold saveM at h
  cases hw : writeBlocks blocks (renderBlocks L.blocks).length L.audio.length pad with
  | error x =>
    rw [hw] at h
    simp only [raise_run, Prod.mk.injEq, Except.error.injEq] at h
    exact Or.inl (h.1 ▸ writeBlocks_err _ _ _ _ _ hw)
  | ok data =>
    rw [hw] at h
    simp only at h
    have hr : Raises (fun e x => x = .mutagen ∨ PrimErr e x)
        (do resizeBytes B ((renderBlocks L.blocks).length : Nat) (data.length : Nat) ((L.pre.length + 4 : Nat) : Nat)
            fseek (L.pre.length + 4 - 4)
            fwrite magic
            fwrite data : FileM Unit) := by
      apply Raises.bind ((Raises.resizeBytes _ _ _ _).weaken fun _ _ h => Or.inr h); intro _
      apply Raises.bind ((Raises.fseek _).weaken fun _ _ h => Or.inr (inj_prim h)); intro _
      apply Raises.bind ((Raises.fwrite _).weaken fun _ x hx =>
        Or.inr (hx.elim inj_prim (fun h => h ▸ prim_enospc _))); intro _
      exact (Raises.fwrite _).weaken fun _ x hx => Or.inr (hx.elim inj_prim (fun h => h ▸ prim_enospc _))
    exact hr e s err s' h

theorem okAgree_saveM (B : Nat) (L : Layout) (blocks : List Block) (pad : PadChoice) :
    OkAgree (saveM B L blocks pad) := by
  intro e s a s' h
  unfold saveM at h ⊢
  cases hw : writeBlocks blocks (renderBlocks L.blocks).length L.audio.length pad with
  | error x => rw [hw] at h; simp at h
  | ok data =>
    rw [hw] at h
    simp only at h ⊢
    have hr : OkAgree
        (do resizeBytes B ((renderBlocks L.blocks).length : Nat) (data.length : Nat) ((L.pre.length + 4 : Nat) : Nat)
            fseek (L.pre.length + 4 - 4)
            fwrite magic
            fwrite data : FileM Unit) := by
      apply OkAgree.bind (OkAgree.resizeBytes _ _ _ _); intro _
      apply OkAgree.bind (OkAgree.fseek _); intro _
      apply OkAgree.bind (OkAgree.fwrite _); intro _
      exact OkAgree.fwrite _
    exact hr e s a s' h

/-- success means written: if FLAC._save returns normally — whatever exceptions the
environment would have injected elsewhere, on a device of any capacity, as long as reads are
not short — the file is exactly the rendering of the saved layout -/
theorem saveM_ok_means_written (B : Nat) (hB : 0 < B) (L : Layout) (blocks : List Block) (pad : PadChoice)
    (hsz : ∀ b ∈ blocks, b.data.length ≤ maxSize) (e : Env) (hshort : ∀ i, e.shortAt i = none)
    (s s' : FS) (hs : s.data = render L) (h : saveM B L blocks pad e s = (.ok (), s')) :
    s'.data = render (msave L blocks false pad) := by
  have h' := okAgree_saveM B L blocks pad e s () s' h
  have hq : Quiet e.noFaults := ⟨fun _ => rfl, hshort⟩
  rcases saveM_q hq B hB L blocks pad hsz s hs with ⟨s2, hr, hd⟩ | ⟨s2, hr, _⟩
  · rw [hr] at h'
    injection h' with _ h2
    rw [← h2]; exact hd
  · rw [hr] at h'; injection h' with h1 _; cases h1

end Mutagen.FlacC
