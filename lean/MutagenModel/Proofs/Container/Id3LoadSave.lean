/-
Proofs/Container/Id3LoadSave.lean — `ID3.load`: a normal return means no fault fired (`OkAgree`), and the composition
`t = ID3(f); f.seek(0); t.save(f, …)` on ONE file object with nothing summarised.
-/
import MutagenModel.Proofs.Container.Id3FileLoad
set_option linter.unusedVariables false
set_option linter.unusedSimpArgs false
namespace Mutagen.Id3F
open Mutagen

theorem okAgree_verifyRead : OkAgree verifyRead :=
  OkAgree.tryCatch (OkAgree.bind (OkAgree.fread _) fun _ => OkAgree.pure _) (by intro x e s a s' h; cases h)

theorem okAgree_extLoadM (vmaj : Nat) : OkAgree (extLoadM vmaj) := by
  unfold extLoadM
  apply OkAgree.bind (OkAgree.readFull _); intro x
  split
  · exact OkAgree.bind (OkAgree.fseekBack _) fun _ => OkAgree.bind (OkAgree.readFull _) fun _ => OkAgree.pure _
  · split
    · split
      · exact OkAgree.raise _
      · simp only []
        split
        · exact OkAgree.raise _
        · exact OkAgree.bind (OkAgree.readFull _) fun _ => OkAgree.pure _
    · exact OkAgree.bind (OkAgree.readFull _) fun _ => OkAgree.pure _

theorem okAgree_headerLoadM : OkAgree headerLoadM := by
  unfold headerLoadM
  apply OkAgree.convertError
  apply OkAgree.bind (OkAgree.fread _); intro d
  split
  · exact OkAgree.pure _
  · split
    · exact OkAgree.pure _
    · simp only []
      split
      · exact OkAgree.pure _
      · split
        · exact OkAgree.pure _
        · exact OkAgree.raise _
        · exact OkAgree.pure _
        · apply OkAgree.bind (okAgree_extLoadM _); intro r
          cases r <;> exact OkAgree.pure _

theorem okAgree_v1FallbackM (loadV1 : Bool) (w : Loaded) : OkAgree (v1FallbackM loadV1 w) := by
  unfold v1FallbackM
  split
  · exact OkAgree.pure _
  · apply OkAgree.bind okAgree_findV1M; intro t
    cases t <;> exact OkAgree.pure _

theorem okAgree_loadM (loadV1 : Bool) : OkAgree (loadM loadV1) := by
  unfold loadM loadBodyM
  apply OkAgree.convertError
  apply OkAgree.bind okAgree_verifyRead; intro _
  apply OkAgree.bind okAgree_headerLoadM; intro h
  cases h with
  | noHeader => exact okAgree_v1FallbackM _ _
  | unsupported => exact okAgree_v1FallbackM _ _
  | hdr vmaj flags size ext =>
    simp only []
    split
    · exact OkAgree.raise _
    · apply OkAgree.bind (OkAgree.readFull _); intro body
      apply OkAgree.bind
      · split
        · exact okAgree_findV1M
        · exact OkAgree.pure _
      · intro _; exact OkAgree.pure _

/-- a normal return of `ID3(fileobj)` — whatever faults the environment would have injected elsewhere — in an
environment without short reads is the pure `load` of the bytes -/
theorem loadM_ok_means_loaded (loadV1 : Bool) (e : Env) (hshort : ∀ i, e.shortAt i = none) (s s' : FS) (hp : s.pos = 0)
    (r : Loaded) (h : loadM loadV1 e s = (.ok r, s')) : load loadV1 s.data = .ok r ∧ s'.data = s.data := by
  have h' := okAgree_loadM loadV1 e s r s' h
  have hq : Quiet e.noFaults := ⟨fun _ => rfl, hshort⟩
  obtain ⟨s1, hr, hd⟩ := loadM_q hq loadV1 s hp
  rw [hr] at h'
  injection h' with h1 h2
  exact ⟨h1, by rw [← h2, hd]⟩

/-! ### load, rewind, save -/

/-- `t = ID3(f); f.seek(0); t.save(f, v1, v2_version, padding)` — ID3NoHeaderError / ID3UnsupportedVersionError of the load
end it -/
def loadSaveM (B : Nat) (loadV1 : Bool) (vmaj : Nat) (frames : Bytes) (pad : PadChoice) (v1opt : Nat) (blk : Bytes) : FileM Unit := do
  let r ← loadM loadV1
  match r with
  | .noHeader => raise .mutagen
  | .unsupported => raise .mutagen
  | _ => do
    fseek 0
    saveM B vmaj frames pad v1opt blk

def Loaded.isTag : Loaded → Bool
  | .v1 _ => true | .v2 .. => true | _ => false

/-- the composition without faults, any capacity: the load's exception with the file untouched; or, once a tag was loaded,
the three outcomes of `save` -/
theorem loadSaveM_q {e : Env} (hq : Quiet e) (B : Nat) (hB : 0 < B) (loadV1 : Bool) (vmaj : Nat) (frames : Bytes)
    (pad : PadChoice) (v1opt : Nat) (blk : Bytes) (hvm : vmaj = 3 ∨ vmaj = 4) (hblk : blk.length = 128) (s : FS) (hp : s.pos = 0) :
    match load loadV1 s.data with
    | .error x => ∃ s', loadSaveM B loadV1 vmaj frames pad v1opt blk e s = (.error x, s') ∧ s'.data = s.data
    | .ok r =>
      if r.isTag then
        ∀ ho data, headerSize s.data = .ok ho → prepareData s.data.length (ho.getD 0) vmaj frames pad = .ok data →
          (∃ s', loadSaveM B loadV1 vmaj frames pad v1opt blk e s = (.ok (), s') ∧
            s'.data = afterV1 (afterTag s.data (ho.getD 0) data) v1opt blk) ∨
          (∃ s', loadSaveM B loadV1 vmaj frames pad v1opt blk e s = (.error .mutagen, s') ∧ s'.data = s.data ∧
            ho.getD 0 < data.length) ∨
          (∃ s' z, loadSaveM B loadV1 vmaj frames pad v1opt blk e s = (.error .mutagen, s') ∧
            s'.data = (afterTag s.data (ho.getD 0) data).take
              ((afterTag s.data (ho.getD 0) data).length - (findV1 (afterTag s.data (ho.getD 0) data)).getD 0) ++ z ∧
            ((v1opt = 1 ∧ (findV1 (afterTag s.data (ho.getD 0) data)).getD 0 ≠ 0) ∨ v1opt = 2) ∧
            (findV1 (afterTag s.data (ho.getD 0) data)).getD 0 < 128)
      else ∃ s', loadSaveM B loadV1 vmaj frames pad v1opt blk e s = (.error .mutagen, s') ∧ s'.data = s.data := by
  obtain ⟨s1, hr1, hd1⟩ := loadM_q hq loadV1 s hp
  unfold loadSaveM
  simp only [bind_run, hr1]
  cases hl : load loadV1 s.data with
  | error x => exact ⟨s1, rfl, hd1⟩
  | ok r =>
    cases r with
    | noHeader => simp only [Loaded.isTag, Bool.false_eq_true, ↓reduceIte, raise_run]; exact ⟨s1, rfl, hd1⟩
    | unsupported => simp only [Loaded.isTag, Bool.false_eq_true, ↓reduceIte, raise_run]; exact ⟨s1, rfl, hd1⟩
    | v1 n =>
      simp only [Loaded.isTag, ↓reduceIte, bind_run, fseek_q hq]
      intro ho data hh hprep
      rw [← hd1] at hh hprep ⊢
      exact saveM_q hq B hB s1.data ho vmaj frames pad v1opt blk hvm hblk hh data hprep _ rfl rfl
    | v2 a b c d =>
      simp only [Loaded.isTag, ↓reduceIte, bind_run, fseek_q hq]
      intro ho data hh hprep
      rw [← hd1] at hh hprep ⊢
      exact saveM_q hq B hB s1.data ho vmaj frames pad v1opt blk hvm hblk hh data hprep _ rfl rfl

end Mutagen.Id3F
