/-
Proofs/Container/OggApi.lean — the page-level API of mutagen/ogg.py by itself (C15, second sentence):
`OggPage.replace` on any run of pages with any new pages, `OggPage.renumber`, and
`OggPage._from_packets_try_preserve` — no codec, no comment packet.  Built on the lemmas of
Proofs/Container/OggInject.lean (where `replace` is only used through `save`).
-/
import MutagenModel.Proofs.Container.OggInjectTotal
set_option linter.unusedVariables false
namespace Mutagen.OggInj
open Mutagen Mutagen.Ogg

/-! ### OggPage.replace on any run of pages (no codec, any new pages) -/

/-- the last page of the run is directly followed by what comes behind the run -/
def LastGapEmpty (m : List Slot) : Prop := ∃ init c, m = init ++ [(c, [])]

theorem spliceEnd_lastGap (m : List Slot) (ds : List Bytes) (hlen : ds.length = m.length) (hl : LastGapEmpty m) (a e : Nat) :
    spliceEnd a ds m e = a + (splice ds m).length := by
  obtain ⟨init, c, rfl⟩ := hl
  induction init generalizing ds a e with
  | nil =>
    cases ds with
    | nil => simp at hlen
    | cons d ds =>
      cases ds with
      | nil => simp [spliceEnd, splice]
      | cons _ _ => simp at hlen
  | cons s init ih =>
    cases ds with
    | nil => simp at hlen
    | cons d ds =>
      simp only [List.cons_append, spliceEnd, splice]
      rw [ih ds _ _ (by simpa using hlen)]
      simp only [List.length_append]; omega

/-- a file seen around a run of pages of one logical stream: `pre`, the run's pages each followed by
the pages of other streams that sit between it and the next, `post`.  Every page is one that is read
back as written; the run's pages have the serial number `L.serial`, the pages between them have other
serial numbers; the run's last page is directly followed by `post`. -/
structure Layout.RunOK (L : Layout) : Prop where
  pre : ∀ p ∈ L.pre, Good p
  slots : SlotsOK L.serial L.slots
  last : LastGapEmpty L.slots
  post : ∀ p ∈ L.post, Good p

theorem Layout.RunOK.ne {L : Layout} (h : L.RunOK) : L.slots ≠ [] := by
  obtain ⟨init, c, hm⟩ := h.last
  rw [hm]; simp

theorem Layout.RunOK.pos {L : Layout} (h : L.RunOK) : 0 < L.slots.length := by
  have := h.ne
  cases hs : L.slots with
  | nil => exact absurd hs this
  | cons _ _ => simp

/-- `OggPage.replace(fileobj, old_pages, new_pages)` where `old_pages` are the run's pages as read from
the file and `new_pages` is ANY non-empty page list (numbered and flagged however the caller likes):
it succeeds and writes the pages `L.after new` — the new pages numbered from the first old page's
number, with its serial, the first/continued flags of the first old page on the first and the
last/complete flags of the last old page on the last, in the places of the old pages (surplus behind
the last, nothing for left-over old pages), the other streams' pages in between kept, and — when the
number of pages changed — every later page of the stream renumbered.  Needed: the new pages can be
written once numbered, and (only when the number of pages changes) the numbers stay below 2³². -/
theorem replace_run (L : Layout) (h : L.RunOK) (new : List Page) (hnew : new ≠ [])
    (hren : ∀ p ∈ prepare L.c1 L.cK new, Renderable p)
    (hseq : L.slots.length ≠ new.length →
      L.c1.sequence + new.length + (L.post.filter (·.serial = L.serial)).length ≤ 2 ^ 32) :
    replace L.render (rds (renderPages L.pre).length L.slots) new = ⟨renderPages (L.after new), none⟩ := by
  have hne := h.ne
  have hm0 := h.pos
  generalize hA : renderPages L.pre = A
  have hh : (rds A.length L.slots).head? = some ⟨L.c1, A.length⟩ := by
    have := head_oldPages L hne
    cases hs : L.slots with
    | nil => exact absurd hs hne
    | cons s m =>
      simp only [Layout.oldPages, hs, List.map_cons, List.head?_cons, Option.some.injEq] at this
      simp [rds, this]
  have hl : ∃ o, (rds A.length L.slots).getLast? = some ⟨L.cK, o⟩ := by
    have h1 : ((rds A.length L.slots).map (·.page)).getLast? = some L.cK := by
      rw [map_page_rds]; exact last_oldPages L hne
    rw [List.getLast?_map] at h1
    cases hg : (rds A.length L.slots).getLast? with
    | none => rw [hg] at h1; simp at h1
    | some r =>
      rw [hg] at h1
      simp only [Option.map_some, Option.some.injEq] at h1
      exact ⟨r.offset, by cases r; simp_all⟩
  obtain ⟨oK, hl⟩ := hl
  obtain ⟨n0, nr, rfl⟩ : ∃ n0 nr, new = n0 :: nr := by
    cases new with
    | nil => exact absurd rfl hnew
    | cons a b => exact ⟨a, b, rfl⟩
  rw [L.render_eq, hA]
  unfold replace
  rw [hh, hl]
  simp only
  rw [renderList_ok _ hren]
  simp only [length_rds]
  rw [fitData_map, replaceLoop_slots L.slots _ (by simp [length_fitPages _ _ hm0]) A (renderPages L.post) A.length 0 0 (by simp)]
  simp only
  rw [spliceEnd_lastGap L.slots _ (by simp [length_fitPages _ _ hm0]) h.last, ← renderPages_splicePages]
  have hafter : renderPages (L.after (n0 :: nr)) = A ++ renderPages (splicePages (fitPages L.slots.length (prepare L.c1 L.cK (n0 :: nr))) L.slots) ++
      renderPages (if L.slots.length ≠ (n0 :: nr).length then renum L.serial (L.c1.sequence + (n0 :: nr).length) L.post else L.post) := by
    simp [Layout.after, renderPages_append, hA, List.append_assoc]
  rw [hafter]
  split
  · rename_i hdiff
    have := renumber_pages L.serial L.post (A ++ renderPages (splicePages (fitPages L.slots.length (prepare L.c1 L.cK (n0 :: nr))) L.slots))
      (L.c1.sequence + (n0 :: nr).length)
      ((A ++ renderPages (splicePages (fitPages L.slots.length (prepare L.c1 L.cK (n0 :: nr))) L.slots) ++ renderPages L.post).length + 1)
      h.post (hseq hdiff) (by
        have := length_renderPages_ge L.post
        simp only [List.length_append]; omega)
    simp only [List.length_append] at this ⊢
    have hser : L.c1.serial = L.serial := rfl
    simp only [hser]
    rw [this]
  · rfl

/-! ### what `replace` keeps and guarantees (any new pages) -/

theorem mem_prepare_slots (L : Layout) (hsl : 0 < L.slots.length) (new : List Page) :
    ∀ d ∈ fitPages L.slots.length (prepare L.c1 L.cK new), ∀ p ∈ d, p.serial = L.serial := by
  intro d hd p hp
  have : p ∈ (fitPages L.slots.length (prepare L.c1 L.cK new)).flatten := List.mem_flatten.mpr ⟨d, hd, hp⟩
  rw [flatten_fitPages _ _ hsl] at this
  exact serial_prepare _ _ _ p this

/-- the pages of all other logical streams are what they were, in order -/
theorem others_afterR (L : Layout) (h : L.RunOK) (new : List Page) :
    others L.serial (L.after new) = others L.serial L.pages := by
  unfold Layout.after Layout.pages
  rw [others_append, others_append, others_append, others_append, others_slotPages _ _ h.slots,
    others_splicePages L.serial _ L.slots (length_fitPages _ _ h.pos) (mem_prepare_slots L h.pos new) h.slots]
  congr 1
  split
  · exact others_renum _ _ _
  · rfl

theorem stream_afterR (L : Layout) (h : L.RunOK) (new : List Page) :
    stream L.serial (L.after new) = stream L.serial L.pre ++ prepare L.c1 L.cK new ++
      stream L.serial (if L.slots.length ≠ new.length then renum L.serial (L.c1.sequence + new.length) L.post else L.post) := by
  unfold Layout.after
  rw [stream_append, stream_append, stream_splicePages L.serial _ L.slots (length_fitPages _ _ h.pos)
    (mem_prepare_slots L h.pos new) h.slots, flatten_fitPages _ _ h.pos]

theorem stream_pagesR (L : Layout) (h : L.RunOK) :
    stream L.serial L.pages = stream L.serial L.pre ++ L.oldPages ++ stream L.serial L.post := by
  unfold Layout.pages
  rw [stream_append, stream_append, stream_slotPages _ _ h.slots]
  rfl

/-- page sequence numbers of the run's stream: gapless before, gapless after — whatever numbers the
caller gave the new pages -/
theorem seq_afterR (L : Layout) (h : L.RunOK) (new : List Page) (a : Nat)
    (hin : (stream L.serial L.pages).map (·.sequence) = List.range' a (stream L.serial L.pages).length) :
    (stream L.serial (L.after new)).map (·.sequence) = List.range' a (stream L.serial (L.after new)).length := by
  obtain ⟨r, hr⟩ := oldPages_eq L h.ne
  rw [stream_pagesR L h, List.append_assoc] at hin
  obtain ⟨h1, h23⟩ := range'_split _ _ _ _ hin
  obtain ⟨h2, h3⟩ := range'_split _ _ _ _ h23
  have hc1 : L.c1.sequence = a + (stream L.serial L.pre).length := by
    rw [hr] at h2; simp [List.range'_succ] at h2; exact h2.1
  rw [stream_afterR L h, List.append_assoc]
  apply range'_join _ _ _ _ h1
  apply range'_join
  · rw [seq_prepare, length_prepare, hc1]
  · rw [length_prepare]
    split
    · have := seq_stream_renum L.serial (L.c1.sequence + new.length) L.post
      rw [this.1, this.2, hc1]
    · rename_i heq
      have heq' : L.slots.length = new.length := Classical.not_not.mp heq
      have : L.oldPages.length = new.length := by simp [Layout.oldPages, heq']
      rw [← this]; exact h3

/-- every page of the result is one that is read back as written, given the new pages are once
`replace` has numbered and flagged them -/
theorem good_afterR (L : Layout) (h : L.RunOK) (new : List Page) (hg : ∀ p ∈ prepare L.c1 L.cK new, Good p)
    (hseq : L.slots.length ≠ new.length →
      L.c1.sequence + new.length + (L.post.filter (·.serial = L.serial)).length ≤ 2 ^ 32) :
    ∀ p ∈ L.after new, Good p := by
  intro p hp
  unfold Layout.after at hp
  simp only [List.mem_append] at hp
  rcases hp with (hp | hp) | hp
  · exact h.pre p hp
  · rcases mem_splicePages _ _ p hp with ⟨d, hd', hpd⟩ | ⟨s, hs, hps⟩
    · have hm : p ∈ (fitPages L.slots.length (prepare L.c1 L.cK new)).flatten := List.mem_flatten.mpr ⟨d, hd', hpd⟩
      rw [flatten_fitPages _ _ h.pos] at hm
      exact hg p hm
    · exact ((h.slots s hs).2.2 p hps).1
  · split at hp
    · rename_i hd
      exact good_renum _ _ _ h.post (by have := hseq hd; omega) p hp
    · exact h.post p hp

/-- the stream's packets: those in front of the run as they were, then the reassembly of the pages
behind the run onto the packets of the NEW run where it was onto the packets of the old one.
(`hold`, `hnew`: both runs start a packet.) -/
theorem packets_afterR (L : Layout) (h : L.RunOK) (new : List Page)
    (hold : startsFresh L.oldPages = true) (hnew : startsFresh new = true)
    (hhead : ∀ p, new.head? = some p → p.continued = L.c1.continued) :
    reasm [] (stream L.serial L.pages) =
      reasm (reasm [] (stream L.serial L.pre) ++ reasm [] L.oldPages) (stream L.serial L.post) ∧
    reasm [] (stream L.serial (L.after new)) =
      reasm (reasm [] (stream L.serial L.pre) ++ reasm [] new) (stream L.serial L.post) := by
  constructor
  · rw [stream_pagesR L h, reasm_append, reasm_append, reasm_fresh _ _ hold]
  · rw [stream_afterR L h, reasm_append, reasm_append,
      reasm_sameData _ _ _ (sameData_prepare L.c1 L.cK new hhead), reasm_fresh _ _ hnew]
    split
    · exact reasm_sameData _ _ _ (sameData_stream_renum _ _ _)
    · rfl

/-- … and when the pages behind the run start a packet themselves (the run's last page is complete),
simply: packets in front, the run's packets, packets behind -/
theorem packets_afterR_complete (L : Layout) (h : L.RunOK) (new : List Page)
    (hold : startsFresh L.oldPages = true) (hnew : startsFresh new = true)
    (hhead : ∀ p, new.head? = some p → p.continued = L.c1.continued)
    (hpost : startsFresh (stream L.serial L.post) = true) :
    reasm [] (stream L.serial L.pages) =
      reasm [] (stream L.serial L.pre) ++ reasm [] L.oldPages ++ reasm [] (stream L.serial L.post) ∧
    reasm [] (stream L.serial (L.after new)) =
      reasm [] (stream L.serial L.pre) ++ reasm [] new ++ reasm [] (stream L.serial L.post) := by
  obtain ⟨h1, h2⟩ := packets_afterR L h new hold hnew hhead
  rw [h1, h2]
  exact ⟨reasm_fresh _ _ hpost, reasm_fresh _ _ hpost⟩


/-! ### when the new pages are readable once `replace` has numbered and flagged them -/

/-- conditions on the caller's pages: header fields `from_packets` leaves at their defaults, granule
position in range, at most 255 lacing values however the last packet ends, `Canon` (complete, or
ending in a packet of 255·m bytes); and — when the last old page leaves its last packet open — the
last packet on the last new page is a non-empty multiple of 255 bytes, so that the flag can be read
back from the lacing values -/
theorem good_prepare (o0 oL : Page) (new : List Page) (ho0 : o0.serial < 2 ^ 32) (hseq : o0.sequence + new.length ≤ 2 ^ 32)
    (hv : ∀ q ∈ new, q.version = 0 ∧ q.flagsHi = 0)
    (hpos : ∀ q ∈ new, -(2 ^ 63 : Int) ≤ q.position ∧ q.position < (2 ^ 63 : Int))
    (hlc : ∀ q ∈ new, laceCount q.packets ≤ 255) (hcan : ∀ q ∈ new, Canon q)
    (hl : oL.complete = false → ∀ y, new.getLast? = some y → ∃ q l, y.packets = q ++ [l] ∧ l.length % 255 = 0 ∧ l ≠ []) :
    ∀ p ∈ prepare o0 oL new, Good p := by
  have hren := renderable_prepare o0 oL new ho0 hseq hv hpos (by
    intro p hp
    obtain ⟨q, hq, hpk, _⟩ := prepare_mem _ _ _ p hp
    have := lacing_length_le p
    rw [hpk] at this
    exact Nat.le_trans this (hlc q hq))
  have hcn := canon_prepare o0 oL new hcan hl
  intro p hp
  obtain ⟨q, hq, _, hver, hfh, _⟩ := prepare_mem _ _ _ p hp
  exact ⟨by rw [hver]; exact (hv q hq).1, by rw [hfh, (hv q hq).2]; omega, hcn p hp, render_of_renderable p (hren p hp)⟩

/-- the pages `from_packets` builds (default page size or any `255 ≤ default_size ≤ 65024`) meet these
conditions -/
theorem good_prepare_fromPackets (o0 oL : Page) (D W : Nat) (hc : 0 < D / 255 * 255) (hch : D / 255 * 255 ≤ 64770) (seq : Nat)
    (P : List Bytes) (ho0 : o0.serial < 2 ^ 32)
    (hseq : o0.sequence + (fromPacketsWith (policy D) (D / 255 * 255) W hc seq P).length ≤ 2 ^ 32)
    (hPlast : oL.complete = false → ∀ lp, P.getLast? = some lp → lp.length % 255 = 0 ∧ lp ≠ []) :
    ∀ p ∈ prepare o0 oL (fromPacketsWith (policy D) (D / 255 * 255) W hc seq P), Good p := by
  have hd := fromPacketsWith_dflt (policy D) (D / 255 * 255) W hc seq P
  have hlc := fromPacketsWith_laceCount D (D / 255 * 255) W hc hch seq P
  have hcn := fromPacketsWith_canon (policy D) (D / 255 * 255) W hc (Nat.mul_mod_left _ _) seq P
  apply good_prepare o0 oL _ ho0 hseq (fun q hq => ⟨(hd q hq).1, (hd q hq).2.1⟩) ?_ hlc hcn.1
  · intro hoc y hy
    cases hg : P.getLast? with
    | none =>
      -- no packets, no pages
      exfalso
      have hP : P = [] := by simpa using hg
      subst hP
      simp [fromPacketsWith, outer] at hy
    | some lp =>
      obtain ⟨q, l', hql, hm, hne'⟩ := hcn.2 lp hg y hy
      obtain ⟨hp1, hp2⟩ := hPlast hoc lp hg
      exact ⟨q, l', hql, by rw [hm]; exact hp1, fun he => hp2 (hne' he)⟩
  · intro q hq
    rcases (hd q hq).2.2.2.2 with h | h <;> rw [h] <;> omega

/-! ### OggPage.renumber by itself -/

/-- `renum` changes page numbers and nothing else -/
theorem renum_fields (ser n : Nat) (ps : List Page) :
    (renum ser n ps).map (fun p => ({ p with sequence := 0 } : Page)) = ps.map (fun p => ({ p with sequence := 0 } : Page)) := by
  induction ps generalizing n with
  | nil => rfl
  | cons p r ih =>
    simp only [renum]
    split <;> simp [ih]

/-- … and only those of pages of the serial -/
theorem renum_others_same (ser n : Nat) (ps : List Page) : ∀ p ∈ ps, p.serial ≠ ser → p ∈ renum ser n ps := by
  induction ps generalizing n with
  | nil => simp
  | cons q r ih =>
    intro p hp hs
    simp only [renum]
    simp only [List.mem_cons] at hp
    split
    · rename_i hq
      rcases hp with rfl | hp
      · exact absurd hq hs
      · exact List.mem_cons_of_mem _ (ih (n + 1) p hp hs)
    · rcases hp with rfl | hp
      · simp
      · exact List.mem_cons_of_mem _ (ih n p hp hs)


/-! ### OggPage._from_packets_try_preserve -/

/-- what `to_packets` has checked when it returns: one serial number, consecutive page numbers -/
theorem toPacketsLoop_checks (ser : Nat) (ps : List Page) (seq : Nat) (acc X : List Bytes)
    (h : toPacketsLoop ser seq acc ps = .ok X) :
    (∀ p ∈ ps, p.serial = ser) ∧ ps.map (·.sequence) = List.range' seq ps.length := by
  induction ps generalizing seq acc with
  | nil => simp
  | cons p r ih =>
    unfold toPacketsLoop at h
    split at h
    · cases h
    · rename_i hs
      split at h
      · cases h
      · rename_i hq
        have hs' : p.serial = ser := (Classical.not_not.mp hs).symm
        have hq' : p.sequence = seq := (Classical.not_not.mp hq).symm
        have rest : (∀ q ∈ r, q.serial = ser) ∧ r.map (·.sequence) = List.range' (seq + 1) r.length := by
          split at h
          · exact ih _ _ h
          · split at h
            · split at h
              · cases h
              · exact ih _ _ h
            · exact ih _ _ h
        refine ⟨?_, ?_⟩
        · intro q hq
          simp only [List.mem_cons] at hq
          rcases hq with rfl | hq
          · exact hs'
          · exact rest.1 q hq
        · simp [List.range'_succ, hq', rest.2]

/-- `to_packets` on pages with the same packet lengths, continued flags and page numbers (and one
serial number each) succeeds when it does on the others -/
theorem toPacketsLoop_transfer (ser ser' : Nat) (ps qs : List Page) (seq : Nat) (acc acc' X : List Bytes)
    (hsh : ps.map shape = qs.map shape) (hsq : ps.map (·.sequence) = qs.map (·.sequence))
    (hser : ∀ q ∈ qs, q.serial = ser') (ha : acc.map List.length = acc'.map List.length)
    (h : toPacketsLoop ser seq acc ps = .ok X) : toPacketsLoop ser' seq acc' qs = .ok (reasm acc' qs) := by
  induction ps generalizing qs seq acc acc' with
  | nil =>
    cases qs with
    | nil => simp [toPacketsLoop, reasm]
    | cons _ _ => simp at hsh
  | cons p r ih =>
    cases qs with
    | nil => simp at hsh
    | cons q s =>
      simp only [List.map_cons, List.cons.injEq] at hsh hsq
      have hqs : q.serial = ser' := hser q (by simp)
      have hser' : ∀ x ∈ s, x.serial = ser' := fun x hx => hser x (by simp [hx])
      unfold toPacketsLoop at h
      split at h
      · cases h
      split at h
      · cases h
      rename_i _ hq
      have hq' : seq = p.sequence := Classical.not_not.mp hq
      have hsh1 := hsh.1
      simp only [shape, Prod.mk.injEq] at hsh1
      rw [reasm_cons]
      unfold toPacketsLoop
      rw [if_neg (by simp [hqs]), if_neg (by rw [hq', hsq.1]; simp)]
      have hemp : acc = [] ↔ acc' = [] := by
        constructor
        · intro he; rw [he] at ha; simpa using ha.symm
        · intro he; rw [he] at ha; simpa using ha
      cases hp : p.packets with
      | nil =>
        rw [hp] at h hsh1
        have hqp : q.packets = [] := by simpa using hsh1.1.symm
        simp only at h
        rw [hqp]
        simp only
        have : step acc' q = acc' := by simp [step, hqp]
        rw [this]
        exact ih s _ acc acc' hsh.2 hsq.2 hser' ha h
      | cons f rest =>
        rw [hp] at h hsh1
        cases hqp : q.packets with
        | nil => rw [hqp] at hsh1; simp at hsh1
        | cons f' rest' =>
          rw [hqp] at hsh1
          simp only [List.map_cons, List.cons.injEq] at hsh1
          simp only at h ⊢
          by_cases hc : p.continued = true
          · have hc' : q.continued = true := by rw [← hsh1.2]; exact hc
            simp only [hc, ↓reduceIte] at h
            simp only [hc', ↓reduceIte]
            split at h
            · cases h
            · rename_i hne
              rw [if_neg (fun he => hne (hemp.mpr he))]
              have hst : step acc' q = extLast acc' f' ++ rest' := by simp [step, hqp, hc']
              rw [hst]
              apply ih s _ (extLast acc f ++ rest) _ hsh.2 hsq.2 hser' ?_ h
              simp only [List.map_append]
              rw [lens_extLast acc acc' f f' ha hsh1.1.1, hsh1.1.2]
          · have hc' : ¬ q.continued = true := by rw [← hsh1.2]; exact hc
            simp only [hc, Bool.false_eq_true, ↓reduceIte] at h
            simp only [hc', Bool.false_eq_true, ↓reduceIte]
            have hst : step acc' q = acc' ++ f' :: rest' := by simp [step, hqp, hc']
            rw [hst]
            apply ih s _ (acc ++ f :: rest) _ hsh.2 hsq.2 hser' ?_ h
            simp [ha, hsh1.1.1, hsh1.1.2]

theorem copyLayout_serial (olds : List Page) (d : Bytes) : ∀ p ∈ (copyLayout olds d).1, p.serial = 0 := by
  induction olds generalizing d with
  | nil => simp [copyLayout]
  | cons o r ih =>
    intro p hp
    simp only [copyLayout, List.mem_cons] at hp
    rcases hp with rfl | hp
    · rfl
    · exact ih _ p hp

/-- the layout-copying case: the new packets have the lengths of the old ones.  The result is the
copied layout: as many pages, each with the packet lengths, complete and continued flags, position,
page number — hence the size — of its old page; `to_packets` gives the new packets back. -/
theorem tryPreserve_same_sizes (o : Page) (r : List Page) (X P : List Bytes)
    (hold : toPackets (o :: r) false = .ok X) (hl : P.map List.length = X.map List.length) :
    ∃ new, tryPreserve P (o :: r) = .ok new ∧ new = (copyLayout (o :: r) P.flatten).1 ∧
      toPackets new false = .ok P ∧
      new.map (fun p => (p.packets.map List.length, p.complete, p.continued, p.position, p.sequence)) =
        (o :: r).map (fun p => (p.packets.map List.length, p.complete, p.continued, p.position, p.sequence)) ∧
      new.map Page.size = (o :: r).map Page.size ∧
      new.map (·.sequence) = List.range' o.sequence new.length := by
  have htot : totalLen (o :: r) = P.flatten.length := by
    rw [flatten_length_of_lens P X hl, toPackets_flat o r X hold]
  obtain ⟨h1, h2, h3, h4⟩ := copyLayout_spec (o :: r) P.flatten (by omega)
  have hdf := copyLayout_serial (o :: r) P.flatten
  have hnil : (copyLayout (o :: r) P.flatten).2 = [] := by
    apply List.eq_nil_of_length_eq_zero; rw [h3]; omega
  have htp : tryPreserve P (o :: r) = .ok (copyLayout (o :: r) P.flatten).1 := by
    unfold tryPreserve
    rw [hold]
    simp only
    rw [if_neg (by simp [hl])]
    generalize copyLayout (o :: r) P.flatten = cl at hnil ⊢
    obtain ⟨pages, rest⟩ := cl
    simp only at hnil ⊢
    subst hnil
    simp
  rw [hnil, List.append_nil] at h2
  generalize (copyLayout (o :: r) P.flatten).1 = new at *
  have hlen : new.length = (o :: r).length := by simpa using congrArg List.length h1
  -- the old run as `to_packets` saw it
  have hold' := hold
  simp only [toPackets, Bool.false_and, Bool.false_eq_true, ↓reduceIte, Bool.not_false, Bool.true_and] at hold'
  obtain ⟨_, hseqs⟩ := toPacketsLoop_checks _ _ _ _ _ hold'
  have hX := toPacketsLoop_ok _ _ _ _ _ hold'
  have hsq : new.map (·.sequence) = (o :: r).map (·.sequence) := by
    have := congrArg (List.map (fun x : Nat × Bool × Int => x.1)) h4
    simpa [List.map_map, Function.comp_def] using this
  obtain ⟨n0, nr, rfl⟩ : ∃ n0 nr, new = n0 :: nr := by
    cases new with
    | nil => simp at hlen
    | cons a b => exact ⟨a, b, rfl⟩
  have hn0c : n0.continued = o.continued := by
    simp only [List.map_cons, List.cons.injEq, shape, Prod.mk.injEq] at h1; exact h1.1.2
  have hn0s : n0.sequence = o.sequence := by
    simp only [List.map_cons, List.cons.injEq] at hsq; exact hsq.1
  have htp2 : toPackets (n0 :: nr) false = .ok P := by
    simp only [toPackets, Bool.false_and, Bool.false_eq_true, ↓reduceIte, Bool.not_false, Bool.true_and]
    have hser : ∀ q ∈ n0 :: nr, q.serial = n0.serial := by
      intro q hq; rw [hdf q hq, hdf n0 (by simp)]
    rw [hn0c, hn0s]
    rw [toPacketsLoop_transfer o.serial n0.serial (o :: r) (n0 :: nr) o.sequence _ _ X h1.symm hsq.symm hser rfl hold']
    congr 1
    apply eq_of_lens_flatten
    · rw [hl, hX]; exact lens_reasm _ _ _ _ rfl h1
    · rw [flatten_reasm, h2]; split <;> simp
  have hkey : (n0 :: nr).map (fun p => (p.packets.map List.length, p.complete, p.continued, p.position, p.sequence)) =
      (o :: r).map (fun p => (p.packets.map List.length, p.complete, p.continued, p.position, p.sequence)) := by
    apply List.ext_getElem (by simpa using hlen)
    intro n hn1 hn2
    simp only [List.getElem_map]
    have e3 := congrArg (fun l => l[n]?) h1
    have e4 := congrArg (fun l => l[n]?) h4
    simp only [List.getElem?_map] at e3 e4
    have hn1' : n < (n0 :: nr).length := by simpa using hn1
    have hn2' : n < (o :: r).length := by simpa using hn2
    rw [List.getElem?_eq_getElem hn1', List.getElem?_eq_getElem hn2'] at e3 e4
    simp only [Option.map_some, Option.some.injEq, shape, Prod.mk.injEq] at e3 e4
    simp [e3.1, e3.2, e4.1, e4.2.1, e4.2.2]
  refine ⟨_, htp, rfl, htp2, hkey, ?_, ?_⟩
  · apply List.ext_getElem (by simpa using hlen)
    intro n hn1 hn2
    simp only [List.getElem_map]
    have e := congrArg (fun l => l[n]?) hkey
    simp only [List.getElem?_map] at e
    have hn1' : n < (n0 :: nr).length := by simpa using hn1
    have hn2' : n < (o :: r).length := by simpa using hn2
    rw [List.getElem?_eq_getElem hn1', List.getElem?_eq_getElem hn2'] at e
    simp only [Option.map_some, Option.some.injEq, Prod.mk.injEq] at e
    exact size_eq_of_key _ _ e.1 e.2.1
  · rw [hsq, hlen]; exact hseqs

/-- the fall-back case: as soon as the list of packet lengths differs from the old one — be it only in
the order, with the same number of packets and the same total — the old layout is dropped and the
packets are laid out afresh from the first old page's number -/
theorem tryPreserve_other_sizes (o : Page) (r : List Page) (X P : List Bytes)
    (hold : toPackets (o :: r) false = .ok X) (hl : P.map List.length ≠ X.map List.length) :
    tryPreserve P (o :: r) = fromPackets policy P o.sequence Generated.oggDefaultSize Generated.oggWiggleRoom := by
  unfold tryPreserve
  rw [hold]
  simp only
  rw [if_pos hl]


instance (p : Page) : Decidable (Renderable p) := by unfold Renderable; infer_instance

theorem lastGapEmpty_of_chain (m : List Slot) (h : Chain m) : LastGapEmpty m := by
  induction m with
  | nil => exact absurd h (by simp [Chain])
  | cons s m ih =>
    cases m with
    | nil =>
      obtain ⟨c, g⟩ := s
      have : g = [] := h.2
      subst this
      exact ⟨[], c, rfl⟩
    | cons t m =>
      obtain ⟨init, c, hm⟩ := ih h.2
      exact ⟨s :: init, c, by rw [hm]; rfl⟩

/-- a layout that is well-formed for a codec's comment run is in particular a run layout -/
theorem Layout.OK.runOK {c : Codec} {L : Layout} (h : L.OK c) : L.RunOK :=
  ⟨h.pre, h.slots, lastGapEmpty_of_chain _ h.chain, h.post⟩


/-- a page as a caller might hand it to `replace`: one packet of `n` bytes, a page number and a serial
number of the caller's (for the examples of Props/C15_OggInject.lean) -/
def Example.pg (n : Nat) (seq : Nat) : Page := { packets := [List.replicate n 5], sequence := seq, serial := 1234 }

end Mutagen.OggInj
