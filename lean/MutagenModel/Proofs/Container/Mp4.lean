/- Proofs/Container/Mp4.lean — lemmas about the MP4 atom tree and the offset bookkeeping -/
import MutagenModel.Model.Container.Mp4
import MutagenModel.Proofs.FileOps
import MutagenModel.Proofs.IntCodec
set_option linter.unusedVariables false
namespace Mutagen.Mp4C
open Mutagen

/-! ### A. replacing a region: where the other bytes go -/

theorem length_splice (f new : Bytes) (o old : Nat) (ho : o + old ≤ f.length) :
    (splice f o old new).length = f.length - old + new.length := by
  simp [splice]; omega

/-- bytes before the replaced region stay where they are -/
theorem splice_before (f new : Bytes) (o old i : Nat) (ho : o ≤ f.length) (hi : i < o) :
    (splice f o old new)[i]? = f[i]? := by
  unfold splice
  have h1 : (f.take o).length = o := by simp; omega
  rw [List.append_assoc, List.getElem?_append_left (by omega)]
  simp [hi]

/-- bytes after the replaced region move by `new.length - old` -/
theorem splice_after (f new : Bytes) (o old x : Nat) (ho : o + old ≤ f.length) (hx : o + old ≤ x) :
    (splice f o old new)[x + new.length - old]? = f[x]? := by
  unfold splice
  have h1 : (f.take o).length = o := by simp; omega
  rw [List.getElem?_append_right (by simp; omega)]
  simp only [List.length_append, h1, List.getElem?_drop]
  congr 1; omega

theorem readAt_eq_of_getElem? (f g : Bytes) (a b n : Nat) (h : ∀ i, i < n → g[b + i]? = f[a + i]?) :
    readAt g b n = readAt f a n := by
  apply List.ext_getElem?
  intro i
  rw [getElem?_readAt, getElem?_readAt]
  by_cases hi : i < n
  · simp [hi, h i hi]
  · simp [hi]

/-- the pure core of C10: after `[o, o+old)` is replaced by `new`, an offset patched by mutagen's
rule (`+ delta` iff `o < e`) addresses the same `n` bytes as before — provided the addressed
bytes avoid the replaced region (`Clear`) -/
theorem splice_patched_window (f new : Bytes) (o old e n : Nat) (ho : o + old ≤ f.length)
    (hc : Clear o old e n) :
    readAt (splice f o old new) (patchEntry o ((new.length : Int) - old) e).toNat n = readAt f e n := by
  rcases hc with hb | ⟨h1, h2⟩
  · have hp : patchEntry o ((new.length : Int) - old) e = e := by
      unfold patchEntry; have : ¬ o < e := by omega
      simp [this]
    rw [hp, Int.toNat_natCast]
    apply readAt_eq_of_getElem?
    intro i hi
    exact splice_before f new o old (e + i) (by omega) (by omega)
  · have hp : (patchEntry o ((new.length : Int) - old) e).toNat = e + new.length - old := by
      unfold patchEntry; simp [h1]; omega
    rw [hp]
    apply readAt_eq_of_getElem?
    intro i hi
    have := splice_after f new o old (e + i) ho (by omega)
    rw [← this]; congr 1; omega

/-! ### B. rendering and the strict walker -/

theorem length_header (name : Bytes) (wide : Bool) (size : Nat) (hn : name.length = 4) :
    (header name wide size).length = hdrLen wide := by
  cases wide <;> simp [header, hdrLen, hn]

theorem sizeList_append (a b : List Atom) : sizeList (a ++ b) = sizeList a + sizeList b := by
  induction a with
  | nil => simp [sizeList]
  | cons x r ih => simp [sizeList, ih]; omega

theorem renderList_append (a b : List Atom) : renderList (a ++ b) = renderList a ++ renderList b := by
  induction a with
  | nil => simp [renderList]
  | cons x r ih => simp [renderList, ih]

theorem wfList_append (a b : List Atom) : wfList (a ++ b) ↔ wfList a ∧ wfList b := by
  induction a with
  | nil => simp [wfList]
  | cons x r ih => simp [wfList, ih, and_assoc]

theorem Atom.wf_name (a : Atom) (h : a.wf) : a.name.length = 4 := by
  cases a <;> simp only [Atom.wf] at h <;> exact h.1

mutual
theorem Atom.length_render : (a : Atom) → a.wf → a.render.length = a.size
  | .leaf n w p, h => by
    simp only [Atom.wf] at h
    simp [Atom.render, Atom.size, length_header _ _ _ h.1]
  | .node n w s cs, h => by
    simp only [Atom.wf] at h
    simp [Atom.render, Atom.size, length_header _ _ _ h.1, length_renderList cs h.2.2.2.2]
    omega
theorem length_renderList : (l : List Atom) → wfList l → (renderList l).length = sizeList l
  | [], _ => by simp [renderList, sizeList]
  | a :: r, h => by
    simp only [wfList] at h
    simp [renderList, sizeList, Atom.length_render a h.1, length_renderList r h.2]
end

theorem Atom.size_ge (a : Atom) : 8 ≤ a.size := by
  cases a with
  | leaf n w p => cases w <;> simp [Atom.size, hdrLen] <;> omega
  | node n w s cs => cases w <;> simp [Atom.size, hdrLen] <;> omega

/-- what follows the header: the payload, or the skipped bytes and the rendered children -/
def Atom.body : Atom → Bytes
  | .leaf _ _ p => p
  | .node _ _ s cs => s ++ renderList cs

theorem Atom.render_eq (a : Atom) : a.render = header a.name a.isWide a.size ++ a.body := by
  cases a <;> simp [Atom.render, Atom.name, Atom.isWide, Atom.size, Atom.body]

theorem Atom.size_eq (a : Atom) (h : a.wf) : a.size = hdrLen a.isWide + a.body.length := by
  cases a with
  | leaf n w p => simp [Atom.size, Atom.isWide, Atom.body]
  | node n w s cs =>
    simp only [Atom.wf] at h
    simp [Atom.size, Atom.isWide, Atom.body, length_renderList cs h.2.2.2.2]; omega

theorem Atom.size_fits (a : Atom) (h : a.wf) : a.size < (if a.isWide then 2 ^ 64 else 2 ^ 32) := by
  cases a with
  | leaf n w p => simp only [Atom.wf] at h; cases w <;> simp_all [Atom.size, Atom.isWide]
  | node n w s cs =>
    simp only [Atom.wf] at h
    obtain ⟨_, _, _, h4, _⟩ := h
    cases w <;> simpa [Atom.size, Atom.isWide] using h4

theorem toBE4_cons (n : Nat) : ∃ a b c d, toBE 4 n = [a, b, c, d] := by
  have h : (toBE 4 n).length = 4 := length_toBE _ _
  match hq : toBE 4 n, h with
  | [a, b, c, d], _ => exact ⟨a, b, c, d, rfl⟩

theorem name4_cons (n : Bytes) (h : n.length = 4) : ∃ a b c d, n = [a, b, c, d] := by
  match n, h with
  | [a, b, c, d], _ => exact ⟨a, b, c, d, rfl⟩

/-- the header of a rendered well-formed atom is read back exactly -/
theorem splitHeader_render (a : Atom) (h : a.wf) (tail : Bytes) :
    splitHeader (a.render ++ tail) = some (a.name, a.isWide, a.body, tail) := by
  have hn := a.wf_name h
  have hsz := a.size_eq h
  have hfit := a.size_fits h
  have hge := a.size_ge
  obtain ⟨n0, n1, n2, n3, hname⟩ := name4_cons a.name hn
  rw [a.render_eq]
  generalize a.size = size at *
  generalize a.body = body at *
  generalize a.name = name at *
  cases hw : a.isWide with
  | false =>
    rw [hw] at hsz hfit
    simp only [hdrLen, Bool.false_eq_true, ↓reduceIte] at hsz hfit
    obtain ⟨s3, s2, s1, s0, hs⟩ := toBE4_cons size
    have hof : ofBE [s3, s2, s1, s0] = size := by rw [← hs]; exact ofBE_toBE 4 size (by simpa using hfit)
    subst hname
    simp only [header, Bool.false_eq_true, ↓reduceIte, hs, List.cons_append, List.nil_append, splitHeader, hof]
    have h1 : ¬ size = 1 := by omega
    have h2 : ¬ (size < 8 ∨ (body ++ tail).length + 1 + 1 + 1 + 1 + 1 + 1 + 1 + 1 < size) := by
      simp only [List.length_append]; omega
    simp only [List.length_cons, h1, h2, ↓reduceIte, Option.some.injEq, Prod.mk.injEq, true_and]
    constructor
    · rw [List.take_left' (by omega)]
    · have : size = 8 + body.length := hsz
      subst this
      have : (s3 :: s2 :: s1 :: s0 :: n0 :: n1 :: n2 :: n3 :: (body ++ tail)) =
          ([s3, s2, s1, s0, n0, n1, n2, n3] ++ body) ++ tail := by simp
      rw [this, List.drop_left' (by simp; omega)]
  | true =>
    rw [hw] at hsz hfit
    simp only [hdrLen, ↓reduceIte] at hsz hfit
    have h41 : toBE 4 1 = [0, 0, 0, 1] := by decide
    have hl8 : (toBE 8 size).length = 8 := length_toBE _ _
    have hof : ofBE (toBE 8 size) = size := ofBE_toBE 8 size (by simpa using hfit)
    subst hname
    simp only [header, ↓reduceIte, h41, List.cons_append, List.nil_append, List.append_assoc, splitHeader]
    have h1 : ofBE [(0 : UInt8), 0, 0, 1] = 1 := by decide
    have hlen : ¬ (toBE 8 size ++ (body ++ tail)).length < 8 := by simp [hl8]
    have htake : (toBE 8 size ++ (body ++ tail)).take 8 = toBE 8 size := List.take_left' hl8
    have hdrop : (toBE 8 size ++ (body ++ tail)).drop 8 = body ++ tail := List.drop_left' hl8
    simp only [h1, ↓reduceIte, hlen, htake, hof, hdrop]
    have h2 : ¬ (size < 16 ∨ (0 :: 0 :: 0 :: 1 :: n0 :: n1 :: n2 :: n3 :: (toBE 8 size ++ (body ++ tail))).length < size) := by
      simp only [List.length_cons, List.length_append, hl8]; omega
    simp only [h2, ↓reduceIte, Option.some.injEq, Prod.mk.injEq, true_and]
    constructor
    · rw [List.take_left' (by omega)]
    · have : size = 16 + body.length := hsz
      subst this
      have : (0 :: 0 :: 0 :: 1 :: n0 :: n1 :: n2 :: n3 :: (toBE 8 (16 + body.length) ++ (body ++ tail))) =
          ([0, 0, 0, 1, n0, n1, n2, n3] ++ toBE 8 (16 + body.length) ++ body) ++ tail := by simp
      rw [this, List.drop_left' (by simp [hl8]; omega)]

theorem Atom.render_ne_nil (a : Atom) (h : a.wf) (tail : Bytes) : a.render ++ tail ≠ [] := by
  intro he
  have := congrArg List.length he
  simp only [List.length_append, a.length_render h, List.length_nil] at this
  have := a.size_ge
  omega

/-- `walk ∘ render = id`: the strict walker reads a rendered well-formed atom list back -/
theorem walkList_render (fuel : Nat) : ∀ (l : List Atom), wfList l → (renderList l).length < fuel →
    walkList fuel (renderList l) = some l := by
  induction fuel with
  | zero => intro l _ h; omega
  | succ fuel ih =>
    intro l hl hf
    cases l with
    | nil => simp [renderList, walkList]
    | cons a r =>
      simp only [wfList] at hl
      obtain ⟨ha, hr⟩ := hl
      have hlen : (renderList (a :: r)).length = a.size + (renderList r).length := by
        simp [renderList, a.length_render ha]
      have hge := a.size_ge
      have ihr := ih r hr (by omega)
      simp only [renderList] at hf ⊢
      unfold walkList
      simp only [a.render_ne_nil ha, ↓reduceIte, splitHeader_render a ha]
      cases a with
      | leaf n w p =>
        simp only [Atom.wf] at ha
        simp [Atom.name, Atom.isWide, Atom.body, ha.2.1, ihr]
      | node n w s cs =>
        simp only [Atom.wf] at ha
        obtain ⟨h1, h2, h3, h4, h5⟩ := ha
        have hcs : (renderList cs).length < fuel := by
          have e1 : (Atom.node n w s cs).size = hdrLen w + s.length + sizeList cs := rfl
          rw [length_renderList cs h5]
          have e2 := (Atom.node n w s cs).length_render ⟨h1, h2, h3, h4, h5⟩
          have e3 : 8 ≤ hdrLen w := by cases w <;> simp [hdrLen]
          simp only [List.length_append] at hf
          omega
        have ihc := ih cs h5 hcs
        have hb : ¬ (s ++ renderList cs).length < skipSize n := by simp [h3]
        simp only [Atom.name, Atom.isWide, Atom.body, h2, ↓reduceIte, hb]
        rw [← h3, List.drop_left' rfl, List.take_left' rfl, ihc, ihr]
        rfl

/-- C10 (c): `walk (render t) = t` for every well-formed atom list (32- and 64-bit sizes) -/
theorem walk_render (l : List Atom) (hl : wfList l) : walk (renderList l) = some l :=
  walkList_render _ l hl (by omega)

/-! ### C. `__update_parents` on the tree -/

/-- extent of the top-level list when the hole holds `n` bytes -/
def lenIn : List Frame → Hole → Nat → Nat
  | [], h, n => sizeList h.pre + n + sizeList h.post
  | fr :: r, h, n => sizeList fr.pre + (hdrLen fr.wide + fr.skip.length + lenIn r h n) + sizeList fr.post

/-- the bytes of the top-level list with `X` in the hole and every ancestor size field written as
if the hole held `n` bytes (`n = X.length`: the rendering; `n ≠ X.length`: stale size fields) -/
def mixed : List Frame → Hole → Nat → Bytes → Bytes
  | [], h, _, X => renderList h.pre ++ X ++ renderList h.post
  | fr :: r, h, n, X =>
    renderList fr.pre ++
      (header fr.name fr.wide (hdrLen fr.wide + fr.skip.length + lenIn r h n) ++ fr.skip ++ mixed r h n X) ++
      renderList fr.post

/-- the frames and the hole are made of well-formed atoms, and every ancestor size fits its field
when the hole holds `n` bytes -/
def FramesOk : List Frame → Hole → Nat → Prop
  | [], h, _ => wfList h.pre ∧ wfList h.post
  | fr :: r, h, n =>
    fr.name.length = 4 ∧ wfList fr.pre ∧ wfList fr.post ∧
      hdrLen fr.wide + fr.skip.length + lenIn r h n < (if fr.wide then 2 ^ 64 else 2 ^ 32) ∧ FramesOk r h n

theorem sizeList_fill (frames : List Frame) (h : Hole) (mid : List Atom) :
    sizeList (fill frames h mid) = lenIn frames h (sizeList mid) := by
  induction frames with
  | nil => simp [fill, lenIn, sizeList_append]; omega
  | cons fr r ih => simp [fill, lenIn, sizeList_append, sizeList, Atom.size, ih]; omega

theorem renderList_fill (frames : List Frame) (h : Hole) (mid : List Atom) :
    renderList (fill frames h mid) = mixed frames h (sizeList mid) (renderList mid) := by
  induction frames with
  | nil => simp [fill, mixed, renderList_append]
  | cons fr r ih =>
    simp [fill, mixed, renderList_append, renderList, Atom.render, ih, sizeList_fill]

/-- a well-formed filled tree has well-formed frames -/
theorem framesOk_of_wf (frames : List Frame) (h : Hole) (mid : List Atom) (hw : wfList (fill frames h mid)) :
    FramesOk frames h (sizeList mid) ∧ wfList mid := by
  induction frames with
  | nil =>
    simp only [fill, wfList_append] at hw
    exact ⟨⟨hw.1.1, hw.2⟩, hw.1.2⟩
  | cons fr r ih =>
    simp only [fill, wfList_append, wfList, Atom.wf, and_true] at hw
    obtain ⟨⟨hpre, ⟨hn, _, _, hfit, hin⟩⟩, hpost⟩ := hw
    obtain ⟨ihf, ihm⟩ := ih hin
    refine ⟨⟨hn, hpre, hpost, ?_, ihf⟩, ihm⟩
    rw [← sizeList_fill]; exact hfit

theorem length_mixed (frames : List Frame) (h : Hole) (n : Nat) (X : Bytes) (hok : FramesOk frames h n) :
    (mixed frames h n X).length = lenIn frames h X.length := by
  induction frames with
  | nil =>
    obtain ⟨h1, h2⟩ := hok
    simp [mixed, lenIn, length_renderList _ h1, length_renderList _ h2]; omega
  | cons fr r ih =>
    obtain ⟨hn, h1, h2, _, hr⟩ := hok
    simp [mixed, lenIn, length_renderList _ h1, length_renderList _ h2, length_header _ _ _ hn, ih hr]
    omega

theorem splice_mid (A X Z X' : Bytes) : splice (A ++ X ++ Z) A.length X.length X' = A ++ X' ++ Z := by
  unfold splice
  rw [List.append_assoc A X Z, List.take_left' rfl]
  congr 1
  rw [← List.append_assoc, show A.length + X.length = (A ++ X).length by simp, List.drop_left' rfl]

/-- replacing the bytes in the hole leaves everything else, in particular the (now stale) ancestor
size fields -/
theorem splice_mixed (frames : List Frame) (h : Hole) (n : Nat) (X X' : Bytes) (hok : FramesOk frames h n) :
    ∀ (P S : Bytes), splice (P ++ mixed frames h n X ++ S) (holeOffset P.length frames h) X.length X' =
      P ++ mixed frames h n X' ++ S := by
  induction frames with
  | nil =>
    intro P S
    obtain ⟨h1, h2⟩ := hok
    simp only [mixed, holeOffset]
    have := splice_mid (P ++ renderList h.pre) X (renderList h.post ++ S) X'
    simp only [List.length_append, length_renderList _ h1, List.append_assoc] at this ⊢
    exact this
  | cons fr r ih =>
    intro P S
    obtain ⟨hn, h1, h2, _, hr⟩ := hok
    simp only [mixed, holeOffset]
    have := ih hr (P ++ renderList fr.pre ++ header fr.name fr.wide (hdrLen fr.wide + fr.skip.length + lenIn r h n) ++ fr.skip)
      (renderList fr.post ++ S)
    simp only [List.length_append, length_renderList _ h1, length_header _ _ _ hn, List.append_assoc] at this ⊢
    rw [show P.length + (sizeList fr.pre + (hdrLen fr.wide + fr.skip.length)) =
      P.length + sizeList fr.pre + hdrLen fr.wide + fr.skip.length by omega] at this
    exact this

theorem readAt_mid (A M Z : Bytes) : readAt (A ++ M ++ Z) A.length M.length = M := by
  unfold readAt
  rw [List.append_assoc, List.drop_left' rfl, List.take_left' rfl]

theorem packBE_ok (w : Nat) (v : Nat) (delta : Int) (v' : Nat) (e : PyErr) (hd : (v' : Int) = v + delta)
    (hfit : v' < 256 ^ w) : packBE w ((v : Int) + delta) e = .ok (toBE w v') := by
  unfold packBE
  rw [← hd]
  have : ¬ ((v' : Int) < 0 ∨ (v' : Int) ≥ ((256 ^ w : Nat) : Int)) := by omega
  simp only [this, ↓reduceIte, Int.toNat_natCast]

/-- one round of `__update_parents` on a size field that holds `s`: afterwards it holds `s + delta` -/
theorem patchSize_header (A B name : Bytes) (wide : Bool) (s s' : Nat) (delta : Int) (hn : name.length = 4)
    (hs8 : 8 ≤ s) (hfit : s < (if wide then 2 ^ 64 else 2 ^ 32)) (hfit' : s' < (if wide then 2 ^ 64 else 2 ^ 32))
    (hd : (s' : Int) = s + delta) :
    patchSize (A ++ header name wide s ++ B) A.length delta = .ok (A ++ header name wide s' ++ B) := by
  cases wide with
  | false =>
    simp only [Bool.false_eq_true, ↓reduceIte] at hfit hfit'
    simp only [header, Bool.false_eq_true, ↓reduceIte]
    have hr : readAt (A ++ (toBE 4 s ++ name) ++ B) A.length 4 = toBE 4 s := by
      have := readAt_mid A (toBE 4 s) (name ++ B)
      simpa [List.append_assoc] using this
    have hof : ofBE (toBE 4 s) = s := ofBE_toBE 4 s (by simpa using hfit)
    unfold patchSize
    simp only [hr, length_toBE, Nat.lt_irrefl, ↓reduceIte, hof]
    have h1 : ¬ s = 1 := by omega
    have h0 : ¬ s = 0 := by omega
    simp only [h1, h0, ↓reduceIte, packBE_ok 4 s delta s' .mutagen hd (by simpa using hfit')]
    have := writeAt_mid A (toBE 4 s) (name ++ B) (toBE 4 s') (by simp)
    simp only [List.append_assoc] at this ⊢
    rw [this]
  | true =>
    simp only [↓reduceIte] at hfit hfit'
    simp only [header, ↓reduceIte]
    have h41 : toBE 4 1 = [0, 0, 0, 1] := by decide
    have hr : readAt (A ++ (toBE 4 1 ++ name ++ toBE 8 s) ++ B) A.length 4 = toBE 4 1 := by
      have := readAt_mid A (toBE 4 1) (name ++ toBE 8 s ++ B)
      simpa [List.append_assoc] using this
    have hr2 : readAt (A ++ (toBE 4 1 ++ name ++ toBE 8 s) ++ B) (A.length + 4) 12 = name ++ toBE 8 s := by
      have := readAt_mid (A ++ toBE 4 1) (name ++ toBE 8 s) B
      simpa [List.append_assoc, hn] using this
    have hof1 : ofBE (toBE 4 1) = 1 := by decide
    have hof : ofBE (toBE 8 s) = s := ofBE_toBE 8 s (by simpa using hfit)
    unfold patchSize
    simp only [hr, hr2, length_toBE, Nat.lt_irrefl, ↓reduceIte, hof1]
    rw [List.drop_left' hn]
    simp only [length_toBE, Nat.lt_irrefl, ↓reduceIte, hof, packBE_ok 8 s delta s' .mutagen hd (by simpa using hfit')]
    have := writeAt_mid (A ++ toBE 4 1 ++ name) (toBE 8 s) B (toBE 8 s') (by simp)
    simp only [List.append_assoc, List.length_append, length_toBE, hn] at this ⊢
    rw [show A.length + (4 + 4) = A.length + 8 by omega] at this
    rw [this]

theorem lenIn_shift (frames : List Frame) (h : Hole) (n n' : Nat) (delta : Int) (hd : (n' : Int) = n + delta) :
    (lenIn frames h n' : Int) = lenIn frames h n + delta := by
  induction frames with
  | nil => simp only [lenIn]; omega
  | cons fr r ih => simp only [lenIn]; omega

theorem le_lenIn (frames : List Frame) (h : Hole) (n : Nat) : 0 ≤ lenIn frames h n := Nat.zero_le _

/-- `__update_parents` along the path turns the stale size fields (hole of `n` bytes) into the
ones for a hole of `n' = n + delta` bytes -/
theorem updateParents_mixed (frames : List Frame) (h : Hole) (n n' : Nat) (delta : Int) (X : Bytes)
    (hd : (n' : Int) = n + delta) (hok : FramesOk frames h n) (hok' : FramesOk frames h n') :
    ∀ (P S : Bytes), updateParents (P ++ mixed frames h n X ++ S) (frameOffsets P.length frames) delta =
      .ok (P ++ mixed frames h n' X ++ S) := by
  induction frames with
  | nil => intro P S; simp [updateParents, frameOffsets, mixed]
  | cons fr r ih =>
    intro P S
    obtain ⟨hn, h1, h2, hfit, hr⟩ := hok
    obtain ⟨_, _, _, hfit', hr'⟩ := hok'
    simp only [mixed, frameOffsets, updateParents]
    have hsh := lenIn_shift r h n n' delta hd
    have hp := patchSize_header (P ++ renderList fr.pre)
      (fr.skip ++ mixed r h n X ++ renderList fr.post ++ S) fr.name fr.wide
      (hdrLen fr.wide + fr.skip.length + lenIn r h n) (hdrLen fr.wide + fr.skip.length + lenIn r h n') delta hn
      (by cases fr.wide <;> simp [hdrLen] <;> omega) hfit hfit' (by omega)
    simp only [List.length_append, length_renderList _ h1, List.append_assoc] at hp ⊢
    rw [hp]
    simp only
    have := ih hr hr' (P ++ renderList fr.pre ++ header fr.name fr.wide (hdrLen fr.wide + fr.skip.length + lenIn r h n') ++ fr.skip)
      (renderList fr.post ++ S)
    simp only [List.length_append, length_renderList _ h1, length_header _ _ _ hn, List.append_assoc] at this ⊢
    rw [show P.length + (sizeList fr.pre + (hdrLen fr.wide + fr.skip.length)) =
      P.length + sizeList fr.pre + hdrLen fr.wide + fr.skip.length by omega] at this
    exact this

/-- replacing the atoms `mid` in the hole by `mid'` on the BYTES (splice, then `__update_parents`
with the path offsets and `delta`) gives exactly the rendering of the tree with `mid'` in the hole;
`P`/`S` are arbitrary bytes around the atom list (e.g. a final size-0 `mdat`) -/
theorem parent_sizes_within (frames : List Frame) (h : Hole) (mid mid' : List Atom) (P S : Bytes)
    (hw : wfList (fill frames h mid)) (hw' : wfList (fill frames h mid')) :
    updateParents
        (splice (P ++ renderList (fill frames h mid) ++ S) (holeOffset P.length frames h)
          (renderList mid).length (renderList mid'))
        (frameOffsets P.length frames) ((sizeList mid' : Int) - sizeList mid) =
      .ok (P ++ renderList (fill frames h mid') ++ S) := by
  obtain ⟨hok, hm⟩ := framesOk_of_wf frames h mid hw
  obtain ⟨hok', hm'⟩ := framesOk_of_wf frames h mid' hw'
  rw [renderList_fill, renderList_fill, splice_mixed frames h _ _ _ hok P S]
  exact updateParents_mixed frames h (sizeList mid) (sizeList mid') _ (renderList mid') (by omega) hok hok' P S

theorem parent_sizes (frames : List Frame) (h : Hole) (mid mid' : List Atom)
    (hw : wfList (fill frames h mid)) (hw' : wfList (fill frames h mid')) :
    updateParents
        (splice (renderList (fill frames h mid)) (holeOffset 0 frames h) (renderList mid).length (renderList mid'))
        (frameOffsets 0 frames) ((sizeList mid' : Int) - sizeList mid) =
      .ok (renderList (fill frames h mid')) := by
  have := parent_sizes_within frames h mid mid' [] [] hw hw'
  simpa using this

/-! ### D. the steps of `__update_parents` / `__update_offsets` touch only their own fields -/

/-- `g'` has the length of `g` and the same bytes outside `[lo, hi)` -/
def Agree (g g' : Bytes) (lo hi : Nat) : Prop :=
  g'.length = g.length ∧ ∀ i, (i < lo ∨ hi ≤ i) → g'[i]? = g[i]?

theorem Agree.refl (g : Bytes) (lo hi : Nat) : Agree g g lo hi := ⟨rfl, fun _ _ => rfl⟩

theorem Agree.mono {g g' : Bytes} {lo hi lo' hi' : Nat} (h : Agree g g' lo hi) (h1 : lo' ≤ lo) (h2 : hi ≤ hi') :
    Agree g g' lo' hi' :=
  ⟨h.1, fun i hi => h.2 i (by omega)⟩

theorem Agree.readAt {g g' : Bytes} {lo hi : Nat} (h : Agree g g' lo hi) (x n : Nat) (hd : x + n ≤ lo ∨ hi ≤ x) :
    readAt g' x n = readAt g x n := by
  apply readAt_eq_of_getElem?
  intro i hi
  exact h.2 (x + i) (by omega)

theorem writeAt_agree (g buf : Bytes) (pos : Nat) (h : pos + buf.length ≤ g.length) :
    Agree g (writeAt g pos buf) pos (pos + buf.length) := by
  refine ⟨length_writeAt g pos buf h, fun i hi => ?_⟩
  rw [getElem?_writeAt g pos buf i h]
  rcases hi with hi | hi
  · simp [hi]
  · have h1 : ¬ i < pos := by omega
    have h2 : ¬ i < pos + buf.length := by omega
    simp [h1, h2]

theorem length_readAt' (g : Bytes) (pos n : Nat) : (readAt g pos n).length = min n (g.length - pos) := by
  simp [readAt]

theorem packBE_length (w : Nat) (v : Int) (e : PyErr) (b : Bytes) (h : packBE w v e = .ok b) : b.length = w := by
  unfold packBE at h
  split at h
  · cases h
  · cases h; simp

theorem packBE_inv (w : Nat) (v : Int) (e : PyErr) (b : Bytes) (h : packBE w v e = .ok b) :
    0 ≤ v ∧ v < ((256 ^ w : Nat) : Int) ∧ b = toBE w v.toNat := by
  unfold packBE at h
  by_cases hc : v < 0 ∨ v ≥ ((256 ^ w : Nat) : Int)
  · rw [if_pos hc] at h; cases h
  · rw [if_neg hc] at h; cases h; exact ⟨by omega, by omega, rfl⟩

theorem patchSize_agree (g g' : Bytes) (off : Nat) (delta : Int) (h : patchSize g off delta = .ok g') :
    Agree g g' off (off + 16) := by
  unfold patchSize at h
  simp only at h
  split at h
  · cases h
  · rename_i h4
    rw [length_readAt'] at h4
    split at h
    · split at h
      · cases h
      · rename_i h8
        simp only [List.length_drop, length_readAt'] at h8
        split at h
        · cases h
        · rename_i b hb
          cases h
          have hl := packBE_length _ _ _ _ hb
          exact (writeAt_agree g b (off + 8) (by omega)).mono (by omega) (by omega)
    · split at h
      · cases h; exact Agree.refl _ _ _
      · split at h
        · cases h
        · rename_i b hb
          cases h
          have hl := packBE_length _ _ _ _ hb
          exact (writeAt_agree g b off (by omega)).mono (by omega) (by omega)

theorem length_entriesOf (w cnt : Nat) (d : Bytes) : (entriesOf w cnt d).length = cnt := by
  induction cnt generalizing d with
  | zero => rfl
  | succ c ih => simp [entriesOf, ih]

theorem length_encodeEntries (w : Nat) (es : List Nat) : (encodeEntries w es).length = w * es.length := by
  induction es with
  | nil => simp [encodeEntries]
  | cons e r ih =>
    simp only [encodeEntries, List.map_cons, List.flatten_cons, List.length_append, length_toBE, List.length_cons] at ih ⊢
    rw [ih]; rw [Nat.mul_succ]; omega

/-- what a successful `__update_offset_table` did: the count was readable, fits the atom, every
patched entry fits its field, and the entries were overwritten by the patched ones -/
theorem updateOffsetTable_ok (g g' : Bytes) (w off len : Nat) (delta : Int) (o : Nat) (hlen : 12 ≤ len)
    (h : updateOffsetTable8 g w off len delta o = .ok g') :
    4 ≤ (tblData g off len).length ∧ ((tblData g off len).drop 4).length = tblCnt g off len * w ∧
      (∀ v ∈ (tblEntries g w off len).map (patchEntry o delta), 0 ≤ v ∧ v < (256 ^ w : Nat)) ∧
      g' = writeAt g (off + 16) (encodeEntries w (((tblEntries g w off len).map (patchEntry o delta)).map Int.toNat)) := by
  unfold updateOffsetTable8 at h
  simp only at h
  unfold tblEntries tblCnt tblData
  split at h
  · cases h
  · rename_i h4
    split at h
    · cases h
    · rename_i hb
      split at h
      · cases h
      · rename_i hany
        cases h
        refine ⟨?_, by simpa using hb, ?_, rfl⟩
        · simp only [List.length_take] at h4; omega
        · intro v hv
          have hv' : ¬ (v < 0 ∨ v ≥ ((256 ^ w : Nat) : Int)) :=
            fun hh => hany (List.any_eq_true.mpr ⟨v, hv, by simpa using hh⟩)
          omega

theorem updateOffsetTable_agree (g g' : Bytes) (w off len : Nat) (delta : Int) (o : Nat) (hlen : 12 ≤ len)
    (h : updateOffsetTable8 g w off len delta o = .ok g') : Agree g g' (off + 16) (off + len) := by
  obtain ⟨h4, hb, _, hg⟩ := updateOffsetTable_ok g g' w off len delta o hlen h
  rw [hg]
  have hdl : (tblData g off len).length = min (len - 12) (g.length - (off + 12)) := length_readAt' _ _ _
  simp only [List.length_drop] at hb
  have hl : (encodeEntries w (((tblEntries g w off len).map (patchEntry o delta)).map Int.toNat)).length =
      (tblData g off len).length - 4 := by
    rw [length_encodeEntries, List.length_map, List.length_map, tblEntries, length_entriesOf, hb, Nat.mul_comm]
  refine (writeAt_agree g _ (off + 16) (by rw [hl]; omega)).mono (by omega) (by rw [hl]; omega)

/-- what a successful `__update_tfhd` did -/
theorem updateTfhd_ok (g g' : Bytes) (off len : Nat) (delta : Int) (o : Nat) (hlen : 9 ≤ len)
    (h : updateTfhd8 g off len delta o = .ok g') :
    3 ≤ (tfhdData g off len).length ∧
    (tfhdHasBase g off len →
      8 ≤ (((tfhdData g off len).drop 7).take 8).length ∧
      0 ≤ patchEntry o delta (tfhdBaseAt g off len) ∧
      patchEntry o delta (tfhdBaseAt g off len) < (256 ^ 8 : Nat) ∧
      g' = writeAt g (off + 16) (toBE 8 (patchEntry o delta (tfhdBaseAt g off len)).toNat)) ∧
    (¬ tfhdHasBase g off len → g' = g) := by
  unfold updateTfhd8 at h
  simp only at h
  unfold tfhdHasBase tfhdBaseAt tfhdData
  split at h
  · cases h
  · rename_i h3
    refine ⟨by simp only [List.length_take] at h3; omega, ?_⟩
    split at h
    · rename_i hodd
      refine ⟨fun _ => ?_, fun hn => absurd hodd hn⟩
      split at h
      · cases h
      · rename_i h8
        split at h
        · cases h
        · rename_i b hb
          cases h
          obtain ⟨p1, p2, p3⟩ := packBE_inv _ _ _ _ hb
          exact ⟨by omega, p1, p2, by rw [p3]⟩
    · rename_i hodd
      refine ⟨fun hy => absurd hy hodd, fun _ => ?_⟩
      cases h; rfl

theorem updateTfhd_agree (g g' : Bytes) (off len : Nat) (delta : Int) (o : Nat) (hlen : 9 ≤ len)
    (h : updateTfhd8 g off len delta o = .ok g') : Agree g g' (off + 16) (off + len) := by
  obtain ⟨h3, hy, hn⟩ := updateTfhd_ok g g' off len delta o hlen h
  by_cases hb : tfhdHasBase g off len
  · obtain ⟨h8, _, _, hg⟩ := hy hb
    rw [hg]
    simp only [tfhdData, List.length_take, List.length_drop, length_readAt'] at h8
    exact (writeAt_agree g _ (off + 16) (by simp; omega)).mono (by omega) (by simp; omega)
  · rw [hn hb]; exact Agree.refl _ _ _

/-! ### E. the whole save: no media byte is disturbed -/

theorem runSteps_append (a b : List (Bytes → Except PyErr Bytes)) (g : Bytes) :
    runSteps (a ++ b) g = match runSteps a g with
      | (none, g') => runSteps b g'
      | r => r := by
  induction a generalizing g with
  | nil => simp [runSteps]
  | cons s r ih =>
    simp only [List.cons_append, runSteps]
    cases hs : s g with
    | error e => simp
    | ok g1 => simp [ih]

/-- step `s` changes bytes only inside `[r.1, r.2)` -/
def StepIn (s : Bytes → Except PyErr Bytes) (r : Nat × Nat) : Prop :=
  ∀ g g', s g = .ok g' → Agree g g' r.1 r.2

/-- the i-th step changes bytes only inside the i-th range -/
inductive AllIn : List (Bytes → Except PyErr Bytes) → List (Nat × Nat) → Prop
  | nil : AllIn [] []
  | cons {s r ss rs} : StepIn s r → AllIn ss rs → AllIn (s :: ss) (r :: rs)

theorem AllIn.append {a b : List (Bytes → Except PyErr Bytes)} {ra rb : List (Nat × Nat)}
    (h1 : AllIn a ra) (h2 : AllIn b rb) : AllIn (a ++ b) (ra ++ rb) := by
  induction h1 with
  | nil => exact h2
  | cons hs _ ih => exact .cons hs ih

theorem runSteps_agree (steps : List (Bytes → Except PyErr Bytes)) (rs : List (Nat × Nat))
    (h : AllIn steps rs) (g g' : Bytes) (hr : runSteps steps g = (none, g')) :
    g'.length = g.length ∧
      ∀ x n, (∀ r ∈ rs, x + n ≤ r.1 ∨ r.2 ≤ x) → readAt g' x n = readAt g x n := by
  induction h generalizing g with
  | nil => simp only [runSteps, Prod.mk.injEq, true_and] at hr; subst hr; exact ⟨rfl, fun _ _ _ => rfl⟩
  | @cons s r steps rs hsr _ ih =>
    simp only [runSteps] at hr
    cases hs : s g with
    | error e => rw [hs] at hr; cases hr
    | ok g1 =>
      rw [hs] at hr
      obtain ⟨hl, hw⟩ := ih g1 hr
      have ha := hsr g g1 hs
      refine ⟨hl.trans ha.1, fun x n hd => ?_⟩
      rw [hw x n (fun r' hr' => hd r' (List.mem_cons_of_mem _ hr'))]
      exact ha.readAt x n (hd r List.mem_cons_self)

theorem parentSteps_in (parents : List PAtom) (delta : Int) (hd : delta ≠ 0) :
    AllIn (parentSteps parents delta) (parents.map parentRange) := by
  simp only [parentSteps, hd, ↓reduceIte]
  induction parents with
  | nil => exact .nil
  | cons p r ih =>
    refine .cons ?_ ih
    intro g g' h
    exact patchSize_agree g g' p.offset delta h

theorem tableSteps_in (ts : List (Nat × PAtom)) (delta : Int) (o : Nat)
    (hsz : ∀ t ∈ ts, 12 ≤ t.2.length) :
    AllIn (ts.map (tableStep8 delta o)) (ts.map (tableRange delta o)) := by
  induction ts with
  | nil => exact .nil
  | cons t r ih =>
    refine .cons ?_ (ih (fun t' ht' => hsz t' (List.mem_cons_of_mem _ ht')))
    intro g g' h
    have ht := hsz t List.mem_cons_self
    simp only [tableStep8] at h
    simp only [tableRange]
    by_cases h0 : t.1 = 0
    · simp only [h0, ↓reduceIte] at h
      exact updateTfhd_agree g g' _ _ delta o (by omega) h
    · simp only [h0, ↓reduceIte] at h
      exact updateOffsetTable_agree g g' _ _ _ delta o ht h

theorem allSteps_in (parents atoms : List PAtom) (delta : Int) (o : Nat) (hd : delta ≠ 0)
    (hm : (child? atoms nMoov).isSome) (hsz : TablesSized atoms) :
    AllIn (parentSteps parents delta ++ offsetSteps8 atoms delta o) (ranges parents atoms delta o) := by
  unfold ranges
  apply AllIn.append (parentSteps_in parents delta hd)
  unfold offsetSteps8
  simp only [hd, ↓reduceIte]
  cases hc : child? atoms nMoov with
  | none => simp [hc] at hm
  | some m => exact tableSteps_in _ delta o hsz

theorem saveAt_none (f : Bytes) (atoms parents : List PAtom) (o old : Nat) (new g : Bytes)
    (hs : saveAt8 f atoms parents o old new = (none, g)) :
    o + old ≤ f.length ∧
      runSteps (parentSteps parents ((new.length : Int) - old) ++ offsetSteps8 atoms ((new.length : Int) - old) o)
        (splice f o old new) = (none, g) := by
  unfold saveAt8 at hs
  split at hs
  · cases hs
  · exact ⟨by omega, hs⟩

/-- after a save that finished, the bytes differ from the spliced file only inside `ranges` -/
theorem saveAt_agree (f : Bytes) (atoms parents : List PAtom) (o old : Nat) (new g : Bytes)
    (hs : saveAt8 f atoms parents o old new = (none, g)) (hsz : TablesSized atoms) :
    g.length = (splice f o old new).length ∧
      ∀ x n, (∀ r ∈ ranges parents atoms ((new.length : Int) - old) o, x + n ≤ r.1 ∨ r.2 ≤ x) →
        readAt g x n = readAt (splice f o old new) x n := by
  obtain ⟨hb, hr⟩ := saveAt_none f atoms parents o old new g hs
  by_cases hd : (new.length : Int) - old = 0
  · simp only [hd, parentSteps, offsetSteps8, ↓reduceIte, List.append_nil, runSteps, Prod.mk.injEq, true_and] at hr
    subst hr
    exact ⟨rfl, fun _ _ _ => rfl⟩
  · cases hm : child? atoms nMoov with
    | none =>
      -- `atoms[b"moov"]` raises KeyError: the save does not finish
      exfalso
      rw [runSteps_append] at hr
      simp only [offsetSteps8, hd, ↓reduceIte, hm] at hr
      cases hp : runSteps (parentSteps parents ((new.length : Int) - old)) (splice f o old new) with
      | mk e g1 =>
        rw [hp] at hr
        cases e with
        | none => simp [runSteps] at hr
        | some e => simp at hr
    | some m =>
      exact runSteps_agree _ _ (allSteps_in parents atoms _ o hd (by simp [hm]) hsz) _ _ hr

/-- C10, media side: after a save that finished, an offset patched by the code's rule addresses
the same `n` bytes as before, provided these bytes avoid the replaced region (`Clear`) and, where
they lie after the save, every field the bookkeeping may rewrite (`ranges`) -/
theorem media_follow (f : Bytes) (atoms parents : List PAtom) (o old : Nat) (new g : Bytes)
    (hs : saveAt8 f atoms parents o old new = (none, g)) (hsz : TablesSized atoms)
    (e n : Nat) (hc : Clear o old e n)
    (hd : ∀ r ∈ ranges parents atoms ((new.length : Int) - old) o,
      (patchEntry o ((new.length : Int) - old) e).toNat + n ≤ r.1 ∨
        r.2 ≤ (patchEntry o ((new.length : Int) - old) e).toNat) :
    readAt g (patchEntry o ((new.length : Int) - old) e).toNat n = readAt f e n := by
  obtain ⟨_, hw⟩ := saveAt_agree f atoms parents o old new g hs hsz
  rw [hw _ n hd]
  exact splice_patched_window f new o old e n (saveAt_none f atoms parents o old new g hs).1 hc

/-! ### F. the whole save: every visited table holds the patched offsets -/

theorem runSteps_split (a b : List (Bytes → Except PyErr Bytes)) (g g' : Bytes)
    (h : runSteps (a ++ b) g = (none, g')) : ∃ gm, runSteps a g = (none, gm) ∧ runSteps b gm = (none, g') := by
  rw [runSteps_append] at h
  cases hp : runSteps a g with
  | mk e gm =>
    rw [hp] at h
    cases e with
    | none => exact ⟨gm, rfl, h⟩
    | some e => simp at h

theorem readAt_writeAt_window (g buf : Bytes) (p x n : Nat) (hx : x ≤ p) (hn : p + buf.length ≤ x + n)
    (hb : x + n ≤ g.length) :
    readAt (writeAt g p buf) x n =
      (readAt g x n).take (p - x) ++ buf ++ (readAt g x n).drop (p - x + buf.length) := by
  apply List.ext_getElem?
  intro i
  have hw : p + buf.length ≤ g.length := by omega
  simp only [getElem?_readAt, getElem?_writeAt g p buf _ hw, List.getElem?_append, List.length_take,
    List.length_append, List.getElem?_take, List.getElem?_drop, length_readAt']
  repeat' split
  all_goals first | rfl | omega | (congr 1; omega) | skip
  all_goals (first | (symm; apply List.getElem?_eq_none; omega) | (apply List.getElem?_eq_none; omega))

theorem saveAt_moov (f : Bytes) (atoms parents : List PAtom) (o old : Nat) (new g : Bytes)
    (hs : saveAt8 f atoms parents o old new = (none, g)) (hd : (new.length : Int) - old ≠ 0) :
    ∃ m, child? atoms nMoov = some m := by
  obtain ⟨_, hr⟩ := saveAt_none f atoms parents o old new g hs
  cases hm : child? atoms nMoov with
  | some m => exact ⟨m, rfl⟩
  | none =>
    exfalso
    obtain ⟨gm, _, h2⟩ := runSteps_split _ _ _ _ hr
    simp [offsetSteps8, hd, hm, runSteps] at h2

theorem tableRange_sub (delta : Int) (o : Nat) (t : Nat × PAtom) :
    (extentOf delta o t).1 ≤ (tableRange delta o t).1 ∧ (tableRange delta o t).2 = (extentOf delta o t).2 := by
  simp [extentOf, tableRange]

/-- the step of one visited table atom `t` sees, inside the extent of `t`, the bytes of the spliced
file, and what it leaves there is what the finished save leaves there — when the extents of the
fields the save writes to are pairwise disjoint -/
theorem table_isolated (f : Bytes) (atoms parents : List PAtom) (o old : Nat) (new g : Bytes)
    (hs : saveAt8 f atoms parents o old new = (none, g)) (hsz : TablesSized atoms)
    (hd : (new.length : Int) - old ≠ 0)
    (hpw : ExtentsDisjoint parents atoms ((new.length : Int) - old) o)
    (t : Nat × PAtom) (ht : t ∈ visited atoms) :
    ∃ ga gb, tableStep8 ((new.length : Int) - old) o t ga = .ok gb ∧
      ga.length = (splice f o old new).length ∧
      (∀ x n, (extentOf ((new.length : Int) - old) o t).1 ≤ x → x + n ≤ (extentOf ((new.length : Int) - old) o t).2 →
        readAt ga x n = readAt (splice f o old new) x n) ∧
      (∀ x n, (extentOf ((new.length : Int) - old) o t).1 ≤ x → x + n ≤ (extentOf ((new.length : Int) - old) o t).2 →
        readAt g x n = readAt gb x n) := by
  generalize hdl : (new.length : Int) - old = delta at *
  obtain ⟨A, B, hAB⟩ := List.append_of_mem ht
  obtain ⟨_, hr⟩ := saveAt_none f atoms parents o old new g hs
  obtain ⟨m, hm⟩ := saveAt_moov f atoms parents o old new g hs (by rw [hdl]; exact hd)
  rw [hdl] at hr
  have hsteps : parentSteps parents delta ++ offsetSteps8 atoms delta o =
      (parentSteps parents delta ++ A.map (tableStep8 delta o)) ++ ([tableStep8 delta o t] ++ B.map (tableStep8 delta o)) := by
    simp [offsetSteps8, hd, hm, hAB]
  rw [hsteps] at hr
  obtain ⟨ga, h1, h2⟩ := runSteps_split _ _ _ _ hr
  obtain ⟨gb, h3, h4⟩ := runSteps_split _ _ _ _ h2
  have hstep : tableStep8 delta o t ga = .ok gb := by
    simp only [runSteps] at h3
    cases hq : tableStep8 delta o t ga with
    | error e => rw [hq] at h3; cases h3
    | ok g2 => rw [hq] at h3; cases h3; rfl
  -- sizes of the tables before and after `t`
  have hszA : ∀ a ∈ A, 12 ≤ a.2.length :=
    fun a ha => hsz a (by rw [hAB]; simp [ha])
  have hszB : ∀ a ∈ B, 12 ≤ a.2.length :=
    fun a ha => hsz a (by rw [hAB]; simp [ha])
  have in1 : AllIn (parentSteps parents delta ++ A.map (tableStep8 delta o))
      (parents.map parentRange ++ A.map (tableRange delta o)) :=
    (parentSteps_in parents delta hd).append (tableSteps_in A delta o hszA)
  have in2 : AllIn (B.map (tableStep8 delta o)) (B.map (tableRange delta o)) := tableSteps_in B delta o hszB
  obtain ⟨hl1, hw1⟩ := runSteps_agree _ _ in1 _ _ h1
  obtain ⟨_, hw2⟩ := runSteps_agree _ _ in2 _ _ h4
  -- disjointness
  obtain ⟨hq, hPx⟩ := hpw
  simp only [hAB, List.map_append, List.map_cons] at hq
  rw [List.pairwise_append] at hq
  obtain ⟨_, hq2, hAx⟩ := hq
  rw [List.pairwise_cons] at hq2
  obtain ⟨hxB, _⟩ := hq2
  refine ⟨ga, gb, hstep, hl1, ?_, ?_⟩
  · intro x n hx1 hx2
    apply hw1
    intro r hr
    rcases List.mem_append.mp hr with hr | hr
    · obtain ⟨p, hp, rfl⟩ := List.mem_map.mp hr
      have := hPx p hp t ht
      unfold Disjoint at this; omega
    · obtain ⟨a, ha, rfl⟩ := List.mem_map.mp hr
      have := hAx (extentOf delta o a) (List.mem_map.mpr ⟨a, ha, rfl⟩) (extentOf delta o t) (by simp)
      have hsub := tableRange_sub delta o a
      unfold Disjoint at this; omega
  · intro x n hx1 hx2
    apply hw2
    intro r hr
    obtain ⟨b, hb, rfl⟩ := List.mem_map.mp hr
    have := hxB (extentOf delta o b) (List.mem_map.mpr ⟨b, hb, rfl⟩)
    have hsub := tableRange_sub delta o b
    unfold Disjoint at this; omega

theorem entriesOf_encode (w : Nat) (es : List Nat) (h : ∀ e ∈ es, e < 256 ^ w) (rest : Bytes) :
    entriesOf w es.length (encodeEntries w es ++ rest) = es := by
  induction es with
  | nil => rfl
  | cons e r ih =>
    have hl : (toBE w e).length = w := length_toBE _ _
    simp only [encodeEntries, List.map_cons, List.flatten_cons, List.length_cons, entriesOf, List.append_assoc]
    rw [List.take_left' hl, List.drop_left' hl, ofBE_toBE w e (h e (by simp))]
    congr 1
    exact ih (fun x hx => h x (by simp [hx]))

theorem shifted_eq (a : PAtom) (delta : Int) (o : Nat) : shifted a delta o = (patchEntry o delta a.offset).toNat := by
  unfold shifted patchEntry
  by_cases h : a.offset > o
  · simp [h]
  · simp [h]

/-- inside an atom that avoids the replaced region, the spliced file has the old bytes -/
theorem splice_extent (f new : Bytes) (o old off len k m : Nat) (hb : o + old ≤ f.length)
    (hc : Clear o old off len) (hk : k + m ≤ len) :
    readAt (splice f o old new) ((patchEntry o ((new.length : Int) - old) off).toNat + k) m = readAt f (off + k) m := by
  have hc' : Clear o old (off + k) m := by
    rcases hc with h | ⟨h1, h2⟩
    · left; omega
    · right; omega
  have he : (patchEntry o ((new.length : Int) - old) off).toNat + k =
      (patchEntry o ((new.length : Int) - old) (off + k)).toNat := by
    unfold patchEntry
    rcases hc with h | ⟨h1, h2⟩
    · have n1 : ¬ o < off := by omega
      have n2 : ¬ o < off + k := by omega
      simp only [n1, n2, ↓reduceIte]
      omega
    · have n2 : o < off + k := by omega
      simp only [h1, n2, ↓reduceIte]
      omega
  rw [he]
  exact splice_patched_window f new o old (off + k) m hb hc'

theorem extent_in_bounds (f new : Bytes) (o old off len : Nat) (hb : o + old ≤ f.length)
    (hc : Clear o old off len) (hin : off + len ≤ f.length) :
    (patchEntry o ((new.length : Int) - old) off).toNat + len ≤ (splice f o old new).length := by
  rw [length_splice f new o old hb]
  unfold patchEntry
  rcases hc with h | ⟨h1, h2⟩
  · have n1 : ¬ o < off := by omega
    simp [n1]; omega
  · simp only [h1, ↓reduceIte]; omega

/-- C10, table side (stco / co64): after a save that finished, a visited chunk offset table that
avoids the replaced region has the same count as before and holds exactly the old entries patched
by the rule `+ delta iff offset < entry` -/
theorem table_patched (f : Bytes) (atoms parents : List PAtom) (o old : Nat) (new g : Bytes)
    (hs : saveAt8 f atoms parents o old new = (none, g)) (hsz : TablesSized atoms)
    (hpw : ExtentsDisjoint parents atoms ((new.length : Int) - old) o)
    (t : Nat × PAtom) (ht : t ∈ visited atoms) (hw : t.1 ≠ 0)
    (hc : Clear o old t.2.offset t.2.length) (hin : t.2.offset + t.2.length ≤ f.length) :
    tblCnt g (shifted t.2 ((new.length : Int) - old) o) t.2.length = tblCnt f t.2.offset t.2.length ∧
    tblEntries g t.1 (shifted t.2 ((new.length : Int) - old) o) t.2.length =
      (tblEntries f t.1 t.2.offset t.2.length).map (fun e => (patchEntry o ((new.length : Int) - old) e).toNat) := by
  obtain ⟨hb, hr⟩ := saveAt_none f atoms parents o old new g hs
  have hlen : 12 ≤ t.2.length := hsz t ht
  have hst := shifted_eq t.2 ((new.length : Int) - old) o
  -- the table bytes in the spliced file are the old ones
  have hD1 : tblData (splice f o old new) (shifted t.2 ((new.length : Int) - old) o) t.2.length =
      tblData f t.2.offset t.2.length := by
    unfold tblData
    rw [hst]
    exact splice_extent f new o old t.2.offset t.2.length 12 (t.2.length - 12) hb hc (by omega)
  have hbound := extent_in_bounds f new o old t.2.offset t.2.length hb hc hin
  rw [← hst] at hbound
  by_cases hd : (new.length : Int) - old = 0
  · -- nothing to do: the file is the spliced file, the rule adds 0
    simp only [hd, parentSteps, offsetSteps8, ↓reduceIte, List.append_nil, runSteps, Prod.mk.injEq, true_and] at hr
    subst hr
    rw [hd] at hD1 ⊢
    unfold tblEntries tblCnt
    rw [hD1]
    refine ⟨rfl, ?_⟩
    have : (fun e : Nat => (patchEntry o 0 e).toNat) = id := by
      funext e; unfold patchEntry; simp
    rw [this, List.map_id]
  · obtain ⟨ga, gb, hstep, hl, hwa, hwb⟩ := table_isolated f atoms parents o old new g hs hsz hd hpw t ht
    generalize hdl : (new.length : Int) - old = delta at *
    generalize hsl : shifted t.2 delta o = st at *
    simp only [extentOf, hsl] at hwa hwb
    simp only [tableStep8, hw, ↓reduceIte, hsl] at hstep
    obtain ⟨h4, hbl, hfit, hgb⟩ := updateOffsetTable_ok ga gb t.1 st t.2.length delta o hlen hstep
    have hDa : tblData ga st t.2.length = tblData f t.2.offset t.2.length := by
      rw [← hD1]; unfold tblData; exact hwa _ _ (by omega) (by omega)
    have hDlen : (tblData f t.2.offset t.2.length).length = t.2.length - 12 := by
      unfold tblData; rw [length_readAt']; omega
    have hcnt : tblCnt ga st t.2.length = tblCnt f t.2.offset t.2.length := by unfold tblCnt; rw [hDa]
    have hent : tblEntries ga t.1 st t.2.length = tblEntries f t.1 t.2.offset t.2.length := by
      unfold tblEntries; rw [hcnt, hDa]
    rw [hent] at hfit hgb
    rw [hDa, hcnt] at hbl
    rw [hDa] at h4
    generalize hD : tblData f t.2.offset t.2.length = D at *
    generalize hes : tblEntries f t.1 t.2.offset t.2.length = es at *
    have heslen : es.length = tblCnt f t.2.offset t.2.length := by
      rw [← hes]; unfold tblEntries; exact length_entriesOf _ _ _
    -- the table bytes after the save
    have henc : (encodeEntries t.1 ((es.map (patchEntry o delta)).map Int.toNat)).length = D.length - 4 := by
      rw [length_encodeEntries, List.length_map, List.length_map, heslen]
      simp only [List.length_drop] at hbl
      rw [hbl, Nat.mul_comm]
    have hDg : tblData g st t.2.length =
        D.take 4 ++ encodeEntries t.1 ((es.map (patchEntry o delta)).map Int.toNat) := by
      unfold tblData
      rw [hwb _ _ (by omega) (by omega), hgb,
        readAt_writeAt_window ga _ (st + 16) (st + 12) (t.2.length - 12) (by omega) (by rw [henc]; omega) (by omega)]
      have e1 : readAt ga (st + 12) (t.2.length - 12) = D := hDa
      rw [e1, henc, show st + 16 - (st + 12) = 4 by omega,
        List.drop_eq_nil_of_le (by omega), List.append_nil]
    have ht4 : (D.take 4).length = 4 := by simp; omega
    have hcg : tblCnt g st t.2.length = tblCnt f t.2.offset t.2.length := by
      unfold tblCnt; rw [hDg, hD, List.take_left' ht4]
    refine ⟨hcg, ?_⟩
    unfold tblEntries
    rw [hcg, hDg, List.drop_left' ht4]
    have hfit' : ∀ e ∈ (es.map (patchEntry o delta)).map Int.toNat, e < 256 ^ t.1 := by
      intro e he
      obtain ⟨v, hv, rfl⟩ := List.mem_map.mp he
      have := hfit v hv
      omega
    have hl2 : ((es.map (patchEntry o delta)).map Int.toNat).length = tblCnt f t.2.offset t.2.length := by
      simp [heslen]
    have := entriesOf_encode t.1 _ hfit' []
    rw [hl2, List.append_nil] at this
    rw [this, List.map_map]
    rfl

/-- C10, table side (tfhd): after a save that finished, a visited `tfhd` that avoids the replaced
region has the same flags as before, and if it records a base data offset, that offset is the old
one patched by the rule `+ delta iff offset < base` -/
theorem tfhd_patched (f : Bytes) (atoms parents : List PAtom) (o old : Nat) (new g : Bytes)
    (hs : saveAt8 f atoms parents o old new = (none, g)) (hsz : TablesSized atoms)
    (hpw : ExtentsDisjoint parents atoms ((new.length : Int) - old) o)
    (t : Nat × PAtom) (ht : t ∈ visited atoms) (hw : t.1 = 0)
    (hc : Clear o old t.2.offset t.2.length) (hin : t.2.offset + t.2.length ≤ f.length) :
    (tfhdHasBase g (shifted t.2 ((new.length : Int) - old) o) t.2.length ↔ tfhdHasBase f t.2.offset t.2.length) ∧
    (tfhdHasBase f t.2.offset t.2.length →
      tfhdBaseAt g (shifted t.2 ((new.length : Int) - old) o) t.2.length =
        (patchEntry o ((new.length : Int) - old) (tfhdBaseAt f t.2.offset t.2.length)).toNat) := by
  obtain ⟨hb, hr⟩ := saveAt_none f atoms parents o old new g hs
  have hlen : 12 ≤ t.2.length := hsz t ht
  have hst := shifted_eq t.2 ((new.length : Int) - old) o
  have hD1 : tfhdData (splice f o old new) (shifted t.2 ((new.length : Int) - old) o) t.2.length =
      tfhdData f t.2.offset t.2.length := by
    unfold tfhdData
    rw [hst]
    exact splice_extent f new o old t.2.offset t.2.length 9 (t.2.length - 9) hb hc (by omega)
  have hbound := extent_in_bounds f new o old t.2.offset t.2.length hb hc hin
  rw [← hst] at hbound
  by_cases hd : (new.length : Int) - old = 0
  · simp only [hd, parentSteps, offsetSteps8, ↓reduceIte, List.append_nil, runSteps, Prod.mk.injEq, true_and] at hr
    subst hr
    rw [hd] at hD1 ⊢
    unfold tfhdHasBase tfhdBaseAt
    rw [hD1]
    refine ⟨Iff.rfl, fun _ => ?_⟩
    unfold patchEntry; simp
  · obtain ⟨ga, gb, hstep, hl, hwa, hwb⟩ := table_isolated f atoms parents o old new g hs hsz hd hpw t ht
    generalize hdl : (new.length : Int) - old = delta at *
    generalize hsl : shifted t.2 delta o = st at *
    simp only [extentOf, hsl] at hwa hwb
    simp only [tableStep8, hw, ↓reduceIte, hsl] at hstep
    obtain ⟨h3, hyes, hno⟩ := updateTfhd_ok ga gb st t.2.length delta o (by omega) hstep
    have hDa : tfhdData ga st t.2.length = tfhdData f t.2.offset t.2.length := by
      rw [← hD1]; unfold tfhdData; exact hwa _ _ (by omega) (by omega)
    have hDlen : (tfhdData f t.2.offset t.2.length).length = t.2.length - 9 := by
      unfold tfhdData; rw [length_readAt']; omega
    have hba : tfhdHasBase ga st t.2.length ↔ tfhdHasBase f t.2.offset t.2.length := by
      unfold tfhdHasBase; rw [hDa]
    have hva : tfhdBaseAt ga st t.2.length = tfhdBaseAt f t.2.offset t.2.length := by
      unfold tfhdBaseAt; rw [hDa]
    have hDg0 : tfhdData g st t.2.length = readAt gb (st + 9) (t.2.length - 9) := by
      unfold tfhdData; exact hwb _ _ (by omega) (by omega)
    by_cases hbase : tfhdHasBase f t.2.offset t.2.length
    · obtain ⟨h8raw, p1, p2, hgb⟩ := hyes (hba.mpr hbase)
      rw [hva] at p1 p2 hgb
      rw [hDa] at h8raw
      have hlen24 : 24 ≤ t.2.length := by
        simp only [List.length_take, List.length_drop] at h8raw
        omega
      generalize hD : tfhdData f t.2.offset t.2.length = D at *
      generalize hv : patchEntry o delta (tfhdBaseAt f t.2.offset t.2.length) = v at *
      have hDg : tfhdData g st t.2.length = D.take 7 ++ toBE 8 v.toNat ++ D.drop 15 := by
        rw [hDg0, hgb,
          readAt_writeAt_window ga _ (st + 16) (st + 9) (t.2.length - 9) (by omega) (by simp; omega) (by omega)]
        have e1 : readAt ga (st + 9) (t.2.length - 9) = D := hDa
        rw [e1, show st + 16 - (st + 9) = 7 by omega]
        simp
      have h7 : (D.take 7).length = 7 := by simp; omega
      have hflags : (tfhdData g st t.2.length).take 3 = D.take 3 := by
        rw [hDg, List.append_assoc, List.take_append_of_le_length (by omega), List.take_take]
        simp
      have hb8 : ((tfhdData g st t.2.length).drop 7).take 8 = toBE 8 v.toNat := by
        rw [hDg, List.append_assoc, List.drop_left' h7, List.take_left' (by simp)]
      refine ⟨?_, fun _ => ?_⟩
      · unfold tfhdHasBase at hbase ⊢
        rw [hflags, hD]
      · unfold tfhdBaseAt
        rw [hb8]
        exact ofBE_toBE 8 v.toNat (by omega)
    · have hgb := hno (fun h => hbase (hba.mp h))
      rw [hgb] at hDg0
      have e1 : readAt ga (st + 9) (t.2.length - 9) = tfhdData f t.2.offset t.2.length := hDa
      rw [e1] at hDg0
      refine ⟨?_, fun h => absurd h hbase⟩
      unfold tfhdHasBase
      rw [hDg0]

/-! ### G. which tables are visited -/

theorem filter_eq_find (l : List PAtom) (p : PAtom → Bool) (h : (l.filter p).length ≤ 1) :
    l.filter p = (l.find? p).toList := by
  induction l with
  | nil => rfl
  | cons a r ih =>
    by_cases hp : p a
    · simp only [List.filter_cons, hp, ↓reduceIte, List.length_cons, List.find?_cons] at h ⊢
      have : (r.filter p) = [] := List.eq_nil_of_length_eq_zero (by omega)
      simp [this]
    · simp only [List.filter_cons, hp, List.find?_cons] at h ⊢
      exact ih h

/-- with one top-level `moov`, `__update_offsets` visits every table atom of the file (any
number of top-level `moof` atoms) -/
theorem visited_eq_allTables (atoms : List PAtom)
    (hmoov : (atoms.filter (·.name = nMoov)).length = 1) :
    visited atoms = allTables atoms := by
  unfold visited allTables child?
  rw [filter_eq_find atoms (·.name = nMoov) (by omega)]
  have h1 := filter_eq_find atoms (·.name = nMoov) (by omega)
  cases hm : atoms.find? (·.name = nMoov) with
  | none => rw [hm] at h1; rw [h1] at hmoov; simp at hmoov
  | some m => simp

/-- `updateParents` (the form used in `parent_sizes`) is the `__update_parents` part of `saveAt8` -/
theorem parentSteps_updateParents (ps : List PAtom) (delta : Int) (hd : delta ≠ 0) (g g' : Bytes)
    (h : updateParents g (ps.map (·.offset)) delta = .ok g') :
    runSteps (parentSteps ps delta) g = (none, g') := by
  simp only [parentSteps, hd, ↓reduceIte]
  induction ps generalizing g with
  | nil => simp only [List.map_nil, updateParents, Except.ok.injEq] at h; subst h; rfl
  | cons p r ih =>
    simp only [List.map_cons, updateParents, runSteps] at h ⊢
    cases hp : patchSize g p.offset delta with
    | error e => rw [hp] at h; cases h
    | ok g1 => rw [hp] at h; simp only at h ⊢; exact ih g1 h

/-! ### H. the fields the code reads are the fields of the payload (8-byte header) -/

theorem readAt_drop (f : Bytes) (a n k : Nat) : (readAt f a n).drop k = readAt f (a + k) (n - k) := by
  unfold readAt
  rw [List.drop_take, List.drop_drop]

/-- for a table atom with the ordinary 8-byte header, the entries `__update_offset_table` works on
are the entries of the payload as ISO 14496-12 defines them (`tableEntries`) -/
theorem tblEntries_spec (f : Bytes) (w off len : Nat) (es : List Nat)
    (h : tableEntries w (readAt f (off + 8) (len - 8)) = some es) : tblEntries f w off len = es := by
  unfold tableEntries at h
  split at h
  · cases h
  · simp only at h
    split at h
    · cases h
    · have hd : tblData f off len = (readAt f (off + 8) (len - 8)).drop 4 := by
        unfold tblData
        rw [readAt_drop]
        congr 1 <;> omega
      simp only [Option.some.injEq] at h
      rw [← h]
      unfold tblEntries tblCnt
      rw [hd, List.drop_drop]

/-- for a `tfhd` with the ordinary 8-byte header, the flag bit and base offset `__update_tfhd` works
on are those of the payload (`tfhdBase`) -/
theorem tfhd_spec (f : Bytes) (off len : Nat) (hp : 16 ≤ (readAt f (off + 8) (len - 8)).length) :
    tfhdBase (readAt f (off + 8) (len - 8)) =
      (if ofBE ((tfhdData f off len).take 3) % 2 = 1 then some (tfhdBaseAt f off len) else none) := by
  have hd : tfhdData f off len = (readAt f (off + 8) (len - 8)).drop 1 := by
    unfold tfhdData
    rw [readAt_drop]
    congr 1 <;> omega
  unfold tfhdBase tfhdBaseAt
  have : ¬ (readAt f (off + 8) (len - 8)).length < 16 := by omega
  simp only [this, ↓reduceIte, hd, List.drop_drop]

/-! ### I. the general (header-length aware) bookkeeping coincides with the `8` form on 8-byte headers -/

theorem updateOffsetTable_hl8 (g : Bytes) (w off len : Nat) (delta : Int) (offset : Nat) :
    updateOffsetTable g 8 w off len delta offset = updateOffsetTable8 g w off len delta offset := by
  unfold updateOffsetTable updateOffsetTable8
  have e1 : off + 8 + 4 = off + 12 := by omega
  have e2 : off + 8 + 8 = off + 16 := by omega
  have e3 : len - 8 - 4 = len - 12 := by omega
  rw [e1, e2, e3]

theorem updateTfhd_hl8 (g : Bytes) (off len : Nat) (delta : Int) (offset : Nat) :
    updateTfhd g 8 off len delta offset = updateTfhd8 g off len delta offset := by
  unfold updateTfhd updateTfhd8
  have e1 : off + 8 + 1 = off + 9 := by omega
  have e2 : off + 8 + 8 = off + 16 := by omega
  have e3 : len - 8 - 1 = len - 9 := by omega
  rw [e1, e2, e3]

theorem tableStep_eq8 (delta : Int) (offset : Nat) (t : Nat × PAtom) (h : t.2.dataoffset = t.2.offset + 8) :
    tableStep delta offset t = tableStep8 delta offset t := by
  have hh : hdrOf t.2 = 8 := by unfold hdrOf; omega
  funext g
  unfold tableStep tableStep8
  rw [hh, updateOffsetTable_hl8, updateTfhd_hl8]

/-- table atoms that are long enough and `Clear` of the replaced region do not start inside it: the filter of
`__update_offsets` drops none of them -/
theorem visitedIn_eq_visited (atoms : List PAtom) (o old : Nat) (hsz : TablesSized atoms)
    (hc : ∀ t ∈ visited atoms, Clear o old t.2.offset t.2.length) : visitedIn atoms o old = visited atoms := by
  unfold visitedIn
  apply List.filter_eq_self.mpr
  intro t ht
  have h1 := hsz t ht
  have h2 := hc t ht
  unfold Clear at h2
  simp only [decide_eq_true_eq]
  omega

/-- on files whose visited table atoms have the ordinary 8-byte header and avoid the replaced region, the save
as the code does it now is the save the byte-level theorems are about -/
theorem saveAt_eq_saveAt8 (f : Bytes) (atoms parents : List PAtom) (o old : Nat) (new : Bytes)
    (hsz : TablesSized atoms) (hc : ∀ t ∈ visited atoms, Clear o old t.2.offset t.2.length)
    (h : ∀ t ∈ visited atoms, t.2.dataoffset = t.2.offset + 8) :
    saveAt f atoms parents o old new = saveAt8 f atoms parents o old new := by
  unfold saveAt saveAt8
  have hs : ∀ delta, offsetSteps atoms delta o old = offsetSteps8 atoms delta o := by
    intro delta
    unfold offsetSteps offsetSteps8
    rw [visitedIn_eq_visited atoms o old hsz hc]
    split
    · rfl
    · split
      · rfl
      · exact List.map_congr_left fun t ht => tableStep_eq8 delta o t (h t ht)
  simp only [hs]

end Mutagen.Mp4C
