/- Proofs/Container/Mp4.lean — lemmas about the MP4 atom tree and the offset bookkeeping -/
import MutagenModel.Model.Container.Mp4
import MutagenModel.Proofs.FileOps
import MutagenModel.Proofs.IntCodec
set_option linter.unusedVariables false
namespace Mutagen.Mp4C
open Mutagen

/-! ### A. replacing a region: where the other bytes go -/

theorem length_splice (f new : Bytes) (o old : Nat) (ho : o + old ≤ f.length) :
    (splice f o old new).length = f.length - old + new.length := by
  simp [splice]; omega

/-- bytes before the replaced region stay where they are -/
theorem splice_before (f new : Bytes) (o old i : Nat) (ho : o ≤ f.length) (hi : i < o) :
    (splice f o old new)[i]? = f[i]? := by
  unfold splice
  have h1 : (f.take o).length = o := by simp; omega
  rw [List.append_assoc, List.getElem?_append_left (by omega)]
  simp [hi]

/-- bytes after the replaced region move by `new.length - old` -/
theorem splice_after (f new : Bytes) (o old x : Nat) (ho : o + old ≤ f.length) (hx : o + old ≤ x) :
    (splice f o old new)[x + new.length - old]? = f[x]? := by
  unfold splice
  have h1 : (f.take o).length = o := by simp; omega
  rw [List.getElem?_append_right (by simp; omega)]
  simp only [List.length_append, h1, List.getElem?_drop]
  congr 1; omega

/-- an offset together with the `n` bytes it addresses avoids the replaced region `[o, o+old)`:
it ends before `o`, or it starts after `o` and not before the end of the region.  (`e = o` is
excluded: the code compares `offset < e`, so an entry equal to the region start is not patched.) -/
def Clear (o old e n : Nat) : Prop := e + n ≤ o ∨ (o < e ∧ o + old ≤ e)

instance (o old e n : Nat) : Decidable (Clear o old e n) := by unfold Clear; infer_instance

theorem readAt_eq_of_getElem? (f g : Bytes) (a b n : Nat) (h : ∀ i, i < n → g[b + i]? = f[a + i]?) :
    readAt g b n = readAt f a n := by
  apply List.ext_getElem?
  intro i
  rw [getElem?_readAt, getElem?_readAt]
  by_cases hi : i < n
  · simp [hi, h i hi]
  · simp [hi]

/-- the pure core of C10: after `[o, o+old)` is replaced by `new`, an offset patched by mutagen's
rule (`+ delta` iff `o < e`) addresses the same `n` bytes as before — provided the addressed
bytes avoid the replaced region (`Clear`) -/
theorem splice_patched_window (f new : Bytes) (o old e n : Nat) (ho : o + old ≤ f.length)
    (hc : Clear o old e n) :
    readAt (splice f o old new) (patchEntry o ((new.length : Int) - old) e).toNat n = readAt f e n := by
  rcases hc with hb | ⟨h1, h2⟩
  · have hp : patchEntry o ((new.length : Int) - old) e = e := by
      unfold patchEntry; have : ¬ o < e := by omega
      simp [this]
    rw [hp, Int.toNat_natCast]
    apply readAt_eq_of_getElem?
    intro i hi
    exact splice_before f new o old (e + i) (by omega) (by omega)
  · have hp : (patchEntry o ((new.length : Int) - old) e).toNat = e + new.length - old := by
      unfold patchEntry; simp [h1]; omega
    rw [hp]
    apply readAt_eq_of_getElem?
    intro i hi
    have := splice_after f new o old (e + i) ho (by omega)
    rw [← this]; congr 1; omega

/-! ### B. rendering and the strict walker -/

theorem length_header (name : Bytes) (wide : Bool) (size : Nat) (hn : name.length = 4) :
    (header name wide size).length = hdrLen wide := by
  cases wide <;> simp [header, hdrLen, hn]

theorem sizeList_append (a b : List Atom) : sizeList (a ++ b) = sizeList a + sizeList b := by
  induction a with
  | nil => simp [sizeList]
  | cons x r ih => simp [sizeList, ih]; omega

theorem renderList_append (a b : List Atom) : renderList (a ++ b) = renderList a ++ renderList b := by
  induction a with
  | nil => simp [renderList]
  | cons x r ih => simp [renderList, ih]

theorem wfList_append (a b : List Atom) : wfList (a ++ b) ↔ wfList a ∧ wfList b := by
  induction a with
  | nil => simp [wfList]
  | cons x r ih => simp [wfList, ih, and_assoc]

theorem Atom.wf_name (a : Atom) (h : a.wf) : a.name.length = 4 := by
  cases a <;> simp only [Atom.wf] at h <;> exact h.1

mutual
theorem Atom.length_render : (a : Atom) → a.wf → a.render.length = a.size
  | .leaf n w p, h => by
    simp only [Atom.wf] at h
    simp [Atom.render, Atom.size, length_header _ _ _ h.1]
  | .node n w s cs, h => by
    simp only [Atom.wf] at h
    simp [Atom.render, Atom.size, length_header _ _ _ h.1, length_renderList cs h.2.2.2.2]
    omega
theorem length_renderList : (l : List Atom) → wfList l → (renderList l).length = sizeList l
  | [], _ => by simp [renderList, sizeList]
  | a :: r, h => by
    simp only [wfList] at h
    simp [renderList, sizeList, Atom.length_render a h.1, length_renderList r h.2]
end

theorem Atom.size_ge (a : Atom) : 8 ≤ a.size := by
  cases a with
  | leaf n w p => cases w <;> simp [Atom.size, hdrLen] <;> omega
  | node n w s cs => cases w <;> simp [Atom.size, hdrLen] <;> omega

/-- what follows the header: the payload, or the skipped bytes and the rendered children -/
def Atom.body : Atom → Bytes
  | .leaf _ _ p => p
  | .node _ _ s cs => s ++ renderList cs

theorem Atom.render_eq (a : Atom) : a.render = header a.name a.isWide a.size ++ a.body := by
  cases a <;> simp [Atom.render, Atom.name, Atom.isWide, Atom.size, Atom.body]

theorem Atom.size_eq (a : Atom) (h : a.wf) : a.size = hdrLen a.isWide + a.body.length := by
  cases a with
  | leaf n w p => simp [Atom.size, Atom.isWide, Atom.body]
  | node n w s cs =>
    simp only [Atom.wf] at h
    simp [Atom.size, Atom.isWide, Atom.body, length_renderList cs h.2.2.2.2]; omega

theorem Atom.size_fits (a : Atom) (h : a.wf) : a.size < (if a.isWide then 2 ^ 64 else 2 ^ 32) := by
  cases a with
  | leaf n w p => simp only [Atom.wf] at h; cases w <;> simp_all [Atom.size, Atom.isWide]
  | node n w s cs =>
    simp only [Atom.wf] at h
    obtain ⟨_, _, _, h4, _⟩ := h
    cases w <;> simpa [Atom.size, Atom.isWide] using h4

theorem toBE4_cons (n : Nat) : ∃ a b c d, toBE 4 n = [a, b, c, d] := by
  have h : (toBE 4 n).length = 4 := length_toBE _ _
  match hq : toBE 4 n, h with
  | [a, b, c, d], _ => exact ⟨a, b, c, d, rfl⟩

theorem name4_cons (n : Bytes) (h : n.length = 4) : ∃ a b c d, n = [a, b, c, d] := by
  match n, h with
  | [a, b, c, d], _ => exact ⟨a, b, c, d, rfl⟩

/-- the header of a rendered well-formed atom is read back exactly -/
theorem splitHeader_render (a : Atom) (h : a.wf) (tail : Bytes) :
    splitHeader (a.render ++ tail) = some (a.name, a.isWide, a.body, tail) := by
  have hn := a.wf_name h
  have hsz := a.size_eq h
  have hfit := a.size_fits h
  have hge := a.size_ge
  obtain ⟨n0, n1, n2, n3, hname⟩ := name4_cons a.name hn
  rw [a.render_eq]
  generalize a.size = size at *
  generalize a.body = body at *
  generalize a.name = name at *
  cases hw : a.isWide with
  | false =>
    rw [hw] at hsz hfit
    simp only [hdrLen, Bool.false_eq_true, ↓reduceIte] at hsz hfit
    obtain ⟨s3, s2, s1, s0, hs⟩ := toBE4_cons size
    have hof : ofBE [s3, s2, s1, s0] = size := by rw [← hs]; exact ofBE_toBE 4 size (by simpa using hfit)
    subst hname
    simp only [header, Bool.false_eq_true, ↓reduceIte, hs, List.cons_append, List.nil_append, splitHeader, hof]
    have h1 : ¬ size = 1 := by omega
    have h2 : ¬ (size < 8 ∨ (body ++ tail).length + 1 + 1 + 1 + 1 + 1 + 1 + 1 + 1 < size) := by
      simp only [List.length_append]; omega
    simp only [List.length_cons, h1, h2, ↓reduceIte, Option.some.injEq, Prod.mk.injEq, true_and]
    constructor
    · rw [List.take_left' (by omega)]
    · have : size = 8 + body.length := hsz
      subst this
      have : (s3 :: s2 :: s1 :: s0 :: n0 :: n1 :: n2 :: n3 :: (body ++ tail)) =
          ([s3, s2, s1, s0, n0, n1, n2, n3] ++ body) ++ tail := by simp
      rw [this, List.drop_left' (by simp; omega)]
  | true =>
    rw [hw] at hsz hfit
    simp only [hdrLen, ↓reduceIte] at hsz hfit
    have h41 : toBE 4 1 = [0, 0, 0, 1] := by decide
    have hl8 : (toBE 8 size).length = 8 := length_toBE _ _
    have hof : ofBE (toBE 8 size) = size := ofBE_toBE 8 size (by simpa using hfit)
    subst hname
    simp only [header, ↓reduceIte, h41, List.cons_append, List.nil_append, List.append_assoc, splitHeader]
    have h1 : ofBE [(0 : UInt8), 0, 0, 1] = 1 := by decide
    have hlen : ¬ (toBE 8 size ++ (body ++ tail)).length < 8 := by simp [hl8]
    have htake : (toBE 8 size ++ (body ++ tail)).take 8 = toBE 8 size := List.take_left' hl8
    have hdrop : (toBE 8 size ++ (body ++ tail)).drop 8 = body ++ tail := List.drop_left' hl8
    simp only [h1, ↓reduceIte, hlen, htake, hof, hdrop]
    have h2 : ¬ (size < 16 ∨ (0 :: 0 :: 0 :: 1 :: n0 :: n1 :: n2 :: n3 :: (toBE 8 size ++ (body ++ tail))).length < size) := by
      simp only [List.length_cons, List.length_append, hl8]; omega
    simp only [h2, ↓reduceIte, Option.some.injEq, Prod.mk.injEq, true_and]
    constructor
    · rw [List.take_left' (by omega)]
    · have : size = 16 + body.length := hsz
      subst this
      have : (0 :: 0 :: 0 :: 1 :: n0 :: n1 :: n2 :: n3 :: (toBE 8 (16 + body.length) ++ (body ++ tail))) =
          ([0, 0, 0, 1, n0, n1, n2, n3] ++ toBE 8 (16 + body.length) ++ body) ++ tail := by simp
      rw [this, List.drop_left' (by simp [hl8]; omega)]

theorem Atom.render_ne_nil (a : Atom) (h : a.wf) (tail : Bytes) : a.render ++ tail ≠ [] := by
  intro he
  have := congrArg List.length he
  simp only [List.length_append, a.length_render h, List.length_nil] at this
  have := a.size_ge
  omega

/-- `walk ∘ render = id`: the strict walker reads a rendered well-formed atom list back -/
theorem walkList_render (fuel : Nat) : ∀ (l : List Atom), wfList l → (renderList l).length < fuel →
    walkList fuel (renderList l) = some l := by
  induction fuel with
  | zero => intro l _ h; omega
  | succ fuel ih =>
    intro l hl hf
    cases l with
    | nil => simp [renderList, walkList]
    | cons a r =>
      simp only [wfList] at hl
      obtain ⟨ha, hr⟩ := hl
      have hlen : (renderList (a :: r)).length = a.size + (renderList r).length := by
        simp [renderList, a.length_render ha]
      have hge := a.size_ge
      have ihr := ih r hr (by omega)
      simp only [renderList] at hf ⊢
      unfold walkList
      simp only [a.render_ne_nil ha, ↓reduceIte, splitHeader_render a ha]
      cases a with
      | leaf n w p =>
        simp only [Atom.wf] at ha
        simp [Atom.name, Atom.isWide, Atom.body, ha.2.1, ihr]
      | node n w s cs =>
        simp only [Atom.wf] at ha
        obtain ⟨h1, h2, h3, h4, h5⟩ := ha
        have hcs : (renderList cs).length < fuel := by
          have e1 : (Atom.node n w s cs).size = hdrLen w + s.length + sizeList cs := rfl
          rw [length_renderList cs h5]
          have e2 := (Atom.node n w s cs).length_render ⟨h1, h2, h3, h4, h5⟩
          have e3 : 8 ≤ hdrLen w := by cases w <;> simp [hdrLen]
          simp only [List.length_append] at hf
          omega
        have ihc := ih cs h5 hcs
        have hb : ¬ (s ++ renderList cs).length < skipSize n := by simp [h3]
        simp only [Atom.name, Atom.isWide, Atom.body, h2, ↓reduceIte, hb]
        rw [← h3, List.drop_left' rfl, List.take_left' rfl, ihc, ihr]
        rfl

/-- C10 (c): `walk (render t) = t` for every well-formed atom list (32- and 64-bit sizes) -/
theorem walk_render (l : List Atom) (hl : wfList l) : walk (renderList l) = some l :=
  walkList_render _ l hl (by omega)

/-! ### C. `__update_parents` on the tree -/

/-- extent of the top-level list when the hole holds `n` bytes -/
def lenIn : List Frame → Hole → Nat → Nat
  | [], h, n => sizeList h.pre + n + sizeList h.post
  | fr :: r, h, n => sizeList fr.pre + (hdrLen fr.wide + fr.skip.length + lenIn r h n) + sizeList fr.post

/-- the bytes of the top-level list with `X` in the hole and every ancestor size field written as
if the hole held `n` bytes (`n = X.length`: the rendering; `n ≠ X.length`: stale size fields) -/
def mixed : List Frame → Hole → Nat → Bytes → Bytes
  | [], h, _, X => renderList h.pre ++ X ++ renderList h.post
  | fr :: r, h, n, X =>
    renderList fr.pre ++
      (header fr.name fr.wide (hdrLen fr.wide + fr.skip.length + lenIn r h n) ++ fr.skip ++ mixed r h n X) ++
      renderList fr.post

/-- the frames and the hole are made of well-formed atoms, and every ancestor size fits its field
when the hole holds `n` bytes -/
def FramesOk : List Frame → Hole → Nat → Prop
  | [], h, _ => wfList h.pre ∧ wfList h.post
  | fr :: r, h, n =>
    fr.name.length = 4 ∧ wfList fr.pre ∧ wfList fr.post ∧
      hdrLen fr.wide + fr.skip.length + lenIn r h n < (if fr.wide then 2 ^ 64 else 2 ^ 32) ∧ FramesOk r h n

theorem sizeList_fill (frames : List Frame) (h : Hole) (mid : List Atom) :
    sizeList (fill frames h mid) = lenIn frames h (sizeList mid) := by
  induction frames with
  | nil => simp [fill, lenIn, sizeList_append]; omega
  | cons fr r ih => simp [fill, lenIn, sizeList_append, sizeList, Atom.size, ih]; omega

theorem renderList_fill (frames : List Frame) (h : Hole) (mid : List Atom) :
    renderList (fill frames h mid) = mixed frames h (sizeList mid) (renderList mid) := by
  induction frames with
  | nil => simp [fill, mixed, renderList_append]
  | cons fr r ih =>
    simp [fill, mixed, renderList_append, renderList, Atom.render, ih, sizeList_fill]

/-- a well-formed filled tree has well-formed frames -/
theorem framesOk_of_wf (frames : List Frame) (h : Hole) (mid : List Atom) (hw : wfList (fill frames h mid)) :
    FramesOk frames h (sizeList mid) ∧ wfList mid := by
  induction frames with
  | nil =>
    simp only [fill, wfList_append] at hw
    exact ⟨⟨hw.1.1, hw.2⟩, hw.1.2⟩
  | cons fr r ih =>
    simp only [fill, wfList_append, wfList, Atom.wf, and_true] at hw
    obtain ⟨⟨hpre, ⟨hn, _, _, hfit, hin⟩⟩, hpost⟩ := hw
    obtain ⟨ihf, ihm⟩ := ih hin
    refine ⟨⟨hn, hpre, hpost, ?_, ihf⟩, ihm⟩
    rw [← sizeList_fill]; exact hfit

theorem length_mixed (frames : List Frame) (h : Hole) (n : Nat) (X : Bytes) (hok : FramesOk frames h n) :
    (mixed frames h n X).length = lenIn frames h X.length := by
  induction frames with
  | nil =>
    obtain ⟨h1, h2⟩ := hok
    simp [mixed, lenIn, length_renderList _ h1, length_renderList _ h2]; omega
  | cons fr r ih =>
    obtain ⟨hn, h1, h2, _, hr⟩ := hok
    simp [mixed, lenIn, length_renderList _ h1, length_renderList _ h2, length_header _ _ _ hn, ih hr]
    omega

theorem splice_mid (A X Z X' : Bytes) : splice (A ++ X ++ Z) A.length X.length X' = A ++ X' ++ Z := by
  unfold splice
  rw [List.append_assoc A X Z, List.take_left' rfl]
  congr 1
  rw [← List.append_assoc, show A.length + X.length = (A ++ X).length by simp, List.drop_left' rfl]

/-- replacing the bytes in the hole leaves everything else, in particular the (now stale) ancestor
size fields -/
theorem splice_mixed (frames : List Frame) (h : Hole) (n : Nat) (X X' : Bytes) (hok : FramesOk frames h n) :
    ∀ (P S : Bytes), splice (P ++ mixed frames h n X ++ S) (holeOffset P.length frames h) X.length X' =
      P ++ mixed frames h n X' ++ S := by
  induction frames with
  | nil =>
    intro P S
    obtain ⟨h1, h2⟩ := hok
    simp only [mixed, holeOffset]
    have := splice_mid (P ++ renderList h.pre) X (renderList h.post ++ S) X'
    simp only [List.length_append, length_renderList _ h1, List.append_assoc] at this ⊢
    exact this
  | cons fr r ih =>
    intro P S
    obtain ⟨hn, h1, h2, _, hr⟩ := hok
    simp only [mixed, holeOffset]
    have := ih hr (P ++ renderList fr.pre ++ header fr.name fr.wide (hdrLen fr.wide + fr.skip.length + lenIn r h n) ++ fr.skip)
      (renderList fr.post ++ S)
    simp only [List.length_append, length_renderList _ h1, length_header _ _ _ hn, List.append_assoc] at this ⊢
    rw [show P.length + (sizeList fr.pre + (hdrLen fr.wide + fr.skip.length)) =
      P.length + sizeList fr.pre + hdrLen fr.wide + fr.skip.length by omega] at this
    exact this

theorem readAt_mid (A M Z : Bytes) : readAt (A ++ M ++ Z) A.length M.length = M := by
  unfold readAt
  rw [List.append_assoc, List.drop_left' rfl, List.take_left' rfl]

theorem packBE_ok (w : Nat) (v : Nat) (delta : Int) (v' : Nat) (e : PyErr) (hd : (v' : Int) = v + delta)
    (hfit : v' < 256 ^ w) : packBE w ((v : Int) + delta) e = .ok (toBE w v') := by
  unfold packBE
  rw [← hd]
  have : ¬ ((v' : Int) < 0 ∨ (v' : Int) ≥ ((256 ^ w : Nat) : Int)) := by omega
  simp only [this, ↓reduceIte, Int.toNat_natCast]

/-- one round of `__update_parents` on a size field that holds `s`: afterwards it holds `s + delta` -/
theorem patchSize_header (A B name : Bytes) (wide : Bool) (s s' : Nat) (delta : Int) (hn : name.length = 4)
    (hs8 : 8 ≤ s) (hfit : s < (if wide then 2 ^ 64 else 2 ^ 32)) (hfit' : s' < (if wide then 2 ^ 64 else 2 ^ 32))
    (hd : (s' : Int) = s + delta) :
    patchSize (A ++ header name wide s ++ B) A.length delta = .ok (A ++ header name wide s' ++ B) := by
  cases wide with
  | false =>
    simp only [Bool.false_eq_true, ↓reduceIte] at hfit hfit'
    simp only [header, Bool.false_eq_true, ↓reduceIte]
    have hr : readAt (A ++ (toBE 4 s ++ name) ++ B) A.length 4 = toBE 4 s := by
      have := readAt_mid A (toBE 4 s) (name ++ B)
      simpa [List.append_assoc] using this
    have hof : ofBE (toBE 4 s) = s := ofBE_toBE 4 s (by simpa using hfit)
    unfold patchSize
    simp only [hr, length_toBE, Nat.lt_irrefl, ↓reduceIte, hof]
    have h1 : ¬ s = 1 := by omega
    simp only [h1, ↓reduceIte, packBE_ok 4 s delta s' .struct_ hd (by simpa using hfit')]
    have := writeAt_mid A (toBE 4 s) (name ++ B) (toBE 4 s') (by simp)
    simp only [List.append_assoc] at this ⊢
    rw [this]
  | true =>
    simp only [↓reduceIte] at hfit hfit'
    simp only [header, ↓reduceIte]
    have h41 : toBE 4 1 = [0, 0, 0, 1] := by decide
    have hr : readAt (A ++ (toBE 4 1 ++ name ++ toBE 8 s) ++ B) A.length 4 = toBE 4 1 := by
      have := readAt_mid A (toBE 4 1) (name ++ toBE 8 s ++ B)
      simpa [List.append_assoc] using this
    have hr2 : readAt (A ++ (toBE 4 1 ++ name ++ toBE 8 s) ++ B) (A.length + 4) 12 = name ++ toBE 8 s := by
      have := readAt_mid (A ++ toBE 4 1) (name ++ toBE 8 s) B
      simpa [List.append_assoc, hn] using this
    have hof1 : ofBE (toBE 4 1) = 1 := by decide
    have hof : ofBE (toBE 8 s) = s := ofBE_toBE 8 s (by simpa using hfit)
    unfold patchSize
    simp only [hr, hr2, length_toBE, Nat.lt_irrefl, ↓reduceIte, hof1]
    rw [List.drop_left' hn]
    simp only [length_toBE, Nat.lt_irrefl, ↓reduceIte, hof, packBE_ok 8 s delta s' .struct_ hd (by simpa using hfit')]
    have := writeAt_mid (A ++ toBE 4 1 ++ name) (toBE 8 s) B (toBE 8 s') (by simp)
    simp only [List.append_assoc, List.length_append, length_toBE, hn] at this ⊢
    rw [show A.length + (4 + 4) = A.length + 8 by omega] at this
    rw [this]

theorem lenIn_shift (frames : List Frame) (h : Hole) (n n' : Nat) (delta : Int) (hd : (n' : Int) = n + delta) :
    (lenIn frames h n' : Int) = lenIn frames h n + delta := by
  induction frames with
  | nil => simp only [lenIn]; omega
  | cons fr r ih => simp only [lenIn]; omega

theorem le_lenIn (frames : List Frame) (h : Hole) (n : Nat) : 0 ≤ lenIn frames h n := Nat.zero_le _

/-- `__update_parents` along the path turns the stale size fields (hole of `n` bytes) into the
ones for a hole of `n' = n + delta` bytes -/
theorem updateParents_mixed (frames : List Frame) (h : Hole) (n n' : Nat) (delta : Int) (X : Bytes)
    (hd : (n' : Int) = n + delta) (hok : FramesOk frames h n) (hok' : FramesOk frames h n') :
    ∀ (P S : Bytes), updateParents (P ++ mixed frames h n X ++ S) (frameOffsets P.length frames) delta =
      .ok (P ++ mixed frames h n' X ++ S) := by
  induction frames with
  | nil => intro P S; simp [updateParents, frameOffsets, mixed]
  | cons fr r ih =>
    intro P S
    obtain ⟨hn, h1, h2, hfit, hr⟩ := hok
    obtain ⟨_, _, _, hfit', hr'⟩ := hok'
    simp only [mixed, frameOffsets, updateParents]
    have hsh := lenIn_shift r h n n' delta hd
    have hp := patchSize_header (P ++ renderList fr.pre)
      (fr.skip ++ mixed r h n X ++ renderList fr.post ++ S) fr.name fr.wide
      (hdrLen fr.wide + fr.skip.length + lenIn r h n) (hdrLen fr.wide + fr.skip.length + lenIn r h n') delta hn
      (by cases fr.wide <;> simp [hdrLen] <;> omega) hfit hfit' (by omega)
    simp only [List.length_append, length_renderList _ h1, List.append_assoc] at hp ⊢
    rw [hp]
    simp only
    have := ih hr hr' (P ++ renderList fr.pre ++ header fr.name fr.wide (hdrLen fr.wide + fr.skip.length + lenIn r h n') ++ fr.skip)
      (renderList fr.post ++ S)
    simp only [List.length_append, length_renderList _ h1, length_header _ _ _ hn, List.append_assoc] at this ⊢
    rw [show P.length + (sizeList fr.pre + (hdrLen fr.wide + fr.skip.length)) =
      P.length + sizeList fr.pre + hdrLen fr.wide + fr.skip.length by omega] at this
    exact this

/-- replacing the atoms `mid` in the hole by `mid'` on the BYTES (splice, then `__update_parents`
with the path offsets and `delta`) gives exactly the rendering of the tree with `mid'` in the hole;
`P`/`S` are arbitrary bytes around the atom list (e.g. a final size-0 `mdat`) -/
theorem parent_sizes_within (frames : List Frame) (h : Hole) (mid mid' : List Atom) (P S : Bytes)
    (hw : wfList (fill frames h mid)) (hw' : wfList (fill frames h mid')) :
    updateParents
        (splice (P ++ renderList (fill frames h mid) ++ S) (holeOffset P.length frames h)
          (renderList mid).length (renderList mid'))
        (frameOffsets P.length frames) ((sizeList mid' : Int) - sizeList mid) =
      .ok (P ++ renderList (fill frames h mid') ++ S) := by
  obtain ⟨hok, hm⟩ := framesOk_of_wf frames h mid hw
  obtain ⟨hok', hm'⟩ := framesOk_of_wf frames h mid' hw'
  rw [renderList_fill, renderList_fill, splice_mixed frames h _ _ _ hok P S]
  exact updateParents_mixed frames h (sizeList mid) (sizeList mid') _ (renderList mid') (by omega) hok hok' P S

theorem parent_sizes (frames : List Frame) (h : Hole) (mid mid' : List Atom)
    (hw : wfList (fill frames h mid)) (hw' : wfList (fill frames h mid')) :
    updateParents
        (splice (renderList (fill frames h mid)) (holeOffset 0 frames h) (renderList mid).length (renderList mid'))
        (frameOffsets 0 frames) ((sizeList mid' : Int) - sizeList mid) =
      .ok (renderList (fill frames h mid')) := by
  have := parent_sizes_within frames h mid mid' [] [] hw hw'
  simpa using this

end Mutagen.Mp4C
