/-
Proofs/Container/OggInject.lean — Ogg comment injection on a well-formed multiplexed layout:
the byte-level model (scan for the codec's comment page, collect its run, build the new packet and
pages, OggPage.replace with its renumbering) computes the page-level edit `Layout.after`; what
that edit keeps (other streams, the other packets of the edited stream), what it guarantees
(numbering, continuation flags, first/last flags) and what it does with the padding.
-/
import MutagenModel.Model.Container.OggInject
import MutagenModel.Proofs.OggParse
import MutagenModel.Proofs.OggLimits
set_option linter.unusedVariables false
namespace Mutagen.OggInj
open Mutagen Mutagen.Ogg

/-- pages that `OggPage.write` renders and `OggPage(fileobj)` reads back as they are -/
structure Good (p : Page) : Prop where
  version : p.version = 0
  flagsHi : p.flagsHi < 32
  canon : Canon p
  render : p.render = .ok (rb p)

theorem render_eq_rb (p : Page) (b : Bytes) (h : p.render = .ok b) : b = rb p := by
  unfold Page.render at h
  split at h
  · cases h
  · split at h
    · cases h
    · simp only [Except.ok.injEq] at h; exact h.symm

theorem length_toLE' (w n : Nat) : (toLE w n).length = w := by
  induction w generalizing n with
  | zero => rfl
  | succ w ih => simp [toLE, ih]

theorem length_rb (p : Page) : (rb p).length = p.size := by
  simp only [rb, Page.renderWith, Page.size, List.length_append, List.length_cons, List.length_nil,
    toSignedLE, length_toLE', List.length_map, List.length_flatten]

theorem size_ge (p : Page) : 27 ≤ p.size := by unfold Page.size; omega

@[simp] theorem renderPages_nil : renderPages [] = [] := rfl
@[simp] theorem renderPages_cons (p : Page) (ps : List Page) : renderPages (p :: ps) = rb p ++ renderPages ps := rfl
theorem renderPages_append (a b : List Page) : renderPages (a ++ b) = renderPages a ++ renderPages b := by
  simp [renderPages]

theorem length_renderPages_ge (ps : List Page) : ps.length ≤ (renderPages ps).length := by
  induction ps with
  | nil => simp
  | cons p r ih =>
    simp only [renderPages_cons, List.length_cons, List.length_append, length_rb]
    have := size_ge p; omega

/-- reading a good page where it starts -/
theorem readPage_at (f A R : Bytes) (p : Page) (hp : Good p) (hf : f = A ++ rb p ++ R) :
    readPage f A.length = .ok (p, A.length + p.size) := by
  subst hf
  unfold readPage
  have : (A ++ rb p ++ R).drop A.length = rb p ++ R := by
    rw [List.append_assoc]; exact List.drop_left' rfl
  rw [this, parse_render p (rb p) R hp.render hp.version hp.flagsHi hp.canon]
  simp only [List.length_append, length_rb]
  congr 2; omega

theorem readPage_eof (f : Bytes) : readPage f f.length = .error .eof := by
  unfold readPage
  simp [parse]


/-! ### scanning -/

theorem scanFrom_pages (f : Bytes) (pred : Page → Bool) (P1 : List Page) (q : Page) (A R : Bytes) (fuel : Nat)
    (hf : f = A ++ renderPages P1 ++ rb q ++ R)
    (h1 : ∀ p ∈ P1, Good p ∧ pred p = false) (hq : Good q) (hpq : pred q = true) (hfuel : P1.length < fuel) :
    scanFrom f pred fuel A.length =
      .ok (⟨q, A.length + (renderPages P1).length⟩, A.length + (renderPages P1).length + q.size) := by
  induction P1 generalizing A fuel with
  | nil =>
    cases fuel with
    | zero => omega
    | succ fuel =>
      simp only [renderPages_nil, List.append_nil] at hf
      simp only [scanFrom, readPage_at f A R q hq hf, hpq, ↓reduceIte, renderPages_nil, List.length_nil, Nat.add_zero]
  | cons p r ih =>
    cases fuel with
    | zero => simp at hfuel
    | succ fuel =>
      have hp := h1 p (by simp)
      have hf' : f = A ++ rb p ++ (renderPages r ++ rb q ++ R) := by
        rw [hf]; simp [List.append_assoc]
      simp only [scanFrom, readPage_at f A _ p hp.1 hf', hp.2, Bool.false_eq_true, ↓reduceIte]
      have := ih (A ++ rb p) fuel (by rw [hf]; simp [List.append_assoc])
        (fun x hx => h1 x (by simp [hx])) (by simp at hfuel; omega)
      simp only [List.length_append, length_rb] at this
      rw [this]
      simp only [renderPages_cons, List.length_append, length_rb]
      congr 2
      · congr 1; omega
      · omega


/-! ### the pages of the comment packet: slots -/

def slotsBytes (m : List Slot) : Bytes := (m.map fun s => rb s.1 ++ renderPages s.2).flatten

@[simp] theorem slotsBytes_nil : slotsBytes [] = [] := rfl
@[simp] theorem slotsBytes_cons (s : Slot) (m : List Slot) :
    slotsBytes (s :: m) = rb s.1 ++ renderPages s.2 ++ slotsBytes m := by
  simp [slotsBytes]
@[simp] theorem slotPages_nil : slotPages [] = [] := rfl
@[simp] theorem slotPages_cons (s : Slot) (m : List Slot) : slotPages (s :: m) = s.1 :: s.2 ++ slotPages m := by
  simp [slotPages]

theorem renderPages_slotPages (m : List Slot) : renderPages (slotPages m) = slotsBytes m := by
  induction m with
  | nil => rfl
  | cons s m ih => simp [renderPages_append, ih]

/-- the loop condition of the page collection: the page ends the run -/
def closed (p : Page) : Bool := p.complete || decide (p.packets.length > 1)

/-- all pages but the last leave their only packet open; the last one does not -/
def Chain : List Slot → Prop
  | [] => False
  | [s] => closed s.1 = true ∧ s.2 = []
  | s :: t :: m => closed s.1 = false ∧ Chain (t :: m)

def SlotsOK (ser : Nat) (m : List Slot) : Prop :=
  ∀ s ∈ m, Good s.1 ∧ s.1.serial = ser ∧ ∀ p ∈ s.2, Good p ∧ p.serial ≠ ser

/-- the pages with the offsets they are read at -/
def rds : Nat → List Slot → List Rd
  | _, [] => []
  | off, s :: m => ⟨s.1, off⟩ :: rds (off + s.1.size + (renderPages s.2).length) m

theorem collect_skip (f : Bytes) (ser : Nat) (g : List Page) (A X : Bytes) (fuel : Nat) (acc : List Rd) (last : Page)
    (hf : f = A ++ renderPages g ++ X) (hl : closed last = false)
    (hg : ∀ p ∈ g, Good p ∧ p.serial ≠ ser) (hfuel : g.length ≤ fuel) :
    collect f ser fuel acc last A.length =
      collect f ser (fuel - g.length) acc last (A.length + (renderPages g).length) := by
  induction g generalizing A fuel with
  | nil => simp
  | cons p r ih =>
    cases fuel with
    | zero => simp at hfuel
    | succ fuel =>
      have hp := hg p (by simp)
      have hf' : f = A ++ rb p ++ (renderPages r ++ X) := by rw [hf]; simp [List.append_assoc]
      have hl' : (last.complete || decide (last.packets.length > 1)) = false := hl
      simp only [collect, hl', Bool.false_eq_true, ↓reduceIte, readPage_at f A _ p hp.1 hf', hp.2]
      have := ih (A ++ rb p) fuel (by rw [hf]; simp [List.append_assoc]) (fun x hx => hg x (by simp [hx]))
        (by simp at hfuel; omega)
      simp only [List.length_append, length_rb] at this
      rw [this]
      simp only [renderPages_cons, List.length_append, length_rb, List.length_cons]
      congr 1
      · omega
      · omega

theorem collect_slots (f : Bytes) (ser : Nat) (m : List Slot) (c : Page) (g : List Page) (A R : Bytes) (fuel : Nat)
    (acc : List Rd)
    (hf : f = A ++ renderPages g ++ slotsBytes m ++ R) (hch : Chain ((c, g) :: m))
    (hg : ∀ p ∈ g, Good p ∧ p.serial ≠ ser) (hm : SlotsOK ser m)
    (hfuel : g.length + (slotPages m).length < fuel) :
    collect f ser fuel acc c A.length = .ok (acc ++ rds (A.length + (renderPages g).length) m) := by
  induction m generalizing c g A fuel acc with
  | nil =>
    cases fuel with
    | zero => omega
    | succ fuel =>
      have : (c.complete || decide (c.packets.length > 1)) = true := hch.1
      simp [collect, this, rds]
  | cons s m ih =>
    obtain ⟨c', g'⟩ := s
    have hopen : closed c = false := hch.1
    have hch' : Chain ((c', g') :: m) := hch.2
    have hs := hm (c', g') (by simp)
    have hs1 : Good c' := hs.1
    have hs2 : c'.serial = ser := hs.2.1
    have hs3 : ∀ p ∈ g', Good p ∧ p.serial ≠ ser := hs.2.2
    simp only [slotPages_cons, List.length_cons, List.length_append] at hfuel
    rw [collect_skip f ser g A (slotsBytes ((c', g') :: m) ++ R) fuel acc c (by rw [hf]; simp [List.append_assoc]) hopen hg (by omega)]
    have hfu : 0 < fuel - g.length := by omega
    obtain ⟨fuel', hfuel'⟩ : ∃ k, fuel - g.length = k + 1 := ⟨fuel - g.length - 1, by omega⟩
    rw [hfuel']
    have hl' : (c.complete || decide (c.packets.length > 1)) = false := hopen
    have hf' : f = (A ++ renderPages g) ++ rb c' ++ (renderPages g' ++ slotsBytes m ++ R) := by
      rw [hf]; simp [List.append_assoc]
    have hrd := readPage_at f (A ++ renderPages g) _ c' hs1 hf'
    simp only [List.length_append] at hrd
    simp only [collect, hl', Bool.false_eq_true, ↓reduceIte, hrd, hs2]
    have := ih c' g' (A ++ renderPages g ++ rb c') fuel' (acc ++ [⟨c', A.length + (renderPages g).length⟩])
      (by rw [hf]; simp [List.append_assoc]) hch' hs3 (fun x hx => hm x (by simp [hx])) (by omega)
    simp only [List.length_append, length_rb] at this
    rw [this]
    simp [rds, List.append_assoc]


/-! ### replacing the pages -/

/-- one piece of data per slot, the foreign pages in between kept -/
def splice : List Bytes → List Slot → Bytes
  | d :: ds, s :: m => d ++ renderPages s.2 ++ splice ds m
  | _, _ => []

/-- where the last piece of data ends -/
def spliceEnd : Nat → List Bytes → List Slot → Nat → Nat
  | a, d :: ds, s :: m, _ => spliceEnd (a + d.length + (renderPages s.2).length) ds m (a + d.length)
  | _, _, _, e => e

theorem replaceLoop_slots (m : List Slot) (ds : List Bytes) (hlen : ds.length = m.length) (A R : Bytes) (off : Nat)
    (adj : Int) (e : Nat) (hadj : (off : Int) + adj = A.length) :
    replaceLoop ((rds off m).zip ds) (A ++ slotsBytes m ++ R) adj e =
      (A ++ splice ds m ++ R, spliceEnd A.length ds m e) := by
  induction m generalizing ds A off adj e with
  | nil =>
    cases ds with
    | nil => simp [rds, replaceLoop, splice, spliceEnd]
    | cons d ds => simp at hlen
  | cons s m ih =>
    cases ds with
    | nil => simp at hlen
    | cons d ds =>
      simp only [rds, List.zip_cons_cons, replaceLoop, splice, spliceEnd]
      have hoff : ((off : Int) + adj).toNat = A.length := by omega
      rw [hoff]
      have h1 : (A ++ slotsBytes (s :: m) ++ R).take A.length = A := by
        rw [List.append_assoc]; exact List.take_left' rfl
      have h2 : (A ++ slotsBytes (s :: m) ++ R).drop (A.length + s.1.size) = renderPages s.2 ++ slotsBytes m ++ R := by
        rw [slotsBytes_cons]
        have : A ++ (rb s.1 ++ renderPages s.2 ++ slotsBytes m) ++ R = (A ++ rb s.1) ++ (renderPages s.2 ++ slotsBytes m ++ R) := by
          simp [List.append_assoc]
        rw [this]
        exact List.drop_left' (by simp [length_rb])
      rw [h1, h2]
      have := ih ds (by simpa using hlen) (A ++ d ++ renderPages s.2) (off + s.1.size + (renderPages s.2).length)
        (adj + (d.length : Int) - (s.1.size : Int)) (A.length + d.length)
        (by simp only [List.length_append]; omega)
      have e1 : A ++ d ++ (renderPages s.2 ++ slotsBytes m ++ R) = A ++ d ++ renderPages s.2 ++ slotsBytes m ++ R := by
        simp [List.append_assoc]
      rw [e1, this]
      simp [List.append_assoc, Nat.add_assoc]


/-! ### renumbering -/

/-- what `OggPage.write` needs: at most 255 lacing values, fields that fit the header -/
def Renderable (p : Page) : Prop :=
  p.lacing.length ≤ 255 ∧ p.serial < 2 ^ 32 ∧ p.sequence < 2 ^ 32 ∧ p.version < 256 ∧ p.flags < 256 ∧
    -(2 ^ 63 : Int) ≤ p.position ∧ p.position < (2 ^ 63 : Int)

theorem render_of_renderable (p : Page) (h : Renderable p) : p.render = .ok (rb p) := by
  obtain ⟨h1, h2, h3, h4, h5, h6, h7⟩ := h
  unfold Page.render
  rw [if_neg (by omega), if_neg (by omega)]
  rfl

theorem renderable_of_render (p : Page) (b : Bytes) (h : p.render = .ok b) : Renderable p := by
  unfold Page.render at h
  split at h
  · cases h
  · split at h
    · cases h
    · rename_i h1 h2
      unfold Renderable
      omega

theorem size_setSeq (p : Page) (n : Nat) : ({ p with sequence := n } : Page).size = p.size := rfl

theorem good_setSeq (p : Page) (n : Nat) (hp : Good p) (hn : n < 2 ^ 32) : Good { p with sequence := n } := by
  refine ⟨hp.version, hp.flagsHi, ?_, ?_⟩
  · exact hp.canon
  · apply render_of_renderable
    obtain ⟨h1, h2, h3, h4, h5, h6, h7⟩ := renderable_of_render p _ hp.render
    exact ⟨h1, h2, hn, h4, h5, h6, h7⟩

theorem renumber_pages (ser : Nat) (post : List Page) (A : Bytes) (n fuel : Nat)
    (hp : ∀ p ∈ post, Good p) (hn : n + (post.filter (·.serial = ser)).length ≤ 2 ^ 32) (hfuel : post.length < fuel) :
    renumber ser fuel (A ++ renderPages post) A.length n = ⟨A ++ renderPages (renum ser n post), none⟩ := by
  induction post generalizing A n fuel with
  | nil =>
    cases fuel with
    | zero => omega
    | succ fuel =>
      simp only [renderPages_nil, List.append_nil, renumber, readPage_eof, renum]
  | cons p r ih =>
    cases fuel with
    | zero => simp at hfuel
    | succ fuel =>
      have hgp := hp p (by simp)
      have hrd := readPage_at (A ++ renderPages (p :: r)) A (renderPages r) p hgp (by simp [List.append_assoc])
      simp only [renumber, hrd]
      by_cases hs : p.serial = ser
      · rw [if_neg (by simp [hs])]
        simp only [renum, if_pos hs]
        simp only [List.filter_cons, hs, decide_true, ↓reduceIte, List.length_cons] at hn
        have hg' := good_setSeq p n hgp (by omega)
        rw [hg'.render]
        simp only
        have hw : writeAt (A ++ renderPages (p :: r)) (A.length + p.size - p.size) (rb { p with sequence := n }) =
            (A ++ rb { p with sequence := n }) ++ renderPages r := by
          unfold writeAt
          rw [Nat.add_sub_cancel]
          have h1 : (A ++ renderPages (p :: r)).take A.length = A := List.take_left' rfl
          have h2 : (A ++ renderPages (p :: r)).drop (A.length + (rb { p with sequence := n }).length) = renderPages r := by
            rw [length_rb, size_setSeq, renderPages_cons, ← List.append_assoc]
            exact List.drop_left' (by simp [length_rb])
          rw [h1, h2]
        rw [hw]
        have := ih (A ++ rb { p with sequence := n }) (n + 1) fuel (fun x hx => hp x (by simp [hx])) (by omega)
          (by simp at hfuel; omega)
        simp only [List.length_append, length_rb, size_setSeq] at this
        rw [this]
        simp [List.append_assoc]
      · simp only [ne_eq, hs, not_false_eq_true, ↓reduceIte, renum]
        simp only [List.filter_cons, hs, decide_false, Bool.false_eq_true, ↓reduceIte] at hn
        have := ih (A ++ rb p) n fuel (fun x hx => hp x (by simp [hx])) hn (by simp at hfuel; omega)
        simp only [List.length_append, length_rb] at this
        have e : A ++ renderPages (p :: r) = A ++ rb p ++ renderPages r := by simp [List.append_assoc]
        rw [e, this]
        simp [List.append_assoc]


/-! ### OggPage.replace on a layout -/

theorem spliceEnd_chain (m : List Slot) (ds : List Bytes) (hlen : ds.length = m.length) (hch : Chain m) (a e : Nat) :
    spliceEnd a ds m e = a + (splice ds m).length := by
  induction m generalizing ds a e with
  | nil => exact absurd hch (by simp [Chain])
  | cons s m ih =>
    cases ds with
    | nil => simp at hlen
    | cons d ds =>
      cases m with
      | nil =>
        cases ds with
        | nil =>
          have : s.2 = [] := hch.2
          simp [spliceEnd, splice, this]
        | cons _ _ => simp at hlen
      | cons t m =>
        simp only [spliceEnd, splice]
        rw [ih ds (by simpa using hlen) hch.2]
        simp only [List.length_append]; omega

theorem fitData_map (nOld : Nat) (new : List Page) :
    fitData nOld (new.map rb) = (fitPages nOld new).map renderPages := by
  unfold fitData fitPages
  simp only [List.length_map]
  split
  · simp [renderPages, Function.comp_def]
  · simp [renderPages, Function.comp_def, List.map_take, List.map_drop]

theorem length_fitPages (nOld : Nat) (new : List Page) (h : 0 < nOld) : (fitPages nOld new).length = nOld := by
  unfold fitPages
  split
  · simp; omega
  · simp; omega

theorem flatten_singletons (l : List Page) : (List.map (fun p => [p]) l).flatten = l := by
  induction l with
  | nil => rfl
  | cons a r ih => simp [ih]

theorem flatten_fitPages (nOld : Nat) (new : List Page) (h : 0 < nOld) : (fitPages nOld new).flatten = new := by
  unfold fitPages
  split
  · simp only [List.flatten_append]
    have h1 := flatten_singletons new
    have h2 : ∀ k, (List.replicate k ([] : List Page)).flatten = [] := by
      intro k; induction k with
      | zero => rfl
      | succ k ih => simp [List.replicate_succ, ih]
    rw [h1, h2]; simp
  · simp only [List.flatten_append, List.flatten_cons, List.flatten_nil, List.append_nil]
    rw [flatten_singletons, List.take_append_drop]

theorem renderPages_splicePages (ds : List (List Page)) (m : List Slot) :
    renderPages (splicePages ds m) = splice (ds.map renderPages) m := by
  induction m generalizing ds with
  | nil => cases ds <;> simp [splicePages, splice]
  | cons s m ih =>
    cases ds with
    | nil => simp [splicePages, splice]
    | cons d ds => simp [splicePages, splice, renderPages_append, ih]

theorem renderList_ok (ps : List Page) (h : ∀ p ∈ ps, Renderable p) : renderList ps = .ok (ps.map rb) := by
  induction ps with
  | nil => rfl
  | cons p r ih =>
    simp only [renderList, render_of_renderable p (h p (by simp)), ih (fun x hx => h x (by simp [hx])), List.map_cons]

theorem length_rds (off : Nat) (m : List Slot) : (rds off m).length = m.length := by
  induction m generalizing off with
  | nil => rfl
  | cons s m ih => simp [rds, ih]

theorem map_page_rds (off : Nat) (m : List Slot) : (rds off m).map (·.page) = m.map (·.1) := by
  induction m generalizing off with
  | nil => rfl
  | cons s m ih => simp [rds, ih]

theorem length_number (ser seq : Nat) (ps : List Page) : (number ser seq ps).length = ps.length := by
  induction ps generalizing seq with
  | nil => rfl
  | cons p r ih => simp [number, ih]

theorem length_modHead {α : Type} (g : α → α) (l : List α) : (modHead g l).length = l.length := by
  cases l <;> rfl

theorem length_modLast {α : Type} (g : α → α) (l : List α) : (modLast g l).length = l.length := by
  induction l with
  | nil => rfl
  | cons a r ih =>
    cases r with
    | nil => rfl
    | cons b r => simp only [modLast, List.length_cons] at ih ⊢; omega

theorem length_prepare (o0 oL : Page) (new : List Page) : (prepare o0 oL new).length = new.length := by
  simp [prepare, length_modLast, length_modHead, length_number]

theorem replace_layout (A : Bytes) (m : List Slot) (post : List Page) (c1 cK : Page) (new : List Page) (ser : Nat)
    (hch : Chain m) (hhead : (m.map (·.1)).head? = some c1) (hlast : (m.map (·.1)).getLast? = some cK)
    (hnew : new ≠ []) (hser : c1.serial = ser)
    (hren : ∀ p ∈ prepare c1 cK new, Renderable p) (hpost : ∀ p ∈ post, Good p)
    (hseq : m.length ≠ new.length → c1.sequence + new.length + (post.filter (·.serial = ser)).length ≤ 2 ^ 32) :
    replace (A ++ slotsBytes m ++ renderPages post) (rds A.length m) new =
      ⟨A ++ renderPages (splicePages (fitPages m.length (prepare c1 cK new)) m) ++
         renderPages (if m.length ≠ new.length then renum ser (c1.sequence + new.length) post else post), none⟩ := by
  have hm0 : 0 < m.length := by
    cases m with
    | nil => exact absurd hch (by simp [Chain])
    | cons _ _ => simp
  have hh : (rds A.length m).head? = some ⟨c1, A.length⟩ := by
    cases m with
    | nil => simp at hm0
    | cons s m => simp only [List.map_cons, List.head?_cons, Option.some.injEq] at hhead; simp [rds, hhead]
  have hl : ∃ o, (rds A.length m).getLast? = some ⟨cK, o⟩ := by
    have h1 : ((rds A.length m).map (·.page)).getLast? = some cK := by rw [map_page_rds]; exact hlast
    rw [List.getLast?_map] at h1
    cases hg : (rds A.length m).getLast? with
    | none => rw [hg] at h1; simp at h1
    | some r =>
      rw [hg] at h1
      simp only [Option.map_some, Option.some.injEq] at h1
      exact ⟨r.offset, by cases r; simp_all⟩
  obtain ⟨oK, hl⟩ := hl
  obtain ⟨n0, nr, rfl⟩ : ∃ n0 nr, new = n0 :: nr := by
    cases new with
    | nil => exact absurd rfl hnew
    | cons a b => exact ⟨a, b, rfl⟩
  unfold replace
  rw [hh, hl]
  simp only
  rw [renderList_ok _ hren]
  simp only [length_rds]
  rw [fitData_map, replaceLoop_slots m _ (by simp [length_fitPages _ _ hm0]) A (renderPages post) A.length 0 0 (by simp)]
  simp only
  rw [spliceEnd_chain m _ (by simp [length_fitPages _ _ hm0]) hch, ← renderPages_splicePages]
  split
  · rename_i hdiff
    have := renumber_pages ser post (A ++ renderPages (splicePages (fitPages m.length (prepare c1 cK (n0 :: nr))) m))
      (c1.sequence + (n0 :: nr).length) ((A ++ renderPages (splicePages (fitPages m.length (prepare c1 cK (n0 :: nr))) m) ++ renderPages post).length + 1)
      hpost (hseq hdiff) (by
        have := length_renderPages_ge post
        simp only [List.length_append]; omega)
    simp only [List.length_append] at this ⊢
    simp only [hser]
    rw [this]
  · rfl


/-! ### the layout of a multiplexed file around the comment packet -/

/-- Vorbis and Theora: `h` is the first page in front of the run whose first packet starts with the
identification magic (the stream the tags were loaded from); the run's first page `c1` belongs to
that stream and starts with the comment magic; no page of that stream between `h` and the run does
(pages of other streams may: a second Vorbis / Theora stream in the file is not touched) -/
def IdThenCommentOK (idMagic commentMagic : Bytes) (pre : List Page) (c1 : Page) : Prop :=
  ∃ pre1 h pre2, pre = pre1 ++ h :: pre2 ∧ (∀ p ∈ pre1, startsWith idMagic p = false) ∧
    startsWith idMagic h = true ∧
    (∀ p ∈ pre2, p.serial = h.serial → startsWith commentMagic p = false) ∧
    c1.serial = h.serial ∧ startsWith commentMagic c1 = true

/-- what makes the codec's `_inject` take `c1` (the page behind `pre`) as the first page of the
comment packet -/
def StartOK (c : Codec) (pre : List Page) (c1 : Page) : Prop :=
  match c with
  | .vorbis => IdThenCommentOK magicVorbisId magicVorbisComment pre c1
  | .theora => IdThenCommentOK magicTheoraId magicTheoraComment pre c1
  | .opus => ∃ pre1 h pre2, pre = pre1 ++ h :: pre2 ∧ (∀ p ∈ pre1, startsWith magicOpusHead p = false) ∧
      startsWith magicOpusHead h = true ∧ h.first = true ∧ 19 ≤ (h.packets.headD []).length ∧
      ((h.packets.headD []).getD 8 0).toNat / 16 = 0 ∧
      (∀ p ∈ pre2, (decide (p.serial = h.serial) && startsWith magicOpusTags p) = false) ∧
      c1.serial = h.serial ∧ startsWith magicOpusTags c1 = true
  | .speex => ∃ pre1 h pre2, pre = pre1 ++ h :: pre2 ∧ (∀ p ∈ pre1, startsWith magicSpeex p = false) ∧
      startsWith magicSpeex h = true ∧ (∀ p ∈ pre2, p.serial ≠ h.serial) ∧ c1.serial = h.serial
  | .flac => ∃ pre1 h pre2, pre = pre1 ++ h :: pre2 ∧ (∀ p ∈ pre1, startsWith magicFlac p = false) ∧
      startsWith magicFlac h = true ∧ h.sequence ≠ 1 ∧ (∀ p ∈ pre2, ¬ (p.sequence = 1 ∧ p.serial = h.serial)) ∧
      c1.sequence = 1 ∧ c1.serial = h.serial

theorem vorbis_magics_disjoint (p : Page) (h : startsWith magicVorbisId p = true) :
    startsWith magicVorbisComment p = false := by
  unfold startsWith at *
  cases hp : p.packets with
  | nil => rfl
  | cons x r =>
    rw [hp] at h
    cases x with
    | nil => simp [magicVorbisComment]
    | cons a b =>
      simp only [magicVorbisId, List.isPrefixOf, Bool.and_eq_true, beq_iff_eq] at h
      simp only [magicVorbisComment, List.isPrefixOf]
      rw [← h.1]; rfl

theorem theora_magics_disjoint (p : Page) (h : startsWith magicTheoraId p = true) :
    startsWith magicTheoraComment p = false := by
  unfold startsWith at *
  cases hp : p.packets with
  | nil => rfl
  | cons x r =>
    rw [hp] at h
    cases x with
    | nil => simp [magicTheoraComment]
    | cons a b =>
      simp only [magicTheoraId, List.isPrefixOf, Bool.and_eq_true, beq_iff_eq] at h
      simp only [magicTheoraComment, List.isPrefixOf]
      rw [← h.1]; rfl

theorem idThenComment_layout (idMagic commentMagic : Bytes)
    (hdisj : ∀ p, startsWith idMagic p = true → startsWith commentMagic p = false)
    (pre : List Page) (c1 : Page) (R f : Bytes) (hpre : ∀ p ∈ pre, Good p) (hc1 : Good c1)
    (hs : IdThenCommentOK idMagic commentMagic pre c1) (hf : renderPages pre ++ rb c1 ++ R = f) :
    idThenComment f idMagic commentMagic =
      .ok (⟨c1, (renderPages pre).length⟩, (renderPages pre).length + c1.size) := by
  have hfl : pre.length < f.length + 1 := by
    rw [← hf]; have := length_renderPages_ge pre
    simp only [List.length_append]; omega
  obtain ⟨pre1, h, pre2, rfl, h1, h2, h3, h4, h5⟩ := hs
  have hgh : Good h := hpre h (by simp)
  have s1 := scanFrom_pages f (startsWith idMagic) pre1 h [] (renderPages pre2 ++ rb c1 ++ R) (f.length + 1)
    (by rw [← hf]; simp [renderPages_append, List.append_assoc])
    (fun p hp => ⟨hpre p (by simp [hp]), h1 p hp⟩) hgh h2 (by simp at hfl; omega)
  simp only [List.length_nil, Nat.zero_add] at s1
  have s2 := scanFrom_pages f (fun p => decide (p.serial = h.serial) && startsWith commentMagic p) pre2 c1
    (renderPages pre1 ++ rb h) R (f.length + 1)
    (by rw [← hf]; simp [renderPages_append, List.append_assoc])
    (fun p hp => ⟨hpre p (by simp [hp]), by
      by_cases hser : p.serial = h.serial
      · simp [hser, h3 p hp hser]
      · simp [hser]⟩) hc1 (by simp [h4, h5]) (by simp at hfl; omega)
  simp only [List.length_append, length_rb] at s2
  simp only [idThenComment, s1, hdisj h h2, Bool.and_false, Bool.false_eq_true, ↓reduceIte, s2,
    renderPages_append, renderPages_cons, List.length_append, length_rb]
  congr 3 <;> omega

theorem findStart_layout (c : Codec) (pre : List Page) (c1 : Page) (R : Bytes) (hpre : ∀ p ∈ pre, Good p) (hc1 : Good c1)
    (hs : StartOK c pre c1) :
    findStart c (renderPages pre ++ rb c1 ++ R) =
      .ok (⟨c1, (renderPages pre).length⟩, (renderPages pre).length + c1.size) := by
  have hfuel : ∀ (P : List Page) (X Y : Bytes), P.length < (X ++ renderPages P ++ Y).length + 1 := by
    intro P X Y
    have := length_renderPages_ge P
    simp only [List.length_append]; omega
  generalize hf : renderPages pre ++ rb c1 ++ R = f
  have hfl : pre.length < f.length + 1 := by
    rw [← hf]; have := hfuel pre [] (rb c1 ++ R); simpa [List.append_assoc] using this
  cases c with
  | vorbis =>
    simp only [findStart]
    exact idThenComment_layout _ _ vorbis_magics_disjoint pre c1 R f hpre hc1 hs hf
  | theora =>
    simp only [findStart]
    exact idThenComment_layout _ _ theora_magics_disjoint pre c1 R f hpre hc1 hs hf
  | opus =>
    obtain ⟨pre1, h, pre2, rfl, h1, h2, h3, h4, h5, h6, h7, h8⟩ := hs
    have hgh : Good h := hpre h (by simp)
    have s1 := scanFrom_pages f (startsWith magicOpusHead) pre1 h [] (renderPages pre2 ++ rb c1 ++ R) (f.length + 1)
      (by rw [← hf]; simp [renderPages_append, List.append_assoc])
      (fun p hp => ⟨hpre p (by simp [hp]), h1 p hp⟩) hgh h2 (by simp at hfl; omega)
    simp only [List.length_nil, Nat.zero_add] at s1
    have s2 := scanFrom_pages f (fun p => decide (p.serial = h.serial) && startsWith magicOpusTags p) pre2 c1
      (renderPages pre1 ++ rb h) R (f.length + 1)
      (by rw [← hf]; simp [renderPages_append, List.append_assoc])
      (fun p hp => ⟨hpre p (by simp [hp]), h6 p hp⟩) hc1 (by simp [h7, h8]) (by simp at hfl; omega)
    simp only [List.length_append, length_rb] at s2
    simp only [findStart, opusInfo, s1, h3, Bool.not_true, Bool.false_eq_true, ↓reduceIte]
    rw [if_neg (by omega), if_neg (fun hh => hh h5)]
    simp only [s2, renderPages_append, renderPages_cons, List.length_append, length_rb]
    congr 3 <;> omega
  | speex =>
    obtain ⟨pre1, h, pre2, rfl, h1, h2, h3, h4⟩ := hs
    have hgh : Good h := hpre h (by simp)
    have s1 := scanFrom_pages f (startsWith magicSpeex) pre1 h [] (renderPages pre2 ++ rb c1 ++ R) (f.length + 1)
      (by rw [← hf]; simp [renderPages_append, List.append_assoc])
      (fun p hp => ⟨hpre p (by simp [hp]), h1 p hp⟩) hgh h2 (by simp at hfl; omega)
    simp only [List.length_nil, Nat.zero_add] at s1
    have s2 := scanFrom_pages f (fun p => decide (p.serial = h.serial)) pre2 c1
      (renderPages pre1 ++ rb h) R (f.length + 1)
      (by rw [← hf]; simp [renderPages_append, List.append_assoc])
      (fun p hp => ⟨hpre p (by simp [hp]), by simp [h3 p hp]⟩) hc1 (by simp [h4]) (by simp at hfl; omega)
    simp only [List.length_append, length_rb] at s2
    simp only [findStart, s1, s2, renderPages_append, renderPages_cons, List.length_append, length_rb]
    congr 3 <;> omega
  | flac =>
    obtain ⟨pre1, h, pre2, rfl, h1, h2, h3, h4, h5, h6⟩ := hs
    have hgh : Good h := hpre h (by simp)
    have s1 := scanFrom_pages f (startsWith magicFlac) pre1 h [] (renderPages pre2 ++ rb c1 ++ R) (f.length + 1)
      (by rw [← hf]; simp [renderPages_append, List.append_assoc])
      (fun p hp => ⟨hpre p (by simp [hp]), h1 p hp⟩) hgh h2 (by simp at hfl; omega)
    simp only [List.length_nil, Nat.zero_add] at s1
    have s2 := scanFrom_pages f (fun p => decide (p.sequence = 1) && decide (p.serial = h.serial)) pre2 c1
      (renderPages pre1 ++ rb h) R (f.length + 1)
      (by rw [← hf]; simp [renderPages_append, List.append_assoc])
      (fun p hp => ⟨hpre p (by simp [hp]), by have := h4 p hp; simp; omega⟩) hc1 (by simp [h5, h6]) (by simp at hfl; omega)
    simp only [List.length_append, length_rb] at s2
    simp only [findStart, s1, h3, decide_false, Bool.false_and, Bool.false_eq_true, ↓reduceIte, s2,
      renderPages_append, renderPages_cons, List.length_append, length_rb]
    congr 3 <;> omega


/-- well-formed for the codec: every page is one the page reader gives back as it was written,
the pages of the comment run belong to one stream, the others in between to other streams, the run
ends where the code stops collecting, and the codec finds its first page -/
structure Layout.OK (c : Codec) (L : Layout) : Prop where
  pre : ∀ p ∈ L.pre, Good p
  slots : SlotsOK L.serial L.slots
  chain : Chain L.slots
  post : ∀ p ∈ L.post, Good p
  start : StartOK c L.pre L.c1

theorem Layout.render_eq (L : Layout) :
    L.render = renderPages L.pre ++ slotsBytes L.slots ++ renderPages L.post := by
  simp [Layout.render, Layout.pages, renderPages_append, renderPages_slotPages]

theorem commentPages_layout (c : Codec) (L : Layout) (h : L.OK c) :
    commentPages c L.render = .ok (rds (renderPages L.pre).length L.slots) := by
  obtain ⟨pre, slots, post⟩ := L
  cases slots with
  | nil => exact absurd h.chain (by simp [Chain])
  | cons s m =>
    obtain ⟨c1, g1⟩ := s
    have hc1 : Layout.c1 ⟨pre, (c1, g1) :: m, post⟩ = c1 := rfl
    have hser : Layout.serial ⟨pre, (c1, g1) :: m, post⟩ = c1.serial := rfl
    have hs := h.slots (c1, g1) (by simp)
    have hg1 : Good c1 := hs.1
    have hst := h.start
    rw [hc1] at hst
    rw [Layout.render_eq]
    simp only [slotsBytes_cons]
    have e : renderPages pre ++ (rb c1 ++ renderPages g1 ++ slotsBytes m) ++ renderPages post =
        renderPages pre ++ rb c1 ++ (renderPages g1 ++ slotsBytes m ++ renderPages post) := by
      simp [List.append_assoc]
    rw [e]
    unfold commentPages
    rw [findStart_layout c pre c1 _ h.pre hg1 hst]
    simp only
    have := collect_slots (renderPages pre ++ rb c1 ++ (renderPages g1 ++ slotsBytes m ++ renderPages post)) c1.serial m c1 g1
      (renderPages pre ++ rb c1) (renderPages post)
      ((renderPages pre ++ rb c1 ++ (renderPages g1 ++ slotsBytes m ++ renderPages post)).length + 1)
      [⟨c1, (renderPages pre).length⟩] (by simp [List.append_assoc]) h.chain
      (by have := hs.2.2; rw [hser] at this; exact this)
      (fun x hx => by have := h.slots x (by simp [hx]); rw [hser] at this; exact this)
      (by
        have h1 := length_renderPages_ge g1
        have h2 := length_renderPages_ge (slotPages m)
        rw [renderPages_slotPages] at h2
        simp only [List.length_append]; omega)
    simp only [List.length_append, length_rb] at this
    simp only [List.length_append, length_rb]
    rw [this]
    simp [rds]


theorem head_oldPages (L : Layout) (h : L.slots ≠ []) : L.oldPages.head? = some L.c1 := by
  unfold Layout.c1
  cases hh : L.oldPages with
  | nil => simp [Layout.oldPages] at hh; exact absurd hh h
  | cons a r => simp

theorem last_oldPages (L : Layout) (h : L.slots ≠ []) : L.oldPages.getLast? = some L.cK := by
  unfold Layout.cK
  cases hh : L.oldPages with
  | nil => simp [Layout.oldPages] at hh; exact absurd hh h
  | cons a r => simp [List.getLastD, List.getLast?_eq_some_getLast]

theorem injectRaw_layout (c : Codec) (L : Layout) (h : L.OK c) (vc padData : Bytes) (pad : PadChoice)
    (old0 new0 : Bytes) (others : List Bytes) (new : List Page)
    (hpk : toPackets L.oldPages false = .ok (old0 :: others))
    (hnp : newPacket c old0 vc padData pad L.render.length = .ok new0)
    (hnew : newPages c (new0 :: others) L.oldPages = .ok new) (hne : new ≠ [])
    (hren : ∀ p ∈ prepare L.c1 L.cK new, Renderable p)
    (hseq : L.slots.length ≠ new.length →
      L.c1.sequence + new.length + (L.post.filter (·.serial = L.serial)).length ≤ 2 ^ 32) :
    injectRaw c L.render vc padData pad = ⟨renderPages (L.after new), none⟩ := by
  have hsl : L.slots ≠ [] := by
    intro he; have := h.chain; rw [he] at this; exact this
  unfold injectRaw
  rw [commentPages_layout c L h]
  simp only [map_page_rds]
  have e1 : L.slots.map (·.1) = L.oldPages := rfl
  rw [e1, hpk]
  simp only
  rw [hnp]
  simp only
  rw [hnew]
  simp only
  rw [L.render_eq]
  rw [replace_layout (renderPages L.pre) L.slots L.post L.c1 L.cK new L.serial h.chain (head_oldPages L hsl)
    (last_oldPages L hsl) hne rfl hren h.post hseq]
  simp [Layout.after, renderPages_append, List.append_assoc]

theorem save_layout (c : Codec) (L : Layout) (h : L.OK c) (vc padData : Bytes) (pad : PadChoice)
    (old0 new0 : Bytes) (others : List Bytes) (new : List Page)
    (hpk : toPackets L.oldPages false = .ok (old0 :: others))
    (hnp : newPacket c old0 vc padData pad L.render.length = .ok new0)
    (hnew : newPages c (new0 :: others) L.oldPages = .ok new) (hne : new ≠ [])
    (hren : ∀ p ∈ prepare L.c1 L.cK new, Renderable p)
    (hseq : L.slots.length ≠ new.length →
      L.c1.sequence + new.length + (L.post.filter (·.serial = L.serial)).length ≤ 2 ^ 32) :
    save c L.render vc padData pad = .ok (renderPages (L.after new)) := by
  unfold save injectOutcome
  rw [injectRaw_layout c L h vc padData pad old0 new0 others new hpk hnp hnew hne hren hseq]
  rfl

/-! ### what the edit does to the page list -/

theorem others_append (ser : Nat) (a b : List Page) : others ser (a ++ b) = others ser a ++ others ser b := by
  simp [others]
theorem stream_append (ser : Nat) (a b : List Page) : stream ser (a ++ b) = stream ser a ++ stream ser b := by
  simp [stream]

theorem others_of_all (ser : Nat) (ps : List Page) (h : ∀ p ∈ ps, p.serial = ser) : others ser ps = [] := by
  simp only [others, List.filter_eq_nil_iff]
  intro p hp; simp [h p hp]
theorem others_of_none (ser : Nat) (ps : List Page) (h : ∀ p ∈ ps, p.serial ≠ ser) : others ser ps = ps := by
  simp only [others, List.filter_eq_self]
  intro p hp; simp [h p hp]
theorem stream_of_all (ser : Nat) (ps : List Page) (h : ∀ p ∈ ps, p.serial = ser) : stream ser ps = ps := by
  simp only [stream, List.filter_eq_self]
  intro p hp; simp [h p hp]
theorem stream_of_none (ser : Nat) (ps : List Page) (h : ∀ p ∈ ps, p.serial ≠ ser) : stream ser ps = [] := by
  simp only [stream, List.filter_eq_nil_iff]
  intro p hp; simp [h p hp]

theorem others_renum (ser n : Nat) (ps : List Page) : others ser (renum ser n ps) = others ser ps := by
  induction ps generalizing n with
  | nil => rfl
  | cons p r ih =>
    simp only [renum]
    split
    · rename_i hs
      simp only [others, List.filter_cons, hs, ne_eq, not_true_eq_false, decide_false, Bool.false_eq_true, ↓reduceIte]
      exact ih (n + 1)
    · rename_i hs
      simp only [others, List.filter_cons, ne_eq, hs, not_false_eq_true, decide_true, ↓reduceIte, List.cons.injEq, true_and]
      exact ih n

/-- the foreign pages between the pages of the run -/
def gaps (m : List Slot) : List Page := (m.map (·.2)).flatten

theorem others_slotPages (ser : Nat) (m : List Slot) (h : SlotsOK ser m) : others ser (slotPages m) = gaps m := by
  induction m with
  | nil => rfl
  | cons s m ih =>
    have hs := h s (by simp)
    simp only [slotPages_cons, gaps, List.map_cons, List.flatten_cons]
    rw [show s.1 :: s.2 ++ slotPages m = [s.1] ++ (s.2 ++ slotPages m) by simp, others_append, others_append,
      others_of_all ser [s.1] (by simp [hs.2.1]), others_of_none ser s.2 (fun p hp => (hs.2.2 p hp).2),
      ih (fun x hx => h x (by simp [hx]))]
    rfl

theorem stream_slotPages (ser : Nat) (m : List Slot) (h : SlotsOK ser m) : stream ser (slotPages m) = m.map (·.1) := by
  induction m with
  | nil => rfl
  | cons s m ih =>
    have hs := h s (by simp)
    simp only [slotPages_cons, List.map_cons]
    rw [show s.1 :: s.2 ++ slotPages m = [s.1] ++ (s.2 ++ slotPages m) by simp, stream_append, stream_append,
      stream_of_all ser [s.1] (by simp [hs.2.1]), stream_of_none ser s.2 (fun p hp => (hs.2.2 p hp).2),
      ih (fun x hx => h x (by simp [hx]))]
    rfl

theorem others_splicePages (ser : Nat) (ds : List (List Page)) (m : List Slot) (hlen : ds.length = m.length)
    (hd : ∀ d ∈ ds, ∀ p ∈ d, p.serial = ser) (h : SlotsOK ser m) : others ser (splicePages ds m) = gaps m := by
  induction m generalizing ds with
  | nil => cases ds <;> simp [splicePages, gaps, others]
  | cons s m ih =>
    cases ds with
    | nil => simp at hlen
    | cons d ds =>
      have hs := h s (by simp)
      simp only [splicePages, gaps, List.map_cons, List.flatten_cons]
      rw [others_append, others_append, others_of_all ser d (hd d (by simp)),
        others_of_none ser s.2 (fun p hp => (hs.2.2 p hp).2),
        ih ds (by simpa using hlen) (fun x hx => hd x (by simp [hx])) (fun x hx => h x (by simp [hx]))]
      rfl

theorem stream_splicePages (ser : Nat) (ds : List (List Page)) (m : List Slot) (hlen : ds.length = m.length)
    (hd : ∀ d ∈ ds, ∀ p ∈ d, p.serial = ser) (h : SlotsOK ser m) : stream ser (splicePages ds m) = ds.flatten := by
  induction m generalizing ds with
  | nil =>
    cases ds with
    | nil => rfl
    | cons _ _ => simp at hlen
  | cons s m ih =>
    cases ds with
    | nil => simp at hlen
    | cons d ds =>
      have hs := h s (by simp)
      simp only [splicePages, List.flatten_cons]
      rw [stream_append, stream_append, stream_of_all ser d (hd d (by simp)),
        stream_of_none ser s.2 (fun p hp => (hs.2.2 p hp).2),
        ih ds (by simpa using hlen) (fun x hx => hd x (by simp [hx])) (fun x hx => h x (by simp [hx]))]
      simp

/-! facts about `prepare` -/

theorem mem_modHead {α : Type} (g : α → α) (l : List α) (x : α) (h : x ∈ modHead g l) : ∃ y ∈ l, x = y ∨ x = g y := by
  cases l with
  | nil => simp [modHead] at h
  | cons a r =>
    simp only [modHead, List.mem_cons] at h
    rcases h with h | h
    · exact ⟨a, by simp, Or.inr h⟩
    · exact ⟨x, by simp [h], Or.inl rfl⟩

theorem mem_modLast {α : Type} (g : α → α) (l : List α) (x : α) (h : x ∈ modLast g l) : ∃ y ∈ l, x = y ∨ x = g y := by
  induction l with
  | nil => simp [modLast] at h
  | cons a r ih =>
    cases r with
    | nil =>
      simp only [modLast, List.mem_singleton] at h
      exact ⟨a, by simp, Or.inr h⟩
    | cons b r =>
      simp only [modLast, List.mem_cons] at h
      rcases h with h | h
      · exact ⟨a, by simp, Or.inl h⟩
      · obtain ⟨y, hy, hxy⟩ := ih (by simpa [List.mem_cons] using h)
        exact ⟨y, by simp [List.mem_cons] at hy ⊢; right; exact hy, hxy⟩

theorem serial_number (ser seq : Nat) (ps : List Page) : ∀ p ∈ number ser seq ps, p.serial = ser := by
  induction ps generalizing seq with
  | nil => simp [number]
  | cons q r ih =>
    intro p hp
    simp only [number, List.mem_cons] at hp
    rcases hp with rfl | hp
    · rfl
    · exact ih (seq + 1) p hp

theorem serial_prepare (o0 oL : Page) (new : List Page) : ∀ p ∈ prepare o0 oL new, p.serial = o0.serial := by
  intro p hp
  unfold prepare at hp
  obtain ⟨y, hy, hxy⟩ := mem_modLast _ _ _ hp
  obtain ⟨z, hz, hyz⟩ := mem_modHead _ _ _ hy
  have hzs := serial_number o0.serial o0.sequence new z hz
  rcases hyz with rfl | rfl <;> rcases hxy with rfl | rfl
  · exact hzs
  · simp only; split <;> exact hzs
  · exact hzs
  · simp only; split <;> exact hzs

theorem c1_serial_eq (L : Layout) (c : Codec) (h : L.OK c) : ∀ s ∈ L.slots, s.1.serial = L.serial :=
  fun s hs => (h.slots s hs).2.1

/-- C02, first half: the pages of all other logical streams are what they were, in order -/
theorem others_after (c : Codec) (L : Layout) (h : L.OK c) (new : List Page) :
    others L.serial (L.after new) = others L.serial L.pages := by
  have hsl : 0 < L.slots.length := by
    cases hh : L.slots with
    | nil => have := h.chain; rw [hh] at this; exact absurd this (by simp [Chain])
    | cons _ _ => simp
  unfold Layout.after Layout.pages
  rw [others_append, others_append, others_append, others_append, others_slotPages _ _ h.slots,
    others_splicePages L.serial _ L.slots (length_fitPages _ _ hsl) ?_ h.slots]
  · congr 1
    split
    · exact others_renum _ _ _
    · rfl
  · intro d hd p hp
    have : p ∈ (fitPages L.slots.length (prepare L.c1 L.cK new)).flatten := List.mem_flatten.mpr ⟨d, hd, hp⟩
    rw [flatten_fitPages _ _ hsl] at this
    exact serial_prepare _ _ _ p this


theorem stream_after (c : Codec) (L : Layout) (h : L.OK c) (new : List Page) :
    stream L.serial (L.after new) = stream L.serial L.pre ++ prepare L.c1 L.cK new ++
      stream L.serial (if L.slots.length ≠ new.length then renum L.serial (L.c1.sequence + new.length) L.post else L.post) := by
  have hsl : 0 < L.slots.length := by
    cases hh : L.slots with
    | nil => have := h.chain; rw [hh] at this; exact absurd this (by simp [Chain])
    | cons _ _ => simp
  unfold Layout.after
  rw [stream_append, stream_append, stream_splicePages L.serial _ L.slots (length_fitPages _ _ hsl) ?_ h.slots,
    flatten_fitPages _ _ hsl]
  intro d hd p hp
  have : p ∈ (fitPages L.slots.length (prepare L.c1 L.cK new)).flatten := List.mem_flatten.mpr ⟨d, hd, hp⟩
  rw [flatten_fitPages _ _ hsl] at this
  exact serial_prepare _ _ _ p this

theorem stream_pages (c : Codec) (L : Layout) (h : L.OK c) :
    stream L.serial L.pages = stream L.serial L.pre ++ L.oldPages ++ stream L.serial L.post := by
  unfold Layout.pages
  rw [stream_append, stream_append, stream_slotPages _ _ h.slots]
  rfl

/-! ### reassembly -/

theorem reasm_append (acc : List Bytes) (xs ys : List Page) : reasm acc (xs ++ ys) = reasm (reasm acc xs) ys := by
  induction xs generalizing acc with
  | nil => rfl
  | cons p r ih => rw [List.cons_append, reasm_cons, reasm_cons, ih]

theorem step_prefix (B Y : List Bytes) (p : Page) (hY : Y ≠ []) : step (B ++ Y) p = B ++ step Y p := by
  unfold step
  split
  · rfl
  · split
    · rw [extLast_append_of_ne_nil B Y _ hY, List.append_assoc]
    · rw [List.append_assoc]

theorem reasm_prefix (B Y : List Bytes) (ps : List Page) (hY : Y ≠ []) : reasm (B ++ Y) ps = B ++ reasm Y ps := by
  induction ps generalizing Y with
  | nil => rfl
  | cons p r ih =>
    rw [reasm_cons, reasm_cons, step_prefix B Y p hY, ih _ (step_ne_nil_of_acc Y p hY)]

/-- the first page that carries data starts a new packet -/
def startsFresh : List Page → Bool
  | [] => true
  | p :: ps => if p.packets = [] then startsFresh ps else !p.continued

theorem reasm_fresh (acc : List Bytes) (ps : List Page) (h : startsFresh ps = true) :
    reasm acc ps = acc ++ reasm [] ps := by
  induction ps with
  | nil => simp [reasm]
  | cons p r ih =>
    rw [reasm_cons, reasm_cons]
    simp only [startsFresh] at h
    by_cases hp : p.packets = []
    · simp only [hp, ↓reduceIte] at h
      have e : ∀ a, step a p = a := by intro a; simp [step, hp]
      rw [e, e]; exact ih h
    · simp only [hp, ↓reduceIte, Bool.not_eq_eq_eq_not, Bool.not_true] at h
      have e : ∀ a, step a p = a ++ p.packets := by
        intro a; unfold step
        cases hq : p.packets with
        | nil => exact absurd hq hp
        | cons f rest => simp [h]
      rw [e, e]
      have := reasm_prefix acc p.packets r hp
      rw [this]; simp

theorem startsFresh_of_contOK (ps : List Page) (h : contOK false ps) : startsFresh ps = true := by
  induction ps with
  | nil => rfl
  | cons p r ih =>
    obtain ⟨h1, h2, h3⟩ := h
    simp only [startsFresh]
    split
    · rename_i hp
      have : p.complete = true := by
        cases hc : p.complete with
        | true => rfl
        | false => exact absurd hp (h2 hc)
      rw [this] at h3
      exact ih h3
    · simp [h1]

/-- reassembly looks at the packets and the continued flags only -/
def SameData (ps qs : List Page) : Prop :=
  ps.map (fun p => (p.packets, p.continued)) = qs.map (fun p => (p.packets, p.continued))

theorem reasm_sameData (acc : List Bytes) (ps qs : List Page) (h : SameData ps qs) : reasm acc ps = reasm acc qs := by
  induction ps generalizing acc qs with
  | nil =>
    cases qs with
    | nil => rfl
    | cons _ _ => simp [SameData] at h
  | cons p r ih =>
    cases qs with
    | nil => simp [SameData] at h
    | cons q s =>
      simp only [SameData, List.map_cons, List.cons.injEq, Prod.mk.injEq] at h
      rw [reasm_cons, reasm_cons, step_congr acc p q h.1.1 h.1.2]
      exact ih _ s h.2

theorem sameData_stream_renum (ser n : Nat) (ps : List Page) : SameData (stream ser (renum ser n ps)) (stream ser ps) := by
  induction ps generalizing n with
  | nil => rfl
  | cons p r ih =>
    simp only [renum]
    split
    · rename_i hs
      simp only [stream, List.filter_cons, hs, decide_true, ↓reduceIte, SameData, List.map_cons, List.cons.injEq, true_and]
      exact ih (n + 1)
    · rename_i hs
      simp only [stream, List.filter_cons, hs, decide_false, Bool.false_eq_true, ↓reduceIte]
      exact ih n

theorem toPacketsLoop_ok (ser : Nat) (ps : List Page) (seq : Nat) (acc X : List Bytes)
    (h : toPacketsLoop ser seq acc ps = .ok X) : X = reasm acc ps := by
  induction ps generalizing seq acc with
  | nil => simp [toPacketsLoop] at h; simp [reasm, h]
  | cons p r ih =>
    unfold toPacketsLoop at h
    split at h
    · cases h
    · split at h
      · cases h
      · rw [reasm_cons]
        split at h
        · rename_i hp
          have : step acc p = acc := by simp [step, hp]
          rw [this]; exact ih _ _ h
        · rename_i f rest hp
          split at h
          · rename_i hc
            split at h
            · cases h
            · have : step acc p = extLast acc f ++ rest := by simp [step, hp, hc]
              rw [this]; exact ih _ _ h
          · rename_i hc
            have : step acc p = acc ++ f :: rest := by simp [step, hp, hc]
            rw [this]; exact ih _ _ h

theorem toPackets_ok (ps : List Page) (p0 : Page) (X : List Bytes) (hh : ps.head? = some p0) (hc : p0.continued = false)
    (h : toPackets ps false = .ok X) : X = reasm [] ps := by
  cases ps with
  | nil => simp at hh
  | cons q r =>
    simp only [List.head?_cons, Option.some.injEq] at hh
    subst hh
    simp only [toPackets, Bool.false_and, Bool.false_eq_true, ↓reduceIte, hc, Bool.not_false, Bool.and_false] at h
    exact toPacketsLoop_ok _ _ _ _ _ h

theorem length_step_ge (acc : List Bytes) (p : Page) : p.packets.length ≤ (step acc p).length := by
  unfold step
  split
  · rename_i h; simp [h]
  · rename_i f rest h
    rw [h]
    split
    · have : 1 ≤ (extLast acc f).length := by
        rcases List.eq_nil_or_concat acc with h' | ⟨l, x, h'⟩
        · rw [h']; simp
        · rw [h', List.concat_eq_append, extLast_concat]; simp
      simp only [List.length_append, List.length_cons]; omega
    · simp

theorem length_reasm_ge_last (acc : List Bytes) (ps : List Page) (p : Page) :
    p.packets.length ≤ (reasm acc (ps ++ [p])).length := by
  rw [reasm_append_singleton]; exact length_step_ge _ _


theorem oldPages_eq (L : Layout) (hne : L.slots ≠ []) : ∃ r, L.oldPages = L.c1 :: r := by
  have := head_oldPages L hne
  cases hh : L.oldPages with
  | nil => rw [hh] at this; simp at this
  | cons a r => rw [hh] at this; simp at this; exact ⟨r, by rw [this]⟩

theorem oldPages_snoc (L : Layout) (hne : L.slots ≠ []) : ∃ i, L.oldPages = i ++ [L.cK] := by
  have := last_oldPages L hne
  rcases List.eq_nil_or_concat L.oldPages with hh | ⟨i, x, hh⟩
  · rw [hh] at this; simp at this
  · rw [hh, List.concat_eq_append] at this ⊢
    simp at this
    exact ⟨i, by rw [this]⟩

theorem chain_last_closed (m : List Slot) (h : Chain m) (i : List Page) (cK : Page) (hm : m.map (·.1) = i ++ [cK]) :
    closed cK = true := by
  induction m generalizing i with
  | nil => exact absurd h (by simp [Chain])
  | cons s m ih =>
    cases m with
    | nil =>
      simp only [List.map_cons, List.map_nil] at hm
      cases i with
      | nil => simp at hm; rw [← hm]; exact h.1
      | cons a b => simp at hm
    | cons t m =>
      cases i with
      | nil => simp at hm
      | cons a b =>
        simp only [List.map_cons, List.cons_append, List.cons.injEq] at hm
        exact ih h.2 b (by simpa using hm.2)

theorem good_c1 (c : Codec) (L : Layout) (h : L.OK c) : Good L.c1 := by
  cases hs : L.slots with
  | nil => have := h.chain; rw [hs] at this; exact absurd this (by simp [Chain])
  | cons s m =>
    have : L.c1 = s.1 := by simp [Layout.c1, Layout.oldPages, hs]
    rw [this]; exact (h.slots s (by simp [hs])).1

/-- the comment run starts a packet when its first page is not continued and the run holds a packet -/
theorem oldPages_fresh (c : Codec) (L : Layout) (h : L.OK c) (hc1 : L.c1.continued = false)
    (hold : reasm [] L.oldPages ≠ []) : startsFresh L.oldPages = true := by
  have hne : L.slots ≠ [] := by intro he; have := h.chain; rw [he] at this; exact this
  obtain ⟨r, hr⟩ := oldPages_eq L hne
  rw [hr]; simp only [startsFresh]
  split
  · rename_i hp
    -- a page without packets is complete, closes the run, and then there is no packet at all
    exfalso
    have hg := good_c1 c L h
    have hcomp : L.c1.complete = true := by
      cases hcc : L.c1.complete with
      | true => rfl
      | false =>
        rcases hg.canon with hcn | ⟨_, init, m, _, he⟩
        · rw [hcn] at hcc; cases hcc
        · rw [hp] at he; simp at he
    cases hs : L.slots with
    | nil => exact absurd hs hne
    | cons s m =>
      have e1 : L.c1 = s.1 := by simp [Layout.c1, Layout.oldPages, hs]
      cases m with
      | nil =>
        have : L.oldPages = [s.1] := by simp [Layout.oldPages, hs]
        rw [this, ← e1] at hold
        simp [reasm, hp] at hold
      | cons t m =>
        have := h.chain
        rw [hs] at this
        have hcl : closed s.1 = false := this.1
        rw [← e1] at hcl
        simp [closed, hcomp] at hcl
  · simp [hc1]

/-- C02, second half: the packets of the edited stream are what they were, except the comment
packet.  `hnew` says that the new pages carry the new packet list (proved for both ways of laying
them out below), `hpost` that the continuation flags behind the comment run are consistent. -/
theorem packets_after (c : Codec) (L : Layout) (h : L.OK c) (new : List Page) (old0 new0 : Bytes) (others : List Bytes)
    (hpk : toPackets L.oldPages false = .ok (old0 :: others)) (hc1 : L.c1.continued = false)
    (hnew : ∀ acc, reasm acc (prepare L.c1 L.cK new) = acc ++ new0 :: others)
    (hpost : contOK (!L.cK.complete) (stream L.serial L.post)) :
    ∃ A rest, reasm [] (stream L.serial L.pages) = A ++ old0 :: rest ∧
      reasm [] (stream L.serial (L.after new)) = A ++ new0 :: rest := by
  have hne : L.slots ≠ [] := by intro he; have := h.chain; rw [he] at this; exact this
  have hold : reasm [] L.oldPages = old0 :: others := (toPackets_ok _ _ _ (head_oldPages L hne) hc1 hpk).symm
  have hfresh := oldPages_fresh c L h hc1 (by rw [hold]; simp)
  -- what follows the run does not touch the comment packet
  have htail : ∀ x : Bytes, reasm (x :: others) (stream L.serial L.post) =
      x :: (if others = [] then reasm [] (stream L.serial L.post) else reasm others (stream L.serial L.post)) := by
    intro x
    by_cases ho : others = []
    · subst ho
      simp only [↓reduceIte]
      obtain ⟨i, hi⟩ := oldPages_snoc L hne
      have hcl := chain_last_closed L.slots h.chain i L.cK hi
      have hlen : L.cK.packets.length ≤ 1 := by
        have := length_reasm_ge_last [] i L.cK
        rw [← hi, hold] at this
        simpa using this
      have hcomp : L.cK.complete = true := by
        simp only [closed, Bool.or_eq_true, decide_eq_true_eq] at hcl
        rcases hcl with hcl | hcl
        · exact hcl
        · omega
      rw [hcomp] at hpost
      have := reasm_fresh [x] _ (startsFresh_of_contOK _ hpost)
      simpa using this
    · simp only [ho, ↓reduceIte]
      have := reasm_prefix [x] others (stream L.serial L.post) ho
      simpa using this
  refine ⟨reasm [] (stream L.serial L.pre),
    (if others = [] then reasm [] (stream L.serial L.post) else reasm others (stream L.serial L.post)), ?_, ?_⟩
  · rw [stream_pages c L h, reasm_append, reasm_append, reasm_fresh _ _ hfresh, hold,
      reasm_prefix _ _ _ (by simp), htail]
  · rw [stream_after c L h, reasm_append, reasm_append, hnew,
      reasm_prefix _ _ _ (by simp)]
    have hsd : reasm (new0 :: others) (stream L.serial
        (if L.slots.length ≠ new.length then renum L.serial (L.c1.sequence + new.length) L.post else L.post)) =
        reasm (new0 :: others) (stream L.serial L.post) := by
      split
      · exact reasm_sameData _ _ _ (sameData_stream_renum _ _ _)
      · rfl
    rw [hsd, htail]


/-! ### the two ways of laying out the new packets -/

theorem eq_of_lens_flatten (l1 l2 : List Bytes) (hl : l1.map List.length = l2.map List.length)
    (hf : l1.flatten = l2.flatten) : l1 = l2 := by
  induction l1 generalizing l2 with
  | nil => cases l2 with
    | nil => rfl
    | cons _ _ => simp at hl
  | cons a r ih =>
    cases l2 with
    | nil => simp at hl
    | cons b s =>
      simp only [List.map_cons, List.cons.injEq] at hl
      simp only [List.flatten_cons] at hf
      have hab : a = b := List.append_inj_left hf hl.1
      subst hab
      rw [ih s hl.2 (List.append_cancel_left hf)]

theorem flatten_extLast (acc : List Bytes) (d : Bytes) : (extLast acc d).flatten = acc.flatten ++ d := by
  rcases List.eq_nil_or_concat acc with h | ⟨l, x, h⟩
  · subst h; simp
  · rw [h, List.concat_eq_append, extLast_concat]; simp

theorem flatten_step (acc : List Bytes) (p : Page) : (step acc p).flatten = acc.flatten ++ p.packets.flatten := by
  unfold step
  split
  · rename_i h; simp [h]
  · rename_i f rest h
    rw [h]
    split
    · simp [flatten_extLast]
    · simp

theorem flatten_reasm (acc : List Bytes) (ps : List Page) :
    (reasm acc ps).flatten = acc.flatten ++ (ps.map (·.packets.flatten)).flatten := by
  induction ps generalizing acc with
  | nil => simp [reasm]
  | cons p r ih => rw [reasm_cons, ih, flatten_step]; simp

theorem lens_extLast (acc acc' : List Bytes) (d d' : Bytes) (ha : acc.map List.length = acc'.map List.length)
    (hd : d.length = d'.length) : (extLast acc d).map List.length = (extLast acc' d').map List.length := by
  rcases List.eq_nil_or_concat acc with h | ⟨l, x, h⟩
  · subst h
    have : acc' = [] := by simpa using ha.symm
    subst this; simp [hd]
  · rcases List.eq_nil_or_concat acc' with h' | ⟨l', x', h'⟩
    · subst h'; rw [h] at ha; simp at ha
    · rw [h, h', List.concat_eq_append, List.concat_eq_append] at ha ⊢
      rw [extLast_concat, extLast_concat]
      simp only [List.map_append, List.map_cons, List.map_nil] at ha ⊢
      have := List.append_inj' ha (by simp)
      rw [this.1]
      simp only [List.cons.injEq, and_true] at this
      simp [this.2, hd]

/-- what of a page decides the packet lengths of the reassembly -/
def shape (p : Page) : List Nat × Bool := (p.packets.map List.length, p.continued)

theorem lens_step (acc acc' : List Bytes) (p q : Page) (ha : acc.map List.length = acc'.map List.length)
    (hs : shape p = shape q) : (step acc p).map List.length = (step acc' q).map List.length := by
  simp only [shape, Prod.mk.injEq] at hs
  obtain ⟨hl, hc⟩ := hs
  unfold step
  cases hp : p.packets with
  | nil =>
    rw [hp] at hl
    have : q.packets = [] := by simpa using hl.symm
    simp [this, ha]
  | cons f rest =>
    rw [hp] at hl
    cases hq : q.packets with
    | nil => rw [hq] at hl; simp at hl
    | cons f' rest' =>
      rw [hq] at hl
      simp only [List.map_cons, List.cons.injEq] at hl
      simp only [hc]
      split
      · simp only [List.map_append]
        rw [lens_extLast acc acc' f f' ha hl.1, hl.2]
      · simp [ha, hl.1, hl.2]

theorem lens_reasm (acc acc' : List Bytes) (ps qs : List Page) (ha : acc.map List.length = acc'.map List.length)
    (hs : ps.map shape = qs.map shape) : (reasm acc ps).map List.length = (reasm acc' qs).map List.length := by
  induction ps generalizing acc acc' qs with
  | nil =>
    cases qs with
    | nil => simpa [reasm] using ha
    | cons _ _ => simp at hs
  | cons p r ih =>
    cases qs with
    | nil => simp at hs
    | cons q s =>
      simp only [List.map_cons, List.cons.injEq] at hs
      rw [reasm_cons, reasm_cons]
      exact ih _ _ s (lens_step acc acc' p q ha hs.1) hs.2

theorem startsFresh_shape (ps qs : List Page) (hs : ps.map shape = qs.map shape) : startsFresh ps = startsFresh qs := by
  induction ps generalizing qs with
  | nil => cases qs with
    | nil => rfl
    | cons _ _ => simp at hs
  | cons p r ih =>
    cases qs with
    | nil => simp at hs
    | cons q s =>
      simp only [List.map_cons, List.cons.injEq, shape, Prod.mk.injEq] at hs
      simp only [startsFresh]
      have e : (p.packets = []) ↔ (q.packets = []) := by
        constructor
        · intro h; rw [h] at hs; simpa using hs.1.1.symm
        · intro h; rw [h] at hs; simpa using hs.1.1
      by_cases hp : p.packets = []
      · rw [if_pos hp, if_pos (e.mp hp)]; exact ih s hs.2
      · rw [if_neg hp, if_neg (fun hq => hp (e.mpr hq)), hs.1.2]

/-! splitLike / copyLayout -/

theorem splitLike_spec (ps : List Bytes) (d : Bytes) (h : (ps.map List.length).sum ≤ d.length) :
    (splitLike ps d).1.map List.length = ps.map List.length ∧
    (splitLike ps d).1.flatten ++ (splitLike ps d).2 = d ∧
    (splitLike ps d).2.length = d.length - (ps.map List.length).sum := by
  induction ps generalizing d with
  | nil => simp [splitLike]
  | cons p r ih =>
    simp only [List.map_cons, List.sum_cons] at h
    have := ih (d.drop p.length) (by simp; omega)
    simp only [splitLike, List.map_cons, List.length_take, List.flatten_cons, List.sum_cons]
    refine ⟨?_, ?_, ?_⟩
    · rw [this.1]; congr 1; omega
    · rw [List.append_assoc, this.2.1, List.take_append_drop]
    · rw [this.2.2]; simp; omega

def totalLen (ps : List Page) : Nat := ((ps.map fun p => (p.packets.map List.length).sum)).sum

theorem copyLayout_spec (olds : List Page) (d : Bytes) (h : totalLen olds ≤ d.length) :
    (copyLayout olds d).1.map shape = olds.map shape ∧
    ((copyLayout olds d).1.map (·.packets.flatten)).flatten ++ (copyLayout olds d).2 = d ∧
    (copyLayout olds d).2.length = d.length - totalLen olds ∧
    (copyLayout olds d).1.map (fun p => (p.sequence, p.complete, p.position)) =
      olds.map (fun p => (p.sequence, p.complete, p.position)) := by
  induction olds generalizing d with
  | nil => simp [copyLayout, totalLen]
  | cons o r ih =>
    simp only [totalLen, List.map_cons, List.sum_cons] at h
    have hs := splitLike_spec o.packets d (by omega)
    have := ih (splitLike o.packets d).2 (by rw [hs.2.2]; simp only [totalLen]; omega)
    simp only [copyLayout, List.map_cons, List.flatten_cons, totalLen, List.sum_cons]
    refine ⟨?_, ?_, ?_, ?_⟩
    · rw [this.1]; simp [shape, hs.1]
    · rw [List.append_assoc, this.2.1, hs.2.1]
    · rw [this.2.2.1, hs.2.2]; simp only [totalLen]; omega
    · rw [this.2.2.2]

theorem totalLen_eq (ps : List Page) : totalLen ps = ((reasm [] ps).map List.length).sum := by
  have := flatten_reasm [] ps
  have h2 := congrArg List.length this
  simp only [List.length_flatten, List.flatten_nil, List.nil_append, List.map_map] at h2
  rw [h2]
  simp only [totalLen]
  congr 1
  simp [Function.comp_def, List.length_flatten]


theorem reasm_copyLayout (olds : List Page) (P : List Bytes) (hl : P.map List.length = (reasm [] olds).map List.length) :
    (copyLayout olds P.flatten).2 = [] ∧ reasm [] (copyLayout olds P.flatten).1 = P ∧
      (copyLayout olds P.flatten).1.map shape = olds.map shape ∧
      (copyLayout olds P.flatten).1.map (fun p => (p.sequence, p.complete, p.position)) =
        olds.map (fun p => (p.sequence, p.complete, p.position)) := by
  have htot : totalLen olds = P.flatten.length := by
    rw [totalLen_eq, ← hl, List.length_flatten]
  obtain ⟨h1, h2, h3, h4⟩ := copyLayout_spec olds P.flatten (by omega)
  have hrest : (copyLayout olds P.flatten).2 = [] := by
    apply List.eq_nil_of_length_eq_zero; rw [h3]; omega
  refine ⟨hrest, ?_, h1, h4⟩
  apply eq_of_lens_flatten
  · rw [hl]; exact lens_reasm [] [] _ _ rfl h1
  · rw [flatten_reasm]
    rw [hrest, List.append_nil] at h2
    simpa using h2

/-! `prepare` keeps what reassembly looks at -/

theorem map_modLast {α β : Type} (f : α → β) (g : α → α) (l : List α) (h : ∀ x, f (g x) = f x) :
    (modLast g l).map f = l.map f := by
  induction l with
  | nil => rfl
  | cons a r ih =>
    cases r with
    | nil => simp [modLast, h]
    | cons b r => simp only [modLast, List.map_cons] at ih ⊢; rw [ih]

theorem map_number {β : Type} (f : Page → β) (ser seq : Nat) (l : List Page)
    (h : ∀ (p : Page) (a b : Nat), f { p with sequence := a, serial := b } = f p) : (number ser seq l).map f = l.map f := by
  induction l generalizing seq with
  | nil => rfl
  | cons p r ih => simp [number, h, ih]

theorem sameData_prepare (o0 oL : Page) (new : List Page) (hh : ∀ p, new.head? = some p → p.continued = o0.continued) :
    SameData (prepare o0 oL new) new := by
  unfold SameData prepare
  rw [map_modLast]
  · cases hn : number o0.serial o0.sequence new with
    | nil =>
      have : new = [] := by
        cases new with
        | nil => rfl
        | cons _ _ => simp [number] at hn
      subst this; rfl
    | cons a b =>
      cases new with
      | nil => simp [number] at hn
      | cons p r =>
        simp only [number, List.cons.injEq] at hn
        have hp := hh p rfl
        simp only [modHead, List.map_cons, List.cons.injEq, Prod.mk.injEq]
        refine ⟨⟨by rw [← hn.1], by rw [hp]⟩, ?_⟩
        rw [← hn.2]
        exact map_number _ _ _ _ (fun _ _ _ => rfl)
  · intro x; simp only; split <;> rfl

theorem carries_of (new : List Page) (P : List Bytes) (o0 oL : Page) (h1 : reasm [] new = P) (h2 : startsFresh new = true)
    (h3 : ∀ p, new.head? = some p → p.continued = o0.continued) :
    ∀ acc, reasm acc (prepare o0 oL new) = acc ++ P := by
  intro acc
  rw [reasm_sameData acc _ _ (sameData_prepare o0 oL new h3), reasm_fresh acc new h2, h1]

/-- `outer` leaves a current page with packets once a packet has been started (as in Props/C15) -/
theorem outer_cur_ne' (pol : Policy) (chunk wiggle : Nat) (hc : 0 < chunk) (s : St) (ps : List Bytes)
    (built : List Bytes) (hI : Inv s built) (h : s.cur.packets ≠ [] ∨ ps ≠ []) :
    (outer pol chunk wiggle hc s ps).cur.packets ≠ [] := by
  induction ps generalizing s built with
  | nil => simpa [outer] using h
  | cons p ps ih =>
    simp only [outer]
    have hf : Inv (if pol.pre s.cur = true ∧ s.cur.packets ≠ [] then
        ({ done := s.done ++ [s.cur], cur := { sequence := s.cur.sequence + 1 } } : St) else s) built := by
      split
      · exact hI.flush
      · exact hI
    have h1 := inner_inv pol chunk wiggle hc _ p _ hf.push (by simp)
    exact ih _ _ h1.1 (Or.inl h1.2)

/-- the pages `from_packets` builds: they carry the packets, start a packet, are numbered from `seq`,
have consistent continuation flags, and the last one is complete and not empty -/
theorem fromPacketsWith_facts (pol : Policy) (chunk wiggle : Nat) (hc : 0 < chunk) (seq : Nat) (P : List Bytes) (hP : P ≠ []) :
    let pages := fromPacketsWith pol chunk wiggle hc seq P
    reasm [] pages = P ∧ contOK false pages ∧ pages.map (·.sequence) = List.range' seq pages.length ∧
      ∃ init l, pages = init ++ [l] ∧ l.complete = true ∧ l.packets ≠ [] := by
  have h2 := outer_inv2 pol chunk wiggle hc seq _ P (init_inv2 seq)
  have h0 : Inv { done := [], cur := { sequence := seq } } [] := ⟨rfl, fun h => by simp at h, rfl⟩
  have hne := outer_cur_ne' pol chunk wiggle hc _ P [] h0 (Or.inr hP)
  refine ⟨reasm_fromPackets pol chunk wiggle hc seq P, ?_, ?_, ?_⟩
  · simp only [fromPacketsWith, hne, ↓reduceIte]; exact h2.chain
  · simp only [fromPacketsWith, hne, ↓reduceIte]; simpa using h2.seqs
  · simp only [fromPacketsWith, hne, ↓reduceIte]
    exact ⟨_, _, rfl, h2.compl, hne⟩

theorem fromPackets_default (P : List Bytes) (seq : Nat) :
    fromPackets policy P seq Generated.oggDefaultSize Generated.oggWiggleRoom =
      .ok (fromPacketsWith (policy Generated.oggDefaultSize) (Generated.oggDefaultSize / 255 * 255) Generated.oggWiggleRoom
        (by decide) seq P) := by
  unfold fromPackets
  rw [dif_pos (by decide)]


/-- fields `from_packets` never sets -/
def Dflt (p : Page) : Prop :=
  p.version = 0 ∧ p.flagsHi = 0 ∧ p.first = false ∧ p.last = false ∧ (p.position = 0 ∨ p.position = -1)

structure InvD (s : St) : Prop where
  done : ∀ p ∈ s.done, Dflt p
  cur : Dflt s.cur

theorem Dflt.setPackets {p : Page} (h : Dflt p) (q : List Bytes) : Dflt { p with packets := q } := h

theorem inner_invD (pol : Policy) (chunk wiggle : Nat) (hc : 0 < chunk) (s : St) (packet : Bytes) (h : InvD s) :
    InvD (inner pol chunk wiggle hc s packet) := by
  have step1 : ∀ (s : St) (data : Bytes), InvD s →
      InvD (if pol.fits s.cur data then
          { s with cur := { s.cur with packets := extLast s.cur.packets data } }
        else
          match s.cur.packets.getLast? with
          | some l =>
            if l ≠ [] then
              let old := { s.cur with complete := false,
                                      position := if s.cur.packets.length = 1 then -1 else s.cur.position }
              { done := s.done ++ [old],
                cur := { packets := [data], continued := true, sequence := s.cur.sequence + 1 } }
            else
              let old := { s.cur with packets := s.cur.packets.dropLast }
              { done := s.done ++ [old],
                cur := { packets := [data], continued := !old.complete, sequence := s.cur.sequence + 1 } }
          | none => s) := by
    intro s data h
    split
    · exact ⟨h.done, h.cur⟩
    · split
      · split
        · refine ⟨?_, ⟨rfl, rfl, rfl, rfl, Or.inl rfl⟩⟩
          intro p hp
          rcases List.mem_append.mp hp with hp | hp
          · exact h.done p hp
          · simp only [List.mem_singleton] at hp; subst hp
            obtain ⟨a, b, c, d, e⟩ := h.cur
            refine ⟨a, b, c, d, ?_⟩
            simp only
            split
            · exact Or.inr rfl
            · exact e
        · refine ⟨?_, ⟨rfl, rfl, rfl, rfl, Or.inl rfl⟩⟩
          intro p hp
          rcases List.mem_append.mp hp with hp | hp
          · exact h.done p hp
          · simp only [List.mem_singleton] at hp; subst hp; exact h.cur
      · exact h
  fun_induction inner pol chunk wiggle hc s packet with
  | case1 s => exact h
  | case2 s packet hpk data rest s1 hw =>
    have h1 : InvD s1 := step1 s data h
    exact ⟨h1.done, h1.cur⟩
  | case3 s packet hpk data rest s1 hw ih =>
    exact ih (step1 s data h)

theorem outer_invD (pol : Policy) (chunk wiggle : Nat) (hc : 0 < chunk) (s : St) (ps : List Bytes) (h : InvD s) :
    InvD (outer pol chunk wiggle hc s ps) := by
  induction ps generalizing s with
  | nil => simpa [outer] using h
  | cons p ps ih =>
    simp only [outer]
    apply ih
    apply inner_invD
    have hf : InvD (if pol.pre s.cur = true ∧ s.cur.packets ≠ [] then
        ({ done := s.done ++ [s.cur], cur := { sequence := s.cur.sequence + 1 } } : St) else s) := by
      split
      · refine ⟨?_, ⟨rfl, rfl, rfl, rfl, Or.inl rfl⟩⟩
        intro q hq
        rcases List.mem_append.mp hq with hq | hq
        · exact h.done q hq
        · simp only [List.mem_singleton] at hq; subst hq; exact h.cur
      · exact h
    exact ⟨hf.done, hf.cur⟩

theorem fromPacketsWith_dflt (pol : Policy) (chunk wiggle : Nat) (hc : 0 < chunk) (seq : Nat) (P : List Bytes) :
    ∀ p ∈ fromPacketsWith pol chunk wiggle hc seq P, Dflt p := by
  have h := outer_invD pol chunk wiggle hc { done := [], cur := { sequence := seq } } P
    ⟨by simp, ⟨rfl, rfl, rfl, rfl, Or.inl rfl⟩⟩
  intro p hp
  simp only [fromPacketsWith] at hp
  split at hp
  · exact h.done p hp
  · rcases List.mem_append.mp hp with hp | hp
    · exact h.done p hp
    · simp only [List.mem_singleton] at hp; subst hp; exact h.cur

theorem fromPacketsWith_laceCount (D chunk wiggle : Nat) (hc : 0 < chunk) (hch : chunk ≤ 64770) (seq : Nat) (P : List Bytes) :
    ∀ p ∈ fromPacketsWith (policy D) chunk wiggle hc seq P, laceCount p.packets ≤ 255 := by
  have h3 := outer_inv3 D chunk wiggle hc hch { done := [], cur := { sequence := seq } } P ⟨by simp, by simp⟩
  intro p hp
  simp only [fromPacketsWith] at hp
  split at hp
  · exact h3.done p hp
  · rcases List.mem_append.mp hp with hp | hp
    · exact h3.done p hp
    · simp only [List.mem_singleton] at hp; subst hp; exact h3.cur


/-! ### continuation flags through `prepare` -/

theorem contOK_number (c : Bool) (ser seq : Nat) (ps : List Page) : contOK c (number ser seq ps) ↔ contOK c ps := by
  induction ps generalizing c seq with
  | nil => simp [number, contOK]
  | cons p r ih => simp only [number, contOK]; rw [ih]

theorem endC_number (c : Bool) (ser seq : Nat) (ps : List Page) : endC c (number ser seq ps) = endC c ps := by
  induction ps generalizing c seq with
  | nil => rfl
  | cons p r ih => simp only [number, endC]; rw [ih]

theorem contOK_modLast (c b : Bool) (g : Page → Page) (ps : List Page) (hne : ps ≠ [])
    (hg : ∀ l, ps.getLast? = some l → (g l).continued = l.continued ∧ (g l).packets = l.packets ∧ (g l).complete = b ∧
      (b = false → l.packets ≠ []))
    (h : contOK c ps) : contOK c (modLast g ps) ∧ endC c (modLast g ps) = !b := by
  induction ps generalizing c with
  | nil => exact absurd rfl hne
  | cons a r ih =>
    cases r with
    | nil =>
      obtain ⟨h1, h2, h3, h4⟩ := hg a rfl
      simp only [modLast]
      refine ⟨⟨?_, ?_, trivial⟩, ?_⟩
      · rw [h1]; exact h.1
      · intro hc; rw [h2]; rw [h3] at hc; exact h4 hc
      · simp [endC, h3]
    | cons b' r' =>
      obtain ⟨h1, h2, h3⟩ := h
      have := ih (!a.complete) (by simp) (fun l hl => hg l (by simpa [List.getLast?_cons_cons] using hl)) h3
      simp only [modLast, contOK, endC]
      exact ⟨⟨h1, h2, this.1⟩, this.2⟩

theorem getLast?_number (ser seq : Nat) (ps : List Page) (l : Page) (h : (number ser seq ps).getLast? = some l) :
    ∃ l0 s, ps.getLast? = some l0 ∧ l = { l0 with sequence := s, serial := ser } := by
  induction ps generalizing seq with
  | nil => simp [number] at h
  | cons p r ih =>
    cases r with
    | nil =>
      simp only [number, List.getLast?_singleton, Option.some.injEq] at h
      exact ⟨p, seq, rfl, h.symm⟩
    | cons q r' =>
      simp only [number, List.getLast?_cons_cons] at h ⊢
      exact ih (seq + 1) (by simpa [number] using h)

theorem getLast?_modHead {α : Type} (g : α → α) (l : List α) (x : α) (h : (modHead g l).getLast? = some x) :
    (∃ a, l = [a] ∧ x = g a) ∨ (l.length > 1 ∧ l.getLast? = some x) := by
  cases l with
  | nil => simp [modHead] at h
  | cons a r =>
    cases r with
    | nil => left; simp [modHead] at h; exact ⟨a, rfl, h.symm⟩
    | cons b r' => right; simp only [modHead, List.getLast?_cons_cons] at h ⊢; exact ⟨by simp, h⟩

/-- the continuation flags of the new run as `replace` writes it -/
theorem contOK_prepare (o0 oL : Page) (new : List Page) (hne : new ≠ []) (h : contOK o0.continued new)
    (hl : oL.complete = false → ∀ l, new.getLast? = some l → l.packets ≠ []) :
    contOK o0.continued (prepare o0 oL new) ∧ endC o0.continued (prepare o0 oL new) = !oL.complete := by
  unfold prepare
  have h1 : contOK o0.continued (number o0.serial o0.sequence new) := (contOK_number _ _ _ _).mpr h
  have h2 : contOK o0.continued (modHead (fun p => { p with first := o0.first, continued := o0.continued })
      (number o0.serial o0.sequence new)) := by
    cases hn : number o0.serial o0.sequence new with
    | nil => simp [modHead, contOK]
    | cons a r =>
      rw [hn] at h1
      simp only [modHead, contOK]
      exact ⟨trivial, h1.2.1, h1.2.2⟩
  apply contOK_modLast _ _ _ _ ?_ ?_ h2
  · cases hn : number o0.serial o0.sequence new with
    | nil =>
      have := length_number o0.serial o0.sequence new
      rw [hn] at this
      cases new with
      | nil => exact absurd rfl hne
      | cons _ _ => simp at this
    | cons a r => simp [modHead]
  · intro l hlast
    have hpk : oL.complete = false → l.packets ≠ [] := by
      intro hc
      rcases getLast?_modHead _ _ _ hlast with ⟨a, ha, rfl⟩ | ⟨_, hl2⟩
      · have : (number o0.serial o0.sequence new).getLast? = some a := by rw [ha]; rfl
        obtain ⟨l0, s, hl0, rfl⟩ := getLast?_number _ _ _ _ this
        exact hl hc l0 hl0
      · obtain ⟨l0, s, hl0, rfl⟩ := getLast?_number _ _ _ _ hl2
        exact hl hc l0 hl0
    refine ⟨?_, ?_, ?_, hpk⟩
    · simp only; split <;> rfl
    · simp only; split <;> rfl
    · simp only; split <;> rfl


/-! ### the new run can be written -/

theorem mem_number (ser seq : Nat) (ps : List Page) (p : Page) (h : p ∈ number ser seq ps) :
    ∃ q ∈ ps, ∃ s, p = { q with sequence := s, serial := ser } := by
  induction ps generalizing seq with
  | nil => simp [number] at h
  | cons a r ih =>
    simp only [number, List.mem_cons] at h
    rcases h with h | h
    · exact ⟨a, by simp, seq, h⟩
    · obtain ⟨q, hq, s, hs⟩ := ih (seq + 1) h
      exact ⟨q, by simp [hq], s, hs⟩

theorem prepare_mem (o0 oL : Page) (new : List Page) (p : Page) (h : p ∈ prepare o0 oL new) :
    ∃ q ∈ new, p.packets = q.packets ∧ p.version = q.version ∧ p.flagsHi = q.flagsHi ∧ p.serial = o0.serial ∧
      (p.position = q.position ∨ p.position = -1) ∧ (p.complete = q.complete ∨ p.complete = oL.complete) ∧
      (p.first = q.first ∨ p.first = o0.first) ∧ (p.last = q.last ∨ p.last = oL.last) := by
  unfold prepare at h
  obtain ⟨y, hy, hxy⟩ := mem_modLast _ _ _ h
  obtain ⟨z, hz, hyz⟩ := mem_modHead _ _ _ hy
  obtain ⟨q, hq, s, rfl⟩ := mem_number _ _ _ _ hz
  refine ⟨q, hq, ?_⟩
  rcases hyz with rfl | rfl <;> rcases hxy with rfl | rfl
  · simp
  · simp only; split <;> simp
  · simp
  · simp only; split <;> simp

theorem seq_number (ser seq : Nat) (ps : List Page) : (number ser seq ps).map (·.sequence) = List.range' seq ps.length := by
  induction ps generalizing seq with
  | nil => rfl
  | cons p r ih => simp [number, ih, List.range'_succ]

theorem map_modHead {α β : Type} (f : α → β) (g : α → α) (l : List α) (h : ∀ x, f (g x) = f x) :
    (modHead g l).map f = l.map f := by
  cases l with
  | nil => rfl
  | cons a r => simp [modHead, h]

theorem seq_prepare (o0 oL : Page) (new : List Page) :
    (prepare o0 oL new).map (·.sequence) = List.range' o0.sequence new.length := by
  unfold prepare
  rw [map_modLast _ _ _ (by intro x; simp only; split <;> rfl), map_modHead _ _ _ (by intro x; rfl), seq_number]

theorem renderable_prepare (o0 oL : Page) (new : List Page) (ho0 : o0.serial < 2 ^ 32) (hseq : o0.sequence + new.length ≤ 2 ^ 32)
    (hd : ∀ q ∈ new, q.version = 0 ∧ q.flagsHi = 0)
    (hpos : ∀ q ∈ new, -(2 ^ 63 : Int) ≤ q.position ∧ q.position < (2 ^ 63 : Int))
    (hlac : ∀ p ∈ prepare o0 oL new, p.lacing.length ≤ 255) : ∀ p ∈ prepare o0 oL new, Renderable p := by
  intro p hp
  obtain ⟨q, hq, h1, h2, h3, h4, h5, _⟩ := prepare_mem o0 oL new p hp
  have hs : p.sequence < o0.sequence + new.length := by
    have hm : p.sequence ∈ (prepare o0 oL new).map (·.sequence) := List.mem_map.mpr ⟨p, hp, rfl⟩
    rw [seq_prepare] at hm
    simp only [List.mem_range'_1] at hm
    exact hm.2
  obtain ⟨hv, hf⟩ := hd q hq
  obtain ⟨hp1, hp2⟩ := hpos q hq
  refine ⟨hlac p hp, by omega, by omega, by omega, ?_, ?_, ?_⟩
  · unfold Page.flags; rw [h3, hf]; split <;> split <;> split <;> omega
  · rcases h5 with h5 | h5 <;> rw [h5] <;> omega
  · rcases h5 with h5 | h5 <;> rw [h5] <;> omega


theorem canon_congr (p o : Page) (h1 : p.packets.map List.length = o.packets.map List.length) (h2 : p.complete = o.complete)
    (ho : Canon o) : Canon p := by
  unfold Canon at *
  rw [h1, h2]; exact ho

/-! ### the pages `from_packets` builds are read back as they are (`Canon`) -/

theorem canon_of_complete (p : Page) (h : p.complete = true) : Canon p := Or.inl h

theorem canon_incomplete (p : Page) (q : List Bytes) (l : Bytes) (hp : p.packets = q ++ [l]) (hc : p.complete = false)
    (hl : l.length % 255 = 0) (hne : l ≠ []) : Canon p := by
  refine Or.inr ⟨hc, q.map List.length, l.length / 255, ?_, ?_⟩
  · have : l.length ≠ 0 := by intro h; exact hne (List.eq_nil_of_length_eq_zero h)
    omega
  · rw [hp]; simp only [List.map_append, List.map_cons, List.map_nil]
    congr 2; omega

/-- what is known about the current page while a packet of `orig` bytes is being laid out and
`packet` is what is left of it -/
structure InvC (s : St) (packet : Bytes) (orig : Nat) : Prop where
  done : ∀ p ∈ s.done, Canon p
  compl : s.cur.complete = true
  ne : s.cur.packets ≠ []
  lastmod : packet ≠ [] → ∀ l, s.cur.packets.getLast? = some l → l.length % 255 = 0
  total : ∀ l, s.cur.packets.getLast? = some l → (l.length + packet.length) % 255 = orig % 255
  nonempty : ∀ l, s.cur.packets.getLast? = some l → l = [] → packet = [] → orig = 0

theorem inner_invC (pol : Policy) (chunk wiggle : Nat) (hc : 0 < chunk) (hch : chunk % 255 = 0) (s : St) (packet : Bytes)
    (orig : Nat) (h : InvC s packet orig) : InvC (inner pol chunk wiggle hc s packet) [] orig := by
  have step1 : ∀ (s : St) (packet : Bytes), packet ≠ [] → InvC s packet orig →
      let data := packet.take chunk
      let rest := packet.drop chunk
      let s1 : St :=
        if pol.fits s.cur data then
          { s with cur := { s.cur with packets := extLast s.cur.packets data } }
        else
          match s.cur.packets.getLast? with
          | some l =>
            if l ≠ [] then
              let old := { s.cur with complete := false,
                                      position := if s.cur.packets.length = 1 then -1 else s.cur.position }
              { done := s.done ++ [old],
                cur := { packets := [data], continued := true, sequence := s.cur.sequence + 1 } }
            else
              let old := { s.cur with packets := s.cur.packets.dropLast }
              { done := s.done ++ [old],
                cur := { packets := [data], continued := !old.complete, sequence := s.cur.sequence + 1 } }
          | none => s
      (∀ p ∈ s1.done, Canon p) ∧ s1.cur.complete = true ∧
        ∃ q l, s1.cur.packets = q ++ [l] ∧ l ≠ [] ∧ (rest ≠ [] → l.length % 255 = 0) ∧
          (l.length + rest.length) % 255 = orig % 255 := by
    intro s packet hpk h
    have hdne : packet.take chunk ≠ [] := by
      intro he
      have := congrArg List.length he
      simp only [List.length_take, List.length_nil] at this
      cases packet with
      | nil => exact hpk rfl
      | cons a b => simp at this; omega
    have hdlen : packet.drop chunk ≠ [] → (packet.take chunk).length = chunk := by
      intro hr
      have : chunk < packet.length := by
        apply Nat.lt_of_not_le; intro hle
        exact hr (List.drop_eq_nil_of_le hle)
      simp [List.length_take]; omega
    have hsplit : (packet.take chunk).length + (packet.drop chunk).length = packet.length := by
      simp [List.length_take, List.length_drop]; omega
    obtain ⟨q, l, hql⟩ : ∃ q l, s.cur.packets = q ++ [l] := by
      rcases List.eq_nil_or_concat s.cur.packets with hh | ⟨q, l, hh⟩
      · exact absurd hh h.ne
      · exact ⟨q, l, by rw [hh, List.concat_eq_append]⟩
    have hlast : s.cur.packets.getLast? = some l := by rw [hql]; simp
    have hl0 := h.lastmod hpk l hlast
    have htot := h.total l hlast
    simp only
    split
    · -- fits
      refine ⟨h.done, h.compl, q, l ++ packet.take chunk, by simp only [hql, extLast_concat], by simp [hdne], ?_, ?_⟩
      · intro hr
        have := hdlen hr
        simp only [List.length_append, this]; omega
      · simp only [List.length_append]; omega
    · rw [hlast]
      simp only
      split
      · rename_i hlne
        refine ⟨?_, rfl, [], packet.take chunk, rfl, hdne, ?_, ?_⟩
        · intro p hp
          rcases List.mem_append.mp hp with hp | hp
          · exact h.done p hp
          · simp only [List.mem_singleton] at hp; subst hp
            exact canon_incomplete _ q l hql rfl hl0 hlne
        · intro hr; rw [hdlen hr]; exact hch
        · omega
      · rename_i hle
        have hle' : l = [] := Classical.not_not.mp hle
        refine ⟨?_, rfl, [], packet.take chunk, rfl, hdne, ?_, ?_⟩
        · intro p hp
          rcases List.mem_append.mp hp with hp | hp
          · exact h.done p hp
          · simp only [List.mem_singleton] at hp; subst hp
            exact canon_of_complete _ h.compl
        · intro hr; rw [hdlen hr]; exact hch
        · omega
  fun_induction inner pol chunk wiggle hc s packet with
  | case1 s =>
    exact h
  | case2 s packet hpk data rest s1 hw =>
    obtain ⟨h1, h2, q, l, h3, h4, h5, h6⟩ := step1 s packet hpk h
    have h3' : s1.cur.packets = q ++ [l] := h3
    refine ⟨h1, h2, ?_, fun hh => absurd rfl hh, ?_, ?_⟩
    · simp only [h3', extLast_concat]; simp
    · intro l' hl'
      simp only [h3', extLast_concat] at hl'
      simp at hl'; subst hl'
      simp only [List.length_append, List.length_nil, Nat.add_zero]
      exact h6
    · intro l' hl' hle
      simp only [h3', extLast_concat] at hl'
      simp at hl'; subst hl'
      simp at hle
      exact absurd hle.1 h4
  | case3 s packet hpk data rest s1 hw ih =>
    obtain ⟨h1, h2, q, l, h3, h4, h5, h6⟩ := step1 s packet hpk h
    have h3' : s1.cur.packets = q ++ [l] := h3
    apply ih
    refine ⟨h1, h2, by rw [h3']; simp, ?_, ?_, ?_⟩
    · intro hr l' hl'
      rw [h3'] at hl'; simp at hl'; subst hl'; exact h5 hr
    · intro l' hl'
      rw [h3'] at hl'; simp at hl'; subst hl'; exact h6
    · intro l' hl' hle
      rw [h3'] at hl'; simp at hl'; subst hl'; exact absurd hle h4


theorem outer_invC (pol : Policy) (chunk wiggle : Nat) (hc : 0 < chunk) (hch : chunk % 255 = 0) (s : St) (ps : List Bytes)
    (hd : ∀ p ∈ s.done, Canon p) (hcp : s.cur.complete = true) :
    (∀ p ∈ (outer pol chunk wiggle hc s ps).done, Canon p) ∧ (outer pol chunk wiggle hc s ps).cur.complete = true ∧
      ∀ lastP, ps.getLast? = some lastP → ∀ l, (outer pol chunk wiggle hc s ps).cur.packets.getLast? = some l →
        l.length % 255 = lastP.length % 255 ∧ (l = [] → lastP = []) := by
  induction ps generalizing s with
  | nil =>
    refine ⟨by simpa [outer] using hd, by simpa [outer] using hcp, ?_⟩
    intro lastP hl; simp at hl
  | cons p ps ih =>
    simp only [outer]
    have hsf : ∀ sf : St, sf = (if pol.pre s.cur = true ∧ s.cur.packets ≠ [] then
        ({ done := s.done ++ [s.cur], cur := { sequence := s.cur.sequence + 1 } } : St) else s) →
        (∀ q ∈ sf.done, Canon q) ∧ sf.cur.complete = true := by
      intro sf hsf
      split at hsf
      · rw [hsf]
        refine ⟨?_, rfl⟩
        intro q hq
        rcases List.mem_append.mp hq with hq | hq
        · exact hd q hq
        · simp only [List.mem_singleton] at hq; subst hq; exact canon_of_complete _ hcp
      · rw [hsf]; exact ⟨hd, hcp⟩
    generalize hsfe : (if pol.pre s.cur = true ∧ s.cur.packets ≠ [] then
        ({ done := s.done ++ [s.cur], cur := { sequence := s.cur.sequence + 1 } } : St) else s) = sf
    obtain ⟨hf1, hf2⟩ := hsf sf hsfe.symm
    have h0 : InvC { sf with cur := { sf.cur with packets := sf.cur.packets ++ [[]] } } p p.length := by
      refine ⟨hf1, hf2, by simp, ?_, ?_, ?_⟩
      · intro _ l hl; simp at hl; subst hl; rfl
      · intro l hl; simp at hl; subst hl; simp
      · intro l hl _ hp; subst hp; rfl
    have h1 := inner_invC pol chunk wiggle hc hch _ p p.length h0
    have := ih _ h1.done h1.compl
    refine ⟨this.1, this.2.1, ?_⟩
    intro lastP hlast l hl
    cases ps with
    | nil =>
      simp only [List.getLast?_singleton, Option.some.injEq] at hlast
      subst hlast
      simp only [outer] at hl
      have ht := h1.total l hl
      have hn := h1.nonempty l hl
      simp only [List.length_nil, Nat.add_zero] at ht
      exact ⟨ht, fun hle => List.eq_nil_of_length_eq_zero (hn hle rfl)⟩
    | cons p2 ps2 =>
      rw [List.getLast?_cons_cons] at hlast
      exact this.2.2 lastP hlast l hl

/-- every page `from_packets` builds is `Canon`; the last packet on the last page is as long as the
last packet given, modulo 255, and not empty unless that one is -/
theorem fromPacketsWith_canon (pol : Policy) (chunk wiggle : Nat) (hc : 0 < chunk) (hch : chunk % 255 = 0) (seq : Nat)
    (P : List Bytes) :
    (∀ p ∈ fromPacketsWith pol chunk wiggle hc seq P, Canon p) ∧
      ∀ lastP, P.getLast? = some lastP → ∀ y, (fromPacketsWith pol chunk wiggle hc seq P).getLast? = some y →
        ∃ q l, y.packets = q ++ [l] ∧ l.length % 255 = lastP.length % 255 ∧ (l = [] → lastP = []) := by
  have h := outer_invC pol chunk wiggle hc hch { done := [], cur := { sequence := seq } } P (by simp) rfl
  constructor
  · intro p hp
    simp only [fromPacketsWith] at hp
    split at hp
    · exact h.1 p hp
    · rcases List.mem_append.mp hp with hp | hp
      · exact h.1 p hp
      · simp only [List.mem_singleton] at hp; subst hp; exact canon_of_complete _ h.2.1
  · intro lastP hlast y hy
    have hP : P ≠ [] := by intro he; rw [he] at hlast; simp at hlast
    have h0 : Inv { done := [], cur := { sequence := seq } } [] := ⟨rfl, fun h => by simp at h, rfl⟩
    have hne := outer_cur_ne' pol chunk wiggle hc _ P [] h0 (Or.inr hP)
    simp only [fromPacketsWith, hne, ↓reduceIte] at hy
    simp at hy
    subst hy
    rcases List.eq_nil_or_concat (outer pol chunk wiggle hc { done := [], cur := { sequence := seq } } P).cur.packets with hh | ⟨q, l, hh⟩
    · exact absurd hh hne
    · rw [List.concat_eq_append] at hh
      have := h.2.2 lastP hlast l (by rw [hh]; simp)
      exact ⟨q, l, hh, this.1, this.2⟩

theorem mem_modLast' {α : Type} (g : α → α) (l : List α) (x : α) (h : x ∈ modLast g l) :
    x ∈ l ∨ ∃ y, l.getLast? = some y ∧ x = g y := by
  induction l with
  | nil => simp [modLast] at h
  | cons a r ih =>
    cases r with
    | nil =>
      simp only [modLast, List.mem_singleton] at h
      exact Or.inr ⟨a, rfl, h⟩
    | cons b r =>
      simp only [modLast, List.mem_cons] at h
      rcases h with h | h
      · exact Or.inl (by simp [h])
      · rcases ih (by simpa [List.mem_cons] using h) with h' | ⟨y, hy, hxy⟩
        · exact Or.inl (by simp only [List.mem_cons] at h' ⊢; right; exact h')
        · exact Or.inr ⟨y, by rw [List.getLast?_cons_cons]; exact hy, hxy⟩

/-- the run as `replace` writes it is `Canon` when the pages it was given are and — in case the
last old page left its last packet open — the last packet on the last new page is a non-empty
multiple of 255 bytes -/
theorem canon_prepare (o0 oL : Page) (new : List Page) (hc : ∀ q ∈ new, Canon q)
    (hl : oL.complete = false → ∀ y, new.getLast? = some y → ∃ q l, y.packets = q ++ [l] ∧ l.length % 255 = 0 ∧ l ≠ []) :
    ∀ p ∈ prepare o0 oL new, Canon p := by
  intro p hp
  unfold prepare at hp
  have hX : ∀ x ∈ modHead (fun p => { p with first := o0.first, continued := o0.continued }) (number o0.serial o0.sequence new),
      ∃ q ∈ new, x.packets = q.packets ∧ x.complete = q.complete := by
    intro x hx
    obtain ⟨z, hz, hyz⟩ := mem_modHead _ _ _ hx
    obtain ⟨q, hq, s, rfl⟩ := mem_number _ _ _ _ hz
    rcases hyz with rfl | rfl <;> exact ⟨q, hq, rfl, rfl⟩
  rcases mem_modLast' _ _ _ hp with hp | ⟨y, hy, rfl⟩
  · obtain ⟨q, hq, h1, h2⟩ := hX p hp
    exact canon_congr p q (by rw [h1]) h2 (hc q hq)
  · have hym : y ∈ modHead (fun p => { p with first := o0.first, continued := o0.continued }) (number o0.serial o0.sequence new) :=
      List.mem_of_getLast? hy
    obtain ⟨q, hq, h1, h2⟩ := hX y hym
    cases hoc : oL.complete with
    | true =>
      apply canon_of_complete
      simp only; split <;> rfl
    | false =>
      -- y corresponds to the last page of `new`
      have hlast : ∃ y0, new.getLast? = some y0 ∧ y.packets = y0.packets := by
        rcases getLast?_modHead _ _ _ hy with ⟨a, ha, rfl⟩ | ⟨_, hl2⟩
        · have : (number o0.serial o0.sequence new).getLast? = some a := by rw [ha]; rfl
          obtain ⟨l0, s, hl0, rfl⟩ := getLast?_number _ _ _ _ this
          exact ⟨l0, hl0, rfl⟩
        · obtain ⟨l0, s, hl0, rfl⟩ := getLast?_number _ _ _ _ hl2
          exact ⟨l0, hl0, rfl⟩
      obtain ⟨y0, hy0, hpk⟩ := hlast
      obtain ⟨q', l, hql, hlm, hlne⟩ := hl hoc y0 hy0
      apply canon_incomplete _ q' l
      · simp only; split <;> (simp only; rw [hpk, hql])
      · simp only; split <;> rfl
      · exact hlm
      · exact hlne

/-! ### what both ways of laying out the new packets guarantee -/

structure NewFacts (L : Layout) (P : List Bytes) (new : List Page) : Prop where
  ne : new ≠ []
  carries : reasm [] new = P
  fresh : startsFresh new = true
  head : ∀ p, new.head? = some p → p.continued = L.c1.continued
  dflt : ∀ p ∈ new, p.version = 0 ∧ p.flagsHi = 0 ∧ p.first = false ∧ p.last = false
  pos : ∀ p ∈ new, -(2 ^ 63 : Int) ≤ p.position ∧ p.position < (2 ^ 63 : Int)
  lacing : ∀ p ∈ prepare L.c1 L.cK new, p.lacing.length ≤ 255
  cont : contOK L.c1.continued new
  lastpk : L.cK.complete = false → ∀ l, new.getLast? = some l → l.packets ≠ []
  canon : ∀ p ∈ prepare L.c1 L.cK new, Canon p

theorem facts_fromPackets (L : Layout) (P : List Bytes) (hP : P ≠ []) (hc1 : L.c1.continued = false) (D W : Nat)
    (hc : 0 < D / 255 * 255) (hch : D / 255 * 255 ≤ 64770)
    (hPlast : L.cK.complete = false → ∀ lp, P.getLast? = some lp → lp.length % 255 = 0 ∧ lp ≠ []) :
    NewFacts L P (fromPacketsWith (policy D) (D / 255 * 255) W hc L.c1.sequence P) := by
  obtain ⟨h1, h2, h3, init, l, h4, h5, h6⟩ := fromPacketsWith_facts (policy D) (D / 255 * 255) W hc L.c1.sequence P hP
  have hd := fromPacketsWith_dflt (policy D) (D / 255 * 255) W hc L.c1.sequence P
  have hlc := fromPacketsWith_laceCount D (D / 255 * 255) W hc hch L.c1.sequence P
  have hcn := fromPacketsWith_canon (policy D) (D / 255 * 255) W hc (Nat.mul_mod_left _ _) L.c1.sequence P
  generalize fromPacketsWith (policy D) (D / 255 * 255) W hc L.c1.sequence P = new at *
  have hcanon : ∀ p ∈ prepare L.c1 L.cK new, Canon p := by
    apply canon_prepare _ _ _ hcn.1
    intro hoc y hy
    obtain ⟨lp, hlp⟩ : ∃ lp, P.getLast? = some lp := by
      cases hg : P.getLast? with
      | none => simp at hg; exact absurd hg hP
      | some lp => exact ⟨lp, rfl⟩
    obtain ⟨q, l', hql, hm, hne'⟩ := hcn.2 lp hlp y hy
    obtain ⟨hp1, hp2⟩ := hPlast hoc lp hlp
    exact ⟨q, l', hql, by rw [hm]; exact hp1, fun he => hp2 (hne' he)⟩
  refine ⟨by rw [h4]; simp, h1, startsFresh_of_contOK _ h2, ?_, fun p hp => ⟨(hd p hp).1, (hd p hp).2.1, (hd p hp).2.2.1, (hd p hp).2.2.2.1⟩,
    ?_, ?_, by rw [hc1]; exact h2, ?_, hcanon⟩
  · intro p hp
    cases new with
    | nil => simp at hp
    | cons a r => simp at hp; subst hp; rw [hc1]; exact h2.1
  · intro p hp
    rcases (hd p hp).2.2.2.2 with h | h <;> rw [h] <;> omega
  · intro p hp
    obtain ⟨q, hq, hpk, _⟩ := prepare_mem _ _ _ p hp
    have := lacing_length_le p
    rw [hpk] at this
    exact Nat.le_trans this (hlc q hq)
  · intro _ l' hl'
    rw [h4] at hl'; simp at hl'; rw [← hl']; exact h6

theorem copyLayout_dflt (olds : List Page) (d : Bytes) :
    ∀ p ∈ (copyLayout olds d).1, p.version = 0 ∧ p.flagsHi = 0 ∧ p.first = false ∧ p.last = false := by
  induction olds generalizing d with
  | nil => simp [copyLayout]
  | cons o r ih =>
    intro p hp
    simp only [copyLayout, List.mem_cons] at hp
    rcases hp with rfl | hp
    · exact ⟨rfl, rfl, rfl, rfl⟩
    · exact ih _ p hp

theorem exists_of_map_eq {α β : Type} (f : α → β) (l1 l2 : List α) (h : l1.map f = l2.map f) (p : α) (hp : p ∈ l1) :
    ∃ o ∈ l2, f p = f o := by
  have : f p ∈ l2.map f := by rw [← h]; exact List.mem_map.mpr ⟨p, hp, rfl⟩
  obtain ⟨o, ho, hfo⟩ := List.mem_map.mp this
  exact ⟨o, ho, hfo.symm⟩

theorem map_modLast_last {α β : Type} (f : α → β) (g : α → α) (l : List α) (h : ∀ x, l.getLast? = some x → f (g x) = f x) :
    (modLast g l).map f = l.map f := by
  induction l with
  | nil => rfl
  | cons a r ih =>
    cases r with
    | nil => simp [modLast, h a rfl]
    | cons b r' =>
      simp only [modLast, List.map_cons] at ih ⊢
      rw [ih (fun x hx => h x (by simpa [List.getLast?_cons_cons] using hx))]

theorem contOK_congr (c : Bool) (ps qs : List Page)
    (h : ps.map (fun p => (p.continued, p.complete, p.packets.map List.length)) =
      qs.map (fun p => (p.continued, p.complete, p.packets.map List.length))) (hc : contOK c ps) : contOK c qs := by
  induction ps generalizing c qs with
  | nil => cases qs with
    | nil => trivial
    | cons _ _ => simp at h
  | cons p r ih =>
    cases qs with
    | nil => simp at h
    | cons q s =>
      simp only [List.map_cons, List.cons.injEq, Prod.mk.injEq] at h
      obtain ⟨⟨e1, e2, e3⟩, e4⟩ := h
      obtain ⟨h1, h2, h3⟩ := hc
      refine ⟨by rw [← e1]; exact h1, ?_, by rw [← e2]; exact ih _ s e4 h3⟩
      intro hq
      have := h2 (by rw [e2]; exact hq)
      intro hq2
      rw [hq2] at e3
      exact this (by simpa using e3)

theorem contOK_mem (c : Bool) (ps : List Page) (h : contOK c ps) : ∀ l ∈ ps, l.complete = false → l.packets ≠ [] := by
  induction ps generalizing c with
  | nil => simp
  | cons p r ih =>
    intro l hl
    simp only [List.mem_cons] at hl
    rcases hl with rfl | hl
    · exact h.2.1
    · exact ih _ h.2.2 l hl

theorem lacing_eq (p o : Page) (h1 : p.packets.map List.length = o.packets.map List.length) (h2 : p.complete = o.complete) :
    p.lacing = o.lacing := by
  simp only [Page.lacing, h1, h2]

theorem facts_copy' (c : Codec) (L : Layout) (h : L.OK c) (P : List Bytes) (hP : P ≠ [])
    (hl : P.map List.length = (reasm [] L.oldPages).map List.length) (hc1 : L.c1.continued = false)
    (hrun : contOK L.c1.continued L.oldPages) :
    NewFacts L P (copyLayout L.oldPages P.flatten).1 ∧
      (prepare L.c1 L.cK (copyLayout L.oldPages P.flatten).1).map (fun p => (p.packets.map List.length, p.complete)) =
        L.oldPages.map (fun p => (p.packets.map List.length, p.complete)) := by
  have hne : L.slots ≠ [] := by intro he; have := h.chain; rw [he] at this; exact this
  obtain ⟨_, h2, h3, h4⟩ := reasm_copyLayout L.oldPages P hl
  have hgood : ∀ o ∈ L.oldPages, Good o := by
    intro o ho
    obtain ⟨s, hs, rfl⟩ := List.mem_map.mp ho
    exact (h.slots s hs).1
  have holdne : reasm [] L.oldPages ≠ [] := by
    intro he; rw [he] at hl; simp at hl; exact hP hl
  have hfresh := oldPages_fresh c L h hc1 holdne
  obtain ⟨r, hr⟩ := oldPages_eq L hne
  obtain ⟨i, hi⟩ := oldPages_snoc L hne
  have hdf := copyLayout_dflt L.oldPages P.flatten
  generalize (copyLayout L.oldPages P.flatten).1 = new at *
  have hlen : new.length = L.oldPages.length := by simpa using congrArg List.length h3
  have hkey : new.map (fun p => (p.continued, p.complete, p.packets.map List.length)) =
      L.oldPages.map (fun p => (p.continued, p.complete, p.packets.map List.length)) := by
    apply List.ext_getElem (by simp [hlen])
    intro n hn1 hn2
    simp only [List.getElem_map]
    have e3 := congrArg (fun l => l[n]?) h3
    have e4 := congrArg (fun l => l[n]?) h4
    simp only [List.getElem?_map] at e3 e4
    have hn1' : n < new.length := by simpa using hn1
    have hn2' : n < L.oldPages.length := by simpa using hn2
    rw [List.getElem?_eq_getElem hn1', List.getElem?_eq_getElem hn2'] at e3 e4
    simp only [Option.map_some, Option.some.injEq, shape, Prod.mk.injEq] at e3 e4
    simp [e3.1, e3.2, e4.2.1]
  have hcont : contOK L.c1.continued new := contOK_congr _ _ _ hkey.symm hrun
  have hlastc : ∀ l, new.getLast? = some l → l.complete = L.cK.complete := by
    intro l hl'
    have e := congrArg (fun l => (l.map (fun x => x.2.1)).getLast?) hkey
    simp only [List.map_map, List.getLast?_map, hl', hi] at e
    simpa using e
  have hk2 : (prepare L.c1 L.cK new).map (fun p => (p.packets.map List.length, p.complete)) =
      L.oldPages.map (fun p => (p.packets.map List.length, p.complete)) := by
    unfold prepare
    rw [map_modLast_last, map_modHead _ _ _ (by intro x; rfl), map_number _ _ _ _ (fun _ _ _ => rfl)]
    · have := congrArg (List.map (fun x : Bool × Bool × List Nat => (x.2.2, x.2.1))) hkey
      simpa [List.map_map, Function.comp_def] using this
    · intro x hx
      have hxc : x.complete = L.cK.complete := by
        rcases getLast?_modHead _ _ _ hx with ⟨a, ha, rfl⟩ | ⟨_, hl2⟩
        · have : (number L.c1.serial L.c1.sequence new).getLast? = some a := by rw [ha]; rfl
          obtain ⟨l0, s, hl0, rfl⟩ := getLast?_number _ _ _ _ this
          exact hlastc l0 hl0
        · obtain ⟨l0, s, hl0, rfl⟩ := getLast?_number _ _ _ _ hl2
          exact hlastc l0 hl0
      simp only [Prod.mk.injEq]
      constructor
      · split <;> rfl
      · split <;> simp [hxc]
  have hcanon : ∀ p ∈ prepare L.c1 L.cK new, Canon p := by
    intro p hp
    obtain ⟨o, ho, hpo⟩ := exists_of_map_eq _ _ _ hk2 p hp
    simp only [Prod.mk.injEq] at hpo
    exact canon_congr p o hpo.1 hpo.2 (hgood o ho).canon
  refine ⟨⟨?_, h2, ?_, ?_, hdf, ?_, ?_, hcont, ?_, hcanon⟩, hk2⟩
  · intro he; rw [he] at hlen; rw [hr] at hlen; simp at hlen
  · rw [startsFresh_shape _ _ h3]; exact hfresh
  · intro p hp
    cases new with
    | nil => simp at hp
    | cons a b =>
      simp at hp; subst hp
      rw [hr] at h3
      simp only [List.map_cons, List.cons.injEq, shape, Prod.mk.injEq] at h3
      exact h3.1.2
  · intro p hp
    obtain ⟨o, ho, hpo⟩ := exists_of_map_eq _ _ _ h4 p hp
    simp only [Prod.mk.injEq] at hpo
    obtain ⟨_, _, _, _, _, hr1, hr2⟩ := renderable_of_render o _ (hgood o ho).render
    rw [hpo.2.2]; exact ⟨hr1, hr2⟩
  · -- lacing values: those of the old pages
    intro p hp
    obtain ⟨o, ho, hpo⟩ := exists_of_map_eq _ _ _ hk2 p hp
    simp only [Prod.mk.injEq] at hpo
    rw [lacing_eq p o hpo.1 hpo.2]
    exact (renderable_of_render o _ (hgood o ho).render).1
  · intro hc l hl'
    have hm : l ∈ new := List.mem_of_getLast? hl'
    exact contOK_mem _ _ hcont l hm (by rw [hlastc l hl']; exact hc)


theorem newPages_facts (c : Codec) (L : Layout) (h : L.OK c) (P X : List Bytes) (hP : P ≠ [])
    (hpk : toPackets L.oldPages false = .ok X) (hc1 : L.c1.continued = false) (hrun : contOK L.c1.continued L.oldPages)
    (hPlast : L.cK.complete = false → ∀ lp, P.getLast? = some lp → lp.length % 255 = 0 ∧ lp ≠ [])
    (new : List Page) (hnew : newPages c P L.oldPages = .ok new) : NewFacts L P new := by
  have hne : L.slots ≠ [] := by intro he; have := h.chain; rw [he] at this; exact this
  obtain ⟨r, hr⟩ := oldPages_eq L hne
  have hA : ∀ new', fromPackets policy P L.c1.sequence Generated.oggDefaultSize Generated.oggWiggleRoom = .ok new' →
      NewFacts L P new' := by
    intro new' hn
    rw [fromPackets_default] at hn
    simp only [Except.ok.injEq] at hn
    rw [← hn]
    exact facts_fromPackets L P hP hc1 Generated.oggDefaultSize Generated.oggWiggleRoom (by decide) (by decide) hPlast
  unfold newPages at hnew
  have hX : X = reasm [] L.oldPages := toPackets_ok _ _ _ (head_oldPages L hne) hc1 hpk
  have hB : tryPreserve P L.oldPages = .ok new → NewFacts L P new := by
    intro hn
    unfold tryPreserve at hn
    rw [hpk] at hn
    simp only at hn
    split at hn
    · rw [hr] at hn; simp only at hn; exact hA new hn
    · rename_i hlens
      have hlens' : P.map List.length = (reasm [] L.oldPages).map List.length := by
        rw [← hX]; exact Classical.not_not.mp hlens
      have hrest := (reasm_copyLayout L.oldPages P hlens').1
      generalize hcl : copyLayout L.oldPages P.flatten = cl at hn hrest
      obtain ⟨pages, rest⟩ := cl
      simp only at hn hrest
      subst hrest
      simp only [ne_eq, not_true_eq_false, ↓reduceIte, Except.ok.injEq] at hn
      rw [← hn]
      have := (facts_copy' c L h P hP hlens' hc1 hrun).1
      rw [hcl] at this
      exact this
  cases c with
  | flac => rw [hr] at hnew; simp only at hnew; exact hA new hnew
  | vorbis => exact hB hnew
  | opus => exact hB hnew
  | speex => exact hB hnew
  | theora => exact hB hnew


/-! ### the edit on a well-formed layout -/

/-- the edited stream around the comment run: the run starts a packet, and the continuation flags of
the run and of the pages of the stream behind it are consistent -/
structure Layout.StreamOK (L : Layout) : Prop where
  fresh : L.c1.continued = false
  run : contOK L.c1.continued L.oldPages
  post : contOK (!L.cK.complete) (stream L.serial L.post)

theorem newPages_total (c : Codec) (L : Layout) (h : L.OK c) (hs : L.StreamOK) (P X : List Bytes) (hP : P ≠ [])
    (hpk : toPackets L.oldPages false = .ok X) : ∃ new, newPages c P L.oldPages = .ok new := by
  have hne : L.slots ≠ [] := by intro he; have := h.chain; rw [he] at this; exact this
  obtain ⟨r, hr⟩ := oldPages_eq L hne
  have hX : X = reasm [] L.oldPages := toPackets_ok _ _ _ (head_oldPages L hne) hs.fresh hpk
  have hB : ∃ new, tryPreserve P L.oldPages = .ok new := by
    unfold tryPreserve
    rw [hpk]
    simp only
    split
    · rw [hr]; simp only; rw [fromPackets_default]; exact ⟨_, rfl⟩
    · rename_i hlens
      have hlens' : P.map List.length = (reasm [] L.oldPages).map List.length := by
        rw [← hX]; exact Classical.not_not.mp hlens
      have hrest := (reasm_copyLayout L.oldPages P hlens').1
      generalize copyLayout L.oldPages P.flatten = cl at hrest
      obtain ⟨pages, rest⟩ := cl
      simp only at hrest
      subst hrest
      exact ⟨pages, by simp⟩
  unfold newPages
  cases c with
  | flac => rw [hr]; simp only; rw [fromPackets_default]; exact ⟨_, rfl⟩
  | vorbis => exact hB
  | opus => exact hB
  | speex => exact hB
  | theora => exact hB

theorem getLast?_append_ne {α : Type} (a b : List α) (hb : b ≠ []) : (a ++ b).getLast? = b.getLast? := by
  rw [List.getLast?_append]
  cases hh : b.getLast? with
  | none => simp at hh; exact absurd hh hb
  | some x => rfl

/-- when the last page of the run leaves its last packet open, that packet — the last of the run's
packets — is a non-empty multiple of 255 bytes long -/
theorem last_packet_open (c : Codec) (L : Layout) (h : L.OK c) (hc1 : L.c1.continued = false) (old0 new0 : Bytes)
    (others : List Bytes) (hpk : toPackets L.oldPages false = .ok (old0 :: others)) :
    L.cK.complete = false → ∀ lp, (new0 :: others).getLast? = some lp → lp.length % 255 = 0 ∧ lp ≠ [] := by
  intro hoc lp hlp
  have hne : L.slots ≠ [] := by intro he; have := h.chain; rw [he] at this; exact this
  have hold : reasm [] L.oldPages = old0 :: others := (toPackets_ok _ _ _ (head_oldPages L hne) hc1 hpk).symm
  obtain ⟨i, hi⟩ := oldPages_snoc L hne
  have hcl := chain_last_closed L.slots h.chain i L.cK hi
  have hlen : L.cK.packets.length > 1 := by
    simp only [closed, Bool.or_eq_true, decide_eq_true_eq] at hcl
    rcases hcl with hcl | hcl
    · rw [hoc] at hcl; cases hcl
    · exact hcl
  have hgK : Good L.cK := by
    have : L.cK ∈ L.oldPages := by rw [hi]; simp
    obtain ⟨s, hs, hse⟩ := List.mem_map.mp this
    rw [← hse]; exact (h.slots s hs).1
  obtain ⟨f, g, rest, hpk'⟩ : ∃ f g rest, L.cK.packets = f :: g :: rest := by
    match hp : L.cK.packets, hlen with
    | f :: g :: rest, _ => exact ⟨f, g, rest, rfl⟩
    | [_], hl => simp at hl
    | [], hl => simp at hl
  -- the last packet of the run is the last packet of that page
  have hlastrun : (reasm [] L.oldPages).getLast? = (g :: rest).getLast? := by
    rw [hi, reasm_append_singleton]
    unfold step
    rw [hpk']
    simp only
    split
    · exact getLast?_append_ne _ _ (by simp)
    · rw [show reasm [] i ++ f :: g :: rest = (reasm [] i ++ [f]) ++ (g :: rest) by simp]
      exact getLast?_append_ne _ _ (by simp)
  rw [hold] at hlastrun
  have hothers : others ≠ [] := by
    intro he
    have := length_reasm_ge_last [] i L.cK
    rw [← hi, hold, he, hpk'] at this
    simp at this
  have hlp' : (g :: rest).getLast? = some lp := by
    rw [← hlastrun]
    cases others with
    | nil => exact absurd rfl hothers
    | cons o os => rw [List.getLast?_cons_cons] at hlp ⊢; exact hlp
  rcases hgK.canon with hcn | ⟨_, init, m, hm, he⟩
  · rw [hcn] at hoc; cases hoc
  · rw [hpk'] at he
    have h1 : (List.map List.length (f :: g :: rest)).getLast? = some (255 * m) := by rw [he]; simp
    rw [List.getLast?_map, List.getLast?_cons_cons, hlp'] at h1
    simp only [Option.map_some, Option.some.injEq] at h1
    refine ⟨by rw [h1]; omega, ?_⟩
    intro hle; rw [hle] at h1; simp at h1; omega

/-- THE statement about `save` on a well-formed layout: it succeeds and writes the pages `L.after new`;
the pages of all other streams are untouched; the edited stream holds the same packets with the new
comment packet in the place of the old one -/
theorem save_spec (c : Codec) (L : Layout) (h : L.OK c) (hs : L.StreamOK) (vc padData : Bytes) (pad : PadChoice)
    (old0 new0 : Bytes) (others : List Bytes) (new : List Page)
    (hpk : toPackets L.oldPages false = .ok (old0 :: others))
    (hnp : newPacket c old0 vc padData pad L.render.length = .ok new0)
    (hnew : newPages c (new0 :: others) L.oldPages = .ok new)
    (hseq : L.c1.sequence + new.length + (L.post.filter (·.serial = L.serial)).length ≤ 2 ^ 32) :
    save c L.render vc padData pad = .ok (renderPages (L.after new)) ∧
    OggInj.others L.serial (L.after new) = OggInj.others L.serial L.pages ∧
    ∃ A rest, reasm [] (stream L.serial L.pages) = A ++ old0 :: rest ∧
      reasm [] (stream L.serial (L.after new)) = A ++ new0 :: rest := by
  have hf := newPages_facts c L h (new0 :: others) (old0 :: others) (by simp) hpk hs.fresh hs.run
    (last_packet_open c L h hs.fresh old0 new0 others hpk) new hnew
  have hg := good_c1 c L h
  have hren := renderable_prepare L.c1 L.cK new (renderable_of_render _ _ hg.render).2.1 (by omega)
    (fun q hq => ⟨(hf.dflt q hq).1, (hf.dflt q hq).2.1⟩) hf.pos hf.lacing
  refine ⟨save_layout c L h vc padData pad old0 new0 others new hpk hnp hnew hf.ne hren (fun _ => hseq), others_after c L h new, ?_⟩
  exact packets_after c L h new old0 new0 others hpk hs.fresh
    (carries_of new _ L.c1 L.cK hf.carries hf.fresh hf.head) hs.post


/-! ### C03: numbering, continuation flags, first/last flags after the edit -/

theorem range'_split {α : Type} (f : α → Nat) (x y : List α) (a : Nat)
    (h : (x ++ y).map f = List.range' a (x ++ y).length) :
    x.map f = List.range' a x.length ∧ y.map f = List.range' (a + x.length) y.length := by
  rw [List.map_append, List.length_append, ← List.range'_append_1] at h
  have := List.append_inj h (by simp)
  exact this

theorem range'_join {α : Type} (f : α → Nat) (x y : List α) (a : Nat)
    (hx : x.map f = List.range' a x.length) (hy : y.map f = List.range' (a + x.length) y.length) :
    (x ++ y).map f = List.range' a (x ++ y).length := by
  rw [List.map_append, List.length_append, ← List.range'_append_1, hx, hy]

theorem seq_stream_renum (ser n : Nat) (ps : List Page) :
    (stream ser (renum ser n ps)).map (·.sequence) = List.range' n (stream ser ps).length ∧
      (stream ser (renum ser n ps)).length = (stream ser ps).length := by
  induction ps generalizing n with
  | nil => simp [renum, stream]
  | cons p r ih =>
    simp only [renum]
    split
    · rename_i hs
      have := ih (n + 1)
      simp only [stream, List.filter_cons, hs, decide_true, ↓reduceIte, List.map_cons, List.length_cons,
        List.range'_succ] at this ⊢
      exact ⟨by rw [this.1], by rw [this.2]⟩
    · rename_i hs
      have := ih n
      simp only [stream, List.filter_cons, hs, decide_false, Bool.false_eq_true, ↓reduceIte] at this ⊢
      exact this

/-- page sequence numbers: gapless before, gapless after -/
theorem seq_after (c : Codec) (L : Layout) (h : L.OK c) (new : List Page) (a : Nat)
    (hin : (stream L.serial L.pages).map (·.sequence) = List.range' a (stream L.serial L.pages).length) :
    (stream L.serial (L.after new)).map (·.sequence) = List.range' a (stream L.serial (L.after new)).length := by
  have hne : L.slots ≠ [] := by intro he; have := h.chain; rw [he] at this; exact this
  obtain ⟨r, hr⟩ := oldPages_eq L hne
  rw [stream_pages c L h, List.append_assoc] at hin
  obtain ⟨h1, h23⟩ := range'_split _ _ _ _ hin
  obtain ⟨h2, h3⟩ := range'_split _ _ _ _ h23
  have hc1 : L.c1.sequence = a + (stream L.serial L.pre).length := by
    rw [hr] at h2; simp [List.range'_succ] at h2; exact h2.1
  rw [stream_after c L h, List.append_assoc]
  apply range'_join _ _ _ _ h1
  apply range'_join
  · rw [seq_prepare, length_prepare, hc1]
  · rw [length_prepare]
    split
    · have := seq_stream_renum L.serial (L.c1.sequence + new.length) L.post
      rw [this.1, this.2, hc1]
    · rename_i heq
      have heq' : L.slots.length = new.length := Classical.not_not.mp heq
      have : L.oldPages.length = new.length := by simp [Layout.oldPages, heq']
      rw [← this]; exact h3

theorem key_stream_renum (ser n : Nat) (ps : List Page) :
    (stream ser ps).map (fun p => (p.continued, p.complete, p.packets.map List.length)) =
      (stream ser (renum ser n ps)).map (fun p => (p.continued, p.complete, p.packets.map List.length)) := by
  induction ps generalizing n with
  | nil => rfl
  | cons p r ih =>
    simp only [renum]
    split
    · rename_i hs
      simp only [stream, List.filter_cons, hs, decide_true, ↓reduceIte, List.map_cons, List.cons.injEq, true_and]
      exact ih (n + 1)
    · rename_i hs
      simp only [stream, List.filter_cons, hs, decide_false, Bool.false_eq_true, ↓reduceIte]
      exact ih n

theorem contOK_stream_renum (c : Bool) (ser n : Nat) (ps : List Page) (h : contOK c (stream ser ps)) :
    contOK c (stream ser (renum ser n ps)) :=
  contOK_congr c _ _ (key_stream_renum ser n ps) h

/-- consistent continuation flags on the whole stream give what `StreamOK` asks for -/
theorem streamOK_of_contOK (c : Codec) (L : Layout) (h : L.OK c) (hfresh : L.c1.continued = false)
    (hin : contOK false (stream L.serial L.pages)) : L.StreamOK := by
  have hne : L.slots ≠ [] := by intro he; have := h.chain; rw [he] at this; exact this
  obtain ⟨r, hr⟩ := oldPages_eq L hne
  obtain ⟨i, hi⟩ := oldPages_snoc L hne
  rw [stream_pages c L h, List.append_assoc, contOK_append, contOK_append] at hin
  obtain ⟨_, h2, h3⟩ := hin
  have he : endC false (stream L.serial L.pre) = L.c1.continued := by
    rw [hr] at h2; exact h2.1.symm
  rw [he] at h2 h3
  refine ⟨hfresh, h2, ?_⟩
  rw [hi, endC_append_singleton] at h3
  exact h3

/-- continuation flags: consistent before, consistent after -/
theorem contOK_after (c : Codec) (L : Layout) (h : L.OK c) (P : List Bytes) (new : List Page) (hf : NewFacts L P new)
    (hin : contOK false (stream L.serial L.pages)) : contOK false (stream L.serial (L.after new)) := by
  have hne : L.slots ≠ [] := by intro he; have := h.chain; rw [he] at this; exact this
  obtain ⟨r, hr⟩ := oldPages_eq L hne
  obtain ⟨i, hi⟩ := oldPages_snoc L hne
  rw [stream_pages c L h, List.append_assoc, contOK_append, contOK_append] at hin
  obtain ⟨h1, h2, h3⟩ := hin
  have he : endC false (stream L.serial L.pre) = L.c1.continued := by
    rw [hr] at h2; exact h2.1.symm
  rw [he] at h3
  rw [hi, endC_append_singleton] at h3
  obtain ⟨hp1, hp2⟩ := contOK_prepare L.c1 L.cK new hf.ne hf.cont hf.lastpk
  rw [stream_after c L h, List.append_assoc, contOK_append, contOK_append, he, hp2]
  refine ⟨h1, hp1, ?_⟩
  split
  · exact contOK_stream_renum _ _ _ _ h3
  · exact h3

theorem first_prepare (o0 oL : Page) (n0 : Page) (nr : List Page) (hd : ∀ p ∈ n0 :: nr, p.first = false) :
    (prepare o0 oL (n0 :: nr)).map (·.first) = o0.first :: nr.map (fun _ => false) := by
  unfold prepare
  rw [map_modLast _ _ _ (by intro x; simp only; split <;> rfl)]
  simp only [number, modHead, List.map_cons, List.cons.injEq, true_and]
  rw [map_number _ _ _ _ (fun _ _ _ => rfl)]
  apply List.map_congr_left
  intro p hp; exact hd p (by simp [hp])

theorem last_modLast (g : Page → Page) (b : Bool) (l : List Page) (hne : l ≠ []) (hg : ∀ x, (g x).last = b)
    (hl : ∀ p ∈ l, p.last = false) : (modLast g l).map (·.last) = l.dropLast.map (fun _ => false) ++ [b] := by
  induction l with
  | nil => exact absurd rfl hne
  | cons a r ih =>
    cases r with
    | nil => simp [modLast, hg]
    | cons b' r' =>
      simp only [modLast, List.map_cons, List.dropLast_cons_cons, List.cons_append, List.cons.injEq]
      exact ⟨hl a (by simp), ih (by simp) (fun p hp => hl p (by simp [hp]))⟩

theorem last_prepare (o0 oL : Page) (new : List Page) (hne : new ≠ []) (hd : ∀ p ∈ new, p.last = false) :
    (prepare o0 oL new).map (·.last) = new.dropLast.map (fun _ => false) ++ [oL.last] := by
  unfold prepare
  have hl : (modHead (fun p => { p with first := o0.first, continued := o0.continued }) (number o0.serial o0.sequence new)).length =
      new.length := by rw [length_modHead, length_number]
  rw [last_modLast _ oL.last]
  · congr 1
    simp only [List.map_const', List.length_dropLast, hl]
  · intro he; rw [he] at hl; cases new with
    | nil => exact hne rfl
    | cons _ _ => simp at hl
  · intro x; simp only; split <;> rfl
  · intro p hp
    obtain ⟨z, hz, hyz⟩ := mem_modHead _ _ _ hp
    obtain ⟨q, hq, s, rfl⟩ := mem_number _ _ _ _ hz
    rcases hyz with rfl | rfl <;> exact hd q hq


/-! ### the strict reader reads the edited file back -/

theorem readAll_pages (ps : List Page) (fuel : Nat) (hg : ∀ p ∈ ps, Good p) (hf : ps.length < fuel) :
    readAll fuel (renderPages ps) = some ps := by
  induction ps generalizing fuel with
  | nil =>
    cases fuel with
    | zero => omega
    | succ fuel => simp [readAll, parse]
  | cons p r ih =>
    cases fuel with
    | zero => simp at hf
    | succ fuel =>
      have hp := hg p (by simp)
      rw [renderPages_cons]
      simp only [readAll]
      rw [parse_render p (rb p) (renderPages r) hp.render hp.version hp.flagsHi hp.canon]
      simp only
      have : (rb p ++ renderPages r).take ((rb p ++ renderPages r).length - (renderPages r).length) = rb p := by
        simp
      rw [if_neg (by rw [this]; simp [hp.render]), ih fuel (fun x hx => hg x (by simp [hx])) (by simp at hf; omega)]
      rfl

theorem good_renum (ser n : Nat) (ps : List Page) (hg : ∀ p ∈ ps, Good p)
    (hn : n + (ps.filter (·.serial = ser)).length ≤ 2 ^ 32) : ∀ p ∈ renum ser n ps, Good p := by
  induction ps generalizing n with
  | nil => simp [renum]
  | cons q r ih =>
    intro p hp
    simp only [renum] at hp
    split at hp
    · rename_i hs
      simp only [List.filter_cons, hs, decide_true, ↓reduceIte, List.length_cons] at hn
      simp only [List.mem_cons] at hp
      rcases hp with rfl | hp
      · exact good_setSeq q n (hg q (by simp)) (by omega)
      · exact ih (n + 1) (fun x hx => hg x (by simp [hx])) (by omega) p hp
    · rename_i hs
      simp only [List.filter_cons, hs, decide_false, Bool.false_eq_true, ↓reduceIte] at hn
      simp only [List.mem_cons] at hp
      rcases hp with rfl | hp
      · exact hg p (by simp)
      · exact ih n (fun x hx => hg x (by simp [hx])) hn p hp

theorem mem_splicePages (ds : List (List Page)) (m : List Slot) (p : Page) (h : p ∈ splicePages ds m) :
    (∃ d ∈ ds, p ∈ d) ∨ (∃ s ∈ m, p ∈ s.2) := by
  induction m generalizing ds with
  | nil => cases ds <;> simp [splicePages] at h
  | cons s m ih =>
    cases ds with
    | nil => simp [splicePages] at h
    | cons d ds =>
      simp only [splicePages, List.mem_append] at h
      rcases h with (h | h) | h
      · exact Or.inl ⟨d, by simp, h⟩
      · exact Or.inr ⟨s, by simp, h⟩
      · rcases ih ds h with ⟨d', hd', hp⟩ | ⟨s', hs', hp⟩
        · exact Or.inl ⟨d', by simp [hd'], hp⟩
        · exact Or.inr ⟨s', by simp [hs'], hp⟩

/-- every page of the edited file is one the page reader gives back as written, provided the new
pages are (`Canon`: complete, or ending in a packet of 255·m bytes) -/
theorem good_after (c : Codec) (L : Layout) (h : L.OK c) (new : List Page)
    (hren : ∀ p ∈ prepare L.c1 L.cK new, Renderable p) (hd : ∀ q ∈ new, q.version = 0 ∧ q.flagsHi = 0)
    (hcanon : ∀ p ∈ prepare L.c1 L.cK new, Canon p)
    (hseq : L.c1.sequence + new.length + (L.post.filter (·.serial = L.serial)).length ≤ 2 ^ 32) :
    ∀ p ∈ L.after new, Good p := by
  have hsl : 0 < L.slots.length := by
    cases hh : L.slots with
    | nil => have := h.chain; rw [hh] at this; exact absurd this (by simp [Chain])
    | cons _ _ => simp
  intro p hp
  unfold Layout.after at hp
  simp only [List.mem_append] at hp
  rcases hp with (hp | hp) | hp
  · exact h.pre p hp
  · rcases mem_splicePages _ _ p hp with ⟨d, hd', hpd⟩ | ⟨s, hs, hps⟩
    · have hm : p ∈ (fitPages L.slots.length (prepare L.c1 L.cK new)).flatten := List.mem_flatten.mpr ⟨d, hd', hpd⟩
      rw [flatten_fitPages _ _ hsl] at hm
      obtain ⟨q, hq, _, hv, hf, _⟩ := prepare_mem _ _ _ p hm
      exact ⟨by rw [hv]; exact (hd q hq).1, by rw [hf, (hd q hq).2]; omega, hcanon p hm,
        render_of_renderable p (hren p hm)⟩
    · exact ((h.slots s hs).2.2 p hps).1
  · split at hp
    · exact good_renum _ _ _ h.post (by omega) p hp
    · exact h.post p hp

/-! ### consequences for the edited file as a whole -/

theorem facts_of_edit (c : Codec) (L : Layout) (h : L.OK c) (hs : L.StreamOK) (old0 new0 : Bytes) (others : List Bytes)
    (new : List Page) (hpk : toPackets L.oldPages false = .ok (old0 :: others))
    (hnew : newPages c (new0 :: others) L.oldPages = .ok new) : NewFacts L (new0 :: others) new :=
  newPages_facts c L h (new0 :: others) (old0 :: others) (by simp) hpk hs.fresh hs.run
    (last_packet_open c L h hs.fresh old0 new0 others hpk) new hnew

theorem renderable_of_facts (c : Codec) (L : Layout) (h : L.OK c) (P : List Bytes) (new : List Page) (hf : NewFacts L P new)
    (hseq : L.c1.sequence + new.length ≤ 2 ^ 32) : ∀ p ∈ prepare L.c1 L.cK new, Renderable p :=
  renderable_prepare L.c1 L.cK new (renderable_of_render _ _ (good_c1 c L h).render).2.1 hseq
    (fun q hq => ⟨(hf.dflt q hq).1, (hf.dflt q hq).2.1⟩) hf.pos hf.lacing

/-- C03: every page of the edited file can be written and is read back as it is, and the strict
reader (capture pattern, version, lacing, exact extent, checksum) reads the file back into exactly
these pages -/
theorem readAll_after (c : Codec) (L : Layout) (h : L.OK c) (P : List Bytes) (new : List Page) (hf : NewFacts L P new)
    (hseq : L.c1.sequence + new.length + (L.post.filter (·.serial = L.serial)).length ≤ 2 ^ 32) :
    (∀ p ∈ L.after new, Good p) ∧
      readAll ((renderPages (L.after new)).length + 1) (renderPages (L.after new)) = some (L.after new) := by
  have hg := good_after c L h new (renderable_of_facts c L h P new hf (by omega))
    (fun q hq => ⟨(hf.dflt q hq).1, (hf.dflt q hq).2.1⟩) hf.canon hseq
  exact ⟨hg, readAll_pages _ _ hg (by have := length_renderPages_ge (L.after new); omega)⟩

/-! ### the new packet (C09, C08) -/

theorem newPacket_padded (c : Codec) (hc : c ≠ .flac) (old0 vc padData : Bytes) (hp : c = .opus → padData = [])
    (pad : PadChoice) (fsize : Nat) :
    newPacket c old0 vc padData pad fsize =
      .ok (c.commentPrefix ++ vc ++ zeros (getPadding pad ((old0.length : Int) - ((c.commentPrefix ++ vc).length : Int))
        (fsize - old0.length)).toNat) := by
  cases c with
  | flac => exact absurd rfl hc
  | opus => simp [newPacket, hp rfl]
  | vorbis => simp [newPacket]
  | speex => simp [newPacket]
  | theora => simp [newPacket]

theorem newPacket_opus_preserved (old0 vc padData : Bytes) (hp : padData ≠ []) (pad : PadChoice) (fsize : Nat) :
    newPacket .opus old0 vc padData pad fsize = .ok (magicOpusTags ++ vc ++ padData) := by
  simp [newPacket, hp, Codec.commentPrefix]

theorem newPacket_flac (old0 vc padData : Bytes) (hv : vc.length ≤ 0xFFFFFF) (pad : PadChoice) (fsize : Nat) :
    newPacket .flac old0 vc padData pad fsize = .ok (old0.take 1 ++ toBE 3 vc.length ++ vc) := by
  simp only [newPacket]
  rw [if_neg (by omega)]


/-! ### saving in place: the new comment packet is as long as the old one -/

theorem newPages_copy (c : Codec) (hc : c ≠ .flac) (L : Layout) (h : L.OK c) (hs : L.StreamOK) (P X : List Bytes)
    (hpk : toPackets L.oldPages false = .ok X) (hlens : P.map List.length = X.map List.length)
    (new : List Page) (hnew : newPages c P L.oldPages = .ok new) : new = (copyLayout L.oldPages P.flatten).1 := by
  have hne : L.slots ≠ [] := by intro he; have := h.chain; rw [he] at this; exact this
  have hX : X = reasm [] L.oldPages := toPackets_ok _ _ _ (head_oldPages L hne) hs.fresh hpk
  have hB : tryPreserve P L.oldPages = .ok new → new = (copyLayout L.oldPages P.flatten).1 := by
    intro hn
    unfold tryPreserve at hn
    rw [hpk] at hn
    simp only at hn
    rw [if_neg (by simp [hlens])] at hn
    have hrest := (reasm_copyLayout L.oldPages P (by rw [← hX]; exact hlens)).1
    generalize copyLayout L.oldPages P.flatten = cl at hn hrest ⊢
    obtain ⟨pages, rest⟩ := cl
    simp only at hn hrest ⊢
    subst hrest
    simp only [ne_eq, not_true_eq_false, ↓reduceIte, Except.ok.injEq] at hn
    exact hn.symm
  unfold newPages at hnew
  cases c with
  | flac => exact absurd rfl hc
  | vorbis => exact hB hnew
  | opus => exact hB hnew
  | speex => exact hB hnew
  | theora => exact hB hnew

/-- the slots with other pages in the places of the run's pages -/
def reslot (ps : List Page) (m : List Slot) : List Slot := List.zipWith (fun p s => (p, s.2)) ps m

theorem splicePages_singletons (ps : List Page) (m : List Slot) (hl : ps.length = m.length) :
    splicePages (ps.map fun p => [p]) m = slotPages (reslot ps m) := by
  induction m generalizing ps with
  | nil => cases ps with
    | nil => rfl
    | cons _ _ => simp at hl
  | cons s m ih =>
    cases ps with
    | nil => simp at hl
    | cons p r =>
      simp only [List.map_cons, splicePages, reslot, List.zipWith_cons_cons, slotPages_cons]
      rw [ih r (by simpa using hl)]
      simp [reslot]

theorem fitPages_same (k : Nat) (ps : List Page) (hl : ps.length = k) : fitPages k ps = ps.map fun p => [p] := by
  unfold fitPages
  rw [if_pos (by omega)]
  simp [hl]

theorem size_eq_of_key (p o : Page) (h1 : p.packets.map List.length = o.packets.map List.length) (h2 : p.complete = o.complete) :
    p.size = o.size := by
  simp only [Page.size, lacing_eq p o h1 h2, h1]

theorem length_renderPages (ps : List Page) : (renderPages ps).length = (ps.map Page.size).sum := by
  induction ps with
  | nil => rfl
  | cons p r ih => simp [length_rb, ih]

/-- C09 (and the first step of C07): when the new comment packet has the length of the old one, the
run keeps its layout — the same number of pages, each of the size it had — so the file keeps its
length and every page outside the run stays where it was, byte for byte; no page is renumbered -/
theorem inplace_after (c : Codec) (hc : c ≠ .flac) (L : Layout) (h : L.OK c) (hs : L.StreamOK) (old0 new0 : Bytes)
    (others : List Bytes) (new : List Page) (hpk : toPackets L.oldPages false = .ok (old0 :: others))
    (hlen : new0.length = old0.length) (hnew : newPages c (new0 :: others) L.oldPages = .ok new) :
    new.length = L.slots.length ∧
      (prepare L.c1 L.cK new).map Page.size = L.oldPages.map Page.size ∧
      L.after new = L.pre ++ slotPages (reslot (prepare L.c1 L.cK new) L.slots) ++ L.post := by
  have hne : L.slots ≠ [] := by intro he; have := h.chain; rw [he] at this; exact this
  have hX : old0 :: others = reasm [] L.oldPages := toPackets_ok _ _ _ (head_oldPages L hne) hs.fresh hpk
  have hlens : (new0 :: others).map List.length = (old0 :: others).map List.length := by simp [hlen]
  have hcopy := newPages_copy c hc L h hs _ _ hpk hlens new hnew
  have hk := (facts_copy' c L h (new0 :: others) (by simp) (by rw [← hX]; exact hlens) hs.fresh hs.run).2
  rw [← hcopy] at hk
  have hl1 : (prepare L.c1 L.cK new).length = L.oldPages.length := by simpa using congrArg List.length hk
  have hl2 : new.length = L.slots.length := by
    rw [length_prepare] at hl1; simpa [Layout.oldPages] using hl1
  refine ⟨hl2, ?_, ?_⟩
  · apply List.ext_getElem (by simp [hl1])
    intro n h1 h2
    simp only [List.getElem_map]
    have e := congrArg (fun l => l[n]?) hk
    simp only [List.getElem?_map] at e
    have h1' : n < (prepare L.c1 L.cK new).length := by simpa using h1
    have h2' : n < L.oldPages.length := by simpa using h2
    rw [List.getElem?_eq_getElem h1', List.getElem?_eq_getElem h2'] at e
    simp only [Option.map_some, Option.some.injEq, Prod.mk.injEq] at e
    exact size_eq_of_key _ _ e.1 e.2
  · unfold Layout.after
    rw [if_neg (by simp [hl2]), fitPages_same _ _ (by rw [length_prepare, hl2]),
      splicePages_singletons _ _ (by rw [length_prepare, hl2])]

theorem length_slotPages_reslot (ps : List Page) (m : List Slot) (hl : ps.length = m.length)
    (hsz : ps.map Page.size = (m.map (·.1)).map Page.size) :
    (renderPages (slotPages (reslot ps m))).length = (renderPages (slotPages m)).length := by
  induction m generalizing ps with
  | nil => cases ps with
    | nil => rfl
    | cons _ _ => simp at hl
  | cons s m ih =>
    cases ps with
    | nil => simp at hl
    | cons p r =>
      simp only [List.map_cons, List.cons.injEq] at hsz
      simp only [reslot, List.zipWith_cons_cons, slotPages_cons, renderPages_cons, renderPages_append,
        List.length_append, length_rb, hsz.1]
      have := ih r (by simpa using hl) hsz.2
      simp only [reslot] at this
      rw [this]

/-- … in bytes: same length, the bytes in front of the run and behind it where they were -/
theorem inplace_bytes (L : Layout) (ps : List Page) (hl : ps.length = L.slots.length)
    (hsz : ps.map Page.size = L.oldPages.map Page.size) :
    let out := renderPages (L.pre ++ slotPages (reslot ps L.slots) ++ L.post)
    out.length = L.render.length ∧ out.take (renderPages L.pre).length = renderPages L.pre ∧
      out.drop ((renderPages L.pre).length + (renderPages (slotPages L.slots)).length) = renderPages L.post := by
  have hlen := length_slotPages_reslot ps L.slots hl hsz
  simp only [renderPages_append, Layout.render, Layout.pages]
  refine ⟨by simp only [List.length_append, hlen], ?_, ?_⟩
  · rw [List.append_assoc]; exact List.take_left' rfl
  · rw [← hlen, ← List.length_append]; exact List.drop_left' rfl


/-! ### saving what is already there changes nothing (C07, C08) -/

theorem page_list_ext (l1 l2 : List Page)
    (h1 : l1.map (·.packets) = l2.map (·.packets)) (h2 : l1.map (·.complete) = l2.map (·.complete))
    (h3 : l1.map (·.continued) = l2.map (·.continued)) (h4 : l1.map (·.sequence) = l2.map (·.sequence))
    (h5 : l1.map (·.position) = l2.map (·.position)) (h6 : l1.map (·.serial) = l2.map (·.serial))
    (h7 : l1.map (·.first) = l2.map (·.first)) (h8 : l1.map (·.last) = l2.map (·.last))
    (h9 : l1.map (·.flagsHi) = l2.map (·.flagsHi)) (h10 : l1.map (·.version) = l2.map (·.version)) : l1 = l2 := by
  induction l1 generalizing l2 with
  | nil => cases l2 with
    | nil => rfl
    | cons _ _ => simp at h1
  | cons a r ih =>
    cases l2 with
    | nil => simp at h1
    | cons b s =>
      simp only [List.map_cons, List.cons.injEq] at *
      rw [ih s h1.2 h2.2 h3.2 h4.2 h5.2 h6.2 h7.2 h8.2 h9.2 h10.2]
      congr 1
      cases a; cases b
      simp_all

theorem splitLike_same (ps : List Bytes) (rest : Bytes) : splitLike ps (ps.flatten ++ rest) = (ps, rest) := by
  induction ps with
  | nil => rfl
  | cons p r ih =>
    simp only [splitLike, List.flatten_cons, List.append_assoc]
    rw [List.drop_left' rfl, ih, List.take_left' rfl]

theorem copyLayout_same (olds : List Page) (rest : Bytes) :
    (copyLayout olds ((olds.map (·.packets.flatten)).flatten ++ rest)).1.map (·.packets) = olds.map (·.packets) := by
  induction olds generalizing rest with
  | nil => rfl
  | cons o r ih =>
    simp only [copyLayout, List.map_cons, List.flatten_cons, List.append_assoc]
    rw [splitLike_same]
    simp only [List.cons.injEq, true_and]
    exact ih rest

/-- a run as mutagen itself writes it: no reserved flag bits, consecutive numbers, first/last flags
only at its ends -/
structure Layout.Tidy (L : Layout) : Prop where
  flagsHi : ∀ o ∈ L.oldPages, o.flagsHi = 0
  seqs : L.oldPages.map (·.sequence) = List.range' L.c1.sequence L.oldPages.length
  first : ∀ o ∈ L.oldPages.tail, o.first = false
  last : ∀ o ∈ L.oldPages.dropLast, o.last = false

theorem map_const_of_forall {α β : Type} (f : α → β) (l : List α) (b : β) (h : ∀ x ∈ l, f x = b) :
    l.map f = l.map (fun _ => b) := List.map_congr_left h

theorem prepare_copy_same (c : Codec) (L : Layout) (h : L.OK c) (hs : L.StreamOK) (ht : L.Tidy) (P : List Bytes)
    (hP : P = reasm [] L.oldPages) (hPne : P ≠ []) :
    prepare L.c1 L.cK (copyLayout L.oldPages P.flatten).1 = L.oldPages := by
  have hne : L.slots ≠ [] := by intro he; have := h.chain; rw [he] at this; exact this
  obtain ⟨r, hr⟩ := oldPages_eq L hne
  obtain ⟨i, hi⟩ := oldPages_snoc L hne
  have hcl := chain_last_closed L.slots h.chain i L.cK hi
  have hfc := facts_copy' c L h P hPne (by rw [hP]) hs.fresh hs.run
  obtain ⟨hf, hk2⟩ := hfc
  obtain ⟨_, _, h3, h4⟩ := reasm_copyLayout L.oldPages P (by rw [hP])
  have hpk : (copyLayout L.oldPages P.flatten).1.map (·.packets) = L.oldPages.map (·.packets) := by
    have := copyLayout_same L.oldPages []
    rw [List.append_nil] at this
    have e : P.flatten = (L.oldPages.map (·.packets.flatten)).flatten := by rw [hP, flatten_reasm]; simp
    rw [e]; exact this
  have hdf := copyLayout_dflt L.oldPages P.flatten
  generalize (copyLayout L.oldPages P.flatten).1 = new at *
  have hlen : new.length = L.oldPages.length := by simpa using congrArg List.length hpk
  have hsd := sameData_prepare L.c1 L.cK new hf.head
  obtain ⟨n0, nr, rfl⟩ : ∃ n0 nr, new = n0 :: nr := by
    cases new with
    | nil => exact absurd rfl hf.ne
    | cons a b => exact ⟨a, b, rfl⟩
  have hgood : ∀ o ∈ L.oldPages, Good o := by
    intro o ho
    obtain ⟨s, hs', rfl⟩ := List.mem_map.mp ho
    exact (h.slots s hs').1
  apply page_list_ext
  · -- packets
    have := congrArg (List.map (fun x : List Bytes × Bool => x.1)) hsd
    simp only [List.map_map, Function.comp_def] at this
    rw [this]; exact hpk
  · -- complete
    have := congrArg (List.map (fun x : List Nat × Bool => x.2)) hk2
    simpa [List.map_map, Function.comp_def] using this
  · -- continued
    have := congrArg (List.map (fun x : List Bytes × Bool => x.2)) hsd
    simp only [List.map_map, Function.comp_def] at this
    rw [this]
    have := congrArg (List.map (fun x : List Nat × Bool => x.2)) h3
    simpa [List.map_map, Function.comp_def, shape] using this
  · -- sequence
    rw [seq_prepare, ht.seqs, hlen]
  · -- position: the last page closes the run, so `replace` does not touch its position
    have hpos : (n0 :: nr).map (·.position) = L.oldPages.map (·.position) := by
      have := congrArg (List.map (fun x : Nat × Bool × Int => x.2.2)) h4
      simpa [List.map_map, Function.comp_def] using this
    rw [← hpos]
    unfold prepare
    rw [map_modLast_last, map_modHead _ _ _ (by intro x; rfl), map_number _ _ _ _ (fun _ _ _ => rfl)]
    intro x hx
    -- x is the copy of cK
    have hxp : x.packets.length = L.cK.packets.length := by
      have hx' : ∃ y0, (n0 :: nr).getLast? = some y0 ∧ x.packets = y0.packets := by
        rcases getLast?_modHead _ _ _ hx with ⟨a, ha, rfl⟩ | ⟨_, hl2⟩
        · have : (number L.c1.serial L.c1.sequence (n0 :: nr)).getLast? = some a := by rw [ha]; rfl
          obtain ⟨l0, s, hl0, rfl⟩ := getLast?_number _ _ _ _ this
          exact ⟨l0, hl0, rfl⟩
        · obtain ⟨l0, s, hl0, rfl⟩ := getLast?_number _ _ _ _ hl2
          exact ⟨l0, hl0, rfl⟩
      obtain ⟨y0, hy0, hxy⟩ := hx'
      have e := congrArg (fun l => l.getLast?) hpk
      simp only [List.getLast?_map, hy0, hi] at e
      simp at e
      rw [hxy, e]
    simp only
    split
    · rename_i hcond
      exfalso
      simp only [Bool.and_eq_true, Bool.not_eq_eq_eq_not, Bool.not_true, beq_iff_eq] at hcond
      simp only [closed, Bool.or_eq_true, decide_eq_true_eq] at hcl
      rcases hcl with hcl | hcl
      · rw [hcl] at hcond; exact absurd hcond.1 (by simp)
      · omega
    · rfl
  · -- serial
    have h1 : (prepare L.c1 L.cK (n0 :: nr)).map (·.serial) = (prepare L.c1 L.cK (n0 :: nr)).map (fun _ => L.c1.serial) :=
      map_const_of_forall _ _ _ (serial_prepare _ _ _)
    have h2 : L.oldPages.map (·.serial) = L.oldPages.map (fun _ => L.c1.serial) := by
      apply map_const_of_forall
      intro o ho
      obtain ⟨s, hs', rfl⟩ := List.mem_map.mp ho
      exact (h.slots s hs').2.1
    rw [h1, h2]
    simp only [List.map_const', length_prepare, hlen]
  · -- first
    rw [first_prepare _ _ _ _ (fun p hp => (hdf p hp).2.2.1), hr]
    simp only [List.map_cons, List.cons.injEq, true_and]
    have : r.map (·.first) = r.map (fun _ => false) := by
      apply map_const_of_forall
      intro o ho
      exact ht.first o (by rw [hr]; exact ho)
    rw [this]
    have hl : nr.length = r.length := by rw [hr] at hlen; simpa using hlen
    simp only [List.map_const', hl]
  · -- last
    rw [last_prepare _ _ _ (by simp) (fun p hp => (hdf p hp).2.2.2), hi]
    simp only [List.map_append, List.map_cons, List.map_nil]
    have : i.map (·.last) = i.map (fun _ => false) := by
      apply map_const_of_forall
      intro o ho
      exact ht.last o (by rw [hi]; simp [ho])
    rw [this]
    have hl : (n0 :: nr).dropLast.length = i.length := by
      rw [hi] at hlen; simp only [List.length_dropLast, List.length_cons, List.length_append, List.length_nil] at hlen ⊢; omega
    simp only [List.map_const', hl]
  · -- flagsHi
    have h1 : (prepare L.c1 L.cK (n0 :: nr)).map (·.flagsHi) = (prepare L.c1 L.cK (n0 :: nr)).map (fun _ => 0) := by
      apply map_const_of_forall
      intro p hp
      obtain ⟨q, hq, _, _, hfh, _⟩ := prepare_mem _ _ _ p hp
      rw [hfh]; exact (hdf q hq).2.1
    have h2 : L.oldPages.map (·.flagsHi) = L.oldPages.map (fun _ => 0) := map_const_of_forall _ _ _ ht.flagsHi
    rw [h1, h2]; simp only [List.map_const', length_prepare, hlen]
  · -- version
    have h1 : (prepare L.c1 L.cK (n0 :: nr)).map (·.version) = (prepare L.c1 L.cK (n0 :: nr)).map (fun _ => 0) := by
      apply map_const_of_forall
      intro p hp
      obtain ⟨q, hq, _, hv, _⟩ := prepare_mem _ _ _ p hp
      rw [hv]; exact (hdf q hq).1
    have h2 : L.oldPages.map (·.version) = L.oldPages.map (fun _ => 0) :=
      map_const_of_forall _ _ _ (fun o ho => (hgood o ho).version)
    rw [h1, h2]; simp only [List.map_const', length_prepare, hlen]


theorem reslot_self (m : List Slot) : reslot (m.map (·.1)) m = m := by
  induction m with
  | nil => rfl
  | cons s m ih => simp only [List.map_cons, reslot, List.zipWith_cons_cons] at ih ⊢; rw [ih]

/-- C07 / C08, the fixed point: on a tidy layout, a save that would write the comment packet that is
already there leaves the file byte for byte as it is (no page is rewritten differently, none is
renumbered) — what a second `save()` of unchanged tags and a second `delete()` come down to -/
theorem save_unchanged (c : Codec) (hc : c ≠ .flac) (L : Layout) (h : L.OK c) (hs : L.StreamOK) (ht : L.Tidy)
    (vc padData : Bytes) (pad : PadChoice) (old0 : Bytes) (others : List Bytes)
    (hpk : toPackets L.oldPages false = .ok (old0 :: others))
    (hnp : newPacket c old0 vc padData pad L.render.length = .ok old0) :
    save c L.render vc padData pad = .ok L.render := by
  have hne : L.slots ≠ [] := by intro he; have := h.chain; rw [he] at this; exact this
  have hX : old0 :: others = reasm [] L.oldPages := toPackets_ok _ _ _ (head_oldPages L hne) hs.fresh hpk
  obtain ⟨new, hnew⟩ := newPages_total c L h hs (old0 :: others) (old0 :: others) (by simp) hpk
  have hcopy := newPages_copy c hc L h hs _ _ hpk rfl new hnew
  have hsame := prepare_copy_same c L h hs ht (old0 :: others) hX (by simp)
  rw [← hcopy] at hsame
  obtain ⟨hl, _, hafter⟩ := inplace_after c hc L h hs old0 old0 others new hpk rfl hnew
  have hgood : ∀ o ∈ L.oldPages, Good o := by
    intro o ho
    obtain ⟨s, hs', rfl⟩ := List.mem_map.mp ho
    exact (h.slots s hs').1
  have hren : ∀ p ∈ prepare L.c1 L.cK new, Renderable p := by
    rw [hsame]; intro p hp; exact renderable_of_render p _ (hgood p hp).render
  have hf := facts_of_edit c L h hs old0 old0 others new hpk hnew
  rw [save_layout c L h vc padData pad old0 old0 others new hpk hnp hnew hf.ne hren (fun hd => absurd hl.symm hd)]
  rw [hafter, hsame]
  have : reslot L.oldPages L.slots = L.slots := reslot_self L.slots
  rw [this]
  rfl


/-! ### a concrete multiplexed Vorbis layout (non-vacuity of the hypotheses) -/

theorem good_of_complete (p : Page) (h1 : p.version = 0) (h2 : p.flagsHi < 32) (h3 : p.complete = true)
    (h4 : Renderable p) : Good p := ⟨h1, h2, Or.inl h3, render_of_renderable p h4⟩

namespace Example

/-- the Vorbis identification page of stream 7 -/
def idPage : Page := { packets := [magicVorbisId ++ [0, 0, 0, 0, 2]], serial := 7, sequence := 0, first := true }
/-- the first page of another stream (serial 9) -/
def otherFirst : Page := { packets := [[1, 2, 3]], serial := 9, sequence := 0, first := true }
/-- the comment page: "\x03vorbis", an empty comment (vendor "", no entries, framing bit), 4 bytes of
padding; and a setup packet on the same page -/
def commentPacket : Bytes := magicVorbisComment ++ [0, 0, 0, 0, 0, 0, 0, 0, 1] ++ [0, 0, 0, 0]
def setupPacket : Bytes := [5, 0x76, 0x6F, 0x72, 0x62, 0x69, 0x73, 42]
def commentPage : Page := { packets := [commentPacket, setupPacket], serial := 7, sequence := 1 }
def otherLast : Page := { packets := [[4]], serial := 9, sequence := 1, last := true, position := 5 }
def audioPage : Page := { packets := [[9, 9], [8]], serial := 7, sequence := 2, last := true, position := 100 }

def layout : Layout := { pre := [idPage, otherFirst], slots := [(commentPage, [])], post := [otherLast, audioPage] }

theorem good_all : Good idPage ∧ Good otherFirst ∧ Good commentPage ∧ Good otherLast ∧ Good audioPage := by
  refine ⟨?_, ?_, ?_, ?_, ?_⟩ <;> exact good_of_complete _ rfl (by decide) rfl (by unfold Renderable; decide)

theorem layout_ok : layout.OK .vorbis := by
  obtain ⟨g1, g2, g3, g4, g5⟩ := good_all
  refine ⟨?_, ?_, ?_, ?_, ?_⟩
  · intro p hp; simp [layout] at hp; rcases hp with rfl | rfl <;> assumption
  · intro s hs; simp [layout] at hs; subst hs
    exact ⟨g3, rfl, by simp⟩
  · exact ⟨rfl, rfl⟩
  · intro p hp; simp [layout] at hp; rcases hp with rfl | rfl <;> assumption
  · exact ⟨[], idPage, [otherFirst], rfl, by simp, by decide,
      by intro p hp; simp at hp; subst hp; decide, rfl, by decide⟩

theorem layout_stream : layout.StreamOK := by
  refine ⟨rfl, ?_, ?_⟩
  · exact ⟨rfl, by simp [commentPage], trivial⟩
  · show contOK _ (stream layout.serial layout.post)
    have : stream layout.serial layout.post = [audioPage] := by decide
    rw [this]
    exact ⟨rfl, by simp [audioPage], trivial⟩


/-- the run's packets -/
theorem layout_packets : toPackets layout.oldPages false = .ok [commentPacket, setupPacket] := by decide +kernel

/-- a save of the same empty comment that answers the padding callback with 2: the new packet, the new
pages (laid out afresh: the packet is 2 bytes shorter), and the numeric side condition -/
theorem layout_save :
    newPacket .vorbis commentPacket [0, 0, 0, 0, 0, 0, 0, 0, 1] [] (.callback fun _ _ => 2) layout.render.length =
      .ok (magicVorbisComment ++ [0, 0, 0, 0, 0, 0, 0, 0, 1] ++ [0, 0]) ∧
    (∃ new, newPages .vorbis [magicVorbisComment ++ [0, 0, 0, 0, 0, 0, 0, 0, 1] ++ [0, 0], setupPacket] layout.oldPages = .ok new ∧
      new.length = 1) ∧
    (layout.post.filter (·.serial = layout.serial)).length = 1 := by
  refine ⟨by decide +kernel, ?_, by decide⟩
  have hl : (newPages .vorbis [magicVorbisComment ++ [0, 0, 0, 0, 0, 0, 0, 0, 1] ++ [0, 0], setupPacket] layout.oldPages).map
      List.length = .ok 1 := by decide +kernel
  cases hn : newPages .vorbis [magicVorbisComment ++ [0, 0, 0, 0, 0, 0, 0, 0, 1] ++ [0, 0], setupPacket] layout.oldPages with
  | error e => rw [hn] at hl; cases hl
  | ok new =>
    rw [hn] at hl
    simp only [Except.map, Except.ok.injEq] at hl
    exact ⟨new, rfl, hl⟩


/-! a comment packet on two pages with a page of another stream between them -/

def part1 : Bytes := magicVorbisComment ++ [0, 0, 0, 0, 0, 0, 0, 0, 1] ++ List.replicate 239 0
def part2 : Bytes := [0, 0, 0]
def c1 : Page := { packets := [part1], serial := 7, sequence := 1, complete := false, position := -1 }
def otherMid : Page := { packets := [[6, 6]], serial := 9, sequence := 1 }
def c2 : Page := { packets := [part2], serial := 7, sequence := 2, continued := true }
def otherLast2 : Page := { packets := [[4]], serial := 9, sequence := 2, last := true, position := 5 }
def audioPage2 : Page := { packets := [[9, 9], [8]], serial := 7, sequence := 3, last := true, position := 100 }

def layout2 : Layout :=
  { pre := [idPage, otherFirst], slots := [(c1, [otherMid]), (c2, [])], post := [otherLast2, audioPage2] }

theorem layout2_ok : layout2.OK .vorbis := by
  obtain ⟨g1, g2, _, _, _⟩ := good_all
  have gc1 : Good c1 := ⟨rfl, by decide, Or.inr ⟨rfl, [], 1, by decide, by decide +kernel⟩,
    render_of_renderable _ (by unfold Renderable; decide +kernel)⟩
  have gm : Good otherMid := good_of_complete _ rfl (by decide) rfl (by unfold Renderable; decide)
  have gc2 : Good c2 := good_of_complete _ rfl (by decide) rfl (by unfold Renderable; decide)
  have g4 : Good otherLast2 := good_of_complete _ rfl (by decide) rfl (by unfold Renderable; decide)
  have g5 : Good audioPage2 := good_of_complete _ rfl (by decide) rfl (by unfold Renderable; decide)
  refine ⟨?_, ?_, ?_, ?_, ?_⟩
  · intro p hp; simp [layout2] at hp; rcases hp with rfl | rfl <;> assumption
  · intro s hs; simp [layout2] at hs
    rcases hs with rfl | rfl
    · refine ⟨gc1, rfl, ?_⟩
      intro p hp; simp at hp; subst hp; exact ⟨gm, by decide⟩
    · exact ⟨gc2, rfl, by simp⟩
  · exact ⟨rfl, rfl, rfl⟩
  · intro p hp; simp [layout2] at hp; rcases hp with rfl | rfl <;> assumption
  · exact ⟨[], idPage, [otherFirst], rfl, by simp, by decide,
      by intro p hp; simp at hp; subst hp; decide, rfl, by decide⟩

theorem layout2_stream : layout2.StreamOK := by
  refine ⟨rfl, ?_, ?_⟩
  · exact ⟨rfl, by simp [c1], rfl, by simp [c2], trivial⟩
  · show contOK _ (stream layout2.serial layout2.post)
    have : stream layout2.serial layout2.post = [audioPage2] := by decide
    rw [this]
    exact ⟨rfl, by simp [audioPage2], trivial⟩

theorem layout2_packets : toPackets layout2.oldPages false = .ok [part1 ++ part2] := by decide +kernel

end Example

theorem first_prepare' (o0 oL : Page) (new : List Page) (hne : new ≠ []) (hd : ∀ p ∈ new, p.first = false) :
    (prepare o0 oL new).map (·.first) = o0.first :: List.replicate (new.length - 1) false := by
  cases new with
  | nil => exact absurd rfl hne
  | cons n0 nr =>
    rw [first_prepare _ _ _ _ hd]
    simp [List.map_const']

theorem last_prepare' (o0 oL : Page) (new : List Page) (hne : new ≠ []) (hd : ∀ p ∈ new, p.last = false) :
    (prepare o0 oL new).map (·.last) = List.replicate (new.length - 1) false ++ [oL.last] := by
  rw [last_prepare _ _ _ hne hd]
  simp [List.map_const']


/-- a save whose new comment packet is as long as the old one, in one statement: it succeeds, the
run keeps its number of pages and their sizes, the file keeps its length and everything outside the
run its place -/
theorem save_inplace (c : Codec) (hc : c ≠ .flac) (L : Layout) (h : L.OK c) (hs : L.StreamOK) (vc padData : Bytes)
    (pad : PadChoice) (old0 new0 : Bytes) (others : List Bytes)
    (hpk : toPackets L.oldPages false = .ok (old0 :: others))
    (hnp : newPacket c old0 vc padData pad L.render.length = .ok new0) (hlen : new0.length = old0.length)
    (hseq : L.c1.sequence + L.slots.length ≤ 2 ^ 32) :
    ∃ new out, newPages c (new0 :: others) L.oldPages = .ok new ∧ new.length = L.slots.length ∧
      (prepare L.c1 L.cK new).map Page.size = L.oldPages.map Page.size ∧
      out = renderPages (L.pre ++ slotPages (reslot (prepare L.c1 L.cK new) L.slots) ++ L.post) ∧
      save c L.render vc padData pad = .ok out ∧ out.length = L.render.length ∧
      out.take (renderPages L.pre).length = renderPages L.pre ∧
      out.drop ((renderPages L.pre).length + (renderPages (slotPages L.slots)).length) = renderPages L.post := by
  obtain ⟨new, hnew⟩ := newPages_total c L h hs (new0 :: others) (old0 :: others) (by simp) hpk
  obtain ⟨hl, hsz, hafter⟩ := inplace_after c hc L h hs old0 new0 others new hpk hlen hnew
  have hf := facts_of_edit c L h hs old0 new0 others new hpk hnew
  have hren := renderable_of_facts c L h _ new hf (by omega)
  have hsave := save_layout c L h vc padData pad old0 new0 others new hpk hnp hnew hf.ne hren (fun hd => absurd hl.symm hd)
  obtain ⟨b1, b2, b3⟩ := inplace_bytes L (prepare L.c1 L.cK new) (by rw [length_prepare, hl]) hsz
  refine ⟨new, _, hnew, hl, hsz, rfl, ?_, b1, b2, b3⟩
  rw [hsave, hafter]

theorem stream_others (a b : Nat) (hab : a ≠ b) (ps : List Page) : stream a (others b ps) = stream a ps := by
  simp only [stream, others, List.filter_filter]
  apply List.filter_congr
  intro p _
  by_cases h : p.serial = a
  · simp [h, hab]
  · simp [h]

namespace Example

/-! two Vorbis streams in one file, in the order A-identification, B-identification, B-comment,
A-comment: the tags are loaded from stream A (serial 7), and stream A's comment run is the one
`_inject` finds -/

def idB : Page := { packets := [magicVorbisId ++ [0, 0, 0, 0, 1]], serial := 8, sequence := 0, first := true }
def commentB : Page :=
  { packets := [magicVorbisComment ++ [0, 0, 0, 0, 0, 0, 0, 0, 1], [5, 0x76, 0x6F, 0x72, 0x62, 0x69, 0x73, 1]], serial := 8, sequence := 1 }
def audioB : Page := { packets := [[7, 7, 7]], serial := 8, sequence := 2, last := true, position := 64 }

def layoutAB : Layout := { pre := [idPage, idB, commentB], slots := [(commentPage, [])], post := [audioB, audioPage] }

theorem layoutAB_ok : layoutAB.OK .vorbis := by
  obtain ⟨g1, _, g3, _, g5⟩ := good_all
  have gb1 : Good idB := good_of_complete _ rfl (by decide) rfl (by unfold Renderable; decide)
  have gb2 : Good commentB := good_of_complete _ rfl (by decide) rfl (by unfold Renderable; decide)
  have gb3 : Good audioB := good_of_complete _ rfl (by decide) rfl (by unfold Renderable; decide)
  refine ⟨?_, ?_, ?_, ?_, ?_⟩
  · intro p hp; simp [layoutAB] at hp; rcases hp with rfl | rfl | rfl <;> assumption
  · intro s hs; simp [layoutAB] at hs; subst hs
    exact ⟨g3, rfl, by simp⟩
  · exact ⟨rfl, rfl⟩
  · intro p hp; simp [layoutAB] at hp; rcases hp with rfl | rfl <;> assumption
  · exact ⟨[], idPage, [idB, commentB], rfl, by simp, by decide,
      by intro p hp; simp at hp; rcases hp with rfl | rfl <;> decide, rfl, by decide⟩

theorem layoutAB_stream : layoutAB.StreamOK := by
  refine ⟨rfl, ?_, ?_⟩
  · exact ⟨rfl, by simp [commentPage], trivial⟩
  · show contOK _ (stream layoutAB.serial layoutAB.post)
    have : stream layoutAB.serial layoutAB.post = [audioPage] := by decide
    rw [this]
    exact ⟨rfl, by simp [audioPage], trivial⟩

theorem layoutAB_packets : toPackets layoutAB.oldPages false = .ok [commentPacket, setupPacket] := by decide +kernel

/-- saving into that file (whatever comment, whatever padding choice, as long as the packet can be
built): the save succeeds, stream B — both its comment page, which comes first in the file, and
its other pages — is what it was, and stream A carries the new comment packet -/
theorem layoutAB_edits_A (vc : Bytes) (pad : PadChoice) (new0 : Bytes) (new : List Page)
    (hnp : newPacket .vorbis commentPacket vc [] pad layoutAB.render.length = .ok new0)
    (hnew : newPages .vorbis [new0, setupPacket] layoutAB.oldPages = .ok new) (hn : new.length < 1000) :
    save .vorbis layoutAB.render vc [] pad = .ok (renderPages (layoutAB.after new)) ∧
      stream 8 (layoutAB.after new) = [idB, commentB, audioB] ∧
      ∃ before behind, reasm [] (stream 7 layoutAB.pages) = before ++ commentPacket :: behind ∧
        reasm [] (stream 7 (layoutAB.after new)) = before ++ new0 :: behind := by
  have hpost : (layoutAB.post.filter (·.serial = layoutAB.serial)).length = 1 := by decide
  have hc1 : layoutAB.c1.sequence = 1 := rfl
  obtain ⟨h1, h2, h3⟩ := save_spec .vorbis layoutAB layoutAB_ok layoutAB_stream vc [] pad commentPacket new0
    [setupPacket] new layoutAB_packets hnp hnew (by rw [hpost, hc1]; omega)
  have hser : layoutAB.serial = 7 := rfl
  rw [hser] at h2 h3
  refine ⟨h1, ?_, h3⟩
  rw [← stream_others 8 7 (by decide), h2, stream_others 8 7 (by decide)]
  decide

end Example

end Mutagen.OggInj
