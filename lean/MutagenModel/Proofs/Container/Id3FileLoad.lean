/-
Proofs/Container/Id3FileLoad.lean — `ID3.load` / `ID3FileType.load` as programs over the file object
(Model/Container/Id3FileLoadM.lean): they never write (`NoWrite`), what they can raise in ANY environment, and that
without faults they return the pure `load` of the bytes.
-/
import MutagenModel.Model.Container.Id3FileLoadM
import MutagenModel.Proofs.Container.Id3FileCap
set_option linter.unusedVariables false
set_option linter.unusedSimpArgs false
namespace Mutagen.Id3F
open Mutagen

/-! ### programs that never change the bytes of the file, whatever the environment and however they end -/

def NoWrite (m : FileM α) : Prop := ∀ e s r s', m e s = (r, s') → s'.data = s.data

theorem NoWrite.pure (a : α) : NoWrite (pure a : FileM α) := by
  intro e s r s' h; simp only [pure_run, Prod.mk.injEq] at h; rw [← h.2]

theorem NoWrite.raise (x : PyErr) : NoWrite (raise x : FileM α) := by
  intro e s r s' h; simp only [raise_run, Prod.mk.injEq] at h; rw [← h.2]

theorem NoWrite.bind {m : FileM α} {f : α → FileM β} (hm : NoWrite m) (hf : ∀ a, NoWrite (f a)) : NoWrite (m >>= f) := by
  intro e s r s' h
  simp only [bind_run] at h
  cases hms : m e s with
  | mk r1 s1 =>
    rw [hms] at h
    have h1 := hm e s r1 s1 hms
    cases r1 with
    | ok a => rw [hf a e s1 r s' h, h1]
    | error x => simp only [Prod.mk.injEq] at h; rw [← h.2, h1]

theorem NoWrite.tick (o : Op) : NoWrite (tick o) := by
  intro e s r s' h
  unfold Mutagen.tick at h
  split at h <;> (simp only [Prod.mk.injEq] at h; rw [← h.2])

theorem NoWrite.fseek (p : Nat) : NoWrite (fseek p) :=
  NoWrite.bind (NoWrite.tick _) fun _ => by intro e s r s' h; simp only [Prod.mk.injEq] at h; rw [← h.2]
theorem NoWrite.fseekEnd : NoWrite fseekEnd :=
  NoWrite.bind (NoWrite.tick _) fun _ => by intro e s r s' h; simp only [Prod.mk.injEq] at h; rw [← h.2]
theorem NoWrite.ftell : NoWrite ftell :=
  NoWrite.bind (NoWrite.tick _) fun _ => by intro e s r s' h; simp only [Prod.mk.injEq] at h; rw [← h.2]
theorem NoWrite.fseekFromEnd (off : Nat) : NoWrite (fseekFromEnd off) :=
  NoWrite.bind (NoWrite.tick _) fun _ => by intro e s r s' h; simp only [Prod.mk.injEq] at h; rw [← h.2]
theorem NoWrite.fseekBack (k : Nat) : NoWrite (fseekBack k) := by
  intro e s r s' h; exact NoWrite.fseek _ e s r s' h

theorem NoWrite.fread (n : Nat) : NoWrite (fread n) := by
  intro e s r s' h
  unfold Mutagen.fread at h
  cases ht : Mutagen.tick (.read n) e s with
  | mk r1 s1 =>
    rw [ht] at h
    have h1 := NoWrite.tick _ e s r1 s1 ht
    cases r1 with
    | ok u => simp only [Prod.mk.injEq] at h; rw [← h.2]; exact h1
    | error x => simp only [Prod.mk.injEq] at h; rw [← h.2]; exact h1

theorem NoWrite.readFull (n : Int) : NoWrite (readFull n) := by
  unfold Mutagen.readFull
  split
  · exact NoWrite.bind (NoWrite.raise _) fun _ => NoWrite.bind (NoWrite.fread _) fun d => by
      split
      · exact NoWrite.bind (NoWrite.raise _) fun _ => NoWrite.pure _
      · exact NoWrite.pure _
  · exact NoWrite.bind (NoWrite.fread _) fun d => by
      split
      · exact NoWrite.bind (NoWrite.raise _) fun _ => NoWrite.pure _
      · exact NoWrite.pure _

theorem NoWrite.tryCatch {body : FileM α} {pred : PyErr → Bool} {handler : PyErr → FileM α}
    (hb : NoWrite body) (hh : ∀ x, NoWrite (handler x)) : NoWrite (tryCatch body pred handler) := by
  intro e s r s' h
  unfold Mutagen.tryCatch at h
  cases hbs : body e s with
  | mk r1 s1 =>
    rw [hbs] at h
    have h1 := hb e s r1 s1 hbs
    cases r1 with
    | ok a => simp only [Prod.mk.injEq] at h; rw [← h.2, h1]
    | error x =>
      simp only at h
      split at h
      · rw [hh x e s1 r s' h, h1]
      · simp only [Prod.mk.injEq] at h; rw [← h.2, h1]

theorem NoWrite.convertError {m : FileM α} (src : PyErr → Bool) (dst : PyErr) (hm : NoWrite m) :
    NoWrite (convertError src dst m) := by
  intro e s r s' h
  rw [convertError_run] at h
  cases hms : m e s with
  | mk r1 s1 =>
    rw [hms] at h
    have h1 := hm e s r1 s1 hms
    cases r1 with
    | ok a => simp only [Prod.mk.injEq] at h; rw [← h.2, h1]
    | error x => simp only at h; split at h <;> (simp only [Prod.mk.injEq] at h; rw [← h.2, h1])

theorem noWrite_verifyRead : NoWrite verifyRead :=
  NoWrite.tryCatch (NoWrite.bind (NoWrite.fread _) fun _ => NoWrite.pure _) fun _ => NoWrite.raise _

theorem noWrite_findV1M : NoWrite findV1M := by
  unfold findV1M
  exact NoWrite.bind NoWrite.ftell fun _ => NoWrite.bind (NoWrite.fseekFromEnd _) fun _ =>
    NoWrite.bind (NoWrite.fread _) fun _ => NoWrite.bind (NoWrite.fseek _) fun _ => NoWrite.pure _

theorem noWrite_extLoadM (vmaj : Nat) : NoWrite (extLoadM vmaj) := by
  unfold extLoadM
  apply NoWrite.bind (NoWrite.readFull _); intro x
  split
  · exact NoWrite.bind (NoWrite.fseekBack _) fun _ => NoWrite.bind (NoWrite.readFull _) fun _ => NoWrite.pure _
  · split
    · split
      · exact NoWrite.raise _
      · simp only []
        split
        · exact NoWrite.raise _
        · exact NoWrite.bind (NoWrite.readFull _) fun _ => NoWrite.pure _
    · exact NoWrite.bind (NoWrite.readFull _) fun _ => NoWrite.pure _

theorem noWrite_headerLoadM : NoWrite headerLoadM := by
  unfold headerLoadM
  apply NoWrite.convertError
  apply NoWrite.bind (NoWrite.fread _); intro d
  split
  · exact NoWrite.pure _
  · split
    · exact NoWrite.pure _
    · simp only []
      split
      · exact NoWrite.pure _
      · split
        · exact NoWrite.pure _
        · exact NoWrite.raise _
        · exact NoWrite.pure _
        · apply NoWrite.bind (noWrite_extLoadM _); intro r
          cases r <;> exact NoWrite.pure _

theorem noWrite_v1FallbackM (loadV1 : Bool) (w : Loaded) : NoWrite (v1FallbackM loadV1 w) := by
  unfold v1FallbackM
  split
  · exact NoWrite.pure _
  · apply NoWrite.bind noWrite_findV1M; intro t
    cases t <;> exact NoWrite.pure _

theorem noWrite_loadBodyM (loadV1 : Bool) : NoWrite (loadBodyM loadV1) := by
  unfold loadBodyM
  apply NoWrite.bind noWrite_headerLoadM; intro h
  cases h with
  | noHeader => exact noWrite_v1FallbackM _ _
  | unsupported => exact noWrite_v1FallbackM _ _
  | hdr vmaj flags size ext =>
    simp only []
    split
    · exact NoWrite.raise _
    · apply NoWrite.bind (NoWrite.readFull _); intro body
      apply NoWrite.bind
      · split
        · exact noWrite_findV1M
        · exact NoWrite.pure _
      · intro _; exact NoWrite.pure _

theorem noWrite_loadM (loadV1 : Bool) : NoWrite (loadM loadV1) := by
  unfold loadM
  exact NoWrite.convertError _ _ (NoWrite.bind noWrite_verifyRead fun _ => noWrite_loadBodyM loadV1)

theorem noWrite_fileTypeLoadM : NoWrite fileTypeLoadM :=
  NoWrite.bind noWrite_verifyRead fun _ => noWrite_loadM true

/-! ### what load can raise, in ANY environment -/

theorem raises_verifyRead : Raises SaveErrC verifyRead := by
  unfold verifyRead
  refine Raises.tryCatch (Raises.bind ((Raises.fread _).weaken fun _ _ => sInj) fun _ => Raises.pure _ _) ?_
  intro e x _ _ s err s' h
  simp only [raise_run, Prod.mk.injEq, Except.error.injEq] at h
  exact h.1 ▸ sValue e

theorem raises_extLoadM (vmaj : Nat) : Raises SaveErrC (extLoadM vmaj) := by
  unfold extLoadM
  apply Raises.bind ((RaisesC.readFull _).weaken fun _ _ => sPrim); intro x
  split
  · apply Raises.bind ((Raises.fseekBack _).weaken fun _ _ => sInj); intro _
    apply Raises.bind ((RaisesC.readFull _).weaken fun _ _ => sPrim); intro _
    exact Raises.pure _ _
  · split
    · split
      · exact Raises.raise _ sMut
      · simp only []
        split
        · exact Raises.raise _ sMut
        · apply Raises.bind ((RaisesC.readFull _).weaken fun _ _ => sPrim); intro _
          exact Raises.pure _ _
    · apply Raises.bind ((RaisesC.readFull _).weaken fun _ _ => sPrim); intro _
      exact Raises.pure _ _

theorem raises_headerLoadM : Raises SaveErrC headerLoadM := by
  unfold headerLoadM
  refine (Raises.convertError PyErr.isIO .mutagen (P := SaveErrC) ?_).weaken fun e x h =>
    h.elim (fun h => h ▸ sMut e) (fun h => h.1)
  apply Raises.bind ((Raises.fread _).weaken fun _ _ => sInj); intro d
  split
  · exact Raises.pure _ _
  · split
    · exact Raises.pure _ _
    · simp only []
      split
      · exact Raises.pure _ _
      · split
        · exact Raises.pure _ _
        · exact Raises.raise _ sMut
        · exact Raises.pure _ _
        · apply Raises.bind (raises_extLoadM _); intro r
          cases r <;> exact Raises.pure _ _

theorem raises_v1FallbackM (loadV1 : Bool) (w : Loaded) : Raises SaveErrC (v1FallbackM loadV1 w) := by
  unfold v1FallbackM
  split
  · exact Raises.pure _ _
  · apply Raises.bind raises_findV1M; intro t
    cases t <;> exact Raises.pure _ _

theorem raises_loadBodyM (loadV1 : Bool) : Raises SaveErrC (loadBodyM loadV1) := by
  unfold loadBodyM
  apply Raises.bind raises_headerLoadM; intro h
  cases h with
  | noHeader => exact raises_v1FallbackM _ _
  | unsupported => exact raises_v1FallbackM _ _
  | hdr vmaj flags size ext =>
    simp only []
    split
    · exact Raises.raise _ sMut
    · apply Raises.bind ((RaisesC.readFull _).weaken fun _ _ => sPrim); intro body
      apply Raises.bind
      · split
        · exact raises_findV1M
        · exact Raises.pure _ _
      · intro _; exact Raises.pure _ _

/-- `ID3(fileobj)` under ANY fault environment: `error`, or a non-I/O exception -/
theorem raises_loadM (loadV1 : Bool) :
    Raises (fun e x => x = .mutagen ∨ (SaveErr e x ∧ x.isIO = false)) (loadM loadV1) := by
  unfold loadM
  exact Raises.convertError PyErr.isIO .mutagen
    ((Raises.bind raises_verifyRead fun _ => raises_loadBodyM loadV1).weaken fun _ _ => saveErrC_saveErr)

/-- `verify_fileobj`: ValueError, or an injected exception that `except Exception` does not catch -/
theorem raises_verifyRead' : Raises (fun e x => x = .value ∨ (Injected e x ∧ isException x = false)) verifyRead := by
  intro e s err s' h
  unfold verifyRead Mutagen.tryCatch at h
  cases hb : (do let _ ← fread 0; pure () : FileM Unit) e s with
  | mk r s1 =>
    rw [hb] at h
    cases r with
    | ok u => simp at h
    | error x =>
      simp only at h
      have hx : Injected e x :=
        (Raises.bind (Raises.fread 0) fun _ => Raises.pure _ ()) e s x s1 hb
      split at h
      · simp only [raise_run, Prod.mk.injEq, Except.error.injEq] at h
        exact Or.inl h.1.symm
      · rename_i hp
        simp only [Prod.mk.injEq, Except.error.injEq] at h
        exact Or.inr ⟨h.1 ▸ hx, by rw [← h.1]; simpa using hp⟩

/-- the bare `ID3FileType(fileobj)`: no `convert_error` of its own; its own `verify_fileobj` can only raise ValueError
(or let through what `except Exception` does not catch) -/
theorem raises_fileTypeLoadM :
    Raises (fun e x => x = .value ∨ x = .mutagen ∨ (SaveErr e x ∧ x.isIO = false)) fileTypeLoadM := by
  unfold fileTypeLoadM
  apply Raises.bind
  · refine raises_verifyRead'.weaken fun e x h => ?_
    rcases h with h | ⟨hi, hne⟩
    · exact Or.inl h
    · refine Or.inr (Or.inr ⟨Or.inr (Or.inr (Or.inl hi)), ?_⟩)
      cases x <;> simp_all [PyErr.isIO, isException]
  · intro _
    exact (raises_loadM true).weaken fun e x h => Or.inr h

/-! ### without faults: the pure `load` of the bytes -/

/-- the extended-header reads: the result of `extLoad` (an IOError of `read_full` where `extLoad` says `error`), the
position behind what was read -/
theorem extLoadM_q {e : Env} (hq : Quiet e) (vmaj : Nat) (s : FS) (hp : s.pos = 10) :
    ∃ s', s'.data = s.data ∧
      ((∃ r, extLoad s.data vmaj = .ok r ∧ extLoadM vmaj e s = (.ok r, s') ∧ s'.pos = bodyStart r) ∨
       (extLoad s.data vmaj = .error .mutagen ∧
          (extLoadM vmaj e s = (.error .io, s') ∨ extLoadM vmaj e s = (.error .mutagen, s')))) := by
  unfold extLoadM extLoad
  have hx : readAt s.data s.pos 4 = (s.data.drop 10).take 4 := by rw [hp]; rfl
  simp only [bind_run]
  rw [readFull_qk hq 4 4 rfl s, hx]
  generalize hxx : (s.data.drop 10).take 4 = x
  by_cases hl : x.length = 4
  · have hl' : ¬ (x.length ≠ 4) := by omega
    simp only [hl, ↓reduceIte, hl']
    have hdrop : ∀ n, readAt s.data (s.pos + 4) n = (s.data.drop 14).take n := by
      intro n; rw [hp]; rfl
    by_cases hf : Generated.frameIds.contains x = true
    · simp only [hf, ↓reduceIte, bind_run, fseekBack_q hq]
      rw [readFull_qk hq 0 0 rfl]
      simp only [readAt, List.take_zero, List.length_nil, ↓reduceIte, pure_run]
      exact ⟨_, (by rfl), Or.inl ⟨none, by simp, rfl, by simp [bodyStart, hp]⟩⟩
    · simp only [hf, Bool.false_eq_true, ↓reduceIte]
      by_cases hv : vmaj = 4
      · simp only [hv, ↓reduceIte]
        by_cases ha : (x.all fun b => decide (b.toNat < 128)) = true
        · simp only [ha, Bool.not_true, Bool.false_eq_true, ↓reduceIte]
          by_cases h4 : bpFromBytes 7 true x < 4
          · simp only [h4, ↓reduceIte, raise_run]
            exact ⟨_, (by rfl), Or.inr ⟨by simp, Or.inr rfl⟩⟩
          · simp only [h4, ↓reduceIte, bind_run]
            rw [readFull_qk hq _ (bpFromBytes 7 true x - 4) rfl, hdrop]
            simp only [List.length_take, List.length_drop]
            by_cases hlen : s.data.length - 14 < bpFromBytes 7 true x - 4
            · have : ¬ (min (bpFromBytes 7 true x - 4) (s.data.length - 14) = bpFromBytes 7 true x - 4) := by omega
              simp only [hlen, ↓reduceIte, this]
              exact ⟨_, (by rfl), Or.inr ⟨by simp, Or.inl rfl⟩⟩
            · have : (min (bpFromBytes 7 true x - 4) (s.data.length - 14) = bpFromBytes 7 true x - 4) := by omega
              simp only [hlen, ↓reduceIte, this, pure_run]
              exact ⟨_, (by rfl), Or.inl ⟨some (bpFromBytes 7 true x - 4), by simp, rfl, by simp [bodyStart, hp]⟩⟩
        · simp only [ha, Bool.not_false, ↓reduceIte, raise_run]
          exact ⟨_, (by rfl), Or.inr ⟨by simp, Or.inr rfl⟩⟩
      · simp only [hv, ↓reduceIte, bind_run]
        rw [readFull_qk hq _ (bpFromBytes 8 true x) rfl, hdrop]
        simp only [List.length_take, List.length_drop]
        by_cases hlen : s.data.length - 14 < bpFromBytes 8 true x
        · have : ¬ (min (bpFromBytes 8 true x) (s.data.length - 14) = bpFromBytes 8 true x) := by omega
          simp only [hlen, ↓reduceIte, this]
          exact ⟨_, (by rfl), Or.inr ⟨by simp, Or.inl rfl⟩⟩
        · have : (min (bpFromBytes 8 true x) (s.data.length - 14) = bpFromBytes 8 true x) := by omega
          simp only [hlen, ↓reduceIte, this, pure_run]
          exact ⟨_, (by rfl), Or.inl ⟨some (bpFromBytes 8 true x), by simp, rfl, by simp [bodyStart, hp]⟩⟩
  · simp only [hl, ↓reduceIte, ne_eq, not_false_eq_true]
    exact ⟨_, (by rfl), Or.inr ⟨by simp, Or.inl rfl⟩⟩

theorem headerLoadM_q {e : Env} (hq : Quiet e) (s : FS) (hp : s.pos = 0) :
    ∃ s', headerLoadM e s = (headerLoad s.data, s') ∧ s'.data = s.data ∧
      ∀ vmaj flags size ext, headerLoad s.data = .ok (.hdr vmaj flags size ext) → s'.pos = bodyStart ext := by
  unfold headerLoadM headerLoad
  rw [convertError_run]
  simp only [bind_run, fread_q hq]
  have hr : readAt s.data s.pos 10 = s.data.take 10 := by rw [hp]; simp [readAt]
  rw [hr]
  generalize hd : s.data.take 10 = d
  by_cases h1 : d.length ≠ 10
  · simp only [if_pos h1, pure_run]; exact ⟨_, rfl, rfl, by intro _ _ _ _ h; cases h⟩
  simp only [if_neg h1]
  by_cases h2 : d.take 3 ≠ magicID3
  · simp only [if_pos h2, pure_run]; exact ⟨_, rfl, rfl, by intro _ _ _ _ h; cases h⟩
  simp only [if_neg h2]
  by_cases h3 : (d.getD 3 0).toNat ≠ 2 ∧ (d.getD 3 0).toNat ≠ 3 ∧ (d.getD 3 0).toNat ≠ 4
  · simp only [if_pos h3, pure_run]; exact ⟨_, rfl, rfl, by intro _ _ _ _ h; cases h⟩
  simp only [if_neg h3]
  have hdl : d.length = 10 := by omega
  cases hpre : headerPre d with
  | none => simp only [pure_run]; exact ⟨_, rfl, rfl, by intro _ _ _ _ h; cases h⟩
  | err =>
    simp only [raise_run]
    exact ⟨{ data := s.data, pos := s.pos + d.length, ops := s.ops + 1, log := .read 10 :: s.log }, by simp [PyErr.isIO], rfl,
      by intro _ _ _ _ h; cases h⟩
  | plain n =>
    simp only [pure_run]
    refine ⟨_, rfl, rfl, ?_⟩
    intro _ _ _ ext h
    injection h with h; injection h with _ _ _ h4
    subst h4
    show s.pos + d.length = 10
    omega
  | ext v n =>
    simp only [bind_run]
    obtain ⟨s1, hd1, hcase⟩ := extLoadM_q hq v
      { data := s.data, pos := s.pos + d.length, ops := s.ops + 1, log := .read 10 :: s.log }
      (by show s.pos + d.length = 10; omega)
    rcases hcase with ⟨r, hpure, hrun, hpos⟩ | ⟨hpure, hrun | hrun⟩
    · simp only [] at hpure
      rw [hrun, hpure]
      cases r with
      | none =>
        refine ⟨_, rfl, hd1, ?_⟩
        intro _ _ _ ext h
        injection h with h; injection h with _ _ _ h4
        subst h4; exact hpos
      | some k =>
        refine ⟨_, rfl, hd1, ?_⟩
        intro _ _ _ ext h
        injection h with h; injection h with _ _ _ h4
        subst h4; exact hpos
    · simp only [] at hpure
      rw [hrun, hpure]
      exact ⟨_, by simp [PyErr.isIO], hd1, by intro _ _ _ _ h; cases h⟩
    · simp only [] at hpure
      rw [hrun, hpure]
      exact ⟨_, by simp [PyErr.isIO], hd1, by intro _ _ _ _ h; cases h⟩

theorem extLoad_err (f : Bytes) (v : Nat) (x : PyErr) (h : extLoad f v = .error x) : x = .mutagen := by
  unfold extLoad at h
  simp only [] at h
  repeat' split at h
  all_goals first | (injection h with h; exact h.symm) | cases h

theorem headerLoad_err (f : Bytes) (x : PyErr) (h : headerLoad f = .error x) : x = .mutagen := by
  unfold headerLoad at h
  simp only [] at h
  by_cases h1 : (f.take 10).length ≠ 10
  · rw [if_pos h1] at h; cases h
  rw [if_neg h1] at h
  by_cases h2 : (f.take 10).take 3 ≠ magicID3
  · rw [if_pos h2] at h; cases h
  rw [if_neg h2] at h
  by_cases h3 : ((f.take 10).getD 3 0).toNat ≠ 2 ∧ ((f.take 10).getD 3 0).toNat ≠ 3 ∧ ((f.take 10).getD 3 0).toNat ≠ 4
  · rw [if_pos h3] at h; cases h
  rw [if_neg h3] at h
  cases hpre : headerPre (f.take 10) with
  | none => rw [hpre] at h; cases h
  | err => rw [hpre] at h; injection h with h; exact h.symm
  | plain n => rw [hpre] at h; cases h
  | ext v n =>
    rw [hpre] at h
    simp only [] at h
    cases he : extLoad f v with
    | error e => rw [he] at h; injection h with h; subst h; exact extLoad_err f v _ he
    | ok r => rw [he] at h; cases r <;> cases h

theorem verifyRead_q {e : Env} (hq : Quiet e) (s : FS) :
    verifyRead e s = (.ok (), { data := s.data, pos := s.pos, ops := s.ops + 1, log := .read 0 :: s.log }) := by
  have hr : (readAt s.data s.pos 0) = [] := by simp [readAt]
  simp [verifyRead, tryCatch, bind_run, fread_q hq, hr]

/-- REFINEMENT: without faults, `ID3(fileobj)` at position 0 returns exactly the pure `load` of the bytes, for EVERY
byte string, and the file is unchanged -/
theorem loadM_q {e : Env} (hq : Quiet e) (loadV1 : Bool) (s : FS) (hp : s.pos = 0) :
    ∃ s', loadM loadV1 e s = (load loadV1 s.data, s') ∧ s'.data = s.data := by
  unfold loadM loadBodyM load
  rw [convertError_run]
  simp only [bind_run, verifyRead_q hq]
  obtain ⟨s1, hr1, hd1, hpos1⟩ := headerLoadM_q hq
    { data := s.data, pos := s.pos, ops := s.ops + 1, log := .read 0 :: s.log } hp
  simp only [] at hr1 hd1 hpos1
  rw [hr1]
  have fb : ∀ (w : Loaded) (t : FS), t.data = s.data →
      ∃ t', v1FallbackM loadV1 w e t = (.ok (if !loadV1 then w else match findV1 s.data with | none => w | some n => .v1 n), t') ∧
        t'.data = s.data := by
    intro w t ht
    unfold v1FallbackM
    cases loadV1 with
    | false => exact ⟨t, rfl, ht⟩
    | true =>
      obtain ⟨t1, hr, hd, _⟩ := findV1M_q hq t
      simp only [Bool.not_true, Bool.false_eq_true, ↓reduceIte, bind_run, hr, ht]
      cases findV1 s.data with
      | none => exact ⟨t1, rfl, by rw [hd, ht]⟩
      | some n => exact ⟨t1, rfl, by rw [hd, ht]⟩
  cases hh : headerLoad s.data with
  | error x =>
    have hx : x = .mutagen := headerLoad_err _ _ hh
    subst hx
    exact ⟨s1, by simp [PyErr.isIO], hd1⟩
  | ok h =>
    cases h with
    | noHeader =>
      obtain ⟨t', hr, hd⟩ := fb .noHeader s1 hd1
      simp only [hr]
      exact ⟨t', by cases loadV1 <;> simp <;> (cases findV1 s.data <;> rfl), hd⟩
    | unsupported =>
      obtain ⟨t', hr, hd⟩ := fb .unsupported s1 hd1
      simp only [hr]
      exact ⟨t', by cases loadV1 <;> simp <;> (cases findV1 s.data <;> rfl), hd⟩
    | hdr vmaj flags size ext =>
      have hpos := hpos1 vmaj flags size ext hh
      simp only []
      by_cases hsz : bodySize size ext < 0
      · simp only [hsz, ↓reduceIte, raise_run]
        exact ⟨s1, by simp [PyErr.isIO], hd1⟩
      · simp only [hsz, ↓reduceIte, bind_run]
        rw [readFull_qk hq _ (bodySize size ext).toNat (by omega) s1, hd1, hpos]
        by_cases hl : (readAt s.data (bodyStart ext) (bodySize size ext).toNat).length = (bodySize size ext).toNat
        · have hl' : ¬ ((readAt s.data (bodyStart ext) (bodySize size ext).toNat).length ≠ (bodySize size ext).toNat) := by omega
          simp only [hl, ↓reduceIte, hl', ne_eq, not_true_eq_false]
          cases loadV1 with
          | false => simp only [Bool.false_eq_true, ↓reduceIte, pure_run]; exact ⟨_, rfl, rfl⟩
          | true =>
            simp only [↓reduceIte]
            obtain ⟨t1, hr, hd, _⟩ := findV1M_q hq
              { data := s.data, pos := bodyStart ext + (bodySize size ext).toNat, ops := s1.ops + 1,
                log := .read (bodySize size ext).toNat :: s1.log }
            simp only [] at hr hd
            rw [hr]
            exact ⟨t1, rfl, hd⟩
        · simp only [hl, ↓reduceIte, ne_eq, not_false_eq_true]
          exact ⟨{ data := s.data, pos := bodyStart ext + (readAt s.data (bodyStart ext) (bodySize size ext).toNat).length,
                   ops := s1.ops + 1, log := .read (bodySize size ext).toNat :: s1.log }, by simp [PyErr.isIO], rfl⟩

end Mutagen.Id3F
