/- Proofs/Container/Id3File.lean — save/delete of free-standing ID3 files on well-formed layouts -/
import MutagenModel.Model.Container.Id3File
import MutagenModel.Props.C14
set_option linter.unusedVariables false
namespace Mutagen.Id3F
open Mutagen

theorem len4 (l : Bytes) (h : l.length = 4) : ∃ a b c d, l = [a, b, c, d] := by
  match l, h with
  | [a, b, c, d], _ => exact ⟨a, b, c, d, rfl⟩

/-- the header written for a body of `n < 2^28` bytes: "ID3", version, two zero bytes, the
syncsafe size — which reads back as `n` -/
theorem header_ok (vmaj n : Nat) (hn : n < 2 ^ 28) :
    ∃ a b c d : UInt8, header vmaj n = .ok (magicID3 ++ [UInt8.ofNat vmaj, 0, 0] ++ [a, b, c, d]) ∧
      bpFromBytes 7 true [a, b, c, d] = n ∧ a.toNat < 128 ∧ b.toNat < 128 ∧ c.toNat < 128 ∧ d.toNat < 128 := by
  obtain ⟨sz, h1, h2, h3, h4, _⟩ := C14.to_str_roundtrip n 4 7 4 true (by decide) (by simpa using hn)
  obtain ⟨a, b, c, d, rfl⟩ := len4 sz h2
  refine ⟨a, b, c, d, ?_, h3, ?_, ?_, ?_, ?_⟩
  · unfold header
    have : bpToStr (n : Int) 7 true ((4 : Nat) : Int) 4 = bpToStr (n : Int) 7 true 4 4 := rfl
    rw [← this, h1]
  · exact h4 a (by simp)
  · exact h4 b (by simp)
  · exact h4 c (by simp)
  · exact h4 d (by simp)

/-- `ID3Header` on a file that starts with a well-formed v2.2/2.3/2.4 header (no flags) for a body of
`n` bytes: the tag is `n + 10` bytes long -/
theorem headerSize_tag (vmaj n : Nat) (hv : vmaj = 2 ∨ vmaj = 3 ∨ vmaj = 4) (hd rest : Bytes) (hn : n < 2 ^ 28)
    (hh : header vmaj n = .ok hd) : headerSize (hd ++ rest) = .ok (some (n + 10)) := by
  obtain ⟨a, b, c, d, h1, h2, ha, hb, hc, hdd⟩ := header_ok vmaj n hn
  rw [h1] at hh
  cases hh
  have hvm : (UInt8.ofNat vmaj).toNat = vmaj := by
    rcases hv with rfl | rfl | rfl <;> rfl
  unfold headerSize
  simp only [magicID3, List.cons_append, List.nil_append, List.take_succ_cons, List.take_zero, List.length_cons,
    List.length_nil, List.getD_cons_succ, List.getD_cons_zero, List.drop_succ_cons, List.drop_zero, hvm]
  have e3 : ¬ (vmaj ≠ 2 ∧ vmaj ≠ 3 ∧ vmaj ≠ 4) := by omega
  have e4 : ([a, b, c, d].all fun x => decide (x.toNat < 128)) = true := by simp [ha, hb, hc, hdd]
  simp [e3, e4, h2]

/-- a file too short for a header, or not starting with "ID3", has no tag -/
def NoTag (f : Bytes) : Prop := f.length < 10 ∨ f.take 3 ≠ magicID3

theorem headerSize_none (f : Bytes) (h : NoTag f) : headerSize f = .ok none := by
  unfold headerSize
  simp only []
  by_cases hl : (f.take 10).length ≠ 10
  · rw [if_pos hl]
  · have h10 : ¬ f.length < 10 := by
      intro hlt
      apply hl
      simp only [List.length_take]; omega
    have h3 : f.take 3 ≠ magicID3 := by
      rcases h with h | h
      · exact absurd h h10
      · exact h
    have : (f.take 10).take 3 = f.take 3 := by simp [List.take_take]
    rw [if_neg hl, this, if_pos h3]

/-! ### layouts -/

/-- the ID3v2 tag region of a layout: empty, or a flag-less header of version 2/3/4 followed by
the body it announces -/
def TagOK (t : Bytes) : Prop :=
  t = [] ∨ ∃ vmaj hd body, (vmaj = 2 ∨ vmaj = 3 ∨ vmaj = 4) ∧ body.length < 2 ^ 28 ∧
    header vmaj body.length = .ok hd ∧ t = hd ++ body

/-- what `find_id3v1` must say about the end of the file: the ID3v1 block, when there is one, is
found with its length, and nothing is found when there is none — whatever precedes the audio.
(A condition on the last 131 bytes of `audio ++ v1` only; it fails for audio ending in look-alike
bytes such as "TAG" 125 bytes before the end.) -/
def V1OK (audio v1 : Bytes) : Prop :=
  ∀ pre, findV1 (pre ++ audio ++ v1) = if v1 = [] then none else some v1.length

/-- `find_id3v1` looks at the last 131 bytes only -/
theorem findV1_append_left (pre x : Bytes) (h : 131 ≤ x.length) : findV1 (pre ++ x) = findV1 x := by
  unfold findV1
  have : (pre ++ x).drop ((pre ++ x).length - 131) = x.drop (x.length - 131) := by
    rw [List.length_append, show pre.length + x.length - 131 = pre.length + (x.length - 131) by omega,
      List.drop_append]
    have e1 : pre.drop (pre.length + (x.length - 131)) = [] := List.drop_eq_nil_of_le (by omega)
    have e2 : pre.length + (x.length - 131) - pre.length = x.length - 131 := by omega
    rw [e1, e2, List.nil_append]
  rw [this]

/-- for files with at least 131 bytes after the ID3v2 tag (any real audio file) the condition is a
statement about `audio ++ v1` alone, and decidable -/
theorem V1OK_of_long (audio v1 : Bytes) (hl : 131 ≤ (audio ++ v1).length)
    (h : findV1 (audio ++ v1) = if v1 = [] then none else some v1.length) : V1OK audio v1 := by
  intro pre
  rw [List.append_assoc, findV1_append_left pre _ hl, h]

structure Layout.OK (L : Layout) : Prop where
  tag : TagOK L.tag
  noTag : L.tag = [] → NoTag (L.audio ++ L.v1)
  v1 : V1OK L.audio L.v1

theorem headerSize_layout (L : Layout) (h : L.OK) :
    headerSize L.render = .ok (if L.tag = [] then none else some L.tag.length) := by
  unfold Layout.render
  rcases h.tag with ht | ⟨vmaj, hd, body, hv, hn, hh, heq⟩
  · simp only [ht, List.nil_append, ↓reduceIte]
    exact headerSize_none _ (h.noTag ht)
  · obtain ⟨a, b, c, d, h1, _⟩ := header_ok vmaj body.length hn
    have hdeq : hd = magicID3 ++ [UInt8.ofNat vmaj, 0, 0] ++ [a, b, c, d] := by
      rw [h1] at hh; cases hh; rfl
    have hne : L.tag ≠ [] := by rw [heq, hdeq]; simp [magicID3]
    have hl : L.tag.length = body.length + 10 := by rw [heq, hdeq]; simp [magicID3]
    simp only [hne, ↓reduceIte, hl]
    rw [heq, List.append_assoc, List.append_assoc]
    exact headerSize_tag vmaj body.length hv hd _ hn hh

/-- the length of the tag region as `save` sees it -/
theorem oldSize_layout (L : Layout) (h : L.OK) :
    (match headerSize L.render with | .ok x => x.getD 0 | .error _ => 0) = L.tag.length := by
  rw [headerSize_layout L h]
  by_cases ht : L.tag = [] <;> simp [ht]

/-- the ID3v1 block after a save -/
def newV1 (v1 : Bytes) (v1opt : Nat) (blk : Bytes) : Bytes :=
  if (v1opt = 1 ∧ v1 ≠ []) ∨ v1opt = 2 then blk else []

/-- `save` spelled out once the header has been read -/
theorem save_eq (f : Bytes) (ho : Option Nat) (vmaj : Nat) (frames : Bytes) (pad : PadChoice) (v1opt : Nat) (blk : Bytes)
    (hvm : vmaj = 3 ∨ vmaj = 4) (hh : headerSize f = .ok ho) (hle : ho.getD 0 ≤ f.length) (p : Nat)
    (hp : getPadding pad (((ho.getD 0 : Nat) : Int) - (frames.length + 10 : Nat)) (f.length - ho.getD 0) = p)
    (hd : Bytes) (hhd : header vmaj (frames.length + p) = .ok hd) (hfit : frames.length + p < 2 ^ 28) :
    save f vmaj frames pad v1opt blk =
      .ok (if (v1opt = 1 ∧ (findV1 (hd ++ frames ++ zeros p ++ f.drop (ho.getD 0))).getD 0 ≠ 0) ∨ v1opt = 2 then
          (hd ++ frames ++ zeros p ++ f.drop (ho.getD 0)).take
            ((hd ++ frames ++ zeros p ++ f.drop (ho.getD 0)).length -
              (findV1 (hd ++ frames ++ zeros p ++ f.drop (ho.getD 0))).getD 0) ++ blk
        else
          (hd ++ frames ++ zeros p ++ f.drop (ho.getD 0)).take
            ((hd ++ frames ++ zeros p ++ f.drop (ho.getD 0)).length -
              (findV1 (hd ++ frames ++ zeros p ++ f.drop (ho.getD 0))).getD 0)) := by
  unfold save
  rw [hh]
  simp only []
  have h0 : ¬ (vmaj ≠ 3 ∧ vmaj ≠ 4) := by omega
  rw [if_neg h0]
  have h1 : ¬ ((f.length : Int) - ((ho.getD 0 : Nat) : Int) < 0) := by omega
  rw [if_neg h1]
  have h2 : ((f.length : Int) - ((ho.getD 0 : Nat) : Int)).toNat = f.length - ho.getD 0 := by omega
  rw [h2, hp]
  have h3 : ¬ ((p : Int) < 0) := by omega
  rw [if_neg h3]
  have h5 : ¬ (frames.length > 2 ^ 28 - 1) := by omega
  rw [if_neg h5]
  have hmin : min (p : Int).toNat (2 ^ 28 - 1 - frames.length) = p := by
    rw [Int.toNat_natCast]; omega
  simp only [hmin]
  have h4 : frames.length + 10 + p - 10 = frames.length + p := by omega
  rw [h4, hhd]
  simp only []
  split <;> rfl

/-- THE save theorem: on a well-formed layout, `ID3.save` yields: a new header whose size field
is `frames + padding`, the frames, `p` zero bytes, the audio untouched, and the ID3v1 block as the
`v1` option asks — where `p` is what the padding callback (or the default policy) answered when
it was offered `len(old tag) - (len(frames) + 10)` and told that `len(audio) + len(v1)` bytes follow. -/
theorem save_layout (L : Layout) (h : L.OK) (vmaj : Nat) (hvm : vmaj = 3 ∨ vmaj = 4) (frames : Bytes) (pad : PadChoice) (v1opt : Nat) (blk : Bytes)
    (p : Nat) (hp : getPadding pad ((L.tag.length : Int) - (frames.length + 10 : Nat)) (L.audio.length + L.v1.length) = p)
    (hfit : frames.length + p < 2 ^ 28) :
    ∃ hd, header vmaj (frames.length + p) = .ok hd ∧
      save L.render vmaj frames pad v1opt blk =
        .ok (hd ++ frames ++ zeros p ++ L.audio ++ newV1 L.v1 v1opt blk) := by
  obtain ⟨a, b, c, d, hhd, _⟩ := header_ok vmaj (frames.length + p) hfit
  refine ⟨_, hhd, ?_⟩
  have hold : (if L.tag = [] then (none : Option Nat) else some L.tag.length).getD 0 = L.tag.length := by
    by_cases ht : L.tag = [] <;> simp [ht]
  have hlen : L.render.length = L.tag.length + (L.audio.length + L.v1.length) := by
    simp [Layout.render]
  have hdrop : L.render.drop L.tag.length = L.audio ++ L.v1 := by
    simp [Layout.render, List.append_assoc]
  rw [save_eq L.render _ vmaj frames pad v1opt blk hvm (headerSize_layout L h) (by rw [hold, hlen]; omega) p
    (by rw [hold, hlen]; simpa using hp) _ hhd hfit]
  rw [hold, hdrop]
  generalize magicID3 ++ [UInt8.ofNat vmaj, 0, 0] ++ [a, b, c, d] ++ frames ++ zeros p = D
  have hv1 := h.v1 D
  rw [show D ++ (L.audio ++ L.v1) = D ++ L.audio ++ L.v1 by simp, hv1]
  unfold newV1
  by_cases hv : L.v1 = []
  · simp only [hv, ↓reduceIte, Option.getD_none, ne_eq, not_true_eq_false, and_false, false_or, List.append_nil,
      Nat.sub_zero, List.take_length]
    split <;> simp
  · have hl : (D ++ L.audio ++ L.v1).length - L.v1.length = (D ++ L.audio).length := by simp; omega
    have hne : L.v1.length ≠ 0 := by simpa using hv
    simp only [hv, ↓reduceIte, Option.getD_some, hl, List.take_left' rfl, ne_eq, hne, not_false_eq_true, and_true]
    split <;> simp [List.append_assoc]

theorem noTag_prefix (a b : Bytes) (h : NoTag (a ++ b)) : NoTag a := by
  rcases h with h | h
  · left; simp at h; omega
  · by_cases hl : a.length < 10
    · exact Or.inl hl
    · right
      intro e
      apply h
      rw [List.take_append_of_le_length (by omega)]
      exact e

/-- what the delete does once the ID3v1 part is settled: on `tag ++ rest` with a well-formed tag
region the tag is dropped; without a tag nothing is -/
theorem delete_v2_part (t rest : Bytes) (ht : TagOK t) (hno : t = [] → NoTag rest) :
    (let f1 := t ++ rest
     let d := f1.take 10
     if d.length < 10 then (.ok f1 : Except PyErr Bytes)
     else if d.take 3 ≠ magicID3 then .ok f1
     else
       let insize := bpFromBytes 7 true (d.drop 6)
       if insize + 10 > f1.length then .error .mutagen
       else .ok (f1.drop (insize + 10))) = .ok rest := by
  rcases ht with rfl | ⟨vmaj, hd, body, hv, hn, hh, rfl⟩
  · simp only [List.nil_append]
    rcases hno rfl with h | h
    · have : (rest.take 10).length < 10 := by simp [List.length_take]; omega
      simp only [this, ↓reduceIte]
    · by_cases hl : (rest.take 10).length < 10
      · simp only [hl, ↓reduceIte]
      · have : (rest.take 10).take 3 = rest.take 3 := by simp [List.take_take]
        simp only [hl, ↓reduceIte, this, h, ne_eq, not_false_eq_true]
  · obtain ⟨a, b, c, d, h1, h2, _⟩ := header_ok vmaj body.length hn
    rw [h1] at hh; cases hh
    have e10 : (magicID3 ++ [UInt8.ofNat vmaj, 0, 0] ++ [a, b, c, d] ++ body ++ rest).take 10 =
        magicID3 ++ [UInt8.ofNat vmaj, 0, 0] ++ [a, b, c, d] := by
      rw [List.append_assoc, List.take_left' (by simp [magicID3])]
    simp only [e10]
    have l10 : (magicID3 ++ [UInt8.ofNat vmaj, 0, 0] ++ [a, b, c, d]).length = 10 := by simp [magicID3]
    have t3 : (magicID3 ++ [UInt8.ofNat vmaj, 0, 0] ++ [a, b, c, d]).take 3 = magicID3 := by simp [magicID3]
    have d6 : (magicID3 ++ [UInt8.ofNat vmaj, 0, 0] ++ [a, b, c, d]).drop 6 = [a, b, c, d] := by simp [magicID3]
    have hlen : ¬ (body.length + 10 > (magicID3 ++ [UInt8.ofNat vmaj, 0, 0] ++ [a, b, c, d] ++ body ++ rest).length) := by
      simp [magicID3]
    simp only [l10, Nat.lt_irrefl, ↓reduceIte, t3, ne_eq, not_true_eq_false, d6, h2, hlen]
    have : (magicID3 ++ [UInt8.ofNat vmaj, 0, 0] ++ [a, b, c, d] ++ body ++ rest).drop (body.length + 10) = rest := by
      apply List.drop_left'
      simp only [magicID3, List.length_append, List.length_cons, List.length_nil]
      omega
    rw [this]

/-- THE delete theorem: on a well-formed layout `delete(v1, v2)` leaves exactly the parts it was
not asked to remove, byte for byte: with both flags, the audio and nothing else -/
theorem delete_layout (L : Layout) (h : L.OK) (dv1 dv2 : Bool) :
    delete L.render dv1 dv2 =
      .ok ((if dv2 then [] else L.tag) ++ L.audio ++ (if dv1 then [] else L.v1)) := by
  unfold delete
  have hv1 := h.v1 L.tag
  have hr : L.render = L.tag ++ L.audio ++ L.v1 := rfl
  have hf1 : (if dv1 = true then L.render.take (L.render.length - (findV1 L.render).getD 0) else L.render) =
      L.tag ++ (L.audio ++ (if dv1 then [] else L.v1)) := by
    cases dv1 with
    | false => simp [hr]
    | true =>
      simp only [↓reduceIte, hr, hv1]
      by_cases hv : L.v1 = []
      · simp only [hv, ↓reduceIte, Option.getD_none, Nat.sub_zero, List.append_nil, List.take_length]
      · have : (L.tag ++ L.audio ++ L.v1).length - L.v1.length = (L.tag ++ L.audio).length := by simp; omega
        simp only [hv, ↓reduceIte, Option.getD_some, this, List.take_left' rfl]
        simp
  simp only [hf1]
  cases dv2 with
  | false => simp
  | true =>
    simp only [Bool.not_true, Bool.false_eq_true, ↓reduceIte, List.nil_append]
    have hno : L.tag = [] → NoTag (L.audio ++ (if dv1 then [] else L.v1)) := by
      intro ht
      cases dv1 with
      | false => exact h.noTag ht
      | true => simpa using noTag_prefix _ _ (h.noTag ht)
    have := delete_v2_part L.tag (L.audio ++ (if dv1 then [] else L.v1)) h.tag hno
    simp only [] at this
    rw [this]

end Mutagen.Id3F
