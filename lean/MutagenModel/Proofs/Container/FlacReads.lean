/- Proofs/Container/FlacReads.lean — the code-side reader `FlacL.load` on well-formed FLAC layouts: it returns the layout's blocks -/
import MutagenModel.Proofs.Container.FlacLoad
import MutagenModel.Proofs.Container.Flac
import MutagenModel.Proofs.Vorbis
set_option linter.unusedVariables false
namespace Mutagen.FlacL
open Mutagen Mutagen.FlacB

/-! ### stream functions do not look beyond what they consume -/

/-- a result on `d` is the result on every extension of `d`, the extension handed on untouched -/
def Mono (p : Bytes → Except PyErr (α × Bytes)) : Prop := ∀ d a r x, p d = .ok (a, r) → p (d ++ x) = .ok (a, r ++ x)

theorem Mono.congr {p q : Bytes → Except PyErr (α × Bytes)} (h : ∀ b, p b = q b) (hp : Mono p) : Mono q := by
  intro d a r x hq; rw [← h] at hq ⊢; exact hp d a r x hq

theorem Mono.rd (n : Nat) : Mono (rd n) := by
  intro d a r x h
  unfold FlacB.rd at h ⊢
  split at h
  · cases h
  · rename_i hl
    simp only [Except.ok.injEq, Prod.mk.injEq] at h
    have hl' : n ≤ d.length := by omega
    have : ¬ ((d ++ x).length < n) := by simp; omega
    rw [if_neg this, List.take_append_of_le_length hl', List.drop_append_of_le_length hl', h.1, h.2]

theorem Mono.ok (a : α) : Mono (fun b => (.ok (a, b) : Except PyErr (α × Bytes))) := by
  intro d a' r x h; simp only [Except.ok.injEq, Prod.mk.injEq] at h; rw [← h.1, ← h.2]

theorem Mono.lift (e : Except PyErr β) (f : β → α) : Mono (fun r => bnd e fun s => (.ok (f s, r) : Except PyErr (α × Bytes))) := by
  cases e with
  | error x => intro d a r y h; simp at h
  | ok s => exact Mono.ok (f s)

theorem Mono.bnd {p : Bytes → Except PyErr (α × Bytes)} {g : α → Bytes → Except PyErr (β × Bytes)} (hp : Mono p) (hg : ∀ a, Mono (g a)) :
    Mono (fun b => bnd (p b) fun y => g y.1 y.2) := by
  intro d b r x h
  cases hpd : p d with
  | error e => simp only [hpd, bnd_error] at h; cases h
  | ok y =>
    simp only [hpd, bnd_ok] at h
    simp only [hp d y.1 y.2 x hpd, bnd_ok]
    exact hg y.1 y.2 b r x h

theorem mono_vcItems (n : Nat) (acc : Bytes) : Mono (vcItems n acc) := by
  induction n generalizing acc with
  | zero => exact Mono.ok acc
  | succ k ih =>
    exact Mono.congr (fun b => rfl) ((Mono.rd 4).bnd fun l => (Mono.rd (ofLE l)).bnd fun v => ih (acc ++ l ++ v))

theorem mono_vcSkip : Mono vcSkip :=
  Mono.congr (fun b => rfl) ((Mono.rd 4).bnd fun l => (Mono.rd (ofLE l)).bnd fun v => (Mono.rd 4).bnd fun c => mono_vcItems (ofLE c) (l ++ v ++ c))

theorem mono_loadPictureS : Mono loadPictureS :=
  Mono.congr (fun b => rfl) ((Mono.rd 8).bnd fun h1 => (Mono.rd (ofBE (h1.drop 4))).bnd fun m => (Mono.rd 4).bnd fun h2 => (Mono.rd (ofBE h2)).bnd fun ds =>
    (Mono.rd 20).bnd fun h3 => (Mono.rd (ofBE (h3.drop 16))).bnd fun data =>
      Mono.ok (⟨ofBE (h1.take 4), decodeReplace m, decodeReplace ds, ofBE (h3.take 4), ofBE ((h3.drop 4).take 4),
        ofBE ((h3.drop 8).take 4), ofBE ((h3.drop 12).take 4), data⟩ : Picture))

theorem mono_readBody (code size : Nat) : Mono (readBody code size) := by
  unfold readBody
  by_cases h4 : code = 4
  · simp only [h4, ↓reduceIte]
    exact Mono.congr (fun b => rfl) (mono_vcSkip.bnd fun raw => Mono.ok (⟨4, .vc raw⟩ : LBlock))
  · by_cases h6 : code = 6
    · simp only [h4, h6, ↓reduceIte]
      exact Mono.congr (fun b => rfl) (mono_loadPictureS.bnd fun p => Mono.ok (⟨6, .other (.picture p)⟩ : LBlock))
    · simp only [h4, h6, ↓reduceIte]
      by_cases h0 : code = 0
      · simp only [h0, ↓reduceIte]
        exact Mono.congr (fun b => rfl) ((Mono.rd size).bnd fun d => Mono.lift (Flac.siLoad d) fun s => (⟨0, .streaminfo s⟩ : LBlock))
      · simp only [h0, ↓reduceIte]
        exact Mono.congr (fun b => rfl) ((Mono.rd size).bnd fun d => Mono.lift (loadBody code d.length d) fun r => (⟨code, .other r.1⟩ : LBlock))

/-! ### one block, the block list -/

/-- what the code-side reader makes of the block: its class loader consumes exactly the payload -/
def Decodes (b : FlacC.Block) (lb : LBlock) : Prop := readBody b.code b.data.length b.data = .ok (lb, [])

theorem decodes_code (b : FlacC.Block) (lb : LBlock) (h : Decodes b lb) : lb.code = b.code := by
  unfold Decodes readBody at h
  split at h
  · rename_i hc
    cases hv : vcSkip b.data with
    | error x => simp [hv] at h
    | ok v => simp only [hv, bnd_ok, Except.ok.injEq, Prod.mk.injEq] at h; rw [← h.1, hc]
  · split at h
    · rename_i _ hc
      cases hv : loadPictureS b.data with
      | error x => simp [hv] at h
      | ok v => simp only [hv, bnd_ok, Except.ok.injEq, Prod.mk.injEq] at h; rw [← h.1, hc]
    · cases hr : rd b.data.length b.data with
      | error x => simp [hr] at h
      | ok d =>
        simp only [hr, bnd_ok] at h
        split at h
        · rename_i hc
          cases hs : Flac.siLoad d.1 with
          | error x => simp [hs] at h
          | ok s => simp only [hs, bnd_ok, Except.ok.injEq, Prod.mk.injEq] at h; rw [← h.1, hc]
        · cases hs : loadBody b.code d.1.length d.1 with
          | error x => simp [hs] at h
          | ok s => simp only [hs, bnd_ok, Except.ok.injEq, Prod.mk.injEq] at h; rw [← h.1]

theorem readBlock_render (b : FlacC.Block) (lb : LBlock) (hb : b.ok) (h : Decodes b lb) (last : Bool) (rest : Bytes) :
    readBlock (FlacC.renderBlock b last ++ rest) = .ok ((lb, last), rest) := by
  obtain ⟨hc, hn⟩ := hb
  have hbyte : (UInt8.ofNat (b.code + (if last then 128 else 0))).toNat = b.code + (if last then 128 else 0) := by
    have : b.code + (if last then 128 else 0) < 256 := by cases last <;> simp <;> omega
    simp [UInt8.toNat_ofNat', Nat.mod_eq_of_lt this]
  have e : FlacC.renderBlock b last ++ rest = [UInt8.ofNat (b.code + (if last then 128 else 0))] ++ (toBE 3 b.data.length ++ (b.data ++ rest)) := by
    simp [FlacC.renderBlock, FlacC.blockHeader, List.append_assoc]
  unfold readBlock
  rw [e, rd_app _ _ 1 rfl]
  simp only [bnd_ok]
  rw [rd_app _ _ 3 (by simp)]
  have h24 : b.data.length < 256 ^ 3 := by
    have : (256 : Nat) ^ 3 = 2 ^ 24 := by decide
    omega
  simp only [bnd_ok, ofBE_single, hbyte, ofBE_toBE 3 _ h24]
  have hcode : (b.code + (if last then 128 else 0)) % 128 = b.code := by cases last <;> simp <;> omega
  have hlast : decide (b.code + (if last then 128 else 0) ≥ 128) = last := by cases last <;> simp <;> omega
  have := mono_readBody b.code b.data.length b.data lb [] rest h
  rw [hcode, this, hlast]
  simp

/-- block by block -/
inductive AllDecode : List FlacC.Block → List LBlock → Prop
  | nil : AllDecode [] []
  | cons {b lb r lr} : Decodes b lb → AllDecode r lr → AllDecode (b :: r) (lb :: lr)

/-- no second CueSheet, no second SeekTable, given what was seen before -/
def dupFree : Bool → Bool → List LBlock → Bool
  | _, _, [] => true
  | cue, seek, b :: r =>
    !(decide (b.code = 5 ∧ cue = true) || decide (b.code = 3 ∧ seek = true)) && dupFree (cue || b.code == 5) (seek || b.code == 3) r

theorem readBlocks_render (bs : List FlacC.Block) (lbs : List LBlock) (hne : bs ≠ []) (hok : ∀ b ∈ bs, b.ok)
    (hd : AllDecode bs lbs) (cue seek : Bool) (hdup : dupFree cue seek lbs = true) (rest : Bytes) (fuel : Nat) (hf : bs.length ≤ fuel) :
    readBlocks fuel cue seek (FlacC.renderBlocks bs ++ rest) = .ok (lbs, rest) := by
  induction hd generalizing cue seek fuel with
  | nil => exact absurd rfl hne
  | @cons b lb r lr hb hr ih =>
    cases fuel with
    | zero => simp at hf
    | succ k =>
      have hbok := hok b (by simp)
      simp only [dupFree, Bool.and_eq_true, Bool.not_eq_true', Bool.or_eq_false_iff, decide_eq_false_iff_not] at hdup
      have hcond : ¬ ((lb.code = 5 ∧ cue = true) ∨ (lb.code = 3 ∧ seek = true)) := by
        intro hc; rcases hc with hc | hc
        · exact hdup.1.1 hc
        · exact hdup.1.2 hc
      rw [readBlocks_succ]
      cases r with
      | nil =>
        cases hr
        have e : FlacC.renderBlocks [b] ++ rest = FlacC.renderBlock b true ++ rest := rfl
        rw [e, readBlock_render b lb hbok hb true rest]
        simp only [bnd_ok, hcond, ↓reduceIte]
      | cons c r' =>
        have e : FlacC.renderBlocks (b :: c :: r') ++ rest = FlacC.renderBlock b false ++ (FlacC.renderBlocks (c :: r') ++ rest) := by
          simp [FlacC.renderBlocks, List.append_assoc]
        rw [e, readBlock_render b lb hbok hb false _]
        simp only [bnd_ok, hcond, ↓reduceIte, Bool.false_eq_true]
        rw [ih (by simp) (fun x hx => hok x (by simp [hx])) _ _ hdup.2 k (by simpa using hf)]
        simp

theorem length_le_renderBlocks (bs : List FlacC.Block) : bs.length ≤ (FlacC.renderBlocks bs).length := by
  induction bs with
  | nil => simp
  | cons b r ih =>
    cases r with
    | nil => simp [FlacC.renderBlocks, FlacC.renderBlock, FlacC.blockHeader]
    | cons c r' =>
      simp only [FlacC.renderBlocks, List.length_append, List.length_cons] at ih ⊢
      have : 1 ≤ (FlacC.renderBlock b false).length := by simp [FlacC.renderBlock, FlacC.blockHeader]
      omega

/-- an ID3v2 tag in front of "fLaC" as `__check_header` skips it: "ID3", version, revision, flags, a syncsafe size, that many bytes -/
def Id3Prefix (pre : Bytes) : Prop :=
  ∃ v rev flags sz body, sz.length = 4 ∧ bpFromBytes 7 true sz = body.length ∧ pre = id3 ++ [v, rev, flags] ++ sz ++ body

theorem checkHeader_render (L : FlacC.Layout) (hpre : L.pre = [] ∨ Id3Prefix L.pre) :
    checkHeader (FlacC.render L) = .ok (L.pre.length + 4, FlacC.renderBlocks L.blocks ++ L.audio) := by
  rcases hpre with hpre | ⟨v, rev, flags, sz, body, hsz, hbp, hpre⟩
  · unfold checkHeader
    have e : FlacC.render L = magic ++ (FlacC.renderBlocks L.blocks ++ L.audio) := by
      simp [FlacC.render, hpre, FlacC.magic, magic, List.append_assoc]
    rw [e, rd_app _ _ 4 rfl]
    simp [hpre]
  · unfold checkHeader
    have e : FlacC.render L = (id3 ++ [v]) ++ (([rev, flags] ++ sz) ++ (body ++ (magic ++ (FlacC.renderBlocks L.blocks ++ L.audio)))) := by
      simp [FlacC.render, hpre, FlacC.magic, magic, List.append_assoc]
    rw [e, rd_app _ _ 4 rfl]
    simp only [bnd_ok]
    have hnm : ¬ (id3 ++ [v] = magic) := by simp [id3, magic]
    have hid : (id3 ++ [v]).take 3 = id3 := by simp [id3]
    rw [if_neg hnm, if_pos hid, rd_app _ _ 6 (by simp [hsz])]
    simp only [bnd_ok]
    have hd2 : ([rev, flags] ++ sz).drop 2 = sz := by simp
    rw [hd2, hbp]
    have hdrop : ((id3 ++ [v]) ++ (([rev, flags] ++ sz) ++ (body ++ (magic ++ (FlacC.renderBlocks L.blocks ++ L.audio))))).drop (14 + body.length - 4) =
        magic ++ (FlacC.renderBlocks L.blocks ++ L.audio) := by
      have : ((id3 ++ [v]) ++ (([rev, flags] ++ sz) ++ (body ++ (magic ++ (FlacC.renderBlocks L.blocks ++ L.audio))))) =
          ((id3 ++ [v]) ++ ([rev, flags] ++ sz) ++ body) ++ (magic ++ (FlacC.renderBlocks L.blocks ++ L.audio)) := by
        simp only [List.append_assoc]
      rw [this]
      exact List.drop_left' (by simp [id3, hsz]; omega)
    rw [hdrop, rd_app _ _ 4 rfl]
    simp only [bnd_ok, ↓reduceIte]
    have : L.pre.length + 4 = 14 + body.length := by rw [hpre]; simp [id3, hsz]; omega
    rw [this]

/-- THE reading theorem: on a well-formed FLAC file — nothing or an ID3v2 tag in front, "fLaC", blocks with codes below 127 and
sizes below 2^24, the last-block flag on the last one, audio — whose block payloads are what their classes read (`Decodes`: the
class loader consumes exactly the payload: a Vorbis comment or picture that fills its block, a STREAMINFO of 34 bytes with a sample
rate, cue sheet and seek table that parse), with a STREAMINFO and without a second CueSheet or SeekTable, `FLAC.load` returns
exactly the blocks of the layout, in order, decoded by the block classes; the bitrate is computed from exactly the audio bytes -/
theorem load_render (L : FlacC.Layout) (hpre : L.pre = [] ∨ Id3Prefix L.pre) (hne : L.blocks ≠ []) (hok : ∀ b ∈ L.blocks, b.ok)
    (lbs : List LBlock) (hd : AllDecode L.blocks lbs) (hdup : dupFree false false lbs = true) (hsi : lbs.any isStreamInfo = true) :
    load (FlacC.render L) = .ok ⟨lbs, if hasLength lbs then some L.audio.length else none⟩ := by
  unfold load
  rw [checkHeader_render L hpre]
  simp only [bnd_ok]
  rw [readBlocks_render L.blocks lbs hne hok hd false false hdup L.audio _ (by
    have := length_le_renderBlocks L.blocks
    simp only [FlacC.render, List.length_append]; omega)]
  simp only [bnd_ok, hsi, ↓reduceIte]

theorem allDecode_append {a b : List FlacC.Block} {x y : List LBlock} (h1 : AllDecode a x) (h2 : AllDecode b y) : AllDecode (a ++ b) (x ++ y) := by
  induction h1 with
  | nil => exact h2
  | cons hb _ ih => exact AllDecode.cons hb ih

theorem decodes_padding (n : Nat) : Decodes ⟨FlacC.padCode, zeros n⟩ ⟨1, .other (.padding n)⟩ := by
  unfold Decodes readBody
  have h1 : rd n (zeros n) = .ok (zeros n, []) := by
    have := rd_app (zeros n) [] n (length_zeros n)
    rwa [List.append_nil] at this
  simp only [FlacC.padCode, show (1 : Nat) ≠ 4 by decide, show (1 : Nat) ≠ 6 by decide, show (1 : Nat) ≠ 0 by decide, ↓reduceIte, bnd_ok,
    loadBody, loadPadding, false_or, length_zeros, h1]

theorem dupFree_append_pad (cue seek : Bool) (l : List LBlock) (n : Nat) (h : dupFree cue seek l = true) :
    dupFree cue seek (l ++ [⟨1, .other (.padding n)⟩]) = true := by
  induction l generalizing cue seek with
  | nil => simp [dupFree]
  | cons b r ih =>
    simp only [List.cons_append, dupFree, Bool.and_eq_true] at h ⊢
    exact ⟨h.1, ih _ _ h.2⟩

theorem any_append_left (l r : List LBlock) (h : l.any isStreamInfo = true) : (l ++ r).any isStreamInfo = true := by
  simp only [List.any_append, h, Bool.true_or]


theorem rd_toLE (n : Nat) (h : n < 256 ^ 4) (r : Bytes) : rd 4 (toLE 4 n ++ r) = .ok (toLE 4 n, r) := rd_app _ _ 4 (by simp)

/-- the comment loop on encoded comments -/
theorem vcItems_encoded (cs : List (Bytes × Bytes)) (hc : ∀ kv ∈ cs, kv.1.length + 1 + kv.2.length < 256 ^ 4) (acc rest : Bytes) :
    vcItems cs.length acc ((cs.map Vorbis.encodeComment).flatten ++ rest) = .ok (acc ++ (cs.map Vorbis.encodeComment).flatten, rest) := by
  induction cs generalizing acc with
  | nil => simp [vcItems]
  | cons kv r ih =>
    have hl := hc kv (by simp)
    have hlen : (kv.1 ++ [Vorbis.eqSign] ++ kv.2).length < 256 ^ 4 := by simp; omega
    have e : Vorbis.encodeComment kv = toLE 4 (kv.1 ++ [Vorbis.eqSign] ++ kv.2).length ++ (kv.1 ++ [Vorbis.eqSign] ++ kv.2) := rfl
    generalize kv.1 ++ [Vorbis.eqSign] ++ kv.2 = c at hlen e
    have e2 : (List.map Vorbis.encodeComment (kv :: r)).flatten ++ rest =
        toLE 4 c.length ++ (c ++ ((List.map Vorbis.encodeComment r).flatten ++ rest)) := by
      simp only [List.map_cons, List.flatten_cons, e, List.append_assoc]
    simp only [List.length_cons, vcItems]
    rw [e2, rd_toLE _ hlen]
    simp only [bnd_ok, ofLE_toLE 4 _ hlen]
    rw [rd_app _ _ _ rfl]
    simp only [bnd_ok]
    rw [ih (fun x hx => hc x (by simp [hx])) (acc ++ toLE 4 c.length ++ c)]
    simp only [List.map_cons, List.flatten_cons, e, List.append_assoc]

/-- `VCFLACDict(fileobj)` consumes exactly what `VComment.write(framing=False)` wrote -/
theorem vcSkip_encode (vendor : Bytes) (cs : List (Bytes × Bytes)) (hv : vendor.length < 256 ^ 4) (hn : cs.length < 256 ^ 4)
    (hc : ∀ kv ∈ cs, kv.1.length + 1 + kv.2.length < 256 ^ 4) (rest : Bytes) :
    vcSkip (Vorbis.encode vendor cs false ++ rest) = .ok (Vorbis.encode vendor cs false, rest) := by
  unfold vcSkip Vorbis.encode
  simp only [Bool.false_eq_true, ↓reduceIte, List.append_nil, List.append_assoc]
  rw [rd_toLE _ hv]
  simp only [bnd_ok, ofLE_toLE 4 _ hv]
  rw [rd_app _ _ _ rfl]
  simp only [bnd_ok]
  rw [rd_toLE _ hn]
  simp only [bnd_ok, ofLE_toLE 4 _ hn]
  have := vcItems_encoded cs hc (toLE 4 vendor.length ++ vendor ++ toLE 4 cs.length) rest
  simp only [List.append_assoc] at this ⊢
  rw [this]

theorem decodes_vc (vendor : Bytes) (cs : List (Bytes × Bytes)) (hv : vendor.length < 256 ^ 4) (hn : cs.length < 256 ^ 4)
    (hc : ∀ kv ∈ cs, kv.1.length + 1 + kv.2.length < 256 ^ 4) :
    Decodes ⟨FlacC.vcCode, Vorbis.encode vendor cs false⟩ ⟨4, .vc (Vorbis.encode vendor cs false)⟩ := by
  unfold Decodes readBody
  have := vcSkip_encode vendor cs hv hn hc []
  rw [List.append_nil] at this
  simp only [FlacC.vcCode, ↓reduceIte, this, bnd_ok]


theorem allDecode_codes {bs : List FlacC.Block} {lbs : List LBlock} (hd : AllDecode bs lbs) : lbs.map (·.code) = bs.map (·.code) := by
  induction hd with
  | nil => rfl
  | cons hb _ ih => simp only [List.map_cons, ih, decodes_code _ _ hb]

end Mutagen.FlacL
