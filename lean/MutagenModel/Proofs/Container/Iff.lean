/- Proofs/Container/Iff.lean — save/delete of the ID3 chunk of IFF-style files on well-formed layouts -/
import MutagenModel.Model.Container.Iff
import MutagenModel.Proofs.IntCodec
import MutagenModel.Proofs.Container.Id3File
set_option linter.unusedVariables false
namespace Mutagen.Iff
open Mutagen

/-! ### size fields -/

@[simp] theorem length_enc (d : Dialect) (n : Nat) : (enc d n).length = d.sizeW := by
  unfold enc; split <;> simp

theorem dec_enc (d : Dialect) (n : Nat) (h : n < 256 ^ d.sizeW) : dec d (enc d n) = n := by
  unfold enc dec
  cases d.bigEndian
  · simpa using ofLE_toLE d.sizeW n h
  · simpa using ofBE_toBE d.sizeW n h

/-! ### lists cut at known places -/

theorem take_mid (P M R : Bytes) (o : Nat) (ho : P.length = o) : (P ++ M ++ R).take o = P := by
  rw [List.append_assoc]; exact List.take_left' ho

theorem drop_mid (P M R : Bytes) (o m : Nat) (ho : P.length = o) (hm : M.length = m) :
    (P ++ M ++ R).drop (o + m) = R := by
  apply List.drop_left'; simp [ho, hm]

/-- replacing the middle part -/
theorem splice (P M R new : Bytes) (o m : Nat) (ho : P.length = o) (hm : M.length = m) :
    (P ++ M ++ R).take o ++ new ++ (P ++ M ++ R).drop (o + m) = P ++ new ++ R := by
  rw [take_mid P M R o ho, drop_mid P M R o m ho hm]

theorem writeAt_mid (P M R buf : Bytes) (o : Nat) (ho : P.length = o) (hm : M.length = buf.length) :
    writeAt (P ++ M ++ R) o buf = P ++ buf ++ R := by
  unfold writeAt; exact splice P M R buf o buf.length ho hm

theorem readAt_mid (P M R : Bytes) (o m : Nat) (ho : P.length = o) (hm : M.length = m) :
    readAt (P ++ M ++ R) o m = M := by
  unfold readAt
  rw [List.append_assoc, List.drop_left' ho, List.take_left' hm]

/-! ### chunks the walk steps over -/

/-- the id as the code sees it (decoded, right-stripped) -/
def sid (c : Chunk) : Bytes := (chunkId c.id).getD []

/-- `init_container` is content with the chunk: no container id, or room for an ASCII name -/
def containerOK (d : Dialect) (c : Chunk) : Bool :=
  match d.containers.lookup (sid c) with
  | none => true
  | some ns => decide (ns ≤ c.data.length) && (c.data.take ns).all fun b => b.toNat < 128

/-- what the header parser needs: a four-byte id the code accepts, a size that fits the size field -/
def Chunk.Head (d : Dialect) (c : Chunk) : Prop :=
  c.id.length = 4 ∧ c.data.length < 256 ^ d.sizeW ∧ chunkId c.id = some (sid c) ∧ containerOK d c = true

/-- a well-formed chunk: additionally the pad byte is there iff the data length is odd -/
def Chunk.OK (d : Dialect) (c : Chunk) : Prop := c.Head d ∧ c.pad.length = c.data.length % 2

instance (d : Dialect) (c : Chunk) : Decidable (c.Head d) := by unfold Chunk.Head; infer_instance
instance (d : Dialect) (c : Chunk) : Decidable (c.OK d) := by unfold Chunk.OK; infer_instance

/-- the ID3 lookup stops at this chunk -/
def Chunk.isId3 (d : Dialect) (c : Chunk) : Bool := d.loadIds.contains (sid c)

def recOf (o : Nat) (c : Chunk) : Rec := ⟨sid c, o, c.data.length⟩

/-- the records of a chunk sequence that starts at offset `o` -/
def recsOf (d : Dialect) : Nat → List Chunk → List Rec
  | _, [] => []
  | o, c :: r => recOf o c :: recsOf d (o + (c.render d).length) r

theorem length_render (d : Dialect) (c : Chunk) (h4 : c.id.length = 4) :
    (c.render d).length = hs d + c.data.length + c.pad.length := by
  simp [Chunk.render, hs, h4]; omega

theorem renderChunks_append (d : Dialect) (xs ys : List Chunk) :
    renderChunks d (xs ++ ys) = renderChunks d xs ++ renderChunks d ys := by
  induction xs with
  | nil => rfl
  | cons c r ih => simp [renderChunks, ih]

theorem recsOf_append (d : Dialect) (o : Nat) (xs ys : List Chunk) :
    recsOf d o (xs ++ ys) = recsOf d o xs ++ recsOf d (o + (renderChunks d xs).length) ys := by
  induction xs generalizing o with
  | nil => simp [recsOf, renderChunks]
  | cons c r ih => simp [recsOf, renderChunks, ih, Nat.add_assoc]

/-- the header parser on a chunk in the middle of a file -/
theorem parseAt_chunk (d : Dialect) (P R : Bytes) (c : Chunk) (h : c.Head d) :
    parseAt d (P ++ c.render d ++ R) P.length = .ok (some (recOf P.length c)) := by
  obtain ⟨h4, hn, hid, hc⟩ := h
  have hf : P ++ c.render d ++ R = P ++ (c.id ++ enc d c.data.length) ++ (c.data ++ c.pad ++ R) := by
    simp [Chunk.render, List.append_assoc]
  have hh : readAt (P ++ c.render d ++ R) P.length (hs d) = c.id ++ enc d c.data.length := by
    rw [hf]; exact readAt_mid _ _ _ _ _ rfl (by simp [hs, h4])
  unfold parseAt
  simp only [hh]
  have hl : ¬ ((c.id ++ enc d c.data.length).length < hs d) := by simp [hs, h4]
  rw [if_neg hl, List.take_left' h4, hid]
  simp only [List.drop_left' h4, dec_enc d _ hn]
  unfold containerOK at hc
  cases hlk : d.containers.lookup (sid c) with
  | none => simp [recOf]
  | some ns =>
    rw [hlk] at hc
    simp only [Bool.and_eq_true, decide_eq_true_eq] at hc
    have hname : readAt (P ++ c.render d ++ R) (P.length + hs d) ns = c.data.take ns := by
      have : P ++ c.render d ++ R = (P ++ (c.id ++ enc d c.data.length)) ++ c.data.take ns ++ (c.data.drop ns ++ c.pad ++ R) := by
        rw [hf]; simp only [List.append_assoc, List.append_cancel_left_eq]
        rw [← List.append_assoc (c.data.take ns), List.take_append_drop]
      rw [this]
      exact readAt_mid _ _ _ _ _ (by simp [hs, h4]) (by simp [List.length_take]; omega)
    simp only [hname, hc.2]
    have : ¬ (c.data.length < ns) := by omega
    simp [this, recOf]

theorem render_ne_nil_length (d : Dialect) (c : Chunk) (h4 : c.id.length = 4) : 0 < (c.render d).length := by
  rw [length_render d c h4]; simp [hs]; omega

/-- the sub-chunk loop over a well-formed chunk sequence that ends where the walk ends -/
theorem walkFrom_chunks (d : Dialect) (cs : List Chunk) (P : Bytes) (fuel : Nat)
    (hok : ∀ c ∈ cs, c.OK d) (hfuel : cs.length ≤ fuel) :
    walkFrom d (P ++ renderChunks d cs) (P ++ renderChunks d cs).length fuel P.length = .ok (recsOf d P.length cs) := by
  induction cs generalizing P fuel with
  | nil =>
    cases fuel <;> simp [walkFrom, renderChunks, recsOf]
  | cons c r ih =>
    obtain ⟨hhead, hpad⟩ := hok c (by simp)
    cases fuel with
    | zero => simp at hfuel
    | succ k =>
      have hlt : P.length < (P ++ renderChunks d (c :: r)).length := by
        have := render_ne_nil_length d c hhead.1
        simp [renderChunks]; omega
      have hf : P ++ renderChunks d (c :: r) = P ++ c.render d ++ renderChunks d r := by
        simp [renderChunks, List.append_assoc]
      unfold walkFrom
      rw [if_pos hlt]
      rw [hf, parseAt_chunk d P _ c hhead]
      have hnext : (recOf P.length c).offset + (recOf P.length c).size d = (P ++ c.render d).length := by
        simp only [recOf, Rec.size, length_render d c hhead.1, hpad, List.length_append]
      simp only [hnext]
      rw [ih (P ++ c.render d) k (fun x hx => hok x (by simp [hx])) (by simpa using hfuel)]
      simp [recsOf]

/-! ### dialects -/

/-- what the theorems need to know about a dialect (true of all three, `wf_aiff` …) -/
def Dialect.WF (d : Dialect) : Prop :=
  d.rootId.length = 4 ∧ chunkId d.rootId = some d.rootId ∧ d.containers.lookup d.rootId = some 4 ∧
  d.newId.length = 4 ∧ chunkId d.newId = some d.key ∧ d.loadIds.contains d.key = true ∧
  d.containers.lookup d.key = none ∧ ∀ s ∈ d.loadIds, d.containers.lookup s = none

instance (d : Dialect) : Decidable d.WF := by unfold Dialect.WF; infer_instance

theorem wf_aiff : aiff.WF := by decide
theorem wf_wave : wave.WF := by decide
theorem wf_dsdiff : dsdiff.WF := by decide

/-- the form type of a well-formed file: four ASCII bytes, the required ones if the dialect requires some -/
def NameOK (d : Dialect) (name : Bytes) : Prop :=
  name.length = 4 ∧ name.all (fun b => b.toNat < 128) = true ∧ (d.formType = none ∨ d.formType = some name)

instance (d : Dialect) (name : Bytes) : Decidable (NameOK d name) := by unfold NameOK; infer_instance

theorem length_renderFile (d : Dialect) (hd : d.WF) (name : Bytes) (cs : List Chunk) :
    (renderFile d name cs).length = hs d + (name.length + (renderChunks d cs).length) := by
  simp [renderFile, hs, hd.1]; omega

/-- the root chunk of a rendered file -/
theorem parseRoot_render (d : Dialect) (hd : d.WF) (name : Bytes) (hname : NameOK d name) (cs : List Chunk)
    (hsize : name.length + (renderChunks d cs).length < 256 ^ d.sizeW) :
    parseRoot d (renderFile d name cs) = .ok (name.length + (renderChunks d cs).length) := by
  obtain ⟨h1, h2, h3, _⟩ := hd
  let c : Chunk := ⟨d.rootId, name ++ renderChunks d cs, []⟩
  have hsid : sid c = d.rootId := by simp [sid, c, h2]
  have hhead : c.Head d := by
    refine ⟨h1, by simpa [c] using hsize, by simp [hsid, c, h2], ?_⟩
    unfold containerOK
    rw [hsid, h3]
    simp only [Bool.and_eq_true, decide_eq_true_eq]
    refine ⟨by simp [c, hname.1], ?_⟩
    have : (c.data.take 4) = name := by simp [c, List.take_left' hname.1]
    rw [this]; exact hname.2.1
  have hf : renderFile d name cs = [] ++ c.render d ++ [] := by
    simp [renderFile, Chunk.render, c, List.append_assoc]
  have hp := parseAt_chunk d [] [] c hhead
  rw [← hf] at hp
  unfold parseRoot
  simp only [List.length_nil] at hp
  rw [hp]
  simp only [recOf, hsid, ne_eq, not_true_eq_false, ↓reduceIte]
  cases hft : d.formType with
  | none => simp [c]
  | some t =>
    have hnm : readAt (renderFile d name cs) (hs d) nameSize = name := by
      have : renderFile d name cs = (d.rootId ++ enc d (name.length + (renderChunks d cs).length)) ++ name ++ renderChunks d cs := by
        simp [renderFile, List.append_assoc]
      rw [this]
      exact readAt_mid _ _ _ _ _ (by simp [hs, h1]) hname.1
    have : name = t := by
      rcases hname.2.2 with h0 | h0
      · rw [h0] at hft; cases hft
      · rw [h0] at hft; cases hft; rfl
    subst this
    simp [hnm, c]

theorem actual_root (d : Dialect) (hd : d.WF) (name : Bytes) (cs : List Chunk) :
    actual (renderFile d name cs) (hs d) (name.length + (renderChunks d cs).length) =
      name.length + (renderChunks d cs).length := by
  unfold actual
  rw [length_renderFile d hd]
  omega

theorem length_le_renderChunks (d : Dialect) (cs : List Chunk) (h : ∀ c ∈ cs, c.id.length = 4) :
    cs.length ≤ (renderChunks d cs).length := by
  induction cs with
  | nil => simp
  | cons c r ih =>
    have := render_ne_nil_length d c (h c (by simp))
    have := ih (fun x hx => h x (by simp [hx]))
    simp [renderChunks]; omega

/-- `subchunks()` on a rendered file: every chunk, with its offset -/
theorem walk_render (d : Dialect) (hd : d.WF) (name : Bytes) (hname : name.length = 4) (cs : List Chunk)
    (hok : ∀ c ∈ cs, c.OK d) :
    walk d (renderFile d name cs) (name.length + (renderChunks d cs).length) = .ok (recsOf d (hs d + 4) cs) := by
  unfold walk
  rw [actual_root d hd]
  have hf : renderFile d name cs = (d.rootId ++ enc d (name.length + (renderChunks d cs).length) ++ name) ++ renderChunks d cs := by
    simp [renderFile, List.append_assoc]
  have hP : (d.rootId ++ enc d (name.length + (renderChunks d cs).length) ++ name).length = hs d + 4 := by
    simp [hs, hd.1, hname]; omega
  have hend : hs d + (name.length + (renderChunks d cs).length) = (renderFile d name cs).length := by
    rw [length_renderFile d hd]
  rw [hend]
  have hfuel : cs.length ≤ (renderFile d name cs).length := by
    have := length_le_renderChunks d cs (fun c hc => (hok c hc).1.1)
    rw [length_renderFile d hd]; omega
  have hw := walkFrom_chunks d cs (d.rootId ++ enc d (name.length + (renderChunks d cs).length) ++ name)
    (renderFile d name cs).length hok hfuel
  rw [← hf, hP] at hw
  exact hw

/-! ### the lookup -/

theorem find_none (d : Dialect) (ids : List Bytes) (o : Nat) (cs : List Chunk) (h : ∀ c ∈ cs, ids.contains (sid c) = false) :
    find ids (recsOf d o cs) = none := by
  induction cs generalizing o with
  | nil => rfl
  | cons c r ih =>
    have h1 := h c (by simp)
    simp only [find, recsOf, recOf, List.find?_cons, h1]
    exact ih _ (fun x hx => h x (by simp [hx]))

theorem find_first (d : Dialect) (ids : List Bytes) (o : Nat) (bs : List Chunk) (c : Chunk) (as : List Chunk)
    (hb : ∀ c ∈ bs, ids.contains (sid c) = false) (hc : ids.contains (sid c) = true) :
    find ids (recsOf d o (bs ++ c :: as)) = some (recOf (o + (renderChunks d bs).length) c) := by
  induction bs generalizing o with
  | nil => simp only [find, recsOf, recOf, List.find?_cons, hc, renderChunks, List.nil_append, List.length_nil, Nat.add_zero]
  | cons b r ih =>
    have h1 := hb b (by simp)
    simp only [List.cons_append, find, recsOf, recOf, List.find?_cons, h1]
    have := ih (o + (b.render d).length) (fun x hx => hb x (by simp [hx]))
    simp only [find, recOf] at this
    rw [this]
    simp [renderChunks, Nat.add_assoc]

/-! ### save, once the chunk is known -/

theorem updateSize_ok (d : Dialect) (f : Bytes) (off old : Nat) (diff : Int) (m : Nat)
    (h : (old : Int) + diff = m) (hm : m < 256 ^ d.sizeW) :
    updateSize d f off old diff = .ok (writeAt f (off + 4) (enc d m), m) := by
  unfold updateSize
  simp only [h, Int.toNat_natCast]
  have : ¬ ((m : Int) < 0 ∨ (m : Int) ≥ ((256 ^ d.sizeW : Nat) : Int)) := by omega
  rw [if_neg this]

theorem saveAt_eq (d : Dialect) (f : Bytes) (rootSize : Nat) (c : Rec) (vmaj : Nat) (hvm : vmaj = 3 ∨ vmaj = 4)
    (frames : Bytes) (pad : PadChoice) (t p : Nat) (hdr : Bytes)
    (hlen : f.length = c.offset + hs d + c.dataSize + t)
    (hp : getPadding pad ((c.dataSize : Int) - (frames.length + 10 : Nat)) t = p)
    (hhd : Id3F.header vmaj (frames.length + p) = .ok hdr) (h10 : hdr.length = 10)
    (hact : c.dataSize % 2 ≤ t) (R : Nat)
    (hN : 10 + frames.length + p < 256 ^ d.sizeW)
    (hR : rootSize + (hs d + (10 + frames.length + p) + (10 + frames.length + p) % 2) = R + c.size d)
    (hRfit : R < 256 ^ d.sizeW) :
    saveAt d f rootSize c vmaj frames pad =
      .ok (writeAt (writeAt (f.take (c.offset + hs d) ++ (hdr ++ frames ++ zeros p ++ zeros ((10 + frames.length + p) % 2)) ++
        f.drop (c.offset + hs d + (c.dataSize + c.dataSize % 2))) (c.offset + 4) (enc d (10 + frames.length + p))) 4 (enc d R)) := by
  unfold saveAt
  have h0 : ¬ (vmaj ≠ 3 ∧ vmaj ≠ 4) := by omega
  simp only []
  rw [if_neg h0]
  have htr : (↑f.length : Int) - ↑(c.offset + hs d) - ↑c.dataSize = (t : Int) := by omega
  rw [htr]
  have h1 : ¬ ((t : Int) < 0) := by omega
  rw [if_neg h1]
  simp only [Int.toNat_natCast]
  rw [hp]
  have h2 : ¬ ((p : Int) < 0) := by omega
  rw [if_neg h2]
  simp only [Int.toNat_natCast]
  rw [hhd]
  simp only []
  have hl : (hdr ++ frames ++ zeros p).length = 10 + frames.length + p := by simp [h10]; omega
  rw [hl]
  have hactual : actual f (c.offset + hs d) c.dataSize = c.dataSize + c.dataSize % 2 := by unfold actual; omega
  rw [hactual]
  rw [updateSize_ok d _ c.offset c.dataSize _ (10 + frames.length + p) (by omega) hN]
  simp only []
  rw [updateSize_ok d _ 0 rootSize _ R (by omega) hRfit]

/-- the chunk `save` leaves: the given id, the ID3 data, a zero pad byte when the length is odd -/
def tagChunk (id data : Bytes) : Chunk := ⟨id, data, zeros (data.length % 2)⟩

theorem renderFile_split (d : Dialect) (name : Bytes) (bs : List Chunk) (c : Chunk) (as : List Chunk) :
    renderFile d name (bs ++ c :: as) =
      d.rootId ++ enc d (name.length + (renderChunks d (bs ++ c :: as)).length) ++ (name ++ renderChunks d bs ++ c.id) ++
        enc d c.data.length ++ (c.data ++ c.pad) ++ renderChunks d as := by
  simp [renderFile, renderChunks_append, renderChunks, Chunk.render, List.append_assoc]

theorem length_chunks_split (d : Dialect) (bs : List Chunk) (c : Chunk) (as : List Chunk) (h4 : c.id.length = 4) :
    (renderChunks d (bs ++ c :: as)).length =
      (renderChunks d bs).length + (hs d + c.data.length + c.pad.length) + (renderChunks d as).length := by
  simp [renderChunks_append, renderChunks, length_render d c h4]; omega

/-- `save` on a rendered file once the ID3 chunk `c` has been found: the chunk is replaced by one
with the same id holding header, frames and `p` bytes of padding; everything else stays, the root
size follows -/
theorem saveAt_render (d : Dialect) (hd : d.WF) (name : Bytes) (hname : name.length = 4) (bs as : List Chunk) (c : Chunk)
    (hc4 : c.id.length = 4) (hpad : c.pad.length = c.data.length % 2) (rid : Bytes)
    (vmaj : Nat) (hvm : vmaj = 3 ∨ vmaj = 4) (frames : Bytes) (pad : PadChoice) (p : Nat)
    (hp : getPadding pad ((c.data.length : Int) - (frames.length + 10 : Nat)) (c.pad.length + (renderChunks d as).length) = p)
    (hfit : frames.length + p < 2 ^ 28)
    (hroot : 4 + ((renderChunks d bs).length + (hs d + (10 + frames.length + p) + (10 + frames.length + p) % 2) +
      (renderChunks d as).length) < 256 ^ d.sizeW) :
    ∃ hdr, Id3F.header vmaj (frames.length + p) = .ok hdr ∧ hdr.length = 10 ∧
      saveAt d (renderFile d name (bs ++ c :: as)) (name.length + (renderChunks d (bs ++ c :: as)).length)
          ⟨rid, hs d + 4 + (renderChunks d bs).length, c.data.length⟩ vmaj frames pad =
        .ok (renderFile d name (bs ++ tagChunk c.id (hdr ++ frames ++ zeros p) :: as)) := by
  obtain ⟨x1, x2, x3, x4, hhd, _⟩ := Id3F.header_ok vmaj (frames.length + p) hfit
  have h10 : (Id3F.magicID3 ++ [UInt8.ofNat vmaj, 0, 0] ++ [x1, x2, x3, x4]).length = 10 := by simp [Id3F.magicID3]
  refine ⟨_, hhd, h10, ?_⟩
  generalize Id3F.magicID3 ++ [UInt8.ofNat vmaj, 0, 0] ++ [x1, x2, x3, x4] = hdr at hhd h10 ⊢
  have hdl : (hdr ++ frames ++ zeros p).length = 10 + frames.length + p := by simp [h10]; omega
  have hcs := length_chunks_split d bs c as hc4
  have hcs' : (renderChunks d (bs ++ tagChunk c.id (hdr ++ frames ++ zeros p) :: as)).length =
      (renderChunks d bs).length + (hs d + (10 + frames.length + p) + (10 + frames.length + p) % 2) + (renderChunks d as).length := by
    rw [length_chunks_split d bs (tagChunk c.id (hdr ++ frames ++ zeros p)) as hc4]
    simp only [tagChunk, hdl, length_zeros]
  have hflen := length_renderFile d hd name (bs ++ c :: as)
  rw [saveAt_eq d _ _ _ vmaj hvm frames pad (c.pad.length + (renderChunks d as).length) p hdr
    (by simp only [hflen, hcs, hname]; omega) hp hhd h10 (by simp only []; omega)
    (name.length + (renderChunks d (bs ++ tagChunk c.id (hdr ++ frames ++ zeros p) :: as)).length)
    (by omega) (by simp only [Rec.size, hcs, hcs', hname]; omega) (by simp only [hcs', hname]; omega)]
  congr 1
  simp only []
  -- the file in six parts
  rw [renderFile_split d name bs c as, renderFile_split d name bs (tagChunk c.id (hdr ++ frames ++ zeros p)) as]
  generalize name.length + (renderChunks d (bs ++ c :: as)).length = r0
  generalize name.length + (renderChunks d (bs ++ tagChunk c.id (hdr ++ frames ++ zeros p) :: as)).length = r1
  have hB : (name ++ renderChunks d bs ++ c.id).length = 4 + (renderChunks d bs).length + 4 := by simp [hname, hc4]; omega
  have hP : (d.rootId ++ enc d r0 ++ (name ++ renderChunks d bs ++ c.id) ++ enc d c.data.length).length =
      hs d + 4 + (renderChunks d bs).length + hs d := by
    simp only [List.length_append, length_enc, hB, hd.1, hs]; omega
  rw [splice _ (c.data ++ c.pad) (renderChunks d as) _ _ (c.data.length + c.data.length % 2) hP (by simp [hpad])]
  have e2 : d.rootId ++ enc d r0 ++ (name ++ renderChunks d bs ++ c.id) ++ enc d c.data.length ++
      (hdr ++ frames ++ zeros p ++ zeros ((10 + frames.length + p) % 2)) ++ renderChunks d as =
      (d.rootId ++ enc d r0 ++ (name ++ renderChunks d bs ++ c.id)) ++ enc d c.data.length ++
        ((hdr ++ frames ++ zeros p ++ zeros ((10 + frames.length + p) % 2)) ++ renderChunks d as) := by
    simp only [List.append_assoc]
  rw [e2, writeAt_mid _ _ _ _ _ (by simp only [List.length_append, length_enc, hB, hd.1, hs]; omega) (by simp)]
  have e3 : d.rootId ++ enc d r0 ++ (name ++ renderChunks d bs ++ c.id) ++ enc d (10 + frames.length + p) ++
      ((hdr ++ frames ++ zeros p ++ zeros ((10 + frames.length + p) % 2)) ++ renderChunks d as) =
      d.rootId ++ enc d r0 ++ ((name ++ renderChunks d bs ++ c.id) ++ enc d (10 + frames.length + p) ++
      ((hdr ++ frames ++ zeros p ++ zeros ((10 + frames.length + p) % 2)) ++ renderChunks d as)) := by
    simp only [List.append_assoc]
  rw [e3, writeAt_mid _ _ _ _ _ hd.1 (by simp)]
  simp only [tagChunk, hdl]
  simp only [List.append_assoc]

/-! ### a file without an ID3 chunk gets one -/

/-- the chunk `insert_chunk` creates: the dialect's ID3 id, no data -/
def freshChunk (d : Dialect) : Chunk := ⟨d.newId, [], []⟩

theorem sid_fresh (d : Dialect) (hd : d.WF) : sid (freshChunk d) = d.key := by
  simp [sid, freshChunk, hd.2.2.2.2.1]

theorem fresh_ok (d : Dialect) (hd : d.WF) : (freshChunk d).OK d := by
  refine ⟨⟨hd.2.2.2.1, ?_, ?_, ?_⟩, rfl⟩
  · exact Nat.pow_pos (by decide)
  · rw [sid_fresh d hd]; exact hd.2.2.2.2.1
  · unfold containerOK; rw [sid_fresh d hd, hd.2.2.2.2.2.2.1]

theorem length_render_fresh (d : Dialect) (hd : d.WF) : ((freshChunk d).render d).length = hs d := by
  rw [length_render d _ hd.2.2.2.1]; simp [freshChunk]

theorem insertAt_render (d : Dialect) (hd : d.WF) (name : Bytes) (hname : name.length = 4) (cs : List Chunk)
    (hok : ∀ c ∈ cs, c.OK d) (hroot : 4 + ((renderChunks d cs).length + hs d) < 256 ^ d.sizeW) :
    insertAt d (renderFile d name cs) (name.length + (renderChunks d cs).length) (renderFile d name cs).length
        (recsOf d (hs d + 4) cs) =
      .ok (renderFile d name (cs ++ [freshChunk d]), name.length + (renderChunks d (cs ++ [freshChunk d])).length,
        (if cs = [] then recsOf d (hs d + 4) [freshChunk d] else recsOf d (hs d + 4) cs) ++
          [recOf (hs d + 4 + (renderChunks d cs).length) (freshChunk d)]) := by
  have hlen := length_renderFile d hd name cs
  have hnext : hs d + (name.length + (renderChunks d cs).length) = (renderFile d name cs).length := hlen.symm
  have hnew : (renderChunks d (cs ++ [freshChunk d])).length = (renderChunks d cs).length + hs d := by
    simp [renderChunks_append, renderChunks, length_render_fresh d hd]
  unfold insertAt
  simp only []
  rw [List.take_length, List.drop_length]
  have hf1 : renderFile d name cs ++ (d.newId ++ enc d 0) ++ [] = renderFile d name cs ++ (freshChunk d).render d ++ [] := by
    simp [Chunk.render, freshChunk]
  rw [hf1, parseAt_chunk d _ [] _ (fresh_ok d hd).1]
  simp only []
  have hsz : (recOf (renderFile d name cs).length (freshChunk d)).size d = hs d := by simp [recOf, Rec.size, freshChunk]
  rw [hsz, updateSize_ok d _ 0 _ _ (name.length + (renderChunks d (cs ++ [freshChunk d])).length) (by rw [hnew]; omega)
    (by rw [hnew, hname]; omega)]
  simp only []
  have hw : writeAt (renderFile d name cs ++ (freshChunk d).render d ++ []) (0 + 4)
      (enc d (name.length + (renderChunks d (cs ++ [freshChunk d])).length)) = renderFile d name (cs ++ [freshChunk d]) := by
    have e : renderFile d name cs ++ (freshChunk d).render d ++ [] =
        d.rootId ++ enc d (name.length + (renderChunks d cs).length) ++ (name ++ renderChunks d cs ++ (freshChunk d).render d) := by
      simp [renderFile, List.append_assoc]
    rw [e, writeAt_mid _ _ _ _ _ (by simp [hd.1]) (by simp)]
    simp [renderFile, renderChunks_append, renderChunks, List.append_assoc]
  rw [hw]
  have hoff : (renderFile d name cs).length = hs d + 4 + (renderChunks d cs).length := by rw [hlen, hname]; omega
  cases cs with
  | nil =>
    have := walk_render d hd name hname [freshChunk d] (by simpa using fresh_ok d hd)
    simp only [recsOf, List.isEmpty_nil, ↓reduceIte, List.nil_append] at this ⊢
    rw [this]
    simp [hoff]
  | cons c r =>
    simp [recsOf, hoff]


/-! ### save and delete on rendered files -/


theorem recsOf_getLast (d : Dialect) (o : Nat) (cs : List Chunk) (hok : ∀ c ∈ cs, c.OK d) :
    ∀ last, (recsOf d o cs).getLast? = some last → last.offset + last.size d = o + (renderChunks d cs).length := by
  induction cs generalizing o with
  | nil => intro last h; simp [recsOf] at h
  | cons c r ih =>
    intro last h
    have hc := hok c (by simp)
    have hl := length_render d c hc.1.1
    cases r with
    | nil =>
      simp [recsOf] at h
      subst h
      simp [recOf, Rec.size, renderChunks, hl, hc.2]
    | cons c2 r2 =>
      have : (recsOf d o (c :: c2 :: r2)).getLast? = (recsOf d (o + (c.render d).length) (c2 :: r2)).getLast? := by
        simp [recsOf, List.getLast?_cons_cons]
      rw [this] at h
      have := ih (o + (c.render d).length) (fun x hx => hok x (by simp [hx])) last h
      rw [this]; simp [renderChunks]; omega

theorem insertPrep_render (d : Dialect) (hd : d.WF) (name : Bytes) (hname : name.length = 4) (cs : List Chunk)
    (hok : ∀ c ∈ cs, c.OK d) :
    insertPrep d (renderFile d name cs) (name.length + (renderChunks d cs).length) (recsOf d (hs d + 4) cs) =
      .ok (renderFile d name cs, name.length + (renderChunks d cs).length, (renderFile d name cs).length,
        recsOf d (hs d + 4) cs) := by
  have hlen := length_renderFile d hd name cs
  unfold insertPrep
  simp only []
  rw [actual_root d hd]
  have hw : (if (recsOf d (hs d + 4) cs).isEmpty then walk d (renderFile d name cs) (name.length + (renderChunks d cs).length)
      else .ok (recsOf d (hs d + 4) cs)) = .ok (recsOf d (hs d + 4) cs) := by
    split
    · rw [walk_render d hd name hname cs hok]
    · rfl
  rw [hw]
  simp only []
  cases hl : (recsOf d (hs d + 4) cs).getLast? with
  | none => simp only []; rw [hlen]
  | some last =>
    simp only []
    have := recsOf_getLast d (hs d + 4) cs hok last hl
    rw [if_neg (by omega), hlen]

theorem insertChunk_render (d : Dialect) (hd : d.WF) (name : Bytes) (hname : name.length = 4) (cs : List Chunk)
    (hok : ∀ c ∈ cs, c.OK d) (hroot : 4 + ((renderChunks d cs).length + hs d) < 256 ^ d.sizeW) :
    insertChunk d (renderFile d name cs) (name.length + (renderChunks d cs).length) (recsOf d (hs d + 4) cs) =
      .ok (renderFile d name (cs ++ [freshChunk d]), name.length + (renderChunks d (cs ++ [freshChunk d])).length,
        (if cs = [] then recsOf d (hs d + 4) [freshChunk d] else recsOf d (hs d + 4) cs) ++
          [recOf (hs d + 4 + (renderChunks d cs).length) (freshChunk d)]) := by
  unfold insertChunk
  rw [insertPrep_render d hd name hname cs hok]
  simp only []
  exact insertAt_render d hd name hname cs hok hroot

theorem fresh_data (d : Dialect) : (freshChunk d).data = [] := rfl

/-- save over an existing ID3 chunk, on the flat chunk list -/
theorem save_present (d : Dialect) (hd : d.WF) (name : Bytes) (hname : NameOK d name) (bs as : List Chunk) (c : Chunk)
    (hbs : ∀ x ∈ bs, x.OK d ∧ x.isId3 d = false) (hc : c.OK d ∧ c.isId3 d = true) (has : ∀ x ∈ as, x.OK d)
    (hsize : 4 + (renderChunks d (bs ++ c :: as)).length < 256 ^ d.sizeW)
    (vmaj : Nat) (hvm : vmaj = 3 ∨ vmaj = 4) (frames : Bytes) (pad : PadChoice) (p : Nat)
    (hp : getPadding pad ((c.data.length : Int) - (frames.length + 10 : Nat)) (c.pad.length + (renderChunks d as).length) = p)
    (hfit : frames.length + p < 2 ^ 28)
    (hroot : 4 + ((renderChunks d bs).length + (hs d + (10 + frames.length + p) + (10 + frames.length + p) % 2) +
      (renderChunks d as).length) < 256 ^ d.sizeW) :
    ∃ hdr, Id3F.header vmaj (frames.length + p) = .ok hdr ∧ hdr.length = 10 ∧
      save d (renderFile d name (bs ++ c :: as)) vmaj frames pad =
        .ok (renderFile d name (bs ++ tagChunk c.id (hdr ++ frames ++ zeros p) :: as)) := by
  obtain ⟨hdr, hhd, h10, hs⟩ := saveAt_render d hd name hname.1 bs as c hc.1.1.1 hc.1.2 (sid c) vmaj hvm frames pad p hp hfit hroot
  refine ⟨hdr, hhd, h10, ?_⟩
  have hall : ∀ x ∈ bs ++ c :: as, x.OK d := by
    intro x hx
    simp only [List.mem_append, List.mem_cons] at hx
    rcases hx with hx | rfl | hx
    · exact (hbs x hx).1
    · exact hc.1
    · exact has x hx
  unfold save
  rw [parseRoot_render d hd name hname _ (by rw [hname.1]; exact hsize)]
  simp only []
  rw [walk_render d hd name hname.1 _ hall]
  simp only []
  rw [find_first d d.loadIds _ bs c as (fun x hx => (hbs x hx).2) hc.2]
  simp only [recOf]
  exact hs

/-- save into a file without an ID3 chunk, on the flat chunk list: a new chunk at the end -/
theorem save_absent (d : Dialect) (hd : d.WF) (name : Bytes) (hname : NameOK d name) (cs : List Chunk)
    (hcs : ∀ x ∈ cs, x.OK d ∧ x.isId3 d = false)
    (vmaj : Nat) (hvm : vmaj = 3 ∨ vmaj = 4) (frames : Bytes) (pad : PadChoice) (p : Nat)
    (hp : getPadding pad ((0 : Int) - (frames.length + 10 : Nat)) 0 = p)
    (hfit : frames.length + p < 2 ^ 28)
    (hroot : 4 + ((renderChunks d cs).length + (hs d + (10 + frames.length + p) + (10 + frames.length + p) % 2)) < 256 ^ d.sizeW) :
    ∃ hdr, Id3F.header vmaj (frames.length + p) = .ok hdr ∧ hdr.length = 10 ∧
      save d (renderFile d name cs) vmaj frames pad =
        .ok (renderFile d name (cs ++ [tagChunk d.newId (hdr ++ frames ++ zeros p)])) := by
  have hfr := fresh_ok d hd
  obtain ⟨hdr, hhd, h10, hs⟩ := saveAt_render d hd name hname.1 cs [] (freshChunk d) hfr.1.1 hfr.2 d.key vmaj hvm frames pad p
    (by simpa [freshChunk, renderChunks] using hp) hfit (by simpa [renderChunks] using hroot)
  refine ⟨hdr, hhd, h10, ?_⟩
  have hall : ∀ x ∈ cs, x.OK d := fun x hx => (hcs x hx).1
  unfold save
  rw [parseRoot_render d hd name hname _ (by rw [hname.1]; omega)]
  simp only []
  rw [walk_render d hd name hname.1 _ hall]
  simp only []
  rw [find_none d d.loadIds _ cs (fun x hx => (hcs x hx).2)]
  simp only []
  rw [insertChunk_render d hd name hname.1 cs hall (by omega)]
  simp only []
  have hkey : ∀ x ∈ cs, [d.key].contains (sid x) = false := by
    intro x hx
    have h1 := (hcs x hx).2
    unfold Chunk.isId3 at h1
    have h2 := hd.2.2.2.2.2.1
    simp only [List.contains_cons, List.contains_nil, Bool.or_false, beq_eq_false_iff_ne, ne_eq]
    intro e
    rw [e, h2] at h1
    exact absurd h1 (by decide)
  have hfind : find [d.key] ((if cs = [] then recsOf d (Iff.hs d + 4) [freshChunk d] else recsOf d (Iff.hs d + 4) cs) ++
      [recOf (Iff.hs d + 4 + (renderChunks d cs).length) (freshChunk d)]) =
      some ⟨d.key, Iff.hs d + 4 + (renderChunks d cs).length, 0⟩ := by
    cases cs with
    | nil => simp [find, recsOf, recOf, sid_fresh d hd, renderChunks, fresh_data]
    | cons c r =>
      have := find_first d [d.key] (Iff.hs d + 4) (c :: r) (freshChunk d) [] hkey (by simp [sid_fresh d hd])
      rw [recsOf_append] at this
      simpa [recsOf, recOf, sid_fresh d hd, fresh_data] using this
  rw [hfind]
  simp only []
  simpa [freshChunk] using hs


/-- delete of an existing ID3 chunk, on the flat chunk list: header, data and pad byte go, the root
size follows, nothing else changes -/
theorem delete_present (d : Dialect) (hd : d.WF) (name : Bytes) (hname : NameOK d name) (bs as : List Chunk) (c : Chunk)
    (hbs : ∀ x ∈ bs, x.OK d ∧ x.isId3 d = false) (hc : c.OK d ∧ c.isId3 d = true) (has : ∀ x ∈ as, x.OK d)
    (hsize : 4 + (renderChunks d (bs ++ c :: as)).length < 256 ^ d.sizeW) :
    delete d (renderFile d name (bs ++ c :: as)) = .ok (renderFile d name (bs ++ as)) := by
  have hall : ∀ x ∈ bs ++ c :: as, x.OK d := by
    intro x hx
    simp only [List.mem_append, List.mem_cons] at hx
    rcases hx with hx | rfl | hx
    · exact (hbs x hx).1
    · exact hc.1
    · exact has x hx
  have hc4 := hc.1.1.1
  have hcs := length_chunks_split d bs c as hc4
  have hcs' : (renderChunks d (bs ++ as)).length = (renderChunks d bs).length + (renderChunks d as).length := by
    simp [renderChunks_append]
  unfold delete
  rw [parseRoot_render d hd name hname _ (by rw [hname.1]; exact hsize)]
  simp only []
  rw [walk_render d hd name hname.1 _ hall]
  simp only []
  rw [find_first d d.loadIds _ bs c as (fun x hx => (hbs x hx).2) hc.2]
  simp only [recOf]
  have hflen := length_renderFile d hd name (bs ++ c :: as)
  have hact : actual (renderFile d name (bs ++ c :: as)) (hs d + 4 + (renderChunks d bs).length + hs d) c.data.length =
      c.data.length + c.data.length % 2 := by
    unfold actual; rw [hflen, hcs, hname.1, hc.1.2]; omega
  rw [hact]
  have e : renderFile d name (bs ++ c :: as) =
      (d.rootId ++ enc d (name.length + (renderChunks d (bs ++ c :: as)).length) ++ name ++ renderChunks d bs) ++ c.render d ++ renderChunks d as := by
    simp [renderFile, renderChunks_append, renderChunks, List.append_assoc]
  have hP : (d.rootId ++ enc d (name.length + (renderChunks d (bs ++ c :: as)).length) ++ name ++ renderChunks d bs).length =
      hs d + 4 + (renderChunks d bs).length := by
    simp only [List.length_append, length_enc, hd.1, hname.1, hs]
  have hM : (c.render d).length = hs d + (c.data.length + c.data.length % 2) := by
    rw [length_render d c hc4, hc.1.2]; omega
  have e1 : (renderFile d name (bs ++ c :: as)).take (hs d + 4 + (renderChunks d bs).length) =
      d.rootId ++ enc d (name.length + (renderChunks d (bs ++ c :: as)).length) ++ name ++ renderChunks d bs := by
    rw [e]; exact take_mid _ _ _ _ hP
  have e2 : (renderFile d name (bs ++ c :: as)).drop (hs d + 4 + (renderChunks d bs).length + hs d + (c.data.length + c.data.length % 2)) =
      renderChunks d as := by
    rw [e, Nat.add_assoc (hs d + 4 + (renderChunks d bs).length)]; exact drop_mid _ _ _ _ _ hP hM
  rw [e1, e2]
  rw [updateSize_ok d _ 0 _ _ (name.length + (renderChunks d (bs ++ as)).length)
    (by simp only [Rec.size, hcs, hcs', hc.1.2]; omega) (by rw [hcs', hname.1]; omega)]
  simp only []
  congr 1
  have e3 : d.rootId ++ enc d (name.length + (renderChunks d (bs ++ c :: as)).length) ++ name ++ renderChunks d bs ++ renderChunks d as =
      d.rootId ++ enc d (name.length + (renderChunks d (bs ++ c :: as)).length) ++ (name ++ renderChunks d bs ++ renderChunks d as) := by
    simp only [List.append_assoc]
  rw [e3, writeAt_mid _ _ _ _ _ hd.1 (by simp)]
  simp [renderFile, renderChunks_append, List.append_assoc]

/-- delete on a file without an ID3 chunk: nothing happens -/
theorem delete_absent (d : Dialect) (hd : d.WF) (name : Bytes) (hname : NameOK d name) (cs : List Chunk)
    (hcs : ∀ x ∈ cs, x.OK d ∧ x.isId3 d = false) (hsize : 4 + (renderChunks d cs).length < 256 ^ d.sizeW) :
    delete d (renderFile d name cs) = .ok (renderFile d name cs) := by
  unfold delete
  rw [parseRoot_render d hd name hname _ (by rw [hname.1]; exact hsize)]
  simp only []
  rw [walk_render d hd name hname.1 _ (fun x hx => (hcs x hx).1)]
  simp only []
  rw [find_none d d.loadIds _ cs (fun x hx => (hcs x hx).2)]


/-! ### the strict reader reads rendered files back -/

/-- structure only: a four-byte id, a size that fits the size field, the pad byte iff the size is odd -/
def Chunk.Shape (d : Dialect) (c : Chunk) : Prop :=
  c.id.length = 4 ∧ c.data.length < 256 ^ d.sizeW ∧ c.pad.length = c.data.length % 2

theorem Chunk.OK.shape {d : Dialect} {c : Chunk} (h : c.OK d) : c.Shape d := ⟨h.1.1, h.1.2.1, h.2⟩

theorem readChunks_render (d : Dialect) (cs : List Chunk) (fuel : Nat) (h : ∀ c ∈ cs, c.Shape d) (hf : cs.length ≤ fuel) :
    readChunks d fuel (renderChunks d cs) = some cs := by
  induction cs generalizing fuel with
  | nil => cases fuel <;> simp [readChunks, renderChunks]
  | cons c r ih =>
    obtain ⟨h4, hn, hpad⟩ := h c (by simp)
    cases fuel with
    | zero => simp at hf
    | succ k =>
      have e : renderChunks d (c :: r) = c.id ++ (enc d c.data.length ++ (c.data ++ (c.pad ++ renderChunks d r))) := by
        simp [renderChunks, Chunk.render, List.append_assoc]
      have hne : renderChunks d (c :: r) ≠ [] := by
        intro h0
        have := congrArg List.length h0
        simp [e, h4] at this
      have hlen : ¬ ((renderChunks d (c :: r)).length < hs d) := by
        simp [e, h4, hs]
      have hsz : ((renderChunks d (c :: r)).drop 4).take d.sizeW = enc d c.data.length := by
        rw [e, List.drop_left' h4, List.take_left' (length_enc d _)]
      have hrest : (renderChunks d (c :: r)).drop (hs d) = c.data ++ (c.pad ++ renderChunks d r) := by
        rw [e, ← List.append_assoc]
        exact List.drop_left' (by simp [h4, hs])
      unfold readChunks
      rw [if_neg hne, if_neg hlen]
      simp only [hsz, dec_enc d _ hn, hrest]
      have hl2 : ¬ ((c.data ++ (c.pad ++ renderChunks d r)).length < c.data.length + c.data.length % 2) := by
        simp [hpad]
      rw [if_neg hl2]
      have hd1 : (c.data ++ (c.pad ++ renderChunks d r)).drop (c.data.length + c.data.length % 2) = renderChunks d r := by
        rw [← List.append_assoc]; exact List.drop_left' (by simp [hpad])
      rw [hd1, ih k (fun x hx => h x (by simp [hx])) (by simpa using hf)]
      have t1 : (renderChunks d (c :: r)).take 4 = c.id := by rw [e, List.take_left' h4]
      have t2 : (c.data ++ (c.pad ++ renderChunks d r)).take c.data.length = c.data := List.take_left' rfl
      have t3 : ((c.data ++ (c.pad ++ renderChunks d r)).drop c.data.length).take (c.data.length % 2) = c.pad := by
        rw [List.drop_left' rfl, List.take_left' hpad]
      simp only [t1, t2, t3]

theorem length_le_renderChunks' (d : Dialect) (cs : List Chunk) (h : ∀ c ∈ cs, c.Shape d) :
    cs.length ≤ (renderChunks d cs).length := length_le_renderChunks d cs (fun c hc => (h c hc).1)

/-- the strict reader accepts a rendered file and returns the form type and the chunks -/
theorem readFile_render (d : Dialect) (hd : d.WF) (name : Bytes) (hname : name.length = 4) (cs : List Chunk)
    (h : ∀ c ∈ cs, c.Shape d) (hsize : 4 + (renderChunks d cs).length < 256 ^ d.sizeW) :
    readFile d (renderFile d name cs) = some (name, cs) := by
  have hlen := length_renderFile d hd name cs
  have e : renderFile d name cs = d.rootId ++ (enc d (name.length + (renderChunks d cs).length) ++ (name ++ renderChunks d cs)) := by
    simp [renderFile, List.append_assoc]
  unfold readFile
  have h1 : ¬ ((renderFile d name cs).length < hs d + nameSize) := by rw [hlen, hname]; simp [nameSize]
  have h2 : (renderFile d name cs).take 4 = d.rootId := by rw [e, List.take_left' hd.1]
  have h3 : dec d (((renderFile d name cs).drop 4).take d.sizeW) = (renderFile d name cs).length - hs d := by
    rw [e, List.drop_left' hd.1, List.take_left' (length_enc d _), dec_enc d _ (by rw [hname]; exact hsize), ← e, hlen]
    omega
  have h4 : (renderFile d name cs).drop (hs d + nameSize) = renderChunks d cs := by
    have : renderFile d name cs = (d.rootId ++ enc d (name.length + (renderChunks d cs).length) ++ name) ++ renderChunks d cs := by
      simp [renderFile, List.append_assoc]
    rw [this]; exact List.drop_left' (by simp [hd.1, hname, hs, nameSize]; omega)
  have h5 : ((renderFile d name cs).drop (hs d)).take nameSize = name := by
    have : renderFile d name cs = (d.rootId ++ enc d (name.length + (renderChunks d cs).length)) ++ (name ++ renderChunks d cs) := by
      simp [renderFile, List.append_assoc]
    rw [this, List.drop_left' (by simp [hd.1, hs]), List.take_left' (by simp [hname, nameSize])]
  rw [if_neg h1, if_neg (by simp [h2]), if_neg (by simp [h3]), h4,
    readChunks_render d cs _ h (by have := length_le_renderChunks' d cs h; rw [hlen]; omega)]
  simp only [h5]


/-! ### layouts -/

/-- a well-formed file: the form type the dialect wants, well-formed chunks none of which in front of
the ID3 chunk is called like one, and a root size that fits its field (`render` writes the true
extent into it).  Without an ID3 chunk all chunks are listed in `before`. -/
structure Layout.OK (d : Dialect) (L : Layout) : Prop where
  name : NameOK d L.formType
  before : ∀ c ∈ L.before, c.OK d ∧ c.isId3 d = false
  id3 : ∀ c, L.id3 = some c → c.OK d ∧ c.isId3 d = true
  after : ∀ c ∈ L.after, c.OK d
  afterNone : L.id3 = none → L.after = []
  size : 4 + (renderChunks d L.chunks).length < 256 ^ d.sizeW

/-- `chunk.data_size` of the ID3 chunk as `save` sees it (0 for the chunk it has just inserted) -/
def Layout.oldLen (L : Layout) : Nat := match L.id3 with | some c => c.data.length | none => 0

/-- the number of bytes that follow the ID3 chunk's data in the file: its pad byte and the later chunks -/
def Layout.trailing (d : Dialect) (L : Layout) : Nat :=
  match L.id3 with | some c => c.pad.length + (renderChunks d L.after).length | none => 0

/-- the id of the ID3 chunk after a save: the one it had (the case is kept), or the dialect's for a new one -/
def Layout.id3Id (d : Dialect) (L : Layout) : Bytes := match L.id3 with | some c => c.id | none => d.newId

/-- the layout after a save that wrote `data` into the ID3 chunk -/
def Layout.withTag (d : Dialect) (L : Layout) (data : Bytes) : Layout := { L with id3 := some (tagChunk (L.id3Id d) data) }

/-- the layout after a delete -/
def Layout.without (L : Layout) : Layout := ⟨L.formType, L.before ++ L.after, none, []⟩

/-- the extent of the chunks after a save of `n` bytes of ID3 data -/
def Layout.newExtent (d : Dialect) (L : Layout) (n : Nat) : Nat :=
  (renderChunks d L.before).length + (hs d + n + n % 2) + (renderChunks d L.after).length

theorem chunks_some (L : Layout) (c : Chunk) (h : L.id3 = some c) : L.chunks = L.before ++ c :: L.after := by
  simp [Layout.chunks, h]

theorem chunks_none (L : Layout) (h : L.id3 = none) (ha : L.after = []) : L.chunks = L.before := by
  simp [Layout.chunks, h, ha]

/-- THE save theorem: on a well-formed layout `save` yields the same layout with the ID3 chunk (the
existing one, or a new one behind all others) holding the ID3 header for `frames + p` bytes, the
frames and `p` zero bytes — where `p` is what the padding callback (or the default policy) answered
when it was offered `chunk.data_size - (len(frames) + 10)` and told how many bytes follow the chunk
data.  Nothing else changes; the root size and the chunk size are those of the new extents. -/
theorem save_layout (d : Dialect) (hd : d.WF) (L : Layout) (h : L.OK d) (vmaj : Nat) (hvm : vmaj = 3 ∨ vmaj = 4)
    (frames : Bytes) (pad : PadChoice) (p : Nat)
    (hp : getPadding pad ((L.oldLen : Int) - (frames.length + 10 : Nat)) (L.trailing d) = p)
    (hfit : frames.length + p < 2 ^ 28)
    (hroot : 4 + L.newExtent d (10 + frames.length + p) < 256 ^ d.sizeW) :
    ∃ hdr, Id3F.header vmaj (frames.length + p) = .ok hdr ∧ hdr.length = 10 ∧
      save d (L.render d) vmaj frames pad = .ok ((L.withTag d (hdr ++ frames ++ zeros p)).render d) := by
  unfold Layout.newExtent at hroot
  cases hid : L.id3 with
  | some c =>
    have hc := h.id3 c hid
    obtain ⟨hdr, h1, h2, h3⟩ := save_present d hd L.formType h.name L.before L.after c h.before hc h.after
      (by rw [← chunks_some L c hid]; exact h.size) vmaj hvm frames pad p
      (by simpa [Layout.oldLen, Layout.trailing, hid] using hp) hfit hroot
    refine ⟨hdr, h1, h2, ?_⟩
    simp only [Layout.render, chunks_some L c hid, h3]
    simp [Layout.withTag, Layout.chunks, Layout.id3Id, hid]
  | none =>
    have ha := h.afterNone hid
    obtain ⟨hdr, h1, h2, h3⟩ := save_absent d hd L.formType h.name L.before h.before vmaj hvm frames pad p
      (by simpa [Layout.oldLen, Layout.trailing, hid] using hp) hfit (by simpa [ha, renderChunks] using hroot)
    refine ⟨hdr, h1, h2, ?_⟩
    simp only [Layout.render, chunks_none L hid ha, h3]
    simp [Layout.withTag, Layout.chunks, Layout.id3Id, hid, ha]

theorem sid_tagChunk (id data : Bytes) (c : Chunk) (h : c.id = id) : sid (tagChunk id data) = sid c := by
  simp [sid, tagChunk, h]

/-- the chunk `save` leaves is well-formed and is found by the ID3 lookup -/
theorem tagChunk_ok (d : Dialect) (hd : d.WF) (c : Chunk) (hc : c.OK d ∧ c.isId3 d = true) (data : Bytes)
    (hn : data.length < 256 ^ d.sizeW) : (tagChunk c.id data).OK d ∧ (tagChunk c.id data).isId3 d = true := by
  have hs := sid_tagChunk c.id data c rfl
  refine ⟨⟨⟨hc.1.1.1, hn, ?_, ?_⟩, by simp [tagChunk]⟩, ?_⟩
  · rw [hs]; exact hc.1.1.2.2.1
  · unfold containerOK
    rw [hs]
    have := hd.2.2.2.2.2.2.2 (sid c) (by simpa [Chunk.isId3] using hc.2)
    rw [this]
  · simpa [Chunk.isId3, hs] using hc.2

theorem fresh_isId3 (d : Dialect) (hd : d.WF) : (freshChunk d).isId3 d = true := by
  simp only [Chunk.isId3, sid_fresh d hd]; exact hd.2.2.2.2.2.1

/-- a save leaves a well-formed layout (so every theorem here applies again) -/
theorem withTag_ok (d : Dialect) (hd : d.WF) (L : Layout) (h : L.OK d) (data : Bytes)
    (hroot : 4 + L.newExtent d data.length < 256 ^ d.sizeW) : (L.withTag d data).OK d := by
  unfold Layout.newExtent at hroot
  have hn : data.length < 256 ^ d.sizeW := by omega
  have htag : (tagChunk (L.id3Id d) data).OK d ∧ (tagChunk (L.id3Id d) data).isId3 d = true := by
    cases hid : L.id3 with
    | some c => simpa [Layout.id3Id, hid] using tagChunk_ok d hd c (h.id3 c hid) data hn
    | none => simpa [Layout.id3Id, hid, freshChunk] using tagChunk_ok d hd (freshChunk d) ⟨fresh_ok d hd, fresh_isId3 d hd⟩ data hn
  refine ⟨h.name, h.before, ?_, h.after, by simp [Layout.withTag], ?_⟩
  · intro c hc
    simp only [Layout.withTag, Option.some.injEq] at hc
    rw [← hc]; exact htag
  · have : (renderChunks d (L.withTag d data).chunks).length =
        (renderChunks d L.before).length + (hs d + data.length + data.length % 2) + (renderChunks d L.after).length := by
      simp only [Layout.withTag, Layout.chunks, Option.toList_some, List.append_assoc, List.singleton_append]
      rw [length_chunks_split d _ _ _ htag.1.1.1]
      simp [tagChunk]
    rw [this]; exact hroot

/-- THE delete theorem: on a well-formed layout `delete` removes the ID3 chunk — header, data, pad
byte — and corrects the root size; without an ID3 chunk it does nothing -/
theorem delete_layout (d : Dialect) (hd : d.WF) (L : Layout) (h : L.OK d) :
    delete d (L.render d) = .ok (L.without.render d) := by
  cases hid : L.id3 with
  | some c =>
    have := delete_present d hd L.formType h.name L.before L.after c h.before (h.id3 c hid) h.after
      (by rw [← chunks_some L c hid]; exact h.size)
    simp only [Layout.render, chunks_some L c hid, this]
    simp [Layout.without, Layout.chunks]
  | none =>
    have ha := h.afterNone hid
    have := delete_absent d hd L.formType h.name L.before h.before (by rw [← chunks_none L hid ha]; exact h.size)
    simp only [Layout.render, chunks_none L hid ha, this]
    simp [Layout.without, Layout.chunks, ha]

/-- after a delete the layout is well-formed again, provided no later chunk is called like an ID3 chunk -/
theorem without_ok (d : Dialect) (L : Layout) (h : L.OK d) (hafter : ∀ c ∈ L.after, c.isId3 d = false) : L.without.OK d := by
  refine ⟨h.name, ?_, by simp [Layout.without], by simp [Layout.without], by simp [Layout.without], ?_⟩
  · intro c hc
    simp only [Layout.without, List.mem_append] at hc
    rcases hc with hc | hc
    · exact h.before c hc
    · exact ⟨h.after c hc, hafter c hc⟩
  · have h1 := h.size
    have : (renderChunks d L.without.chunks).length ≤ (renderChunks d L.chunks).length := by
      simp only [Layout.without, Layout.chunks, Option.toList_none, List.append_nil, renderChunks_append, List.length_append]
      omega
    omega

/-- the strict reader reads a well-formed layout back -/
theorem readFile_layout (d : Dialect) (hd : d.WF) (L : Layout) (h : L.OK d) :
    readFile d (L.render d) = some (L.formType, L.chunks) := by
  apply readFile_render d hd L.formType h.name.1 L.chunks _ h.size
  intro c hc
  simp only [Layout.chunks, List.mem_append, Option.mem_toList] at hc
  rcases hc with (hc | hc) | hc
  · exact (h.before c hc).1.shape
  · exact (h.id3 c hc).1.shape
  · exact (h.after c hc).shape


/-! ### consequences used by the property statements -/

/-- what the strict reader's acceptance says about the root header -/
theorem readFile_some_root (d : Dialect) (f : Bytes) (x : Bytes × List Chunk) (h : readFile d f = some x) :
    f.take 4 = d.rootId ∧ dec d ((f.drop 4).take d.sizeW) = f.length - hs d := by
  unfold readFile at h
  split at h
  · cases h
  · split at h
    · cases h
    · split at h
      · cases h
      · rename_i h1 h2 h3
        exact ⟨by simpa using h2, by simpa using h3⟩

/-- the size field of the chunk behind `bs` in a rendered file -/
theorem sizeField_render (d : Dialect) (hd : d.WF) (name : Bytes) (hname : name.length = 4) (bs as : List Chunk) (c : Chunk)
    (hc4 : c.id.length = 4) :
    readAt (renderFile d name (bs ++ c :: as)) (hs d + 4 + (renderChunks d bs).length + 4) d.sizeW = enc d c.data.length := by
  rw [renderFile_split]
  have e : ∀ r0, d.rootId ++ enc d r0 ++ (name ++ renderChunks d bs ++ c.id) ++ enc d c.data.length ++ (c.data ++ c.pad) ++ renderChunks d as =
      (d.rootId ++ enc d r0 ++ (name ++ renderChunks d bs ++ c.id)) ++ enc d c.data.length ++ ((c.data ++ c.pad) ++ renderChunks d as) := by
    intro r0; simp only [List.append_assoc]
  rw [e]
  exact readAt_mid _ _ _ _ _ (by simp only [List.length_append, length_enc, hd.1, hname, hc4, hs]; omega) (length_enc d _)

/-- after a delete the strict reader finds the other chunks, in order -/
theorem readFile_without (d : Dialect) (hd : d.WF) (L : Layout) (h : L.OK d) :
    readFile d (L.without.render d) = some (L.formType, L.before ++ L.after) := by
  have hsz : (renderChunks d (L.before ++ L.after)).length ≤ (renderChunks d L.chunks).length := by
    simp only [Layout.chunks, renderChunks_append, List.length_append]; omega
  have := readFile_render d hd L.formType h.name.1 (L.before ++ L.after) (by
    intro c hc
    simp only [List.mem_append] at hc
    rcases hc with hc | hc
    · exact (h.before c hc).1.shape
    · exact (h.after c hc).shape) (by have := h.size; omega)
  simpa [Layout.render, Layout.without, Layout.chunks] using this

/-- two rendered files whose only difference is the content of one chunk of unchanged length agree
in length, in everything in front of that chunk's data and in everything behind its pad byte -/
theorem same_size_inplace (d : Dialect) (hd : d.WF) (name : Bytes) (hname : name.length = 4) (bs as : List Chunk) (c c' : Chunk)
    (hc4 : c.id.length = 4) (hid : c'.id = c.id) (hlen : c'.data.length = c.data.length)
    (hpad : c.pad.length = c.data.length % 2) (hpad' : c'.pad.length = c'.data.length % 2) :
    let f := renderFile d name (bs ++ c :: as)
    let f' := renderFile d name (bs ++ c' :: as)
    let dataOff := hs d + 4 + (renderChunks d bs).length + hs d
    f'.length = f.length ∧ f'.take dataOff = f.take dataOff ∧
      f'.drop (dataOff + (c.data.length + c.data.length % 2)) = f.drop (dataOff + (c.data.length + c.data.length % 2)) := by
  have hc4' : c'.id.length = 4 := by rw [hid]; exact hc4
  have hl : (renderChunks d (bs ++ c' :: as)).length = (renderChunks d (bs ++ c :: as)).length := by
    rw [length_chunks_split d bs c as hc4, length_chunks_split d bs c' as hc4', hlen, hpad', hpad, hlen]
  simp only []
  rw [renderFile_split d name bs c as, renderFile_split d name bs c' as, hl, hid, hlen]
  generalize name.length + (renderChunks d (bs ++ c :: as)).length = r0
  have hP : (d.rootId ++ enc d r0 ++ (name ++ renderChunks d bs ++ c.id) ++ enc d c.data.length).length =
      hs d + 4 + (renderChunks d bs).length + hs d := by
    simp only [List.length_append, length_enc, hd.1, hname, hc4, hs]; omega
  refine ⟨?_, ?_, ?_⟩
  · simp only [List.length_append, hlen, hpad, hpad']
  · rw [take_mid _ _ _ _ hP, take_mid _ _ _ _ hP]
  · rw [drop_mid _ _ _ _ _ hP (by simp only [List.length_append]; omega), drop_mid _ _ _ _ _ hP (by simp only [List.length_append]; omega)]


end Mutagen.Iff
