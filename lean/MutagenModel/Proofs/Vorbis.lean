/- Proofs/Vorbis.lean — the Vorbis comment header round trip -/
import MutagenModel.Model.Vorbis
import MutagenModel.Proofs.IntCodec
set_option linter.unusedVariables false
namespace Mutagen.Vorbis
open Mutagen

theorem splitEq_append (k v : Bytes) (hk : eqSign ∉ k) : splitEq (k ++ [eqSign] ++ v) = some (k, v) := by
  induction k with
  | nil => simp [splitEq]
  | cons b r ih =>
    have hb : b ≠ eqSign := fun h => hk (h ▸ List.mem_cons_self)
    have hr : eqSign ∉ r := fun h => hk (List.mem_cons_of_mem _ h)
    simp only [List.cons_append, splitEq, hb, ↓reduceIte]
    have := ih hr
    simp only [List.append_assoc, List.cons_append, List.nil_append] at this ⊢
    rw [this]; rfl

/-- a comment is well-formed when its key has no '=' and it fits the 32-bit length field -/
def CommentOK (kv : Bytes × Bytes) : Prop := eqSign ∉ kv.1 ∧ kv.1.length + 1 + kv.2.length < 256 ^ 4

theorem take_append_len (a b : Bytes) : (a ++ b).take a.length = a := List.take_left' rfl
theorem drop_append_len (a b : Bytes) : (a ++ b).drop a.length = b := List.drop_left' rfl

theorem decodeComments_encode (cs : List (Bytes × Bytes)) (h : ∀ kv ∈ cs, CommentOK kv) (tail : Bytes) :
    decodeComments cs.length ((cs.map encodeComment).flatten ++ tail) = some (cs, tail) := by
  induction cs with
  | nil => simp [decodeComments]
  | cons kv r ih =>
    obtain ⟨hk, hl⟩ := h kv (List.mem_cons_self)
    have ih' := ih (fun x hx => h x (List.mem_cons_of_mem _ hx))
    simp only [List.length_cons, List.map_cons, List.flatten_cons, decodeComments]
    generalize hc : kv.1 ++ [eqSign] ++ kv.2 = c
    have hcl : c.length < 256 ^ 4 := by rw [← hc]; simp; omega
    have henc : encodeComment kv = toLE 4 c.length ++ c := by simp [encodeComment, hc]
    rw [henc]
    have h4 : (toLE 4 c.length).length = 4 := length_toLE 4 _
    have hlen : ¬ ((toLE 4 c.length ++ c ++ ((r.map encodeComment).flatten ++ tail)).length < 4) := by
      simp [h4]
    have e1 : (toLE 4 c.length ++ c ++ ((r.map encodeComment).flatten ++ tail)).take 4 = toLE 4 c.length := by
      rw [List.append_assoc]; rw [← h4]; exact take_append_len _ _
    have e2 : (toLE 4 c.length ++ c ++ ((r.map encodeComment).flatten ++ tail)).drop 4 =
        c ++ ((r.map encodeComment).flatten ++ tail) := by
      rw [List.append_assoc]; rw [← h4]; exact drop_append_len _ _
    simp only [List.append_assoc] at hlen e1 e2 ⊢
    simp only [hlen, ↓reduceIte, e1, e2, ofLE_toLE 4 c.length hcl]
    have hb : ¬ ((c ++ ((r.map encodeComment).flatten ++ tail)).length < c.length) := by simp
    simp only [hb, ↓reduceIte, take_append_len, drop_append_len]
    rw [← hc, splitEq_append kv.1 kv.2 hk]
    simp only [ih', Option.map_some]

/-- decode ∘ encode = id on well-formed comment lists (vendor and count within 32 bits),
with and without the framing bit, whatever follows -/
theorem decode_encode (vendor : Bytes) (cs : List (Bytes × Bytes)) (framing : Bool) (rest : Bytes)
    (hv : vendor.length < 256 ^ 4) (hn : cs.length < 256 ^ 4) (h : ∀ kv ∈ cs, CommentOK kv) :
    decode (encode vendor cs framing ++ rest) framing = some (vendor, cs) := by
  unfold decode encode
  have h4 : (toLE 4 vendor.length).length = 4 := length_toLE 4 _
  have h4' : (toLE 4 cs.length).length = 4 := length_toLE 4 _
  generalize hT : (if framing then [1] else ([] : Bytes)) ++ rest = T
  have hshape : toLE 4 vendor.length ++ vendor ++ toLE 4 cs.length ++ (cs.map encodeComment).flatten ++
      (if framing then [1] else []) ++ rest =
      toLE 4 vendor.length ++ (vendor ++ (toLE 4 cs.length ++ ((cs.map encodeComment).flatten ++ T))) := by
    rw [← hT]; simp only [List.append_assoc]
  rw [hshape]
  have hl : ¬ ((toLE 4 vendor.length ++ (vendor ++ (toLE 4 cs.length ++ ((cs.map encodeComment).flatten ++ T)))).length < 4) := by
    simp [h4]
  have e1 : (toLE 4 vendor.length ++ (vendor ++ (toLE 4 cs.length ++ ((cs.map encodeComment).flatten ++ T)))).take 4 =
      toLE 4 vendor.length := by rw [← h4]; exact take_append_len _ _
  have e2 : (toLE 4 vendor.length ++ (vendor ++ (toLE 4 cs.length ++ ((cs.map encodeComment).flatten ++ T)))).drop 4 =
      vendor ++ (toLE 4 cs.length ++ ((cs.map encodeComment).flatten ++ T)) := by rw [← h4]; exact drop_append_len _ _
  simp only [hl, ↓reduceIte, e1, e2, ofLE_toLE 4 _ hv]
  have hl2 : ¬ ((vendor ++ (toLE 4 cs.length ++ ((cs.map encodeComment).flatten ++ T))).length < vendor.length + 4) := by
    simp [h4']
  simp only [hl2, ↓reduceIte, take_append_len, drop_append_len]
  have e3 : (toLE 4 cs.length ++ ((cs.map encodeComment).flatten ++ T)).take 4 = toLE 4 cs.length := by
    rw [← h4']; exact take_append_len _ _
  have e4 : (toLE 4 cs.length ++ ((cs.map encodeComment).flatten ++ T)).drop 4 = (cs.map encodeComment).flatten ++ T := by
    rw [← h4']; exact drop_append_len _ _
  simp only [e3, e4, ofLE_toLE 4 _ hn, decodeComments_encode cs h T]
  cases framing
  · simp
  · simp only [↓reduceIte]
    rw [← hT]
    simp

end Mutagen.Vorbis
