/- Proofs/Id3Util.lean — lemmas for C14 -/
import MutagenModel.Model.Id3Util
set_option linter.unusedVariables false
namespace Mutagen

theorem digitsLE_some (bits w v : Nat) (h : v < 2 ^ (bits * w)) :
    ∃ ds, digitsLE bits w v = some ds ∧ fromLE bits ds = v ∧ ds.length = w ∧ ∀ d ∈ ds, d < 2 ^ bits := by
  induction w generalizing v with
  | zero =>
    simp at h
    exact ⟨[], by simp [digitsLE, h], by simp [fromLE, h], rfl, by simp⟩
  | succ w ih =>
    have hp : 0 < 2 ^ bits := Nat.pow_pos (by decide)
    have h' : v / 2 ^ bits < 2 ^ (bits * w) := by
      rw [Nat.div_lt_iff_lt_mul hp, ← Nat.pow_add]
      have : bits * w + bits = bits * (w + 1) := by rw [Nat.mul_succ]
      rw [this]; exact h
    obtain ⟨ds, h1, h2, h3, h4⟩ := ih (v / 2 ^ bits) h'
    refine ⟨(v % 2 ^ bits) :: ds, by simp [digitsLE, h1], ?_, by simp [h3], ?_⟩
    · simp only [fromLE, h2, Nat.mod_mod]
      have := Nat.div_add_mod v (2 ^ bits)
      omega
    · intro d hd
      rcases List.mem_cons.mp hd with rfl | hd
      · exact Nat.mod_lt _ hp
      · exact h4 d hd

theorem digitsLE_none (bits w v : Nat) (h : 2 ^ (bits * w) ≤ v) : digitsLE bits w v = none := by
  induction w generalizing v with
  | zero =>
    simp at h
    simp [digitsLE]; omega
  | succ w ih =>
    have hp : 0 < 2 ^ bits := Nat.pow_pos (by decide)
    have h' : 2 ^ (bits * w) ≤ v / 2 ^ bits := by
      rw [Nat.le_div_iff_mul_le hp, ← Nat.pow_add]
      have : bits * w + bits = bits * (w + 1) := by rw [Nat.mul_succ]
      rw [this]; exact h
    simp [digitsLE, ih _ h']

theorem digitsGrow_some (bits : Nat) (hb : 0 < bits) (v : Nat) :
    ∃ ds, digitsGrow bits v = some ds ∧ fromLE bits ds = v ∧ (∀ d ∈ ds, d < 2 ^ bits) ∧
      (v < 2 ^ (bits * ds.length)) ∧ (ds.getLast? ≠ some 0) := by
  induction v using Nat.strongRecOn with
  | _ v ih =>
    unfold digitsGrow
    by_cases h0 : v = 0
    · subst h0
      exact ⟨[], by simp, by simp [fromLE], by simp, by simp, by simp⟩
    · have hb0 : ¬ bits = 0 := by omega
      have hp : 0 < 2 ^ bits := Nat.pow_pos (by decide)
      have hlt : v / 2 ^ bits < v := Nat.div_lt_self (by omega) (Nat.one_lt_two_pow hb0)
      obtain ⟨ds, h1, h2, h3, h4, h5⟩ := ih (v / 2 ^ bits) hlt
      refine ⟨(v % 2 ^ bits) :: ds, by simp [h0, hb0, h1], ?_, ?_, ?_, ?_⟩
      · simp only [fromLE, h2, Nat.mod_mod]
        have := Nat.div_add_mod v (2 ^ bits)
        omega
      · intro d hd
        rcases List.mem_cons.mp hd with rfl | hd
        · exact Nat.mod_lt _ hp
        · exact h3 d hd
      · simp only [List.length_cons, Nat.mul_succ, Nat.pow_add]
        have := (Nat.div_lt_iff_lt_mul hp).mp h4
        exact this
      · cases ds with
        | nil =>
          simp only [List.getLast?_singleton, ne_eq, Option.some.injEq]
          simp [fromLE] at h2
          intro hm
          have := Nat.div_add_mod v (2 ^ bits)
          rw [hm, ← h2] at this
          omega
        | cons d r => simpa [List.getLast?_cons_cons] using h5

theorem fromLE_append_zeros (bits : Nat) (ds : List Nat) (n : Nat) :
    fromLE bits (ds ++ List.replicate n 0) = fromLE bits ds := by
  induction ds with
  | nil =>
    induction n with
    | zero => rfl
    | succ n ih => simp [List.replicate_succ, fromLE] at *; simp [ih]
  | cons d r ih => simp [fromLE, ih]

theorem map_toNat_ofNat (ds : List Nat) (h : ∀ d ∈ ds, d < 256) :
    (ds.map UInt8.ofNat).map UInt8.toNat = ds := by
  induction ds with
  | nil => rfl
  | cons d r ih =>
    simp only [List.map_cons, List.cons.injEq]
    refine ⟨?_, ih (fun x hx => h x (List.mem_cons_of_mem _ hx))⟩
    have := h d (List.mem_cons_self)
    simp only [UInt8.toNat_ofNat']
    omega

theorem pow_bits_le_256 (bits : Nat) (h : bits ≤ 8) : 2 ^ bits ≤ 256 := by
  have : 2 ^ bits ≤ 2 ^ 8 := Nat.pow_le_pow_right (by decide) h
  simpa using this

/-! ### unsynchronisation -/

theorem unsDec_enc (s : Bool) (b : Bytes) : unsDec s (unsEnc s b) = some b := by
  induction b generalizing s with
  | nil => cases s <;> simp [unsEnc, unsDec]
  | cons x r ih =>
    cases s
    · simp [unsEnc, unsDec, ih]
    · simp only [unsEnc]
      split
      · rename_i h
        simp only [unsDec]
        have h0 : ¬ ((0x00 : UInt8) ≥ 0xE0) := by decide
        simp [h0, ih]
      · rename_i h
        have h1 : ¬ (x ≥ 0xE0) := fun hh => h (Or.inl hh)
        have h2 : ¬ (x = 0x00) := fun hh => h (Or.inr hh)
        simp [unsDec, h1, h2, ih]

theorem noSync_enc (s : Bool) (b : Bytes) : noSync s (unsEnc s b) = true := by
  induction b generalizing s with
  | nil => cases s <;> simp [unsEnc, noSync]
  | cons x r ih =>
    cases s
    · simp [unsEnc, noSync, ih]
    · simp only [unsEnc]
      split
      · simp [noSync, ih]
      · rename_i h
        have h1 : ¬ (x ≥ 0xE0) := fun hh => h (Or.inl hh)
        simp [noSync, h1, ih]

end Mutagen
