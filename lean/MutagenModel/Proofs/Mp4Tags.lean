/- Proofs/Mp4Tags.lean — MP4 ilst item round trips -/
import MutagenModel.Model.Mp4Tags
import MutagenModel.Proofs.IntCodec
set_option linter.unusedVariables false
namespace Mutagen.Mp4Tags
open Mutagen

theorem take_left_len (a b : Bytes) : (a ++ b).take a.length = a := List.take_left' rfl
theorem drop_left_len (a b : Bytes) : (a ++ b).drop a.length = b := List.drop_left' rfl

theorem take_of_len (a b : Bytes) (n : Nat) (h : a.length = n) : (a ++ b).take n = a := by
  subst h; exact take_left_len a b
theorem drop_of_len (a b : Bytes) (n : Nat) (h : a.length = n) : (a ++ b).drop n = b := by
  subst h; exact drop_left_len a b

theorem renderAtom_length (name body : Bytes) (hn : name.length = 4) :
    (renderAtom name body).length = body.length + 8 := by
  simp [renderAtom, hn]; omega

/-- an atom written by Atom.render is split off exactly, whatever follows -/
theorem splitAtom_renderAtom (name body rest : Bytes) (hn : name.length = 4) (hl : body.length + 8 < 256 ^ 4) :
    splitAtom (renderAtom name body ++ rest) = some (name, body, rest) := by
  have h4 : (toBE 4 (body.length + 8)).length = 4 := length_toBE 4 _
  have hshape : renderAtom name body ++ rest = toBE 4 (body.length + 8) ++ (name ++ (body ++ rest)) := by
    simp [renderAtom, List.append_assoc]
  have hlen : (renderAtom name body ++ rest).length = body.length + 8 + rest.length := by
    simp [renderAtom_length name body hn]
  have e1 : (renderAtom name body ++ rest).take 4 = toBE 4 (body.length + 8) := by
    rw [hshape]; exact take_of_len _ _ 4 h4
  have e2 : ((renderAtom name body ++ rest).drop 4).take 4 = name := by
    rw [hshape, drop_of_len _ _ 4 h4]; exact take_of_len _ _ 4 hn
  have e3 : (renderAtom name body ++ rest).take (body.length + 8) = renderAtom name body := by
    rw [← renderAtom_length name body hn]; exact take_left_len _ _
  have e4 : (renderAtom name body ++ rest).drop (body.length + 8) = rest := by
    rw [← renderAtom_length name body hn]; exact drop_left_len _ _
  have e5 : (renderAtom name body).drop 8 = body := by
    have : renderAtom name body = (toBE 4 (body.length + 8) ++ name) ++ body := by simp [renderAtom]
    rw [this]
    have l8 : (toBE 4 (body.length + 8) ++ name).length = 8 := by simp [hn]
    rw [← l8]; exact drop_left_len _ _
  unfold splitAtom
  have c1 : ¬ ((renderAtom name body ++ rest).length < 8) := by rw [hlen]; omega
  simp only [e1, ofBE_toBE 4 _ hl, e2, e3, e4, e5, hlen]
  have c2 : ¬ (body.length + 8 < 8 ∨ body.length + 8 + rest.length < body.length + 8) := by omega
  have c3 : ¬ (body.length + 8 + rest.length < 8) := by omega
  simp only [c2, c3, ↓reduceIte]

def DataOK (d : Data) : Prop := d.version < 256 ∧ d.flags < 16777216 ∧ d.payload.length + 16 < 256 ^ 4

theorem decodeDataBody_encode (d : Data) (h : DataOK d) :
    decodeDataBody (toBE 4 (d.version * 16777216 + d.flags) ++ toBE 4 0 ++ d.payload) = some d := by
  obtain ⟨hv, hf, hp⟩ := h
  have h4 : (toBE 4 (d.version * 16777216 + d.flags)).length = 4 := length_toBE 4 _
  have h4' : (toBE 4 0).length = 4 := length_toBE 4 _
  have hshape : toBE 4 (d.version * 16777216 + d.flags) ++ toBE 4 0 ++ d.payload =
      toBE 4 (d.version * 16777216 + d.flags) ++ (toBE 4 0 ++ d.payload) := by simp
  have e1 : (toBE 4 (d.version * 16777216 + d.flags) ++ (toBE 4 0 ++ d.payload)).take 4 =
      toBE 4 (d.version * 16777216 + d.flags) := take_of_len _ _ 4 h4
  have e2 : ((toBE 4 (d.version * 16777216 + d.flags) ++ (toBE 4 0 ++ d.payload)).drop 4).take 4 = toBE 4 0 := by
    rw [drop_of_len _ _ 4 h4]; exact take_of_len _ _ 4 h4'
  have e3 : (toBE 4 (d.version * 16777216 + d.flags) ++ (toBE 4 0 ++ d.payload)).drop 8 = d.payload := by
    rw [show (8 : Nat) = 4 + 4 from rfl, ← List.drop_drop, drop_of_len _ _ 4 h4]; exact drop_of_len _ _ 4 h4'
  have hlt : d.version * 16777216 + d.flags < 256 ^ 4 := by
    have : (256 : Nat) ^ 4 = 4294967296 := by decide
    omega
  rw [hshape]
  unfold decodeDataBody
  have c1 : ¬ ((toBE 4 (d.version * 16777216 + d.flags) ++ (toBE 4 0 ++ d.payload)).length < 8) := by
    simp [h4, h4']; omega
  simp only [c1, ↓reduceIte, e1, e2, e3, ofBE_toBE 4 _ hlt, ofBE_toBE 4 0 (by decide), ne_eq, not_true_eq_false]
  have a1 : (d.version * 16777216 + d.flags) / 16777216 = d.version := by omega
  have a2 : (d.version * 16777216 + d.flags) % 16777216 = d.flags := by omega
  rw [a1, a2]

theorem encodeData_length (d : Data) : (encodeData d).length = d.payload.length + 16 := by
  simp [encodeData, renderAtom, dataName]; omega

theorem decodeDatas_succ (n : Nat) (d : Bytes) (h : d ≠ []) :
    decodeDatas (n + 1) d = (match splitAtom d with
      | none => none
      | some (name, body, rest) =>
        if name ≠ dataName then none
        else match decodeDataBody body, decodeDatas n rest with
          | some x, some r => some (x :: r)
          | _, _ => none) := by
  cases d with
  | nil => exact absurd rfl h
  | cons x r => rfl

theorem decodeDatas_nil (n : Nat) : decodeDatas n [] = some [] := by
  cases n <;> rfl

/-- the `data` atoms MP4Tags writes for the values of a key decode to the same values in order -/
theorem decodeDatas_encode (ds : List Data) (h : ∀ d ∈ ds, DataOK d) (fuel : Nat) (hf : ds.length ≤ fuel) :
    decodeDatas fuel (ds.map encodeData).flatten = some ds := by
  induction ds generalizing fuel with
  | nil => simp [decodeDatas_nil]
  | cons d r ih =>
    cases fuel with
    | zero => simp at hf
    | succ n =>
      have hd := h d List.mem_cons_self
      have ih' := ih (fun x hx => h x (List.mem_cons_of_mem _ hx)) n (by simp at hf; omega)
      simp only [List.map_cons, List.flatten_cons]
      have hne : encodeData d ++ (r.map encodeData).flatten ≠ [] := by
        intro hc
        have := congrArg List.length hc
        simp [encodeData_length] at this
      rw [decodeDatas_succ n _ hne]
      have hbl : (toBE 4 (d.version * 16777216 + d.flags) ++ toBE 4 0 ++ d.payload).length + 8 < 256 ^ 4 := by
        have := hd.2.2
        simp; omega
      have hs := splitAtom_renderAtom dataName (toBE 4 (d.version * 16777216 + d.flags) ++ toBE 4 0 ++ d.payload)
        (r.map encodeData).flatten (by decide) hbl
      have : encodeData d = renderAtom dataName (toBE 4 (d.version * 16777216 + d.flags) ++ toBE 4 0 ++ d.payload) := rfl
      rw [this, hs]
      simp only [ne_eq, not_true_eq_false, ↓reduceIte, decodeDataBody_encode d hd, ih']

theorem length_le_flatten (ds : List Data) : ds.length ≤ ((ds.map encodeData).flatten).length := by
  induction ds with
  | nil => simp
  | cons d r ih =>
    simp only [List.length_cons, List.map_cons, List.flatten_cons, List.length_append, encodeData_length]
    omega

def ItemOK (name : Bytes) (ds : List Data) : Prop :=
  name.length = 4 ∧ (∀ d ∈ ds, DataOK d) ∧ ((ds.map encodeData).flatten).length + 8 < 256 ^ 4

/-- an item atom decodes to its name and its values in order, whatever follows in the ilst -/
theorem decodeItem_encodeItem (name : Bytes) (ds : List Data) (rest : Bytes) (h : ItemOK name ds) :
    decodeItem (encodeItem name ds ++ rest) = some (name, ds, rest) := by
  obtain ⟨hn, hd, hl⟩ := h
  unfold decodeItem encodeItem
  rw [splitAtom_renderAtom name _ rest hn hl]
  simp only [decodeDatas_encode ds hd _ (length_le_flatten ds), Option.map_some]

def FreeformOK (mean name : Bytes) (ds : List Data) : Prop :=
  (∀ d ∈ ds, DataOK d) ∧
    (renderAtom meanName (toBE 4 0 ++ mean) ++ renderAtom nameName (toBE 4 0 ++ name) ++ (ds.map encodeData).flatten).length + 8 < 256 ^ 4

theorem decodeFreeform_encodeFreeform (mean name : Bytes) (ds : List Data) (rest : Bytes) (h : FreeformOK mean name ds) :
    decodeFreeform (encodeFreeform mean name ds ++ rest) = some (mean, name, ds, rest) := by
  obtain ⟨hd, hl⟩ := h
  unfold decodeFreeform encodeFreeform
  rw [splitAtom_renderAtom freeformName _ rest (by decide) hl]
  have lm : (renderAtom meanName (toBE 4 0 ++ mean)).length = mean.length + 12 := by
    rw [renderAtom_length _ _ (by decide)]; simp; omega
  have ln : (renderAtom nameName (toBE 4 0 ++ name)).length = name.length + 12 := by
    rw [renderAtom_length _ _ (by decide)]; simp; omega
  have hm : (toBE 4 0 ++ mean).length + 8 < 256 ^ 4 := by
    simp only [List.length_append, lm, ln] at hl
    simp; omega
  have hnm : (toBE 4 0 ++ name).length + 8 < 256 ^ 4 := by
    simp only [List.length_append, lm, ln] at hl
    simp; omega
  simp only [ne_eq, not_true_eq_false, ↓reduceIte, List.append_assoc]
  rw [splitAtom_renderAtom meanName (toBE 4 0 ++ mean) _ (by decide) hm]
  have t4 : (toBE 4 0 ++ mean).take 4 = toBE 4 0 := by
    have : (toBE 4 0).length = 4 := length_toBE 4 0
    rw [← this]; exact take_left_len _ _
  have t4' : (toBE 4 0 ++ name).take 4 = toBE 4 0 := by
    have : (toBE 4 0).length = 4 := length_toBE 4 0
    rw [← this]; exact take_left_len _ _
  have d4 : (toBE 4 0 ++ mean).drop 4 = mean := by
    have : (toBE 4 0).length = 4 := length_toBE 4 0
    rw [← this]; exact drop_left_len _ _
  have d4' : (toBE 4 0 ++ name).drop 4 = name := by
    have : (toBE 4 0).length = 4 := length_toBE 4 0
    rw [← this]; exact drop_left_len _ _
  have c1 : ¬ ((toBE 4 0 ++ mean).length < 4) := by simp
  have c2 : ¬ ((toBE 4 0 ++ name).length < 4) := by simp
  simp only [t4, c1, or_self, ↓reduceIte, not_true_eq_false]
  rw [splitAtom_renderAtom nameName (toBE 4 0 ++ name) _ (by decide) hnm]
  simp only [not_true_eq_false, t4', c2, or_self, ↓reduceIte, d4, d4',
    decodeDatas_encode ds hd _ (length_le_flatten ds), Option.map_some]

/-! ## integers and pairs -/

theorem ofSignedLE_toSignedLE (w : Nat) (i : Int) (hlo : -((256 ^ w : Nat) : Int) ≤ 2 * i) (hhi : 2 * i < ((256 ^ w : Nat) : Int)) :
    ofSignedLE (toSignedLE w i) = i := by
  unfold ofSignedLE toSignedLE
  simp only [length_toLE]
  generalize hN : 256 ^ w = N at hlo hhi
  have hpos : 0 < N := by rw [← hN]; exact Nat.pow_pos (by decide)
  by_cases hneg : i < 0
  · simp only [hneg, ↓reduceIte]
    have hn : N - (-i).toNat < N := by omega
    have hr : ofLE (toLE w (N - (-i).toNat)) = N - (-i).toNat := ofLE_toLE w _ (by rw [hN]; exact hn)
    rw [hr]
    have : 2 * (N - (-i).toNat) ≥ N := by omega
    simp only [this, ↓reduceIte]
    omega
  · simp only [hneg, ↓reduceIte]
    have hn : i.toNat < N := by omega
    have hr : ofLE (toLE w i.toNat) = i.toNat := ofLE_toLE w _ (by rw [hN]; exact hn)
    rw [hr]
    have : ¬ (2 * i.toNat ≥ N) := by omega
    simp only [this, ↓reduceIte]
    omega

theorem ofSignedBE_toSignedBE (w : Nat) (i : Int) (hlo : -((256 ^ w : Nat) : Int) ≤ 2 * i) (hhi : 2 * i < ((256 ^ w : Nat) : Int)) :
    ofSignedBE (toSignedBE w i) = i := by
  simp [ofSignedBE, toSignedBE, ofSignedLE_toSignedLE w i hlo hhi]

theorem toSignedBE_length (w : Nat) (i : Int) : (toSignedBE w i).length = w := by
  simp [toSignedBE, toSignedLE]

/-- every integer MP4Tags accepts for an integer atom is read back as the same integer -/
theorem parseInt_renderInt (v : Int) (minBytes : Nat) (b : Bytes) (h : renderInt v minBytes = some b) :
    parseInt b = some v := by
  unfold renderInt intWidth at h
  have p1 : ((256 ^ 1 : Nat) : Int) = 256 := by decide
  have p2 : ((256 ^ 2 : Nat) : Int) = 65536 := by decide
  have p4 : ((256 ^ 4 : Nat) : Int) = 4294967296 := by decide
  have p8 : ((256 ^ 8 : Nat) : Int) = 18446744073709551616 := by decide
  split at h
  · rename_i c; simp only [Option.map_some, Option.some.injEq] at h; subst h
    simp only [parseInt, toSignedBE_length, true_or, ↓reduceIte]
    rw [ofSignedBE_toSignedBE 1 v (by rw [p1]; omega) (by rw [p1]; omega)]
  · split at h
    · rename_i c; simp only [Option.map_some, Option.some.injEq] at h; subst h
      simp only [parseInt, toSignedBE_length, true_or, or_true, ↓reduceIte]
      rw [ofSignedBE_toSignedBE 2 v (by rw [p2]; omega) (by rw [p2]; omega)]
    · split at h
      · rename_i c; simp only [Option.map_some, Option.some.injEq] at h; subst h
        simp only [parseInt, toSignedBE_length, true_or, or_true, ↓reduceIte]
        rw [ofSignedBE_toSignedBE 4 v (by rw [p4]; omega) (by rw [p4]; omega)]
      · split at h
        · rename_i c; simp only [Option.map_some, Option.some.injEq] at h; subst h
          simp only [parseInt, toSignedBE_length, or_true, ↓reduceIte]
          rw [ofSignedBE_toSignedBE 8 v (by rw [p8]; omega) (by rw [p8]; omega)]
        · simp at h

/-- track / disc number pairs -/
theorem parsePair_renderPair (track total : Nat) (trailing : Bool) (ht : track < 65536) (hn : total < 65536) :
    parsePair (renderPair track total trailing) = some (track, total) := by
  have l2 : ∀ n, (toBE 2 n).length = 2 := fun n => length_toBE 2 n
  have hshape : renderPair track total trailing =
      toBE 2 0 ++ (toBE 2 track ++ (toBE 2 total ++ (if trailing then toBE 2 0 else []))) := by
    simp [renderPair]
  have e1 : ((renderPair track total trailing).drop 2).take 2 = toBE 2 track := by
    rw [hshape, drop_of_len _ _ 2 (l2 0)]; exact take_of_len _ _ 2 (l2 track)
  have e2 : ((renderPair track total trailing).drop 4).take 2 = toBE 2 total := by
    rw [hshape, show (4 : Nat) = 2 + 2 from rfl, ← List.drop_drop, drop_of_len _ _ 2 (l2 0), drop_of_len _ _ 2 (l2 track)]
    exact take_of_len _ _ 2 (l2 total)
  have hlen : ¬ ((renderPair track total trailing).length < 6) := by
    rw [hshape]; simp [l2]; omega
  unfold parsePair
  simp only [hlen, ↓reduceIte, e1, e2, ofBE_toBE 2 track (by simpa using ht), ofBE_toBE 2 total (by simpa using hn)]

end Mutagen.Mp4Tags
