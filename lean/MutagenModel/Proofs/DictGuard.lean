/- Proofs/DictGuard.lean — a store and its restriction to a set of "good" keys (`GuardOf`) run alike on operation
sequences that mention good keys only, as long as the states list good keys only (C16: EasyID3). -/
import MutagenModel.Proofs.DictK
set_option linter.unusedVariables false
set_option linter.unusedSectionVars false
set_option linter.unusedSimpArgs false
namespace Mutagen.Dict
open Mutagen

/-- every key an operation mentions -/
def Op.keysOf {K V : Type} : Op K V → List K
  | .get k => [k] | .set k _ => [k] | .del k => [k] | .contains k => [k]
  | .pop k => [k] | .popD k _ => [k] | .setdefault k _ => [k] | .getD k _ => [k]
  | .update l => l.map Prod.fst
  | _ => []

section guard
variable {S K V : Type} {G : K → Bool} {m mG : MapImpl S K V}

/-- `mG` is `m` on the keys satisfying `G` (whatever it does elsewhere) -/
structure GuardOf (G : K → Bool) (m mG : MapImpl S K V) : Prop where
  keys : ∀ s, mG.keys s = m.keys s
  get : ∀ s k, G k = true → mG.getitem s k = m.getitem s k
  set : ∀ s k v, G k = true → mG.setitem s k v = m.setitem s k v
  del : ∀ s k, G k = true → mG.delitem s k = m.delitem s k

theorem guard_mapE (h : GuardOf G m mG) (s : S) (ks : List K) (hk : ∀ k ∈ ks, G k = true) :
    mapE (mG.getitem s) ks = mapE (m.getitem s) ks := by
  induction ks with
  | nil => rfl
  | cons k t ih =>
    simp only [mapE, h.get s k (hk k (by simp)), ih (fun x hx => hk x (by simp [hx]))]

theorem guard_delAll (h : GuardOf G m mG) (ks : List K) (hk : ∀ k ∈ ks, G k = true) :
    ∀ s, mG.delAll ks s = m.delAll ks s := by
  induction ks with
  | nil => intro s; rfl
  | cons k t ih =>
    intro s
    simp only [MapImpl.delAll, h.del s k (hk k (by simp))]
    cases m.delitem s k with
    | error e => rfl
    | ok s' => exact ih (fun x hx => hk x (by simp [hx])) s'

theorem guard_pop (h : GuardOf G m mG) (s : S) (k : K) (d : Option V) (hk : G k = true) :
    mG.pop s k d = m.pop s k d := by
  simp only [MapImpl.pop, h.get s k hk, h.del s k hk]

theorem guard_update (h : GuardOf G m mG) (l : List (K × V)) (hk : ∀ p ∈ l, G p.1 = true) :
    ∀ s, mG.update l s = m.update l s := by
  induction l with
  | nil => intro s; rfl
  | cons p t ih =>
    obtain ⟨k, v⟩ := p
    intro s
    simp only [MapImpl.update, h.set s k v (hk (k, v) (by simp))]
    cases m.setitem s k v with
    | error e => rfl
    | ok s' => exact ih (fun x hx => hk x (by simp [hx])) s'

/-- one operation: same output, same next state -/
theorem guard_step (h : GuardOf G m mG) (s : S) (hs : ∀ k ∈ m.keys s, G k = true) (op : Op K V)
    (hop : ∀ k ∈ Op.keysOf op, G k = true) : mG.step s op = m.step s op := by
  cases op with
  | get k => simp only [MapImpl.step, h.get s k (hop k (by simp [Op.keysOf]))]
  | set k v => simp only [MapImpl.step, h.set s k v (hop k (by simp [Op.keysOf]))]
  | del k => simp only [MapImpl.step, h.del s k (hop k (by simp [Op.keysOf]))]
  | contains k => simp only [MapImpl.step, MapImpl.contains, h.get s k (hop k (by simp [Op.keysOf]))]
  | keys => simp only [MapImpl.step, h.keys s]
  | values => simp only [MapImpl.step, MapImpl.values, h.keys s, guard_mapE h s _ hs]
  | items => simp only [MapImpl.step, MapImpl.items, MapImpl.values, h.keys s, guard_mapE h s _ hs]
  | len => simp only [MapImpl.step, MapImpl.len, h.keys s]
  | clear => simp only [MapImpl.step, MapImpl.clear, h.keys s, guard_delAll h _ hs s]
  | pop k => simp only [MapImpl.step, guard_pop h s k none (hop k (by simp [Op.keysOf]))]
  | popD k d => simp only [MapImpl.step, guard_pop h s k (some d) (hop k (by simp [Op.keysOf]))]
  | popitem =>
    simp only [MapImpl.step, MapImpl.popitem, h.keys s]
    cases hk : m.keys s with
    | nil => rfl
    | cons k t => simp only [guard_pop h s k none (hs k (by simp [hk]))]
  | update l =>
    simp only [MapImpl.step, guard_update h l (fun p hp => hop p.1 (by
      simp only [Op.keysOf]; exact List.mem_map_of_mem hp)) s]
  | setdefault k d =>
    have hk := hop k (by simp [Op.keysOf])
    simp only [MapImpl.step, MapImpl.setdefault, h.get s k hk, h.set s k d hk]
  | getD k d => simp only [MapImpl.step, MapImpl.getD, h.get s k (hop k (by simp [Op.keysOf]))]

/-- whole sequences: same outputs, same final state -/
theorem guard_run (h : GuardOf G m mG) (inv : S → Prop) (hkeys : ∀ s, inv s → ∀ k ∈ m.keys s, G k = true)
    (hstep : ∀ s op, inv s → inv (mG.step s op).2) (ops : List (Op K V)) :
    ∀ s, inv s → (∀ op ∈ ops, ∀ k ∈ Op.keysOf op, G k = true) →
      mG.run ops s = m.run ops s ∧ mG.exec ops s = m.exec ops s := by
  induction ops with
  | nil => intro s _ _; exact ⟨rfl, rfl⟩
  | cons op t ih =>
    intro s hs hall
    have h1 := guard_step h s (hkeys s hs) op (hall op (by simp))
    have h2 := ih (mG.step s op).2 (hstep s op hs) (fun o ho => hall o (by simp [ho]))
    simp only [MapImpl.run, MapImpl.exec]
    rw [← h1]
    exact ⟨by rw [h2.1], h2.2⟩

end guard
end Mutagen.Dict
